(* Proofs for C14: the model of EnumType.Set / SetNext and of the member loop of Type.resolve
   (Model/Enum.v) against the RFC-style reference Spec.C14.assign. *)
From Coq Require Import List NArith ZArith Bool Lia.
Import ListNotations.
From GY Require Import Base.Outcome Model.Number Model.Enum Spec.C14.
Local Open Scope Z_scope.

(* ---------- string equality ---------- *)
Lemma str_eqb_cons x a y b : str_eqb (x :: a) (y :: b) = (x =? y)%N && str_eqb a b.
Proof.
  unfold str_eqb. cbn [length combine forallb fst snd Nat.eqb].
  destruct (Nat.eqb (length a) (length b)), (N.eqb x y); reflexivity.
Qed.

Lemma str_eqb_eq a : forall b, str_eqb a b = true <-> a = b.
Proof.
  induction a as [|x a IH]; intros [|y b].
  - split; reflexivity.
  - split; discriminate.
  - split; discriminate.
  - rewrite str_eqb_cons, andb_true_iff, N.eqb_eq, IH. split.
    + intros [-> ->]. reflexivity.
    + intro E. inversion E. split; reflexivity.
Qed.

Lemma str_eqb_refl a : str_eqb a a = true.
Proof. now apply str_eqb_eq. Qed.

Lemma str_eqb_neq a b : a <> b -> str_eqb a b = false.
Proof. intro H. apply not_true_is_false. intro E. apply str_eqb_eq in E. contradiction. Qed.

(* ---------- the association lists ---------- *)
Lemma lookup_s_in n l v : lookup_s n l = Some v -> In (n, v) l.
Proof.
  induction l as [|[k w] r IH]; cbn; [discriminate|].
  destruct (str_eqb n k) eqn:E.
  - apply str_eqb_eq in E. subst k. intro H. inversion H. now left.
  - intro H. right. now apply IH.
Qed.

Lemma lookup_s_some_iff n l : isSome (lookup_s n l) = true <-> In n (map fst l).
Proof.
  induction l as [|[k w] r IH]; cbn [lookup_s map fst In isSome].
  - split; [discriminate|contradiction].
  - destruct (str_eqb n k) eqn:E.
    + apply str_eqb_eq in E. subst k. cbn. split; [now left|reflexivity].
    + rewrite IH. split; [now right|]. intros [H|H]; [|exact H].
      subst k. rewrite str_eqb_refl in E. discriminate.
Qed.

Lemma in_lookup_s n v l : NoDup (map fst l) -> In (n, v) l -> lookup_s n l = Some v.
Proof.
  induction l as [|[k w] r IH]; cbn [map fst In lookup_s]; [contradiction|].
  intros ND H. inversion ND as [|? ? Hk ND']; subst.
  destruct H as [H|H].
  - inversion H; subst. now rewrite str_eqb_refl.
  - destruct (str_eqb n k) eqn:E.
    + apply str_eqb_eq in E. subst k. exfalso. apply Hk.
      change n with (fst (n, v)). now apply in_map.
    + now apply IH.
Qed.

Lemma lookup_s_iff n v l : NoDup (map fst l) -> (lookup_s n l = Some v <-> In (n, v) l).
Proof. intro ND. split; [apply lookup_s_in|now apply in_lookup_s]. Qed.

Lemma name_used_iff n l : name_used n l = true <-> In n (map fst l).
Proof. unfold name_used. destruct (in_dec name_eq_dec n (map fst l)); split; auto; discriminate. Qed.

Lemma value_used_iff v l : value_used v l = true <-> In v (map snd l).
Proof. unfold value_used. destruct (in_dec Z.eq_dec v (map snd l)); split; auto; discriminate. Qed.

Lemma isSome_lookup_s n l : isSome (lookup_s n l) = name_used n l.
Proof.
  apply eq_true_iff_eq. rewrite lookup_s_some_iff, name_used_iff. reflexivity.
Qed.

Lemma lookup_update k k' v m :
  lookup_z k (update_z k' v m) = if k =? k' then Some v else lookup_z k m.
Proof.
  induction m as [|[k0 v0] r IH]; cbn [update_z lookup_z]; [reflexivity|].
  destruct (Z.eqb_spec k' k0) as [E|E]; cbn [lookup_z].
  - subst k0. destruct (Z.eqb_spec k k'); reflexivity.
  - rewrite IH. destruct (Z.eqb_spec k k0) as [E0|E0], (Z.eqb_spec k k') as [E1|E1]; try reflexivity.
    exfalso. apply E. congruence.
Qed.

Lemma NoDup_snoc {A} (l : list A) x : NoDup l -> ~ In x l -> NoDup (l ++ [x]).
Proof.
  induction l as [|a l IH]; cbn; intros ND H.
  - constructor; [intros []|constructor].
  - inversion ND as [|? ? Ha ND']; subst. constructor.
    + rewrite in_app_iff. cbn. intros [H1|[H1|[]]]; [contradiction|]. apply H. now left.
    + apply IH; [exact ND'|]. intro H1. apply H. now right.
Qed.

Lemma nodup_snd_inj (l : list (str * Z)) a b v :
  NoDup (map snd l) -> In (a, v) l -> In (b, v) l -> a = b.
Proof.
  induction l as [|[k w] r IH]; cbn [map snd In]; [contradiction|].
  intros ND Ha Hb. inversion ND as [|? ? Hw ND']; subst.
  destruct Ha as [Ha|Ha], Hb as [Hb|Hb].
  - congruence.
  - inversion Ha; subst. exfalso. apply Hw. change v with (snd (b, v)). now apply in_map.
  - inversion Hb; subst. exfalso. apply Hw. change v with (snd (a, v)). now apply in_map.
  - now apply IH.
Qed.

(* ---------- highest / last ---------- *)
Definition lastof (done : list (str * Z)) : Z :=
  match highest (map snd done) with None => -1 | Some m => m end.

Lemma highest_snoc vs v :
  highest (vs ++ [v]) = Some (match highest vs with None => v | Some m => Z.max m v end).
Proof. destruct vs as [|x r]; cbn; [reflexivity|]. now rewrite fold_left_app. Qed.

Lemma fold_max_in r : forall x, In (fold_left Z.max r x) (x :: r).
Proof.
  induction r as [|a r IH]; intro x; cbn [fold_left]; [now left|].
  destruct (IH (Z.max x a)) as [H|H].
  - rewrite <- H. destruct (Z.max_spec x a) as [[_ ->]|[_ ->]]; [right; now left|now left].
  - right; now right.
Qed.

Lemma highest_in vs m : highest vs = Some m -> In m vs.
Proof. destruct vs as [|x r]; cbn; [discriminate|]. intro H. inversion H. apply fold_max_in. Qed.

Lemma fold_max_ge r : forall x y, In y (x :: r) -> y <= fold_left Z.max r x.
Proof.
  induction r as [|a r IH]; intros x y H; cbn [fold_left].
  - destruct H as [->|[]]. lia.
  - destruct H as [->|[->|H]].
    + specialize (IH (Z.max y a) (Z.max y a) (or_introl eq_refl)). lia.
    + specialize (IH (Z.max x y) (Z.max x y) (or_introl eq_refl)). lia.
    + apply IH. now right.
Qed.

(* [highest] really is the maximum (sanity of the reference) *)
Lemma highest_max vs m : highest vs = Some m -> In m vs /\ forall y, In y vs -> y <= m.
Proof.
  intro H. split; [now apply highest_in|].
  destruct vs as [|x r]; [discriminate|]. inversion H. intros y Hy. now apply fold_max_ge.
Qed.

Lemma lastof_snoc done name v :
  (if Nat.eqb (length (done ++ [(name, v)])) 1 || (v >=? lastof done) then v else lastof done)
  = lastof (done ++ [(name, v)]).
Proof.
  unfold lastof. rewrite map_app. cbn [map snd]. rewrite highest_snoc.
  destruct done as [|p r]; [reflexivity|].
  assert (Nat.eqb (length ((p :: r) ++ [(name, v)])) 1 = false) as ->.
  { apply Nat.eqb_neq. cbn [app length]. rewrite app_length. cbn. lia. }
  cbn [orb map highest]. destruct (Z.geb_spec v (fold_left Z.max (map snd r) (snd p))); lia.
Qed.

(* ---------- the invariant ---------- *)
Definition init (bits : bool) : EnumType := if bits then NewBitfield else NewEnumType.

Record wf (bits : bool) (e : EnumType) : Prop := {
  wf_min : e_min e = lo bits;
  wf_max : e_max e = hi bits;
  wf_uni : e_unique e = negb bits;
  wf_last : e_last e = lastof (ToInt e);                 (* max assigned so far, -1 when none *)
  wf_names : NoDup (map fst (ToInt e));
  wf_range : Forall (fun v => in_range bits v = true) (map snd (ToInt e));
  wf_vals : bits = false -> NoDup (map snd (ToInt e));
  wf_ts1 : forall v n, lookup_z v (ToString e) = Some n -> In (n, v) (ToInt e);
  wf_ts2 : forall v, In v (map snd (ToInt e)) -> lookup_z v (ToString e) <> None }.

Lemma wf_init bits : wf bits (init bits).
Proof.
  destruct bits; constructor; cbn; try reflexivity; try constructor;
    try (intros; discriminate); try (intros; contradiction).
Qed.

Lemma isSome_lookup_z bits e v : wf bits e -> isSome (lookup_z v (ToString e)) = value_used v (ToInt e).
Proof.
  intro W. apply eq_true_iff_eq. rewrite value_used_iff. split.
  - destruct (lookup_z v (ToString e)) as [n|] eqn:E; [|discriminate]. intros _.
    apply (wf_ts1 _ _ W) in E. change v with (snd (n, v)). now apply in_map.
  - intro H. apply (wf_ts2 _ _ W) in H. destruct (lookup_z v (ToString e)); [reflexivity|congruence].
Qed.

Lemma in_range_iff bits v : in_range bits v = true <-> lo bits <= v <= hi bits.
Proof. unfold in_range. rewrite andb_true_iff, !Z.leb_le. reflexivity. Qed.

Lemma lo_hi bits : - 2 ^ 31 <= lo bits /\ lo bits <= 0 /\ 0 <= hi bits /\ hi bits <= 2 ^ 32 - 1.
Proof. destruct bits; cbn; lia. Qed.

(* Set: succeeds exactly on an admissible member and keeps the invariant *)
Lemma Set_step bits e name v : wf bits e ->
  if admissible bits (ToInt e) name v
  then exists e', Set_ e name v = Ok e' /\ ToInt e' = ToInt e ++ [(name, v)] /\ wf bits e'
  else Set_ e name v = Err.
Proof.
  intro W. unfold Set_, admissible.
  rewrite isSome_lookup_s, (isSome_lookup_z bits e v W), (wf_uni _ _ W), (wf_min _ _ W), (wf_max _ _ W).
  destruct (name_used name (ToInt e)) eqn:NU; cbn [negb andb]; [reflexivity|].
  destruct (negb bits && value_used v (ToInt e)) eqn:VU.
  { apply andb_true_iff in VU. destruct VU as [B V]. apply negb_true_iff in B. subst bits.
    rewrite V. reflexivity. }
  assert (VU' : bits || negb (value_used v (ToInt e)) = true).
  { destruct bits; [reflexivity|]. cbn in VU |- *. now rewrite VU. }
  rewrite VU'. cbn [andb]. unfold in_range.
  destruct (Z.ltb_spec v (lo bits)) as [L|L].
  { destruct (Z.leb_spec (lo bits) v); [lia|reflexivity]. }
  destruct (Z.gtb_spec v (hi bits)) as [G|G].
  { destruct (Z.leb_spec v (hi bits)); [lia|]. now rewrite andb_false_r. }
  destruct (Z.leb_spec (lo bits) v); [|lia]. destruct (Z.leb_spec v (hi bits)); [|lia]. cbn [andb].
  eexists. split; [reflexivity|]. split; [reflexivity|].
  assert (NN : ~ In name (map fst (ToInt e))).
  { intro HU. apply name_used_iff in HU. congruence. }
  constructor; cbn [e_min e_max e_unique e_last ToString ToInt].
  - reflexivity.
  - reflexivity.
  - reflexivity.
  - rewrite (wf_last _ _ W). apply lastof_snoc.
  - rewrite map_app. cbn [map fst]. apply NoDup_snoc; [exact (wf_names _ _ W)|exact NN].
  - rewrite map_app. cbn [map snd]. apply Forall_app. split; [exact (wf_range _ _ W)|].
    constructor; [|constructor]. apply in_range_iff. lia.
  - intro B. rewrite map_app. cbn [map snd]. apply NoDup_snoc; [exact (wf_vals _ _ W B)|].
    intro HU. apply value_used_iff in HU. subst bits. cbn in VU'. rewrite HU in VU'. discriminate.
  - intros v0 n. rewrite lookup_update, in_app_iff.
    destruct (Z.eqb_spec v0 v) as [->|N].
    + intro HU. inversion HU; subst. right. now left.
    + intro HU. left. exact (wf_ts1 _ _ W _ _ HU).
  - intros v0. rewrite map_app, in_app_iff, lookup_update. cbn [map snd In].
    destruct (Z.eqb_spec v0 v) as [->|N]; [discriminate|].
    intros [HU|[HU|[]]]; [exact (wf_ts2 _ _ W _ HU)|congruence].
Qed.

Lemma two63_val : two63 = 9223372036854775808. Proof. reflexivity. Qed.
Lemma two64_val : two64 = 18446744073709551616. Proof. reflexivity. Qed.
Lemma wrap64_small z : - 2 ^ 31 <= z <= 2 ^ 32 -> wrap64 z = z.
Proof.
  intro H. unfold wrap64. rewrite two63_val, two64_val.
  change (2 ^ 31) with 2147483648 in H. change (2 ^ 32) with 4294967296 in H.
  rewrite Z.mod_small; lia.
Qed.

(* SetNext: the automatic value is the reference's, and there is none exactly when the
   highest value is already the maximum *)
Lemma SetNext_step bits e name : wf bits e ->
  match auto_value bits (ToInt e) with
  | None => SetNext e name = Err
  | Some v => SetNext e name = Set_ e name v
  end.
Proof.
  intro W. unfold SetNext, auto_value. rewrite (wf_last _ _ W), (wf_max _ _ W). unfold lastof.
  destruct (highest (map snd (ToInt e))) as [m|] eqn:H.
  - destruct (Z.geb_spec m (hi bits)) as [G|G]; destruct (Z.ltb_spec m (hi bits)) as [L|L]; try lia.
    + reflexivity.
    + apply highest_in in H. pose proof (wf_range _ _ W) as R. rewrite Forall_forall in R.
      apply R, in_range_iff in H. pose proof (lo_hi bits).
      rewrite wrap64_small by lia. reflexivity.
  - assert ((-1 >=? hi bits) = false) as -> by (destruct bits; reflexivity).
    reflexivity.
Qed.

(* ---------- the loop over integer-valued members ---------- *)
Definition set_member_z (e : EnumType) (name : str) (v : option Z) : outcome EnumType :=
  match v with None => SetNext e name | Some i => Set_ e name i end.

(* same shape as Enum.members_loop; Set/SetNext only ever return nil or an error *)
Fixpoint members_z (e : EnumType) (idx : nat) (ms : list (str * option Z)) : EnumType * list nat :=
  match ms with
  | [] => (e, [])
  | (name, v) :: rest =>
      match set_member_z e name v with
      | Ok e' => members_z e' (S idx) rest
      | _ => let r := members_z e (S idx) rest in (fst r, idx :: snd r)
      end
  end.

Lemma set_member_z_step bits e name ov : wf bits e ->
  match (match ov with Some v => Some v | None => auto_value bits (ToInt e) end) with
  | None => set_member_z e name ov = Err
  | Some v => if admissible bits (ToInt e) name v
              then exists e', set_member_z e name ov = Ok e' /\ ToInt e' = ToInt e ++ [(name, v)] /\ wf bits e'
              else set_member_z e name ov = Err
  end.
Proof.
  intro W. destruct ov as [v|]; cbn [set_member_z].
  - apply Set_step, W.
  - pose proof (SetNext_step bits e name W) as S. destruct (auto_value bits (ToInt e)) as [v|]; [|exact S].
    rewrite S. apply Set_step, W.
Qed.

Lemma set_member_z_cases bits e name ov : wf bits e ->
  set_member_z e name ov = Err \/ exists e', set_member_z e name ov = Ok e' /\ wf bits e'.
Proof.
  intro W. pose proof (set_member_z_step bits e name ov W) as S.
  destruct (match ov with Some v => Some v | None => auto_value bits (ToInt e) end) as [v|]; [|now left].
  destruct (admissible bits (ToInt e) name v); [|now left].
  destruct S as (e' & E & _ & W'). right. now exists e'.
Qed.

(* (a) the loop against the reference, from any state satisfying the invariant *)
Lemma members_z_spec bits : forall ms e idx, wf bits e ->
  wf bits (fst (members_z e idx ms)) /\
  match assign_from bits (ToInt e) ms with
  | Some vs => snd (members_z e idx ms) = [] /\ ToInt (fst (members_z e idx ms)) = vs
  | None => snd (members_z e idx ms) <> []
  end.
Proof.
  induction ms as [|[name ov] rest IH]; intros e idx W; cbn [members_z assign_from].
  - cbn. auto.
  - pose proof (set_member_z_step bits e name ov W) as S.
    destruct (match ov with Some v => Some v | None => auto_value bits (ToInt e) end) as [v|].
    + destruct (admissible bits (ToInt e) name v).
      * destruct S as (e' & E & T & W'). rewrite E, <- T. apply IH, W'.
      * rewrite S. cbn [fst snd]. split; [apply IH, W|discriminate].
    + rewrite S. cbn [fst snd]. split; [apply IH, W|discriminate].
Qed.

(* a rejected Set / SetNext leaves the EnumType as it was (Err carries no new state and the loop
   goes on with the old one), so the members after a rejected statement are numbered as if that
   statement were absent: from any reachable state, the final name->value map is the reference
   assignment of the remaining members continued from the assignments made before *)
Theorem rejected_member_leaves_state bits e idx name ov rest : wf bits e ->
  set_member_z e name ov = Err ->
  members_z e idx ((name, ov) :: rest)
    = (fst (members_z e (S idx) rest), idx :: snd (members_z e (S idx) rest)) /\
  (forall vs, assign_from bits (ToInt e) rest = Some vs ->
     ToInt (fst (members_z e idx ((name, ov) :: rest))) = vs).
Proof.
  intros W E. cbn [members_z]. rewrite E. split; [reflexivity|].
  intros vs A. cbn [fst]. destruct (members_z_spec bits rest e (S idx) W) as [_ H].
  rewrite A in H. apply H.
Qed.

Theorem members_z_assign_ok bits ms vs : assign bits ms = Some vs ->
  snd (members_z (init bits) 0 ms) = [] /\ ToInt (fst (members_z (init bits) 0 ms)) = vs.
Proof.
  intro A. destruct (members_z_spec bits ms (init bits) 0%nat (wf_init bits)) as [_ H].
  replace (ToInt (init bits)) with (@nil (str * Z)) in H by (destruct bits; reflexivity).
  unfold assign in A. rewrite A in H. exact H.
Qed.

Theorem members_z_assign_err bits ms : assign bits ms = None ->
  snd (members_z (init bits) 0 ms) <> [].
Proof.
  intro A. destruct (members_z_spec bits ms (init bits) 0%nat (wf_init bits)) as [_ H].
  replace (ToInt (init bits)) with (@nil (str * Z)) in H by (destruct bits; reflexivity).
  unfold assign in A. rewrite A in H. exact H.
Qed.

Theorem members_z_assign_iff bits ms :
  snd (members_z (init bits) 0 ms) = [] <-> assign bits ms = Some (ToInt (fst (members_z (init bits) 0 ms))).
Proof.
  split.
  - intro H. destruct (assign bits ms) as [vs|] eqn:A.
    + destruct (members_z_assign_ok bits ms vs A) as [_ <-]. reflexivity.
    + apply members_z_assign_err in A. contradiction.
  - intro A. now apply members_z_assign_ok in A.
Qed.

Lemma members_z_wf bits ms : wf bits (fst (members_z (init bits) 0 ms)).
Proof. apply members_z_spec, wf_init. Qed.

(* ---------- consequences of the invariant: (b) and (c) ---------- *)
Lemma wf_inverse e : wf false e ->
  forall v n, lookup_z v (ToString e) = Some n <-> lookup_s n (ToInt e) = Some v.
Proof.
  intros W v n. rewrite (lookup_s_iff n v _ (wf_names _ _ W)). split.
  - apply (wf_ts1 _ _ W).
  - intro H. assert (Hv : In v (map snd (ToInt e))) by (change v with (snd (n, v)); now apply in_map).
    apply (wf_ts2 _ _ W) in Hv. destruct (lookup_z v (ToString e)) as [n'|] eqn:E; [|congruence].
    apply (wf_ts1 _ _ W) in E. f_equal.
    exact (nodup_snd_inj _ _ _ _ (wf_vals _ _ W eq_refl) E H).
Qed.

Lemma wf_sound bits e : wf bits e ->
  NoDup (map fst (ToInt e)) /\
  Forall (fun v => lo bits <= v <= hi bits) (map snd (ToInt e)) /\
  (bits = false -> NoDup (map snd (ToInt e))).
Proof.
  intro W. split; [exact (wf_names _ _ W)|]. split; [|exact (wf_vals _ _ W)].
  pose proof (wf_range _ _ W) as R. rewrite Forall_forall in *. intros v H. now apply in_range_iff, R.
Qed.

(* bitfields: value -> name returns a name that has the position, and every position has one *)
Lemma wf_bits_names bits e : wf bits e ->
  (forall v n, lookup_z v (ToString e) = Some n -> lookup_s n (ToInt e) = Some v) /\
  (forall v, In v (map snd (ToInt e)) <-> exists n, lookup_z v (ToString e) = Some n).
Proof.
  intro W. split.
  - intros v n H. apply (lookup_s_iff n v _ (wf_names _ _ W)). exact (wf_ts1 _ _ W _ _ H).
  - intro v. split.
    + intro H. apply (wf_ts2 _ _ W) in H. destruct (lookup_z v (ToString e)) as [n|]; [now exists n|congruence].
    + intros [n H]. apply (wf_ts1 _ _ W) in H. change v with (snd (n, v)). now apply in_map.
Qed.

(* ---------- the modelled loop with literals (Enum.members_loop) ---------- *)
Definition lit_z (v : option str) : outcome (option Z) :=
  match v with None => Ok None | Some s => n <- ParseInt s ;; i <- Int n ;; Ok (Some i) end.

(* a member with a literal denotes a member with an integer *)
Definition denotes (m : str * option str) (mz : str * option Z) : Prop :=
  fst m = fst mz /\ lit_z (snd m) = Ok (snd mz).

Lemma set_member_lit e name v : set_member e name v = (oz <- lit_z v ;; set_member_z e name oz).
Proof.
  destruct v as [s|]; cbn [set_member lit_z obind set_member_z]; [|reflexivity].
  destruct (ParseInt s) as [n| | |]; cbn [obind]; try reflexivity.
  destruct (Int n); reflexivity.
Qed.

Lemma Set_ok_or_err e name v : Set_ e name v = Err \/ exists e', Set_ e name v = Ok e'.
Proof.
  unfold Set_. destruct (isSome (lookup_s name (ToInt e))); [now left|].
  destruct (e_unique e && isSome (lookup_z v (ToString e))); [now left|].
  destruct (v <? e_min e); [now left|]. destruct (v >? e_max e); [now left|]. right. eexists. reflexivity.
Qed.

Lemma set_member_z_ok_or_err e name ov :
  set_member_z e name ov = Err \/ exists e', set_member_z e name ov = Ok e'.
Proof.
  destruct ov as [v|]; cbn [set_member_z]; [apply Set_ok_or_err|].
  unfold SetNext. destruct (e_last e >=? e_max e); [now left|apply Set_ok_or_err].
Qed.

Lemma members_loop_z : forall ms msz e idx, Forall2 denotes ms msz ->
  members_loop e idx ms = Ok (members_z e idx msz).
Proof.
  intros ms msz e idx F. revert e idx.
  induction F as [|[name v] [name' oz] ms msz [D1 D2] F IH]; intros e idx; [reflexivity|].
  cbn [fst snd] in D1, D2. subst name'.
  cbn [members_loop members_z]. rewrite set_member_lit, D2. cbn [obind].
  destruct (set_member_z_ok_or_err e name oz) as [E|[e' E]]; rewrite E.
  - rewrite IH. reflexivity.
  - apply IH.
Qed.

Lemma members_loop_noerr : forall ms e idx e', members_loop e idx ms = Ok (e', []) ->
  exists msz, Forall2 denotes ms msz.
Proof.
  induction ms as [|[name v] rest IH]; intros e idx e' H.
  - exists []. constructor.
  - cbn [members_loop] in H. rewrite set_member_lit in H.
    destruct (lit_z v) as [oz| | |] eqn:L; cbn [obind] in H; try discriminate.
    + destruct (set_member_z_ok_or_err e name oz) as [E|[e1 E]]; rewrite E in H.
      * destruct (members_loop e (S idx) rest); cbn [obind] in H; discriminate.
      * destruct (IH _ _ _ H) as [msz F]. exists ((name, oz) :: msz). constructor; [|exact F].
        split; [reflexivity|exact L].
    + destruct (members_loop e (S idx) rest); cbn [obind] in H; discriminate.
Qed.

Lemma members_loop_wf bits : forall ms e idx r, wf bits e -> members_loop e idx ms = Ok r -> wf bits (fst r).
Proof.
  induction ms as [|[name v] rest IH]; intros e idx r W H; cbn [members_loop] in H.
  - inversion H. exact W.
  - rewrite set_member_lit in H.
    assert (Hskip : (r0 <- members_loop e (S idx) rest ;; Ok (fst r0, idx :: snd r0)) = Ok r -> wf bits (fst r)).
    { destruct (members_loop e (S idx) rest) as [r0| | |] eqn:M; cbn [obind]; try discriminate.
      intro X. inversion X. cbn [fst]. exact (IH _ _ _ W M). }
    destruct (lit_z v) as [oz| | |]; cbn [obind] in H; try discriminate.
    + destruct (set_member_z_cases bits e name oz W) as [E|(e1 & E & W1)]; rewrite E in H.
      * now apply Hskip.
      * exact (IH _ _ _ W1 H).
    + now apply Hskip.
Qed.

Lemma run_members_wf bits ms e errs : run_members bits ms = Ok (e, errs) -> wf bits e.
Proof.
  unfold run_members. intro H. change e with (fst (e, errs)).
  apply (members_loop_wf bits ms (init bits) 0%nat); [apply wf_init|exact H].
Qed.

Lemma run_members_last bits ms e errs : run_members bits ms = Ok (e, errs) ->
  e_last e = match highest (map snd (ToInt e)) with None => -1 | Some m => m end.
Proof. intro H. exact (wf_last _ _ (run_members_wf _ _ _ _ H)). Qed.

(* (a) for the modelled loop: no error recorded <-> every literal denotes an integer and the
   reference accepts the members, and then the name->value map is the reference's assignment *)
Theorem run_members_assign bits ms e errs : run_members bits ms = Ok (e, errs) ->
  (errs = [] <-> exists msz, Forall2 denotes ms msz /\ assign bits msz = Some (ToInt e)).
Proof.
  intro H. assert (R : run_members bits ms = members_loop (init bits) 0 ms) by reflexivity.
  rewrite R in H. split.
  - intro E. subst errs. destruct (members_loop_noerr _ _ _ _ H) as [msz F]. exists msz. split; [exact F|].
    rewrite (members_loop_z ms msz _ _ F) in H. inversion H as [H1].
    pose proof (proj1 (members_z_assign_iff bits msz)) as X. rewrite H1 in X. cbn [fst snd] in X.
    apply X. reflexivity.
  - intros (msz & F & A). rewrite (members_loop_z ms msz _ _ F) in H. inversion H as [H1].
    pose proof (proj2 (members_z_assign_iff bits msz)) as X. rewrite H1 in X. cbn [fst snd] in X.
    apply X, A.
Qed.

(* when the literals denote integers, the modelled loop is the integer loop *)
Theorem run_members_z bits ms msz : Forall2 denotes ms msz ->
  run_members bits ms = Ok (members_z (init bits) 0 msz).
Proof. intro F. unfold run_members. now apply members_loop_z. Qed.

Theorem run_members_inverse ms e errs : run_members false ms = Ok (e, errs) ->
  forall v n, lookup_z v (ToString e) = Some n <-> lookup_s n (ToInt e) = Some v.
Proof. intro H. apply wf_inverse. exact (run_members_wf _ _ _ _ H). Qed.

Theorem run_members_sound bits ms e errs : run_members bits ms = Ok (e, errs) ->
  NoDup (map fst (ToInt e)) /\
  Forall (fun v => lo bits <= v <= hi bits) (map snd (ToInt e)) /\
  (bits = false -> NoDup (map snd (ToInt e))).
Proof. intro H. apply wf_sound. exact (run_members_wf _ _ _ _ H). Qed.

Theorem run_members_bits_names bits ms e errs : run_members bits ms = Ok (e, errs) ->
  (forall v n, lookup_z v (ToString e) = Some n -> lookup_s n (ToInt e) = Some v) /\
  (forall v, In v (map snd (ToInt e)) <-> exists n, lookup_z v (ToString e) = Some n).
Proof. intro H. apply (wf_bits_names bits). exact (run_members_wf _ _ _ _ H). Qed.

(* the name->value map read as a map agrees with the list of assignments *)
Theorem run_members_lookup bits ms e errs : run_members bits ms = Ok (e, errs) ->
  forall n v, lookup_s n (ToInt e) = Some v <-> In (n, v) (ToInt e).
Proof. intros H n v. apply lookup_s_iff. exact (wf_names _ _ (run_members_wf _ _ _ _ H)). Qed.

(* the modelled loop returns (neither panics nor leaves the model) unless a literal is outside
   the alphabet of the strconv model *)
Lemma acc_digits_total base maxv s : forall acc,
  acc_digits base maxv acc s = Err \/ exists z, acc_digits base maxv acc s = Ok z.
Proof.
  induction s as [|c r IH]; intro acc; cbn [acc_digits]; [right; now eexists|].
  destruct (is_digit c); [|now left]. destruct (digit_val c >=? base); [now left|].
  destruct (acc * base + digit_val c >? maxv); [now left|apply IH].
Qed.

Lemma ParseInt_total s : ParseInt s = Unmodelled \/ ParseInt s = Err \/ exists n, ParseInt s = Ok n.
Proof.
  unfold ParseInt. destruct (non_ascii s); [now left|].
  destruct (TrimSpace s) as [|c r]; [right; now left|].
  destruct (str_eqb (c :: r) [cplus] || str_eqb (c :: r) [cminus]); [right; now left|].
  assert (X : forall neg ns,
    (let '(neg, ns) := (neg, ns) in v <- ParseUint0 ns ;; Ok {| Value := v; FractionDigits := 0; Negative := neg |}) = Unmodelled \/
    (let '(neg, ns) := (neg, ns) in v <- ParseUint0 ns ;; Ok {| Value := v; FractionDigits := 0; Negative := neg |}) = Err \/
    exists n, (let '(neg, ns) := (neg, ns) in v <- ParseUint0 ns ;; Ok {| Value := v; FractionDigits := 0; Negative := neg |}) = Ok n);
  [|destruct (c =? cplus)%N; [apply X|destruct (c =? cminus)%N; apply X]].
  intros neg ns.
  assert (U : ParseUint0 ns = Unmodelled \/ ParseUint0 ns = Err \/ exists z, ParseUint0 ns = Ok z).
  { unfold ParseUint0. destruct (existsb is_alpha_us ns); [now left|]. right.
    destruct ns as [|d ds]; [now left|]. destruct (d =? 48)%N; apply acc_digits_total. }
  cbv beta iota. destruct U as [->|[->|[z ->]]]; cbn [obind]; [now left|right; now left|right; right; now eexists].
Qed.

Lemma Int_total n : Int n = Err \/ exists z, Int n = Ok z.
Proof.
  unfold Int. destruct (IsDecimal n); [now left|]. destruct (Negative n).
  - destruct (Value n >? AbsMinInt64); [now left|right; now eexists].
  - destruct (Value n <=? MaxInt64); [right; now eexists|now left].
Qed.

Lemma lit_z_total v : (forall s, v = Some s -> ParseInt s <> Unmodelled) ->
  lit_z v = Err \/ exists oz, lit_z v = Ok oz.
Proof.
  intro H. destruct v as [s|]; cbn [lit_z]; [|right; now eexists].
  specialize (H s eq_refl).
  destruct (ParseInt_total s) as [U|[->|[n ->]]]; [contradiction|now left|]. cbn [obind].
  destruct (Int_total n) as [->|[z ->]]; cbn [obind]; [now left|right; now eexists].
Qed.

Lemma members_loop_total : forall ms e idx,
  (forall name s, In (name, Some s) ms -> ParseInt s <> Unmodelled) ->
  exists e' errs, members_loop e idx ms = Ok (e', errs).
Proof.
  induction ms as [|[name v] rest IH]; intros e idx H; cbn [members_loop].
  - now exists e, [].
  - assert (Hr : forall name s, In (name, Some s) rest -> ParseInt s <> Unmodelled).
    { intros n s Hin. apply (H n s). now right. }
    assert (Hskip : exists e' errs, (r <- members_loop e (S idx) rest ;; Ok (fst r, idx :: snd r)) = Ok (e', errs)).
    { destruct (IH e (S idx) Hr) as (e' & errs & ->). cbn [obind fst snd]. now eexists _, _. }
    rewrite set_member_lit.
    destruct (lit_z_total v) as [->|[oz ->]]; cbn [obind].
    + intros s ->. apply (H name s). now left.
    + exact Hskip.
    + destruct (set_member_z_ok_or_err e name oz) as [->|[e1 ->]]; [exact Hskip|apply IH, Hr].
Qed.

Theorem run_members_total bits ms :
  (forall name s, In (name, Some s) ms -> ParseInt s <> Unmodelled) ->
  exists e errs, run_members bits ms = Ok (e, errs).
Proof. intro H. unfold run_members. now apply members_loop_total. Qed.

(* ---------- the pinned commit (D34, D35) ---------- *)
Definition set_member_z_old (e : EnumType) (name : str) (v : option Z) : outcome EnumType :=
  match v with None => SetNext_old e name | Some i => Set_old e name i end.
Fixpoint members_z_old (e : EnumType) (idx : nat) (ms : list (str * option Z)) : EnumType * list nat :=
  match ms with
  | [] => (e, [])
  | (name, v) :: rest =>
      match set_member_z_old e name v with
      | Ok e' => members_z_old e' (S idx) rest
      | _ => let r := members_z_old e (S idx) rest in (fst r, idx :: snd r)
      end
  end.

Definition nm_a : str := [97%N].
Definition nm_b : str := [98%N].

(* D34: enum a{value -5;} enum b;  gave b = 0, the reference says -4 *)
Lemma old_enum_refuted : exists ms vs,
  assign false ms = Some vs /\ snd (members_z_old NewEnumType 0 ms) = [] /\
  ToInt (fst (members_z_old NewEnumType 0 ms)) <> vs.
Proof.
  exists [(nm_a, Some (-5)); (nm_b, None)], [(nm_a, -5); (nm_b, -4)].
  split; [vm_compute; reflexivity|]. split; [vm_compute; reflexivity|]. vm_compute. discriminate.
Qed.

(* D35: bit a{position 2147483647;} bit b;  was rejected, the reference assigns 2147483648 *)
Lemma old_bits_refuted : exists ms vs,
  assign true ms = Some vs /\ snd (members_z_old NewBitfield 0 ms) <> [].
Proof.
  exists [(nm_a, Some 2147483647); (nm_b, None)], [(nm_a, 2147483647); (nm_b, 2147483648)].
  split; [vm_compute; reflexivity|]. vm_compute. discriminate.
Qed.
