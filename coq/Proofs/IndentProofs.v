From Coq Require Import List NArith ZArith Bool Lia.
Import ListNotations.
From GY Require Import Model.Indent Spec.C20.

Local Open Scope Z_scope.

(* ---------- split_after / join versus the character-level reading ---------- *)

Lemma split_after_nil b : split_after b = [] -> b = [].
Proof.
  destruct b as [|c b]; cbn; [easy|].
  destruct (N.eqb c LF); [easy|]. destruct (split_after b); easy.
Qed.

Lemma concat_split_after b : concat (split_after b) = b.
Proof.
  induction b as [|c b IH]; cbn; [easy|].
  destruct (N.eqb c LF); cbn; [now rewrite IH|].
  destruct (split_after b) as [|l ls] eqn:E; cbn in *.
  - now rewrite <- IH.
  - now rewrite <- IH.
Qed.

Lemma join_split p b (s : bool) :
  join (if s then [] :: split_after b else split_after b) p = ind_sm p s b.
Proof.
  revert s. induction b as [|c b IH]; intro s.
  - destruct s; reflexivity.
  - cbn [split_after ind_sm]. destruct (N.eqb c LF) eqn:E.
    + pose proof (IH true) as IHt. cbn [join app] in IHt.
      destruct s; cbn [join flat_map app]; rewrite <- IHt, ?app_nil_r; cbn;
        rewrite <- ?app_assoc; reflexivity.
    + pose proof (IH false) as IHf.
      destruct (split_after b) as [|l ls] eqn:Es.
      * apply split_after_nil in Es. subst b. destruct s; cbn; rewrite ?app_nil_r; reflexivity.
      * cbn [join] in IHf. destruct s; cbn [join flat_map app]; rewrite <- IHf; cbn;
          rewrite <- ?app_assoc; reflexivity.
Qed.

Lemma ind_sm_nil s b : ind_sm [] s b = b.
Proof. revert s. induction b as [|c b IH]; intro s; cbn; [easy|]. destruct s; cbn; now rewrite IH. Qed.

Lemma Bytes_spec p b : Bytes p b = spec_indent p b.
Proof.
  unfold Bytes, spec_indent. destruct p as [|x p].
  - clear. generalize true. induction b as [|c b IH]; intro s; cbn; [easy|].
    destruct s; cbn; now rewrite <- IH.
  - destruct b as [|c b]; [reflexivity|]. apply (join_split (x :: p) (c :: b) true).
Qed.

(* ---------- the character-level reading is compositional ---------- *)

Definition st_after (s : bool) (a : list byte) : bool :=
  match a with [] => s | _ => last_is_lf a end.

Lemma last_is_lf_cons c a : a <> [] -> last_is_lf (c :: a) = last_is_lf a.
Proof. destruct a; [easy|]. intros _. reflexivity. Qed.

Lemma last_is_lf_app a b : b <> [] -> last_is_lf (a ++ b) = last_is_lf b.
Proof.
  intro H. induction a as [|c a IH]; [easy|].
  cbn [app]. rewrite last_is_lf_cons; [exact IH|]. destruct a; cbn; [exact H|easy].
Qed.

Lemma st_after_cons s c a : st_after s (c :: a) = st_after (N.eqb c LF) a.
Proof.
  unfold st_after. destruct a as [|d a]; [reflexivity|].
  apply (last_is_lf_cons c (d :: a)). easy.
Qed.

Lemma ind_sm_app p s a b :
  ind_sm p s (a ++ b) = ind_sm p s a ++ ind_sm p (st_after s a) b.
Proof.
  revert s. induction a as [|c a IH]; intro s; [reflexivity|].
  cbn [app ind_sm]. rewrite IH, st_after_cons. rewrite <- app_assoc. cbn [app]. reflexivity.
Qed.

Lemma ind_sm_last p s b : b <> [] -> last_is_lf (ind_sm p s b) = last_is_lf b.
Proof.
  revert s. induction b as [|c b IH]; intros s H; [easy|].
  cbn [ind_sm]. destruct b as [|d b].
  - cbn [ind_sm]. rewrite last_is_lf_app by easy. reflexivity.
  - rewrite last_is_lf_app by easy.
    rewrite (last_is_lf_cons c (d :: b)) by easy.
    assert (N : ind_sm p (N.eqb c LF) (d :: b) <> []).
    { cbn [ind_sm]. destruct (N.eqb c LF); [destruct p|]; cbn; easy. }
    rewrite (last_is_lf_cons c _ N). apply IH. easy.
Qed.

(* ---------- the writer ---------- *)

(* invariant between the text accepted so far and the writer state *)
Definition winv (prefix acc : list byte) (w : writer) : Prop :=
  match prefix with
  | [] => w = Pass
  | _ => w = Ind (mid_line acc)
  end.

Lemma winv_init p : winv p [] (NewWriter p).
Proof. destruct p; reflexivity. Qed.

Lemma mid_line_st acc : negb (mid_line acc) = st_after true acc.
Proof. destruct acc; cbn; [easy|]. now rewrite negb_involutive. Qed.

Definition Write_ind (prefix : list byte) (partial : bool) (buf : list byte) (acc : option Z) : wres :=
  let lines := if partial then split_after buf else [] :: split_after buf in
  let joined := join lines prefix in
  let partial' := negb (last_is_lf joined) in
  match acc with
  | None => {| w_n := Z.of_nat (length buf); w_err := false; w_out := joined;
               w_state := Ind partial' |}
  | Some n => {| w_n := actualWrittenSize n (Z.of_nat (length prefix)) lines;
                 w_err := true; w_out := underlying joined acc;
                 w_state := Ind partial' |}
  end.

Lemma Write_ind_eq p partial buf acc :
  buf <> [] -> Write p (Ind partial) buf acc = Write_ind p partial buf acc.
Proof. destruct buf; [easy|]. intros _. reflexivity. Qed.

Lemma Write_ok_step p acc w buf :
  winv p acc w ->
  let r := Write p w buf None in
  w_n r = Z.of_nat (length buf) /\ w_err r = false /\
  winv p (acc ++ buf) (w_state r) /\
  spec_indent p (acc ++ buf) = spec_indent p acc ++ w_out r.
Proof.
  unfold winv. destruct p as [|x p]; intros Hw; subst w; cbn zeta.
  - cbn [Write w_n w_err w_state w_out]. repeat split.
    unfold spec_indent. now rewrite !ind_sm_nil.
  - destruct buf as [|c buf].
    + cbn [Write w_n w_err w_state w_out length]. rewrite !app_nil_r. repeat split.
    + remember (c :: buf) as b eqn:Eb. assert (Hb : b <> []) by (subst; easy).
      rewrite Write_ind_eq by exact Hb. unfold Write_ind.
      cbn [w_n w_err w_state w_out].
      pose proof (join_split (x :: p) b (negb (mid_line acc))) as J.
      destruct (mid_line acc) eqn:Em; cbn [negb] in J; rewrite J.
      * repeat split.
        -- rewrite ind_sm_last by exact Hb. unfold mid_line.
           destruct (acc ++ b) eqn:E; [destruct acc; cbn in E; subst; easy|]. rewrite <- E.
           now rewrite last_is_lf_app.
        -- unfold spec_indent. rewrite ind_sm_app. rewrite <- mid_line_st, Em. reflexivity.
      * repeat split.
        -- rewrite ind_sm_last by exact Hb. unfold mid_line.
           destruct (acc ++ b) eqn:E; [destruct acc; cbn in E; subst; easy|]. rewrite <- E.
           now rewrite last_is_lf_app.
        -- unfold spec_indent. rewrite ind_sm_app. rewrite <- mid_line_st, Em. reflexivity.
Qed.

Definition ok_calls (chunks : list (list byte)) : list (list byte * option Z) :=
  map (fun c => (c, None)) chunks.

Lemma run_chunks_gen p chunks : forall acc w,
  winv p acc w ->
  fst (run p w (ok_calls chunks)) = map (fun c => (Z.of_nat (length c), false)) chunks /\
  spec_indent p (acc ++ concat chunks) = spec_indent p acc ++ snd (run p w (ok_calls chunks)).
Proof.
  induction chunks as [|c chunks IH]; intros acc w Hw.
  - cbn. rewrite !app_nil_r. easy.
  - cbn [ok_calls map run concat].
    destruct (Write_ok_step p acc w c Hw) as (Hn & He & Hi & Ho).
    specialize (IH (acc ++ c) _ Hi). fold (ok_calls chunks) in *.
    destruct (run p (w_state (Write p w c None)) (ok_calls chunks)) as [rs out] eqn:Er.
    cbn [fst snd] in *. destruct IH as [IH1 IH2]. split.
    + rewrite Hn, He, IH1. reflexivity.
    + rewrite app_assoc, IH2, Ho, <- app_assoc. reflexivity.
Qed.

Lemma run_chunks p chunks :
  run p (NewWriter p) (ok_calls chunks)
  = (map (fun c => (Z.of_nat (length c), false)) chunks, Bytes p (concat chunks)).
Proof.
  destruct (run_chunks_gen p chunks [] _ (winv_init p)) as [H1 H2].
  destruct (run p (NewWriter p) (ok_calls chunks)) as [rs out]. cbn [fst snd] in *.
  rewrite Bytes_spec. cbn [app] in H2. rewrite H2, H1.
  unfold spec_indent. reflexivity.
Qed.

(* nothing is added after the final line break, and every line starts with the prefix:
   both are read off [ind_sm]; the first is stated explicitly. *)
Lemma spec_indent_ends p b : b <> [] -> last_is_lf (spec_indent p b) = last_is_lf b.
Proof. apply ind_sm_last. Qed.

(* ---------- short writes: caller-byte accounting ---------- *)

Lemma tind_erase p s b : map snd (tind_sm p s b) = ind_sm p s b.
Proof.
  revert s. induction b as [|c b IH]; intro s; cbn; [easy|].
  rewrite map_app. cbn. rewrite IH. destruct s; cbn; [|easy].
  unfold tag. rewrite map_map. cbn. now rewrite map_id.
Qed.

Lemma filter_tag_false l : filter fst (tag false l) = [].
Proof. induction l; cbn; easy. Qed.

Lemma tind_caller p s b : map snd (filter fst (tind_sm p s b)) = b.
Proof.
  revert s. induction b as [|c b IH]; intro s; cbn; [easy|].
  rewrite filter_app. cbn. rewrite map_app. cbn. rewrite IH.
  destruct s; cbn; [rewrite filter_tag_false|]; reflexivity.
Qed.

(* tagged version of join over the split lines *)
Definition tjoin (lines : list (list byte)) (sep : list byte) : list (bool * byte) :=
  match lines with
  | [] => []
  | l :: ls => tag true l ++ flat_map (fun x => tag false sep ++ tag true x) ls
  end.

Lemma tjoin_split p b (s : bool) :
  tjoin (if s then [] :: split_after b else split_after b) p = tind_sm p s b.
Proof.
  revert s. induction b as [|c b IH]; intro s.
  - destruct s; reflexivity.
  - cbn [split_after tind_sm]. destruct (N.eqb c LF) eqn:E.
    + pose proof (IH true) as IHt. cbn [tjoin tag map app] in IHt.
      destruct s; cbn [tjoin flat_map app tag map]; rewrite <- IHt, ?app_nil_r; cbn;
        rewrite <- ?app_assoc; reflexivity.
    + pose proof (IH false) as IHf.
      destruct (split_after b) as [|l ls] eqn:Es.
      * apply split_after_nil in Es. subst b. destruct s; cbn; rewrite ?app_nil_r; reflexivity.
      * cbn [tjoin] in IHf. destruct s; cbn [tjoin flat_map app tag map]; rewrite <- IHf; cbn;
          rewrite <- ?app_assoc; reflexivity.
Qed.

Lemma cc_nil n : caller_count n [] = 0.
Proof. unfold caller_count. now rewrite firstn_nil. Qed.

Lemma cc_app n a b :
  caller_count n (a ++ b) = caller_count n a + caller_count (n - Z.of_nat (length a)) b.
Proof.
  unfold caller_count. rewrite firstn_app, filter_app, app_length.
  replace (Z.to_nat (n - Z.of_nat (length a))) with (Z.to_nat n - length a)%nat by lia.
  lia.
Qed.

Lemma cc_tag_false n l : caller_count n (tag false l) = 0.
Proof.
  unfold caller_count.
  assert (H : forall k, filter fst (firstn k (tag false l)) = []).
  { induction l as [|x l IH]; intro k; destruct k; cbn; auto. }
  now rewrite H.
Qed.

Lemma cc_tag_true n l :
  caller_count n (tag true l) = Z.min (Z.max n 0) (Z.of_nat (length l)).
Proof.
  unfold caller_count.
  assert (H : forall k, length (filter fst (firstn k (tag true l))) = Nat.min k (length l)).
  { induction l as [|x l IH]; intro k; destruct k; cbn; auto. }
  rewrite H. lia.
Qed.

Lemma tag_length t l : length (tag t l) = length l.
Proof. unfold tag. now rewrite map_length. Qed.

Lemma cc_neg n t : n <= 0 -> caller_count n t = 0.
Proof. intro H. unfold caller_count. replace (Z.to_nat n) with 0%nat by lia. reflexivity. Qed.

Lemma aws_loop_false p ls : forall actual remain,
  aws_loop false actual remain (Z.of_nat (length p)) ls
  = actual + caller_count remain (flat_map (fun x => tag false p ++ tag true x) ls).
Proof.
  induction ls as [|x ls IH]; intros actual remain.
  - cbn. rewrite cc_nil. lia.
  - cbn [aws_loop flat_map]. rewrite <- app_assoc.
    rewrite (cc_app remain), (cc_app (remain - _)), cc_tag_false, cc_tag_true, !tag_length.
    destruct (Z.leb_spec (remain - Z.of_nat (length p)) 0) as [H|H].
    + rewrite cc_neg by lia. lia.
    + destruct (Z.leb_spec (remain - Z.of_nat (length p)) (Z.of_nat (length x))) as [H2|H2].
      * rewrite cc_neg by lia. lia.
      * rewrite IH. lia.
Qed.

Lemma aws_spec n p lines :
  actualWrittenSize n (Z.of_nat (length p)) lines = caller_count n (tjoin lines p).
Proof.
  unfold actualWrittenSize. destruct lines as [|l ls].
  - cbn. now rewrite cc_nil.
  - cbn [aws_loop tjoin]. rewrite cc_app, cc_tag_true, tag_length.
    destruct (Z.leb_spec n 0) as [H|H]; [rewrite cc_neg by lia; lia|].
    destruct (Z.leb_spec n (Z.of_nat (length l))) as [H2|H2]; [rewrite cc_neg by lia; lia|].
    rewrite aws_loop_false. lia.
Qed.

Lemma caller_count_bounds n t :
  0 <= caller_count n t <= Z.of_nat (length (filter fst t)).
Proof.
  unfold caller_count. split; [lia|].
  apply inj_le.
  rewrite <- (firstn_skipn (Z.to_nat n) t) at 2. rewrite filter_app, app_length. lia.
Qed.

(* The statement for one short Write of the indenting writer. *)
Lemma Write_short p partial buf n :
  p <> [] -> buf <> [] ->
  let r := Write p (Ind partial) buf (Some n) in
  let t := tind_sm p (negb partial) buf in
  w_err r = true /\
  w_out r = firstn (Z.to_nat n) (map snd t) /\
  w_n r = caller_count n t /\
  0 <= w_n r <= Z.of_nat (length buf).
Proof.
  intros Hp Hb. destruct buf as [|c buf]; [easy|]. clear Hb.
  remember (c :: buf) as b. cbn zeta.
  rewrite Write_ind_eq by (subst; easy). unfold Write_ind.
  cbn [w_n w_err w_out underlying].
  assert (J : join (if partial then split_after b else [] :: split_after b) p
              = ind_sm p (negb partial) b).
  { pose proof (join_split p b (negb partial)) as J. destruct partial; exact J. }
  assert (T : tjoin (if partial then split_after b else [] :: split_after b) p
              = tind_sm p (negb partial) b).
  { pose proof (tjoin_split p b (negb partial)) as J'. destruct partial; exact J'. }
  rewrite J, aws_spec, T, tind_erase.
  repeat split; try reflexivity.
  - apply caller_count_bounds.
  - pose proof (caller_count_bounds n (tind_sm p (negb partial) b)) as [_ H].
    rewrite <- (map_length snd), tind_caller in H. exact H.
Qed.
