(* C12 — namespace attribution END TO END through Process (T2 (b)).
   The per-step lemmas of ConfigNsProofs.v are chained through Entry.Augment (Find's on-demand input/output, the graft),
   the retry loop with swap-remove, the rounds {retry loop; FixChoice}, and the final reporting pass:
     new_pos, locate_fix_choice, ns_walk_fix_choice   FixChoice moves every existing node to new_pos and keeps its
                                                      namespace (the inserted case carries its member's stamp)
     carries, carries_update, carries_fix             a stage that holds every node of the stage before, with the same
                                                      attributes and namespace, at a mapped position
     from_augment, all_trees_*                        every stamp sits on (the implicit case of) a top-level child of the
                                                      body of an augment of a module with that owner namespace
     attributed, graft_attributed                     all nodes an augment's body defines are present and report the
                                                      declaring module's namespace
     inv, inv_module/_pass/_loop/_rounds/_final_pass  the invariant of the augment stage
     Process_attribution, Namespace_provenance        the theorems; the stages of Process and the facts "a clean result
                                                      leaves no augment pending" / "no deviations: the deviation stage
                                                      is the identity" are imported from Spec/C07.v, AugmentProofs.v
     apply_add_replace_ns, apply_delete_ns, keep_children_ns   deviate statements do not touch a node's stamp
     to_entry_cfg                                     the config and name of a built entry are the statement's *)
From Coq Require Import List NArith Bool Arith Lia Wf_nat.
From GY Require Import Model.Schema Spec.C17 Spec.C12 Proofs.FindProofs Proofs.ConfigNsProofs.
From GY Require Spec.C07 Proofs.AugmentProofs.
Import ListNotations.
Local Open Scope N_scope.

(* ------------------------------------------------------------------ FixChoice, one level *)
Definition is_choice (e : entry) : bool := match e_kind e with KChoice => true | _ => false end.
Definition is_case (e : entry) : bool := match e_kind e with KCase => true | _ => false end.
(* what a child c of e looks like after the wrapping pass of FixChoice on e *)
Definition wrap_in (e c : entry) : entry := if is_choice e && negb (is_case c) then implicit_case c else c.

Lemma fix_choice_dir f e :
  e_dir (fix_choice (S f) e) =
  option_map (map (fun kv => (fst kv, fix_choice f (wrap_in e (snd kv))))) (e_dir e).
Proof.
  cbn [fix_choice].
  set (e1 := match e_kind e with KChoice => _ | _ => e end).
  assert (H1 : e_dir e1 = option_map (map (fun kv => (fst kv, wrap_in e (snd kv)))) (e_dir e) /\ e_rpc e1 = e_rpc e).
  { assert (Hid : forall d : list (str * entry), is_choice e = false ->
              d = map (fun kv => (fst kv, wrap_in e (snd kv))) d).
    { intros d Hc. rewrite <- (map_id d) at 1. apply map_ext. intros [k v]. unfold wrap_in. now rewrite Hc. }
    unfold e1. destruct (e_kind e) eqn:Ek; destruct (e_dir e) as [d|] eqn:Ed; rewrite ?Ed; cbn [option_map];
      try (split; [|reflexivity]; try reflexivity; f_equal; apply Hid; unfold is_choice; now rewrite Ek).
    rewrite e_dir_set_dir, e_rpc_set_dir. split; [|reflexivity]. f_equal. apply map_ext. intros [k v]. cbn [fst snd].
    unfold wrap_in, is_choice, is_case, implicit_case. rewrite Ek. cbn [andb]. now destruct (e_kind v). }
  destruct H1 as [H1 H1r].
  set (e2 := match e_dir e1 with Some d => _ | None => e1 end).
  assert (H2 : e_dir e2 = option_map (map (fun kv => (fst kv, fix_choice f (wrap_in e (snd kv))))) (e_dir e)).
  { unfold e2. rewrite H1. destruct (e_dir e) as [d|]; cbn [option_map]; [|now rewrite H1].
    rewrite e_dir_set_dir, map_map. reflexivity. }
  destruct (e_rpc e2) as [[i o]|]; [now rewrite e_dir_set_rpc|exact H2].
Qed.

Lemma fix_choice_rpc f e :
  e_rpc (fix_choice (S f) e) =
  option_map (fun io => (option_map (fix_choice f) (fst io), option_map (fix_choice f) (snd io))) (e_rpc e).
Proof.
  cbn [fix_choice].
  set (e1 := match e_kind e with KChoice => _ | _ => e end).
  assert (H1 : e_rpc e1 = e_rpc e).
  { unfold e1. destruct (e_kind e); try reflexivity. destruct (e_dir e); [apply e_rpc_set_dir|reflexivity]. }
  set (e2 := match e_dir e1 with Some d => _ | None => e1 end).
  assert (H2 : e_rpc e2 = e_rpc e).
  { unfold e2. destruct (e_dir e1); [now rewrite e_rpc_set_dir|exact H1]. }
  rewrite H2. destruct (e_rpc e) as [[i o]|]; cbn [option_map fst snd]; [now rewrite e_rpc_set_rpc|exact H2].
Qed.

Lemma fix_choice_child f e k :
  dir_lookup (fix_choice (S f) e) k = option_map (fun c => fix_choice f (wrap_in e c)) (dir_lookup e k).
Proof.
  unfold dir_lookup. rewrite fix_choice_dir. destruct (e_dir e) as [d|]; [|reflexivity]. cbn [option_map].
  apply (lookup_map_values (fun c => fix_choice f (wrap_in e c))).
Qed.

Lemma fix_choice_e_ns f e : e_ns (fix_choice f e) = e_ns e.
Proof. apply label_e_ns, label_fix_choice. Qed.

(* the only child of the case FixChoice inserts *)
Lemma implicit_case_child f c k :
  dir_lookup (fix_choice f (implicit_case c)) k =
  if str_eqb k (e_name c) then Some (fix_choice (pred f) c) else None.
Proof.
  destruct f as [|f]; [unfold dir_lookup; cbn; now destruct (str_eqb k (e_name c))|].
  rewrite fix_choice_child. unfold dir_lookup, implicit_case. cbn [e_dir lookup pred].
  destruct (str_eqb k (e_name c)); reflexivity.
Qed.

Lemma implicit_case_rpc f c : e_rpc (fix_choice f (implicit_case c)) = None.
Proof. destruct f; [reflexivity|]. rewrite fix_choice_rpc. reflexivity. Qed.

(* ------------------------------------------------------------------ where FixChoice moves a position *)
Fixpoint new_pos (f : nat) (e : entry) (q : list step) : list step :=
  match f with
  | O => q
  | S f' =>
    match q with
    | [] => []
    | SChild k :: r =>
      match dir_lookup e k with
      | Some c => if is_choice e && negb (is_case c)
                  then SChild k :: SChild (e_name c) :: new_pos (pred f') c r
                  else SChild k :: new_pos f' c r
      | None => q
      end
    | SIn :: r => match e_rpc e with Some (Some i, _) => SIn :: new_pos f' i r | _ => q end
    | SOut :: r => match e_rpc e with Some (_, Some o) => SOut :: new_pos f' o r | _ => q end
    end
  end.

Lemma locate_child e k r : locate e (SChild k :: r) = match dir_lookup e k with Some c => locate c r | None => None end.
Proof. unfold dir_lookup. cbn. destruct (e_dir e); reflexivity. Qed.

Lemma ns_walk_child e k r best root :
  ns_walk e (SChild k :: r) best root =
  let b := if root then best else or_else (e_ns e) best in
  match dir_lookup e k with Some c => ns_walk c r b false | None => b end.
Proof. unfold dir_lookup, or_else. cbn [ns_walk]. destruct (e_dir e); reflexivity. Qed.

Lemma ns_walk_absorb c q b : ns_walk c q (or_else (e_ns c) b) false = ns_walk c q b false.
Proof.
  assert (H : or_else (e_ns c) (or_else (e_ns c) b) = or_else (e_ns c) b) by (unfold or_else; now destruct (e_ns c)).
  destruct q as [|[k| |] r]; cbn [ns_walk]; fold (or_else (e_ns c) (or_else (e_ns c) b)); fold (or_else (e_ns c) b);
    rewrite ?H; reflexivity.
Qed.

(* every node that existed before FixChoice is found after it at new_pos, fixed in turn, ... *)
Lemma locate_fix_choice : forall f e q x, locate e q = Some x ->
  exists f', locate (fix_choice f e) (new_pos f e q) = Some (fix_choice f' x).
Proof.
  induction f as [f IH] using lt_wf_ind. intros e q x Hl. destruct f as [|f]; [exists O; exact Hl|].
  destruct q as [|[k| |] r]; cbn [new_pos].
  - cbn in Hl. inversion Hl; subst. now exists (S f).
  - rewrite locate_child in Hl. destruct (dir_lookup e k) as [c|] eqn:Ek; [|discriminate].
    destruct (is_choice e && negb (is_case c)) eqn:Ew.
    + rewrite locate_child, fix_choice_child, Ek. cbn [option_map]. unfold wrap_in. rewrite Ew.
      rewrite locate_child, implicit_case_child, str_eqb_refl. apply IH; [lia|exact Hl].
    + rewrite locate_child, fix_choice_child, Ek. cbn [option_map]. unfold wrap_in. rewrite Ew.
      apply IH; [lia|exact Hl].
  - cbn [locate] in Hl. destruct (e_rpc e) as [[[i|] o]|] eqn:Er; try discriminate.
    cbn [locate]. rewrite fix_choice_rpc, Er. cbn [option_map fst snd]. apply IH; [lia|exact Hl].
  - cbn [locate] in Hl. destruct (e_rpc e) as [[i [o|]]|] eqn:Er; try discriminate.
    cbn [locate]. rewrite fix_choice_rpc, Er. cbn [option_map fst snd]. apply IH; [lia|exact Hl].
Qed.

(* ... and the walk of Namespace() to it collects the same stamp *)
Lemma ns_walk_fix_choice : forall f e q x best root, locate e q = Some x ->
  ns_walk (fix_choice f e) (new_pos f e q) best root = ns_walk e q best root.
Proof.
  induction f as [f IH] using lt_wf_ind. intros e q x best root Hl. destruct f as [|f]; [reflexivity|].
  destruct q as [|[k| |] r]; cbn [new_pos].
  - cbn [ns_walk]. now rewrite fix_choice_e_ns.
  - rewrite locate_child in Hl. destruct (dir_lookup e k) as [c|] eqn:Ek; [|discriminate].
    rewrite (ns_walk_child e), Ek. cbn zeta.
    destruct (is_choice e && negb (is_case c)) eqn:Ew.
    + rewrite ns_walk_child, fix_choice_child, Ek, fix_choice_e_ns. cbn [option_map]. cbn zeta. unfold wrap_in. rewrite Ew.
      rewrite ns_walk_child, implicit_case_child, str_eqb_refl, fix_choice_e_ns. cbn zeta.
      change (e_ns (implicit_case c)) with (e_ns c).
      rewrite (IH (pred f)) with (x := x); [|lia|exact Hl]. apply ns_walk_absorb.
    + rewrite ns_walk_child, fix_choice_child, Ek, fix_choice_e_ns. cbn [option_map]. cbn zeta. unfold wrap_in. rewrite Ew.
      apply IH with (x := x); [lia|exact Hl].
  - cbn [locate] in Hl. destruct (e_rpc e) as [[[i|] o]|] eqn:Er; try discriminate.
    cbn [ns_walk]. rewrite fix_choice_rpc, Er, fix_choice_e_ns. cbn [option_map fst snd]. apply IH with (x := x); [lia|exact Hl].
  - cbn [locate] in Hl. destruct (e_rpc e) as [[i [o|]]|] eqn:Er; try discriminate.
    cbn [ns_walk]. rewrite fix_choice_rpc, Er, fix_choice_e_ns. cbn [option_map fst snd]. apply IH with (x := x); [lia|exact Hl].
Qed.

(* ------------------------------------------------------------------ stages that carry every node along *)
Section Carry.
Variable SC : schema.

(* F' holds every node of F, at position psi q instead of q, with the same attributes of its own and the same
   namespace *)
Definition carries (F F' : forest) (psi : pos -> pos) : Prop :=
  forall q x, locate_pos F q = Some x ->
    exists x', locate_pos F' (psi q) = Some x' /\ label x' = label x /\
               Namespace SC F' (psi q) = Namespace SC F q.

Lemma carries_refl F : carries F F (fun q => q).
Proof. intros q x H. now exists x. Qed.

Lemma carries_trans F1 F2 F3 p1 p2 : carries F1 F2 p1 -> carries F2 F3 p2 -> carries F1 F3 (fun q => p2 (p1 q)).
Proof.
  intros H1 H2 q x Hq. destruct (H1 q x Hq) as (x1 & Hl1 & Hb1 & Hn1).
  destruct (H2 _ x1 Hl1) as (x2 & Hl2 & Hb2 & Hn2). exists x2. repeat split; congruence.
Qed.

(* an update that keeps the node's attributes and everything that was below it *)
Definition keeps_all (te : entry) (f : entry -> entry) : Prop :=
  keeps te f /\ forall s r x, locate te (s :: r) = Some x -> locate (f te) (s :: r) = Some x.

Lemma locate_update_keeps f : forall ps root qs te x,
  locate root ps = Some te -> locate root qs = Some x -> keeps_all te f ->
  exists x', locate (update_at root ps f) qs = Some x' /\ label x' = label x.
Proof.
  induction ps as [|s ps IH]; intros root qs te x Hps Hqs [[Hlab Hk] Hloc].
  - cbn in Hps. inversion Hps; subst te. cbn [update_at]. destruct qs as [|s r].
    + cbn in Hqs. inversion Hqs; subst. exists (f x). now split.
    + exists x. split; [now apply Hloc|reflexivity].
  - assert (Hka : keeps_all te f) by (repeat split; assumption).
    destruct s as [n| |]; cbn [locate update_at] in *.
    + destruct (e_dir root) as [d|] eqn:Ed; [|discriminate]. destruct (lookup n d) as [c|] eqn:El; [|discriminate].
      destruct qs as [|[n'| |] r]; cbn [locate] in *; rewrite ?e_dir_set_dir, ?e_rpc_set_dir; rewrite ?Ed in Hqs.
      * inversion Hqs; subst. eexists. split; [reflexivity|apply label_set_dir].
      * destruct (str_eqb n' n) eqn:En.
        -- apply str_eqb_eq in En. subst n'. rewrite El in Hqs. rewrite lookup_update_same by congruence. eapply IH; eauto.
        -- rewrite lookup_update_other by exact En. destruct (lookup n' d); [|discriminate]. now exists x.
      * now exists x.
      * now exists x.
    + destruct (e_rpc root) as [[[i|] o]|] eqn:Er; try discriminate.
      destruct qs as [|[n'| |] r]; cbn [locate] in *; rewrite ?e_dir_set_rpc, ?e_rpc_set_rpc; rewrite ?Er in Hqs.
      * inversion Hqs; subst. eexists. split; [reflexivity|apply label_set_rpc].
      * now exists x.
      * eapply IH; eauto.
      * now exists x.
    + destruct (e_rpc root) as [[i [o|]]|] eqn:Er; try discriminate.
      destruct qs as [|[n'| |] r]; cbn [locate] in *; rewrite ?e_dir_set_rpc, ?e_rpc_set_rpc; rewrite ?Er in Hqs.
      * inversion Hqs; subst. eexists. split; [reflexivity|apply label_set_rpc].
      * now exists x.
      * now exists x.
      * eapply IH; eauto.
Qed.

Lemma carries_update F mn ps te f : locate_pos F (mn, ps) = Some te -> keeps_all te f ->
  carries F (update_pos F (mn, ps) f) (fun q => q).
Proof.
  intros Hl Hk [mn' qs] x Hq.
  destruct (update_keeps_answers SC F mn ps te f Hl (proj1 Hk) (mn', qs) x Hq) as [Hns _].
  pose proof Hl as Hl0. unfold locate_pos in Hl0, Hq. cbn [fst snd] in Hl0, Hq.
  destruct (lookup mn F) as [root|] eqn:Hroot; [|discriminate].
  destruct (list_eq_dec N.eq_dec mn' mn) as [->|Hne].
  - rewrite Hroot in Hq. destruct (locate_update_keeps f ps root qs te x Hl0 Hq Hk) as (x' & Hx' & Hlab).
    exists x'. rewrite (locate_pos_update_pos_tree F mn root ps qs f Hroot). now repeat split.
  - exists x. rewrite locate_pos_update_pos_other_tree by exact Hne. unfold locate_pos. cbn [fst snd]. now repeat split.
Qed.

Lemma keeps_all_graft te d ns adir : e_dir te = Some d ->
  keeps_all te (fun te0 => match e_dir te0 with
                           | Some d0 => set_dir te0 (Some (fst (merge_dir (d0, false) (Some ns) adir)))
                           | None => te0 end).
Proof.
  intros Hd. split; [now apply (keeps_graft te d)|]. rewrite Hd. intros s r x Hl.
  destruct s as [k| |]; cbn [locate] in *; rewrite ?e_dir_set_dir, ?e_rpc_set_dir; rewrite ?Hd in Hl; try exact Hl.
  destruct (lookup k d) as [c0|] eqn:Ek; [|discriminate]. now rewrite merge_dir_stamp, Ek.
Qed.

Lemma keeps_all_add_input te o : e_rpc te = Some (None, o) -> keeps_all te (add_input o).
Proof.
  intros Hr. split; [now apply keeps_add_input|]. intros s r x Hl. rewrite add_input_same; [exact Hl|exact Hr|].
  intros ->. cbn [locate] in Hl. rewrite Hr in Hl. discriminate.
Qed.
Lemma keeps_all_add_output te i : e_rpc te = Some (i, None) -> keeps_all te (add_output i).
Proof.
  intros Hr. split; [now apply keeps_add_output|]. intros s r x Hl. rewrite add_output_same; [exact Hl|exact Hr|].
  intros ->. cbn [locate] in Hl. rewrite Hr in Hl. destruct i; discriminate.
Qed.

(* FixChoice on every tree with one fuel *)
Definition fix_forest (n : nat) (F : forest) : forest := map (fun kv => (fst kv, fix_choice n (snd kv))) F.
Definition fix_pos (n : nat) (F : forest) (q : pos) : pos :=
  match lookup (fst q) F with Some root => (fst q, new_pos n root (snd q)) | None => q end.

Lemma lookup_fix_forest n F mn : lookup mn (fix_forest n F) = option_map (fix_choice n) (lookup mn F).
Proof. apply (lookup_map_values (fix_choice n)). Qed.

Lemma carries_fix n F : carries F (fix_forest n F) (fix_pos n F).
Proof.
  intros [mn qs] x Hq. unfold locate_pos in Hq. cbn [fst snd] in Hq. unfold fix_pos. cbn [fst snd].
  destruct (lookup mn F) as [root|] eqn:Hroot; [|discriminate].
  destruct (locate_fix_choice n root qs x Hq) as (f' & Hl).
  exists (fix_choice f' x). unfold locate_pos, Namespace. cbn [fst snd]. rewrite lookup_fix_forest, Hroot. cbn [option_map].
  repeat split; [exact Hl|apply label_fix_choice|]. now rewrite (ns_walk_fix_choice n root qs x None true Hq).
Qed.
End Carry.

(* ------------------------------------------------------------------ predicates on all nodes of a tree *)
Definition nodes_ok (P : entry -> Prop) (e : entry) : Prop := forall steps x, locate e steps = Some x -> P x.
Definition label_closed (P : entry -> Prop) : Prop := forall a b, label a = label b -> P a -> P b.
Definition all_trees (P : entry -> Prop) (F : forest) : Prop := forall mn root, lookup mn F = Some root -> nodes_ok P root.

Lemma nodes_ok_intro (P : entry -> Prop) e : P e ->
  (forall k c, dir_lookup e k = Some c -> nodes_ok P c) ->
  (forall i o, e_rpc e = Some (i, o) -> (forall x, i = Some x -> nodes_ok P x) /\ (forall x, o = Some x -> nodes_ok P x)) ->
  nodes_ok P e.
Proof.
  intros He Hd Hr steps x Hl. destruct steps as [|[k| |] r].
  - cbn in Hl. now inversion Hl; subst.
  - rewrite locate_child in Hl. destruct (dir_lookup e k) as [c|] eqn:Ek; [|discriminate]. exact (Hd k c Ek r x Hl).
  - cbn [locate] in Hl. destruct (e_rpc e) as [[[i|] o]|]; try discriminate. destruct (Hr _ _ eq_refl) as [Hi _]. exact (Hi i eq_refl r x Hl).
  - cbn [locate] in Hl. destruct (e_rpc e) as [[i [o|]]|]; try discriminate. destruct (Hr _ _ eq_refl) as [_ Ho]. exact (Ho o eq_refl r x Hl).
Qed.

Lemma nodes_ok_self (P : entry -> Prop) e : nodes_ok P e -> P e. Proof. intros H. exact (H [] e eq_refl). Qed.
Lemma nodes_ok_sub (P : entry -> Prop) e ps x : nodes_ok P e -> locate e ps = Some x -> nodes_ok P x.
Proof. intros H Hl steps y Hy. apply (H (ps ++ steps)). now rewrite locate_app, Hl. Qed.
Lemma nodes_ok_child (P : entry -> Prop) e k c : nodes_ok P e -> dir_lookup e k = Some c -> nodes_ok P c.
Proof. intros H Hk. apply (nodes_ok_sub P e [SChild k]); [exact H|]. rewrite locate_child, Hk. reflexivity. Qed.

Lemma lookup_update_cases {A} k n (v : A) d c : lookup k (update n v d) = Some c -> c = v \/ lookup k d = Some c.
Proof.
  induction d as [|[k1 v1] d IH]; cbn; [discriminate|]. destruct (str_eqb n k1) eqn:En; cbn.
  - destruct (str_eqb k k1); [intros H; inversion H; now left|now right].
  - destruct (str_eqb k k1); [now right|exact IH].
Qed.

Lemma nodes_ok_update_at (P : entry -> Prop) f : label_closed P -> forall ps e te, locate e ps = Some te ->
  nodes_ok P e -> nodes_ok P (f te) -> nodes_ok P (update_at e ps f).
Proof.
  intros Hlc. induction ps as [|s ps IH]; intros e te Hl He Hf.
  - cbn in *. now inversion Hl; subst.
  - destruct s as [n| |]; cbn [locate update_at] in *.
    + destruct (e_dir e) as [d|] eqn:Ed; [|discriminate]. destruct (lookup n d) as [c|] eqn:El; [|discriminate].
      apply nodes_ok_intro.
      * apply (Hlc e); [now rewrite label_set_dir|now apply nodes_ok_self].
      * intros k c' Hk. unfold dir_lookup in Hk. rewrite e_dir_set_dir in Hk.
        apply lookup_update_cases in Hk as [->|Hk].
        -- eapply IH; eauto. apply (nodes_ok_child P e n); [exact He|]. unfold dir_lookup. now rewrite Ed.
        -- apply (nodes_ok_child P e k); [exact He|]. unfold dir_lookup. now rewrite Ed.
      * intros i o Hr. rewrite e_rpc_set_dir in Hr. split; intros x ->.
        -- apply (nodes_ok_sub P e [SIn]); [exact He|]. cbn. now rewrite Hr.
        -- apply (nodes_ok_sub P e [SOut]); [exact He|]. cbn. now rewrite Hr.
    + destruct (e_rpc e) as [[[i|] o]|] eqn:Er; try discriminate. apply nodes_ok_intro.
      * apply (Hlc e); [now rewrite label_set_rpc|now apply nodes_ok_self].
      * intros k c' Hk. unfold dir_lookup in Hk. rewrite e_dir_set_rpc in Hk. now apply (nodes_ok_child P e k).
      * intros i' o' Hr. rewrite e_rpc_set_rpc in Hr. inversion Hr; subst. split; intros x Hx; inversion Hx; subst.
        -- eapply IH; eauto. apply (nodes_ok_sub P e [SIn]); [exact He|]. cbn. now rewrite Er.
        -- apply (nodes_ok_sub P e [SOut]); [exact He|]. cbn. now rewrite Er.
    + destruct (e_rpc e) as [[i [o|]]|] eqn:Er; try discriminate. apply nodes_ok_intro.
      * apply (Hlc e); [now rewrite label_set_rpc|now apply nodes_ok_self].
      * intros k c' Hk. unfold dir_lookup in Hk. rewrite e_dir_set_rpc in Hk. now apply (nodes_ok_child P e k).
      * intros i' o' Hr. rewrite e_rpc_set_rpc in Hr. inversion Hr; subst. split; intros x Hx; inversion Hx; subst.
        -- apply (nodes_ok_sub P e [SIn]); [exact He|]. cbn. now rewrite Er.
        -- eapply IH; eauto. apply (nodes_ok_sub P e [SOut]); [exact He|]. cbn. now rewrite Er.
Qed.

Lemma all_trees_update_pos (P : entry -> Prop) F mn ps te f : label_closed P -> locate_pos F (mn, ps) = Some te ->
  all_trees P F -> nodes_ok P (f te) -> all_trees P (update_pos F (mn, ps) f).
Proof.
  intros Hlc Hl HF Hf mn' root' Hr. unfold locate_pos in Hl. unfold update_pos in Hr. cbn [fst snd] in *.
  destruct (lookup mn F) as [root|] eqn:Hroot; [|discriminate].
  apply lookup_update_cases in Hr as [->|Hr]; [|exact (HF _ _ Hr)].
  eapply nodes_ok_update_at; eauto.
Qed.

Lemma nodes_ok_fix_choice (P : entry -> Prop) : label_closed P ->
  (forall c, P c -> P (implicit_case c)) ->
  forall f e, nodes_ok P e -> nodes_ok P (fix_choice f e).
Proof.
  intros Hlc Hic. induction f as [|f IH]; intros e He; [exact He|]. apply nodes_ok_intro.
  - apply (Hlc e); [now rewrite label_fix_choice|now apply nodes_ok_self].
  - intros k c' Hk. rewrite fix_choice_child in Hk. destruct (dir_lookup e k) as [c|] eqn:Ek; [|discriminate].
    cbn in Hk. inversion Hk; subst c'. apply IH. pose proof (nodes_ok_child P e k c He Ek) as Hc.
    unfold wrap_in. destruct (_ && _); [|exact Hc]. apply nodes_ok_intro.
    + apply Hic. now apply nodes_ok_self.
    + intros k' c'' Hk'. unfold dir_lookup, implicit_case in Hk'. cbn in Hk'. destruct (str_eqb k' (e_name c)); [|discriminate].
      now inversion Hk'; subst.
    + intros i o Hr. discriminate.
  - intros i o Hr. rewrite fix_choice_rpc in Hr. destruct (e_rpc e) as [[i0 o0]|] eqn:Er; [|discriminate].
    cbn in Hr. inversion Hr; subst. split; intros x Hx.
    + destruct i0 as [i0|]; [|discriminate]. cbn in Hx. inversion Hx; subst. apply IH.
      apply (nodes_ok_sub P e [SIn]); [exact He|]. cbn. now rewrite Er.
    + destruct o0 as [o0|]; [|discriminate]. cbn in Hx. inversion Hx; subst. apply IH.
      apply (nodes_ok_sub P e [SOut]); [exact He|]. cbn. now rewrite Er.
Qed.

Lemma all_trees_fix_forest (P : entry -> Prop) n F : label_closed P -> (forall c, P c -> P (implicit_case c)) ->
  all_trees P F -> all_trees P (fix_forest n F).
Proof.
  intros Hlc Hic HF mn root Hr. rewrite lookup_fix_forest in Hr. destruct (lookup mn F) as [r0|] eqn:E; [|discriminate].
  cbn in Hr. inversion Hr; subst. apply nodes_ok_fix_choice; eauto.
Qed.

(* ------------------------------------------------------------------ Find only ever adds empty inputs and outputs *)
Definition lazy_closed (I : forest -> Prop) : Prop :=
  forall F mn ps te, I F -> locate_pos F (mn, ps) = Some te ->
    (forall o, e_rpc te = Some (None, o) -> I (update_pos F (mn, ps) (add_input o))) /\
    (forall i, e_rpc te = Some (i, None) -> I (update_pos F (mn, ps) (add_output i))).

Lemma find_steps_lazy (I : forest -> Prop) : lazy_closed I -> forall parts F p, I F -> I (snd (find_steps F p parts)).
Proof.
  intros Hc. induction parts as [|part rest IH]; intros F p HF; [exact HF|].
  cbn [find_steps]. destruct p as [[mn steps]|]; [|exact HF].
  destruct (str_eqb part s_dot); [now apply IH|].
  destruct (str_eqb part s_dotdot); [destruct (rev steps); now apply IH|].
  destruct (locate_pos F (mn, steps)) as [e|] eqn:El; [|exact HF].
  destruct (e_rpc e) as [[i o]|] eqn:Er.
  - destruct (str_eqb _ s_input).
    + apply IH. destruct i as [i|]; [exact HF|]. exact (proj1 (Hc F mn steps e HF El) o Er).
    + destruct (str_eqb _ s_output); [|exact HF].
      apply IH. destruct o as [o|]; [exact HF|]. exact (proj2 (Hc F mn steps e HF El) i Er).
  - destruct (str_eqb _ s_dot); [now apply IH|]. destruct (_ || _); [exact HF|].
    destruct (e_dir e) as [d|]; [destruct (lookup _ d)|]; now apply IH.
Qed.

Lemma Find_lazy SC (I : forest -> Prop) : lazy_closed I -> forall F ctx start name, I F -> I (snd (Find SC F ctx start name)).
Proof.
  intros Hc F ctx start name HF. unfold Find. destruct name as [|c0 name]; [exact HF|].
  destruct (split_on cSLASH [] (c0 :: name)) as [|[|x xs] [|first rest]]; try (now apply find_steps_lazy); try exact HF.
  destruct (fst (getPrefix first)); [now apply find_steps_lazy|].
  destruct (FindModuleByPrefix SC ctx _); [|exact HF]. destruct (owner SC _); [|exact HF]. now apply find_steps_lazy.
Qed.

(* ------------------------------------------------------------------ attribution: the invariant of the augment stage *)
Section Attribution.
Variable SC : schema.

Definition aug_of (a : aug) : Prop := exists A, In A SC /\ In a (module_augs SC A).
Definition good (a : aug) : Prop := aug_of a /\ dir_unstamped (a_dir a).

(* a node's stamp, if it has one, is the namespace of (the owner of) a module that declares an augment one of whose
   body's children has the node's name: the node is such a child, or the case FixChoice put around it *)
Definition from_augment (x : entry) : Prop :=
  e_ns x = None \/
  exists a k c, aug_of a /\ lookup k (a_dir a) = Some c /\ e_name x = e_name c /\ e_ns x = Some (owner_ns SC (a_mod a)).

Lemma from_augment_label : label_closed from_augment.
Proof.
  intros x y Hl [H|(a & k & c & Ha & Hk & Hn & Hs)]; unfold label in Hl; inversion Hl; [left; congruence|].
  right. exists a, k, c. repeat split; congruence.
Qed.
Lemma from_augment_case c : from_augment c -> from_augment (implicit_case c).
Proof. intros [H|(a & k & c0 & Ha & Hk & Hn & Hs)]; [now left|right; now exists a, k, c0]. Qed.

Definition nk (e : entry) := (e_name e, e_kind e).
Lemma label_nk a b : label a = label b -> nk a = nk b. Proof. unfold label, nk. congruence. Qed.

(* every node the augment's body defines is present, under its name and kind, and reports the namespace of the
   module that declares the augment *)
Definition attributed (F : forest) (a : aug) : Prop :=
  exists phi : list step -> pos, forall k c r x, lookup k (a_dir a) = Some c -> locate c r = Some x ->
    exists x', locate_pos F (phi (SChild k :: r)) = Some x' /\ nk x' = nk x /\
               Namespace SC F (phi (SChild k :: r)) = owner_ns SC (a_mod a).

Lemma attributed_carries F F' psi a : carries SC F F' psi -> attributed F a -> attributed F' a.
Proof.
  intros Hc (phi & Hphi). exists (fun q => psi (phi q)). intros k c r x Hk Hl.
  destruct (Hphi k c r x Hk Hl) as (x1 & Hl1 & Hn1 & Hs1). destruct (Hc _ x1 Hl1) as (x2 & Hl2 & Hb2 & Hs2).
  exists x2. repeat split; [exact Hl2| |congruence]. rewrite <- Hn1. now apply label_nk.
Qed.

Definition step_ok (F F' : forest) : Prop :=
  (exists psi, carries SC F F' psi) /\ (all_trees from_augment F -> all_trees from_augment F').

Lemma step_ok_refl F : step_ok F F. Proof. split; [exists (fun q => q); apply carries_refl|auto]. Qed.
Lemma step_ok_trans F1 F2 F3 : step_ok F1 F2 -> step_ok F2 F3 -> step_ok F1 F3.
Proof. intros [[p1 H1] G1] [[p2 H2] G2]. split; [exists (fun q => p2 (p1 q)); eapply carries_trans; eauto|auto]. Qed.
Lemma step_ok_attributed F F' a : step_ok F F' -> attributed F a -> attributed F' a.
Proof. intros [[psi H] _]. now apply (attributed_carries F F' psi). Qed.

Lemma nodes_ok_unstamped c : unstamped c -> nodes_ok from_augment c.
Proof. intros Hu steps x Hl. left. exact (Hu _ _ Hl). Qed.

Lemma all_trees_at (P : entry -> Prop) F p te : all_trees P F -> locate_pos F p = Some te -> nodes_ok P te.
Proof.
  intros HA Hl. unfold locate_pos in Hl. destruct (lookup (fst p) F) as [root|] eqn:Hr; [|discriminate].
  exact (nodes_ok_sub P root (snd p) te (HA _ _ Hr) Hl).
Qed.

Lemma nodes_ok_empty_io b : nodes_ok from_augment (empty_io b).
Proof.
  apply nodes_ok_intro; [now left| |discriminate]. intros k c H. unfold dir_lookup in H. destruct b; discriminate.
Qed.

Lemma nodes_ok_add_io te : nodes_ok from_augment te ->
  (forall o, e_rpc te = Some (None, o) -> nodes_ok from_augment (add_input o te)) /\
  (forall i, e_rpc te = Some (i, None) -> nodes_ok from_augment (add_output i te)).
Proof.
  intros Hte. split; intros io Hr; apply nodes_ok_intro.
  - apply (from_augment_label te); [now rewrite label_add_input|now apply nodes_ok_self].
  - intros k c Hk. unfold dir_lookup, add_input in Hk. rewrite e_dir_set_rpc in Hk. now apply (nodes_ok_child _ te k).
  - intros i o H. unfold add_input in H. rewrite e_rpc_set_rpc in H. inversion H; subst. split; intros x Hx; inversion Hx; subst.
    + apply nodes_ok_empty_io.
    + apply (nodes_ok_sub _ te [SOut]); [exact Hte|]. cbn. now rewrite Hr.
  - apply (from_augment_label te); [now rewrite label_add_output|now apply nodes_ok_self].
  - intros k c Hk. unfold dir_lookup, add_output in Hk. rewrite e_dir_set_rpc in Hk. now apply (nodes_ok_child _ te k).
  - intros i o H. unfold add_output in H. rewrite e_rpc_set_rpc in H. inversion H; subst. split; intros x Hx; inversion Hx; subst.
    + apply (nodes_ok_sub _ te [SIn]); [exact Hte|]. cbn. now rewrite Hr.
    + apply nodes_ok_empty_io.
Qed.

Lemma step_ok_lazy F0 : lazy_closed (step_ok F0).
Proof.
  intros F mn ps te HF Hl. split; intros io Hr; (eapply step_ok_trans; [exact HF|]); split.
  - exists (fun q => q). eapply carries_update; [exact Hl|now apply keeps_all_add_input].
  - intros HA. eapply all_trees_update_pos; [apply from_augment_label|exact Hl|exact HA|].
    apply (proj1 (nodes_ok_add_io te (all_trees_at _ _ _ _ HA Hl))). exact Hr.
  - exists (fun q => q). eapply carries_update; [exact Hl|now apply keeps_all_add_output].
  - intros HA. eapply all_trees_update_pos; [apply from_augment_label|exact Hl|exact HA|].
    apply (proj2 (nodes_ok_add_io te (all_trees_at _ _ _ _ HA Hl))). exact Hr.
Qed.

Lemma Find_step_ok F ctx start name : step_ok F (snd (Find SC F ctx start name)).
Proof. apply (Find_lazy SC (step_ok F)); [apply step_ok_lazy|apply step_ok_refl]. Qed.

(* ------------------------------------------------------------------ one graft *)
Lemma merge_dir_err_sticky ns : forall oe d, snd (merge_dir (d, true) ns oe) = true.
Proof.
  induction oe as [|[k v] oe IH]; intros d; [reflexivity|]. unfold merge_dir. cbn [fold_left fst snd].
  destruct (lookup k d); apply IH.
Qed.

Lemma merge_dir_clean : forall oe d, snd (merge_dir (d, false) None oe) = false ->
  forall k c, lookup k oe = Some c -> lookup k d = None.
Proof.
  induction oe as [|[k1 v1] oe IH]; intros d Hc k c Hk; [discriminate|].
  unfold merge_dir in Hc. cbn [fold_left fst snd] in Hc. destruct (lookup k1 d) eqn:E1.
  - change (fold_left _ oe (d, true)) with (merge_dir (d, true) None oe) in Hc. rewrite merge_dir_err_sticky in Hc. discriminate.
  - change (fold_left _ oe (?a, false)) with (merge_dir (a, false) None oe) in Hc.
    cbn [lookup] in Hk. destruct (str_eqb k k1) eqn:Ek.
    + apply str_eqb_eq in Ek. now subst.
    + specialize (IH _ Hc k c Hk). rewrite lookup_app in IH. now destruct (lookup k d).
Qed.

Definition graft_fun (ns : str) (adir : list (str * entry)) : entry -> entry :=
  fun te => match e_dir te with
            | Some d => set_dir te (Some (fst (merge_dir (d, false) (Some ns) adir)))
            | None => te
            end.

Lemma nodes_ok_graft a te d : good a -> e_dir te = Some d -> nodes_ok from_augment te ->
  nodes_ok from_augment (graft_fun (owner_ns SC (a_mod a)) (a_dir a) te).
Proof.
  intros [Ha Hu] Hd Hte. unfold graft_fun. rewrite Hd. apply nodes_ok_intro.
  - apply (from_augment_label te); [now rewrite label_set_dir|now apply nodes_ok_self].
  - intros k c Hk. unfold dir_lookup in Hk. rewrite e_dir_set_dir, merge_dir_stamp in Hk.
    destruct (lookup k d) as [c0|] eqn:Ek.
    + inversion Hk; subst. apply (nodes_ok_child _ te k); [exact Hte|]. unfold dir_lookup. now rewrite Hd.
    + destruct (lookup k (a_dir a)) as [c0|] eqn:Ea; [|discriminate]. cbn in Hk. inversion Hk; subst c.
      intros steps x Hl. destruct steps as [|s r].
      * cbn in Hl. inversion Hl; subst. right. exists a, k, c0. repeat split; try assumption; now destruct c0.
      * rewrite locate_set_ns in Hl. left. exact (Hu k c0 Ea _ _ Hl).
  - intros i o Hr. rewrite e_rpc_set_dir in Hr. split; intros x ->.
    + apply (nodes_ok_sub _ te [SIn]); [exact Hte|]. cbn. now rewrite Hr.
    + apply (nodes_ok_sub _ te [SOut]); [exact Hte|]. cbn. now rewrite Hr.
Qed.

Lemma graft_step_ok F mn ps te d a : good a -> locate_pos F (mn, ps) = Some te -> e_dir te = Some d ->
  step_ok F (graft F (mn, ps) (owner_ns SC (a_mod a)) (a_dir a)).
Proof.
  intros Hg Hl Hd. split.
  - exists (fun q => q). unfold graft. eapply carries_update; [exact Hl|now apply (keeps_all_graft te d)].
  - intros HA. unfold graft. eapply all_trees_update_pos; [apply from_augment_label|exact Hl|exact HA|].
    apply (nodes_ok_graft a te d Hg Hd). exact (all_trees_at _ _ _ _ HA Hl).
Qed.

Lemma graft_attributed F mn ps te d a : good a -> locate_pos F (mn, ps) = Some te -> e_dir te = Some d ->
  snd (merge_dir (d, false) None (a_dir a)) = false ->
  attributed (graft F (mn, ps) (owner_ns SC (a_mod a)) (a_dir a)) a.
Proof.
  intros [Ha Hu] Hl Hd Hclean. exists (fun rel => (mn, ps ++ rel)). intros k c r x Hk Hx.
  pose proof (merge_dir_clean _ _ Hclean k c Hk) as Hfree.
  pose proof Hl as Hl0. unfold locate_pos in Hl0. cbn [fst snd] in Hl0.
  destruct (lookup mn F) as [root|] eqn:Hroot; [|discriminate].
  pose proof (graft_child F mn ps root te d (owner_ns SC (a_mod a)) (a_dir a) Hroot Hl0 Hd k c Hfree Hk) as Hc.
  split with (x := match r with [] => set_ns c (Some (owner_ns SC (a_mod a))) | _ => x end). repeat split.
  - unfold locate_pos in *. cbn [fst snd] in *. destruct (lookup mn (graft F (mn, ps) _ _)) as [root2|]; [|discriminate].
    change (SChild k :: r) with ([SChild k] ++ r). rewrite app_assoc, locate_app, Hc.
    destruct r as [|s r]; [reflexivity|]. now rewrite locate_set_ns.
  - destruct r as [|s r]; [|reflexivity]. cbn in Hx. inversion Hx; subst. now destruct x.
  - eapply graft_namespace; eauto.
Qed.
End Attribution.

(* ------------------------------------------------------------------ Entry.Augment, the retry loop, the rounds *)
Section Stages.
Variable SC : schema.

Lemma augment_module_inv : forall pend F err ae F' err' n un,
  (forall a, In a pend -> good SC a) ->
  augment_module SC F err pend ae = (F', err', n, un) ->
  step_ok SC F F' /\ (err = true -> err' = true) /\ (forall a, In a un -> In a pend) /\
  (forall a, In a pend -> In a un \/ (err' = false -> attributed SC F' a)).
Proof.
  induction pend as [|a rest IH]; intros F err ae F' err' n un Hgood H.
  - cbn in H. inversion H; subst. split; [apply step_ok_refl|split; [auto|split; [auto|intros a []]]].
  - cbn [augment_module] in H.
    pose proof (Find_step_ok SC F (a_mod a) (m_name (a_mod a), []) (a_path a)) as HF1.
    destruct (Find SC F (a_mod a) (m_name (a_mod a), []) (a_path a)) as [target F1]. cbn [snd] in HF1.
    assert (Hrest : forall b, In b rest -> good SC b) by (intros b Hb; apply Hgood; now right).
    assert (Hskip : forall e0, augment_module SC F1 e0 rest ae = augment_module SC F1 e0 rest ae) by reflexivity.
    destruct target as [[mn ps]|].
    2:{ destruct (augment_module SC F1 (err || ae) rest ae) as [[[F3 err3] n3] un3] eqn:ER. inversion H; subst.
        destruct (IH _ _ _ _ _ _ _ Hrest ER) as (S1 & M1 & U1 & A1). split; [|split; [|split]].
        - eapply step_ok_trans; eauto.
        - intros ->. apply M1. reflexivity.
        - intros b [<-|Hb]; [now left|right; now apply U1].
        - intros b [<-|Hb]; [left; now left|]. destruct (A1 b Hb) as [Hu|Hat]; [left; now right|now right]. }
    destruct (locate_pos F1 (mn, ps)) as [te|] eqn:El.
    2:{ destruct (augment_module SC F1 (err || ae) rest ae) as [[[F3 err3] n3] un3] eqn:ER. inversion H; subst.
        destruct (IH _ _ _ _ _ _ _ Hrest ER) as (S1 & M1 & U1 & A1). split; [|split; [|split]].
        - eapply step_ok_trans; eauto.
        - intros ->. apply M1. reflexivity.
        - intros b [<-|Hb]; [now left|right; now apply U1].
        - intros b [<-|Hb]; [left; now left|]. destruct (A1 b Hb) as [Hu|Hat]; [left; now right|now right]. }
    destruct (e_dir te) as [d|] eqn:Ed.
    2:{ destruct (augment_module SC F1 (err || ae) rest ae) as [[[F3 err3] n3] un3] eqn:ER. inversion H; subst.
        destruct (IH _ _ _ _ _ _ _ Hrest ER) as (S1 & M1 & U1 & A1). split; [|split; [|split]].
        - eapply step_ok_trans; eauto.
        - intros ->. apply M1. reflexivity.
        - intros b [<-|Hb]; [now left|right; now apply U1].
        - intros b [<-|Hb]; [left; now left|]. destruct (A1 b Hb) as [Hu|Hat]; [left; now right|now right]. }
    change (update_pos F1 (mn, ps) _) with (graft F1 (mn, ps) (owner_ns SC (a_mod a)) (a_dir a)) in H.
    set (F2 := graft F1 (mn, ps) (owner_ns SC (a_mod a)) (a_dir a)) in *.
    set (conflict := snd (merge_dir (d, false) None (a_dir a))) in *.
    destruct (augment_module SC F2 (err || conflict || a_err a) rest ae) as [[[F3 err3] n3] un3] eqn:ER.
    inversion H; subst. destruct (IH _ _ _ _ _ _ _ Hrest ER) as (S1 & M1 & U1 & A1).
    assert (Hga : good SC a) by (apply Hgood; now left).
    pose proof (graft_step_ok SC F1 mn ps te d a Hga El Ed) as S2. fold F2 in S2.
    split; [|split; [|split]].
    + eapply step_ok_trans; [exact HF1|]. eapply step_ok_trans; eauto.
    + intros ->. apply M1. reflexivity.
    + intros b Hb. right. now apply U1.
    + intros b [<-|Hb].
      * right. intros He. eapply step_ok_attributed; [exact S1|]. apply (graft_attributed SC F1 mn ps te d a Hga El Ed).
        destruct err; [now rewrite M1 in He|]. fold conflict. destruct conflict; [now rewrite M1 in He|reflexivity].
      * destruct (A1 b Hb) as [Hu|Hat]; [left; exact Hu|now right].
Qed.

Definition all_pending (P : pendings) : list aug := concat (map snd P).

Lemma all_pending_update_in mn un P a : In a (all_pending (update mn un P)) -> In a un \/ In a (all_pending P).
Proof.
  unfold all_pending. induction P as [|[k v] P IH]; cbn; [tauto|]. destruct (str_eqb mn k); cbn; rewrite !in_app_iff; [tauto|].
  intros [H|H]; [tauto|]. destruct (IH H); tauto.
Qed.

Lemma all_pending_update_keep mn un P a : In a (all_pending P) ->
  In a (match lookup mn P with Some l => l | None => [] end) \/ In a (all_pending (update mn un P)).
Proof.
  unfold all_pending. induction P as [|[k v] P IH]; cbn; [tauto|]. destruct (str_eqb mn k); cbn; rewrite !in_app_iff; [tauto|].
  intros [H|H]; [tauto|]. destruct (IH H); tauto.
Qed.

Lemma all_pending_update_new mn un P a : lookup mn P <> None -> In a un -> In a (all_pending (update mn un P)).
Proof.
  unfold all_pending. induction P as [|[k v] P IH]; cbn; [congruence|]. destruct (str_eqb mn k); cbn; rewrite !in_app_iff; [tauto|].
  intros Hn Hu. right. now apply IH.
Qed.

Lemma lookup_pending_in mn P l a : lookup mn P = Some l -> In a l -> In a (all_pending P).
Proof. intros Hl Ha. unfold all_pending. apply in_concat. exists l. split; [|exact Ha]. apply lookup_In in Hl. apply in_map_iff. now exists (mn, l). Qed.

(* the invariant: every tree's stamps come from augments; every augment of the schema is still pending or -- as
   long as nothing has gone wrong -- attributed *)
Definition inv (F : forest) (err : bool) (P : pendings) : Prop :=
  all_trees (from_augment SC) F /\
  (forall a, In a (all_pending P) -> good SC a) /\
  (forall a, aug_of SC a -> In a (all_pending P) \/ (err = false -> attributed SC F a)).

Lemma inv_module F err P mn ae F' err' n un :
  inv F err P ->
  augment_module SC F err (match lookup mn P with Some l => l | None => [] end) ae = (F', err', n, un) ->
  inv F' err' (update mn un P) /\ (err = true -> err' = true).
Proof.
  intros (HA & HG & HJ) H.
  assert (Hg : forall a, In a (match lookup mn P with Some l => l | None => [] end) -> good SC a).
  { intros a Ha. destruct (lookup mn P) as [l|] eqn:E; [|destruct Ha]. apply HG. eapply lookup_pending_in; eauto. }
  destruct (augment_module_inv _ _ _ _ _ _ _ _ Hg H) as (S1 & M1 & U1 & A1). split; [|exact M1]. split; [|split].
  - apply S1. exact HA.
  - intros a Ha. apply all_pending_update_in in Ha as [Ha|Ha]; [|now apply HG]. apply Hg. now apply U1.
  - intros a Ha. destruct (HJ a Ha) as [Hp|Hat].
    + destruct (all_pending_update_keep mn un P a Hp) as [Hin|Hin]; [|now left].
      destruct (A1 a Hin) as [Hu|Hat]; [|now right]. left. apply all_pending_update_new; [|exact Hu].
      destruct (lookup mn P); [discriminate|destruct Hin].
    + right. intros He. eapply step_ok_attributed; [exact S1|]. apply Hat. destruct err; [now rewrite M1 in He|reflexivity].
Qed.

Lemma inv_pass : forall fuel F err P mods i pr F' err' P' mods' pr',
  inv F err P -> augment_pass SC fuel F err P mods i pr = (F', err', P', mods', pr') ->
  inv F' err' P' /\ (err = true -> err' = true).
Proof.
  induction fuel as [|f IH]; intros F err P mods i pr F' err' P' mods' pr' HI H.
  - cbn in H. inversion H; subst. auto.
  - cbn [augment_pass] in H. destruct (nth_error mods i) as [mn|]; [|inversion H; subst; auto].
    destruct (augment_module SC F err _ false) as [[[F1 err1] p] un] eqn:EM.
    destruct (inv_module _ _ _ _ _ _ _ _ _ HI EM) as [HI1 M1].
    destruct un as [|u un]; apply IH in H; try exact HI1; destruct H as [HI2 M2]; split; auto.
Qed.

Lemma inv_loop : forall fuel F err P mods ap F' err' P' mods' ap',
  inv F err P -> augment_loop SC fuel F err P mods ap = (F', err', P', mods', ap') ->
  inv F' err' P' /\ (err = true -> err' = true).
Proof.
  induction fuel as [|f IH]; intros F err P mods ap F' err' P' mods' ap' HI H.
  - cbn in H. inversion H; subst. auto.
  - cbn [augment_loop] in H. destruct mods as [|m0 mods]; [inversion H; subst; auto|].
    destruct (augment_pass SC _ F err P (m0 :: mods) 0 0) as [[[[F1 err1] P1] mods1] pr] eqn:EP.
    destruct (inv_pass _ _ _ _ _ _ _ _ _ _ _ _ HI EP) as [HI1 M1].
    destruct pr; [inversion H; subst; auto|]. apply IH in H; [|exact HI1]. destruct H as [HI2 M2]. split; auto.
Qed.

Lemma inv_fix n F err P : inv F err P -> inv (fix_forest n F) err P.
Proof.
  intros (HA & HG & HJ). split; [|split; [exact HG|]].
  - apply all_trees_fix_forest; [apply from_augment_label|apply from_augment_case|exact HA].
  - intros a Ha. destruct (HJ a Ha) as [Hp|Hat]; [now left|right]. intros He.
    eapply attributed_carries; [apply carries_fix|now apply Hat].
Qed.
End Stages.

(* ------------------------------------------------------------------ Process *)

Section ProcessAttribution.
Variable SC : schema.
Variables ic ins : bool.

Lemma fix_all_is_fix_forest F : exists n, C07.fix_all F = fix_forest n F.
Proof. eexists. reflexivity. Qed.

Lemma inv_rounds : forall fuel round F err P mods F' err' P' mods',
  inv SC F err P -> C07.rounds SC fuel round F err P mods = (F', err', P', mods') ->
  inv SC F' err' P' /\ (err = true -> err' = true).
Proof.
  induction fuel as [|f IH]; intros round F err P mods F' err' P' mods' HI H.
  - cbn in H. inversion H; subst. auto.
  - cbn [C07.rounds] in H.
    destruct (augment_loop SC (S (C07.n_aug SC)) F err P mods 0) as [[[[Fa erra] Pa] modsa] applied] eqn:EL.
    destruct (inv_loop SC _ _ _ _ _ _ _ _ _ _ _ HI EL) as [HIa Ma].
    destruct (fix_all_is_fix_forest Fa) as [n Hn]. rewrite Hn in H.
    pose proof (inv_fix SC n _ _ _ HIa) as HIb.
    destruct modsa as [|m0 modsa]; [inversion H; subst; auto|].
    destruct round as [|round].
    + apply IH in H; [|exact HIb]. destruct H; split; auto.
    + destruct applied as [|applied]; [inversion H; subst; auto|].
      apply IH in H; [|exact HIb]. destruct H; split; auto.
Qed.

Lemma inv_final_pass : forall mods1 F err P F' err' P',
  inv SC F err P -> C07.final_pass SC (F, err, P) mods1 = (F', err', P') ->
  inv SC F' err' P' /\ (err = true -> err' = true).
Proof.
  unfold C07.final_pass. induction mods1 as [|mn rest IH]; intros F err P F' err' P' HI H.
  - cbn in H. inversion H; subst. auto.
  - cbn [fold_left] in H.
    destruct (augment_module SC F err _ true) as [[[F1 err1] n1] un] eqn:EM.
    destruct (inv_module SC _ _ _ _ _ _ _ _ _ HI EM) as [HI1 M1].
    apply IH in H; [|exact HI1]. destruct H; split; auto.
Qed.

Lemma inv_initial : inv SC (C07.forest0 SC ic) false (C07.pend0 SC).
Proof.
  split; [|split].
  - intros mn root Hl. apply lookup_In in Hl. unfold C07.forest0 in Hl.
    apply in_map_iff in Hl as ([m b] & Heq & Hin). apply filter_In in Hin as [Hin _].
    apply in_map_iff in Hin as (m' & Hm' & _). inversion Hm'; subst. cbn [fst snd] in Heq. inversion Heq; subst.
    apply nodes_ok_unstamped. apply module_entry_unstamped.
  - intros a Ha. unfold all_pending, C07.pend0 in Ha. rewrite map_map in Ha. cbn [snd] in Ha.
    apply in_concat in Ha as (l & Hl & Ha). apply in_map_iff in Hl as (m & <- & Hm).
    split; [now exists m|]. now destruct (module_augs_unstamped SC m a Ha).
  - intros a (A & HA & Ha). left. unfold all_pending, C07.pend0. rewrite map_map. cbn [snd].
    apply in_concat. exists (module_augs SC A). split; [|exact Ha]. apply in_map_iff. now exists A.
Qed.

(* T2 (b), end to end.  For a module set without deviation statements whose Process is clean:
   (i)  every augment statement of every module or submodule A is attributed: every node its body defines -- the
        top-level children and everything below them -- is present in the result under its name and kind and
        reports the namespace of the module that owns A;
   (ii) every namespace stamp in the result sits on a node named like a top-level child of the body of an augment
        of a module with that owner namespace (that child, or the case FixChoice put around it). *)
Theorem Process_attribution order F : Process SC ic ins order = ROk F ->
  NoDup (map m_name SC) -> AugmentProofs.covers (C07.pend0 SC) order -> AugmentProofs.no_deviations SC ->
  (forall a, aug_of SC a -> attributed SC F a) /\ all_trees (from_augment SC) F.
Proof.
  intros H Hnd Hcov Hdev.
  destruct (AugmentProofs.process_ok_inv SC ic ins order F H Hnd Hcov) as (F2 & P1 & mods1 & F3 & P3 & Es & Ef & Hemp).
  rewrite AugmentProofs.Process_stages in H. unfold C07.Process_staged in H.
  destruct (C07.sources_ok SC ic); [|discriminate]. rewrite Es in H. unfold C07.process_tail in H. rewrite Ef in H.
  rewrite (AugmentProofs.deviation_stage_nodev SC ins Hdev) in H. inversion H; subst F3.
  unfold C07.augment_stage in Es.
  destruct (inv_rounds _ _ _ _ _ _ _ _ _ _ inv_initial Es) as [HI2 _].
  destruct (inv_final_pass _ _ _ _ _ _ _ HI2 Ef) as [(HA & _ & HJ) _].
  split; [|exact HA]. intros a Ha. destruct (HJ a Ha) as [Hp|Hat]; [|now apply Hat].
  change (all_pending P3) with (C07.all_pending P3) in Hp. rewrite Hemp in Hp. destruct Hp.
Qed.
End ProcessAttribution.

(* ------------------------------------------------------------------ reading the invariant *)
Lemma ns_up_some l n : ns_up l = Some n -> exists x, In x l /\ e_ns x = Some n.
Proof.
  induction l as [|y l IH]; cbn; [discriminate|]. destruct (e_ns y) eqn:E.
  - intros H. inversion H; subst. exists y. split; [now left|exact E].
  - intros H. destruct (IH H) as (x & Hx & Hn). exists x. split; [now right|exact Hn].
Qed.

(* (ii) a node reports the namespace of the module owning its tree, unless a node on its path carries a stamp;
   the nearest stamp is then the namespace of the owner of a module that declares an augment whose body has a
   top-level child named like the stamped node *)
Theorem Namespace_provenance SC F mn steps root : all_trees (from_augment SC) F -> lookup mn F = Some root ->
  Namespace SC F (mn, steps) = tree_ns SC mn \/
  exists a k c s pre x, aug_of SC a /\ lookup k (a_dir a) = Some c /\ locate root (s :: pre) = Some x /\
                        e_name x = e_name c /\ e_ns x = Some (owner_ns SC (a_mod a)) /\
                        Namespace SC F (mn, steps) = owner_ns SC (a_mod a).
Proof.
  intros HA Hr. rewrite (Namespace_spec SC F mn steps root Hr). unfold ns_spec.
  destruct (ns_up (rev (tl (path_entries root steps)))) as [n|] eqn:E; [|now left]. right.
  apply ns_up_some in E as (x & Hx & Hn). apply in_rev in Hx. apply path_entries_tl_located in Hx as (s & pre & Hl).
  destruct (HA mn root Hr _ _ Hl) as [H0|(a & k & c & Ha & Hk & Hnm & Hs)]; [congruence|].
  exists a, k, c, s, pre, x. repeat split; try assumption. congruence.
Qed.

(* ------------------------------------------------------------------ deviations do not touch stamps *)
Lemma e_ns_set_cfg e c : e_ns (set_cfg e c) = e_ns e. Proof. now destruct e. Qed.
Lemma e_ns_set_mand e c : e_ns (set_mand e c) = e_ns e. Proof. now destruct e. Qed.
Lemma e_ns_set_dflt e c : e_ns (set_dflt e c) = e_ns e. Proof. now destruct e. Qed.
Lemma e_ns_set_units e c : e_ns (set_units e c) = e_ns e. Proof. now destruct e. Qed.
Lemma e_ns_set_ty e c : e_ns (set_ty e c) = e_ns e. Proof. now destruct e. Qed.
Lemma e_ns_set_la e c : e_ns (set_la e c) = e_ns e. Proof. now destruct e. Qed.
Lemma e_ns_set_dir e c : e_ns (set_dir e c) = e_ns e. Proof. now destruct e. Qed.
Lemma e_ns_set_rpc e c : e_ns (set_rpc e c) = e_ns e. Proof. now destruct e. Qed.

Ltac ns_tail H :=
  repeat (match goal with
          | |- context [match ?x with _ => _ end] => destruct x
          | |- context [if ?x then _ else _] => destruct x
          end; cbn [fst snd]);
  repeat first [rewrite e_ns_set_cfg | rewrite e_ns_set_mand | rewrite e_ns_set_dflt | rewrite e_ns_set_units
               | rewrite e_ns_set_ty | rewrite e_ns_set_la]; exact H.

Lemma apply_add_replace_ns r dv t : e_ns (fst (apply_add_replace r dv t)) = e_ns t.
Proof.
  unfold apply_add_replace.
  set (t1 := if is_set (dv_cfg dv) then set_cfg t (dv_cfg dv) else t).
  assert (H1 : e_ns t1 = e_ns t) by (unfold t1; destruct (is_set _); [apply e_ns_set_cfg|reflexivity]).
  clearbody t1.
  set (pr := match dv_default dv with None => (t1, false) | Some d => _ end).
  assert (H2 : e_ns (fst pr) = e_ns t).
  { unfold pr. destruct (dv_default dv); [|exact H1]. destruct r; [cbn; now rewrite e_ns_set_dflt|].
    destruct (isLeafList t1); [cbn; now rewrite e_ns_set_dflt|]. destruct (e_dflt t1); cbn; rewrite ?e_ns_set_dflt; exact H1. }
  clearbody pr. destruct pr as [t2 e1]. cbn [fst] in H2.
  set (t3 := if is_set (dv_mand dv) then set_mand t2 (dv_mand dv) else t2).
  assert (H3 : e_ns t3 = e_ns t) by (unfold t3; destruct (is_set _); [now rewrite e_ns_set_mand|exact H2]).
  clearbody t3. ns_tail H3.
Qed.

Lemma apply_delete_ns dv t : e_ns (fst (apply_delete dv t)) = e_ns t.
Proof.
  unfold apply_delete.
  set (t1 := if is_set (dv_cfg dv) then set_cfg t TSUnset else t).
  assert (H1 : e_ns t1 = e_ns t) by (unfold t1; destruct (is_set _); [apply e_ns_set_cfg|reflexivity]).
  clearbody t1.
  set (pr := match dv_default dv with None => (t1, false) | Some d => _ end).
  assert (H2 : e_ns (fst pr) = e_ns t).
  { unfold pr. destruct (dv_default dv); [|exact H1]. destruct (isLeafList t1); [exact H1|].
    destruct (e_dflt t1); [exact H1|]. destruct (str_eqb _ _); cbn; rewrite ?e_ns_set_dflt; exact H1. }
  clearbody pr. destruct pr as [t2 e1]. cbn [fst] in H2.
  set (t3 := if is_set (dv_mand dv) then set_mand t2 TSUnset else t2).
  assert (H3 : e_ns t3 = e_ns t) by (unfold t3; destruct (is_set _); [now rewrite e_ns_set_mand|exact H2]).
  clearbody t3. ns_tail H3.
Qed.

Lemma keep_children_ns old new : e_ns (keep_children old new) = e_ns new.
Proof. unfold keep_children. now rewrite e_ns_set_rpc, e_ns_set_dir. Qed.

(* ------------------------------------------------------------------ (iii) config comes from the statement *)
Definition stmt_cfg (n : dnode) : tri :=
  match n with
  | DLeaf _ _ c _ _ _ | DLeafList _ _ c _ _ _ | DContainer _ c _ | DList _ _ c _ _ _ | DChoice _ c _ _ _ | DAny _ _ c _ => c
  | _ => TSUnset
  end.
Definition stmt_name (n : dnode) : str :=
  match n with
  | DLeaf n _ _ _ _ _ | DLeafList n _ _ _ _ _ | DContainer n _ _ | DList n _ _ _ _ _ | DChoice n _ _ _ _ | DCase n _
  | DAny _ n _ _ | DUses n | DGrouping _ n _ | DRpc _ n _ _ | DNotification n _ => n
  end.

Lemma to_entry_cfg SC f c busy n :
  e_cfg (fst (to_entry SC (S f) c busy n)) = stmt_cfg n /\ e_name (fst (to_entry SC (S f) c busy n)) = stmt_name n.
Proof.
  destruct n; cbn [to_entry stmt_cfg stmt_name];
    repeat match goal with |- context [let '(_, _) := ?x in _] => destruct x end; cbn; split; reflexivity.
Qed.
