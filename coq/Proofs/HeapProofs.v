(* Pointer-level lemmas about Model/Heap.v: dup allocates a fresh, well-formed, isomorphic tree and leaves every old cell
   unchanged; two copies are disjoint; add of a fresh tree under the root of a well-formed tree. *)
From Coq Require Import List NArith Bool Arith Lia Permutation.
From GY Require Import Model.Heap.
Import ListNotations.

(* ------------------------------------------------------------------ heap basics *)
Lemma get_lt : forall h i c, get h i = Some c -> i < length h.
Proof. unfold get. intros h i c H. apply nth_error_Some. congruence. Qed.

Lemma length_set : forall h i c, length (set h i c) = length h.
Proof. induction h as [|x h IH]; intros [|i] c; simpl; auto. Qed.

Lemma get_set_eq : forall h i c, i < length h -> get (set h i c) i = Some c.
Proof.
  unfold get. induction h as [|x h IH]; intros [|i] c Hl; simpl in *; try lia; auto. apply IH. lia.
Qed.

Lemma get_set_neq : forall h i j c, i <> j -> get (set h i c) j = get h j.
Proof.
  unfold get. induction h as [|x h IH]; intros [|i] [|j] c Hn; simpl; auto; try congruence.
Qed.

Lemma get_app_l : forall h x i, i < length h -> get (h ++ x) i = get h i.
Proof. unfold get. intros. apply nth_error_app1. assumption. Qed.

Lemma get_app_new : forall h c, get (h ++ [c]) (length h) = Some c.
Proof. unfold get. intros. rewrite nth_error_app2 by lia. rewrite Nat.sub_diag. reflexivity. Qed.

(* h' extends h: at least as long, equal on the ids of h *)
Definition ext (h h' : heap) : Prop := length h <= length h' /\ forall i, i < length h -> get h' i = get h i.

Lemma ext_refl : forall h, ext h h.
Proof. split; auto. Qed.
Lemma ext_trans : forall a b c, ext a b -> ext b c -> ext a c.
Proof. intros a b c [L1 E1] [L2 E2]. split; [lia|]. intros i Hi. rewrite E2 by lia. apply E1. assumption. Qed.
Lemma ext_alloc : forall h c, ext h (h ++ [c]).
Proof. intros. split; [rewrite app_length; simpl; lia|]. intros. apply get_app_l. assumption. Qed.
Lemma ext_set_new : forall h h' i c, ext h h' -> length h <= i -> ext h (set h' i c).
Proof.
  intros h h' i c [L E] Hi. split; [rewrite length_set; assumption|].
  intros j Hj. rewrite get_set_neq by lia. apply E. assumption.
Qed.
Lemma ext_set_parent_new : forall h h' i p, ext h h' -> length h <= i -> ext h (set_parent h' i p).
Proof. intros. unfold set_parent. destruct (get h' i); [apply ext_set_new|]; assumption. Qed.
Lemma length_set_parent : forall h i p, length (set_parent h i p) = length h.
Proof. intros. unfold set_parent. destruct (get h i); [apply length_set|reflexivity]. Qed.

Lemma oid_eqb_refl : forall a, oid_eqb a a = true.
Proof. intros [x|]; simpl; auto. apply Nat.eqb_refl. Qed.
Lemma oid_eqb_eq : forall a b, oid_eqb a b = true -> a = b.
Proof. intros [x|] [y|]; simpl; intro H; try discriminate; auto. apply Nat.eqb_eq in H. congruence. Qed.

Lemma NoDup_app_intro : forall (a b : list id), NoDup a -> NoDup b -> (forall x, In x a -> In x b -> False) -> NoDup (a ++ b).
Proof.
  induction a as [|x a IH]; intros b Ha Hb Hd; simpl; auto.
  inversion Ha as [|? ? Hx Ha']; subst. constructor.
  - rewrite in_app_iff. intros [H|H]; [auto|]. apply (Hd x); simpl; auto.
  - apply IH; auto. intros y Hy Hy'. apply (Hd y); simpl; auto.
Qed.

(* ------------------------------------------------------------------ walk_list, generically *)
Lemma walk_list_Forall : forall (Q : id -> Prop) W l ts ids,
  (forall v t i, W v = Some (t, i) -> Forall Q i) ->
  walk_list W l = Some (ts, ids) -> Forall Q ids.
Proof.
  intros Q W. induction l as [|[k v] l IH]; intros ts ids HW H; simpl in H.
  - inversion H; subst. constructor.
  - destruct (W v) as [[t i]|] eqn:Ev; [|discriminate].
    destruct (walk_list W l) as [[ts' ids']|] eqn:El; [|discriminate].
    inversion H; subst. apply Forall_app. split; [eapply HW; eassumption|eapply IH; eauto].
Qed.

(* transfer of a successful walk_list to another walker, under a condition G on the visited ids *)
Lemma walk_list_transfer : forall (G : id -> Prop) W1 W2 l ts ids,
  (forall v t i, W1 v = Some (t, i) -> (forall x, In x i -> G x) -> W2 v = Some (t, i)) ->
  walk_list W1 l = Some (ts, ids) -> (forall x, In x ids -> G x) -> walk_list W2 l = Some (ts, ids).
Proof.
  intros G W1 W2. induction l as [|[k v] l IH]; intros ts ids HW H HG; simpl in *; auto.
  destruct (W1 v) as [[t i]|] eqn:Ev; [|discriminate].
  destruct (walk_list W1 l) as [[ts' ids']|] eqn:El; [|discriminate].
  inversion H; subst.
  rewrite (HW v t i Ev) by (intros; apply HG; rewrite in_app_iff; auto).
  rewrite (IH ts' ids' HW eq_refl) by (intros; apply HG; rewrite in_app_iff; auto).
  reflexivity.
Qed.

(* the same with a bound on the number of visited ids *)
Lemma walk_list_transfer_len : forall n W1 W2 l ts ids,
  (forall v t i, W1 v = Some (t, i) -> length i <= n -> W2 v = Some (t, i)) ->
  walk_list W1 l = Some (ts, ids) -> length ids <= n -> walk_list W2 l = Some (ts, ids).
Proof.
  intros n W1 W2. induction l as [|[k v] l IH]; intros ts ids HW H HG; simpl in *; auto.
  destruct (W1 v) as [[t i]|] eqn:Ev; [|discriminate].
  destruct (walk_list W1 l) as [[ts' ids']|] eqn:El; [|discriminate].
  inversion H; subst. rewrite app_length in HG.
  rewrite (HW v t i Ev) by lia.
  rewrite (IH ts' ids' HW eq_refl) by lia.
  reflexivity.
Qed.

(* ------------------------------------------------------------------ walk *)
Lemma walk_root : forall f h p r t ids, walk f h p r = Some (t, ids) -> exists c, get h r = Some c /\ c_parent c = p.
Proof.
  intros [|f] h p r t ids H; simpl in H; [discriminate|].
  destruct (get h r) as [c|]; [|discriminate].
  destruct (oid_eqb (c_parent c) p) eqn:E; [|discriminate].
  exists c. split; auto. apply oid_eqb_eq. assumption.
Qed.

Lemma walk_ids_lt : forall f h p r t ids, walk f h p r = Some (t, ids) -> Forall (fun i => i < length h) ids.
Proof.
  induction f as [|f IH]; intros h p r t ids H; simpl in H; [discriminate|].
  destruct (get h r) as [c|] eqn:Eg; [|discriminate].
  destruct (oid_eqb (c_parent c) p); [|discriminate].
  destruct (walk_list (walk f h (Some r)) (c_children c)) as [[ks i1]|] eqn:E1; [|discriminate].
  destruct (walk_list (walk f h (Some r)) (opt_list (c_input c))) as [[ti i2]|] eqn:E2; [|discriminate].
  destruct (walk_list (walk f h (Some r)) (opt_list (c_output c))) as [[to i3]|] eqn:E3; [|discriminate].
  inversion H; subst. constructor; [eapply get_lt; eassumption|].
  repeat (apply Forall_app; split);
    (eapply walk_list_Forall; [|eassumption]; intros v t0 i0 Hv; eapply IH; eassumption).
Qed.

Lemma walk_frame : forall f h1 h2 p r t ids,
  walk f h1 p r = Some (t, ids) -> (forall i, In i ids -> get h2 i = get h1 i) -> walk f h2 p r = Some (t, ids).
Proof.
  induction f as [|f IH]; intros h1 h2 p r t ids H HG; simpl in *; [discriminate|].
  destruct (get h1 r) as [c|] eqn:Eg; [|discriminate].
  destruct (oid_eqb (c_parent c) p) eqn:Ep; [|discriminate].
  destruct (walk_list (walk f h1 (Some r)) (c_children c)) as [[ks i1]|] eqn:E1; [|discriminate].
  destruct (walk_list (walk f h1 (Some r)) (opt_list (c_input c))) as [[ti i2]|] eqn:E2; [|discriminate].
  destruct (walk_list (walk f h1 (Some r)) (opt_list (c_output c))) as [[to i3]|] eqn:E3; [|discriminate].
  inversion H; subst.
  rewrite HG by (simpl; auto). rewrite Eg, Ep.
  assert (T : forall l ts i, walk_list (walk f h1 (Some r)) l = Some (ts, i) ->
              (forall x, In x i -> In x (i1 ++ i2 ++ i3)) -> walk_list (walk f h2 (Some r)) l = Some (ts, i)).
  { intros l ts i Hl Hin.
    apply (walk_list_transfer (fun x => get h2 x = get h1 x) (walk f h1 (Some r))); [ | exact Hl | ].
    - intros v t0 i0 Hv Hx. eapply IH; eassumption.
    - intros x Hx. apply HG. simpl. right. apply Hin. assumption. }
  rewrite (T _ _ _ E1) by (intros; rewrite in_app_iff; auto).
  rewrite (T _ _ _ E2) by (intros; rewrite !in_app_iff; auto).
  rewrite (T _ _ _ E3) by (intros; rewrite !in_app_iff; auto).
  reflexivity.
Qed.

Lemma walk_ext : forall f h h' p r t ids, ext h h' -> walk f h p r = Some (t, ids) -> walk f h' p r = Some (t, ids).
Proof.
  intros f h h' p r t ids [L E] H. eapply walk_frame; [eassumption|].
  intros i Hi. apply E. pose proof (walk_ids_lt _ _ _ _ _ _ H) as F. rewrite Forall_forall in F. apply F. assumption.
Qed.

(* any fuel not smaller than the number of visited ids does *)
Lemma walk_fuel : forall f h p r t ids, walk f h p r = Some (t, ids) ->
  forall f', length ids <= f' -> walk f' h p r = Some (t, ids).
Proof.
  induction f as [|f IH]; intros h p r t ids H f' Hf; simpl in H; [discriminate|].
  destruct (get h r) as [c|] eqn:Eg; [|discriminate].
  destruct (oid_eqb (c_parent c) p) eqn:Ep; [|discriminate].
  destruct (walk_list (walk f h (Some r)) (c_children c)) as [[ks i1]|] eqn:E1; [|discriminate].
  destruct (walk_list (walk f h (Some r)) (opt_list (c_input c))) as [[ti i2]|] eqn:E2; [|discriminate].
  destruct (walk_list (walk f h (Some r)) (opt_list (c_output c))) as [[to i3]|] eqn:E3; [|discriminate].
  inversion H; subst. simpl in Hf. rewrite !app_length in Hf.
  destruct f' as [|f']; [lia|]. simpl. rewrite Eg, Ep.
  assert (T : forall l ts i, walk_list (walk f h (Some r)) l = Some (ts, i) -> length i <= f' ->
              walk_list (walk f' h (Some r)) l = Some (ts, i)).
  { intros l ts i Hl Hlen. apply (walk_list_transfer_len f' (walk f h (Some r))); [ | exact Hl | exact Hlen ].
    intros v t0 i0 Hv Hx. eapply IH; eassumption. }
  rewrite (T _ _ _ E1) by lia. rewrite (T _ _ _ E2) by lia. rewrite (T _ _ _ E3) by lia. reflexivity.
Qed.

Lemma NoDup_bounded_length : forall n (l : list id), NoDup l -> Forall (fun i => i < n) l -> length l <= n.
Proof.
  intros n l Hn Hf. rewrite <- (seq_length n 0). apply NoDup_incl_length; auto.
  intros x Hx. rewrite Forall_forall in Hf. apply in_seq. specialize (Hf x Hx). lia.
Qed.

(* re-parenting the root of a walked tree *)
Lemma walk_reparent : forall f h p r t ids p',
  walk f h p r = Some (t, ids) -> NoDup ids -> walk f (set_parent h r p') p' r = Some (t, ids).
Proof.
  intros [|f] h p r t ids p' H Hn; simpl in H; [discriminate|].
  destruct (get h r) as [c|] eqn:Eg; [|discriminate].
  destruct (oid_eqb (c_parent c) p) eqn:Ep; [|discriminate].
  destruct (walk_list (walk f h (Some r)) (c_children c)) as [[ks i1]|] eqn:E1; [|discriminate].
  destruct (walk_list (walk f h (Some r)) (opt_list (c_input c))) as [[ti i2]|] eqn:E2; [|discriminate].
  destruct (walk_list (walk f h (Some r)) (opt_list (c_output c))) as [[to i3]|] eqn:E3; [|discriminate].
  inversion H; subst. inversion Hn as [|? ? Hr Hn']; subst.
  unfold set_parent. rewrite Eg. simpl.
  rewrite get_set_eq by (eapply get_lt; eassumption). simpl. rewrite oid_eqb_refl.
  assert (T : forall l ts i, walk_list (walk f h (Some r)) l = Some (ts, i) ->
              (forall x, In x i -> In x (i1 ++ i2 ++ i3)) ->
              walk_list (walk f (set h r (with_parent c p')) (Some r)) l = Some (ts, i)).
  { intros l ts i Hl Hin.
    apply (walk_list_transfer (fun x => x <> r) (walk f h (Some r))); [ | exact Hl | ].
    - intros v t0 i0 Hv Hx. eapply walk_frame; [eassumption|].
      intros y Hy. apply get_set_neq. intro Hry. apply (Hx y Hy). symmetry. exact Hry.
    - intros x Hx ->. apply Hr. apply Hin. assumption. }
  rewrite (T _ _ _ E1) by (intros; rewrite in_app_iff; auto).
  rewrite (T _ _ _ E2) by (intros; rewrite !in_app_iff; auto).
  rewrite (T _ _ _ E3) by (intros; rewrite !in_app_iff; auto).
  reflexivity.
Qed.

(* ------------------------------------------------------------------ dup *)
(* what one call of dup with fuel f does on a walkable source (the induction hypothesis, as a predicate on f) *)
Definition dup_ok (f : nat) : Prop :=
  forall h e p t ids, walk f h p e = Some (t, ids) ->
  exists h' ids', dup f h e = Some (h', length h) /\ ext h h' /\ length h < length h' /\
    walk f h' p (length h) = Some (t, ids') /\ NoDup ids' /\ Forall (fun i => length h <= i < length h') ids'.

Lemma range_weaken : forall a b a' b' (l : list id), a' <= a -> b <= b' ->
  Forall (fun i => a <= i < b) l -> Forall (fun i => a' <= i < b') l.
Proof. intros. eapply Forall_impl; [|eassumption]. simpl. intros. lia. Qed.

Lemma dup_list_ok : forall f, dup_ok f ->
  forall l hb h q ne ts ids, ext hb h -> walk_list (walk f hb q) l = Some (ts, ids) ->
  exists h' dir ids', dup_list (dup f) ne l h = Some (h', dir) /\ ext h h' /\
    walk_list (walk f h' (Some ne)) dir = Some (ts, ids') /\ NoDup ids' /\
    Forall (fun i => length h <= i < length h') ids' /\
    (forall o, l = opt_list o -> opt_list (list_opt dir) = dir).
Proof.
  intros f IHf. induction l as [|[k v] l IH]; intros hb h q ne ts ids Hext H; simpl in H.
  - inversion H; subst. exists h, [], []. simpl. repeat split; auto using ext_refl; constructor.
  - destruct (walk f hb q v) as [[t1 i1]|] eqn:Ev; [|discriminate].
    destruct (walk_list (walk f hb q) l) as [[ts' ids']|] eqn:El; [|discriminate].
    inversion H; subst. clear H.
    pose proof (walk_ext _ _ _ _ _ _ _ Hext Ev) as Ev'.
    destruct (IHf _ _ _ _ _ Ev') as (h1 & i1' & Hd & Hx1 & Hl1 & Hw1 & Hn1 & Hr1).
    set (de := length h) in *.
    set (h2 := set_parent h1 de (Some ne)).
    assert (Hw2 : walk f h2 (Some ne) de = Some (t1, i1')) by (apply walk_reparent with (p := q); assumption).
    assert (Hx2 : ext h h2) by (apply ext_set_parent_new; [assumption|unfold de; lia]).
    assert (Hlen2 : length h2 = length h1) by apply length_set_parent.
    destruct (IH hb h2 q ne ts' ids' (ext_trans _ _ _ Hext Hx2) El) as (h3 & dir & i3 & Hd3 & Hx3 & Hw3 & Hn3 & Hr3 & _).
    exists h3, ((k, de) :: dir), (i1' ++ i3). simpl. rewrite Hd. fold h2. rewrite Hd3.
    destruct Hx3 as [L3 E3].
    assert (Hw2' : walk f h3 (Some ne) de = Some (t1, i1')).
    { eapply walk_frame; [exact Hw2|]. intros i Hi. apply E3. rewrite Hlen2.
      rewrite Forall_forall in Hr1. specialize (Hr1 i Hi). lia. }
    rewrite Hw2', Hw3.
    split; [reflexivity|]. split; [eapply ext_trans; [exact Hx2|split; assumption]|].
    split; [reflexivity|]. split.
    { apply NoDup_app_intro; auto. intros x Ha Hb. rewrite Forall_forall in Hr1, Hr3.
      specialize (Hr1 x Ha). specialize (Hr3 x Hb). lia. }
    split.
    { apply Forall_app. split.
      - eapply range_weaken; [| |exact Hr1]; lia.
      - eapply range_weaken; [| |exact Hr3]; [destruct Hx2; lia|lia]. }
    intros [o|] Ho; simpl in Ho; [|discriminate]. inversion Ho; subst. simpl in Hd3. inversion Hd3; subst. reflexivity.
Qed.

Lemma dup_ok_all : forall f, dup_ok f.
Proof.
  induction f as [|f IHf]; intros h e p t ids H; simpl in H; [discriminate|].
  destruct (get h e) as [c|] eqn:Eg; [|discriminate].
  destruct (oid_eqb (c_parent c) p) eqn:Ep; [|discriminate].
  destruct (walk_list (walk f h (Some e)) (c_children c)) as [[ks i1]|] eqn:E1; [|discriminate].
  destruct (walk_list (walk f h (Some e)) (opt_list (c_input c))) as [[ti i2]|] eqn:E2; [|discriminate].
  destruct (walk_list (walk f h (Some e)) (opt_list (c_output c))) as [[to i3]|] eqn:E3; [|discriminate].
  inversion H; subst. clear H.
  set (ne := length h). set (h0 := h ++ [c]).
  assert (X0 : ext h h0) by apply ext_alloc.
  assert (L0 : length h0 = S ne) by (unfold h0, ne; rewrite app_length; simpl; lia).
  destruct (dup_list_ok f IHf _ h h0 (Some e) ne _ _ X0 E1) as (h1 & dir & j1 & D1 & X1 & W1 & N1 & R1 & _).
  assert (X01 : ext h h1) by (eapply ext_trans; eassumption).
  destruct (dup_list_ok f IHf _ h h1 (Some e) ne _ _ X01 E2) as (h2 & di & j2 & D2 & X2 & W2 & N2 & R2 & O2).
  assert (X02 : ext h h2) by (eapply ext_trans; eassumption).
  destruct (dup_list_ok f IHf _ h h2 (Some e) ne _ _ X02 E3) as (h3 & do & j3 & D3 & X3 & W3 & N3 & R3 & O3).
  assert (X03 : ext h h3) by (eapply ext_trans; eassumption).
  set (cn := with_links c dir (list_opt di) (list_opt do)).
  exists (set h3 ne cn), (ne :: j1 ++ j2 ++ j3).
  destruct X1 as [L1 G1]. destruct X2 as [L2 G2]. destruct X3 as [L3 G3].
  assert (Hne : ne < length h3) by lia.
  split.
  { simpl. rewrite Eg. unfold alloc. fold h0. fold ne. rewrite D1, D2, D3. reflexivity. }
  split; [apply ext_set_new; [assumption|unfold ne; lia]|].
  split; [rewrite length_set; unfold ne in *; lia|].
  (* the three link lists, walked in the final heap *)
  assert (T : forall hm l ts i, walk_list (walk f hm (@Some id ne)) l = Some (ts, i) -> ext hm h3 ->
              Forall (fun x => S ne <= x < length hm) i ->
              walk_list (walk f (set h3 ne cn) (@Some id ne)) l = Some (ts, i)).
  { intros hm l ts i Hl [Lm Gm] Hr.
    apply (walk_list_transfer (fun x => S ne <= x < length hm) (walk f hm (@Some id ne))); [ | exact Hl | ].
    - intros v t0 i0 Hv Hx. eapply walk_frame; [exact Hv|].
      intros y Hy. specialize (Hx y Hy). rewrite get_set_neq by lia. apply Gm. lia.
    - rewrite Forall_forall in Hr. exact Hr. }
  split.
  { simpl. rewrite get_set_eq by assumption. simpl. rewrite Ep.
    rewrite (T h1 _ _ _ W1) by (try (eapply range_weaken; [| |exact R1]; lia); eapply ext_trans; split; eassumption).
    rewrite (O2 _ eq_refl), (O3 _ eq_refl).
    rewrite (T h2 _ _ _ W2) by (try (eapply range_weaken; [| |exact R2]; lia); split; assumption).
    rewrite (T h3 _ _ _ W3) by (try (eapply range_weaken; [| |exact R3]; lia); apply ext_refl).
    reflexivity. }
  rewrite Forall_forall in R1, R2, R3.
  split.
  { constructor.
    - rewrite !in_app_iff. intros [Hi|[Hi|Hi]]; [specialize (R1 _ Hi)|specialize (R2 _ Hi)|specialize (R3 _ Hi)]; lia.
    - apply NoDup_app_intro; auto.
      + apply NoDup_app_intro; auto. intros x Ha Hb. specialize (R2 _ Ha). specialize (R3 _ Hb). lia.
      + intros x Ha Hb. specialize (R1 _ Ha). rewrite in_app_iff in Hb.
        destruct Hb as [Hb|Hb]; [specialize (R2 _ Hb)|specialize (R3 _ Hb)]; lia. }
  rewrite length_set. constructor; [unfold ne in *; lia|].
  rewrite Forall_forall. intros x Hx. rewrite !in_app_iff in Hx.
  destruct Hx as [Hi|[Hi|Hi]]; [specialize (R1 _ Hi)|specialize (R2 _ Hi)|specialize (R3 _ Hi)]; unfold ne in *; lia.
Qed.

(* ------------------------------------------------------------------ well-formed trees in a heap *)
(* the cells reachable from r form a tree: every child / input / output link is allocated, the Parent of every linked
   cell is the cell holding the link (walk checks both), and no id is reached twice (NoDup).  r's own Parent is free. *)
Definition wf_tree (h : heap) (r : id) : Prop :=
  exists f c t ids, get h r = Some c /\ walk f h (c_parent c) r = Some (t, ids) /\ NoDup ids.

(* for a well-formed tree the fuel `size of the heap` is enough *)
Lemma wf_tree_fuel : forall h r, wf_tree h r ->
  exists c t ids, get h r = Some c /\ walk (length h) h (c_parent c) r = Some (t, ids) /\ NoDup ids.
Proof.
  intros h r (f & c & t & ids & Hg & Hw & Hn). exists c, t, ids. repeat split; auto.
  eapply walk_fuel; [exact Hw|]. apply NoDup_bounded_length; [assumption|]. eapply walk_ids_lt; exact Hw.
Qed.

Lemma wf_tree_ext : forall h h' r, ext h h' -> wf_tree h r -> wf_tree h' r.
Proof.
  intros h h' r X (f & c & t & ids & Hg & Hw & Hn). exists f, c, t, ids.
  split; [destruct X as [_ E]; rewrite E; [assumption|eapply get_lt; eassumption]|].
  split; [eapply walk_ext; eassumption|assumption].
Qed.

Lemma erase_ext : forall f h h' r t, ext h h' -> erase f h r = Some t -> erase f h' r = Some t.
Proof.
  unfold erase. intros f h h' r t X H. destruct (get h r) as [c|] eqn:Eg; [|discriminate].
  destruct (walk f h (c_parent c) r) as [[t0 ids]|] eqn:Ew; [|discriminate].
  destruct X as [L E]. rewrite E by (eapply get_lt; eassumption). rewrite Eg.
  rewrite (walk_ext _ _ _ _ _ _ _ (conj L E) Ew). assumption.
Qed.

(* (a) dup of a well-formed tree: succeeds with the harness's fuel; the result is a well-formed tree; all its ids are
   fresh; it erases to the same plain tree as the source; every old cell is unchanged (so the source and every earlier
   copy are still what they were) *)
Theorem dup_fresh_wf_iso_frame : forall h r, wf_tree h r ->
  exists h' r' t ids',
    dup_top h r = Some (h', r') /\
    wf_tree h' r' /\
    reach (length h) h' r' = Some ids' /\ Forall (fun i => length h <= i < length h') ids' /\
    erase (length h) h r = Some t /\ erase (length h) h' r' = Some t /\
    (forall i, i < length h -> get h' i = get h i) /\ length h <= length h'.
Proof.
  intros h r Hwf. destruct (wf_tree_fuel _ _ Hwf) as (c & t & ids & Hg & Hw & Hn).
  destruct (dup_ok_all _ _ _ _ _ _ Hw) as (h' & ids' & Hd & [L E] & Hl & Hw' & Hn' & Hr').
  destruct (walk_root _ _ _ _ _ _ Hw') as (c' & Hg' & Hp').
  exists h', (length h), t, ids'. unfold dup_top, reach, erase. rewrite Hg, Hw, Hg', Hp', Hw'.
  repeat split; auto.
  exists (length h), c', t, ids'. rewrite Hp'. auto.
Qed.

(* the source is still the same well-formed tree after the copy *)
Theorem dup_keeps_source : forall h r h' r', wf_tree h r -> dup_top h r = Some (h', r') ->
  wf_tree h' r /\ erase (length h) h' r = erase (length h) h r.
Proof.
  intros h r h' r' Hwf Hd. destruct (dup_fresh_wf_iso_frame _ _ Hwf) as (h2 & r2 & t & ids & Hd2 & _ & _ & _ & He & _ & E & L).
  rewrite Hd in Hd2. inversion Hd2; subst. split.
  - eapply wf_tree_ext; [split; eassumption|assumption].
  - rewrite He. eapply erase_ext; [split; eassumption|assumption].
Qed.

(* (b) two successive copies of one source: both well-formed in the final heap, both erase to the source's tree, and
   no id of the one is an id of the other (nor of anything allocated before) *)
Theorem dup_twice_disjoint : forall h r, wf_tree h r ->
  exists h1 r1 h2 r2 t ids1 ids2,
    dup_top h r = Some (h1, r1) /\ dup_top h1 r = Some (h2, r2) /\
    wf_tree h2 r1 /\ wf_tree h2 r2 /\ wf_tree h2 r /\
    reach (length h) h2 r1 = Some ids1 /\ reach (length h1) h2 r2 = Some ids2 /\
    (forall i, In i ids1 -> In i ids2 -> False) /\
    Forall (fun i => length h <= i) ids1 /\ Forall (fun i => length h <= i) ids2 /\
    erase (length h) h2 r1 = Some t /\ erase (length h1) h2 r2 = Some t /\ erase (length h) h r = Some t.
Proof.
  intros h r Hwf.
  destruct (dup_fresh_wf_iso_frame _ _ Hwf) as (h1 & r1 & t & ids1 & D1 & W1 & R1 & F1 & E0 & E1 & G1 & L1).
  destruct (dup_keeps_source _ _ _ _ Hwf D1) as [Hwf1 Es1].
  destruct (dup_fresh_wf_iso_frame _ _ Hwf1) as (h2 & r2 & t2 & ids2 & D2 & W2 & R2 & F2 & E0' & E2 & G2 & L2).
  assert (X12 : ext h1 h2) by (split; assumption).
  assert (t2 = t).
  { assert (Q : erase (length h1) h1 r = Some t).
    { unfold erase in *. destruct (get h r) as [c|] eqn:Eg; [|discriminate].
      destruct (walk (length h) h (c_parent c) r) as [[t0 i0]|] eqn:Ew; [|discriminate]. inversion E0; subst.
      rewrite G1 by (eapply get_lt; eassumption). rewrite Eg.
      assert (Ew1 : walk (length h) h1 (c_parent c) r = Some (t, i0)) by (eapply walk_ext; [split; eassumption|exact Ew]).
      rewrite (walk_fuel _ _ _ _ _ _ Ew1 (length h1)); [reflexivity|].
      pose proof (walk_ids_lt _ _ _ _ _ _ Ew) as B.
      (* the source's ids need not be distinct for this bound: use the fuel it was walked with *)
      destruct Hwf as (f & c0 & t0 & i00 & Hg0 & Hw0 & Hn0). rewrite Eg in Hg0. inversion Hg0; subst c0.
      pose proof (walk_fuel _ _ _ _ _ _ Hw0 (length h)) as Hw0'.
      rewrite Ew in Hw0'. 
      assert (Hb : length i00 <= length h) by (apply NoDup_bounded_length; [assumption|eapply walk_ids_lt; exact Hw0]).
      specialize (Hw0' Hb). inversion Hw0'; subst. lia. }
    rewrite Q in E0'. congruence. }
  subst t2.
  exists h1, r1, h2, r2, t, ids1, ids2.
  split; [assumption|]. split; [assumption|].
  split; [eapply wf_tree_ext; eassumption|]. split; [assumption|]. split; [eapply wf_tree_ext; eassumption|].
  (* r1 seen in the final heap *)
  assert (R1' : reach (length h) h2 r1 = Some ids1 /\ erase (length h) h2 r1 = Some t).
  { unfold reach, erase in *. destruct (get h1 r1) as [c1|] eqn:Eg1; [|discriminate].
    destruct (walk (length h) h1 (c_parent c1) r1) as [[t1 i1]|] eqn:Ew1; [|discriminate].
    rewrite G2 by (eapply get_lt; eassumption). rewrite Eg1.
    rewrite (walk_ext _ _ _ _ _ _ _ X12 Ew1). split; congruence. }
  destruct R1' as [R1' E1'].
  split; [assumption|]. split; [assumption|].
  rewrite Forall_forall in F1, F2.
  split; [intros i Ha Hb; specialize (F1 _ Ha); specialize (F2 _ Hb); lia|].
  split; [rewrite Forall_forall; intros i Hi; specialize (F1 _ Hi); lia|].
  split; [rewrite Forall_forall; intros i Hi; specialize (F2 _ Hi); lia|].
  auto.
Qed.

(* ------------------------------------------------------------------ moving trees: add *)
Lemma NoDup_app_elim : forall (a b : list id), NoDup (a ++ b) ->
  NoDup a /\ NoDup b /\ (forall x, In x a -> In x b -> False).
Proof.
  induction a as [|y a IH]; intros b H; simpl in *.
  - repeat split; auto. constructor.
  - inversion H as [|? ? Hy H']; subst. destruct (IH b H') as (Na & Nb & D).
    split; [constructor; auto; intro Hc; apply Hy; rewrite in_app_iff; auto|].
    split; [assumption|]. intros x [->|Ha] Hb; [apply Hy; rewrite in_app_iff; auto|eapply D; eauto].
Qed.

Lemma walk_list_true : forall W1 W2 l ts ids,
  (forall v t i, W1 v = Some (t, i) -> W2 v = Some (t, i)) ->
  walk_list W1 l = Some (ts, ids) -> walk_list W2 l = Some (ts, ids).
Proof.
  intros. apply (walk_list_transfer (fun _ => True) W1 W2 l ts ids); auto.
Qed.

Lemma walk_mono : forall f h p r t ids, walk f h p r = Some (t, ids) -> forall f', f <= f' -> walk f' h p r = Some (t, ids).
Proof.
  induction f as [|f IH]; intros h p r t ids H f' Hf; simpl in H; [discriminate|].
  destruct f' as [|f']; [lia|]. simpl.
  destruct (get h r) as [c|] eqn:Eg; [|discriminate].
  destruct (oid_eqb (c_parent c) p) eqn:Ep; [|discriminate].
  destruct (walk_list (walk f h (Some r)) (c_children c)) as [[ks i1]|] eqn:E1; [|discriminate].
  destruct (walk_list (walk f h (Some r)) (opt_list (c_input c))) as [[ti i2]|] eqn:E2; [|discriminate].
  destruct (walk_list (walk f h (Some r)) (opt_list (c_output c))) as [[to i3]|] eqn:E3; [|discriminate].
  assert (T : forall l ts i, walk_list (walk f h (Some r)) l = Some (ts, i) -> walk_list (walk f' h (Some r)) l = Some (ts, i)).
  { intros l ts i Hl. eapply walk_list_true; [|exact Hl]. intros. eapply IH; [eassumption|lia]. }
  rewrite (T _ _ _ E1), (T _ _ _ E2), (T _ _ _ E3). assumption.
Qed.

Lemma walk_head : forall f h p r t ids, walk f h p r = Some (t, ids) -> In r ids.
Proof.
  intros [|f] h p r t ids H; simpl in H; [discriminate|].
  destruct (get h r) as [c|]; [|discriminate].
  destruct (oid_eqb (c_parent c) p); [|discriminate].
  destruct (walk_list _ (c_children c)) as [[ks i1]|]; [|discriminate].
  destruct (walk_list _ (opt_list (c_input c))) as [[ti i2]|]; [|discriminate].
  destruct (walk_list _ (opt_list (c_output c))) as [[to i3]|]; [|discriminate].
  inversion H; subst. simpl. auto.
Qed.

Lemma walk_list_app : forall W l1 l2 ts1 i1 ts2 i2,
  walk_list W l1 = Some (ts1, i1) -> walk_list W l2 = Some (ts2, i2) ->
  walk_list W (l1 ++ l2) = Some (ts1 ++ ts2, i1 ++ i2).
Proof.
  intros W. induction l1 as [|[k v] l1 IH]; intros l2 ts1 i1 ts2 i2 H1 H2; simpl in *.
  - inversion H1; subst. assumption.
  - destruct (W v) as [[t i]|]; [|discriminate].
    destruct (walk_list W l1) as [[ts' ids']|] eqn:El; [|discriminate].
    inversion H1; subst. rewrite (IH l2 _ _ _ _ eq_refl H2). rewrite app_assoc. reflexivity.
Qed.

(* ------------------------------------------------------------------ grafting a tree under a cell *)
Section Graft.
Variables (h : heap) (e v : id) (key : str) (ce : cell) (fv : nat) (pv : option id) (tv : tree) (iv : list id).
Hypothesis He : get h e = Some ce.
Hypothesis Hv : walk fv h pv v = Some (tv, iv).
Hypothesis Hnv : NoDup iv.
Hypothesis Hev : ~ In e iv.

Definition grafted : heap :=
  set (set_parent h v (Some e)) e (with_children ce (c_children ce ++ [(key, v)])).

(* membership in the new id list *)
Definition gin (ids ids' : list id) : Prop := forall x, In x ids' <-> (In x ids \/ (In e ids /\ In x iv)).

Lemma v_ne_e : v <> e.
Proof. intro; subst. apply Hev. eapply walk_head; exact Hv. Qed.

Lemma get_grafted_other : forall x, x <> e -> ~ In x iv -> get grafted x = get h x.
Proof.
  intros x Hxe Hxv. unfold grafted. rewrite get_set_neq by congruence.
  unfold set_parent. destruct (get h v); [|reflexivity]. apply get_set_neq.
  intro; subst. apply Hxv. eapply walk_head; exact Hv.
Qed.

Lemma walk_v_grafted : forall f, fv <= f -> walk f grafted (Some e) v = Some (tv, iv).
Proof.
  intros f Hf. eapply walk_mono; [|exact Hf].
  eapply walk_frame; [apply walk_reparent with (p := pv); [exact Hv|exact Hnv]|].
  intros i Hi. unfold grafted. apply get_set_neq. intro; subst. contradiction.
Qed.

(* a walk that meets neither e nor the grafted tree is unchanged *)
Lemma walk_untouched : forall f p r t ids, walk f h p r = Some (t, ids) ->
  ~ In e ids -> (forall x, In x ids -> ~ In x iv) -> walk f grafted p r = Some (t, ids).
Proof.
  intros. eapply walk_frame; [eassumption|]. intros i Hi. apply get_grafted_other; [intro; subst; contradiction|auto].
Qed.

Lemma walk_list_graft : forall W1 W2 l ts ids,
  (forall v0 t0 i0, W1 v0 = Some (t0, i0) -> NoDup i0 -> (forall x, In x i0 -> ~ In x iv) ->
     exists t' i', W2 v0 = Some (t', i') /\ NoDup i' /\ gin i0 i') ->
  walk_list W1 l = Some (ts, ids) -> NoDup ids -> (forall x, In x ids -> ~ In x iv) ->
  exists ts' ids', walk_list W2 l = Some (ts', ids') /\ NoDup ids' /\ gin ids ids'.
Proof.
  intros W1 W2. induction l as [|[k v0] l IH]; intros ts ids HW H Hn Hd; simpl in H.
  - inversion H; subst. exists [], []. simpl. split; [reflexivity|]. split; [constructor|]. intro x. simpl. tauto.
  - destruct (W1 v0) as [[t0 i0]|] eqn:Ev; [|discriminate].
    destruct (walk_list W1 l) as [[ts1 ids1]|] eqn:El; [|discriminate].
    inversion H; subst. clear H.
    destruct (NoDup_app_elim _ _ Hn) as (Hn0 & Hn1 & Hx).
    destruct (HW _ _ _ Ev Hn0) as (t' & i' & Hw' & Hn' & Hg'); [intros; apply Hd; rewrite in_app_iff; auto|].
    destruct (IH _ _ HW eq_refl Hn1) as (ts' & ids' & Hl' & Hnl' & Hgl'); [intros; apply Hd; rewrite in_app_iff; auto|].
    exists ((k, t') :: ts'), (i' ++ ids'). simpl. rewrite Hw', Hl'. split; [reflexivity|]. split.
    + apply NoDup_app_intro; auto. intros x Ha Hb. apply Hg' in Ha. apply Hgl' in Hb.
      destruct Ha as [Ha|[Ha Ha']]; destruct Hb as [Hb|[Hb Hb']].
      * eapply Hx; eassumption.
      * apply (Hd x); [rewrite in_app_iff; auto|assumption].
      * apply (Hd x); [rewrite in_app_iff; auto|assumption].
      * eapply (Hx e); eassumption.
    + intro x. rewrite !in_app_iff. rewrite (Hg' x), (Hgl' x). tauto.
Qed.

Lemma graft_walk : forall f p r t ids, walk f h p r = Some (t, ids) -> NoDup ids -> (forall x, In x ids -> ~ In x iv) ->
  exists t' ids', walk (f + fv) grafted p r = Some (t', ids') /\ NoDup ids' /\ gin ids ids'.
Proof.
  induction f as [|f IH]; intros p r t ids H Hn Hd; simpl in H; [discriminate|].
  destruct (get h r) as [c|] eqn:Eg; [|discriminate].
  destruct (oid_eqb (c_parent c) p) eqn:Ep; [|discriminate].
  destruct (walk_list (walk f h (Some r)) (c_children c)) as [[ks i1]|] eqn:E1; [|discriminate].
  destruct (walk_list (walk f h (Some r)) (opt_list (c_input c))) as [[ti i2]|] eqn:E2; [|discriminate].
  destruct (walk_list (walk f h (Some r)) (opt_list (c_output c))) as [[to i3]|] eqn:E3; [|discriminate].
  inversion H; subst. clear H. inversion Hn as [|? ? Hr Hn']; subst.
  destruct (Nat.eq_dec r e) as [->|Hre].
  - (* the target itself: the old links are walked as before, the new child is the grafted tree *)
    rewrite He in Eg. inversion Eg; subst c. clear Eg.
    assert (T : forall l ts i, walk_list (walk f h (Some e)) l = Some (ts, i) ->
                (forall x, In x i -> In x (i1 ++ i2 ++ i3)) ->
                walk_list (walk (f + fv) grafted (Some e)) l = Some (ts, i)).
    { intros l ts i Hl Hin.
      apply (walk_list_transfer (fun x => In x (i1 ++ i2 ++ i3)) (walk f h (Some e))); [ | exact Hl | exact Hin ].
      intros v0 t0 i0 Hv0 Hx. eapply walk_mono; [|apply Nat.le_add_r].
      apply walk_untouched; [assumption| |].
      - intro Hc. apply Hr. apply Hx. assumption.
      - intros x Hxi. apply Hd. simpl. right. apply Hx. assumption. }
    exists (TNode (c_name ce) (c_kind ce) (c_la ce) (c_ty ce) (c_ns ce) (c_errs ce) (ks ++ [(key, tv)]) ti to),
           (e :: (i1 ++ iv ++ []) ++ i2 ++ i3).
    split.
    { simpl. unfold grafted at 1. rewrite get_set_eq by (rewrite length_set_parent; eapply get_lt; exact He).
      simpl. rewrite Ep.
      erewrite walk_list_app;
        [ | apply (T _ _ _ E1); intros; rewrite in_app_iff; auto
          | simpl; rewrite walk_v_grafted by lia; reflexivity ].
      rewrite (T _ _ _ E2) by (intros; rewrite !in_app_iff; auto).
      rewrite (T _ _ _ E3) by (intros; rewrite !in_app_iff; auto).
      reflexivity. }
    rewrite app_nil_r.
    assert (P : Permutation ((i1 ++ iv) ++ i2 ++ i3) (iv ++ i1 ++ i2 ++ i3)).
    { rewrite <- app_assoc. apply Permutation_app_swap_app. }
    split.
    { constructor.
      - intro Hc. apply (Permutation_in _ P) in Hc. rewrite in_app_iff in Hc. destruct Hc; [contradiction|]. contradiction.
      - apply (Permutation_NoDup (Permutation_sym P)). apply NoDup_app_intro; auto.
        intros x Ha Hb. apply (Hd x); [simpl; auto|assumption]. }
    intro x. simpl. split.
    + intros [->|Hc]; [auto|]. apply (Permutation_in _ P) in Hc. rewrite in_app_iff in Hc. tauto.
    + intros [[->|Hc]|[_ Hc]]; [auto| |]; right; apply (Permutation_in _ (Permutation_sym P)); rewrite in_app_iff; auto.
  - (* another cell: unchanged itself, its links by induction *)
    assert (Hrv : ~ In r iv) by (apply Hd; simpl; auto).
    assert (IH' : forall v0 t0 i0, walk f h (Some r) v0 = Some (t0, i0) -> NoDup i0 -> (forall x, In x i0 -> ~ In x iv) ->
              exists t' i', walk (f + fv) grafted (Some r) v0 = Some (t', i') /\ NoDup i' /\ gin i0 i')
      by (intros; eapply IH; eassumption).
    destruct (NoDup_app_elim _ _ Hn') as (N1 & N23 & D12).
    destruct (NoDup_app_elim _ _ N23) as (N2 & N3 & D23).
    destruct (walk_list_graft _ _ _ _ _ IH' E1 N1) as (ks' & j1 & W1 & M1 & G1);
      [intros; apply Hd; simpl; rewrite !in_app_iff; auto|].
    destruct (walk_list_graft _ _ _ _ _ IH' E2 N2) as (ti' & j2 & W2 & M2 & G2);
      [intros; apply Hd; simpl; rewrite !in_app_iff; auto|].
    destruct (walk_list_graft _ _ _ _ _ IH' E3 N3) as (to' & j3 & W3 & M3 & G3);
      [intros; apply Hd; simpl; rewrite !in_app_iff; auto|].
    exists (TNode (c_name c) (c_kind c) (c_la c) (c_ty c) (c_ns c) (c_errs c) ks' ti' to'), (r :: j1 ++ j2 ++ j3).
    split; [simpl; rewrite get_grafted_other by assumption; rewrite Eg, Ep, W1, W2, W3; reflexivity|].
    assert (Hdv : forall x, In x (i1 ++ i2 ++ i3) -> ~ In x iv) by (intros; apply Hd; simpl; auto).
    split.
    { constructor.
      - rewrite !in_app_iff. intros [Hc|[Hc|Hc]];
          [apply G1 in Hc|apply G2 in Hc|apply G3 in Hc];
          (destruct Hc as [Hc|[_ Hc]]; [apply Hr; rewrite !in_app_iff; auto|contradiction]).
      - apply NoDup_app_intro; [assumption| |].
        + apply NoDup_app_intro; auto. intros x Ha Hb. apply G2 in Ha. apply G3 in Hb.
          destruct Ha as [Ha|[Ha Ha']]; destruct Hb as [Hb|[Hb Hb']].
          * eapply D23; eassumption.
          * apply (Hdv x); [rewrite !in_app_iff; auto|assumption].
          * apply (Hdv x); [rewrite !in_app_iff; auto|assumption].
          * eapply (D23 e); eassumption.
        + intros x Ha Hb. apply G1 in Ha.
          assert (Hb' : In x (i2 ++ i3) \/ (In e (i2 ++ i3) /\ In x iv)).
          { rewrite in_app_iff in Hb. destruct Hb as [Hb|Hb]; [apply G2 in Hb|apply G3 in Hb]; rewrite !in_app_iff; tauto. }
          destruct Ha as [Ha|[Ha Ha']]; destruct Hb' as [Hb'|[Hb' Hb'']].
          * eapply D12; eassumption.
          * apply (Hdv x); [rewrite !in_app_iff; auto|assumption].
          * apply (Hdv x); [rewrite in_app_iff; auto|assumption].
          * eapply (D12 e); eassumption. }
    intro x. simpl. rewrite !in_app_iff. rewrite (G1 x), (G2 x), (G3 x).
    split; [tauto|]. intros [Hc|[[Hc|Hc] Hc']]; [tauto|congruence|tauto].
Qed.
End Graft.

(* ------------------------------------------------------------------ add *)
(* ids is the list of ids visited from r (r's own Parent is free) *)
Definition reaches (h : heap) (r : id) (ids : list id) : Prop :=
  exists f c t, get h r = Some c /\ walk f h (c_parent c) r = Some (t, ids).

Lemma wf_tree_reaches : forall h r, wf_tree h r <-> exists ids, reaches h r ids /\ NoDup ids.
Proof.
  intros h r. split.
  - intros (f & c & t & ids & Hg & Hw & Hn). exists ids. split; [exists f, c, t; auto|assumption].
  - intros (ids & (f & c & t & Hg & Hw) & Hn). exists f, c, t, ids. auto.
Qed.

Lemma add_is_graft : forall h e key v ce, get h e = Some ce -> v <> e -> lookup key (c_children ce) = None ->
  add h e key v = grafted h e v key ce.
Proof.
  intros h e key v ce He Hve Hl. unfold add, grafted.
  assert (Hg : get (set_parent h v (Some e)) e = Some ce).
  { unfold set_parent. destruct (get h v); [rewrite get_set_neq by assumption|]; assumption. }
  rewrite Hg, Hl. reflexivity.
Qed.

(* (c) add of a separate well-formed tree v under a cell e of a well-formed tree, key not taken: the result is a
   well-formed tree whose ids are those of both, v points to e, e holds v under the key, no other cell changes *)
Theorem add_wf : forall h root e key v idsr idsv ce,
  reaches h root idsr -> NoDup idsr -> reaches h v idsv -> NoDup idsv ->
  In e idsr -> (forall x, In x idsr -> ~ In x idsv) ->
  get h e = Some ce -> lookup key (c_children ce) = None ->
  let h' := add h e key v in
  (exists ids', reaches h' root ids' /\ NoDup ids' /\ (forall x, In x ids' <-> In x idsr \/ In x idsv)) /\
  wf_tree h' root /\
  (exists cv, get h' v = Some cv /\ c_parent cv = Some e) /\
  get h' e = Some (with_children ce (c_children ce ++ [(key, v)])) /\
  (forall x, x <> e -> x <> v -> get h' x = get h x).
Proof.
  intros h root e key v idsr idsv ce (f & c & t & Hg & Hw) Hn (fv & cv & tv & Hgv & Hwv) Hnv Hin Hd He Hl h'.
  assert (Hev : ~ In e idsv) by (apply Hd; assumption).
  assert (Hve : v <> e) by (eapply v_ne_e; eassumption).
  assert (Eh : h' = grafted h e v key ce) by (apply add_is_graft; assumption).
  destruct (graft_walk h e v key ce fv _ tv idsv He Hwv Hnv Hev _ _ _ _ _ Hw Hn Hd) as (t' & ids' & Hw' & Hn' & Hg').
  rewrite <- Eh in Hw'.
  destruct (walk_root _ _ _ _ _ _ Hw') as (c' & Hgc' & Hpc').
  assert (R : reaches h' root ids') by (exists (f + fv), c', t'; rewrite Hpc'; auto).
  assert (M : forall x, In x ids' <-> In x idsr \/ In x idsv) by (intro x; rewrite (Hg' x); tauto).
  split; [exists ids'; auto|].
  split; [apply wf_tree_reaches; exists ids'; auto|].
  split.
  { pose proof (walk_v_grafted h e v key ce fv _ tv idsv He Hwv Hnv Hev fv (le_n _)) as Hv'. rewrite <- Eh in Hv'.
    destruct (walk_root _ _ _ _ _ _ Hv') as (cv' & Hgv' & Hpv'). exists cv'. auto. }
  split.
  { rewrite Eh. unfold grafted. apply get_set_eq. rewrite length_set_parent. eapply get_lt; exact He. }
  intros x Hxe Hxv. rewrite Eh. unfold grafted. rewrite get_set_neq by congruence.
  unfold set_parent. destruct (get h v); [apply get_set_neq; congruence|reflexivity].
Qed.

(* the duplicate-key branch: the error is recorded on e; value.Parent = e has already been written (entry.go sets it
   before looking the key up); nothing else changes *)
Theorem add_duplicate : forall h e key v ce w,
  get h e = Some ce -> v <> e -> lookup key (c_children ce) = Some w ->
  let h' := add h e key v in
  get h' e = Some (with_err ce) /\
  (forall cv, get h v = Some cv -> get h' v = Some (with_parent cv (Some e))) /\
  (forall x, x <> e -> x <> v -> get h' x = get h x).
Proof.
  intros h e key v ce w He Hve Hl h'. unfold h', add.
  assert (Hg : get (set_parent h v (Some e)) e = Some ce).
  { unfold set_parent. destruct (get h v); [rewrite get_set_neq by assumption|]; assumption. }
  rewrite Hg, Hl. split.
  { apply get_set_eq. rewrite length_set_parent. eapply get_lt; exact He. }
  split.
  { intros cv Hcv. rewrite get_set_neq by congruence. unfold set_parent. rewrite Hcv.
    apply get_set_eq. eapply get_lt; exact Hcv. }
  intros x Hxe Hxv. rewrite get_set_neq by congruence.
  unfold set_parent. destruct (get h v); [apply get_set_neq; congruence|reflexivity].
Qed.

(* ------------------------------------------------------------------ payload updates keep the shape *)
Definition same_links (c c' : cell) : Prop :=
  c_parent c = c_parent c' /\ c_children c = c_children c' /\ c_input c = c_input c' /\ c_output c = c_output c'.

Lemma walk_list_shape : forall W1 W2 l ts ids,
  (forall v t i, W1 v = Some (t, i) -> exists t', W2 v = Some (t', i)) ->
  walk_list W1 l = Some (ts, ids) -> exists ts', walk_list W2 l = Some (ts', ids).
Proof.
  intros W1 W2. induction l as [|[k v] l IH]; intros ts ids HW H; simpl in *.
  - inversion H; subst. eauto.
  - destruct (W1 v) as [[t i]|] eqn:Ev; [|discriminate].
    destruct (walk_list W1 l) as [[ts1 ids1]|] eqn:El; [|discriminate].
    inversion H; subst. destruct (HW _ _ _ Ev) as (t' & Hv'). destruct (IH _ _ HW eq_refl) as (ts' & Hl').
    rewrite Hv', Hl'. eauto.
Qed.

Lemma walk_payload : forall x c c' f h p r t ids, get h x = Some c -> same_links c c' ->
  walk f h p r = Some (t, ids) -> exists t', walk f (set h x c') p r = Some (t', ids).
Proof.
  intros x c c'. induction f as [|f IH]; intros h p r t ids Hx Hs H; simpl in H; [discriminate|].
  destruct (get h r) as [cr|] eqn:Eg; [|discriminate].
  destruct (oid_eqb (c_parent cr) p) eqn:Ep; [|discriminate].
  destruct (walk_list (walk f h (Some r)) (c_children cr)) as [[ks i1]|] eqn:E1; [|discriminate].
  destruct (walk_list (walk f h (Some r)) (opt_list (c_input cr))) as [[ti i2]|] eqn:E2; [|discriminate].
  destruct (walk_list (walk f h (Some r)) (opt_list (c_output cr))) as [[to i3]|] eqn:E3; [|discriminate].
  inversion H; subst. clear H.
  assert (T : forall l ts i, walk_list (walk f h (Some r)) l = Some (ts, i) ->
              exists ts', walk_list (walk f (set h x c') (Some r)) l = Some (ts', i)).
  { intros l ts i Hl. eapply walk_list_shape; [|exact Hl]. intros. eapply IH; eassumption. }
  destruct (T _ _ _ E1) as (ks' & W1). destruct (T _ _ _ E2) as (ti' & W2). destruct (T _ _ _ E3) as (to' & W3).
  destruct Hs as (Sp & Sc & Si & So).
  destruct (Nat.eq_dec x r) as [->|Hxr].
  - rewrite Hx in Eg. inversion Eg; subst cr. simpl. rewrite get_set_eq by (eapply get_lt; exact Hx).
    rewrite <- Sp, <- Sc, <- Si, <- So, Ep, W1, W2, W3. eauto.
  - simpl. rewrite get_set_neq by assumption. rewrite Eg, Ep, W1, W2, W3. eauto.
Qed.

Lemma reaches_payload : forall x c c' h r ids, get h x = Some c -> same_links c c' ->
  reaches h r ids -> reaches (set h x c') r ids.
Proof.
  intros x c c' h r ids Hx Hs (f & cr & t & Hg & Hw).
  destruct (walk_payload _ _ _ _ _ _ _ _ _ Hx Hs Hw) as (t' & Hw').
  destruct (walk_root _ _ _ _ _ _ Hw') as (cr' & Hg' & Hp').
  exists f, cr', t'. rewrite Hp'. auto.
Qed.

Lemma reaches_frame : forall h h' r ids, reaches h r ids -> (forall i, In i ids -> get h' i = get h i) -> reaches h' r ids.
Proof.
  intros h h' r ids (f & c & t & Hg & Hw) E. exists f, c, t. split.
  - rewrite E; [assumption|]. eapply walk_head; exact Hw.
  - eapply walk_frame; eassumption.
Qed.

Lemma reaches_lt : forall h r ids, reaches h r ids -> Forall (fun i => i < length h) ids.
Proof. intros h r ids (f & c & t & Hg & Hw). eapply walk_ids_lt; exact Hw. Qed.

Lemma walk_list_In : forall W l ts ids k v, walk_list W l = Some (ts, ids) -> In (k, v) l ->
  exists t iv, W v = Some (t, iv) /\ incl iv ids.
Proof.
  intros W. induction l as [|[k0 v0] l IH]; intros ts ids k v H Hin; simpl in *; [contradiction|].
  destruct (W v0) as [[t i]|] eqn:Ev; [|discriminate].
  destruct (walk_list W l) as [[ts1 ids1]|] eqn:El; [|discriminate].
  inversion H; subst. destruct Hin as [Hin|Hin].
  - inversion Hin; subst. exists t, i. split; [assumption|]. apply incl_appl. apply incl_refl.
  - destruct (IH _ _ _ _ eq_refl Hin) as (t' & iv & Hv & Hi). exists t', iv. split; [assumption|]. apply incl_appr. assumption.
Qed.

(* ------------------------------------------------------------------ merge *)
Section Merge.
Variables (h0 : heap) (root e oe : id) (ns : option N) (fuel : nat).

(* the state of the loop: old cells other than e untouched, the target tree well-formed with e in it *)
Definition minv (hc : heap) : Prop :=
  length h0 <= length hc /\
  (forall x, x < length h0 -> x <> e -> get hc x = get h0 x) /\
  exists ids, reaches hc root ids /\ NoDup ids /\ In e ids.

Lemma merge_list_ok : forall l hc, minv hc ->
  (forall k v, In (k, v) l -> exists t iv, walk fuel h0 (Some oe) v = Some (t, iv) /\ ~ In e iv) ->
  exists h', merge_list fuel hc e ns l = Some h' /\ minv h'.
Proof.
  induction l as [|[k v] l IH]; intros hc Hinv Hsrc; simpl.
  - eauto.
  - destruct Hinv as (L & Fr & ids & R & Nd & Ie).
    destruct (Hsrc k v (or_introl eq_refl)) as (t & iv & Hw0 & Hei).
    assert (Hwc : walk fuel hc (Some oe) v = Some (t, iv)).
    { eapply walk_frame; [exact Hw0|]. intros i Hi. apply Fr.
      - pose proof (walk_ids_lt _ _ _ _ _ _ Hw0) as B. rewrite Forall_forall in B. apply B. assumption.
      - intro; subst. contradiction. }
    destruct (dup_ok_all _ _ _ _ _ _ Hwc) as (h1 & iv' & Hd & [L1 E1] & Ll1 & Hw1 & Nd1 & Rg1).
    rewrite Hd. set (v' := length hc) in *.
    pose proof (reaches_lt _ _ _ R) as Blt. rewrite Forall_forall in Blt.
    assert (Helt : e < length hc) by (apply Blt; assumption).
    (* the namespace stamp *)
    set (h2 := match ns, get h1 v' with Some n, Some c => set h1 v' (with_ns c (Some n)) | _, _ => h1 end).
    assert (S2 : length h2 = length h1 /\ (forall x, x <> v' -> get h2 x = get h1 x) /\
                 exists t2, walk fuel h2 (Some oe) v' = Some (t2, iv')).
    { unfold h2. destruct ns as [n|]; [|eauto]. destruct (get h1 v') as [c1|] eqn:Ec1; [|eauto].
      split; [apply length_set|]. split; [intros; apply get_set_neq; congruence|].
      eapply walk_payload; [exact Ec1| |exact Hw1]. repeat split. }
    destruct S2 as (L2 & E2 & t2 & Hw2).
    assert (Hge : get h2 e = get hc e) by (rewrite E2 by (unfold v'; lia); apply E1; assumption).
    destruct (get hc e) as [cc|] eqn:Ecc; [|exfalso; apply nth_error_None in Ecc; lia].
    rewrite Hge.
    assert (R2 : reaches h2 root ids).
    { eapply reaches_frame; [exact R|]. intros i Hi. specialize (Blt i Hi).
      rewrite E2 by (unfold v'; lia). apply E1. assumption. }
    assert (Fr2 : forall x, x < length h0 -> x <> e -> get h2 x = get h0 x).
    { intros x Hx Hxe. rewrite E2 by (unfold v'; lia). rewrite E1 by lia. apply Fr; assumption. }
    rewrite Forall_forall in Rg1.
    assert (Hv'e : v' <> e) by (unfold v'; lia).
    apply IH; [|intros k0 v0 Hin0; apply (Hsrc k0 v0); right; exact Hin0].
    destruct (lookup k (c_children cc)) as [w|] eqn:Elk.
    + (* duplicate: the error is recorded, the copy is dropped *)
      split; [rewrite length_set; lia|]. split; [intros; rewrite get_set_neq by congruence; apply Fr2; assumption|].
      exists ids. split; [|auto]. eapply reaches_payload; [exact Hge| |exact R2]. repeat split.
    + (* the copy is moved under e *)
      change (minv (grafted h2 e v' k cc)).
      destruct R2 as (f & cr & tr & Hgr & Hwr).
      assert (Hev : ~ In e iv') by (intro Hc; specialize (Rg1 _ Hc); unfold v' in *; lia).
      destruct (graft_walk h2 e v' k cc fuel _ t2 iv' Hge Hw2 Nd1 Hev _ _ _ _ _ Hwr Nd) as (t' & ids' & Hw' & Nd' & Hg').
      { intros x Hx Hc. specialize (Blt _ Hx). specialize (Rg1 _ Hc). unfold v' in *. lia. }
      destruct (walk_root _ _ _ _ _ _ Hw') as (cr' & Hgr' & Hpr').
      split; [unfold grafted; rewrite length_set, length_set_parent; lia|].
      split.
      { intros x Hx Hxe. unfold grafted. rewrite get_set_neq by congruence.
        unfold set_parent. destruct (get h2 v'); [rewrite get_set_neq by (unfold v'; lia)|]; apply Fr2; assumption. }
      exists ids'. split; [exists (f + fuel), cr', t'; rewrite Hpr'; auto|]. split; [assumption|].
      apply Hg'. auto.
Qed.
End Merge.

Lemma walk_list_In_ids : forall W l ts ids x, walk_list W l = Some (ts, ids) -> In x ids ->
  exists k v t iv, In (k, v) l /\ W v = Some (t, iv) /\ In x iv.
Proof.
  intros W. induction l as [|[k0 v0] l IH]; intros ts ids x H Hin; simpl in *.
  - inversion H; subst. contradiction.
  - destruct (W v0) as [[t i]|] eqn:Ev; [|discriminate].
    destruct (walk_list W l) as [[ts1 ids1]|] eqn:El; [|discriminate].
    inversion H; subst. rewrite in_app_iff in Hin. destruct Hin as [Hin|Hin].
    + exists k0, v0, t, i. auto.
    + destruct (IH _ _ _ eq_refl Hin) as (k & v & t' & iv & Hl & Hv & Hx). exists k, v, t', iv. auto.
Qed.

(* in a walked tree every link of every visited cell leads to a cell whose Parent is that cell *)
Lemma walk_links_parent : forall f h p r t ids e, walk f h p r = Some (t, ids) -> In e ids ->
  exists ce, get h e = Some ce /\
    forall k w, In (k, w) (c_children ce ++ opt_list (c_input ce) ++ opt_list (c_output ce)) ->
    exists cw, get h w = Some cw /\ c_parent cw = Some e.
Proof.
  induction f as [|f IH]; intros h p r t ids e H Hin; simpl in H; [discriminate|].
  destruct (get h r) as [c|] eqn:Eg; [|discriminate].
  destruct (oid_eqb (c_parent c) p) eqn:Ep; [|discriminate].
  destruct (walk_list (walk f h (Some r)) (c_children c)) as [[ks i1]|] eqn:E1; [|discriminate].
  destruct (walk_list (walk f h (Some r)) (opt_list (c_input c))) as [[ti i2]|] eqn:E2; [|discriminate].
  destruct (walk_list (walk f h (Some r)) (opt_list (c_output c))) as [[to i3]|] eqn:E3; [|discriminate].
  inversion H; subst. clear H.
  destruct Hin as [->|Hin].
  - exists c. split; [assumption|]. intros k w Hw. rewrite !in_app_iff in Hw.
    destruct Hw as [Hw|[Hw|Hw]];
      [destruct (walk_list_In _ _ _ _ _ _ E1 Hw) as (t0 & iv & Hv & _)
      |destruct (walk_list_In _ _ _ _ _ _ E2 Hw) as (t0 & iv & Hv & _)
      |destruct (walk_list_In _ _ _ _ _ _ E3 Hw) as (t0 & iv & Hv & _)];
      apply walk_root in Hv; exact Hv.
  - rewrite !in_app_iff in Hin.
    destruct Hin as [Hin|[Hin|Hin]];
      [destruct (walk_list_In_ids _ _ _ _ _ E1 Hin) as (k & v & t0 & iv & _ & Hv & Hx)
      |destruct (walk_list_In_ids _ _ _ _ _ E2 Hin) as (k & v & t0 & iv & _ & Hv & Hx)
      |destruct (walk_list_In_ids _ _ _ _ _ E3 Hin) as (k & v & t0 & iv & _ & Hv & Hx)];
      eapply IH; eassumption.
Qed.

(* (c) merge of a separate well-formed tree oe (a grouping, an augment body) into a cell e of a well-formed tree, with
   the harness's fuel: succeeds; the target tree is again well-formed and still contains e; every link of e -- the
   moved copies among them -- leads to a cell whose Parent is e; every cell allocated before, other than e, is
   unchanged: the grouping itself, every other instance, the rest of the target tree (duplicate names only add errors
   to e) *)
Theorem merge_wf : forall h root e ns oe idsr idso,
  reaches h root idsr -> NoDup idsr -> In e idsr -> reaches h oe idso -> NoDup idso ->
  (forall x, In x idsr -> ~ In x idso) ->
  exists h', merge_top h e ns oe = Some h' /\
    wf_tree h' root /\
    (exists ids', reaches h' root ids' /\ NoDup ids' /\ In e ids') /\
    (exists ce', get h' e = Some ce' /\
       forall k w, In (k, w) (c_children ce' ++ opt_list (c_input ce') ++ opt_list (c_output ce')) ->
       exists cw, get h' w = Some cw /\ c_parent cw = Some e) /\
    (forall x, x < length h -> x <> e -> get h' x = get h x) /\ length h <= length h'.
Proof.
  intros h root e ns oe idsr idso Rr Nr Ie (fo & co & to & Hgo & Hwo) No Hd.
  pose proof (reaches_lt _ _ _ Rr) as Blt. rewrite Forall_forall in Blt.
  assert (Helt : e < length h) by (apply Blt; assumption).
  destruct (get h e) as [ce|] eqn:Ece; [|exfalso; apply nth_error_None in Ece; lia].
  assert (Hwo' : walk (length h) h (c_parent co) oe = Some (to, idso)).
  { eapply walk_fuel; [exact Hwo|]. apply NoDup_bounded_length; [assumption|]. eapply walk_ids_lt; exact Hwo. }
  unfold merge_top, merge. rewrite Hgo, Ece.
  set (hs := set h e (with_errs ce (c_errs ce + sum_errs (length h) h oe))).
  assert (I0 : minv h root e hs).
  { split; [unfold hs; rewrite length_set; lia|]. split; [intros; unfold hs; apply get_set_neq; congruence|].
    exists idsr. split; [|auto]. unfold hs. eapply reaches_payload; [exact Ece| |exact Rr]. repeat split. }
  destruct (merge_list_ok h root e oe ns (length h) (c_children co) hs I0) as (h' & Hm & L & Fr & ids' & R' & N' & I').
  { intros k v Hin. destruct (length h) as [|f'] eqn:El; [lia|]. simpl in Hwo'. rewrite Hgo in Hwo'.
    destruct (oid_eqb (c_parent co) (c_parent co)); [|discriminate].
    destruct (walk_list (walk f' h (Some oe)) (c_children co)) as [[ks i1]|] eqn:E1; [|discriminate].
    destruct (walk_list (walk f' h (Some oe)) (opt_list (c_input co))) as [[ti i2]|]; [|discriminate].
    destruct (walk_list (walk f' h (Some oe)) (opt_list (c_output co))) as [[to' i3]|]; [|discriminate].
    inversion Hwo'; subst.
    destruct (walk_list_In _ _ _ _ _ _ E1 Hin) as (t & iv & Hv & Hi). exists t, iv. split.
    - eapply walk_mono; [exact Hv|lia].
    - intro Hc. apply (Hd e Ie). simpl. right. rewrite in_app_iff. left. apply Hi. assumption. }
  exists h'. split; [exact Hm|].
  split; [apply wf_tree_reaches; exists ids'; auto|].
  split; [exists ids'; auto|].
  split; [destruct R' as (f & c & t & Hg & Hw); eapply walk_links_parent; eassumption|].
  split; assumption.
Qed.

(* ------------------------------------------------------------------ non-vacuity *)
(* a grouping g { container c { leaf x } list l { leaf k } rpc r { input { leaf a } output { leaf b } } } as cells 0..9 *)
Definition ex_cell p nm k kids i o la ty : cell := mkCell p [nm] k kids i o la ty None 0.
Definition ex_heap : heap :=
  [ ex_cell None 103%N 1%N [([99%N], 1); ([108%N], 3); ([114%N], 5)] None None None None;
    ex_cell (Some 0) 99%N 1%N [([120%N], 2)] None None None None;
    ex_cell (Some 1) 120%N 0%N [] None None None (Some 0%N);
    ex_cell (Some 0) 108%N 1%N [([107%N], 4)] None None (Some (0%N, 5%N)) None;
    ex_cell (Some 3) 107%N 0%N [] None None None (Some 1%N);
    ex_cell (Some 0) 114%N 1%N [] (Some 6) (Some 8) None None;
    ex_cell (Some 5) 105%N 6%N [([97%N], 7)] None None None None;
    ex_cell (Some 6) 97%N 0%N [] None None None (Some 0%N);
    ex_cell (Some 5) 111%N 8%N [([98%N], 9)] None None None None;
    ex_cell (Some 8) 98%N 0%N [] None None None (Some 2%N) ].

Example ex_heap_wf : wf_tree ex_heap 0.
Proof.
  exists 10. eexists. eexists. eexists. split; [reflexivity|]. split; [vm_compute; reflexivity|].
  repeat (constructor; [simpl; intuition discriminate|]). constructor.
Qed.

(* the copy occupies exactly the ten fresh ids 10..19, the rpc's input and output and THEIR children included, each
   pointing back to its copied holder *)
Example ex_heap_dup : exists h',
  dup_top ex_heap 0 = Some (h', 10) /\ reach 10 h' 10 = Some [10; 11; 12; 13; 14; 15; 16; 17; 18; 19] /\
  option_map c_parent (get h' 17) = Some (Some 16) /\ option_map c_parent (get h' 16) = Some (Some 15) /\
  option_map c_input (get h' 15) = Some (Some 16) /\ option_map c_output (get h' 15) = Some (Some 18) /\
  option_map c_la (get h' 13) = Some (Some (0%N, 5%N)) /\
  erase 10 h' 10 = erase 10 ex_heap 0 /\ erase 10 ex_heap 0 <> None.
Proof. eexists. split; [vm_compute; reflexivity|]. vm_compute. repeat split; discriminate. Qed.

(* a heap that is NOT a tree is rejected by the walk: cell 2 claims another parent; cell 1 linked from two places *)
Example ex_bad_parent : walk 10 (set_parent ex_heap 2 (Some 0)) None 0 = None.
Proof. vm_compute. reflexivity. Qed.
(* a cell linked from two holders has the wrong Parent for one of them *)
Example ex_shared : walk 10 (set ex_heap 3 (ex_cell (Some 0) 108%N 1%N [([107%N], 2)] None None None None)) None 0 = None.
Proof. vm_compute. reflexivity. Qed.

(* add: a copy of the container (cells 1, 2 -> 10, 11) is put under the list (cell 3) with the free key "c": the
   hypotheses of add_wf hold, and the walk from the root now visits the twelve cells *)
Example ex_heap_add : exists h1,
  dup_top ex_heap 1 = Some (h1, 10) /\
  reaches h1 0 [0; 1; 2; 3; 4; 5; 6; 7; 8; 9] /\ reaches h1 10 [10; 11] /\
  option_map (fun c => lookup [99%N] (c_children c)) (get h1 3) = Some None /\
  reach 12 (add h1 3 [99%N] 10) 0 = Some [0; 1; 2; 3; 4; 10; 11; 5; 6; 7; 8; 9] /\
  option_map c_parent (get (add h1 3 [99%N] 10) 10) = Some (Some 3).
Proof.
  eexists. split; [vm_compute; reflexivity|].
  split; [exists 10; eexists; eexists; split; [reflexivity|vm_compute; reflexivity]|].
  split; [exists 10; eexists; eexists; split; [reflexivity|vm_compute; reflexivity]|].
  vm_compute. auto.
Qed.

(* merge: the grouping (cells 0..9) is used twice under a separate target cell 10: the hypotheses of merge_wf hold; after
   the first use the target holds three fresh copies (11.., the rpc's input and output copied along), all pointing to
   it and stamped; the second use records three duplicate errors on the target and links nothing more; the grouping's
   cells are what they were *)
Definition ex_heap_t : heap := ex_heap ++ [ex_cell None 116%N 1%N [] None None None None].
Example ex_heap_merge : exists h1 h2,
  reaches ex_heap_t 10 [10] /\ reaches ex_heap_t 0 [0; 1; 2; 3; 4; 5; 6; 7; 8; 9] /\
  merge_top ex_heap_t 10 (Some 7%N) 0 = Some h1 /\
  reach 11 h1 10 = Some [10; 11; 12; 13; 14; 15; 16; 17; 18; 19] /\
  option_map c_parent (get h1 15) = Some (Some 10) /\ option_map c_ns (get h1 15) = Some (Some 7%N) /\
  option_map c_parent (get h1 16) = Some (Some 15) /\ option_map c_input (get h1 15) = Some (Some 16) /\
  merge_top h1 10 None 0 = Some h2 /\
  reach 11 h2 10 = Some [10; 11; 12; 13; 14; 15; 16; 17; 18; 19] /\
  option_map c_errs (get h2 10) = Some 3 /\ firstn 10 h2 = ex_heap.
Proof.
  eexists. eexists.
  split; [exists 1; eexists; eexists; split; [reflexivity|vm_compute; reflexivity]|].
  split; [exists 10; eexists; eexists; split; [reflexivity|vm_compute; reflexivity]|].
  split; [vm_compute; reflexivity|].
  split; [vm_compute; reflexivity|]. split; [vm_compute; reflexivity|]. split; [vm_compute; reflexivity|].
  split; [vm_compute; reflexivity|]. split; [vm_compute; reflexivity|].
  split; [vm_compute; reflexivity|].
  split; [vm_compute; reflexivity|]. split; vm_compute; reflexivity.
Qed.
