(* C08 -- nothing that Process does before the deviation pass reads a deviation statement: every function of
   Model/Schema.v up to the reporting pass of the augments gives the same result on the module set without its
   deviation statements ([strip_devs], Spec/C08.v); module-valued data (grouping contexts, pending augments) is
   related by [strip].  The only trace of the deviation statements is the error flag of unreadable ones ([derr]). *)
From Coq Require Import List NArith Bool Lia.
From GY Require Import Model.Schema Spec.C08.
From GY Require Import Proofs.SchemaLemmas.
From GY Require Spec.C04.
Import ListNotations.
Local Open Scope N_scope.

(* ------------------------------------------------------------------ nothing before the deviation pass reads a deviation *)
Section Strip.
Variable SC : schema.
Let S' := strip_devs SC.

Definition sg (c : gctx) : gctx := {| g_mod := strip (g_mod c); g_scopes := g_scopes c |}.
Definition sfg (g : found_grouping) : found_grouping := let '(gid, b, c) := g in (gid, b, sg c).
Definition saug (a : aug) : aug := {| a_mod := strip (a_mod a); a_path := a_path a; a_dir := a_dir a; a_err := a_err a |}.
Definition sP (P : pendings) : pendings := map (fun kv => (fst kv, map saug (snd kv))) P.

Lemma fold_left_ext : forall {A B} (f g : A -> B -> A) l a, (forall a b, f a b = g a b) -> fold_left f l a = fold_left g l a.
Proof. induction l; cbn; intros; auto. rewrite H. apply IHl. assumption. Qed.

Lemma find_module_strip : forall n, find_module S' n = option_map strip (find_module SC n).
Proof.
  unfold S', strip_devs. induction SC as [|x r IH]; intro n; cbn; [reflexivity|].
  destruct (str_eqb (m_name x) n); [reflexivity|apply IH].
Qed.

Lemma owner_strip : forall m, owner S' (strip m) = option_map strip (owner SC m).
Proof.
  intro m. unfold owner. cbn [strip m_belongs]. destruct (m_belongs m) as [o|]; [|reflexivity].
  rewrite find_module_strip. destruct (find_module SC o) as [om|]; [|reflexivity]. cbn [option_map].
  unfold is_sub. cbn [strip m_belongs]. destruct (m_belongs om); reflexivity.
Qed.

Lemma length_strip : length S' = length SC.
Proof. apply map_length. Qed.

Lemma schema_size_strip : schema_size S' = schema_size SC.
Proof.
  unfold S', strip_devs, schema_size. induction SC as [|x r IH]; [reflexivity|].
  cbn [map fold_right]. rewrite IH. reflexivity.
Qed.

Lemma entry_fuel_strip : entry_fuel S' = entry_fuel SC.
Proof. unfold entry_fuel. rewrite schema_size_strip. reflexivity. Qed.

Definition lift_fg (r : option found_grouping * list str) : option found_grouping * list str :=
  (option_map sfg (fst r), snd r).

Lemma find_grouping_mod_strip : forall f m trim name seen,
  find_grouping_mod f S' (strip m) trim name seen = lift_fg (find_grouping_mod f SC m trim name seen).
Proof.
  induction f as [|f IH]; intros m trim name seen; [reflexivity|].
  cbn [find_grouping_mod]. cbn [strip m_prefix m_body m_imports m_includes].
  set (nm := if trim then trim_prefix (m_prefix m ++ [cCOLON]) name else name).
  destruct (find_in nm (groupings_of (m_body m))) as [[gid b]|]; [reflexivity|].
  (* imports *)
  assert (H1 : forall is seen,
    (fix go (is : list (str * str)) (seen : list str) : option found_grouping * list str :=
       match is with
       | [] => (None, seen)
       | (p, mn) :: r =>
         if has_prefix (p ++ [cCOLON]) nm then
           match find_module S' mn with
           | Some im =>
             match find_grouping_mod f S' im true (trim_prefix (p ++ [cCOLON]) nm) seen with
             | (Some g, seen') => (Some g, seen')
             | (None, seen') => go r seen'
             end
           | None => go r seen
           end
         else go r seen
       end) is seen =
    lift_fg ((fix go (is : list (str * str)) (seen : list str) : option found_grouping * list str :=
       match is with
       | [] => (None, seen)
       | (p, mn) :: r =>
         if has_prefix (p ++ [cCOLON]) nm then
           match find_module SC mn with
           | Some im =>
             match find_grouping_mod f SC im true (trim_prefix (p ++ [cCOLON]) nm) seen with
             | (Some g, seen') => (Some g, seen')
             | (None, seen') => go r seen'
             end
           | None => go r seen
           end
         else go r seen
       end) is seen)).
  { induction is as [|[p mn] r IHr]; intros seen0; [reflexivity|].
    destruct (has_prefix (p ++ [cCOLON]) nm); [|apply IHr].
    rewrite find_module_strip. destruct (find_module SC mn) as [im|]; cbn [option_map]; [|apply IHr].
    rewrite IH. unfold lift_fg at 1.
    destruct (find_grouping_mod f SC im true (trim_prefix (p ++ [cCOLON]) nm) seen0) as [[g|] seen']; cbn [fst snd option_map].
    - reflexivity.
    - apply IHr. }
  rewrite H1. clear H1.
  match goal with |- context [lift_fg ?x] => destruct x as [[g|] seen'] end; cbn [lift_fg fst snd option_map]; [reflexivity|].
  generalize (m_includes m) seen'. clear seen'.
  induction l as [|sn r IHr]; intros seen0; [reflexivity|].
  destruct (existsb (str_eqb sn) seen0); [apply IHr|].
  rewrite find_module_strip. destruct (find_module SC sn) as [sm|]; cbn [option_map]; [|apply IHr].
  rewrite IH. unfold lift_fg at 1.
  destruct (find_grouping_mod f SC sm true nm (sn :: seen0)) as [[g|] seen']; cbn [fst snd option_map].
  - reflexivity.
  - apply IHr.
Qed.

Lemma find_grouping_scopes_strip : forall m scopes name,
  find_grouping_scopes S' (strip m) scopes name = option_map sfg (find_grouping_scopes SC m scopes name).
Proof.
  intros m. induction scopes as [|sc outer IH]; intro name; [reflexivity|].
  cbn [find_grouping_scopes]. destruct outer as [|sc2 outer'].
  - rewrite length_strip, find_grouping_mod_strip. reflexivity.
  - destruct (find_in name (groupings_of sc)) as [[gid b]|]; [reflexivity|]. apply IH.
Qed.

Lemma FindGrouping_strip : forall c name, FindGrouping S' (sg c) name = option_map sfg (FindGrouping SC c name).
Proof. intros. unfold FindGrouping. cbn [sg g_mod g_scopes strip m_prefix]. apply find_grouping_scopes_strip. Qed.

Lemma body_step_strip : forall f,
  (forall c busy n, to_entry S' f (sg c) busy n = to_entry SC f c busy n) ->
  forall c busy acc ch, body_step S' f (sg c) busy acc ch = body_step SC f c busy acc ch.
Proof.
  intros f IH c busy acc ch. destruct ch; cbn [body_step]; rewrite ?IH; try reflexivity.
  rewrite FindGrouping_strip. destruct (FindGrouping SC c gname) as [[[gid gb] gc]|]; cbn [option_map sfg]; [|reflexivity].
  destruct (existsb (Nat.eqb gid) busy); [reflexivity|]. rewrite IH. reflexivity.
Qed.

Lemma body_dir_strip : forall f,
  (forall c busy n, to_entry S' f (sg c) busy n = to_entry SC f c busy n) ->
  forall c busy body, body_dir S' f (sg c) busy body = body_dir SC f c busy body.
Proof.
  intros f IH c busy body. unfold body_dir.
  change (inner_ctx (sg c) body) with (sg (inner_ctx c body)).
  apply fold_left_ext. intros. apply body_step_strip. assumption.
Qed.

Lemma to_entry_strip : forall fuel c busy n, to_entry S' fuel (sg c) busy n = to_entry SC fuel c busy n.
Proof.
  induction fuel as [|f IH]; intros c busy n; [reflexivity|].
  rewrite !to_entry_S. destruct n; try reflexivity; unfold rpc_io; rewrite ?(body_dir_strip f IH); try reflexivity.
  destruct input, output; rewrite ?(body_dir_strip f IH); reflexivity.
Qed.

Lemma body_entry_strip : forall m scopes body, body_entry S' (strip m) scopes body = body_entry SC m scopes body.
Proof.
  intros. unfold body_entry. rewrite entry_fuel_strip.
  change {| g_mod := strip m; g_scopes := scopes |} with (sg {| g_mod := m; g_scopes := scopes |}).
  apply to_entry_strip.
Qed.

Lemma module_dir_strip : forall ic fuel merged m, module_dir S' ic fuel merged (strip m) = module_dir SC ic fuel merged m.
Proof.
  intros ic. induction fuel as [|f IH]; intros merged m; [reflexivity|].
  cbn [module_dir]. cbn [strip m_body m_includes m_name]. rewrite body_entry_strip.
  destruct (body_entry SC m [] (m_body m)) as [me err].
  apply fold_left_ext. intros [acc mg] sn.
  rewrite find_module_strip. destruct (find_module SC sn) as [sm|]; cbn [option_map]; [|reflexivity].
  cbn [strip m_name m_belongs]. rewrite IH. reflexivity.
Qed.

Definition derr (m : module) : bool := existsb (fun dv => existsb deviate_err (snd dv)) (m_deviations m).

Lemma module_entry_strip : forall ic m,
  fst (module_entry S' ic (strip m)) = fst (module_entry SC ic m) /\
  snd (module_entry SC ic m) = snd (module_entry S' ic (strip m)) || derr m.
Proof.
  intros. unfold module_entry. rewrite length_strip, module_dir_strip.
  destruct (module_dir SC ic (S (length SC)) [] m) as [[d err] mg]. cbn [strip m_name m_deviations existsb fst snd].
  rewrite orb_false_r. split; reflexivity.
Qed.

Lemma FindModuleByPrefix_strip : forall ctx prefix,
  FindModuleByPrefix S' (strip ctx) prefix = option_map strip (FindModuleByPrefix SC ctx prefix).
Proof.
  intros. unfold FindModuleByPrefix. cbn [strip m_prefix m_imports].
  destruct (_ || _); [reflexivity|].
  induction (m_imports ctx) as [|[p mn] r IH]; [reflexivity|].
  destruct (str_eqb prefix p); [apply find_module_strip|apply IH].
Qed.

Lemma Find_strip : forall F ctx start name, Find S' F (strip ctx) start name = Find SC F ctx start name.
Proof.
  intros. unfold Find. destruct name as [|c0 nm]; [reflexivity|].
  destruct (split_on cSLASH [] (c0 :: nm)) as [|[|x l] [|first rest]]; try reflexivity.
  destruct (fst (getPrefix first)) as [|a pfx].
  - rewrite find_module_strip. destruct (find_module SC (fst start)) as [sm|]; cbn [option_map]; [|reflexivity].
    rewrite owner_strip. destruct (owner SC sm); reflexivity.
  - rewrite FindModuleByPrefix_strip. destruct (FindModuleByPrefix SC ctx (a :: pfx)) as [md|]; cbn [option_map]; [|reflexivity].
    rewrite owner_strip. destruct (owner SC md); reflexivity.
Qed.

Lemma module_augs_strip : forall m, module_augs S' (strip m) = map saug (module_augs SC m).
Proof.
  intro m. unfold module_augs. cbn [strip m_augments m_body]. rewrite map_map. apply map_ext. intro a.
  rewrite body_entry_strip. destruct (body_entry SC m [m_body m] (snd a)). reflexivity.
Qed.

Lemma owner_ns_strip : forall m, owner_ns S' (strip m) = owner_ns SC m.
Proof. intro m. unfold owner_ns. rewrite owner_strip. destruct (owner SC m); reflexivity. Qed.

Definition lift_am (r : forest * bool * nat * list aug) : forest * bool * nat * list aug :=
  let '(F, e, n, un) := r in (F, e, n, map saug un).

Lemma augment_module_strip : forall pending F err ae,
  augment_module S' F err (map saug pending) ae = lift_am (augment_module SC F err pending ae).
Proof.
  induction pending as [|a rest IH]; intros F err ae; [reflexivity|].
  cbn [map augment_module]. cbn [saug a_mod a_path a_dir a_err strip m_name]. rewrite Find_strip, owner_ns_strip.
  destruct (Find SC F (a_mod a) (m_name (a_mod a), []) (a_path a)) as [target F1].
  destruct (match target with
            | Some p => match locate_pos F1 p with
                        | Some te => match e_dir te with Some _ => true | None => false end
                        | None => false
                        end
            | None => false
            end).
  - destruct target as [p|]; [|reflexivity].
    rewrite IH. destruct (augment_module SC _ _ rest ae) as [[[F3 e3] n] un]. reflexivity.
  - rewrite IH. destruct (augment_module SC F1 _ rest ae) as [[[F3 e3] n] un]. reflexivity.
Qed.

Lemma lookup_sP : forall mn P, lookup mn (sP P) = option_map (map saug) (lookup mn P).
Proof.
  intros mn P. unfold sP. induction P as [|[k v] r IH]; [reflexivity|]. cbn.
  destruct (str_eqb mn k); [reflexivity|apply IH].
Qed.

Lemma update_sP : forall mn un P, update mn (map saug un) (sP P) = sP (update mn un P).
Proof.
  intros mn un P. unfold sP. induction P as [|[k v] r IH]; [reflexivity|]. cbn.
  destruct (str_eqb mn k); cbn; [reflexivity|]. rewrite IH. reflexivity.
Qed.

Lemma pend_sP : forall mn P,
  match lookup mn (sP P) with Some l => l | None => [] end = map saug (match lookup mn P with Some l => l | None => [] end).
Proof. intros. rewrite lookup_sP. destruct (lookup mn P); reflexivity. Qed.

Definition lift_ap (r : forest * bool * pendings * list str * nat) : forest * bool * pendings * list str * nat :=
  let '(F, e, P, mods, n) := r in (F, e, sP P, mods, n).

Lemma augment_pass_strip : forall fuel F err P mods i processed,
  augment_pass S' fuel F err (sP P) mods i processed = lift_ap (augment_pass SC fuel F err P mods i processed).
Proof.
  induction fuel as [|f IH]; intros; [reflexivity|].
  cbn [augment_pass]. destruct (nth_error mods i) as [mn|]; [|reflexivity].
  rewrite pend_sP, augment_module_strip.
  destruct (augment_module SC F err _ false) as [[[F1 e1] p] un]. cbn [lift_am].
  rewrite update_sP. destruct un as [|u un']; cbn [map]; apply IH.
Qed.

Lemma augment_loop_strip : forall fuel F err P mods applied,
  augment_loop S' fuel F err (sP P) mods applied = lift_ap (augment_loop SC fuel F err P mods applied).
Proof.
  induction fuel as [|f IH]; intros; [reflexivity|].
  cbn [augment_loop]. destruct mods as [|m0 mods']; [reflexivity|].
  rewrite augment_pass_strip.
  destruct (augment_pass SC _ F err P (m0 :: mods') 0 0) as [[[[F1 e1] P1] mods1] processed]. cbn [lift_ap].
  destruct processed; [reflexivity|apply IH].
Qed.

Definition lift_r (r : forest * bool * pendings * list str) : forest * bool * pendings * list str :=
  let '(F, e, P, mods) := r in (F, e, sP P, mods).

Lemma rounds_strip : forall n_aug fuel round F err P mods,
  C04.rounds S' n_aug fuel round F err (sP P) mods = lift_r (C04.rounds SC n_aug fuel round F err P mods).
Proof.
  intros n_aug. induction fuel as [|f IH]; intros; [reflexivity|].
  cbn [C04.rounds]. rewrite augment_loop_strip.
  destruct (augment_loop SC (S n_aug) F err P mods 0) as [[[[Fa ea] Pa] modsa] applied]. cbn [lift_ap].
  destruct modsa as [|m0 ms]; [reflexivity|].
  destruct round; [apply IH|]. destruct applied; [reflexivity|apply IH].
Qed.

Lemma stage_P0_strip : C04.stage_P0 S' = sP (C04.stage_P0 SC).
Proof.
  unfold C04.stage_P0, S', strip_devs, sP. rewrite !map_map. apply map_ext. intro m.
  cbn [strip m_name fst snd]. fold S'. rewrite module_augs_strip. reflexivity.
Qed.

Lemma is_sub_strip : forall m, is_sub (strip m) = is_sub m.
Proof. reflexivity. Qed.

Lemma stage_F0_list : forall ic (l : list module),
  map (fun x : module * built => (m_name (fst x), fst (snd x)))
      (filter (fun x => negb (is_sub (fst x))) (map (fun m => (m, module_entry S' ic m)) (map strip l))) =
  map (fun x : module * built => (m_name (fst x), fst (snd x)))
      (filter (fun x => negb (is_sub (fst x))) (map (fun m => (m, module_entry SC ic m)) l)).
Proof.
  intros ic l. induction l as [|x r IH]; [reflexivity|].
  cbn [map filter fst]. rewrite is_sub_strip. destruct (negb (is_sub x)); cbn [map fst snd strip m_name].
  - rewrite (proj1 (module_entry_strip ic x)). f_equal. apply IH.
  - apply IH.
Qed.

Lemma stage_F0_strip : forall ic, C04.stage_F0 S' ic = C04.stage_F0 SC ic.
Proof. intro ic. exact (stage_F0_list ic SC). Qed.

Lemma stage_naug_strip : C04.stage_naug S' = C04.stage_naug SC.
Proof.
  unfold C04.stage_naug, S', strip_devs. induction SC as [|x r IH]; [reflexivity|].
  cbn [map fold_right strip m_augments]. rewrite IH. reflexivity.
Qed.

Lemma stage_rounds_strip : forall ic order, C04.stage_rounds S' ic order = lift_r (C04.stage_rounds SC ic order).
Proof.
  intros. unfold C04.stage_rounds. rewrite stage_naug_strip, stage_F0_strip, stage_P0_strip. apply rounds_strip.
Qed.

Definition lift_f (st : forest * bool * pendings) : forest * bool * pendings := let '(F, e, P) := st in (F, e, sP P).

Lemma final_step_strip : forall st mn, C04.final_step S' (lift_f st) mn = lift_f (C04.final_step SC st mn).
Proof.
  intros [[F e] P] mn. unfold C04.final_step, lift_f. rewrite pend_sP, augment_module_strip.
  destruct (augment_module SC F e _ true) as [[[F1 e1] n] un]. cbn [lift_am]. rewrite update_sP. reflexivity.
Qed.

Lemma final_fold_strip : forall mods st,
  fold_left (C04.final_step S') mods (lift_f st) = lift_f (fold_left (C04.final_step SC) mods st).
Proof.
  induction mods as [|mn mods IH]; intro st; [reflexivity|]. cbn [fold_left]. rewrite final_step_strip. apply IH.
Qed.

Lemma stage_final_strip : forall ic order, C04.stage_final S' ic order = lift_f (C04.stage_final SC ic order).
Proof.
  intros. unfold C04.stage_final, C04.stage_mods1, C04.stage_F2, C04.stage_err1, C04.stage_P1.
  rewrite stage_rounds_strip. destruct (C04.stage_rounds SC ic order) as [[[F2 e1] P1] mods1]. cbn [lift_r fst snd].
  apply (final_fold_strip mods1 (F2, e1, P1)).
Qed.

Lemma stage_F3_strip : forall ic order, C04.stage_F3 S' ic order = C04.stage_F3 SC ic order.
Proof.
  intros. unfold C04.stage_F3. rewrite stage_final_strip. destruct (C04.stage_final SC ic order) as [[F e] P]. reflexivity.
Qed.
Lemma stage_err3_strip : forall ic order, C04.stage_err3 S' ic order = C04.stage_err3 SC ic order.
Proof.
  intros. unfold C04.stage_err3. rewrite stage_final_strip. destruct (C04.stage_final SC ic order) as [[F e] P]. reflexivity.
Qed.

Lemma includes_ok_strip : forall fuel seen m, includes_ok S' fuel seen (strip m) = includes_ok SC fuel seen m.
Proof.
  induction fuel as [|f IH]; intros seen m; [reflexivity|].
  cbn [includes_ok]. cbn [strip m_name m_includes m_imports].
  destruct (mem (m_name m) seen); [reflexivity|].
  assert (ST : forall (st : bool * list str) (name : str) (w : bool),
    (if fst st then match find_module S' name with
                    | Some x => if Bool.eqb (is_sub x) w then includes_ok S' f (snd st) x else (false, snd st)
                    | None => (false, snd st) end else st) =
    (if fst st then match find_module SC name with
                    | Some x => if Bool.eqb (is_sub x) w then includes_ok SC f (snd st) x else (false, snd st)
                    | None => (false, snd st) end else st)).
  { intros st name w. destruct (fst st); [|reflexivity]. rewrite find_module_strip.
    destruct (find_module SC name) as [x|]; cbn [option_map]; [|reflexivity].
    rewrite is_sub_strip, IH. reflexivity. }
  rewrite (fold_left_ext _ _ (m_includes m) (true, m_name m :: seen) (fun st sn => ST st sn true)).
  apply fold_left_ext. intros st i. apply ST.
Qed.

Lemma includes_list : forall n (l : list module),
  forallb (fun m => fst (includes_ok S' n [] m)) (filter (fun m => negb (is_sub m)) (map strip l)) =
  forallb (fun m => fst (includes_ok SC n [] m)) (filter (fun m => negb (is_sub m)) l).
Proof.
  intros n l. induction l as [|x r IH]; [reflexivity|].
  cbn [map filter]. rewrite is_sub_strip. destruct (negb (is_sub x)); cbn [forallb]; [|apply IH].
  rewrite includes_ok_strip, IH. reflexivity.
Qed.

Lemma includes_fail_strip : C04.includes_fail S' = C04.includes_fail SC.
Proof.
  unfold C04.includes_fail. f_equal. rewrite length_strip. exact (includes_list (S (length SC)) SC).
Qed.

Lemma build_list : forall ic (l : list module),
  existsb (fun m => snd (module_entry SC ic m)) l =
  existsb (fun m => snd (module_entry S' ic m)) (map strip l) || existsb derr l.
Proof.
  intros ic l. induction l as [|x r IH]; [reflexivity|].
  cbn [map existsb]. rewrite IH, (proj2 (module_entry_strip ic x)).
  destruct (snd (module_entry S' ic (strip x))), (derr x), (existsb _ (map strip r)), (existsb derr r); reflexivity.
Qed.

Lemma build_fail_strip : forall ic, C04.build_fail SC ic = C04.build_fail S' ic || existsb derr SC.
Proof. intro ic. exact (build_list ic SC). Qed.
End Strip.
