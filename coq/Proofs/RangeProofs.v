(* Lemmas for C10: Sort / coalesce / Contains / Validate / finish of Model/Range.v against
   the set semantics of Spec/C10.v. *)
From Coq Require Import List NArith ZArith QArith Bool Lia Permutation.
Import ListNotations.
From GY Require Import Base.Outcome Model.Number Model.Range Spec.C15 Spec.C10 Proofs.NumberProofs.
Local Open Scope Z_scope.

(* ---------- numbers at a common precision ---------- *)

Lemma Less_sval fd n m : okN fd n -> okN fd m -> Less n m = (sval n <? sval m).
Proof.
  intros [Hn Fn] [Hm Fm].
  pose proof (Less_spec n m Hn Hm) as L.
  assert (E : (val n < val m)%Q <-> sval n < sval m).
  { unfold val, Qlt. cbn [Qnum Qden]. rewrite Fn, Fm.
    set (p := Z.to_pos (10 ^ fd)). pose proof (Pos2Z.is_pos p). nia. }
  destruct (Z.ltb_spec (sval n) (sval m)) as [H|H].
  - apply L, E, H.
  - apply not_true_is_false. intro X. apply L, E in X. lia.
Qed.

Lemma sval_bound fd n : okN fd n -> - two64 < sval n < two64.
Proof. intros [[Hv _] _]. unfold sval. destruct (Negative n); lia. Qed.

Lemma addQuantum_spec fd n : okN fd n ->
  okN fd (addQuantum n 1) /\
  (sval n < two64 - 1 -> sval (addQuantum n 1) = sval n + 1) /\
  (sval n = two64 - 1 -> sval (addQuantum n 1) = 0).
Proof.
  intros [[Hv Hf] Fn]. unfold addQuantum, okN, dom, sval.
  pose proof two64_eq as T.
  destruct (Negative n) eqn:En.
  - destruct (Z.leb_spec (Value n) 1) as [H|H]; cbn [Value FractionDigits Negative]; unfold u64.
    + rewrite Z.mod_small by lia. repeat split; try lia.
    + rewrite Z.mod_small by lia. repeat split; try lia.
  - cbn [Value FractionDigits Negative]; unfold u64.
    destruct (Z.eq_dec (Value n) (two64 - 1)) as [E|E].
    + rewrite E. replace (two64 - 1 + 1) with (1 * two64) by lia.
      rewrite Z.mod_mul by lia. repeat split; lia.
    + rewrite Z.mod_small by lia. repeat split; lia.
Qed.

(* the repaired test in coalesce: "max + 1 did not wrap and is below the next min" is exactly
   max + 1 < next min on mantissas, also at 2^64-1 *)
Lemma gap_test fd a b : okN fd a -> okN fd b ->
  (Less a (addQuantum a 1) && Less (addQuantum a 1) b) = (sval a + 1 <? sval b).
Proof.
  intros Ha Hb. destruct (addQuantum_spec fd a Ha) as (Hq & S1 & S2).
  rewrite (Less_sval fd a _ Ha Hq), (Less_sval fd _ b Hq Hb).
  pose proof (sval_bound fd a Ha). pose proof (sval_bound fd b Hb).
  destruct (Z.eq_dec (sval a) (two64 - 1)) as [E|E].
  - rewrite (S2 E).
    destruct (Z.ltb_spec (sval a) 0); destruct (Z.ltb_spec (sval a + 1) (sval b));
      destruct (Z.ltb_spec 0 (sval b)); cbn [andb]; lia.
  - rewrite S1 by lia.
    destruct (Z.ltb_spec (sval a) (sval a + 1)); [|lia]. cbn [andb]. reflexivity.
Qed.

(* ---------- parts ---------- *)

Lemma okRs_cons fd p r : okRs fd (p :: r) <-> okR fd p /\ okRs fd r.
Proof. unfold okRs. split; [intro H; inversion H; auto | intros [? ?]; constructor; auto]. Qed.

Lemma den_nil z : den [] z <-> False.
Proof. unfold den. split; [intros (p & [] & _) | tauto]. Qed.

Lemma den_cons p r z : den (p :: r) z <-> inpart p z \/ den r z.
Proof.
  unfold den. split.
  - intros (q & [E|I] & H); [subst; auto | right; eauto].
  - intros [H|(q & I & H)]; [exists p; split; [left; auto|auto] | exists q; split; [right; auto|auto]].
Qed.

Lemma den_app a b z : den (a ++ b) z <-> den a z \/ den b z.
Proof.
  induction a as [|p a IH]; cbn [app].
  - rewrite den_nil. tauto.
  - rewrite !den_cons, IH. tauto.
Qed.

Lemma den_perm a b : Permutation a b -> seteq (den a) (den b).
Proof.
  intros P z. unfold den. split; intros (p & I & H); exists p; split; auto.
  - eapply Permutation_in; eauto.
  - eapply Permutation_in; [apply Permutation_sym|]; eauto.
Qed.

Lemma rLess_lex fd a b : okR fd a -> okR fd b ->
  rLess a b = ((lo a <? lo b) || ((lo a =? lo b) && (hi a <? hi b))).
Proof.
  intros [A1 A2] [B1 B2]. unfold rLess, lo, hi.
  rewrite (Less_sval fd _ _ A1 B1), (Less_sval fd _ _ B1 A1), (Less_sval fd _ _ A2 B2).
  destruct (Z.ltb_spec (sval (rMin a)) (sval (rMin b))); cbn [orb]; auto.
  destruct (Z.ltb_spec (sval (rMin b)) (sval (rMin a)));
    destruct (Z.eqb_spec (sval (rMin a)) (sval (rMin b))); cbn [andb]; auto; lia.
Qed.

Lemma rLess_false fd a b : okR fd a -> okR fd b -> rLess a b = false -> lexle b a.
Proof.
  intros A B. rewrite (rLess_lex fd a b A B). unfold lexle.
  destruct (Z.ltb_spec (lo a) (lo b)); cbn [orb]; [discriminate|].
  destruct (Z.eqb_spec (lo a) (lo b)); cbn [andb]; [|lia].
  destruct (Z.ltb_spec (hi a) (hi b)); [discriminate|lia].
Qed.

Lemma rLess_true fd a b : okR fd a -> okR fd b -> rLess a b = true -> lexle a b.
Proof.
  intros A B. rewrite (rLess_lex fd a b A B). unfold lexle.
  destruct (Z.ltb_spec (lo a) (lo b)); cbn [orb]; [lia|].
  destruct (Z.eqb_spec (lo a) (lo b)); cbn [andb]; [|discriminate].
  destruct (Z.ltb_spec (hi a) (hi b)); [lia|discriminate].
Qed.

(* ---------- (1) Sort ---------- *)

Lemma insert_perm x l : Permutation (insert x l) (x :: l).
Proof.
  induction l as [|y r IH]; cbn [insert]; auto.
  destruct (rLess x y); auto.
  eapply perm_trans; [apply perm_skip, IH | apply perm_swap].
Qed.

Lemma Sort_perm l : Permutation (Sort l) l.
Proof.
  induction l as [|x l IH]; cbn [Sort fold_right]; auto.
  eapply perm_trans; [apply insert_perm | apply perm_skip, IH].
Qed.

Lemma okRs_perm fd a b : Permutation a b -> okRs fd a -> okRs fd b.
Proof. unfold okRs. intros P H. rewrite Forall_forall in *. intros x I. apply H. eapply Permutation_in; [apply Permutation_sym|]; eauto. Qed.

Lemma Forall_perm {A} (P : A -> Prop) a b : Permutation a b -> Forall P a -> Forall P b.
Proof. intros Pm H. rewrite Forall_forall in *. intros x I. apply H. eapply Permutation_in; [apply Permutation_sym|]; eauto. Qed.

Lemma insert_sorted fd x l : okR fd x -> okRs fd l -> sorted_lex l -> sorted_lex (insert x l).
Proof.
  intros X. induction l as [|y r IH]; intros L S; cbn [insert]; [exact I|].
  apply okRs_cons in L. destruct L as [Y L].
  destruct (rLess x y) eqn:E.
  - cbn [sorted_lex]. split; [eapply rLess_true; eauto | exact S].
  - pose proof (rLess_false fd x y X Y E) as Lyx.
    destruct r as [|z r'].
    + cbn [insert sorted_lex]. auto.
    + destruct S as [Lyz S]. specialize (IH L S).
      cbn [insert] in *. apply okRs_cons in L. destruct L as [Zk L].
      destruct (rLess x z) eqn:E2.
      * cbn [sorted_lex]. split; auto.
      * cbn [sorted_lex] in *. split; auto.
Qed.

Lemma Sort_ok fd l : okRs fd l -> okRs fd (Sort l).
Proof. intro H. eapply okRs_perm; [apply Permutation_sym, Sort_perm|exact H]. Qed.

Lemma Sort_sorted fd l : okRs fd l -> sorted_lex (Sort l).
Proof.
  induction l as [|x l IH]; intro H; cbn [Sort fold_right]; [exact I|].
  apply okRs_cons in H. destruct H as [X L].
  apply (insert_sorted fd); auto. apply Sort_ok; auto.
Qed.

Lemma Sort_den l : seteq (den (Sort l)) (den l).
Proof. apply den_perm, Sort_perm. Qed.

Theorem Sort_spec fd l : okRs fd l ->
  Permutation (Sort l) l /\ sorted_lex (Sort l) /\ seteq (den (Sort l)) (den l).
Proof. intro H. split; [apply Sort_perm | split; [eapply Sort_sorted; eauto | apply Sort_den]]. Qed.

(* what coalesce needs from sortedness: every part starts no earlier than all parts before it *)
Fixpoint lo_sorted (r : YangRange) : Prop :=
  match r with
  | [] => True
  | p :: t => Forall (fun q => lo p <= lo q) t /\ lo_sorted t
  end.

Lemma sorted_lex_lo r : sorted_lex r -> lo_sorted r.
Proof.
  induction r as [|p t IH]; intro S; cbn [lo_sorted]; [exact I|].
  destruct t as [|q t'].
  - split; [constructor | exact I].
  - destruct S as [Lpq S]. specialize (IH S). split; auto.
    destruct IH as [Hq _]. constructor.
    + unfold lexle in Lpq. lia.
    + eapply Forall_impl; [|exact Hq]. cbn beta. intros a Ha. unfold lexle in Lpq. lia.
Qed.

(* ---------- (2) coalesce ---------- *)

Lemma WF_cons_hd p q t : WF (p :: q :: t) <-> valid p /\ hi p + 1 < lo q /\ WF (q :: t).
Proof. cbn [WF]. tauto. Qed.

Lemma coalesce_loop_spec fd : forall rest cur,
  okR fd cur -> okRs fd rest -> valid cur -> Forall valid rest ->
  Forall (fun q => lo cur <= lo q) rest -> lo_sorted rest ->
  let out := coalesce_loop cur rest in
  WF out /\ okRs fd out /\ (exists h t, out = h :: t /\ lo h = lo cur) /\
  seteq (den out) (den (cur :: rest)).
Proof.
  induction rest as [|r1 rest IH]; intros cur Oc Or Vc Vr Lc Ls; cbn zeta.
  - cbn [coalesce_loop]. repeat split.
    + exact Vc.
    + apply okRs_cons; split; [auto|constructor].
    + eauto.
    + auto.
    + auto.
  - cbn [coalesce_loop].
    apply okRs_cons in Or. destruct Or as [O1 Or].
    inversion Vr as [|? ? V1 Vr']; subst. inversion Lc as [|? ? L1 Lc']; subst.
    destruct Ls as [Ls1 Ls].
    destruct Oc as [Oc1 Oc2]. pose proof O1 as [O11 O12].
    rewrite (gap_test fd _ _ Oc2 O11). fold (hi cur). fold (lo r1).
    unfold valid in *.
    destruct (Z.ltb_spec (hi cur + 1) (lo r1)) as [G|G].
    + destruct (IH r1 O1 Or V1 Vr' Ls1 Ls) as (W & O & (h & t & E & Eh) & D).
      cbn zeta in *. rewrite E in W, O, D. rewrite E.
      split; [|split; [|split]].
      * apply WF_cons_hd. split; [exact Vc|split; [lia|exact W]].
      * apply okRs_cons; split; [split; auto|exact O].
      * eauto.
      * intro z. rewrite den_cons, (D z), !den_cons. tauto.
    + rewrite (Less_sval fd _ _ Oc2 O12). fold (hi cur). fold (hi r1).
      destruct (Z.ltb_spec (hi cur) (hi r1)) as [M|M].
      * assert (On : okR fd (rMin cur, rMax r1)) by (split; auto).
        assert (Elo : lo (rMin cur, rMax r1) = lo cur) by reflexivity.
        assert (Ehi : hi (rMin cur, rMax r1) = hi r1) by reflexivity.
        assert (Vn : lo (rMin cur, rMax r1) <= hi (rMin cur, rMax r1)) by (rewrite Elo, Ehi; lia).
        assert (Ln : Forall (fun q => lo (rMin cur, rMax r1) <= lo q) rest) by (rewrite Elo; exact Lc').
        destruct (IH (rMin cur, rMax r1) On Or Vn Vr' Ln Ls) as (W & O & (h & t & E & Eh) & D).
        cbn zeta in *.
        split; [exact W|split; [exact O|split]].
        { exists h, t. split; [exact E|lia]. }
        { intro z. rewrite (D z), !den_cons. unfold inpart. rewrite Elo, Ehi. split.
          - intros [X|X]; [|tauto]. destruct (Z.le_gt_cases z (hi cur)); [left; lia|right; left; lia].
          - intros [X|[X|X]]; [left; lia|left; lia|tauto]. }
      * destruct (IH cur (conj Oc1 Oc2) Or Vc Vr' Lc' Ls) as (W & O & (h & t & E & Eh) & D).
        cbn zeta in *.
        split; [exact W|split; [exact O|split]].
        { exists h, t. auto. }
        { intro z. rewrite (D z), !den_cons. unfold inpart. split.
          - tauto.
          - intros [X|[X|X]]; [tauto|left; lia|tauto]. }
Qed.

Theorem coalesce_spec fd r :
  okRs fd r -> Forall valid r -> lo_sorted r ->
  WF (coalesce r) /\ okRs fd (coalesce r) /\ seteq (den (coalesce r)) (den r) /\
  (r <> [] -> coalesce r <> []).
Proof.
  intros O V S. destruct r as [|x rest]; cbn [coalesce].
  - repeat split; auto; intros; tauto.
  - apply okRs_cons in O. destruct O as [Ox O]. inversion V; subst. destruct S as [S1 S2].
    destruct (coalesce_loop_spec fd rest x) as (W & Ok & (h & t & E & _) & D); auto.
    cbn zeta in *. repeat split; auto; try apply D. rewrite E. discriminate.
Qed.

(* ---------- WF facts ---------- *)

Lemma WF_tail p t : WF (p :: t) -> WF t.
Proof. cbn [WF]. tauto. Qed.

Lemma WF_valid r : WF r -> Forall valid r.
Proof. induction r as [|p t IH]; intro W; constructor; [apply W | apply IH, (WF_tail p t W)]. Qed.

(* every later part lies beyond the gap after an earlier one *)
Lemma WF_strong p t : WF (p :: t) -> Forall (fun q => hi p + 1 < lo q) t.
Proof.
  revert p. induction t as [|q t IH]; intros p W; constructor.
  - apply WF_cons_hd in W. destruct W as (_ & G & _). exact G.
  - apply WF_cons_hd in W. destruct W as (_ & G & W).
    pose proof W as W'. destruct W' as (Vq & _ & _). unfold valid in Vq.
    eapply Forall_impl; [|apply (IH q W)]. cbn beta. intros a Ha. lia.
Qed.

Lemma WF_den_above p t z : WF (p :: t) -> den t z -> hi p + 1 < z.
Proof.
  intros W (q & I & [H1 H2]). pose proof (WF_strong p t W) as F.
  rewrite Forall_forall in F. specialize (F q I). lia.
Qed.

Lemma WF_den_lo p t z : WF (p :: t) -> den (p :: t) z -> lo p <= z.
Proof.
  intros W D. apply den_cons in D. destruct D as [[? ?]|D]; [auto|].
  pose proof (WF_den_above p t z W D). destruct W as (V & _). unfold valid in V. lia.
Qed.

(* ---------- (3) Contains ---------- *)

Lemma skip_r_spec fd ss : okN fd (rMin ss) -> forall r, okRs fd r -> WF r ->
  WF (skip_r r ss) /\ okRs fd (skip_r r ss) /\
  (forall z, lo ss <= z -> (den r z <-> den (skip_r r ss) z)) /\
  match skip_r r ss with [] => True | x :: _ => lo ss <= hi x end.
Proof.
  intros Os. induction r as [|x r IH]; intros O W; cbn [skip_r].
  - repeat split; auto.
  - pose proof O as O'. apply okRs_cons in O'. destruct O' as [[Ox1 Ox2] Or].
    rewrite (Less_sval fd _ _ Ox2 Os). fold (hi x). fold (lo ss).
    destruct (Z.ltb_spec (hi x) (lo ss)) as [H|H].
    + destruct (IH Or (WF_tail _ _ W)) as (W' & O' & D & Hd).
      split; [exact W'|split; [exact O'|split; [|exact Hd]]].
      intros z Hz. rewrite <- (D z Hz), den_cons. unfold inpart. split; [intros [X|X]; [lia|auto]|auto].
    + split; [exact W|split; [exact O|split; [tauto|exact H]]].
Qed.

Lemma contains_loop_spec fd : forall s r, okRs fd s -> okRs fd r -> WF s -> WF r ->
  (contains_loop r s = true <-> subset (den s) (den r)).
Proof.
  induction s as [|ss s IH]; intros r Os Or Ws Wr; cbn [contains_loop].
  - split; [intros _ z D; apply den_nil in D; tauto | auto].
  - apply okRs_cons in Os. destruct Os as [[Os1 Os2] Os].
    destruct (skip_r_spec fd ss Os1 r Or Wr) as (Wk & Ok & Dk & Hk).
    assert (Vs : lo ss <= hi ss) by apply Ws.
    assert (Red : subset (den (ss :: s)) (den r) <-> subset (den (ss :: s)) (den (skip_r r ss))).
    { unfold subset. split; intros S z D; pose proof (WF_den_lo _ _ _ Ws D) as L; specialize (S z D);
        apply (Dk z L); exact S. }
    rewrite Red. clear Red Dk.
    destruct (skip_r r ss) as [|x r'].
    + split; [discriminate|]. intro S. exfalso.
      apply (den_nil (lo ss)). apply S. apply den_cons. left. unfold inpart. lia.
    + apply okRs_cons in Ok. destruct Ok as [[Ox1 Ox2] Or'].
      rewrite (Less_sval fd _ _ Os1 Ox1), (Less_sval fd _ _ Ox2 Os2).
      fold (lo ss). fold (lo x). fold (hi x). fold (hi ss).
      assert (Vx : lo x <= hi x) by apply Wk.
      destruct (Z.ltb_spec (lo ss) (lo x)) as [A|A]; cbn [orb].
      * split; [discriminate|]. intro S. exfalso.
        assert (D : den (x :: r') (lo ss)) by (apply S, den_cons; left; unfold inpart; lia).
        apply den_cons in D. destruct D as [[? ?]|D]; [lia|].
        pose proof (WF_den_above _ _ _ Wk D). lia.
      * destruct (Z.ltb_spec (hi x) (hi ss)) as [B|B].
        -- split; [discriminate|]. intro S. exfalso.
           assert (D : den (x :: r') (hi x + 1)) by (apply S, den_cons; left; unfold inpart; lia).
           apply den_cons in D. destruct D as [[? ?]|D]; [lia|].
           pose proof (WF_den_above _ _ _ Wk D). lia.
        -- rewrite (IH (x :: r') Os (proj2 (okRs_cons fd x r') (conj (conj Ox1 Ox2) Or')) (WF_tail _ _ Ws) Wk).
           unfold subset. split; intros S z D.
           ++ apply den_cons in D. destruct D as [[? ?]|D]; [|auto].
              apply den_cons. left. unfold inpart. lia.
           ++ apply S, den_cons. auto.
Qed.

(* Contains parent child.  An empty parent stands for "unrestricted". *)
Theorem Contains_spec fd y r : okRs fd y -> okRs fd r -> WF y -> WF r -> y <> [] ->
  (Contains y r = true <-> subset (den r) (den y)).
Proof.
  intros Oy Or Wy Wr Ny. destruct y as [|y0 y]; [congruence|]. destruct r as [|r0 r].
  - cbn [Contains]. split; auto. intros _ z D. apply den_nil in D. tauto.
  - cbn [Contains]. apply (contains_loop_spec fd); auto.
Qed.

Lemma Contains_nil r : Contains [] r = true.
Proof. reflexivity. Qed.

(* ---------- (4) Validate ---------- *)

Lemma is_sorted_WF fd r : okRs fd r -> WF r -> is_sorted r = true.
Proof.
  induction r as [|a t IH]; intros O W; [reflexivity|].
  destruct t as [|b t']; [reflexivity|].
  change (is_sorted (a :: b :: t')) with (negb (rLess b a) && is_sorted (b :: t')).
  apply okRs_cons in O. destruct O as [Oa O].
  pose proof O as O'. apply okRs_cons in O'. destruct O' as [Ob _].
  apply WF_cons_hd in W. destruct W as (Va & G & W).
  rewrite (IH O W), andb_true_r. rewrite (rLess_lex fd b a Ob Oa).
  unfold valid in Va. assert (Vb : lo b <= hi b) by apply W.
  destruct (Z.ltb_spec (lo b) (lo a)); [lia|].
  destruct (Z.eqb_spec (lo b) (lo a)); [lia|]. reflexivity.
Qed.

Theorem Validate_WF fd r : okRs fd r -> WF r -> Validate r = true.
Proof.
  intros O W. unfold Validate. rewrite (is_sorted_WF fd r O W). cbn [andb].
  destruct r as [|p rest]; [reflexivity|].
  apply okRs_cons in O. destruct O as [[Op1 Op2] O].
  apply andb_true_iff. split.
  - unfold rValid. rewrite (Less_sval fd _ _ Op2 Op1). fold (hi p). fold (lo p).
    assert (V : lo p <= hi p) by apply W. destruct (Z.ltb_spec (hi p) (lo p)); [lia|reflexivity].
  - apply forallb_forall. intros n I.
    pose proof (WF_strong p rest W) as F. rewrite Forall_forall in F. specialize (F n I).
    unfold okRs in O. rewrite Forall_forall in O. destruct (O n I) as [On1 _].
    rewrite (Less_sval fd _ _ On1 Op2). fold (lo n). fold (hi p).
    destruct (Z.ltb_spec (lo n) (hi p)); [lia|reflexivity].
Qed.

(* ---------- (5) finish = sort, coalesce, Contains, Validate ---------- *)

Lemma sort_coalesce_spec fd parts : okRs fd parts -> Forall valid parts ->
  let r := coalesce (Sort parts) in
  WF r /\ okRs fd r /\ seteq (den r) (den parts) /\ (parts <> [] -> r <> []).
Proof.
  intros O V. cbn zeta.
  destruct (coalesce_spec fd (Sort parts)) as (W & Ok & D & N).
  - apply Sort_ok, O.
  - eapply Forall_perm; [apply Permutation_sym, Sort_perm|exact V].
  - apply sorted_lex_lo. eapply Sort_sorted; eauto.
  - split; [exact W|split; [exact Ok|split]].
    + intro z. rewrite (D z). apply Sort_den.
    + intros Np. apply N. intro E. apply Np.
      apply Permutation_nil. rewrite <- E. apply Sort_perm.
Qed.

Theorem finish_spec fd y parts :
  okRs fd y -> WF y -> okRs fd parts -> Forall valid parts ->
  match finish y parts with
  | Ok r => WF r /\ okRs fd r /\ seteq (den r) (den parts) /\ (parts <> [] -> r <> []) /\
            (y <> [] -> subset (den r) (den y))
  | Err => y <> [] /\ ~ subset (den parts) (den y)
  | _ => False
  end.
Proof.
  intros Oy Wy Op Vp. unfold finish.
  destruct (sort_coalesce_spec fd parts Op Vp) as (W & O & D & N). cbn zeta in *.
  set (r := coalesce (Sort parts)) in *.
  rewrite (Validate_WF fd r O W). cbn [negb].
  destruct y as [|y0 y].
  - cbn [Contains negb]. repeat split; auto; try apply D. congruence.
  - pose proof (Contains_spec fd (y0 :: y) r Oy O Wy W ltac:(discriminate)) as C.
    destruct (Contains (y0 :: y) r); cbn [negb].
    + repeat split; auto; try apply D. intros _. apply C. reflexivity.
    + split; [discriminate|]. intro S.
      assert (X : false = true); [|discriminate]. apply C. intros z Dz. apply S, D, Dz.
Qed.

(* ---------- uniqueness of the presentation: a WF list is determined by its set ---------- *)

Lemma WF_least p t : WF (p :: t) -> least (p :: t) (lo p).
Proof.
  intro W. split.
  - apply den_cons. left. assert (V : lo p <= hi p) by apply W. unfold inpart. lia.
  - intros w D. eapply WF_den_lo; eauto.
Qed.

Lemma WF_unique_bounds : forall r q, WF r -> WF q -> seteq (den r) (den q) ->
  map (fun p => (lo p, hi p)) r = map (fun p => (lo p, hi p)) q.
Proof.
  induction r as [|a r IH]; intros q Wr Wq E.
  - destruct q as [|b q]; [reflexivity|]. exfalso.
    apply (den_nil (lo b)). apply E. apply (WF_least b q Wq).
  - destruct q as [|b q].
    + exfalso. apply (den_nil (lo a)). apply E. apply (WF_least a r Wr).
    + assert (Va : lo a <= hi a) by apply Wr. assert (Vb : lo b <= hi b) by apply Wq.
      assert (El : lo a = lo b).
      { destruct (WF_least a r Wr) as [Da La]. destruct (WF_least b q Wq) as [Db Lb].
        apply E in Da. apply E in Db. specialize (La _ Db). specialize (Lb _ Da). lia. }
      (* the upper ends agree: otherwise the point just above the smaller one separates the sets *)
      assert (Hh : forall x s y t, WF (x :: s) -> WF (y :: t) -> seteq (den (x :: s)) (den (y :: t)) ->
                     lo x = lo y -> hi x < hi y -> False).
      { intros x s y t Wx Wy Ex Elo Hlt.
        assert (Vx : lo x <= hi x) by apply Wx.
        assert (D : den (x :: s) (hi x + 1)) by (apply Ex, den_cons; left; unfold inpart; lia).
        apply den_cons in D. destruct D as [[? ?]|D]; [lia|].
        pose proof (WF_den_above _ _ _ Wx D). lia. }
      assert (Eh : hi a = hi b).
      { destruct (Z.lt_trichotomy (hi a) (hi b)) as [H|[H|H]]; [exfalso|exact H|exfalso].
        - eapply (Hh a r b q); eauto.
        - eapply (Hh b q a r); eauto. intro z. symmetry. apply E. }
      cbn [map]. f_equal; [congruence|].
      apply IH; [eapply WF_tail; eauto|eapply WF_tail; eauto|].
      intro z. specialize (E z). rewrite !den_cons in E. unfold inpart in E.
      split; intro D.
      * pose proof (WF_den_above _ _ _ Wr D). assert (X : den q z \/ False); [|tauto].
        destruct (proj1 E (or_intror D)) as [X|X]; [lia|auto].
      * pose proof (WF_den_above _ _ _ Wq D). assert (X : den r z \/ False); [|tauto].
        destruct (proj2 E (or_intror D)) as [X|X]; [lia|auto].
Qed.

(* ---------- text level: min / max, part order, the whole of parseChildRanges ---------- *)

Lemma WF_greatest_app : forall r l, WF (r ++ [l]) -> greatest (r ++ [l]) (hi l).
Proof.
  intros r l W. split.
  - apply den_app. right. apply den_cons. left.
    assert (V : Forall valid (r ++ [l])) by (apply WF_valid, W).
    rewrite Forall_forall in V. specialize (V l ltac:(apply in_or_app; right; left; reflexivity)).
    unfold valid in V. unfold inpart. lia.
  - revert W. induction r as [|p r IH]; intros W w D; cbn [app] in *.
    + apply den_cons in D. destruct D as [[? ?]|D]; [lia|]. apply den_nil in D. tauto.
    + apply den_cons in D. destruct D as [[? ?]|D].
      * pose proof (WF_strong _ _ W) as F. rewrite Forall_forall in F.
        specialize (F l ltac:(apply in_or_app; right; left; reflexivity)).
        assert (V : Forall valid (p :: r ++ [l])) by (apply WF_valid, W).
        rewrite Forall_forall in V. specialize (V l ltac:(right; apply in_or_app; right; left; reflexivity)).
        unfold valid in V. lia.
      * apply IH; [eapply WF_tail; eauto|exact D].
Qed.

Lemma setfd_same fd n : FractionDigits n = fd -> setfd n fd = n.
Proof. intro E. destruct n as [v f g]. cbn in *. subst. reflexivity. Qed.

Lemma str_eqb_refl s : str_eqb s s = true.
Proof.
  unfold str_eqb. rewrite Nat.eqb_refl. cbn [andb].
  induction s as [|c s IH]; [reflexivity|]. cbn [combine forallb fst snd]. rewrite N.eqb_refl. exact IH.
Qed.

(* `min` is the least element of the parent's set, `max` the greatest *)
Theorem parseNumber_min fd dec y : okRs fd y -> WF y -> y <> [] ->
  exists n, parseNumber y dec fd s_min = Ok n /\ okN fd n /\ least y (sval n).
Proof.
  intros O W N. destruct y as [|f y]; [congruence|].
  apply okRs_cons in O. destruct O as [[[Of1 Of1'] _] _].
  exists (rMin f). split; [|split; [split; auto|apply (WF_least f y W)]].
  unfold parseNumber. replace (str_eqb s_min s_max) with false by reflexivity.
  rewrite str_eqb_refl. rewrite (setfd_same fd _ Of1'). reflexivity.
Qed.

Theorem parseNumber_max fd dec y : okRs fd y -> WF y -> y <> [] ->
  exists n, parseNumber y dec fd s_max = Ok n /\ okN fd n /\ greatest y (sval n).
Proof.
  intros O W N.
  destruct (exists_last N) as (r & l & E). subst y.
  assert (Ol : okR fd l).
  { unfold okRs in O. rewrite Forall_forall in O. apply O, in_or_app. right. left. reflexivity. }
  destruct Ol as [_ [Ol Ol']].
  exists (rMax l). split; [|split; [split; auto|apply (WF_greatest_app r l W)]].
  unfold parseNumber. rewrite str_eqb_refl. rewrite rev_app_distr. cbn [rev app].
  rewrite (setfd_same fd _ Ol'). reflexivity.
Qed.

(* every number the parser produces lies in the stated domain at precision fd *)
Lemma acc_digits_range base maxv : 0 <= base -> forall s acc v, 0 <= acc <= maxv ->
  acc_digits base maxv acc s = Ok v -> 0 <= v <= maxv.
Proof.
  intros Hb. induction s as [|c s IH]; intros acc v Ha H; cbn [acc_digits] in H.
  - inversion H; subst; auto.
  - destruct (is_digit c); [|discriminate].
    destruct (Z.geb_spec (digit_val c) base); [discriminate|].
    destruct (Z.gtb_spec (acc * base + digit_val c) maxv); [discriminate|].
    assert (0 <= digit_val c) by (unfold digit_val; apply N2Z.is_nonneg).
    apply (IH (acc * base + digit_val c) v); [|exact H]. nia.
Qed.

Lemma ParseInt_ok s n : ParseInt s = Ok n -> okN 0 n.
Proof.
  unfold ParseInt. destruct (non_ascii s); [discriminate|].
  destruct (TrimSpace s) as [|c r]; [discriminate|].
  destruct (str_eqb (c :: r) [cplus] || str_eqb (c :: r) [cminus]); [discriminate|].
  assert (U : forall ns v, ParseUint0 ns = Ok v -> 0 <= v < two64).
  { intros ns v. unfold ParseUint0. destruct (existsb is_alpha_us ns); [discriminate|].
    destruct ns as [|a ns']; [discriminate|].
    destruct (a =? 48)%N; intro H; apply acc_digits_range in H; unfold MaxUint64 in *; try lia;
      pose proof two64_eq; lia. }
  destruct (c =? cplus)%N; [|destruct (c =? cminus)%N];
    (match goal with |- context [ParseUint0 ?x] => destruct (ParseUint0 x) as [v| | |] eqn:E end;
     cbn [obind]; try discriminate; intro H; inversion H; subst;
     apply U in E; unfold okN, dom; cbn [Value FractionDigits]; lia).
Qed.

Lemma ParseDecimal_ok s fd n : ParseDecimal s fd = Ok n -> okN fd n.
Proof.
  unfold ParseDecimal. destruct (non_ascii s); [discriminate|].
  destruct (TrimSpace s) as [|c r]; [discriminate|].
  destruct (str_eqb (c :: r) [cplus] || str_eqb (c :: r) [cminus]); [discriminate|].
  unfold decimalValueFromString. unfold MaxFractionDigits.
  destruct (Z.gtb_spec fd 18); cbn [orb]; [discriminate|].
  destruct (Z.ltb_spec fd 1); [discriminate|].
  destruct (match index_dot (c :: r) with Some dx => _ | None => _ end) as [[fracDig s'] toomany].
  destruct toomany; [discriminate|].
  destruct (fracDig >? fd); [discriminate|].
  destruct (ParseInt10 _) as [v| | |]; cbn [obind]; try discriminate.
  intro Hx. inversion Hx; subst. unfold okN, dom. cbn [Value FractionDigits].
  unfold u64. pose proof two64_eq.
  match goal with |- context [?a mod two64] => pose proof (Z.mod_pos_bound a two64 ltac:(lia)) end.
  lia.
Qed.

Lemma parseNumber_ok fd dec y s n : okRs fd y -> (dec = false -> fd = 0) ->
  parseNumber y dec fd s = Ok n -> okN fd n.
Proof.
  intros O Hd. unfold parseNumber.
  destruct (str_eqb s s_max).
  - destruct (rev y) as [|l t] eqn:E; [discriminate|]. intro H. inversion H; subst.
    assert (I : In l y) by (apply in_rev; rewrite E; left; reflexivity).
    unfold okRs in O. rewrite Forall_forall in O. destruct (O l I) as [_ [Ol Ol']].
    rewrite (setfd_same fd _ Ol'). split; auto.
  - destruct (str_eqb s s_min).
    + destruct y as [|f t]; [discriminate|]. intro H. inversion H; subst.
      apply okRs_cons in O. destruct O as [[[Of Of'] _] _].
      rewrite (setfd_same fd _ Of'). split; auto.
    + destruct dec.
      * apply ParseDecimal_ok.
      * rewrite (Hd eq_refl). apply ParseInt_ok.
Qed.

(* a part is accepted only with its bounds in order; out-of-order bounds are an error *)
Theorem parsePart_two fd dec y s a b mn mx : okRs fd y -> (dec = false -> fd = 0) ->
  split_dotdot [] s = [a; b] ->
  parseNumber y dec fd (TrimSpace a) = Ok mn -> parseNumber y dec fd (TrimSpace b) = Ok mx ->
  parsePart y dec fd s = if sval mx <? sval mn then Err else Ok (mn, mx).
Proof.
  intros O Hd E Ha Hb. unfold parsePart. rewrite E, Ha, Hb. cbn [obind].
  rewrite (Less_sval fd mx mn); [reflexivity| |]; eapply parseNumber_ok; eauto.
Qed.

Lemma parsePart_ok fd dec y s p : okRs fd y -> (dec = false -> fd = 0) ->
  parsePart y dec fd s = Ok p -> okR fd p /\ valid p.
Proof.
  intros O Hd. unfold parsePart.
  destruct (split_dotdot [] s) as [|a [|b [|c t]]]; [discriminate| | |].
  - destruct (parseNumber y dec fd (TrimSpace a)) as [mn| | |] eqn:Ea; cbn [obind]; try discriminate.
    intro H. inversion H; subst. pose proof (parseNumber_ok _ _ _ _ _ O Hd Ea).
    split; [split; auto|unfold valid, lo, hi; cbn [rMin rMax fst snd]; lia].
  - destruct (parseNumber y dec fd (TrimSpace a)) as [mn| | |] eqn:Ea; cbn [obind]; try discriminate.
    destruct (parseNumber y dec fd (TrimSpace b)) as [mx| | |] eqn:Eb; cbn [obind]; try discriminate.
    pose proof (parseNumber_ok _ _ _ _ _ O Hd Ea) as Omn. pose proof (parseNumber_ok _ _ _ _ _ O Hd Eb) as Omx.
    rewrite (Less_sval fd mx mn Omx Omn).
    destruct (Z.ltb_spec (sval mx) (sval mn)); [discriminate|].
    intro Hx. inversion Hx; subst. split; [split; auto|unfold valid, lo, hi; cbn [rMin rMax fst snd]; lia].
  - destruct (parseNumber y dec fd (TrimSpace a)); cbn [obind]; discriminate.
Qed.

Lemma parseParts_ok fd dec y : okRs fd y -> (dec = false -> fd = 0) ->
  forall ps r, parseParts y dec fd ps = Ok r ->
  okRs fd r /\ Forall valid r /\ length r = length ps.
Proof.
  intros O Hd. induction ps as [|p ps IH]; intros r H; cbn [parseParts] in H.
  - inversion H; subst. repeat split; constructor.
  - destruct (parsePart y dec fd p) as [x| | |] eqn:Ep; cbn [obind] in H; try discriminate.
    destruct (parseParts y dec fd ps) as [xs| | |] eqn:Eps; cbn [obind] in H; try discriminate.
    inversion H; subst. destruct (parsePart_ok _ _ _ _ _ O Hd Ep) as [Ox Vx].
    destruct (IH xs eq_refl) as (Oxs & Vxs & L).
    split; [apply okRs_cons; auto|split; [constructor; auto|cbn [length]; congruence]].
Qed.

Lemma split_on_nonempty sep : forall s cur, split_on sep cur s <> [].
Proof. induction s as [|c s IH]; intro cur; cbn [split_on]; [discriminate|]. destruct (c =? sep)%N; [discriminate|apply IH]. Qed.

(* the whole function: the result is the canonical presentation of the union of the written parts,
   inside the parent's set; an error means a part was rejected or the union leaves the parent's set *)
Theorem parseChildRanges_spec fd dec y s :
  okRs fd y -> WF y -> (dec = false -> fd = 0) ->
  match parseChildRanges y s dec fd with
  | Ok r => exists parts, parseParts y dec fd (split_on cbar [] s) = Ok parts /\
            Forall valid parts /\ WF r /\ okRs fd r /\ r <> [] /\ seteq (den r) (den parts) /\
            (y <> [] -> subset (den r) (den y))
  | Err => parseParts y dec fd (split_on cbar [] s) = Err \/
           exists parts, parseParts y dec fd (split_on cbar [] s) = Ok parts /\
                         y <> [] /\ ~ subset (den parts) (den y)
  | Panic => False
  | Unmodelled => parseParts y dec fd (split_on cbar [] s) = Unmodelled
  end.
Proof.
  intros O W Hd. unfold parseChildRanges.
  destruct (parseParts y dec fd (split_on cbar [] s)) as [parts| | |] eqn:E; cbn [obind]; auto.
  - destruct (parseParts_ok fd dec y O Hd _ _ E) as (Op & Vp & L).
    assert (Np : parts <> []).
    { intro X. subst parts. cbn [length] in L. pose proof (split_on_nonempty cbar s []) as Nn.
      destruct (split_on cbar [] s); [congruence|discriminate]. }
    pose proof (finish_spec fd y parts O W Op Vp) as F.
    destruct (finish y parts) as [r| | |]; try contradiction.
    + destruct F as (Wr & Or & D & N & S). exists parts. repeat split; auto; apply D.
    + right. exists parts. tauto.
  - (* Panic from a part: the model has no Panic in parseParts *)
    exfalso. revert E. generalize (split_on cbar [] s). clear.
    assert (PN : forall t, parseNumber y dec fd t <> Panic).
    { intro t. unfold parseNumber. destruct (str_eqb t s_max); [destruct (rev y); discriminate|].
      destruct (str_eqb t s_min); [destruct y; discriminate|].
      destruct dec.
      - unfold ParseDecimal. destruct (non_ascii t); [discriminate|]. destruct (TrimSpace t); [discriminate|].
        destruct (_ || _); [discriminate|]. unfold decimalValueFromString.
        destruct (_ || _); [discriminate|].
        destruct (match index_dot _ with Some dx => _ | None => _ end) as [[fracDig s'] toomany].
        destruct toomany; [discriminate|]. destruct (fracDig >? fd); [discriminate|].
        assert (AD : forall b m u a, acc_digits b m a u <> Panic).
        { induction u as [|c u IHu]; intro a; cbn [acc_digits]; [discriminate|].
          destruct (is_digit c); [|discriminate]. destruct (_ >=? _); [discriminate|].
          destruct (_ >? _); [discriminate|apply IHu]. }
        unfold ParseInt10. destruct (s' ++ _) as [|c0' r0]; [discriminate|].
        destruct (if (c0' =? cplus)%N then _ else _) as [neg ds].
        destruct ds; [discriminate|].
        match goal with |- context [acc_digits ?b ?m ?a ?u] => pose proof (AD b m u a); destruct (acc_digits b m a u) end;
          cbn [obind]; congruence || discriminate.
      - unfold ParseInt. destruct (non_ascii t); [discriminate|]. destruct (TrimSpace t) as [|c r]; [discriminate|].
        destruct (_ || _); [discriminate|].
        assert (AD : forall b m u a, acc_digits b m a u <> Panic).
        { induction u as [|c' u IHu]; intro a; cbn [acc_digits]; [discriminate|].
          destruct (is_digit c'); [|discriminate]. destruct (_ >=? _); [discriminate|].
          destruct (_ >? _); [discriminate|apply IHu]. }
        assert (PU : forall ns, ParseUint0 ns <> Panic).
        { intro ns. unfold ParseUint0. destruct (existsb _ _); [discriminate|]. destruct ns; [discriminate|].
          destruct (_ =? _)%N; apply AD. }
        destruct (if (c =? cplus)%N then _ else _) as [neg ns].
        pose proof (PU ns). destruct (ParseUint0 ns); cbn [obind]; congruence || discriminate. }
    assert (PP : forall p, parsePart y dec fd p <> Panic).
    { intro p. unfold parsePart. destruct (split_dotdot [] p) as [|a [|b [|c t]]]; [discriminate| | |].
      - pose proof (PN (TrimSpace a)). destruct (parseNumber y dec fd (TrimSpace a)); cbn [obind]; congruence || discriminate.
      - pose proof (PN (TrimSpace a)). destruct (parseNumber y dec fd (TrimSpace a)); cbn [obind]; try congruence; try discriminate.
        pose proof (PN (TrimSpace b)). destruct (parseNumber y dec fd (TrimSpace b)); cbn [obind]; try congruence; try discriminate.
        destruct (Less _ _); discriminate.
      - pose proof (PN (TrimSpace a)). destruct (parseNumber y dec fd (TrimSpace a)); cbn [obind]; congruence || discriminate. }
    induction l as [|p l IH]; cbn [parseParts]; [discriminate|].
    pose proof (PP p). destruct (parsePart y dec fd p); cbn [obind]; try congruence; try discriminate.
    destruct (parseParts y dec fd l); cbn [obind]; try congruence; try discriminate;
      try (intros _; apply IH; reflexivity).
Qed.

(* ---------- derivation chains ---------- *)

Inductive derived (fd : Z) (dec : bool) (y0 : YangRange) : YangRange -> Prop :=
| derived_base : derived fd dec y0 y0
| derived_step y s r : derived fd dec y0 y -> parseChildRanges y s dec fd = Ok r -> derived fd dec y0 r.

Theorem chain_narrows fd dec y0 y :
  okRs fd y0 -> WF y0 -> y0 <> [] -> (dec = false -> fd = 0) ->
  derived fd dec y0 y ->
  WF y /\ okRs fd y /\ y <> [] /\ subset (den y) (den y0).
Proof.
  intros O W N Hd D. induction D as [|y s r D IH E].
  - repeat split; auto. intros z Dz. exact Dz.
  - destruct IH as (Wy & Oy & Ny & Sy).
    pose proof (parseChildRanges_spec fd dec y s Oy Wy Hd) as P. rewrite E in P.
    destruct P as (parts & _ & _ & Wr & Or & Nr & _ & Sr).
    repeat split; auto. intros z Dz. apply Sy, (Sr Ny), Dz.
Qed.

(* ---------- D31: the loop of the pinned commit ---------- *)

Definition d31_input : YangRange :=
  [(FromUint 0, FromUint (two64 - 1)); (FromUint (two64 - 1), FromUint (two64 - 1))].

Lemma coalesce_old_refuted :
  exists r, okRs 0 r /\ Forall valid r /\ sorted_lex r /\
            ~ WF (coalesce_old r) /\ WF (coalesce r).
Proof.
  exists d31_input. split; [|split; [|split; [|split]]].
  - repeat constructor; cbn; pose proof two64_eq; lia.
  - repeat constructor; unfold valid, lo, hi; cbn [d31_input rMin rMax fst snd FromUint sval Negative Value]; pose proof two64_eq; lia.
  - cbn [sorted_lex d31_input]. split; [|exact I]. left.
    unfold lo, hi; cbn [rMin rMax fst snd FromUint sval Negative Value]. pose proof two64_eq; lia.
  - replace (coalesce_old d31_input) with d31_input by (vm_compute; reflexivity).
    intros (_ & G & _). revert G.
    unfold lo, hi; cbn [rMin rMax fst snd FromUint sval Negative Value]. lia.
  - replace (coalesce d31_input) with [(FromUint 0, FromUint (two64 - 1))] by (vm_compute; reflexivity).
    cbn [WF]. unfold valid, lo, hi; cbn [rMin rMax fst snd FromUint sval Negative Value]. pose proof two64_eq; lia.
Qed.
