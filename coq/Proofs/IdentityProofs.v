(* C11 -- proofs about the model of identity resolution (Model/Identity.v) against Spec/C11.v.

   Layout: order on strings and the sort; appendIfNotIn / addChildren (specification of the depth-first
   closure for an arbitrary Values table, cyclic or not, and sufficiency of the fuel); the second loop of
   resolveIdentities (direct children, base errors); the third loop (closure over a table that mixes already
   closed and not yet closed lists: invariant  direct <= Values <= derived); wholeModule = reachability
   through include statements; the dictionary; findIdentityBase = [resolves]; the theorems about
   [resolve_identities] for all iteration oracles. *)
From Coq Require Import Ascii String List Bool Arith Lia NArith Sorting.Sorted Permutation Relations Operators_Properties.
From GY Require Import Model.Identity Spec.C11.
Import ListNotations.
Local Open Scope string_scope.
Local Open Scope list_scope.

(* ---------------- string order *)
Lemma ascii_compare_trans_lt a b c : Ascii.compare a b = Lt -> Ascii.compare b c = Lt -> Ascii.compare a c = Lt.
Proof. unfold Ascii.compare. rewrite !N.compare_lt_iff. lia. Qed.

Lemma str_lt_trans : forall a b c, String.compare a b = Lt -> String.compare b c = Lt -> String.compare a c = Lt.
Proof.
  induction a as [|x a IH]; intros [|y b] [|z c]; simpl; try congruence.
  destruct (Ascii.compare x y) eqn:Exy; try congruence.
  - apply Ascii.compare_eq_iff in Exy; subst y.
    destruct (Ascii.compare x z) eqn:Exz; try congruence. intros; eapply IH; eauto.
  - destruct (Ascii.compare y z) eqn:Eyz; try congruence.
    + apply Ascii.compare_eq_iff in Eyz; subst z. rewrite Exy. auto.
    + rewrite (ascii_compare_trans_lt _ _ _ Exy Eyz). auto.
Qed.

Lemma str_ltb_irrefl a : str_ltb a a = false.
Proof.
  unfold str_ltb. destruct (String.compare a a) eqn:E; auto.
  pose proof (String.compare_antisym a a) as H. rewrite E in H. discriminate.
Qed.

Lemma str_ltb_trans a b c : str_ltb a b = true -> str_ltb b c = true -> str_ltb a c = true.
Proof.
  unfold str_ltb. destruct (String.compare a b) eqn:E1; try discriminate.
  destruct (String.compare b c) eqn:E2; try discriminate.
  rewrite (str_lt_trans _ _ _ E1 E2). auto.
Qed.

Lemma str_ltb_asym a b : str_ltb a b = true -> str_ltb b a = false.
Proof.
  unfold str_ltb. rewrite (String.compare_antisym a b).
  destruct (String.compare b a); simpl; auto; discriminate.
Qed.

Lemma str_ltb_total a b : str_ltb a b = false -> str_ltb b a = false -> a = b.
Proof.
  unfold str_ltb. rewrite (String.compare_antisym a b).
  destruct (String.compare b a) eqn:E; simpl; try discriminate.
  intros. symmetry. apply String.compare_eq_iff; auto.
Qed.

Section Sort.
Variable less : key -> key -> bool.
Definition le_of (a b : key) : Prop := less b a = false.
Hypothesis less_asym : forall a b, less a b = true -> less b a = false.
Hypothesis le_trans : forall a b c, le_of a b -> le_of b c -> le_of a c.
Hypothesis le_antisym : forall a b, le_of a b -> le_of b a -> a = b.

Lemma insert_perm x l : Permutation (x :: l) (insert_sorted less x l).
Proof.
  induction l as [|y r IH]; simpl; auto.
  destruct (less x y); auto.
  eapply perm_trans; [apply perm_swap|]. constructor. exact IH.
Qed.

Lemma sort_perm l : Permutation l (stable_sort less l).
Proof.
  induction l as [|x l IH]; simpl; auto.
  eapply perm_trans; [|apply insert_perm]. constructor; exact IH.
Qed.

Lemma insert_in x y l : In y (insert_sorted less x l) <-> y = x \/ In y l.
Proof.
  split; intro H.
  - apply Permutation_sym in H || idtac.
    pose proof (Permutation_in y (Permutation_sym (insert_perm x l)) H) as H'. simpl in H'. intuition.
  - apply (Permutation_in y (insert_perm x l)). simpl. intuition.
Qed.

Lemma insert_sorted_SS x l : StronglySorted le_of l -> StronglySorted le_of (insert_sorted less x l).
Proof.
  induction 1 as [|y r Hs IH Hy]; simpl.
  - constructor; constructor.
  - destruct (less x y) eqn:E.
    + constructor. { constructor; auto. }
      constructor. { apply less_asym; auto. }
      rewrite Forall_forall in *. intros z Hz. eapply le_trans; [|apply Hy; exact Hz]. apply less_asym; auto.
    + constructor; auto. rewrite Forall_forall in *. intros z Hz.
      apply insert_in in Hz. destruct Hz as [->|Hz]; auto.
Qed.

Lemma sort_sorted l : StronglySorted le_of (stable_sort less l).
Proof. induction l; simpl. constructor. apply insert_sorted_SS; auto. Qed.

Lemma sort_in l x : In x (stable_sort less l) <-> In x l.
Proof. split; apply Permutation_in; [apply Permutation_sym|]; apply sort_perm. Qed.

Lemma sort_nodup l : NoDup l -> NoDup (stable_sort less l).
Proof. intro H. eapply Permutation_NoDup; [apply sort_perm|exact H]. Qed.

Lemma sorted_unique : forall l1 l2,
  StronglySorted le_of l1 -> StronglySorted le_of l2 -> NoDup l1 -> NoDup l2 ->
  (forall x, In x l1 <-> In x l2) -> l1 = l2.
Proof.
  induction l1 as [|a l1 IH]; intros l2 S1 S2 N1 N2 Heq.
  - destruct l2 as [|b l2]; auto. exfalso. apply (proj2 (Heq b)). left; auto.
  - destruct l2 as [|b l2]. { exfalso. apply (proj1 (Heq a)). left; auto. }
    inversion S1 as [|? ? S1' F1]; subst. inversion S2 as [|? ? S2' F2]; subst.
    inversion N1 as [|? ? Na N1']; subst. inversion N2 as [|? ? Nb N2']; subst.
    rewrite Forall_forall in F1, F2.
    assert (a = b).
    { destruct (proj1 (Heq a) (or_introl eq_refl)) as [E|Hin]; [symmetry; exact E|].
      destruct (proj2 (Heq b) (or_introl eq_refl)) as [E|Hin']; [exact E|].
      apply le_antisym; [apply F1; exact Hin'|apply F2; exact Hin]. }
    subst b. f_equal. apply IH; auto.
    intro x. split; intro Hx.
    + destruct (proj1 (Heq x) (or_intror Hx)) as [E|]; auto. subst; contradiction.
    + destruct (proj2 (Heq x) (or_intror Hx)) as [E|]; auto. subst; contradiction.
Qed.
End Sort.

(* the order used by resolveIdentities *)
Lemma str_ltb_conn a b : str_ltb a b = false -> a <> b -> str_ltb b a = true.
Proof.
  intros H N. destruct (str_ltb b a) eqn:E; auto. exfalso. apply N. apply str_ltb_total; auto.
Qed.

Lemma id_less_asym d a b : id_less d a b = true -> id_less d b a = false.
Proof.
  unfold id_less. rewrite (String.eqb_sym (ident_name d b)).
  destruct (ident_name d a =? ident_name d b); simpl; apply str_ltb_asym.
Qed.

Lemma id_le_antisym d a b : le_of (id_less d) a b -> le_of (id_less d) b a -> a = b.
Proof.
  unfold le_of, id_less. rewrite (String.eqb_sym (ident_name d b)).
  destruct (String.eqb_spec (ident_name d a) (ident_name d b)) as [E|N]; simpl; intros H1 H2.
  - apply str_ltb_total; auto.
  - exfalso. apply N. apply str_ltb_total; auto.
Qed.

Lemma id_le_trans d a b c : le_of (id_less d) a b -> le_of (id_less d) b c -> le_of (id_less d) a c.
Proof.
  unfold le_of, id_less.
  set (na := ident_name d a). set (nb := ident_name d b). set (nc := ident_name d c).
  destruct (String.eqb_spec nb na) as [Eba|Nba]; destruct (String.eqb_spec nc nb) as [Ecb|Ncb];
  destruct (String.eqb_spec nc na) as [Eca|Nca]; simpl; intros H1 H2; try congruence.
  - (* all names equal *)
    destruct (str_ltb c a) eqn:E; auto. exfalso.
    destruct (String.eqb_spec b a) as [->|Nab]; [congruence|].
    pose proof (str_ltb_conn _ _ H1 Nab) as Hab.
    rewrite (str_ltb_trans _ _ _ E Hab) in H2. discriminate.
  - (* nb <> na, nc <> nb, nc = na *)
    exfalso. pose proof (str_ltb_conn _ _ H1 Nba) as Hab. pose proof (str_ltb_conn _ _ H2 Ncb) as Hbc.
    rewrite Eca in Hbc. rewrite (str_ltb_asym _ _ Hab) in Hbc. discriminate.
  - destruct (str_ltb nc na) eqn:E; auto. exfalso.
    pose proof (str_ltb_conn _ _ H1 Nba) as Hab.
    rewrite (str_ltb_trans _ _ _ E Hab) in H2. discriminate.
Qed.

(* ---------------- appendIfNotIn *)
Lemma ain_in ids r : In r ids -> append_if_not_in ids r = ids.
Proof.
  induction ids as [|x l IH]; simpl; [tauto|].
  intros H. destruct (String.eqb_spec x r) as [E|N]; auto.
  destruct H as [H|H]; [contradiction|]. rewrite IH; auto.
Qed.

Lemma ain_notin ids r : ~ In r ids -> append_if_not_in ids r = ids ++ [r].
Proof.
  induction ids as [|x l IH]; simpl; auto.
  intros H. destruct (String.eqb_spec x r) as [E|N]; [tauto|]. rewrite IH; auto.
Qed.

Lemma nodup_snoc (l : list key) r : NoDup l -> ~ In r l -> NoDup (l ++ [r]).
Proof.
  intros D N. apply NoDup_rev in D. rewrite <- (rev_involutive (l ++ [r])). apply NoDup_rev.
  rewrite rev_app_distr. simpl. constructor; auto. rewrite <- in_rev. exact N.
Qed.

Definition fold_ac (f : nat) (V : vals) (cs : list key) (acc : option (list key)) : option (list key) :=
  fold_left (fun acc ch => obind_list (add_children f V ch) acc) cs acc.

Lemma add_children_S f V r ids :
  add_children (S f) V r ids =
  if in_dec string_dec r ids then Some ids else fold_ac f V (V r) (Some (ids ++ [r])).
Proof.
  cbn [add_children]. destruct (in_dec string_dec r ids) as [H|H].
  - rewrite (ain_in _ _ H). rewrite Nat.eqb_refl. reflexivity.
  - rewrite (ain_notin _ _ H). rewrite app_length. simpl.
    destruct (Nat.eqb_spec (length ids + 1) (length ids)); [lia|]. reflexivity.
Qed.

Lemma fold_ac_none f V cs : fold_ac f V cs None = None.
Proof. induction cs; simpl; auto. Qed.

Lemma fold_ac_cons f V c cs ids :
  fold_ac f V (c :: cs) (Some ids) = fold_ac f V cs (add_children f V c ids).
Proof. reflexivity. Qed.

Lemma close_eq f V i : close f V i = fold_ac f V (V i) (Some []).
Proof. reflexivity. Qed.

Section Closure.
Variable V : vals.
Definition Rv (x c : key) : Prop := In c (V x).

Definition ac_post (cs ids ids' : list key) : Prop :=
  incl ids ids' /\
  (forall c, In c cs -> In c ids') /\
  (forall x, In x ids' -> ~ In x ids ->
     (forall c, Rv x c -> In c ids') /\ exists c0, In c0 cs /\ clos_refl_trans _ Rv c0 x) /\
  (NoDup ids -> NoDup ids').

Lemma ac_post_refl ids : ac_post [] ids ids.
Proof.
  split; [apply incl_refl|]. split; [intros c []|]. split; [tauto|auto].
Qed.

Lemma ac_post_comp cs1 cs2 ids ids1 ids' :
  ac_post cs1 ids ids1 -> ac_post cs2 ids1 ids' -> ac_post (cs1 ++ cs2) ids ids'.
Proof.
  intros (I1 & R1 & N1 & D1) (I2 & R2 & N2 & D2).
  split; [eapply incl_tran; eauto|].
  split. { intros c Hc. apply in_app_or in Hc. destruct Hc; auto. }
  split; [|auto].
  intros x Hx Hn.
  destruct (in_dec string_dec x ids1) as [H1|H1].
  - destruct (N1 x H1 Hn) as (C & c0 & Hc0 & Hr). split.
    + intros c Hc. apply I2. auto.
    + exists c0. split; auto. apply in_or_app; auto.
  - destruct (N2 x Hx H1) as (C & c0 & Hc0 & Hr). split; auto.
    exists c0. split; auto. apply in_or_app; auto.
Qed.

Lemma fold_spec f :
  (forall r ids ids', add_children f V r ids = Some ids' -> ac_post [r] ids ids') ->
  forall cs ids ids', fold_ac f V cs (Some ids) = Some ids' -> ac_post cs ids ids'.
Proof.
  intros Hf. induction cs as [|c cs IH]; intros ids ids' H.
  - simpl in H. inversion H; subst. apply ac_post_refl.
  - rewrite fold_ac_cons in H.
    destruct (add_children f V c ids) as [ids1|] eqn:E; [|rewrite fold_ac_none in H; discriminate].
    change (c :: cs) with ([c] ++ cs). eapply ac_post_comp; eauto.
Qed.

Lemma ac_spec : forall f r ids ids', add_children f V r ids = Some ids' -> ac_post [r] ids ids'.
Proof.
  induction f as [|f IH]; intros r ids ids' H; [discriminate|].
  rewrite add_children_S in H.
  destruct (in_dec string_dec r ids) as [Hin|Hnin].
  - inversion H; subst.
    split; [apply incl_refl|]. split; [intros c [<-|[]]; auto|]. split; [tauto|auto].
  - apply (fold_spec f IH) in H. destruct H as (I & Rt & N & D).
    assert (Hr : In r ids'). { apply I. apply in_or_app. right; left; auto. }
    split. { intros x Hx. apply I. apply in_or_app; auto. }
    split. { intros c [<-|[]]; auto. }
    split.
    + intros x Hx Hn. destruct (string_dec x r) as [->|Nx].
      * split. { intros c Hc. apply Rt. exact Hc. }
        exists r. split; [left; auto|apply rt_refl].
      * assert (Hn' : ~ In x (ids ++ [r])).
        { intro Hc. apply in_app_or in Hc. destruct Hc as [Hc|[Hc|[]]]; auto. }
        destruct (N x Hx Hn') as (C & c0 & Hc0 & Hreach). split; auto.
        exists r. split; [left; auto|].
        eapply rt_trans; [apply rt_step; exact Hc0|exact Hreach].
    + intros Hd. apply D. apply nodup_snoc; auto.
Qed.
End Closure.

Lemma step_rt_t {A} (R : relation A) x y z : R x y -> clos_refl_trans _ R y z -> clos_trans _ R x z.
Proof.
  intros H Hr. apply clos_rt_rtn1 in Hr. induction Hr as [|u v Huv _ IH].
  - apply t_step; auto.
  - eapply t_trans; [exact IH|apply t_step; auto].
Qed.

Lemma t_rt {A} (R : relation A) x y : clos_trans _ R x y -> clos_refl_trans _ R x y.
Proof. induction 1; [apply rt_step; auto|eapply rt_trans; eauto]. Qed.

Lemma close_spec f V i nv :
  close f V i = Some nv -> NoDup nv /\ forall x, In x nv <-> clos_trans _ (Rv V) i x.
Proof.
  rewrite close_eq. intro H. apply (fold_spec V f (ac_spec V f)) in H.
  destruct H as (_ & Rt & N & D). split; [apply D; constructor|].
  intro x. split.
  - intro Hx. destruct (N x Hx (fun F => F)) as (_ & c0 & Hc0 & Hr).
    eapply step_rt_t; eauto.
  - intro Ht. apply clos_trans_t1n in Ht.
    assert (Hcl : forall y z, clos_refl_trans _ (Rv V) y z -> In y nv -> In z nv).
    { intros y z Hr. apply clos_rt_rt1n in Hr. induction Hr as [|u v w Huv _ IH]; auto.
      intro Hu. apply IH. destruct (N u Hu (fun F => F)) as (C & _). apply C; auto. }
    destruct Ht as [y Hy|y z Hy Hyz].
    + apply Rt; auto.
    + apply (Hcl y); [|apply Rt; auto]. apply t_rt. apply clos_t1n_trans. exact Hyz.
Qed.

Section Fuel.
Variable V : vals.
Variable ks : list key.
Hypothesis Vks : forall x c, In c (V x) -> In c ks.

Lemma post_incl cs ids ids' : ac_post V cs ids ids' -> incl cs ks -> incl ids ks -> incl ids' ks.
Proof.
  intros (_ & _ & N & _) Hc Hi x Hx.
  destruct (in_dec string_dec x ids) as [H|H]; [auto|].
  destruct (N x Hx H) as (_ & c0 & Hc0 & Hr).
  apply clos_rt_rtn1 in Hr. destruct Hr as [|u v Huv _]; [auto|]. eapply Vks; eauto.
Qed.

Lemma fuel_fold f :
  (forall r ids, NoDup ids -> incl ids ks -> In r ks -> length ks - length ids < f ->
                 exists ids', add_children f V r ids = Some ids') ->
  forall cs ids, incl cs ks -> NoDup ids -> incl ids ks -> length ks - length ids < f ->
                 exists ids', fold_ac f V cs (Some ids) = Some ids'.
Proof.
  intros Hf. induction cs as [|c cs IH]; intros ids Hc Hd Hi Hl.
  - exists ids. reflexivity.
  - rewrite fold_ac_cons.
    destruct (Hf c ids Hd Hi (Hc c (or_introl eq_refl)) Hl) as (ids1 & E). rewrite E.
    pose proof (ac_spec V f c ids ids1 E) as P.
    assert (Hi1 : incl ids1 ks).
    { eapply post_incl; eauto. intros y [<-|[]]. apply Hc; left; auto. }
    destruct P as (I & _ & _ & D).
    apply IH; auto.
    + intros y Hy. apply Hc; right; auto.
    + pose proof (NoDup_incl_length Hd I). lia.
Qed.

Lemma fuel_ok : forall f r ids, NoDup ids -> incl ids ks -> In r ks -> length ks - length ids < f ->
  exists ids', add_children f V r ids = Some ids'.
Proof.
  induction f as [|f IH]; intros r ids Hd Hi Hr Hl; [lia|].
  rewrite add_children_S. destruct (in_dec string_dec r ids) as [Hin|Hnin]; [eauto|].
  assert (Hd1 : NoDup (ids ++ [r])) by (apply nodup_snoc; auto).
  assert (Hi1 : incl (ids ++ [r]) ks).
  { intros y Hy. apply in_app_or in Hy. destruct Hy as [Hy|[<-|[]]]; auto. }
  pose proof (NoDup_incl_length Hd1 Hi1) as L. rewrite app_length in L. simpl in L.
  apply (fuel_fold f IH); auto.
  - intros c Hc. eapply Vks; eauto.
  - rewrite app_length. simpl. lia.
Qed.

Lemma close_total i : exists nv, close (length ks + 1) V i = Some nv.
Proof.
  rewrite close_eq. apply (fuel_fold _ (fuel_ok _)).
  - intros c Hc. eapply Vks; eauto.
  - constructor.
  - intros x [].
  - simpl. lia.
Qed.
End Fuel.

Lemma vset_same V k l : vset V k l k = l.
Proof. unfold vset. rewrite String.eqb_refl. reflexivity. Qed.
Lemma vset_other V k l x : x <> k -> vset V k l x = V x.
Proof. unfold vset. intro H. destruct (String.eqb_spec x k); [contradiction|reflexivity]. Qed.

Lemma mem_In x l : mem x l = true <-> In x l.
Proof.
  unfold mem. rewrite existsb_exists. split.
  - intros (y & Hy & E). apply String.eqb_eq in E. subst; auto.
  - intro H. exists x. split; auto. apply String.eqb_refl.
Qed.

Section Passes.
Variable sc : schema.
Variable d : dict.

Definition fib (md : module) (s : string) : option key := find_identity_base sc d md s.

(* resolved bases of the identity with key k *)
Definition bases_res (k : key) : list (option key) :=
  match dict_get d k with Some (md, i) => map (fib md) (i_bases i) | None => [] end.

(* ---------------- pass 2 *)
Lemma p2_base_fold md k : forall bs st,
  let st' := fold_left (pass2_base sc d md k) bs st in
  (forall b x, In x (fst st' b) <-> In x (fst st b) \/ (x = k /\ In (Some b) (map (fib md) bs))) /\
  (forall e, In e (snd st') <-> In e (snd st) \/ exists s, e = ErrBase k s /\ In s bs /\ fib md s = None).
Proof.
  induction bs as [|s bs IH]; intros st; cbn [fold_left].
  - split; intros; simpl; [tauto|]. split; [auto|]. intros [H|(s & _ & [] & _)]; auto.
  - specialize (IH (pass2_base sc d md k st s)). cbv zeta in IH. destruct IH as (IH1 & IH2).
    split.
    + intros b x. rewrite IH1. unfold pass2_base, fib. cbn [map In].
      destruct (find_identity_base sc d md s) as [bk|] eqn:E; cbn [fst snd].
      * unfold vset. destruct (String.eqb_spec b bk) as [->|N].
        -- rewrite in_app_iff. cbn [In]. intuition (try congruence). 
        -- intuition (try congruence).
      * intuition congruence.
    + intros e. rewrite IH2. unfold pass2_base, fib.
      destruct (find_identity_base sc d md s) as [bk|] eqn:E; cbn [fst snd].
      * split.
        -- intros [H|(s' & He & Hs & Hn)]; auto. right. exists s'. simpl; auto.
        -- intros [H|(s' & He & [<-|Hs] & Hn)]; auto.
           ++ unfold fib in Hn. congruence.
           ++ right. exists s'. auto.
      * rewrite in_app_iff. cbn [In]. split.
        -- intros [[H|[<-|[]]]|(s' & He & Hs & Hn)]; auto.
           ++ right. exists s. simpl. auto.
           ++ right. exists s'. simpl; auto.
        -- intros [H|(s' & He & [<-|Hs] & Hn)]; auto.
           right. exists s'. auto.
Qed.

Definition base_err (order : list key) (e : err) : Prop :=
  exists k s md i, e = ErrBase k s /\ In k order /\ dict_get d k = Some (md, i) /\ In s (i_bases i) /\ fib md s = None.

Lemma p2_fold : forall order st,
  let st' := fold_left (pass2_step sc d) order st in
  (forall b x, In x (fst st' b) <-> In x (fst st b) \/ (In x order /\ In (Some b) (bases_res x))) /\
  (forall e, In e (snd st') <-> In e (snd st) \/ base_err order e).
Proof.
  induction order as [|k order IH]; intros st; cbn [fold_left].
  - split; intros; simpl; [tauto|]. split; auto. intros [H|(k & s & md & i & _ & [] & _)]; auto.
  - specialize (IH (pass2_step sc d st k)). cbv zeta in IH. destruct IH as (IH1 & IH2). split.
    + intros b x. rewrite IH1. unfold pass2_step. unfold bases_res at 2.
      destruct (dict_get d k) as [[md i]|] eqn:E.
      * destruct (p2_base_fold md k (i_bases i) st) as (B1 & _). rewrite B1. cbn [In].
        split.
        -- intros [[H|(-> & H)]|(H1 & H2)]; auto.
           right. split; auto. unfold bases_res. rewrite E. exact H.
        -- intros [H|([<-|H1] & H2)]; auto.
           left. right. split; auto. unfold bases_res in H2. rewrite E in H2. exact H2.
      * cbn [In]. split.
        -- intros [H|(H1 & H2)]; auto.
        -- intros [H|([<-|H1] & H2)]; auto. unfold bases_res in H2. rewrite E in H2. destruct H2.
    + intros e. rewrite IH2. unfold pass2_step.
      destruct (dict_get d k) as [[md i]|] eqn:E.
      * destruct (p2_base_fold md k (i_bases i) st) as (_ & B2). rewrite B2. split.
        -- intros [[H|(s & -> & Hs & Hn)]|(k' & s & md' & i' & He & Hk & Hg & Hs & Hn)]; auto.
           ++ right. exists k, s, md, i. simpl; auto 10.
           ++ right. exists k', s, md', i'. simpl; auto 10.
        -- intros [H|(k' & s & md' & i' & He & [<-|Hk] & Hg & Hs & Hn)]; auto.
           ++ rewrite E in Hg. inversion Hg; subst. left. right. exists s. auto.
           ++ right. exists k', s, md', i'. auto 10.
      * split.
        -- intros [H|(k' & s & md' & i' & He & Hk & Hg & Hs & Hn)]; auto.
           right. exists k', s, md', i'. simpl; auto 10.
        -- intros [H|(k' & s & md' & i' & He & [<-|Hk] & Hg & Hs & Hn)]; auto.
           ++ congruence.
           ++ right. exists k', s, md', i'. auto 10.
Qed.

Lemma pass2_spec order :
  (forall b x, In x (fst (pass2 sc d order) b) <-> In x order /\ In (Some b) (bases_res x)) /\
  (forall e, In e (snd (pass2 sc d order)) <-> base_err order e).
Proof.
  destruct (p2_fold order (vempty, [])) as (H1 & H2). split.
  - intros b x. unfold pass2. rewrite H1. simpl. tauto.
  - intros e. unfold pass2. rewrite H2. simpl. tauto.
Qed.

End Passes.

Section Pass3.
Variable d : dict.
Variable V0 : vals.
Variable ks : list key.
Hypothesis V0ks : forall x c, In c (V0 x) -> In c ks.

Definition Dr : relation key := Rv V0.
Definition good (b : key) (l : list key) : Prop :=
  NoDup l /\ StronglySorted (le_of (id_less d)) l /\ forall x, In x l <-> clos_trans _ Dr b x.
Definition Jinv (V : vals) : Prop :=
  forall b i, (In i (V0 b) -> In i (V b)) /\ (In i (V b) -> clos_trans _ Dr b i).

Lemma Jinv_V0 : Jinv V0.
Proof. intros b i. split; auto. intro H. apply t_step. exact H. Qed.

Lemma tc_last b c : clos_trans _ Dr b c -> exists y, Dr y c.
Proof. intro H. apply clos_trans_tn1 in H. destruct H; eauto. Qed.

Lemma Jinv_Vks V : Jinv V -> forall x c, In c (V x) -> In c ks.
Proof.
  intros J x c H. apply J in H. destruct (tc_last _ _ H) as (y & Hy). eapply V0ks; exact Hy.
Qed.

Lemma sandwich V : Jinv V -> forall i x, clos_trans _ (Rv V) i x <-> clos_trans _ Dr i x.
Proof.
  intros J i x. split; intro H.
  - induction H as [a b' H|a b' c' _ IH1 _ IH2].
    + apply J. exact H.
    + eapply t_trans; eauto.
  - induction H as [a b' H|a b' c' _ IH1 _ IH2].
    + apply t_step. apply J. exact H.
    + eapply t_trans; eauto.
Qed.

Lemma good_unique b l1 l2 : good b l1 -> good b l2 -> l1 = l2.
Proof.
  intros (N1 & S1 & I1) (N2 & S2 & I2).
  apply (sorted_unique (id_less d)); auto.
  - apply id_le_antisym.
  - intro x. rewrite I1, I2. tauto.
Qed.

Definition cyc_errs (i : key) (nv : list key) (errs : list err) : list err :=
  if mem i nv then errs ++ [ErrCycle i] else errs.

Lemma step_ok V errs i : Jinv V -> dict_get d i <> None ->
  exists nv, pass3_step (length ks + 1) d (Some (V, errs)) i = Some (vset V i nv, cyc_errs i nv errs) /\
             good i nv.
Proof.
  intros J Hk. unfold pass3_step.
  destruct (dict_get d i) as [e|]; [|congruence].
  destruct (close_total V ks (Jinv_Vks V J) i) as (nv & E). rewrite E.
  exists (stable_sort (id_less d) nv). split; [reflexivity|].
  destruct (close_spec _ _ _ _ E) as (N & I). split; [|split].
  - apply sort_nodup; auto.
  - apply sort_sorted.
    + apply id_less_asym.
    + apply id_le_trans.
  - intro x. rewrite sort_in. rewrite I. apply sandwich; auto.
Qed.

Lemma Jinv_step V i nv : Jinv V -> good i nv -> Jinv (vset V i nv).
Proof.
  intros J (_ & _ & I) b x. unfold vset. destruct (String.eqb_spec b i) as [->|N].
  - rewrite I. split; auto. intro H. apply t_step. exact H.
  - apply J.
Qed.

Definition cyc_err (order : list key) (e : err) : Prop :=
  exists i, e = ErrCycle i /\ In i order /\ dict_get d i <> None /\ clos_trans _ Dr i i.

Lemma p3_fold : forall order V errs, Jinv V ->
  exists V' errs', pass3 (length ks + 1) d order (V, errs) = Some (V', errs') /\ Jinv V' /\
    (forall b, In b order -> dict_get d b <> None -> good b (V' b)) /\
    (forall b, good b (V b) -> good b (V' b)) /\
    (forall b, ~ In b order -> V' b = V b) /\
    (forall e, In e errs' <-> In e errs \/ cyc_err order e).
Proof.
  unfold pass3. induction order as [|k order IH]; intros V errs J.
  - exists V, errs. simpl. split; [reflexivity|]. split; [exact J|].
    split; [intros b []|]. split; [auto|]. split; [auto|].
    intro e. split; [auto|]. intros [H|(i0 & _ & [] & _)]; auto.
  - cbn [fold_left]. unfold state in *.
    destruct (dict_get d k) as [en|] eqn:Ek.
    + destruct (step_ok V errs k J) as (nv & Es & G); [congruence|].
      rewrite Es. destruct (IH _ (cyc_errs k nv errs) (Jinv_step V k nv J G)) as (V' & errs' & E' & J' & G' & P' & U' & X').
      exists V', errs'. split; [exact E'|]. split; [exact J'|].
      split; [|split; [|split]].
      * intros b [<-|Hb] Hd; auto. apply P'. rewrite vset_same. exact G.
      * intros b Gb. apply P'. unfold vset. destruct (String.eqb_spec b k) as [->|N]; auto.
      * intros b Hb. rewrite U' by (intro; apply Hb; right; auto).
        apply vset_other. intro; subst; apply Hb; left; auto.
      * intro e. rewrite X'. unfold cyc_errs.
        assert (Hm : mem k nv = true <-> clos_trans _ Dr k k).
        { rewrite mem_In. destruct G as (_ & _ & I). apply I. }
        split.
        -- intros [H|(i & He & Hi & Hd & Hc)].
           ++ destruct (mem k nv) eqn:M; auto. apply in_app_or in H. destruct H as [H|[<-|[]]]; auto.
              right. exists k. repeat split; auto. left; auto. congruence. apply Hm; auto.
           ++ right. exists i. repeat split; auto. right; auto.
        -- intros [H|(i & He & [<-|Hi] & Hd & Hc)].
           ++ left. destruct (mem k nv); auto. apply in_or_app; auto.
           ++ left. apply Hm in Hc. rewrite Hc. apply in_or_app. right. left. auto.
           ++ right. exists i. auto.
    + assert (Es : pass3_step (length ks + 1) d (Some (V, errs)) k = Some (V, errs)).
      { unfold pass3_step. rewrite Ek. reflexivity. }
      rewrite Es. destruct (IH V errs J) as (V' & errs' & E' & J' & G' & P' & U' & X').
      exists V', errs'. split; [exact E'|]. split; [exact J'|].
      split; [|split; [|split]]; auto.
      * intros b [<-|Hb] Hd; auto. congruence.
      * intros b Hb. apply U'. intro; apply Hb; right; auto.
      * intro e. rewrite X'. split.
        -- intros [H|(i & He & Hi & Hd & Hc)]; auto. right. exists i. repeat split; auto. right; auto.
        -- intros [H|(i & He & [<-|Hi] & Hd & Hc)]; auto. congruence. right. exists i. auto.
Qed.
End Pass3.

(* ---------------- wholeModule = include-reachability *)
Section Whole.
Variable sc : schema.

Definition canon (x : module) : Prop := find_mod sc (m_sub x) (m_name x) = Some x.
Definition inc (x y : module) : Prop := In y (included sc x).

Lemma find_mod_some sub n m : find_mod sc sub n = Some m -> In m sc /\ m_sub m = sub /\ m_name m = n.
Proof.
  unfold find_mod. intro H. apply find_some in H. destruct H as (Hin & Hb).
  apply andb_prop in Hb. destruct Hb as (H1 & H2).
  apply Bool.eqb_prop in H1. apply String.eqb_eq in H2. auto.
Qed.

Lemma find_mod_canon sub n m : find_mod sc sub n = Some m -> canon m.
Proof.
  intro H. destruct (find_mod_some _ _ _ H) as (_ & <- & <-). exact H.
Qed.

Lemma same_mod_canon x y : canon x -> canon y -> same_mod x y = true -> x = y.
Proof.
  unfold canon, same_mod. intros Hx Hy H. apply andb_prop in H. destruct H as (H1 & H2).
  apply Bool.eqb_prop in H1. apply String.eqb_eq in H2. rewrite H1, H2 in Hx. congruence.
Qed.

Lemma same_mod_refl x : same_mod x x = true.
Proof. unfold same_mod. rewrite Bool.eqb_reflx, String.eqb_refl. reflexivity. Qed.

Lemma included_spec x y : In y (included sc x) <-> exists n, In n (m_includes x) /\ find_mod sc true n = Some y.
Proof.
  unfold included. rewrite in_flat_map. split.
  - intros (n & Hn & Hy). exists n. split; auto. destruct (find_mod sc true n); simpl in Hy; [|tauto].
    destruct Hy as [->|[]]. reflexivity.
  - intros (n & Hn & Hy). exists n. split; auto. rewrite Hy. left; auto.
Qed.

Lemma included_canon x y : In y (included sc x) -> canon y.
Proof. rewrite included_spec. intros (n & _ & H). eapply find_mod_canon; eauto. Qed.

Lemma included_length x : length (included sc x) <= length (m_includes x).
Proof.
  unfold included. induction (m_includes x) as [|n l IH]; simpl; auto.
  rewrite app_length. destruct (find_mod sc true n); simpl; lia.
Qed.

Lemma filter_len {A} (p : A -> bool) l : length (filter p l) <= length l.
Proof. induction l; simpl; auto. destruct (p a); simpl; lia. Qed.

Fixpoint unseen_incl (l : list module) (seen : list module) : nat :=
  match l with
  | [] => 0
  | m :: r => (if is_seen m seen then 0 else length (m_includes m)) + unseen_incl r seen
  end.

Lemma is_seen_cons m x seen : is_seen m (x :: seen) = same_mod m x || is_seen m seen.
Proof. reflexivity. Qed.

Lemma unseen_mono l x seen : unseen_incl l (x :: seen) <= unseen_incl l seen.
Proof.
  induction l as [|m r IH]; simpl; auto.
  destruct (same_mod m x); simpl; destruct (is_seen m seen); lia.
Qed.

Lemma unseen_drop l x seen : In x l -> is_seen x seen = false ->
  unseen_incl l (x :: seen) + length (m_includes x) <= unseen_incl l seen.
Proof.
  induction l as [|m r IH]; intros Hin Hs; [destruct Hin|].
  cbn [unseen_incl]. destruct Hin as [->|Hin].
  - rewrite Hs. cbn [is_seen existsb]. rewrite same_mod_refl. simpl.
    pose proof (unseen_mono r x seen). lia.
  - specialize (IH Hin Hs). rewrite is_seen_cons.
    destruct (same_mod m x); simpl; destruct (is_seen m seen); lia.
Qed.

Lemma unseen_nil_total l : unseen_incl l [] = total_includes l.
Proof. induction l; simpl; auto. Qed.

Lemma canon_in x : canon x -> In x sc.
Proof. intro H. apply (find_mod_some _ _ _ H). Qed.

Lemma whole_loop_spec : forall f seen q,
  length q + unseen_incl sc seen <= f -> (forall x, In x q -> canon x) ->
  (forall y, In y q -> is_seen y seen = true \/ In y (whole_loop f sc seen q)) /\
  (forall x, In x (whole_loop f sc seen q) -> forall z, In z (included sc x) ->
             is_seen z seen = true \/ In z (whole_loop f sc seen q)) /\
  (forall x, In x (whole_loop f sc seen q) -> exists y, In y q /\ clos_refl_trans _ inc y x).
Proof.
  induction f as [|f IH]; intros seen q Hf Hc.
  - destruct q; [|simpl in Hf; lia]. simpl. repeat split; intros; try contradiction.
  - destruct q as [|x q]. { simpl. repeat split; intros; try contradiction. }
    cbn [whole_loop]. destruct (is_seen x seen) eqn:Es.
    + destruct (IH seen q) as (A & B & C). { simpl in Hf. lia. } { intros; apply Hc; right; auto. }
      split; [|split].
      * intros y [<-|Hy]; auto.
      * exact B.
      * intros z Hz. destruct (C z Hz) as (y & Hy & Hr). exists y. split; auto. right; auto.
    + set (new := filter (fun y => negb (is_seen y (x :: seen))) (included sc x)).
      assert (Hnew : length new <= length (m_includes x)).
      { unfold new. eapply Nat.le_trans; [apply filter_len|apply included_length]. }
      destruct (IH (x :: seen) (q ++ new)) as (A & B & C).
      { rewrite app_length. pose proof (unseen_drop sc x seen (canon_in x (Hc x (or_introl eq_refl))) Es).
        simpl in Hf. lia. }
      { intros y Hy. apply in_app_or in Hy. destruct Hy as [Hy|Hy].
        - apply Hc; right; auto.
        - unfold new in Hy. apply filter_In in Hy. eapply included_canon. apply Hy. }
      fold new in A, B, C. fold new.
      assert (Hseen : forall z, is_seen z (x :: seen) = true ->
                is_seen z seen = true \/ In z (x :: whole_loop f sc (x :: seen) (q ++ new)) \/ same_mod z x = true).
      { intros z Hz. rewrite is_seen_cons in Hz. apply orb_prop in Hz. tauto. }
      split; [|split].
      * intros y [<-|Hy]; [right; left; auto|].
        destruct (A y (in_or_app _ _ _ (or_introl Hy))) as [H|H]; [|right; right; auto].
        rewrite is_seen_cons in H. apply orb_prop in H. destruct H as [H|H]; auto.
        right. left. symmetry. apply same_mod_canon; auto. apply Hc; right; auto. apply Hc; left; auto.
      * intros w [<-|Hw] z Hz.
        -- destruct (is_seen z (x :: seen)) eqn:Ez.
           ++ rewrite is_seen_cons in Ez. apply orb_prop in Ez. destruct Ez as [Ez|Ez]; auto.
              right. left. symmetry. apply same_mod_canon; auto.
              eapply included_canon; eauto. apply Hc; left; auto.
           ++ assert (Hn : In z new). { unfold new. apply filter_In. split; auto. rewrite Ez. reflexivity. }
              destruct (A z (in_or_app _ _ _ (or_intror Hn))) as [H|H]; [congruence|]. right. right. auto.
        -- destruct (B w Hw z Hz) as [H|H]; [|right; right; auto].
           rewrite is_seen_cons in H. apply orb_prop in H. destruct H as [H|H]; auto.
           right. left. symmetry. apply same_mod_canon; auto.
           eapply included_canon; eauto. apply Hc; left; auto.
      * intros w [<-|Hw]. { exists x. split; [left; auto|apply rt_refl]. }
        destruct (C w Hw) as (y & Hy & Hr). apply in_app_or in Hy. destruct Hy as [Hy|Hy].
        -- exists y. split; auto. right; auto.
        -- exists x. split; [left; auto|]. eapply rt_trans; [apply rt_step|exact Hr].
           unfold new in Hy. apply filter_In in Hy. apply Hy.
Qed.
End Whole.

(* ---------------- wholeModule and part_of *)
Lemma loaded_canon sc md : loaded sc md -> canon sc md.
Proof. intros (Hs & Hf). unfold canon. rewrite Hs. exact Hf. Qed.

Lemma whole_module_spec sc md : loaded sc md -> forall m, In m (whole_module sc md) <-> part_of sc md m.
Proof.
  intros L. pose proof (loaded_canon _ _ L) as Cn. destruct L as (Hs & Hf).
  unfold whole_module. rewrite Hs.
  destruct (whole_loop_spec sc (whole_fuel sc md) [] [md]) as (A & B & C).
  { simpl. rewrite unseen_nil_total. unfold whole_fuel. lia. }
  { intros x [<-|[]]. exact Cn. }
  intro m. split.
  - intro Hm. destruct (C m Hm) as (y & [<-|[]] & Hr).
    clear Hm. apply clos_rt_rtn1 in Hr. induction Hr as [|u v Huv _ IH]; [constructor|].
    unfold inc in Huv. apply included_spec in Huv. destruct Huv as (n & Hn & Hv).
    eapply part_incl; eauto.
  - induction 1 as [|m n s _ IH Hn Hs'].
    + destruct (A md (or_introl eq_refl)) as [H|H]; [discriminate|exact H].
    + destruct (B m IH s) as [H|H]; [|discriminate|exact H].
      apply included_spec. exists n. auto.
Qed.

Lemma module_names_spec sc n md :
  In n (module_names sc) /\ find_mod sc false n = Some md <-> loaded sc md /\ n = m_name md.
Proof.
  split.
  - intros (_ & Hf). destruct (find_mod_some sc _ _ _ Hf) as (Hin & Hs & Hn). subst n.
    split; [split|]; auto.
  - intros ((Hs & Hf) & ->). split; auto.
    unfold module_names. apply in_map. apply filter_In. split.
    + apply (find_mod_some sc _ _ _ Hf).
    + rewrite Hs. reflexivity.
Qed.

(* ---------------- the dictionary *)
Lemma dict_get_set d k e k' :
  dict_get (dict_set d k e) k' = if k =? k' then Some e else dict_get d k'.
Proof.
  induction d as [|[k0 e0] r IH]; cbn [dict_set dict_get].
  - reflexivity.
  - destruct (String.eqb_spec k0 k) as [->|N]; cbn [dict_get].
    + destruct (String.eqb_spec k k'); reflexivity.
    + rewrite IH. destruct (String.eqb_spec k0 k') as [->|N']; auto.
      destruct (String.eqb_spec k k'); [congruence|reflexivity].
Qed.

Definition set_all (d : dict) (l : list (key * entry)) : dict :=
  fold_left (fun d ke => dict_set d (fst ke) (snd ke)) l d.

Lemma set_all_get : forall l d k,
  (dict_get (set_all d l) k = dict_get d k /\ forall e, ~ In (k, e) l) \/
  (exists e, In (k, e) l /\ dict_get (set_all d l) k = Some e).
Proof.
  induction l as [|[k0 e0] l IH]; intros d k; cbn [set_all fold_left].
  - left. split; auto.
  - fold (set_all (dict_set d k0 e0) l). cbn [fst snd].
    destruct (IH (dict_set d k0 e0) k) as [(H1 & H2)|(e & H1 & H2)].
    + rewrite dict_get_set in H1. destruct (String.eqb_spec k0 k) as [->|N].
      * right. exists e0. split; [left; auto|exact H1].
      * left. split; auto. intros e [H|H]; [congruence|]. eapply H2; eauto.
    + right. exists e. split; [right; auto|exact H2].
Qed.

Lemma dict_keys_get d k : In k (dict_keys d) <-> dict_get d k <> None.
Proof.
  unfold dict_keys. induction d as [|[k0 e0] r IH]; cbn [map dict_get In fst].
  - split; [tauto|congruence].
  - destruct (String.eqb_spec k0 k) as [->|N].
    + split; [congruence|auto].
    + rewrite <- IH. split; [intros [H|H]; [congruence|auto]|auto].
Qed.

Definition ident_entries (sc : schema) (m : module) : list (key * entry) :=
  map (fun i => (key_of sc m i, (m, i))) (m_idents m).
Definition module_entries (sc : schema) (md : module) : list (key * entry) :=
  flat_map (ident_entries sc) (whole_module sc md).
Definition insertions (sc : schema) (names : list string) : list (key * entry) :=
  flat_map (fun n => match find_mod sc false n with None => [] | Some md => module_entries sc md end) names.

Lemma fold_left_flat_map {A B C} (f : A -> C -> A) (gg : B -> list C) l a :
  fold_left f (flat_map gg l) a = fold_left (fun a x => fold_left f (gg x) a) l a.
Proof.
  revert a. induction l as [|x l IH]; intro a; simpl; auto. rewrite fold_left_app. apply IH.
Qed.

Lemma fold_left_ext {A B} (f1 f2 : A -> B -> A) l a :
  (forall a x, f1 a x = f2 a x) -> fold_left f1 l a = fold_left f2 l a.
Proof. intro H. revert a. induction l; intro a0; simpl; auto. rewrite H. auto. Qed.

Lemma add_module_idents_eq sc d m : add_module_idents sc d m = set_all d (ident_entries sc m).
Proof.
  unfold add_module_idents, set_all, ident_entries.
  generalize (m_idents m) as l. intro l. revert d. induction l as [|i l IH]; intro d; simpl; auto.
Qed.

Lemma build_dict_eq o sc : build_dict o sc = set_all [] (insertions sc (o (module_names sc))).
Proof.
  unfold build_dict, set_all, insertions. rewrite fold_left_flat_map.
  apply fold_left_ext. intros d n. destruct (find_mod sc false n) as [md|]; [|reflexivity].
  unfold module_entries. rewrite fold_left_flat_map.
  apply fold_left_ext. intros d' m. apply add_module_idents_eq.
Qed.

Lemma oracle_in o (l : list string) x : is_oracle o -> (In x (o l) <-> In x l).
Proof.
  intro H. split; apply Permutation_in; [apply Permutation_sym|]; apply H.
Qed.

Lemma insertions_spec sc o k e : is_oracle o ->
  (In (k, e) (insertions sc (o (module_names sc))) <-> declared sc k e).
Proof.
  intro Ho. unfold insertions. rewrite in_flat_map. split.
  - intros (n & Hn & H). rewrite (oracle_in o _ _ Ho) in Hn.
    destruct (find_mod sc false n) as [md|] eqn:Ef; [|destruct H].
    destruct (proj1 (module_names_spec sc n md) (conj Hn Ef)) as (L & ->).
    unfold module_entries in H. apply in_flat_map in H. destruct H as (m & Hm & H).
    unfold ident_entries in H. apply in_map_iff in H. destruct H as (i & Hi & Hin).
    inversion Hi; subst. split; [|split]; cbn [fst snd]; auto.
    exists md. split; auto. apply (whole_module_spec sc md L). exact Hm.
  - destruct e as [m i]. intros ((md & L & P) & Hi & Hk). cbn [fst snd] in *.
    exists (m_name md).
    destruct (proj2 (module_names_spec sc (m_name md) md) (conj L eq_refl)) as (Hn & Hf).
    split; [apply (oracle_in o _ _ Ho); exact Hn|]. rewrite Hf.
    unfold module_entries. apply in_flat_map. exists m. split.
    + apply (whole_module_spec sc md L). exact P.
    + unfold ident_entries. apply in_map_iff. exists i. split; auto. subst k. reflexivity.
Qed.

(* what the dictionary holds, whatever the order in which ms.Modules was walked *)
Lemma dict_sound sc o k e : is_oracle o -> dict_get (build_dict o sc) k = Some e -> declared sc k e.
Proof.
  intros Ho H. rewrite build_dict_eq in H.
  destruct (set_all_get (insertions sc (o (module_names sc))) [] k) as [(H1 & _)|(e' & H1 & H2)].
  - rewrite H in H1. discriminate.
  - rewrite H in H2. inversion H2; subst. apply (insertions_spec sc o k e' Ho). exact H1.
Qed.

Lemma dict_complete sc o k e : is_oracle o -> declared sc k e ->
  exists e', dict_get (build_dict o sc) k = Some e' /\ declared sc k e'.
Proof.
  intros Ho H. apply (insertions_spec sc o k e Ho) in H. rewrite build_dict_eq.
  destruct (set_all_get (insertions sc (o (module_names sc))) [] k) as [(_ & H2)|(e' & H1 & H2)].
  - exfalso. eapply H2; eauto.
  - exists e'. split; auto. apply (insertions_spec sc o k e' Ho). exact H1.
Qed.

Lemma dict_spec sc o : is_oracle o -> consistent sc ->
  forall k e, dict_get (build_dict o sc) k = Some e <-> declared sc k e.
Proof.
  intros Ho Hc k e. split; [apply dict_sound; auto|].
  intro H. destruct (dict_complete sc o k e Ho H) as (e' & H1 & H2).
  rewrite H1. f_equal. eapply Hc; eauto.
Qed.

(* ---------------- findIdentityBase and resolves *)
Lemma split_colon_none s : split_colon s = None -> no_colon s.
Proof.
  induction s as [|c r IH]; simpl; auto.
  destruct (Ascii.eqb_spec c ":"%char) as [->|N]; [discriminate|].
  destruct (split_colon r) as [[a b']|]; [discriminate|]. auto.
Qed.

Lemma split_colon_some s p n : split_colon s = Some (p, n) -> s = (p ++ ":" ++ n)%string /\ no_colon p.
Proof.
  revert p. induction s as [|c r IH]; simpl; intros p H; [discriminate|].
  destruct (Ascii.eqb_spec c ":"%char) as [->|N].
  - inversion H; subst. simpl. auto.
  - destruct (split_colon r) as [[a b']|] eqn:E; [|discriminate]. inversion H; subst.
    destruct (IH a eq_refl) as (-> & Hn). simpl. auto.
Qed.

Lemma get_prefix_splits s : splits s (fst (get_prefix s)) (snd (get_prefix s)).
Proof.
  unfold get_prefix. destruct (split_colon s) as [[p n]|] eqn:E.
  - destruct (split_colon_some _ _ _ E) as (-> & Hn). simpl. constructor; auto.
  - simpl. constructor. apply split_colon_none; auto.
Qed.

Lemma no_colon_split s : no_colon s -> split_colon s = None.
Proof.
  induction s as [|c r IH]; simpl; auto. intros (N & H).
  destruct (Ascii.eqb_spec c ":"%char); [contradiction|]. rewrite IH; auto.
Qed.

Lemma split_at_colon' p n : no_colon p -> split_colon (p ++ String ":"%char n)%string = Some (p, n).
Proof.
  induction p as [|c r IH]; simpl.
  - auto.
  - intros (N & H). destruct (Ascii.eqb_spec c ":"%char); [contradiction|]. rewrite IH; auto.
Qed.

Lemma split_at_colon p n : no_colon p -> split_colon (p ++ ":" ++ n)%string = Some (p, n).
Proof. apply split_at_colon'. Qed.

Lemma splits_get_prefix s p n : splits s p n -> get_prefix s = (p, n).
Proof.
  unfold get_prefix. destruct 1 as [s H|p n H].
  - rewrite no_colon_split; auto.
  - rewrite split_at_colon; auto.
Qed.

Lemma import_target_spec imps pfx n : import_target imps pfx = Some n <-> first_import imps pfx n.
Proof.
  split.
  - induction imps as [|[p' n'] r IH]; simpl; [discriminate|].
    destruct (String.eqb_spec pfx p') as [->|N].
    + intro H; inversion H; subst. constructor.
    + intro H. constructor; auto.
  - induction 1 as [p n r|p' n' r p n N _ IH]; simpl.
    + rewrite String.eqb_refl. reflexivity.
    + destruct (String.eqb_spec p p'); [congruence|exact IH].
Qed.

Lemma has_key_defined d k : has_key d k = true <-> defined (dict_get d) k.
Proof.
  unfold has_key, defined. destruct (dict_get d k).
  - split; [intros _; discriminate|reflexivity].
  - split; [discriminate|intro H; exfalso; apply H; reflexivity].
Qed.

Lemma fib_spec sc d md s b :
  find_identity_base sc d md s = Some b <-> resolves sc (dict_get d) md s b.
Proof.
  unfold find_identity_base. split.
  - pose proof (get_prefix_splits s) as Hs. destruct (get_prefix s) as [pfx nm]. cbn [fst snd] in Hs.
    destruct ((pfx =? "") || (pfx =? m_prefix md)) eqn:El.
    + destruct (has_key d (mk_key (owner_name sc md) nm)) eqn:Ek; [|discriminate].
      intro H; inversion H; subst. exists pfx, nm, (owner_name sc md).
      split; auto. split; [|split; auto; apply has_key_defined; auto].
      apply tm_local. apply orb_prop in El. destruct El as [E|E]; apply String.eqb_eq in E; auto.
    + apply orb_false_elim in El. destruct El as (E1 & E2).
      apply String.eqb_neq in E1. apply String.eqb_neq in E2.
      destruct (import_target (m_imports md) pfx) as [n|] eqn:Ei; [|discriminate].
      destruct (find_mod sc false n) as [ext|] eqn:Ef; [|discriminate].
      destruct (has_key d (mk_key (m_name ext) nm)) eqn:Ek; [|discriminate].
      intro H; inversion H; subst. exists pfx, nm, (m_name ext).
      split; auto. split; [|split; auto; apply has_key_defined; auto].
      eapply tm_import; eauto. apply import_target_spec; auto.
  - intros (pfx & nm & mn & Hs & Ht & -> & Hd).
    rewrite (splits_get_prefix _ _ _ Hs). apply has_key_defined in Hd.
    destruct Ht as [Hl|n ext N1 N2 Hi Hf].
    + assert (El : (pfx =? "") || (pfx =? m_prefix md) = true).
      { destruct Hl as [->| ->]; [reflexivity|]. rewrite String.eqb_refl. apply orb_true_r. }
      rewrite El, Hd. reflexivity.
    + apply String.eqb_neq in N1. apply String.eqb_neq in N2. rewrite N1, N2. cbn [orb].
      apply import_target_spec in Hi. rewrite Hi, Hf, Hd. reflexivity.
Qed.

Lemma clos_trans_ext {A} (R1 R2 : relation A) : (forall x y, R1 x y <-> R2 x y) ->
  forall x y, clos_trans _ R1 x y <-> clos_trans _ R2 x y.
Proof.
  intros H x y. split; induction 1 as [a b' Hab|a b' c' _ IH1 _ IH2].
  - apply t_step. apply H; auto.
  - eapply t_trans; eauto.
  - apply t_step. apply H; auto.
  - eapply t_trans; eauto.
Qed.

Lemma nil_iff {A} (l : list A) : l = [] <-> forall e, ~ In e l.
Proof.
  split; [intros -> e []|]. destruct l as [|x l]; auto. intro H. exfalso. apply (H x). left; auto.
Qed.

(* ---------------- strict order of the spec *)
Lemma le_strict d a b : le_of (id_less d) a b -> a <> b -> key_lt (dict_get d) a b.
Proof.
  unfold le_of, id_less, key_lt, str_lt.
  change (name_of (dict_get d) a) with (ident_name d a).
  change (name_of (dict_get d) b) with (ident_name d b).
  destruct (String.eqb_spec (ident_name d b) (ident_name d a)) as [E|N]; cbn [negb]; intros H Nab.
  - right. split; auto. pose proof (str_ltb_conn _ _ H (fun F => Nab (eq_sym F))) as H'.
    unfold str_ltb in H'. destruct (String.compare a b); try discriminate; auto.
  - left. pose proof (str_ltb_conn _ _ H N) as H'.
    unfold str_ltb in H'. destruct (String.compare (ident_name d a) (ident_name d b)); try discriminate; auto.
Qed.

Lemma SS_strict d l : NoDup l -> StronglySorted (le_of (id_less d)) l -> sorted_keys (dict_get d) l.
Proof.
  unfold sorted_keys. induction l as [|a l IH]; intros N S; [constructor|].
  inversion N as [|? ? Na N']; subst. inversion S as [|? ? S' F]; subst.
  constructor; auto. rewrite Forall_forall in *. intros x Hx.
  apply le_strict; auto. intro; subst; contradiction.
Qed.

Lemma str_lt_irrefl a : ~ str_lt a a.
Proof.
  unfold str_lt. intro H. pose proof (String.compare_antisym a a) as H'. rewrite H in H'. discriminate.
Qed.

Lemma key_lt_irrefl g a : ~ key_lt g a a.
Proof. intros [H|(_ & H)]; eapply str_lt_irrefl; eauto. Qed.

Lemma key_lt_trans g a b c : key_lt g a b -> key_lt g b c -> key_lt g a c.
Proof.
  unfold key_lt, str_lt. intros [H1|(E1 & H1)] [H2|(E2 & H2)].
  - left. eapply str_lt_trans; eauto.
  - left. rewrite <- E2. auto.
  - left. rewrite E1. auto.
  - right. split; [congruence|]. eapply str_lt_trans; eauto.
Qed.

Lemma strict_sorted_unique g : forall l1 l2, sorted_keys g l1 -> sorted_keys g l2 ->
  (forall x, In x l1 <-> In x l2) -> l1 = l2.
Proof.
  unfold sorted_keys. induction l1 as [|a l1 IH]; intros l2 S1 S2 Heq.
  - destruct l2 as [|b l2]; auto. exfalso. apply (proj2 (Heq b)). left; auto.
  - destruct l2 as [|b l2]. { exfalso. apply (proj1 (Heq a)). left; auto. }
    inversion S1 as [|? ? S1' F1]; subst. inversion S2 as [|? ? S2' F2]; subst.
    rewrite Forall_forall in F1, F2.
    assert (a = b).
    { destruct (proj1 (Heq a) (or_introl eq_refl)) as [E|Hin]; [symmetry; exact E|].
      destruct (proj2 (Heq b) (or_introl eq_refl)) as [E|Hin']; [exact E|].
      exfalso. apply (key_lt_irrefl g a). eapply key_lt_trans; [apply F1; exact Hin'|apply F2; exact Hin]. }
    subst b. f_equal. apply IH; auto.
    intro x. split; intro Hx.
    + destruct (proj1 (Heq x) (or_intror Hx)) as [E|]; auto. subst.
      exfalso. apply (key_lt_irrefl g x). apply F1; auto.
    + destruct (proj2 (Heq x) (or_intror Hx)) as [E|]; auto. subst.
      exfalso. apply (key_lt_irrefl g x). apply F2; auto.
Qed.

Lemma sorted_keys_nodup g l : sorted_keys g l -> NoDup l.
Proof.
  unfold sorted_keys. induction 1 as [|a l S IH F]; constructor; auto.
  intro H. rewrite Forall_forall in F. apply (key_lt_irrefl g a). apply F; auto.
Qed.

(* ---------------- the direct-children relation is the edge relation *)
Section Master.
Variable sc : schema.
Variable d : dict.
Let g := dict_get d.
Let ks := dict_keys d.

Lemma bases_res_edge i b : g i <> None /\ In (Some b) (bases_res sc d i) <-> edge sc g i b.
Proof.
  unfold bases_res, edge. fold g. split.
  - intros (_ & H). destruct (g i) as [[md id]|]; [|destruct H].
    apply in_map_iff in H. destruct H as (s & Hs & Hin). exists md, id, s. split; auto. split; auto.
    apply fib_spec. exact Hs.
  - intros (md & id & s & Hg & Hin & Hr). rewrite Hg. split; [congruence|].
    apply in_map_iff. exists s. split; auto. apply fib_spec. exact Hr.
Qed.

Variable o2 o3 : list string -> list string.
Hypothesis Ho2 : is_oracle o2.
Hypothesis Ho3 : is_oracle o3.

Let st2 := pass2 sc d (o2 ks).
Let V0 := fst st2.

Lemma V0_edge b i : In i (V0 b) <-> edge sc g i b.
Proof.
  unfold V0, st2. rewrite (proj1 (pass2_spec sc d (o2 ks))). rewrite (oracle_in o2 _ _ Ho2).
  unfold ks. rewrite dict_keys_get. apply bases_res_edge.
Qed.

Lemma V0ks x c : In c (V0 x) -> In c ks.
Proof.
  rewrite V0_edge. intros (md & id & s & Hg & _). unfold ks. apply dict_keys_get. fold g. congruence.
Qed.

Lemma Dr_derived b i : clos_trans _ (Dr V0) b i <-> derived sc g b i.
Proof. unfold derived. apply clos_trans_ext. intros x y. unfold Dr, Rv. apply V0_edge. Qed.

Lemma derived_defined b i : derived sc g b i -> g b <> None.
Proof.
  intro H. apply clos_trans_t1n in H. destruct H as [y (md & id & s & _ & _ & (p & n & mn & _ & _ & _ & Hd))
                                                     |y z (md & id & s & _ & _ & (p & n & mn & _ & _ & _ & Hd)) _]; exact Hd.
Qed.

Definition base_error (e : err) : Prop :=
  exists k s md i, e = ErrBase k s /\ g k = Some (md, i) /\ In s (i_bases i) /\ ~ exists b, resolves sc g md s b.
Definition cycle_error (e : err) : Prop := exists i, e = ErrCycle i /\ derived sc g i i.

Lemma base_err_iff e : base_err sc d (o2 ks) e <-> base_error e.
Proof.
  unfold base_err, base_error. split; intros (k & s & md & i & He & H).
  - destruct H as (_ & Hg & Hs & Hn). exists k, s, md, i. repeat split; auto.
    intros (b & Hb). apply fib_spec in Hb. unfold fib in Hn. congruence.
  - destruct H as (Hg & Hs & Hn). exists k, s, md, i. split; auto. split.
    + apply (oracle_in o2 _ _ Ho2). unfold ks. apply dict_keys_get. fold g. congruence.
    + repeat split; auto. unfold fib. destruct (find_identity_base sc d md s) as [b|] eqn:E; auto.
      exfalso. apply Hn. exists b. apply fib_spec. exact E.
Qed.

Lemma cyc_err_iff e : cyc_err d V0 (o3 ks) e <-> cycle_error e.
Proof.
  unfold cyc_err, cycle_error. split; intros (i & He & H).
  - destruct H as (_ & _ & Hc). exists i. split; auto. apply Dr_derived. exact Hc.
  - exists i. split; auto. pose proof (derived_defined _ _ H) as Hd. split; [|split; auto].
    + apply (oracle_in o3 _ _ Ho3). unfold ks. apply dict_keys_get. exact Hd.
    + apply Dr_derived. exact H.
Qed.

Lemma master :
  exists V errs, pass3 (length ks + 1) d (o3 ks) st2 = Some (V, errs) /\
    (forall b, sorted_keys g (V b)) /\
    (forall b i, In i (V b) <-> derived sc g b i) /\
    (forall e, In e errs <-> base_error e \/ cycle_error e).
Proof.
  destruct (p3_fold d V0 ks V0ks (o3 ks) V0 (snd st2) (Jinv_V0 V0)) as (V & errs & E & J & G & _ & _ & X).
  exists V, errs. split. { rewrite <- E. f_equal. unfold V0. destruct st2; reflexivity. }
  assert (Hin : forall b i, In i (V b) <-> derived sc g b i).
  { intros b i. destruct (g b) as [en|] eqn:Eb.
    - destruct (G b) as (_ & _ & I).
      + apply (oracle_in o3 _ _ Ho3). unfold ks. apply dict_keys_get. fold g. congruence.
      + fold g. congruence.
      + rewrite I. apply Dr_derived.
    - split.
      + intro H. apply Dr_derived. apply J. exact H.
      + intro H. apply derived_defined in H. congruence. }
  split; [|split; [exact Hin|]].
  - intro b. destruct (g b) as [en|] eqn:Eb.
    + destruct (G b) as (N & S & _).
      * apply (oracle_in o3 _ _ Ho3). unfold ks. apply dict_keys_get. fold g. congruence.
      * fold g. congruence.
      * apply SS_strict; auto.
    + assert (V b = []) as ->; [|constructor].
      apply nil_iff. intros x Hx. apply Hin in Hx. apply derived_defined in Hx. congruence.
  - intro e. rewrite X. unfold st2. rewrite (proj2 (pass2_spec sc d (o2 ks))). rewrite base_err_iff, cyc_err_iff. tauto.
Qed.
End Master.

(* ---------------- link errors *)
Lemma link_errors_spec sc e : In e (link_errors sc) <-> exists m, visible sc m /\ In e (link_errors_of sc m).
Proof.
  unfold link_errors. rewrite in_flat_map. split.
  - intros (n & Hn & H). destruct (find_mod sc false n) as [md|] eqn:Ef; [|destruct H].
    destruct (proj1 (module_names_spec sc n md) (conj Hn Ef)) as (L & _).
    apply in_flat_map in H. destruct H as (m & Hm & He). exists m. split; auto.
    exists md. split; auto. apply (whole_module_spec sc md L). exact Hm.
  - intros (m & (md & L & P) & He). exists (m_name md).
    destruct (proj2 (module_names_spec sc (m_name md) md) (conj L eq_refl)) as (Hn & Hf).
    split; auto. rewrite Hf. apply in_flat_map. exists m. split; auto.
    apply (whole_module_spec sc md L). exact P.
Qed.

Lemma link_errors_of_in sc m e : In e (link_errors_of sc m) <->
  (exists n, e = ErrLink (m_name m) n /\ In n (m_includes m) /\ find_mod sc true n = None) \/
  (exists p n, e = ErrLink (m_name m) n /\ In (p, n) (m_imports m) /\ find_mod sc false n = None).
Proof.
  unfold link_errors_of. rewrite in_app_iff, !in_flat_map. split.
  - intros [(n & Hn & H)|([p n] & Hn & H)]; cbn [snd] in *.
    + left. destruct (find_mod sc true n) eqn:E; [destruct H|]. destruct H as [<-|[]]. eauto.
    + right. destruct (find_mod sc false n) eqn:E; [destruct H|]. destruct H as [<-|[]]. eauto.
  - intros [(n & -> & Hn & E)|(p & n & -> & Hn & E)].
    + left. exists n. split; auto. rewrite E. left; auto.
    + right. exists (p, n). split; auto. cbn [snd]. rewrite E. left; auto.
Qed.

Lemma link_errors_nil sc : link_errors sc = [] <-> links_ok sc.
Proof.
  rewrite nil_iff. unfold links_ok. split.
  - intros H m Hv. split.
    + intros n Hn E. apply (H (ErrLink (m_name m) n)). apply link_errors_spec. exists m. split; auto.
      apply link_errors_of_in. left. eauto.
    + intros p n Hn E. apply (H (ErrLink (m_name m) n)). apply link_errors_spec. exists m. split; auto.
      apply link_errors_of_in. right. eauto.
  - intros H e He. apply link_errors_spec in He. destruct He as (m & Hv & He).
    destruct (H m Hv) as (H1 & H2). apply link_errors_of_in in He.
    destruct He as [(n & _ & Hn & E)|(p & n & _ & Hn & E)].
    + eapply H1; eauto.
    + eapply H2; eauto.
Qed.

(* ---------------- the whole function *)
Definition graph_of (r : result) : lookup := dict_get (r_dict r).

Theorem resolve_spec sc om o2 o3 : is_oracle o2 -> is_oracle o3 ->
  exists r, resolve_identities om o2 o3 sc = Some r /\ r_dict r = build_dict om sc /\
    (forall b, sorted_keys (graph_of r) (r_values r b)) /\
    (forall b i, In i (r_values r b) <-> derived sc (graph_of r) b i) /\
    (forall e, In e (r_errors r) <->
               In e (link_errors sc) \/ base_error sc (r_dict r) e \/ cycle_error sc (r_dict r) e).
Proof.
  intros Ho2 Ho3. unfold resolve_identities.
  destruct (master sc (build_dict om sc) o2 o3 Ho2 Ho3) as (V & errs & E & S & I & X).
  rewrite E. eexists. split; [reflexivity|]. unfold graph_of. cbn [r_dict r_values r_errors].
  split; [reflexivity|]. split; [exact S|]. split; [exact I|].
  intro e. rewrite in_app_iff, X. tauto.
Qed.

Lemma resolve_inv sc om o2 o3 r : is_oracle o2 -> is_oracle o3 ->
  resolve_identities om o2 o3 sc = Some r ->
  r_dict r = build_dict om sc /\
  (forall b, sorted_keys (graph_of r) (r_values r b)) /\
  (forall b i, In i (r_values r b) <-> derived sc (graph_of r) b i) /\
  (forall e, In e (r_errors r) <->
             In e (link_errors sc) \/ base_error sc (r_dict r) e \/ cycle_error sc (r_dict r) e).
Proof.
  intros Ho2 Ho3 H. destruct (resolve_spec sc om o2 o3 Ho2 Ho3) as (r' & E & P). rewrite H in E.
  inversion E; subst. exact P.
Qed.

Theorem resolve_total sc om o2 o3 : is_oracle o2 -> is_oracle o3 ->
  exists r, resolve_identities om o2 o3 sc = Some r.
Proof. intros H2 H3. destruct (resolve_spec sc om o2 o3 H2 H3) as (r & E & _). eauto. Qed.

Section Run.
Variables (sc : schema) (om o2 o3 : list string -> list string) (r : result).
Hypothesis Ho2 : is_oracle o2.
Hypothesis Ho3 : is_oracle o3.
Hypothesis Hrun : resolve_identities om o2 o3 sc = Some r.
Let g := graph_of r.

Theorem values_sorted b : sorted_keys g (r_values r b).
Proof. apply (resolve_inv sc om o2 o3 r Ho2 Ho3 Hrun). Qed.

Theorem values_nodup b : NoDup (r_values r b).
Proof. eapply sorted_keys_nodup. apply values_sorted. Qed.

Theorem values_exact b i : In i (r_values r b) <-> derived sc g b i.
Proof. apply (resolve_inv sc om o2 o3 r Ho2 Ho3 Hrun). Qed.

Theorem values_not_self b : ~ derived sc g b b -> ~ In b (r_values r b).
Proof. intros H Hin. apply H. apply values_exact. exact Hin. Qed.

Theorem values_are_identities b i : In i (r_values r b) -> defined g i /\ defined g b.
Proof.
  intro H. apply values_exact in H. split.
  - apply clos_trans_tn1 in H. destruct H as [y (md & id & s & Hg & _)|y z (md & id & s & Hg & _) _];
      unfold defined; congruence.
  - unfold defined. apply clos_trans_t1n in H.
    destruct H as [y (md & id & s & _ & _ & (p & n & mn & _ & _ & _ & Hd))
                  |y z (md & id & s & _ & _ & (p & n & mn & _ & _ & _ & Hd)) _]; exact Hd.
Qed.

Lemma errors_iff e : In e (r_errors r) <->
  In e (link_errors sc) \/ base_error sc (r_dict r) e \/ cycle_error sc (r_dict r) e.
Proof. apply (resolve_inv sc om o2 o3 r Ho2 Ho3 Hrun). Qed.

Theorem error_undefined_base i md id s :
  g i = Some (md, id) -> In s (i_bases id) -> (~ exists b, resolves sc g md s b) ->
  In (ErrBase i s) (r_errors r).
Proof.
  intros Hg Hs Hn. apply errors_iff. right. left. exists i, s, md, id. auto.
Qed.

Theorem error_cycle i : derived sc g i i -> In (ErrCycle i) (r_errors r).
Proof. intro H. apply errors_iff. right. right. exists i. auto. Qed.

Theorem error_missing_link m n : visible sc m ->
  (In n (m_includes m) /\ find_mod sc true n = None) \/
  (exists p, In (p, n) (m_imports m) /\ find_mod sc false n = None) ->
  In (ErrLink (m_name m) n) (r_errors r).
Proof.
  intros Hv H. apply errors_iff. left. apply link_errors_spec. exists m. split; auto.
  apply link_errors_of_in. destruct H as [(H1 & H2)|(p & H1 & H2)]; [left|right]; eauto.
Qed.

Theorem errors_none_iff : r_errors r = [] <-> links_ok sc /\ all_resolve sc g /\ acyclic sc g.
Proof.
  rewrite nil_iff. split.
  - intro H. split; [|split].
    + apply link_errors_nil. apply nil_iff. intros e He. apply (H e). apply errors_iff. auto.
    + intros i md id s Hg Hs.
      destruct (find_identity_base sc (r_dict r) md s) as [b|] eqn:E.
      * exists b. apply fib_spec. exact E.
      * exfalso. apply (H (ErrBase i s)). apply error_undefined_base with md id; auto.
        intros (b & Hb). apply fib_spec in Hb. congruence.
    + intros i Hc. apply (H (ErrCycle i)). apply error_cycle. exact Hc.
  - intros (Hl & Hr & Ha) e He. apply errors_iff in He. destruct He as [He|[He|He]].
    + apply link_errors_nil in Hl. rewrite Hl in He. destruct He.
    + destruct He as (k & s & md & id & _ & Hg & Hs & Hn). apply Hn. eapply Hr; eauto.
    + destruct He as (i & _ & Hc). eapply Ha; eauto.
Qed.

Theorem identityref_spec sub n s b :
  identityref_base sc (r_dict r) sub n s = Some b <->
  exists md, find_mod sc sub n = Some md /\ resolves sc g md s b.
Proof.
  unfold identityref_base. split.
  - destruct (find_mod sc sub n) as [md|]; [|discriminate]. intro H. exists md. split; auto.
    apply fib_spec. exact H.
  - intros (md & -> & H). apply fib_spec. exact H.
Qed.

Theorem dictionary_spec : is_oracle om -> consistent sc -> forall k e, g k = Some e <-> declared sc k e.
Proof.
  intros Hom Hc k e. unfold g, graph_of.
  rewrite (proj1 (resolve_inv sc om o2 o3 r Ho2 Ho3 Hrun)). apply dict_spec; auto.
Qed.

Theorem dictionary_sound : is_oracle om -> forall k e, g k = Some e -> declared sc k e.
Proof.
  intros Hom k e. unfold g, graph_of.
  rewrite (proj1 (resolve_inv sc om o2 o3 r Ho2 Ho3 Hrun)). apply dict_sound; auto.
Qed.

Theorem dictionary_complete : is_oracle om -> forall k e, declared sc k e -> defined g k.
Proof.
  intros Hom k e H. unfold defined, g, graph_of.
  rewrite (proj1 (resolve_inv sc om o2 o3 r Ho2 Ho3 Hrun)).
  destruct (dict_complete sc om k e Hom H) as (e' & -> & _). discriminate.
Qed.
End Run.

(* ---------------- the spec only reads the lookup function pointwise *)
Section Ext.
Variable sc : schema.
Variables g1 g2 : lookup.
Hypothesis Hg : forall k, g1 k = g2 k.

Lemma resolves_ext md s b : resolves sc g1 md s b -> resolves sc g2 md s b.
Proof.
  intros (p & n & mn & H1 & H2 & H3 & H4). exists p, n, mn. repeat split; auto.
  unfold defined in *. rewrite <- Hg. exact H4.
Qed.

Lemma edge_ext i b : edge sc g1 i b -> edge sc g2 i b.
Proof.
  intros (md & id & s & H1 & H2 & H3). exists md, id, s. rewrite <- Hg. repeat split; auto.
  apply resolves_ext; auto.
Qed.

Lemma name_of_ext k : name_of g1 k = name_of g2 k.
Proof. unfold name_of. rewrite Hg. reflexivity. Qed.

Lemma key_lt_ext a b : key_lt g1 a b -> key_lt g2 a b.
Proof. unfold key_lt. rewrite !name_of_ext. auto. Qed.

Lemma sorted_keys_ext l : sorted_keys g1 l -> sorted_keys g2 l.
Proof.
  unfold sorted_keys. induction 1 as [|a l S IH F]; constructor; auto.
  rewrite Forall_forall in *. intros x Hx. apply key_lt_ext. auto.
Qed.
End Ext.

Lemma derived_ext sc g1 g2 : (forall k, g1 k = g2 k) -> forall b i, derived sc g1 b i <-> derived sc g2 b i.
Proof.
  intros Hg. unfold derived. apply clos_trans_ext. intros x y. split; apply edge_ext; auto.
Qed.

Lemma all_resolve_ext sc g1 g2 : (forall k, g1 k = g2 k) -> all_resolve sc g1 -> all_resolve sc g2.
Proof.
  intros Hg H i md id s Hi Hs. rewrite <- Hg in Hi. destruct (H i md id s Hi Hs) as (b & Hb).
  exists b. eapply resolves_ext; eauto.
Qed.

Lemma acyclic_ext sc g1 g2 : (forall k, g1 k = g2 k) -> acyclic sc g1 -> acyclic sc g2.
Proof. intros Hg H i Hc. apply (H i). apply (derived_ext sc g1 g2 Hg). exact Hc. Qed.

(* ---------------- the result is a function of the schema alone *)
Theorem oracle_independent sc om o2 o3 om' o2' o3' r r' :
  is_oracle om -> is_oracle o2 -> is_oracle o3 -> is_oracle om' -> is_oracle o2' -> is_oracle o3' ->
  consistent sc ->
  resolve_identities om o2 o3 sc = Some r -> resolve_identities om' o2' o3' sc = Some r' ->
  (forall k, graph_of r k = graph_of r' k) /\
  (forall b, r_values r b = r_values r' b) /\
  (r_errors r = [] <-> r_errors r' = []).
Proof.
  intros Hm H2 H3 Hm' H2' H3' Hc E E'.
  assert (Hg : forall k, graph_of r k = graph_of r' k).
  { intro k. pose proof (dictionary_spec sc om o2 o3 r H2 H3 E Hm Hc k) as A.
    pose proof (dictionary_spec sc om' o2' o3' r' H2' H3' E' Hm' Hc k) as B.
    destruct (graph_of r k) as [e|] eqn:E1.
    - symmetry. apply B. apply A. reflexivity.
    - destruct (graph_of r' k) as [e'|] eqn:E2; auto.
      assert (None = Some e') as F; [|discriminate]. apply A. apply B. reflexivity. }
  assert (Hg' : forall k, graph_of r' k = graph_of r k) by (intro; symmetry; apply Hg).
  split; [exact Hg|]. split.
  - intro b. apply (strict_sorted_unique (graph_of r)).
    + apply (values_sorted sc om o2 o3 r H2 H3 E).
    + apply (sorted_keys_ext (graph_of r') (graph_of r) Hg'). apply (values_sorted sc om' o2' o3' r' H2' H3' E').
    + intro x. rewrite (values_exact sc om o2 o3 r H2 H3 E), (values_exact sc om' o2' o3' r' H2' H3' E').
      apply derived_ext. exact Hg.
  - rewrite (errors_none_iff sc om o2 o3 r H2 H3 E), (errors_none_iff sc om' o2' o3' r' H2' H3' E').
    split; intros (A & B & C); (split; [exact A|split]).
    + apply (all_resolve_ext sc _ _ Hg B). + apply (acyclic_ext sc _ _ Hg C).
    + apply (all_resolve_ext sc _ _ Hg' B). + apply (acyclic_ext sc _ _ Hg' C).
Qed.

(* consistency from a computation on the insertion list *)
Lemma ord_id_oracle : is_oracle ord_id.
Proof. intro l. apply Permutation_refl. Qed.
Lemma ord_rev_oracle : is_oracle ord_rev.
Proof. intro l. apply Permutation_rev. Qed.

Lemma consistent_nodup sc : NoDup (map fst (insertions sc (module_names sc))) -> consistent sc.
Proof.
  intros N k e1 e2 H1 H2.
  apply (insertions_spec sc ord_id k e1 ord_id_oracle) in H1.
  apply (insertions_spec sc ord_id k e2 ord_id_oracle) in H2. unfold ord_id in *.
  revert N H1 H2. generalize (insertions sc (module_names sc)) as l.
  induction l as [|[k0 e0] l IH]; intros N H1 H2; [destruct H1|].
  cbn [map fst] in N. inversion N as [|? ? Nk N']; subst.
  destruct H1 as [H1|H1], H2 as [H2|H2].
  - congruence.
  - inversion H1; subst. exfalso. apply Nk. apply in_map_iff. exists (k, e2). auto.
  - inversion H2; subst. exfalso. apply Nk. apply in_map_iff. exists (k, e1). auto.
  - apply IH; auto.
Qed.
