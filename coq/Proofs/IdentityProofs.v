(* C11 -- proofs about the model of identity resolution (Model/Identity.v) against Spec/C11.v.

   Layout: order on strings, the stable sort, the lexicographic order of the sort keys; appendIfNotIn /
   addChildren (specification of the depth-first closure for an arbitrary Values table, cyclic or not, and
   sufficiency of the fuel); the second loop of resolveIdentities (direct children, base errors); the third loop
   (closure over a table that mixes already closed and not yet closed lists: invariant
   direct <= Values <= derived; a declaration filed under several keys is closed several times); the two maps of
   Modules, sortedModules, wholeModule = reachability through include statements (for schemas Modules.add
   accepts: [wf_schema]); findIdentityBase = [resolves]; the theorems about [resolve_identities] for all
   iteration oracles; the dictionary = [filed], the owners table = [owner_of]. *)
From Coq Require Import Ascii String List Bool Arith Lia NArith Sorting.Sorted Permutation Relations Operators_Properties.
From GY Require Import Model.Identity Spec.C11.
Import ListNotations.
Local Open Scope string_scope.
Local Open Scope list_scope.

(* ---------------- string order *)
Lemma ascii_compare_trans_lt a b c : Ascii.compare a b = Lt -> Ascii.compare b c = Lt -> Ascii.compare a c = Lt.
Proof. unfold Ascii.compare. rewrite !N.compare_lt_iff. lia. Qed.

Lemma str_lt_trans : forall a b c, String.compare a b = Lt -> String.compare b c = Lt -> String.compare a c = Lt.
Proof.
  induction a as [|x a IH]; intros [|y b] [|z c]; simpl; try congruence.
  destruct (Ascii.compare x y) eqn:Exy; try congruence.
  - apply Ascii.compare_eq_iff in Exy; subst y.
    destruct (Ascii.compare x z) eqn:Exz; try congruence. intros; eapply IH; eauto.
  - destruct (Ascii.compare y z) eqn:Eyz; try congruence.
    + apply Ascii.compare_eq_iff in Eyz; subst z. rewrite Exy. auto.
    + rewrite (ascii_compare_trans_lt _ _ _ Exy Eyz). auto.
Qed.

Lemma str_ltb_irrefl a : str_ltb a a = false.
Proof.
  unfold str_ltb. destruct (String.compare a a) eqn:E; auto.
  pose proof (String.compare_antisym a a) as H. rewrite E in H. discriminate.
Qed.

Lemma str_ltb_trans a b c : str_ltb a b = true -> str_ltb b c = true -> str_ltb a c = true.
Proof.
  unfold str_ltb. destruct (String.compare a b) eqn:E1; try discriminate.
  destruct (String.compare b c) eqn:E2; try discriminate.
  rewrite (str_lt_trans _ _ _ E1 E2). auto.
Qed.

Lemma str_ltb_asym a b : str_ltb a b = true -> str_ltb b a = false.
Proof.
  unfold str_ltb. rewrite (String.compare_antisym a b).
  destruct (String.compare b a); simpl; auto; discriminate.
Qed.

Lemma str_ltb_total a b : str_ltb a b = false -> str_ltb b a = false -> a = b.
Proof.
  unfold str_ltb. rewrite (String.compare_antisym a b).
  destruct (String.compare b a) eqn:E; simpl; try discriminate.
  intros. symmetry. apply String.compare_eq_iff; auto.
Qed.

Section Sort.
Variable less : key -> key -> bool.
Definition le_of (a b : key) : Prop := less b a = false.
Hypothesis less_asym : forall a b, less a b = true -> less b a = false.
Hypothesis le_trans : forall a b c, le_of a b -> le_of b c -> le_of a c.

Lemma insert_perm x l : Permutation (x :: l) (insert_sorted less x l).
Proof.
  induction l as [|y r IH]; simpl; auto.
  destruct (less x y); auto.
  eapply perm_trans; [apply perm_swap|]. constructor. exact IH.
Qed.

Lemma sort_perm l : Permutation l (stable_sort less l).
Proof.
  induction l as [|x l IH]; simpl; auto.
  eapply perm_trans; [|apply insert_perm]. constructor; exact IH.
Qed.

Lemma insert_in x y l : In y (insert_sorted less x l) <-> y = x \/ In y l.
Proof.
  split; intro H.
  - apply Permutation_sym in H || idtac.
    pose proof (Permutation_in y (Permutation_sym (insert_perm x l)) H) as H'. simpl in H'. intuition.
  - apply (Permutation_in y (insert_perm x l)). simpl. intuition.
Qed.

Lemma insert_sorted_SS x l : StronglySorted le_of l -> StronglySorted le_of (insert_sorted less x l).
Proof.
  induction 1 as [|y r Hs IH Hy]; simpl.
  - constructor; constructor.
  - destruct (less x y) eqn:E.
    + constructor. { constructor; auto. }
      constructor. { apply less_asym; auto. }
      rewrite Forall_forall in *. intros z Hz. eapply le_trans; [|apply Hy; exact Hz]. apply less_asym; auto.
    + constructor; auto. rewrite Forall_forall in *. intros z Hz.
      apply insert_in in Hz. destruct Hz as [->|Hz]; auto.
Qed.

Lemma sort_sorted l : StronglySorted le_of (stable_sort less l).
Proof. induction l; simpl. constructor. apply insert_sorted_SS; auto. Qed.

Lemma sort_in l x : In x (stable_sort less l) <-> In x l.
Proof. split; apply Permutation_in; [apply Permutation_sym|]; apply sort_perm. Qed.

Lemma sort_nodup l : NoDup l -> NoDup (stable_sort less l).
Proof. intro H. eapply Permutation_NoDup; [apply sort_perm|exact H]. Qed.

End Sort.

(* the order used by resolveIdentities: lexicographic on the list of compared fields *)
Lemma str_ltb_conn a b : str_ltb a b = false -> a <> b -> str_ltb b a = true.
Proof.
  intros H N. destruct (str_ltb b a) eqn:E; auto. exfalso. apply N. apply str_ltb_total; auto.
Qed.

Lemma lex_irrefl : forall a, lex_ltb a a = false.
Proof. induction a as [|x a IH]; simpl; auto. rewrite String.eqb_refl. simpl. exact IH. Qed.

Lemma lex_trans : forall a b c, lex_ltb a b = true -> lex_ltb b c = true -> lex_ltb a c = true.
Proof.
  induction a as [|x a IH]; intros [|y b] [|z c]; simpl; try congruence.
  destruct (String.eqb_spec x y) as [Exy|Nxy]; destruct (String.eqb_spec y z) as [Eyz|Nyz];
    destruct (String.eqb_spec x z) as [Exz|Nxz]; cbn [negb]; subst; try congruence.
  - apply IH.
  - intros H1 H2. rewrite (str_ltb_asym _ _ H1) in H2. discriminate.
  - intros H1 H2. eapply str_ltb_trans; eauto.
Qed.

Lemma lex_conn : forall a b, lex_ltb a b = false -> lex_ltb b a = false -> a = b.
Proof.
  induction a as [|x a IH]; intros [|y b]; simpl; try congruence.
  rewrite (String.eqb_sym y x). destruct (String.eqb_spec x y) as [->|N]; simpl.
  - intros H1 H2. f_equal. apply IH; auto.
  - intros H1 H2. exfalso. apply N. apply str_ltb_total; auto.
Qed.

Lemma lex_asym a b : lex_ltb a b = true -> lex_ltb b a = false.
Proof.
  intro H. destruct (lex_ltb b a) eqn:E; auto.
  pose proof (lex_trans _ _ _ H E) as F. rewrite lex_irrefl in F. discriminate.
Qed.

(* negative transitivity: "not less" is transitive *)
Lemma lex_le_trans a b c : lex_ltb b a = false -> lex_ltb c b = false -> lex_ltb c a = false.
Proof.
  intros H1 H2. destruct (lex_ltb c a) eqn:E; auto. exfalso.
  destruct (lex_ltb a b) eqn:Eab.
  - rewrite (lex_trans _ _ _ E Eab) in H2. discriminate.
  - assert (a = b) by (apply lex_conn; auto). subst. congruence.
Qed.

Lemma id_less_asym sc d a b : id_less sc d a b = true -> id_less sc d b a = false.
Proof. unfold id_less. apply lex_asym. Qed.

Lemma id_le_trans sc d a b c :
  le_of (id_less sc d) a b -> le_of (id_less sc d) b c -> le_of (id_less sc d) a c.
Proof. unfold le_of, id_less. apply lex_le_trans. Qed.

(* ---------------- appendIfNotIn *)
Lemma ain_in ids r : In r ids -> append_if_not_in ids r = ids.
Proof.
  induction ids as [|x l IH]; simpl; [tauto|].
  intros H. destruct (String.eqb_spec x r) as [E|N]; auto.
  destruct H as [H|H]; [contradiction|]. rewrite IH; auto.
Qed.

Lemma ain_notin ids r : ~ In r ids -> append_if_not_in ids r = ids ++ [r].
Proof.
  induction ids as [|x l IH]; simpl; auto.
  intros H. destruct (String.eqb_spec x r) as [E|N]; [tauto|]. rewrite IH; auto.
Qed.

Lemma nodup_snoc (l : list key) r : NoDup l -> ~ In r l -> NoDup (l ++ [r]).
Proof.
  intros D N. apply NoDup_rev in D. rewrite <- (rev_involutive (l ++ [r])). apply NoDup_rev.
  rewrite rev_app_distr. simpl. constructor; auto. rewrite <- in_rev. exact N.
Qed.

Definition fold_ac (f : nat) (V : vals) (cs : list key) (acc : option (list key)) : option (list key) :=
  fold_left (fun acc ch => obind_list (add_children f V ch) acc) cs acc.

Lemma add_children_S f V r ids :
  add_children (S f) V r ids =
  if in_dec string_dec r ids then Some ids else fold_ac f V (V r) (Some (ids ++ [r])).
Proof.
  cbn [add_children]. destruct (in_dec string_dec r ids) as [H|H].
  - rewrite (ain_in _ _ H). rewrite Nat.eqb_refl. reflexivity.
  - rewrite (ain_notin _ _ H). rewrite app_length. simpl.
    destruct (Nat.eqb_spec (length ids + 1) (length ids)); [lia|]. reflexivity.
Qed.

Lemma fold_ac_none f V cs : fold_ac f V cs None = None.
Proof. induction cs; simpl; auto. Qed.

Lemma fold_ac_cons f V c cs ids :
  fold_ac f V (c :: cs) (Some ids) = fold_ac f V cs (add_children f V c ids).
Proof. reflexivity. Qed.

Lemma close_eq f V i : close f V i = fold_ac f V (V i) (Some []).
Proof. reflexivity. Qed.

Section Closure.
Variable V : vals.
Definition Rv (x c : key) : Prop := In c (V x).

Definition ac_post (cs ids ids' : list key) : Prop :=
  incl ids ids' /\
  (forall c, In c cs -> In c ids') /\
  (forall x, In x ids' -> ~ In x ids ->
     (forall c, Rv x c -> In c ids') /\ exists c0, In c0 cs /\ clos_refl_trans _ Rv c0 x) /\
  (NoDup ids -> NoDup ids').

Lemma ac_post_refl ids : ac_post [] ids ids.
Proof.
  split; [apply incl_refl|]. split; [intros c []|]. split; [tauto|auto].
Qed.

Lemma ac_post_comp cs1 cs2 ids ids1 ids' :
  ac_post cs1 ids ids1 -> ac_post cs2 ids1 ids' -> ac_post (cs1 ++ cs2) ids ids'.
Proof.
  intros (I1 & R1 & N1 & D1) (I2 & R2 & N2 & D2).
  split; [eapply incl_tran; eauto|].
  split. { intros c Hc. apply in_app_or in Hc. destruct Hc; auto. }
  split; [|auto].
  intros x Hx Hn.
  destruct (in_dec string_dec x ids1) as [H1|H1].
  - destruct (N1 x H1 Hn) as (C & c0 & Hc0 & Hr). split.
    + intros c Hc. apply I2. auto.
    + exists c0. split; auto. apply in_or_app; auto.
  - destruct (N2 x Hx H1) as (C & c0 & Hc0 & Hr). split; auto.
    exists c0. split; auto. apply in_or_app; auto.
Qed.

Lemma fold_spec f :
  (forall r ids ids', add_children f V r ids = Some ids' -> ac_post [r] ids ids') ->
  forall cs ids ids', fold_ac f V cs (Some ids) = Some ids' -> ac_post cs ids ids'.
Proof.
  intros Hf. induction cs as [|c cs IH]; intros ids ids' H.
  - simpl in H. inversion H; subst. apply ac_post_refl.
  - rewrite fold_ac_cons in H.
    destruct (add_children f V c ids) as [ids1|] eqn:E; [|rewrite fold_ac_none in H; discriminate].
    change (c :: cs) with ([c] ++ cs). eapply ac_post_comp; eauto.
Qed.

Lemma ac_spec : forall f r ids ids', add_children f V r ids = Some ids' -> ac_post [r] ids ids'.
Proof.
  induction f as [|f IH]; intros r ids ids' H; [discriminate|].
  rewrite add_children_S in H.
  destruct (in_dec string_dec r ids) as [Hin|Hnin].
  - inversion H; subst.
    split; [apply incl_refl|]. split; [intros c [<-|[]]; auto|]. split; [tauto|auto].
  - apply (fold_spec f IH) in H. destruct H as (I & Rt & N & D).
    assert (Hr : In r ids'). { apply I. apply in_or_app. right; left; auto. }
    split. { intros x Hx. apply I. apply in_or_app; auto. }
    split. { intros c [<-|[]]; auto. }
    split.
    + intros x Hx Hn. destruct (string_dec x r) as [->|Nx].
      * split. { intros c Hc. apply Rt. exact Hc. }
        exists r. split; [left; auto|apply rt_refl].
      * assert (Hn' : ~ In x (ids ++ [r])).
        { intro Hc. apply in_app_or in Hc. destruct Hc as [Hc|[Hc|[]]]; auto. }
        destruct (N x Hx Hn') as (C & c0 & Hc0 & Hreach). split; auto.
        exists r. split; [left; auto|].
        eapply rt_trans; [apply rt_step; exact Hc0|exact Hreach].
    + intros Hd. apply D. apply nodup_snoc; auto.
Qed.
End Closure.

Lemma step_rt_t {A} (R : relation A) x y z : R x y -> clos_refl_trans _ R y z -> clos_trans _ R x z.
Proof.
  intros H Hr. apply clos_rt_rtn1 in Hr. induction Hr as [|u v Huv _ IH].
  - apply t_step; auto.
  - eapply t_trans; [exact IH|apply t_step; auto].
Qed.

Lemma t_rt {A} (R : relation A) x y : clos_trans _ R x y -> clos_refl_trans _ R x y.
Proof. induction 1; [apply rt_step; auto|eapply rt_trans; eauto]. Qed.

Lemma close_spec f V i nv :
  close f V i = Some nv -> NoDup nv /\ forall x, In x nv <-> clos_trans _ (Rv V) i x.
Proof.
  rewrite close_eq. intro H. apply (fold_spec V f (ac_spec V f)) in H.
  destruct H as (_ & Rt & N & D). split; [apply D; constructor|].
  intro x. split.
  - intro Hx. destruct (N x Hx (fun F => F)) as (_ & c0 & Hc0 & Hr).
    eapply step_rt_t; eauto.
  - intro Ht. apply clos_trans_t1n in Ht.
    assert (Hcl : forall y z, clos_refl_trans _ (Rv V) y z -> In y nv -> In z nv).
    { intros y z Hr. apply clos_rt_rt1n in Hr. induction Hr as [|u v w Huv _ IH]; auto.
      intro Hu. apply IH. destruct (N u Hu (fun F => F)) as (C & _). apply C; auto. }
    destruct Ht as [y Hy|y z Hy Hyz].
    + apply Rt; auto.
    + apply (Hcl y); [|apply Rt; auto]. apply t_rt. apply clos_t1n_trans. exact Hyz.
Qed.

Section Fuel.
Variable V : vals.
Variable ks : list key.
Hypothesis Vks : forall x c, In c (V x) -> In c ks.

Lemma post_incl cs ids ids' : ac_post V cs ids ids' -> incl cs ks -> incl ids ks -> incl ids' ks.
Proof.
  intros (_ & _ & N & _) Hc Hi x Hx.
  destruct (in_dec string_dec x ids) as [H|H]; [auto|].
  destruct (N x Hx H) as (_ & c0 & Hc0 & Hr).
  apply clos_rt_rtn1 in Hr. destruct Hr as [|u v Huv _]; [auto|]. eapply Vks; eauto.
Qed.

Lemma fuel_fold f :
  (forall r ids, NoDup ids -> incl ids ks -> In r ks -> length ks - length ids < f ->
                 exists ids', add_children f V r ids = Some ids') ->
  forall cs ids, incl cs ks -> NoDup ids -> incl ids ks -> length ks - length ids < f ->
                 exists ids', fold_ac f V cs (Some ids) = Some ids'.
Proof.
  intros Hf. induction cs as [|c cs IH]; intros ids Hc Hd Hi Hl.
  - exists ids. reflexivity.
  - rewrite fold_ac_cons.
    destruct (Hf c ids Hd Hi (Hc c (or_introl eq_refl)) Hl) as (ids1 & E). rewrite E.
    pose proof (ac_spec V f c ids ids1 E) as P.
    assert (Hi1 : incl ids1 ks).
    { eapply post_incl; eauto. intros y [<-|[]]. apply Hc; left; auto. }
    destruct P as (I & _ & _ & D).
    apply IH; auto.
    + intros y Hy. apply Hc; right; auto.
    + pose proof (NoDup_incl_length Hd I). lia.
Qed.

Lemma fuel_ok : forall f r ids, NoDup ids -> incl ids ks -> In r ks -> length ks - length ids < f ->
  exists ids', add_children f V r ids = Some ids'.
Proof.
  induction f as [|f IH]; intros r ids Hd Hi Hr Hl; [lia|].
  rewrite add_children_S. destruct (in_dec string_dec r ids) as [Hin|Hnin]; [eauto|].
  assert (Hd1 : NoDup (ids ++ [r])) by (apply nodup_snoc; auto).
  assert (Hi1 : incl (ids ++ [r]) ks).
  { intros y Hy. apply in_app_or in Hy. destruct Hy as [Hy|[<-|[]]]; auto. }
  pose proof (NoDup_incl_length Hd1 Hi1) as L. rewrite app_length in L. simpl in L.
  apply (fuel_fold f IH); auto.
  - intros c Hc. eapply Vks; eauto.
  - rewrite app_length. simpl. lia.
Qed.

Lemma close_total i : exists nv, close (length ks + 1) V i = Some nv.
Proof.
  rewrite close_eq. apply (fuel_fold _ (fuel_ok _)).
  - intros c Hc. eapply Vks; eauto.
  - constructor.
  - intros x [].
  - simpl. lia.
Qed.
End Fuel.

Lemma vset_same V k l : vset V k l k = l.
Proof. unfold vset. rewrite String.eqb_refl. reflexivity. Qed.
Lemma vset_other V k l x : x <> k -> vset V k l x = V x.
Proof. unfold vset. intro H. destruct (String.eqb_spec x k); [contradiction|reflexivity]. Qed.

Lemma mem_In x l : mem x l = true <-> In x l.
Proof.
  unfold mem. rewrite existsb_exists. split.
  - intros (y & Hy & E). apply String.eqb_eq in E. subst; auto.
  - intro H. exists x. split; auto. apply String.eqb_refl.
Qed.

Section Passes.
Variable sc : schema.
Variable d : dict.
Variable t : owners_table.
Variable ko : key_owners.

Definition fib (o : option module) (md : module) (s : string) : option entry :=
  find_identity_base_in sc d t o md s.

(* ---------------- pass 2 *)
Lemma p2_base_fold e o : forall bs st,
  let st' := fold_left (pass2_base sc d t e o) bs st in
  (forall b x, In x (fst st' b) <->
     In x (fst st b) \/ (x = did_of e /\ exists s be, In s bs /\ fib o (fst e) s = Some be /\ did_of be = b)) /\
  (forall er, In er (snd st') <->
     In er (snd st) \/ exists s, er = ErrBase (did_of e) s /\ In s bs /\ fib o (fst e) s = None).
Proof.
  induction bs as [|s bs IH]; intros st; cbn [fold_left].
  - split; intros; simpl.
    + split; [auto|]. intros [H|(_ & s & be & [] & _)]; auto.
    + split; [auto|]. intros [H|(s & _ & [] & _)]; auto.
  - specialize (IH (pass2_base sc d t e o st s)). cbv zeta in IH. destruct IH as (IH1 & IH2).
    split.
    + intros b x. rewrite IH1. unfold pass2_base. change (find_identity_base_in sc d t o (fst e) s) with (fib o (fst e) s).
      destruct (fib o (fst e) s) as [be0|] eqn:E; cbn [fst snd].
      * unfold vset. destruct (String.eqb_spec b (did_of be0)) as [->|N].
        -- rewrite in_app_iff. cbn [In]. split.
           ++ intros [[H|[<-|[]]]|(Hx & s' & be & Hs & Hf & Hb)]; auto.
              ** right. split; auto. exists s, be0. simpl; auto.
              ** right. split; auto. exists s', be. simpl; auto.
           ++ intros [H|(Hx & s' & be & [<-|Hs] & Hf & Hb)]; auto;
                right; split; auto; exists s', be; auto.
        -- split.
           ++ intros [H|(Hx & s' & be & Hs & Hf & Hb)]; auto.
              right. split; auto. exists s', be. simpl; auto.
           ++ intros [H|(Hx & s' & be & [<-|Hs] & Hf & Hb)]; auto.
              ** exfalso. apply N. rewrite E in Hf. inversion Hf; subst. reflexivity.
              ** right. split; auto. exists s', be. auto.
      * split.
        -- intros [H|(Hx & s' & be & Hs & Hf & Hb)]; auto.
           right. split; auto. exists s', be. simpl; auto.
        -- intros [H|(Hx & s' & be & [<-|Hs] & Hf & Hb)]; auto.
           ++ congruence.
           ++ right. split; auto. exists s', be. auto.
    + intros er. rewrite IH2. unfold pass2_base. change (find_identity_base_in sc d t o (fst e) s) with (fib o (fst e) s).
      destruct (fib o (fst e) s) as [be0|] eqn:E; cbn [fst snd].
      * split.
        -- intros [H|(s' & He & Hs & Hn)]; auto. right. exists s'. simpl; auto.
        -- intros [H|(s' & He & [<-|Hs] & Hn)]; auto.
           ++ congruence.
           ++ right. exists s'. auto.
      * rewrite in_app_iff. cbn [In]. split.
        -- intros [[H|[<-|[]]]|(s' & He & Hs & Hn)]; auto.
           ++ right. exists s. simpl. auto.
           ++ right. exists s'. simpl; auto.
        -- intros [H|(s' & He & [<-|Hs] & Hn)]; auto.
           right. exists s'. auto.
Qed.

(* x is registered as a direct child of b while the keys of order are visited *)
Definition direct (order : list key) (b x : key) : Prop :=
  exists k e s be, In k order /\ dict_get d k = Some e /\ x = did_of e /\ In s (i_bases (snd e)) /\
                   fib (dict_get ko k) (fst e) s = Some be /\ did_of be = b.

Definition base_err (order : list key) (er : err) : Prop :=
  exists k e s, er = ErrBase (did_of e) s /\ In k order /\ dict_get d k = Some e /\ In s (i_bases (snd e)) /\
                fib (dict_get ko k) (fst e) s = None.

Lemma p2_fold : forall order st,
  let st' := fold_left (pass2_step sc d t ko) order st in
  (forall b x, In x (fst st' b) <-> In x (fst st b) \/ direct order b x) /\
  (forall er, In er (snd st') <-> In er (snd st) \/ base_err order er).
Proof.
  induction order as [|k order IH]; intros st; cbn [fold_left].
  - split; intros; simpl.
    + split; [auto|]. intros [H|(k & e & s & be & [] & _)]; auto.
    + split; [auto|]. intros [H|(k & e & s & _ & [] & _)]; auto.
  - specialize (IH (pass2_step sc d t ko st k)). cbv zeta in IH. destruct IH as (IH1 & IH2). split.
    + intros b x. rewrite IH1. unfold pass2_step.
      destruct (dict_get d k) as [e|] eqn:E.
      * destruct (p2_base_fold e (dict_get ko k) (i_bases (snd e)) st) as (B1 & _). rewrite B1. split.
        -- intros [[H|(Hx & s & be & Hs & Hf & Hb)]|(k' & e' & s & be & Hk & Hg & Hx & Hs & Hf & Hb)]; auto.
           ++ right. exists k, e, s, be. simpl; auto 10.
           ++ right. exists k', e', s, be. simpl; auto 10.
        -- intros [H|(k' & e' & s & be & [<-|Hk] & Hg & Hx & Hs & Hf & Hb)]; auto.
           ++ rewrite E in Hg. inversion Hg; subst. left. right. split; auto. exists s, be. auto.
           ++ right. exists k', e', s, be. auto 10.
      * split.
        -- intros [H|(k' & e' & s & be & Hk & Hg & Hr)]; auto. right. exists k', e', s, be. simpl; auto.
        -- intros [H|(k' & e' & s & be & [<-|Hk] & Hg & Hr)]; auto.
           ++ congruence.
           ++ right. exists k', e', s, be. auto.
    + intros er. rewrite IH2. unfold pass2_step.
      destruct (dict_get d k) as [e|] eqn:E.
      * destruct (p2_base_fold e (dict_get ko k) (i_bases (snd e)) st) as (_ & B2). rewrite B2. split.
        -- intros [[H|(s & -> & Hs & Hn)]|(k' & e' & s & He & Hk & Hg & Hs & Hn)]; auto.
           ++ right. exists k, e, s. simpl; auto 10.
           ++ right. exists k', e', s. simpl; auto 10.
        -- intros [H|(k' & e' & s & He & [<-|Hk] & Hg & Hs & Hn)]; auto.
           ++ rewrite E in Hg. inversion Hg; subst. left. right. exists s. auto.
           ++ right. exists k', e', s. auto 10.
      * split.
        -- intros [H|(k' & e' & s & He & Hk & Hg & Hr)]; auto. right. exists k', e', s. simpl; auto.
        -- intros [H|(k' & e' & s & He & [<-|Hk] & Hg & Hr)]; auto.
           ++ congruence.
           ++ right. exists k', e', s. auto.
Qed.

Lemma pass2_spec order :
  (forall b x, In x (fst (pass2 sc d t ko order) b) <-> direct order b x) /\
  (forall er, In er (snd (pass2 sc d t ko order)) <-> base_err order er).
Proof.
  destruct (p2_fold order (vempty, [])) as (H1 & H2). split.
  - intros b x. unfold pass2. rewrite H1. simpl. tauto.
  - intros er. unfold pass2. rewrite H2. simpl. tauto.
Qed.

End Passes.

Section Pass3.
Variable sc : schema.
Variable d : dict.
Variable V0 : vals.
Variable ks : list key.
Hypothesis V0ks : forall x c, In c (V0 x) -> In c ks.

Definition Dr : relation key := Rv V0.
Definition good (b : key) (l : list key) : Prop :=
  NoDup l /\ StronglySorted (le_of (id_less sc d)) l /\ forall x, In x l <-> clos_trans _ Dr b x.
Definition Jinv (V : vals) : Prop :=
  forall b i, (In i (V0 b) -> In i (V b)) /\ (In i (V b) -> clos_trans _ Dr b i).

Lemma Jinv_V0 : Jinv V0.
Proof. intros b i. split; auto. intro H. apply t_step. exact H. Qed.

Lemma tc_last b c : clos_trans _ Dr b c -> exists y, Dr y c.
Proof. intro H. apply clos_trans_tn1 in H. destruct H; eauto. Qed.

Lemma Jinv_Vks V : Jinv V -> forall x c, In c (V x) -> In c ks.
Proof.
  intros J x c H. apply J in H. destruct (tc_last _ _ H) as (y & Hy). eapply V0ks; exact Hy.
Qed.

Lemma sandwich V : Jinv V -> forall i x, clos_trans _ (Rv V) i x <-> clos_trans _ Dr i x.
Proof.
  intros J i x. split; intro H.
  - induction H as [a b' H|a b' c' _ IH1 _ IH2].
    + apply J. exact H.
    + eapply t_trans; eauto.
  - induction H as [a b' H|a b' c' _ IH1 _ IH2].
    + apply t_step. apply J. exact H.
    + eapply t_trans; eauto.
Qed.

Definition cyc_errs (i : key) (nv : list key) (errs : list err) : list err :=
  if mem i nv then errs ++ [ErrCycle i] else errs.

Lemma step_ok V errs k e : Jinv V -> dict_get d k = Some e ->
  exists nv, pass3_step (length ks + 1) sc d (Some (V, errs)) k =
             Some (vset V (did_of e) nv, cyc_errs (did_of e) nv errs) /\
             good (did_of e) nv.
Proof.
  intros J Hk. unfold pass3_step. rewrite Hk.
  destruct (close_total V ks (Jinv_Vks V J) (did_of e)) as (nv & E). rewrite E.
  exists (stable_sort (id_less sc d) nv). split; [reflexivity|].
  destruct (close_spec _ _ _ _ E) as (N & I). split; [|split].
  - apply sort_nodup; auto.
  - apply sort_sorted.
    + apply id_less_asym.
    + apply id_le_trans.
  - intro x. rewrite sort_in. rewrite I. apply sandwich; auto.
Qed.

Lemma Jinv_step V i nv : Jinv V -> good i nv -> Jinv (vset V i nv).
Proof.
  intros J (_ & _ & I) b x. unfold vset. destruct (String.eqb_spec b i) as [->|N].
  - rewrite I. split; auto. intro H. apply t_step. exact H.
  - apply J.
Qed.

Definition cyc_err (order : list key) (er : err) : Prop :=
  exists k e, er = ErrCycle (did_of e) /\ In k order /\ dict_get d k = Some e /\
              clos_trans _ Dr (did_of e) (did_of e).

Lemma p3_fold : forall order V errs, Jinv V ->
  exists V' errs', pass3 (length ks + 1) sc d order (V, errs) = Some (V', errs') /\ Jinv V' /\
    (forall k e, In k order -> dict_get d k = Some e -> good (did_of e) (V' (did_of e))) /\
    (forall b, good b (V b) -> good b (V' b)) /\
    (forall er, In er errs' <-> In er errs \/ cyc_err order er).
Proof.
  unfold pass3. induction order as [|k order IH]; intros V errs J.
  - exists V, errs. simpl. split; [reflexivity|]. split; [exact J|].
    split; [intros k e []|]. split; [auto|].
    intro er. split; [auto|]. intros [H|(k0 & e0 & _ & [] & _)]; auto.
  - cbn [fold_left]. unfold state in *.
    destruct (dict_get d k) as [e|] eqn:Ek.
    + destruct (step_ok V errs k e J Ek) as (nv & Es & G).
      rewrite Es.
      destruct (IH _ (cyc_errs (did_of e) nv errs) (Jinv_step V (did_of e) nv J G))
        as (V' & errs' & E' & J' & G' & P' & X').
      exists V', errs'. split; [exact E'|]. split; [exact J'|].
      split; [|split].
      * intros k' e' [<-|Hk] Hd; [|apply (G' k' e' Hk Hd)]. rewrite Ek in Hd. inversion Hd; subst e'.
        apply P'. rewrite vset_same. exact G.
      * intros b Gb. apply P'. unfold vset. destruct (String.eqb_spec b (did_of e)) as [->|N]; auto.
      * intro er. rewrite X'. unfold cyc_errs.
        assert (Hm : mem (did_of e) nv = true <-> clos_trans _ Dr (did_of e) (did_of e)).
        { rewrite mem_In. destruct G as (_ & _ & I). apply I. }
        split.
        -- intros [H|(k' & e' & He & Hi & Hd & Hc)].
           ++ destruct (mem (did_of e) nv) eqn:M; auto. apply in_app_or in H. destruct H as [H|[<-|[]]]; auto.
              right. exists k, e. repeat split; auto. left; auto. apply Hm; auto.
           ++ right. exists k', e'. repeat split; auto. right; auto.
        -- intros [H|(k' & e' & He & [<-|Hi] & Hd & Hc)].
           ++ left. destruct (mem (did_of e) nv); auto. apply in_or_app; auto.
           ++ rewrite Ek in Hd. inversion Hd; subst e'. left. apply Hm in Hc. rewrite Hc.
              apply in_or_app. right. left. auto.
           ++ right. exists k', e'. auto.
    + assert (Es : pass3_step (length ks + 1) sc d (Some (V, errs)) k = Some (V, errs)).
      { unfold pass3_step. rewrite Ek. reflexivity. }
      rewrite Es. destruct (IH V errs J) as (V' & errs' & E' & J' & G' & P' & X').
      exists V', errs'. split; [exact E'|]. split; [exact J'|].
      split; [|split]; auto.
      * intros k' e' [<-|Hb] Hd; [congruence|apply (G' k' e' Hb Hd)].
      * intro er. rewrite X'. split.
        -- intros [H|(k' & e' & He & Hi & Hd & Hc)]; auto. right. exists k', e'. repeat split; auto. right; auto.
        -- intros [H|(k' & e' & He & [<-|Hi] & Hd & Hc)]; auto. congruence. right. exists k', e'. auto.
Qed.
End Pass3.

(* ---------------- the two maps of Modules *)
(* what Modules.add guarantees: no two loaded nodes of the same kind, name and revision *)
Definition wf_schema (sc : schema) : Prop :=
  forall x y, In x sc -> In y sc -> same_mod x y = true -> x = y.

Lemma same_mod_refl x : same_mod x x = true.
Proof. unfold same_mod. rewrite Bool.eqb_reflx, String.eqb_refl. reflexivity. Qed.

Lemma same_mod_sym x y : same_mod x y = same_mod y x.
Proof.
  unfold same_mod. rewrite (String.eqb_sym (full_name x)). f_equal.
  destruct (m_sub x), (m_sub y); reflexivity.
Qed.

Lemma same_mod_trans x y z : same_mod x y = true -> same_mod y z = true -> same_mod x z = true.
Proof.
  unfold same_mod. intros H1 H2. apply andb_prop in H1. apply andb_prop in H2.
  destruct H1 as (A1 & B1), H2 as (A2 & B2).
  apply Bool.eqb_prop in A1. apply Bool.eqb_prop in A2. apply String.eqb_eq in B1. apply String.eqb_eq in B2.
  rewrite A1, A2, B1, B2. rewrite Bool.eqb_reflx, String.eqb_refl. reflexivity.
Qed.

Section Registry.
Variable sc : schema.

Lemma latest_spec sub n : forall l best,
  (forall o, best = Some o -> In o sc /\ m_sub o = sub /\ m_name o = n) -> incl l sc ->
  forall m, fold_left (fun best m =>
               if Bool.eqb (m_sub m) sub && (m_name m =? n) then
                 match best with
                 | None => Some m
                 | Some o => if str_ltb (full_name o) (full_name m) then Some m else best
                 end
               else best) l best = Some m -> In m sc /\ m_sub m = sub /\ m_name m = n.
Proof.
  induction l as [|x l IH]; intros best Hb Hl m; cbn [fold_left].
  - apply Hb.
  - apply IH; [|intros y Hy; apply Hl; right; auto].
    intros o. destruct (Bool.eqb (m_sub x) sub && (m_name x =? n)) eqn:E; [|apply Hb].
    apply andb_prop in E. destruct E as (E1 & E2). apply Bool.eqb_prop in E1. apply String.eqb_eq in E2.
    assert (Hx : In x sc /\ m_sub x = sub /\ m_name x = n) by (split; [apply Hl; left|]; auto).
    destruct best as [o'|].
    + destruct (str_ltb (full_name o') (full_name x)); [intro H; inversion H; subst; exact Hx|apply Hb].
    + intro H; inversion H; subst; exact Hx.
Qed.

Lemma latest_in sub n m : latest sc sub n = Some m -> In m sc /\ m_sub m = sub /\ m_name m = n.
Proof.
  unfold latest. apply latest_spec; [discriminate|apply incl_refl].
Qed.

Lemma reg_get_in sub k m : reg_get sc sub k = Some m -> In m sc /\ m_sub m = sub.
Proof.
  unfold reg_get. destruct (latest sc sub k) as [o|] eqn:E.
  - intro H; inversion H; subst. destruct (latest_in _ _ _ E) as (A & B & _). auto.
  - intro H. apply find_some in H. destruct H as (A & B).
    apply andb_prop in B. destruct B as (B & _). apply andb_prop in B. destruct B as (B & _).
    apply Bool.eqb_prop in B. auto.
Qed.

Lemma reg_get_key sub k m : reg_get sc sub k = Some m -> In k (reg_keys sc sub).
Proof.
  unfold reg_get, reg_keys. rewrite in_flat_map. destruct (latest sc sub k) as [o|] eqn:E.
  - intro H; inversion H; subst. destruct (latest_in _ _ _ E) as (A & B & C).
    exists m. split; auto. rewrite B, Bool.eqb_reflx. left. exact C.
  - intro H. apply find_some in H. destruct H as (A & B).
    apply andb_prop in B. destruct B as (B & B3). apply andb_prop in B. destruct B as (B1 & B2).
    exists m. split; auto. rewrite B1. right. apply negb_true_iff in B2. rewrite B2.
    left. apply String.eqb_eq. exact B3.
Qed.

Lemma find_module_in sub n dt m : find_module sc sub n dt = Some m -> In m sc /\ m_sub m = sub.
Proof.
  unfold find_module. destruct (reg_get sc sub (if dt =? "" then n else with_rev n dt)) as [o|] eqn:E.
  - intro H; inversion H; subst. eapply reg_get_in; eauto.
  - apply reg_get_in.
Qed.

(* ---------------- sortedModules + visited *)
Lemma visit_once_in seen l x : In x (visit_once seen l) -> In x l.
Proof.
  revert seen. induction l as [|y l IH]; intros seen; simpl; auto.
  destruct (is_seen y seen); [intro H; right; eauto|]. intros [H|H]; [left; auto|right; eauto].
Qed.

Lemma is_seen_spec x l : is_seen x l = true <-> exists y, In y l /\ same_mod x y = true.
Proof. unfold is_seen. apply existsb_exists. Qed.

Lemma visit_once_complete : forall l seen x, In x l ->
  is_seen x seen = true \/ exists y, In y (visit_once seen l) /\ same_mod x y = true.
Proof.
  induction l as [|z l IH]; intros seen x Hx; [destruct Hx|]. simpl.
  destruct (is_seen z seen) eqn:Ez.
  - destruct Hx as [->|Hx]; auto.
  - destruct Hx as [->|Hx].
    + right. exists x. split; [left; auto|apply same_mod_refl].
    + destruct (IH (z :: seen) x Hx) as [H|(y & Hy & Hs)].
      * simpl in H. apply orb_prop in H. destruct H as [H|H]; auto.
        right. exists z. split; [left; auto|exact H].
      * right. exists y. split; [right; auto|exact Hs].
Qed.

Hypothesis Hwf : wf_schema sc.

Lemma sorted_modules_spec sub md : In md (sorted_modules sc sub) <-> exists k, reg_get sc sub k = Some md.
Proof.
  unfold sorted_modules. split.
  - intro H. apply visit_once_in in H. apply in_flat_map in H. destruct H as (k & _ & H).
    destruct (reg_get sc sub k) as [m|] eqn:E; [|destruct H]. destruct H as [<-|[]]. eauto.
  - intros (k & Hk).
    assert (Hin : In md (flat_map (fun k => match reg_get sc sub k with Some m => [m] | None => [] end)
                                  (stable_sort str_ltb (reg_keys sc sub)))).
    { apply in_flat_map. exists k. split.
      - apply (Permutation_in k (sort_perm str_ltb (reg_keys sc sub))). eapply reg_get_key; eauto.
      - rewrite Hk. left; auto. }
    destruct (visit_once_complete _ [] md Hin) as [H|(y & Hy & Hs)]; [discriminate|].
    assert (y = md); [|subst; exact Hy].
    symmetry. apply Hwf; auto.
    + apply (reg_get_in _ _ _ Hk).
    + apply visit_once_in in Hy. apply in_flat_map in Hy. destruct Hy as (k' & _ & Hy).
      destruct (reg_get sc sub k') as [m|] eqn:E; [|destruct Hy]. destruct Hy as [<-|[]].
      apply (reg_get_in _ _ _ E).
Qed.

(* ---------------- wholeModule = include-reachability *)
Definition inc (x y : module) : Prop := In y (included sc x).

Lemma included_spec x y : In y (included sc x) <->
  exists n dt, In (n, dt) (m_includes x) /\ find_module sc true n dt = Some y.
Proof.
  unfold included. rewrite in_flat_map. split.
  - intros ([n dt] & Hn & Hy). exists n, dt. split; auto. cbn [fst snd] in Hy.
    destruct (find_module sc true n dt); simpl in Hy; [|tauto]. destruct Hy as [->|[]]. reflexivity.
  - intros (n & dt & Hn & Hy). exists (n, dt). split; auto. cbn [fst snd]. rewrite Hy. left; auto.
Qed.

Lemma included_in x y : In y (included sc x) -> In y sc.
Proof. rewrite included_spec. intros (n & dt & _ & H). eapply find_module_in; eauto. Qed.

Lemma included_length x : length (included sc x) <= length (m_includes x).
Proof.
  unfold included. induction (m_includes x) as [|n l IH]; simpl; auto.
  rewrite app_length. destruct (find_module sc true (fst n) (snd n)); simpl; lia.
Qed.

Lemma filter_len {A} (p : A -> bool) l : length (filter p l) <= length l.
Proof. induction l; simpl; auto. destruct (p a); simpl; lia. Qed.

Fixpoint unseen_incl (l : list module) (seen : list module) : nat :=
  match l with
  | [] => 0
  | m :: r => (if is_seen m seen then 0 else length (m_includes m)) + unseen_incl r seen
  end.

Lemma is_seen_cons m x seen : is_seen m (x :: seen) = same_mod m x || is_seen m seen.
Proof. reflexivity. Qed.

Lemma unseen_mono l x seen : unseen_incl l (x :: seen) <= unseen_incl l seen.
Proof.
  induction l as [|m r IH]; simpl; auto.
  destruct (same_mod m x); simpl; destruct (is_seen m seen); lia.
Qed.

Lemma unseen_drop l x seen : In x l -> is_seen x seen = false ->
  unseen_incl l (x :: seen) + length (m_includes x) <= unseen_incl l seen.
Proof.
  induction l as [|m r IH]; intros Hin Hs; [destruct Hin|].
  cbn [unseen_incl]. destruct Hin as [->|Hin].
  - rewrite Hs. cbn [is_seen existsb]. rewrite same_mod_refl. simpl.
    pose proof (unseen_mono r x seen). lia.
  - specialize (IH Hin Hs). rewrite is_seen_cons.
    destruct (same_mod m x); simpl; destruct (is_seen m seen); lia.
Qed.

Lemma unseen_nil_total l : unseen_incl l [] = total_includes l.
Proof. induction l; simpl; auto. Qed.

Lemma whole_loop_spec : forall f seen q,
  length q + unseen_incl sc seen <= f -> (forall x, In x q -> In x sc) ->
  (forall y, In y q -> is_seen y seen = true \/ In y (whole_loop f sc seen q)) /\
  (forall x, In x (whole_loop f sc seen q) -> forall z, In z (included sc x) ->
             is_seen z seen = true \/ In z (whole_loop f sc seen q)) /\
  (forall x, In x (whole_loop f sc seen q) -> exists y, In y q /\ clos_refl_trans _ inc y x).
Proof.
  induction f as [|f IH]; intros seen q Hf Hc.
  - destruct q; [|simpl in Hf; lia]. simpl. repeat split; intros; try contradiction.
  - destruct q as [|x q]. { simpl. repeat split; intros; try contradiction. }
    cbn [whole_loop]. destruct (is_seen x seen) eqn:Es.
    + destruct (IH seen q) as (A & B & C). { simpl in Hf. lia. } { intros; apply Hc; right; auto. }
      split; [|split].
      * intros y [<-|Hy]; auto.
      * exact B.
      * intros z Hz. destruct (C z Hz) as (y & Hy & Hr). exists y. split; auto. right; auto.
    + set (new := filter (fun y => negb (is_seen y (x :: seen))) (included sc x)).
      assert (Hnew : length new <= length (m_includes x)).
      { unfold new. eapply Nat.le_trans; [apply filter_len|apply included_length]. }
      assert (Hx : In x sc) by (apply Hc; left; auto).
      destruct (IH (x :: seen) (q ++ new)) as (A & B & C).
      { rewrite app_length. pose proof (unseen_drop sc x seen Hx Es). simpl in Hf. lia. }
      { intros y Hy. apply in_app_or in Hy. destruct Hy as [Hy|Hy].
        - apply Hc; right; auto.
        - unfold new in Hy. apply filter_In in Hy. eapply included_in. apply Hy. }
      fold new in A, B, C. fold new.
      split; [|split].
      * intros y [<-|Hy]; [right; left; auto|].
        destruct (A y (in_or_app _ _ _ (or_introl Hy))) as [H|H]; [|right; right; auto].
        rewrite is_seen_cons in H. apply orb_prop in H. destruct H as [H|H]; auto.
        right. left. symmetry. apply Hwf; auto. apply Hc; right; auto.
      * intros w [<-|Hw] z Hz.
        -- destruct (is_seen z (x :: seen)) eqn:Ez.
           ++ rewrite is_seen_cons in Ez. apply orb_prop in Ez. destruct Ez as [Ez|Ez]; auto.
              right. left. symmetry. apply Hwf; auto. eapply included_in; eauto.
           ++ assert (Hn : In z new). { unfold new. apply filter_In. split; auto. rewrite Ez. reflexivity. }
              destruct (A z (in_or_app _ _ _ (or_intror Hn))) as [H|H]; [congruence|]. right. right. auto.
        -- destruct (B w Hw z Hz) as [H|H]; [|right; right; auto].
           rewrite is_seen_cons in H. apply orb_prop in H. destruct H as [H|H]; auto.
           right. left. symmetry. apply Hwf; auto. eapply included_in; eauto.
      * intros w [<-|Hw]. { exists x. split; [left; auto|apply rt_refl]. }
        destruct (C w Hw) as (y & Hy & Hr). apply in_app_or in Hy. destruct Hy as [Hy|Hy].
        -- exists y. split; auto. right; auto.
        -- exists x. split; [left; auto|]. eapply rt_trans; [apply rt_step|exact Hr].
           unfold new in Hy. apply filter_In in Hy. apply Hy.
Qed.
End Registry.

(* ---------------- dictionaries *)
Lemma dict_get_set {A} (d : list (key * A)) k e k' :
  dict_get (dict_set d k e) k' = if k =? k' then Some e else dict_get d k'.
Proof.
  induction d as [|[k0 e0] r IH]; cbn [dict_set dict_get].
  - reflexivity.
  - destruct (String.eqb_spec k0 k) as [->|N]; cbn [dict_get].
    + destruct (String.eqb_spec k k'); reflexivity.
    + rewrite IH. destruct (String.eqb_spec k0 k') as [->|N']; auto.
      destruct (String.eqb_spec k k'); [congruence|reflexivity].
Qed.

Lemma dict_keys_get {A} (d : list (key * A)) k : In k (dict_keys d) <-> dict_get d k <> None.
Proof.
  unfold dict_keys. induction d as [|[k0 e0] r IH]; cbn [map dict_get In fst].
  - split; [tauto|congruence].
  - destruct (String.eqb_spec k0 k) as [->|N].
    + split; [congruence|auto].
    + rewrite <- IH. split; [intros [H|H]; [congruence|auto]|auto].
Qed.

Lemma dict_get_in {A} (d : list (key * A)) k e : dict_get d k = Some e -> In (k, e) d.
Proof.
  induction d as [|[k0 e0] r IH]; cbn [dict_get]; [discriminate|].
  destruct (String.eqb_spec k0 k) as [->|N].
  - intro H; inversion H; subst. left; auto.
  - intro H. right. auto.
Qed.

(* every declaration filed in the dictionary can be looked up by its id *)
Lemma decl_get_of d k e : dict_get d k = Some e ->
  exists e', decl_get d (did_of e) = Some e' /\ did_of e' = did_of e.
Proof.
  intro H. apply dict_get_in in H. unfold decl_get.
  destruct (find (fun e0 => did_of e0 =? did_of e) (map snd d)) as [e'|] eqn:E.
  - exists e'. split; auto. apply find_some in E. apply String.eqb_eq. apply E.
  - exfalso. assert (Hin : In e (map snd d)) by (apply in_map_iff; exists (k, e); auto).
    pose proof (find_none _ _ E e Hin) as F. cbv beta in F. rewrite String.eqb_refl in F. discriminate.
Qed.

Lemma decl_get_did d x e : decl_get d x = Some e -> did_of e = x.
Proof. unfold decl_get. intro H. apply find_some in H. apply String.eqb_eq. apply H. Qed.

Lemma oracle_in o (l : list string) x : is_oracle o -> (In x (o l) <-> In x l).
Proof.
  intro H. split; apply Permutation_in; [apply Permutation_sym|]; apply H.
Qed.

(* ---------------- findIdentityBase and resolves *)
Lemma split_colon_none s : split_colon s = None -> no_colon s.
Proof.
  induction s as [|c r IH]; simpl; auto.
  destruct (Ascii.eqb_spec c ":"%char) as [->|N]; [discriminate|].
  destruct (split_colon r) as [[a b']|]; [discriminate|]. auto.
Qed.

Lemma split_colon_some s p n : split_colon s = Some (p, n) -> s = (p ++ ":" ++ n)%string /\ no_colon p.
Proof.
  revert p. induction s as [|c r IH]; simpl; intros p H; [discriminate|].
  destruct (Ascii.eqb_spec c ":"%char) as [->|N].
  - inversion H; subst. simpl. auto.
  - destruct (split_colon r) as [[a b']|] eqn:E; [|discriminate]. inversion H; subst.
    destruct (IH a eq_refl) as (-> & Hn). simpl. auto.
Qed.

Lemma get_prefix_splits s : splits s (fst (get_prefix s)) (snd (get_prefix s)).
Proof.
  unfold get_prefix. destruct (split_colon s) as [[p n]|] eqn:E.
  - destruct (split_colon_some _ _ _ E) as (-> & Hn). simpl. constructor; auto.
  - simpl. constructor. apply split_colon_none; auto.
Qed.

Lemma no_colon_split s : no_colon s -> split_colon s = None.
Proof.
  induction s as [|c r IH]; simpl; auto. intros (N & H).
  destruct (Ascii.eqb_spec c ":"%char); [contradiction|]. rewrite IH; auto.
Qed.

Lemma split_at_colon' p n : no_colon p -> split_colon (p ++ String ":"%char n)%string = Some (p, n).
Proof.
  induction p as [|c r IH]; simpl.
  - auto.
  - intros (N & H). destruct (Ascii.eqb_spec c ":"%char); [contradiction|]. rewrite IH; auto.
Qed.

Lemma split_at_colon p n : no_colon p -> split_colon (p ++ ":" ++ n)%string = Some (p, n).
Proof. apply split_at_colon'. Qed.

Lemma splits_get_prefix s p n : splits s p n -> get_prefix s = (p, n).
Proof.
  unfold get_prefix. destruct 1 as [s H|p n H].
  - rewrite no_colon_split; auto.
  - rewrite split_at_colon; auto.
Qed.

Lemma import_target_spec imps pfx n dt : import_target imps pfx = Some (n, dt) <-> first_import imps pfx n dt.
Proof.
  split.
  - induction imps as [|[[p' n'] d'] r IH]; simpl; [discriminate|].
    destruct (String.eqb_spec pfx p') as [->|N].
    + intro H; inversion H; subst. constructor.
    + intro H. constructor; auto.
  - induction 1 as [p n dt r|p' n' d' r p n dt N _ IH]; simpl.
    + rewrite String.eqb_refl. reflexivity.
    + destruct (String.eqb_spec p p'); [congruence|exact IH].
Qed.

Lemma dict_find_spec d l nm e : dict_find d l nm = Some e <-> found (dict_get d) nm l e.
Proof.
  split.
  - induction l as [|o r IH]; simpl; [discriminate|].
    destruct (dict_get d (identity_key o nm)) as [e0|] eqn:E.
    + intro H; inversion H; subst. constructor; auto.
    + intro H. apply found_later; auto.
  - induction 1 as [o r e H|o r e H _ IH]; simpl; rewrite H; auto.
Qed.

Definition opt_cons (o : option module) (l : list module) : list module :=
  match o with Some x => x :: l | None => l end.

Lemma local_find d o l nm :
  match match o with Some x => dict_get d (identity_key x nm) | None => None end with
  | Some e => Some e
  | None => dict_find d l nm
  end = dict_find d (opt_cons o l) nm.
Proof. destruct o as [x|]; reflexivity. Qed.

Lemma fib_spec sc d t o md s e :
  find_identity_base_in sc d t o md s = Some e <-> resolves sc (dict_get d) (owners_get t) o md s e.
Proof.
  unfold find_identity_base_in. split.
  - pose proof (get_prefix_splits s) as Hs. destruct (get_prefix s) as [pfx nm]. cbn [fst snd] in Hs.
    destruct ((pfx =? "") || (pfx =? m_prefix md)) eqn:El.
    + rewrite local_find. intro H. exists pfx, nm, (opt_cons o (owners_get t md)). split; auto.
      split; [|apply dict_find_spec; auto].
      apply sl_local. apply orb_prop in El. destruct El as [E|E]; apply String.eqb_eq in E; auto.
    + apply orb_false_elim in El. destruct El as (E1 & E2).
      apply String.eqb_neq in E1. apply String.eqb_neq in E2.
      destruct (import_target (m_imports md) pfx) as [[n dt]|] eqn:Ei; [|discriminate].
      destruct (find_module sc false n dt) as [ext|] eqn:Ef; [|discriminate].
      intro H. exists pfx, nm, (owners_get t ext). split; auto. split; [|apply dict_find_spec; auto].
      eapply sl_import; eauto. apply import_target_spec; auto.
  - intros (pfx & nm & l & Hs & Ht & Hf).
    rewrite (splits_get_prefix _ _ _ Hs). apply dict_find_spec in Hf.
    destruct Ht as [Hl|n dt ext N1 N2 Hi Hfm].
    + assert (El : (pfx =? "") || (pfx =? m_prefix md) = true).
      { destruct Hl as [->| ->]; [reflexivity|]. rewrite String.eqb_refl. apply orb_true_r. }
      rewrite El. rewrite local_find. exact Hf.
    + apply String.eqb_neq in N1. apply String.eqb_neq in N2. rewrite N1, N2. cbn [orb].
      apply import_target_spec in Hi. rewrite Hi, Hfm. exact Hf.
Qed.

Lemma clos_trans_ext {A} (R1 R2 : relation A) : (forall x y, R1 x y <-> R2 x y) ->
  forall x y, clos_trans _ R1 x y <-> clos_trans _ R2 x y.
Proof.
  intros H x y. split; induction 1 as [a b' Hab|a b' c' _ IH1 _ IH2].
  - apply t_step. apply H; auto.
  - eapply t_trans; eauto.
  - apply t_step. apply H; auto.
  - eapply t_trans; eauto.
Qed.

Lemma tc_first {A} (R : relation A) x y : clos_trans _ R x y -> exists z, R x z.
Proof. induction 1 as [a b' H|a b' c' _ IH1 _ _]; eauto. Qed.
Lemma tc_final {A} (R : relation A) x y : clos_trans _ R x y -> exists z, R z y.
Proof. induction 1 as [a b' H|a b' c' _ _ _ IH2]; eauto. Qed.

Lemma nil_iff {A} (l : list A) : l = [] <-> forall e, ~ In e l.
Proof.
  split; [intros -> e []|]. destruct l as [|x l]; auto. intro H. exfalso. apply (H x). left; auto.
Qed.

(* ---------------- strict order of the spec *)
Lemma str_ltb_lt a b : str_ltb a b = true <-> str_lt a b.
Proof. unfold str_ltb, str_lt. destruct (String.compare a b); split; congruence. Qed.

Lemma lex_ltb_lt : forall a b, lex_ltb a b = true <-> lex_lt a b.
Proof.
  induction a as [|x a IH]; intros [|y b]; simpl; try (split; [discriminate|tauto]); try tauto.
  destruct (String.eqb_spec x y) as [->|N]; cbn [negb].
  - rewrite IH. split; [auto|]. intros [H|(_ & H)]; auto.
    apply str_ltb_lt in H. rewrite str_ltb_irrefl in H. discriminate.
  - rewrite str_ltb_lt. split; [auto|]. intros [H|(H & _)]; [auto|contradiction].
Qed.

Lemma key_lt_iff sc dl a b : key_lt sc dl a b <-> lex_ltb (sort_key_of sc dl a) (sort_key_of sc dl b) = true.
Proof. unfold key_lt. symmetry. apply lex_ltb_lt. Qed.

Lemma key_lt_irrefl sc dl a : ~ key_lt sc dl a a.
Proof. rewrite key_lt_iff. rewrite lex_irrefl. discriminate. Qed.

Lemma key_lt_trans sc dl a b c : key_lt sc dl a b -> key_lt sc dl b c -> key_lt sc dl a c.
Proof. rewrite !key_lt_iff. apply lex_trans. Qed.

Lemma strict_sorted_unique sc dl : forall l1 l2, sorted_keys sc dl l1 -> sorted_keys sc dl l2 ->
  (forall x, In x l1 <-> In x l2) -> l1 = l2.
Proof.
  unfold sorted_keys. induction l1 as [|a l1 IH]; intros l2 S1 S2 Heq.
  - destruct l2 as [|b l2]; auto. exfalso. apply (proj2 (Heq b)). left; auto.
  - destruct l2 as [|b l2]. { exfalso. apply (proj1 (Heq a)). left; auto. }
    inversion S1 as [|? ? S1' F1]; subst. inversion S2 as [|? ? S2' F2]; subst.
    rewrite Forall_forall in F1, F2.
    assert (a = b).
    { destruct (proj1 (Heq a) (or_introl eq_refl)) as [E|Hin]; [symmetry; exact E|].
      destruct (proj2 (Heq b) (or_introl eq_refl)) as [E|Hin']; [exact E|].
      exfalso. apply (key_lt_irrefl sc dl a). eapply key_lt_trans; [apply F1; exact Hin'|apply F2; exact Hin]. }
    subst b. f_equal. apply IH; auto.
    intro x. split; intro Hx.
    + destruct (proj1 (Heq x) (or_intror Hx)) as [E|]; auto. subst.
      exfalso. apply (key_lt_irrefl sc dl x). apply F1; auto.
    + destruct (proj2 (Heq x) (or_intror Hx)) as [E|]; auto. subst.
      exfalso. apply (key_lt_irrefl sc dl x). apply F2; auto.
Qed.

Lemma sorted_keys_nodup sc dl l : sorted_keys sc dl l -> NoDup l.
Proof.
  unfold sorted_keys. induction 1 as [|a l S IH F]; constructor; auto.
  intro H. rewrite Forall_forall in F. apply (key_lt_irrefl sc dl a). apply F; auto.
Qed.

(* a declaration that is filed in the dictionary *)
Definition filed_decl (d : dict) (x : key) : Prop := exists k e, dict_get d k = Some e /\ x = did_of e.

Lemma mk_key_eq a n a' n' : a = a' -> n = n' -> mk_key a n = mk_key a' n'.
Proof. intros -> ->. reflexivity. Qed.

Lemma sort_key_inj sc d x y : filed_decl d x -> filed_decl d y ->
  sort_key sc d x = sort_key sc d y -> x = y.
Proof.
  intros (k & e & Hk & ->) (k' & e' & Hk' & ->).
  destruct (decl_get_of d k e Hk) as (ex & Ex & Dx). destruct (decl_get_of d k' e' Hk') as (ey & Ey & Dy).
  unfold sort_key. rewrite Ex, Ey. destruct ex as [mx ix], ey as [my iy]. intro H. inversion H as [[H1 H2 H3]].
  rewrite <- Dx, <- Dy. unfold did_of. cbn [fst snd]. apply mk_key_eq; auto.
Qed.

Lemma le_strict sc d a b : filed_decl d a -> filed_decl d b ->
  le_of (id_less sc d) a b -> a <> b -> key_lt sc (decl_get d) a b.
Proof.
  intros Pa Pb H N. apply key_lt_iff. change (sort_key_of sc (decl_get d)) with (sort_key sc d).
  unfold le_of, id_less in H.
  destruct (lex_ltb (sort_key sc d a) (sort_key sc d b)) eqn:E; auto.
  exfalso. apply N. apply (sort_key_inj sc d); auto. apply lex_conn; auto.
Qed.

Lemma SS_strict sc d l : Forall (filed_decl d) l -> NoDup l -> StronglySorted (le_of (id_less sc d)) l ->
  sorted_keys sc (decl_get d) l.
Proof.
  unfold sorted_keys. induction l as [|a l IH]; intros P N S; [constructor|].
  inversion P as [|? ? Pa P']; subst.
  inversion N as [|? ? Na N']; subst. inversion S as [|? ? S' F]; subst.
  constructor; auto. rewrite Forall_forall in *. intros x Hx.
  apply le_strict; auto. intro; subst; contradiction.
Qed.

(* ---------------- the direct-children relation is the edge relation *)
Section Master.
Variable sc : schema.
Variable d : dict.
Variable t : owners_table.
Variable kt : key_owners.
Let g := dict_get d.
Let ow := owners_get t.
Let dl := decl_get d.
Let ko := dict_get kt.
Let ks := dict_keys d.
Let U := map (fun ke : key * entry => did_of (snd ke)) d.

Variable o2 o3 : list string -> list string.
Hypothesis Ho2 : is_oracle o2.
Hypothesis Ho3 : is_oracle o3.

Let st2 := pass2 sc d t kt (o2 ks).
Let V0 := fst st2.

Lemma in_order o k : is_oracle o -> (In k (o ks) <-> g k <> None).
Proof. intro Ho. rewrite (oracle_in o _ _ Ho). unfold ks, g. apply dict_keys_get. Qed.

Lemma V0_edge b x : In x (V0 b) <-> edge sc g ow ko x b.
Proof.
  unfold V0, st2. rewrite (proj1 (pass2_spec sc d t kt (o2 ks))). unfold direct, edge, declares. split.
  - intros (k & e & s & be & Hk & Hg & -> & Hs & Hf & <-).
    exists k, e, s, be. split; [exact Hg|]. split; auto. split; auto. split; auto.
    apply fib_spec. exact Hf.
  - intros (k & ex & s & eb & Hg & Hd & Hs & Hr & ->).
    exists k, ex, s, eb. split. { apply (in_order o2 k Ho2). fold g. congruence. }
    split; auto. split; auto. split; auto. split; auto. apply fib_spec. exact Hr.
Qed.

Lemma found_filed nm l e : found g nm l e -> filed_decl d (did_of e).
Proof. induction 1 as [o r e H|o r e _ _ IH]; auto. exists (identity_key o nm), e. auto. Qed.

Lemma edge_filed x b : edge sc g ow ko x b -> filed_decl d x /\ filed_decl d b.
Proof.
  intros (k & ex & s & eb & Hg & Hd & _ & (p & n & l & _ & _ & Hf) & ->). split.
  - exists k, ex. auto.
  - eapply found_filed; eauto.
Qed.

Lemma filed_in_U x : filed_decl d x -> In x U.
Proof.
  intros (k & e & Hk & ->). apply dict_get_in in Hk. unfold U.
  apply in_map_iff. exists (k, e). auto.
Qed.

Lemma V0U x c : In c (V0 x) -> In c U.
Proof. rewrite V0_edge. intro H. apply filed_in_U. apply (edge_filed _ _ H). Qed.

Lemma Dr_derived b x : clos_trans _ (Dr V0) b x <-> derived sc g ow ko b x.
Proof. unfold derived. apply clos_trans_ext. intros u v. unfold Dr, Rv. apply V0_edge. Qed.

Lemma derived_filed b x : derived sc g ow ko b x -> filed_decl d b /\ filed_decl d x.
Proof.
  intro H. split.
  - destruct (tc_first _ _ _ H) as (z & Hz). apply (edge_filed _ _ Hz).
  - destruct (tc_final _ _ _ H) as (z & Hz). apply (edge_filed _ _ Hz).
Qed.

Definition base_error (er : err) : Prop :=
  exists k e s, er = ErrBase (did_of e) s /\ g k = Some e /\ In s (i_bases (snd e)) /\
                ~ exists eb, resolves sc g ow (ko k) (fst e) s eb.
Definition cycle_error (er : err) : Prop := exists x, er = ErrCycle x /\ derived sc g ow ko x x.

Lemma base_err_iff er : base_err sc d t kt (o2 ks) er <-> base_error er.
Proof.
  unfold base_err, base_error. split; intros (k & e & s & He & H).
  - destruct H as (_ & Hg & Hs & Hn). exists k, e, s. repeat split; auto.
    intros (eb & Hb). apply fib_spec in Hb. unfold fib in Hn. unfold ko in Hb. congruence.
  - destruct H as (Hg & Hs & Hn). exists k, e, s. split; auto. split.
    + apply (in_order o2 k Ho2). congruence.
    + repeat split; auto. unfold fib. destruct (find_identity_base_in sc d t (dict_get kt k) (fst e) s) as [eb|] eqn:E; auto.
      exfalso. apply Hn. exists eb. apply fib_spec. exact E.
Qed.

Lemma cyc_err_iff er : cyc_err d V0 (o3 ks) er <-> cycle_error er.
Proof.
  unfold cyc_err, cycle_error. split.
  - intros (k & e & He & _ & _ & Hc). exists (did_of e). split; auto. apply Dr_derived. exact Hc.
  - intros (x & He & Hc). destruct (proj1 (derived_filed _ _ Hc)) as (k & e & Hk & ->).
    exists k, e. split; auto. split; [|split; auto].
    + apply (in_order o3 k Ho3). fold g in Hk. congruence.
    + apply Dr_derived. exact Hc.
Qed.

Lemma master :
  exists V errs, pass3 (length ks + 1) sc d (o3 ks) st2 = Some (V, errs) /\
    (forall b, sorted_keys sc dl (V b)) /\
    (forall b x, In x (V b) <-> derived sc g ow ko b x) /\
    (forall er, In er errs <-> base_error er \/ cycle_error er).
Proof.
  assert (HL : length ks = length U). { unfold ks, U, dict_keys. rewrite !map_length. reflexivity. }
  rewrite HL.
  destruct (p3_fold sc d V0 U V0U (o3 ks) V0 (snd st2) (Jinv_V0 V0)) as (V & errs & E & J & G & _ & X).
  exists V, errs. split. { rewrite <- E. f_equal. unfold V0. destruct st2; reflexivity. }
  assert (Hin : forall b x, In x (V b) <-> derived sc g ow ko b x).
  { intros b x. split.
    - intro H. apply Dr_derived. apply J. exact H.
    - intro H. destruct (proj1 (derived_filed _ _ H)) as (k & e & Hk & ->).
      destruct (G k e) as (_ & _ & I); auto.
      + apply (in_order o3 k Ho3). fold g in Hk. congruence.
      + apply I. apply Dr_derived. exact H. }
  split; [|split; [exact Hin|]].
  - intro b. destruct (V b) as [|y r] eqn:Eb; [constructor|]. rewrite <- Eb.
    assert (Hy : derived sc g ow ko b y). { apply Hin. rewrite Eb. left; auto. }
    destruct (proj1 (derived_filed _ _ Hy)) as (k & e & Hk & ->).
    destruct (G k e) as (N & S & _); auto.
    + apply (in_order o3 k Ho3). fold g in Hk. congruence.
    + apply SS_strict; auto. rewrite Forall_forall. intros x Hx. apply Hin in Hx.
      apply (derived_filed _ _ Hx).
  - intro er. rewrite X. unfold st2. rewrite (proj2 (pass2_spec sc d t kt (o2 ks))).
    rewrite base_err_iff, cyc_err_iff. tauto.
Qed.
End Master.

(* ---------------- the whole function *)
Definition graph_of (r : result) : lookup := dict_get (r_dict r).
Definition owners_of (r : result) : module -> list module := owners_get (r_owners r).
Definition decls_of (r : result) : lookup := decl_get (r_dict r).
Definition key_owner (r : result) : key -> option module := dict_get (r_key_owners r).

Theorem resolve_spec sc o2 o3 : is_oracle o2 -> is_oracle o3 ->
  exists r, resolve_identities o2 o3 sc = Some r /\
    r_dict r = fst (pass1 sc) /\ r_owners r = snd (pass1 sc) /\ r_key_owners r = pass1_owner sc /\
    (forall b, sorted_keys sc (decls_of r) (r_values r b)) /\
    (forall b x, In x (r_values r b) <-> derived sc (graph_of r) (owners_of r) (key_owner r) b x) /\
    (forall er, In er (r_errors r) <->
                In er (link_errors sc) \/ base_error sc (r_dict r) (r_owners r) (r_key_owners r) er \/
                cycle_error sc (r_dict r) (r_owners r) (r_key_owners r) er).
Proof.
  intros Ho2 Ho3. unfold resolve_identities. destruct (pass1 sc) as [d t] eqn:E1. cbn [fst snd].
  destruct (master sc d t (pass1_owner sc) o2 o3 Ho2 Ho3) as (V & errs & E & S & I & X).
  rewrite E. eexists. split; [reflexivity|]. unfold graph_of, owners_of, decls_of, key_owner.
  cbn [r_dict r_owners r_key_owners r_values r_errors].
  split; [reflexivity|]. split; [reflexivity|]. split; [reflexivity|]. split; [exact S|]. split; [exact I|].
  intro er. rewrite in_app_iff, X. tauto.
Qed.

Lemma resolve_inv sc o2 o3 r : is_oracle o2 -> is_oracle o3 ->
  resolve_identities o2 o3 sc = Some r ->
  r_dict r = fst (pass1 sc) /\ r_owners r = snd (pass1 sc) /\ r_key_owners r = pass1_owner sc /\
  (forall b, sorted_keys sc (decls_of r) (r_values r b)) /\
  (forall b x, In x (r_values r b) <-> derived sc (graph_of r) (owners_of r) (key_owner r) b x) /\
  (forall er, In er (r_errors r) <->
              In er (link_errors sc) \/ base_error sc (r_dict r) (r_owners r) (r_key_owners r) er \/
              cycle_error sc (r_dict r) (r_owners r) (r_key_owners r) er).
Proof.
  intros Ho2 Ho3 H. destruct (resolve_spec sc o2 o3 Ho2 Ho3) as (r' & E & P). rewrite H in E.
  inversion E; subst. exact P.
Qed.

Theorem resolve_total sc o2 o3 : is_oracle o2 -> is_oracle o3 ->
  exists r, resolve_identities o2 o3 sc = Some r.
Proof. intros H2 H3. destruct (resolve_spec sc o2 o3 H2 H3) as (r & E & _). eauto. Qed.

Section Run.
Variables (sc : schema) (o2 o3 : list string -> list string) (r : result).
Hypothesis Ho2 : is_oracle o2.
Hypothesis Ho3 : is_oracle o3.
Hypothesis Hrun : resolve_identities o2 o3 sc = Some r.
Let g := graph_of r.
Let ow := owners_of r.
Let ko := key_owner r.

Theorem values_sorted b : sorted_keys sc (decls_of r) (r_values r b).
Proof. apply (resolve_inv sc o2 o3 r Ho2 Ho3 Hrun). Qed.

Theorem values_nodup b : NoDup (r_values r b).
Proof. eapply sorted_keys_nodup. apply values_sorted. Qed.

Theorem values_exact b x : In x (r_values r b) <-> derived sc g ow ko b x.
Proof. apply (resolve_inv sc o2 o3 r Ho2 Ho3 Hrun). Qed.

Theorem values_not_self b : ~ derived sc g ow ko b b -> ~ In b (r_values r b).
Proof. intros H Hin. apply H. apply values_exact. exact Hin. Qed.

Theorem values_are_identities b x : In x (r_values r b) ->
  (exists e, declares g x e) /\ (exists e, declares g b e).
Proof.
  intro H. apply values_exact in H. destruct (derived_filed sc _ _ _ _ _ H) as ((k & e & Hk & ->) & (k' & e' & Hk' & ->)).
  split; [exists e'|exists e]; (split; [reflexivity|eauto]).
Qed.

Lemma errors_iff er : In er (r_errors r) <->
  In er (link_errors sc) \/ base_error sc (r_dict r) (r_owners r) (r_key_owners r) er \/ cycle_error sc (r_dict r) (r_owners r) (r_key_owners r) er.
Proof. apply (resolve_inv sc o2 o3 r Ho2 Ho3 Hrun). Qed.

Theorem error_undefined_base k e s :
  g k = Some e -> In s (i_bases (snd e)) -> (~ exists eb, resolves sc g ow (ko k) (fst e) s eb) ->
  In (ErrBase (did_of e) s) (r_errors r).
Proof.
  intros Hg Hs Hn. apply errors_iff. right. left. exists k, e, s. auto.
Qed.

Theorem error_cycle x : derived sc g ow ko x x -> In (ErrCycle x) (r_errors r).
Proof. intro H. apply errors_iff. right. right. exists x. auto. Qed.

Theorem error_link er : In er (link_errors sc) -> In er (r_errors r).
Proof. intro H. apply errors_iff. auto. Qed.

Theorem errors_none_iff :
  r_errors r = [] <-> link_errors sc = [] /\ all_resolve sc g ow ko /\ acyclic sc g ow ko.
Proof.
  rewrite nil_iff. split.
  - intro H. split; [|split].
    + apply nil_iff. intros er He. apply (H er). apply errors_iff. auto.
    + intros k e s Hg Hs.
      destruct (find_identity_base_in sc (r_dict r) (r_owners r) (ko k) (fst e) s) as [eb|] eqn:E.
      * exists eb. apply fib_spec. exact E.
      * exfalso. apply (H (ErrBase (did_of e) s)). apply error_undefined_base with k; auto.
        intros (eb & Hb). apply fib_spec in Hb. congruence.
    + intros x Hc. apply (H (ErrCycle x)). apply error_cycle. exact Hc.
  - intros (Hl & Hr & Ha) er He. apply errors_iff in He. destruct He as [He|[He|He]].
    + rewrite Hl in He. destruct He.
    + destruct He as (k & e & s & _ & Hg & Hs & Hn). apply Hn. eapply Hr; eauto.
    + destruct He as (x & _ & Hc). eapply Ha; eauto.
Qed.

Theorem identityref_spec sub fulln s b :
  identityref_base sc r sub fulln s = Some b <->
  exists md e, find (fun m => Bool.eqb (m_sub m) sub && (full_name m =? fulln)) sc = Some md /\
               resolves sc g ow None md s e /\ b = did_of e.
Proof.
  unfold identityref_base, find_identity_base. split.
  - destruct (find _ sc) as [md|]; [|discriminate].
    destruct (find_identity_base_in sc (r_dict r) (r_owners r) None md s) as [e|] eqn:E; [|discriminate].
    intro H. inversion H; subst. exists md, e. split; auto. split; auto. apply fib_spec. exact E.
  - intros (md & e & -> & H & ->). apply fib_spec in H. rewrite H. reflexivity.
Qed.
End Run.

(* ---------------- the result is a function of the schema alone *)
Theorem oracle_independent sc o2 o3 o2' o3' r r' :
  is_oracle o2 -> is_oracle o3 -> is_oracle o2' -> is_oracle o3' ->
  resolve_identities o2 o3 sc = Some r -> resolve_identities o2' o3' sc = Some r' ->
  r_dict r = r_dict r' /\ r_owners r = r_owners r' /\ r_key_owners r = r_key_owners r' /\
  (forall b, r_values r b = r_values r' b) /\
  (r_errors r = [] <-> r_errors r' = []).
Proof.
  intros H2 H3 H2' H3' E E'.
  destruct (resolve_inv sc o2 o3 r H2 H3 E) as (D & T & K & _).
  destruct (resolve_inv sc o2' o3' r' H2' H3' E') as (D' & T' & K' & _).
  assert (Hd : r_dict r = r_dict r') by congruence.
  assert (Ht : r_owners r = r_owners r') by congruence.
  assert (Hk : r_key_owners r = r_key_owners r') by congruence.
  split; [exact Hd|]. split; [exact Ht|]. split; [exact Hk|]. split.
  - intro b. apply (strict_sorted_unique sc (decls_of r)).
    + apply (values_sorted sc o2 o3 r H2 H3 E).
    + unfold decls_of. rewrite Hd. apply (values_sorted sc o2' o3' r' H2' H3' E').
    + intro x. rewrite (values_exact sc o2 o3 r H2 H3 E), (values_exact sc o2' o3' r' H2' H3' E').
      unfold graph_of, owners_of, key_owner. rewrite Hd, Ht, Hk. tauto.
  - rewrite (errors_none_iff sc o2 o3 r H2 H3 E), (errors_none_iff sc o2' o3' r' H2' H3' E').
    unfold graph_of, owners_of, key_owner. rewrite Hd, Ht, Hk. tauto.
Qed.

Lemma ord_id_oracle : is_oracle ord_id.
Proof. intro l. apply Permutation_refl. Qed.
Lemma ord_rev_oracle : is_oracle ord_rev.
Proof. intro l. apply Permutation_rev. Qed.

Section Tier2.
Variable sc : schema.
Hypothesis Hwf : wf_schema sc.

Lemma loaded_in sub md : loaded sc sub md -> In md sc /\ m_sub md = sub.
Proof. intros (k & H). eapply reg_get_in; eauto. Qed.

Lemma loaded_sorted sub md : loaded sc sub md <-> In md (sorted_modules sc sub).
Proof. symmetry. apply sorted_modules_spec. exact Hwf. Qed.

(* ---------------- wholeModule and part_of *)
Lemma whole_module_spec md : loaded sc false md -> forall m, In m (whole_module sc md) <-> part_of sc md m.
Proof.
  intros L. destruct (loaded_in _ _ L) as (Hin & Hs).
  unfold whole_module. rewrite Hs.
  destruct (whole_loop_spec sc Hwf (whole_fuel sc md) [] [md]) as (A & B & C).
  { simpl. rewrite unseen_nil_total. unfold whole_fuel. lia. }
  { intros x [<-|[]]. exact Hin. }
  intro m. split.
  - intro Hm. destruct (C m Hm) as (y & [<-|[]] & Hr).
    clear Hm. apply clos_rt_rtn1 in Hr. induction Hr as [|u v Huv _ IH]; [constructor|].
    unfold inc in Huv. apply included_spec in Huv. destruct Huv as (n & dt & Hn & Hv).
    eapply part_incl; eauto.
  - induction 1 as [|m n dt s _ IH Hn Hs'].
    + destruct (A md (or_introl eq_refl)) as [H|H]; [discriminate|exact H].
    + destruct (B m IH s) as [H|H]; [|discriminate|exact H].
      apply included_spec. exists n, dt. auto.
Qed.

Lemma visible_spec m : visible sc m <-> exists md, In md (sorted_modules sc false) /\ In m (whole_module sc md).
Proof.
  unfold visible. split; intros (md & H1 & H2); exists md.
  - split; [apply loaded_sorted; auto|]. apply whole_module_spec; auto.
  - apply loaded_sorted in H1. split; auto. apply whole_module_spec; auto.
Qed.

(* ---------------- link errors *)
Lemma link_errors_spec er : In er (link_errors sc) <-> exists m, visible sc m /\ In er (link_errors_of sc m).
Proof.
  unfold link_errors. rewrite in_flat_map. split.
  - intros (md & Hmd & H). apply in_flat_map in H. destruct H as (m & Hm & He). exists m. split; auto.
    apply visible_spec. eauto.
  - intros (m & Hv & He). apply visible_spec in Hv. destruct Hv as (md & H1 & H2).
    exists md. split; auto. apply in_flat_map. eauto.
Qed.

Lemma link_errors_of_in m er : In er (link_errors_of sc m) <->
  (exists n dt, er = ErrLink (m_name m) n /\ In (n, dt) (m_includes m) /\ find_module sc true n dt = None) \/
  (exists p n dt, er = ErrLink (m_name m) n /\ In (p, n, dt) (m_imports m) /\ find_module sc false n dt = None).
Proof.
  unfold link_errors_of. rewrite in_app_iff, !in_flat_map. split.
  - intros [([n dt] & Hn & H)|([[p n] dt] & Hn & H)]; cbn [fst snd] in *.
    + left. destruct (find_module sc true n dt) eqn:E; [destruct H|]. destruct H as [<-|[]]. eauto 6.
    + right. destruct (find_module sc false n dt) eqn:E; [destruct H|]. destruct H as [<-|[]]. eauto 7.
  - intros [(n & dt & -> & Hn & E)|(p & n & dt & -> & Hn & E)].
    + left. exists (n, dt). split; auto. cbn [fst snd]. rewrite E. left; auto.
    + right. exists (p, n, dt). split; auto. cbn [fst snd]. rewrite E. left; auto.
Qed.

Lemma link_errors_nil : link_errors sc = [] <-> links_ok sc.
Proof.
  rewrite nil_iff. unfold links_ok. split.
  - intros H m Hv. split.
    + intros n dt Hn E. apply (H (ErrLink (m_name m) n)). apply link_errors_spec. exists m. split; auto.
      apply link_errors_of_in. left. eauto.
    + intros p n dt Hn E. apply (H (ErrLink (m_name m) n)). apply link_errors_spec. exists m. split; auto.
      apply link_errors_of_in. right. eauto 6.
  - intros H er He. apply link_errors_spec in He. destruct He as (m & Hv & He).
    destruct (H m Hv) as (H1 & H2). apply link_errors_of_in in He.
    destruct He as [(n & dt & _ & Hn & E)|(p & n & dt & _ & Hn & E)].
    + eapply H1; eauto.
    + eapply H2; eauto.
Qed.

(* ---------------- the dictionary *)
Definition set_all {A} (d : list (key * A)) (l : list (key * A)) : list (key * A) :=
  fold_left (fun d ke => dict_set d (fst ke) (snd ke)) l d.

Lemma set_all_get {A} : forall (l d : list (key * A)) k,
  (dict_get (set_all d l) k = dict_get d k /\ forall e, ~ In (k, e) l) \/
  (exists e, In (k, e) l /\ dict_get (set_all d l) k = Some e).
Proof.
  induction l as [|[k0 e0] l IH]; intros d k; cbn [set_all fold_left].
  - left. split; auto.
  - fold (set_all (dict_set d k0 e0) l). cbn [fst snd].
    destruct (IH (dict_set d k0 e0) k) as [(H1 & H2)|(e & H1 & H2)].
    + rewrite dict_get_set in H1. destruct (String.eqb_spec k0 k) as [->|N].
      * right. exists e0. split; [left; auto|exact H1].
      * left. split; auto. intros e [H|H]; [congruence|]. eapply H2; eauto.
    + right. exists e. split; [right; auto|exact H2].
Qed.

Definition part_entries (md m : module) : list (key * entry) :=
  map (fun i => (identity_key (owner_for sc md m) (i_name i), (m, i))) (m_idents m).
Definition module_entries (md : module) : list (key * entry) :=
  flat_map (part_entries md) (whole_module sc md).
Definition insertions : list (key * entry) := flat_map module_entries (sorted_modules sc false).

Lemma fold_left_flat_map {A B C} (f : A -> C -> A) (gg : B -> list C) l a :
  fold_left f (flat_map gg l) a = fold_left (fun a x => fold_left f (gg x) a) l a.
Proof.
  revert a. induction l as [|x l IH]; intro a; simpl; auto. rewrite fold_left_app. apply IH.
Qed.

Lemma fold_left_ext {A B} (f1 f2 : A -> B -> A) l a :
  (forall a x, f1 a x = f2 a x) -> fold_left f1 l a = fold_left f2 l a.
Proof. intro H. revert a. induction l; intro a0; simpl; auto. rewrite H. auto. Qed.

Lemma fst_fold {A B C} (F : A * B -> C -> A * B) (G : A -> C -> A) l st :
  (forall st x, fst (F st x) = G (fst st) x) -> fst (fold_left F l st) = fold_left G l (fst st).
Proof. intro H. revert st. induction l as [|x l IH]; intro st; simpl; auto. rewrite IH, H. reflexivity. Qed.

Lemma fst_register_part md st m :
  fst (register_part sc md st m) = set_all (fst st) (part_entries md m).
Proof.
  unfold register_part, set_all, part_entries. cbn [fst].
  generalize (m_idents m) as l. generalize (fst st) as d0. intros d0 l. revert d0.
  induction l as [|i l IH]; intro d0; simpl; auto.
Qed.

Lemma fst_pass1 : fst (pass1 sc) = set_all [] insertions.
Proof.
  unfold pass1. cbn [fst]. unfold insertions, set_all.
  rewrite fold_left_flat_map.
  rewrite (fst_fold (register_module sc)
             (fun d md => fold_left (fun d ke => dict_set d (fst ke) (snd ke)) (module_entries md) d)).
  - reflexivity.
  - intros st md. unfold register_module, module_entries. rewrite fold_left_flat_map.
    apply fst_fold. intros st' m. apply fst_register_part.
Qed.

Lemma insertions_spec k e : In (k, e) insertions <-> filed sc k e.
Proof.
  unfold insertions, filed. rewrite in_flat_map. split.
  - intros (md & Hmd & H). apply loaded_sorted in Hmd.
    unfold module_entries in H. apply in_flat_map in H. destruct H as (m & Hm & H).
    unfold part_entries in H. apply in_map_iff in H. destruct H as (i & Hi & Hin).
    inversion Hi; subst. exists md. cbn [fst snd]. split; auto. split; [apply whole_module_spec; auto|auto].
  - destruct e as [m i]. intros (md & L & P & Hi & ->). cbn [fst snd] in *.
    exists md. split; [apply loaded_sorted; auto|].
    unfold module_entries. apply in_flat_map. exists m. split; [apply whole_module_spec; auto|].
    unfold part_entries. apply in_map_iff. exists i. auto.
Qed.

Lemma dict_sound k e : dict_get (fst (pass1 sc)) k = Some e -> filed sc k e.
Proof.
  rewrite fst_pass1. intro H.
  destruct (set_all_get insertions [] k) as [(H1 & _)|(e' & H1 & H2)].
  - rewrite H in H1. discriminate.
  - rewrite H in H2. inversion H2; subst. apply insertions_spec. exact H1.
Qed.

Lemma dict_complete k e : filed sc k e -> exists e', dict_get (fst (pass1 sc)) k = Some e' /\ filed sc k e'.
Proof.
  intro H. apply insertions_spec in H. rewrite fst_pass1.
  destruct (set_all_get insertions [] k) as [(_ & H2)|(e' & H1 & H2)].
  - exfalso. eapply H2; eauto.
  - exists e'. split; auto. apply insertions_spec. exact H1.
Qed.

(* the owner recorded with each key *)
Definition owner_entries (md m : module) : list (key * module) :=
  map (fun i => (identity_key (owner_for sc md m) (i_name i), owner_for sc md m)) (m_idents m).
Definition owner_insertions : list (key * module) :=
  flat_map (fun md => flat_map (owner_entries md) (whole_module sc md)) (sorted_modules sc false).

Lemma register_part_owner_eq md t m :
  register_part_owner sc md t m = set_all t (owner_entries md m).
Proof.
  unfold register_part_owner, set_all, owner_entries.
  generalize (m_idents m) as l. intro l. revert t.
  induction l as [|i l IH]; intro t; simpl; auto.
Qed.

Lemma pass1_owner_eq : pass1_owner sc = set_all [] owner_insertions.
Proof.
  unfold pass1_owner, owner_insertions, set_all. rewrite fold_left_flat_map.
  apply fold_left_ext. intros t md. rewrite fold_left_flat_map.
  apply fold_left_ext. intros t' m. apply register_part_owner_eq.
Qed.

Lemma owner_insertions_spec k o : In (k, o) owner_insertions <-> key_owner_of sc k o.
Proof.
  unfold owner_insertions, key_owner_of. rewrite in_flat_map. split.
  - intros (md & Hmd & H). apply loaded_sorted in Hmd.
    apply in_flat_map in H. destruct H as (m & Hm & H).
    unfold owner_entries in H. apply in_map_iff in H. destruct H as (i & Hi & Hin).
    inversion Hi; subst. exists md, m, i. split; auto. split; [apply whole_module_spec; auto|auto].
  - intros (md & m & i & L & P & Hi & -> & ->).
    exists md. split; [apply loaded_sorted; auto|].
    apply in_flat_map. exists m. split; [apply whole_module_spec; auto|].
    unfold owner_entries. apply in_map_iff. exists i. auto.
Qed.

Lemma key_owner_sound k o : dict_get (pass1_owner sc) k = Some o -> key_owner_of sc k o.
Proof.
  rewrite pass1_owner_eq. intro H.
  destruct (set_all_get owner_insertions [] k) as [(H1 & _)|(o' & H1 & H2)].
  - rewrite H in H1. discriminate.
  - rewrite H in H2. inversion H2; subst. apply owner_insertions_spec. exact H1.
Qed.

Lemma key_owner_complete k o : key_owner_of sc k o ->
  exists o', dict_get (pass1_owner sc) k = Some o' /\ key_owner_of sc k o'.
Proof.
  intro H. apply owner_insertions_spec in H. rewrite pass1_owner_eq.
  destruct (set_all_get owner_insertions [] k) as [(_ & H2)|(o' & H1 & H2)].
  - exfalso. eapply H2; eauto.
  - exists o'. split; auto. apply owner_insertions_spec. exact H1.
Qed.

Lemma dict_spec : consistent sc -> forall k e, dict_get (fst (pass1 sc)) k = Some e <-> filed sc k e.
Proof.
  intros Hc k e. split; [apply dict_sound|].
  intro H. destruct (dict_complete k e H) as (e' & H1 & H2). rewrite H1. f_equal. eapply Hc; eauto.
Qed.
End Tier2.

Section RunTier2.
Variables (sc : schema) (o2 o3 : list string -> list string) (r : result).
Hypothesis Hwf : wf_schema sc.
Hypothesis Ho2 : is_oracle o2.
Hypothesis Ho3 : is_oracle o3.
Hypothesis Hrun : resolve_identities o2 o3 sc = Some r.

Theorem dictionary_sound k e : dict_get (r_dict r) k = Some e -> filed sc k e.
Proof. rewrite (proj1 (resolve_inv sc o2 o3 r Ho2 Ho3 Hrun)). apply dict_sound; auto. Qed.

Theorem dictionary_complete k e : filed sc k e -> exists e', dict_get (r_dict r) k = Some e' /\ filed sc k e'.
Proof. rewrite (proj1 (resolve_inv sc o2 o3 r Ho2 Ho3 Hrun)). apply dict_complete; auto. Qed.

Theorem dictionary_spec : consistent sc -> forall k e, dict_get (r_dict r) k = Some e <-> filed sc k e.
Proof. rewrite (proj1 (resolve_inv sc o2 o3 r Ho2 Ho3 Hrun)). apply dict_spec; auto. Qed.

Theorem key_owner_run_sound k o : dict_get (r_key_owners r) k = Some o -> key_owner_of sc k o.
Proof.
  destruct (resolve_inv sc o2 o3 r Ho2 Ho3 Hrun) as (_ & _ & -> & _). apply key_owner_sound; auto.
Qed.

Theorem key_owner_run_complete k o : key_owner_of sc k o ->
  exists o', dict_get (r_key_owners r) k = Some o' /\ key_owner_of sc k o'.
Proof.
  destruct (resolve_inv sc o2 o3 r Ho2 Ho3 Hrun) as (_ & _ & -> & _). apply key_owner_complete; auto.
Qed.

Theorem error_missing_link m n :
  visible sc m ->
  (exists dt, In (n, dt) (m_includes m) /\ find_module sc true n dt = None) \/
  (exists p dt, In (p, n, dt) (m_imports m) /\ find_module sc false n dt = None) ->
  In (ErrLink (m_name m) n) (r_errors r).
Proof.
  intros Hv H. apply (error_link sc o2 o3 r Ho2 Ho3 Hrun). apply link_errors_spec; auto.
  exists m. split; auto. apply link_errors_of_in.
  destruct H as [(dt & H1 & H2)|(p & dt & H1 & H2)]; [left|right]; eauto 7.
Qed.

Theorem errors_none_iff' :
  r_errors r = [] <->
  links_ok sc /\ all_resolve sc (graph_of r) (owners_of r) (key_owner r) /\
  acyclic sc (graph_of r) (owners_of r) (key_owner r).
Proof.
  rewrite (errors_none_iff sc o2 o3 r Ho2 Ho3 Hrun). rewrite (link_errors_nil sc Hwf). tauto.
Qed.
End RunTier2.

Lemma wf_nodup sc :
  NoDup (map (fun m => (m_sub m, full_name m)) sc) -> wf_schema sc.
Proof.
  intros N x y Hx Hy H. unfold same_mod in H. apply andb_prop in H. destruct H as (H1 & H2).
  apply Bool.eqb_prop in H1. apply String.eqb_eq in H2.
  revert N Hx Hy. induction sc as [|z l IH]; intros N Hx Hy; [destruct Hx|].
  cbn [map] in N. inversion N as [|? ? Nz N']; subst.
  destruct Hx as [->|Hx], Hy as [->|Hy]; auto.
  - exfalso. apply Nz. apply in_map_iff. exists y. split; auto. rewrite H1, H2. reflexivity.
  - exfalso. apply Nz. apply in_map_iff. exists x. split; auto. rewrite H1, H2. reflexivity.
Qed.

(* ---------------- the owners table *)
Lemma same_mod_false_l m0 m m' : same_mod m0 m = true -> same_mod m m' = false -> same_mod m0 m' = false.
Proof.
  intros H1 H2. destruct (same_mod m0 m') eqn:E; auto.
  rewrite same_mod_sym in H1. rewrite (same_mod_trans _ _ _ H1 E) in H2. discriminate.
Qed.

Lemma owners_get_set t m l m' :
  owners_get (owners_set t m l) m' = if same_mod m m' then l else owners_get t m'.
Proof.
  induction t as [|[m0 l0] r IH]; cbn [owners_set owners_get]; [reflexivity|].
  destruct (same_mod m0 m) eqn:E0; cbn [owners_get].
  - destruct (same_mod m m') eqn:E; auto. rewrite (same_mod_false_l _ _ _ E0 E). reflexivity.
  - rewrite IH. destruct (same_mod m0 m') eqn:E1; auto.
    destruct (same_mod m m') eqn:E; auto.
    rewrite same_mod_sym in E. rewrite (same_mod_trans _ _ _ E1 E) in E0. discriminate.
Qed.

Lemma owners_has_get t m : owners_get t m <> [] -> owners_has t m = true.
Proof.
  unfold owners_has. induction t as [|[m0 l0] r IH]; cbn [owners_get existsb fst]; [congruence|].
  destruct (same_mod m0 m); auto.
Qed.

Lemma owners_has_set t m l m' : owners_has t m' = true -> owners_has (owners_set t m l) m' = true.
Proof.
  unfold owners_has. induction t as [|[m0 l0] r IH]; cbn [owners_set existsb fst]; [discriminate|].
  destruct (same_mod m0 m) eqn:E0; cbn [existsb fst].
  - intro H. apply orb_prop in H. destruct H as [H|H]; [|rewrite H; apply orb_true_r].
    rewrite same_mod_sym in E0. rewrite (same_mod_trans _ _ _ E0 H). reflexivity.
  - intro H. apply orb_prop in H. destruct H as [H|H]; [rewrite H; reflexivity|].
    rewrite (IH H). apply orb_true_r.
Qed.

Lemma owners_has_same t m m' : same_mod m m' = true -> owners_has t m = owners_has t m'.
Proof.
  intro H. unfold owners_has. induction t as [|[m0 l0] r IH]; cbn [existsb fst]; auto.
  rewrite IH. f_equal. destruct (same_mod m0 m) eqn:E.
  - symmetry. eapply same_mod_trans; eauto.
  - symmetry. destruct (same_mod m0 m') eqn:E'; auto.
    rewrite same_mod_sym in H. rewrite (same_mod_trans _ _ _ E' H) in E. discriminate.
Qed.

Section Owners.
Variable sc : schema.
Hypothesis Hwf : wf_schema sc.

Definition own_step (T : owners_table) (p : module * module) : owners_table :=
  owners_set T (snd p) (append_module_if_not_in (owners_get T (snd p)) (owner_for sc (fst p) (snd p))).

Definition visits (mods : list module) : list (module * module) :=
  flat_map (fun md => map (pair md) (whole_module sc md)) mods.

Lemma snd_fold {A B C} (F : A * B -> C -> A * B) (G : B -> C -> B) l st :
  (forall st x, snd (F st x) = G (snd st) x) -> snd (fold_left F l st) = fold_left G l (snd st).
Proof. intro H. revert st. induction l as [|x l IH]; intro st; simpl; auto. rewrite IH, H. reflexivity. Qed.

Lemma fold_left_map {A B C} (f : A -> B -> A) (gg : C -> B) l a :
  fold_left f (map gg l) a = fold_left (fun a x => f a (gg x)) l a.
Proof. revert a. induction l; intro a0; simpl; auto. Qed.

Lemma snd_register mods st :
  snd (fold_left (register_module sc) mods st) = fold_left own_step (visits mods) (snd st).
Proof.
  unfold visits. rewrite fold_left_flat_map.
  apply snd_fold. intros st' md. unfold register_module. rewrite fold_left_map.
  apply snd_fold. intros st'' m. reflexivity.
Qed.

Lemma owner_for_in md m : In md sc -> In m sc -> In (owner_for sc md m) sc.
Proof.
  intros H1 H2. unfold owner_for. destruct (m_sub m && negb (m_belongs m =? m_name md)); auto.
  destruct (reg_get sc false (m_belongs m)) as [o|] eqn:E; auto. apply (reg_get_in _ _ _ _ E).
Qed.

Lemma same_mod_eq x y : In x sc -> In y sc -> (same_mod x y = true <-> x = y).
Proof. intros Hx Hy. split; [apply Hwf; auto|intros ->; apply same_mod_refl]. Qed.

Lemma append_in l o w : incl l sc -> In o sc ->
  (In w (append_module_if_not_in l o) <-> In w l \/ w = o).
Proof.
  intros Hl Ho. unfold append_module_if_not_in. destruct (is_seen o l) eqn:E.
  - split; auto. intros [H| ->]; auto.
    apply is_seen_spec in E. destruct E as (y & Hy & Hs). apply Hwf in Hs; auto. subst; auto.
  - rewrite in_app_iff. simpl. intuition.
Qed.

Definition good_table (T : owners_table) : Prop := forall m w, In w (owners_get T m) -> In w sc.

Lemma fold_owners : forall pairs T,
  (forall md m, In (md, m) pairs -> In md sc /\ In m sc) -> good_table T ->
  good_table (fold_left own_step pairs T) /\
  forall m, In m sc -> forall w,
    In w (owners_get (fold_left own_step pairs T) m) <->
    In w (owners_get T m) \/ exists md, In (md, m) pairs /\ w = owner_for sc md m.
Proof.
  induction pairs as [|[md0 m0] pairs IH]; intros T Hp HT; cbn [fold_left].
  - split; auto. intros m Hm w. split; auto. intros [H|(md & [] & _)]; auto.
  - destruct (Hp md0 m0 (or_introl eq_refl)) as (Hmd0 & Hm0).
    pose proof (owner_for_in md0 m0 Hmd0 Hm0) as Ho.
    assert (HT1 : good_table (own_step T (md0, m0))).
    { intros m w. unfold own_step. cbn [fst snd]. rewrite owners_get_set.
      destruct (same_mod m0 m); [|apply HT].
      rewrite append_in; auto; [|intros x Hx; eapply HT; eauto]. intros [H| ->]; auto. eapply HT; eauto. }
    destruct (IH (own_step T (md0, m0))) as (G & I); auto.
    { intros md m H. apply Hp. right; auto. }
    split; auto. intros m Hm w. rewrite (I m Hm w). unfold own_step. cbn [fst snd]. rewrite owners_get_set.
    destruct (same_mod m0 m) eqn:E.
    + apply (same_mod_eq m0 m Hm0 Hm) in E. subst m0.
      rewrite append_in; auto; [|intros x Hx; eapply HT; eauto]. split.
      * intros [[H| ->]|(md & H & ->)]; auto.
        -- right. exists md0. split; auto. left; auto.
        -- right. exists md. split; auto. right; auto.
      * intros [H|(md & [H|H] & ->)]; auto.
        -- inversion H; subst. auto.
        -- right. exists md. auto.
    + split.
      * intros [H|(md & H & ->)]; auto. right. exists md. split; auto. right; auto.
      * intros [H|(md & [H|H] & ->)]; auto.
        -- inversion H; subst. rewrite same_mod_refl in E. discriminate.
        -- right. exists md. auto.
Qed.

Lemma lone_keeps : forall subs T m, owners_has T m = true ->
  owners_has (fold_left (lone_submodule sc) subs T) m = true /\
  owners_get (fold_left (lone_submodule sc) subs T) m = owners_get T m.
Proof.
  induction subs as [|s subs IH]; intros T m H; cbn [fold_left]; auto.
  unfold lone_submodule at 2 4. destruct (owners_has T s) eqn:Es; [apply IH; auto|].
  destruct (IH (owners_set T s [match reg_get sc false (m_belongs s) with Some o => o | None => s end]) m)
    as (A & B). { apply owners_has_set; auto. }
  split; auto. rewrite B. rewrite owners_get_set.
  destruct (same_mod s m) eqn:E; auto.
  rewrite (owners_has_same T s m E) in Es. congruence.
Qed.

Lemma visible_in m : visible sc m -> In m sc.
Proof.
  intros (md & L & P). destruct (loaded_in sc _ _ L) as (Hmd & _).
  induction P as [|m n dt s _ _ _ Hs]; auto. apply (find_module_in _ _ _ _ _ Hs).
Qed.

Theorem owners_spec m : visible sc m ->
  forall w, In w (owners_get (snd (pass1 sc)) m) <-> owner_of sc m w.
Proof.
  intros Hv w. pose proof (visible_in m Hv) as Hm.
  unfold pass1. cbn [snd]. rewrite snd_register. cbn [snd].
  destruct (fold_owners (visits (sorted_modules sc false)) []) as (G & I).
  { intros md m' H. unfold visits in H. apply in_flat_map in H. destruct H as (md' & Hmd & H).
    apply in_map_iff in H. destruct H as (m'' & Hp & Hin). inversion Hp; subst.
    apply loaded_sorted in Hmd; auto. split; [apply (loaded_in sc _ _ Hmd)|].
    apply visible_in. exists md. split; auto. apply whole_module_spec; auto. }
  { intros m' w' []. }
  assert (Hiff : forall w', In w' (owners_get (fold_left own_step (visits (sorted_modules sc false)) []) m) <->
                            owner_of sc m w').
  { intro w'. rewrite (I m Hm w'). cbn [owners_get]. unfold owner_of, visits. split.
    - intros [[]|(md & H & ->)]. apply in_flat_map in H. destruct H as (md' & Hmd & H).
      apply in_map_iff in H. destruct H as (m'' & Hp & Hin). inversion Hp; subst.
      apply loaded_sorted in Hmd; auto. exists md. split; auto. split; auto. apply whole_module_spec; auto.
    - intros (md & L & P & ->). right. exists md. split; auto.
      apply in_flat_map. exists md. split; [apply loaded_sorted; auto|].
      apply in_map_iff. exists m. split; auto. apply whole_module_spec; auto. }
  destruct (lone_keeps (sorted_modules sc true) (fold_left own_step (visits (sorted_modules sc false)) []) m) as (_ & E).
  { apply owners_has_get. destruct Hv as (md & L & P).
    intro Hnil. assert (Hw : owner_of sc m (owner_for sc md m)) by (exists md; auto).
    apply Hiff in Hw. rewrite Hnil in Hw. destruct Hw. }
  rewrite E. apply Hiff.
Qed.
End Owners.

Theorem owners_run sc o2 o3 r : wf_schema sc -> is_oracle o2 -> is_oracle o3 ->
  resolve_identities o2 o3 sc = Some r ->
  forall m, visible sc m -> forall w, In w (owners_get (r_owners r) m) <-> owner_of sc m w.
Proof.
  intros Hwf H2 H3 E. destruct (resolve_inv sc o2 o3 r H2 H3 E) as (_ & -> & _). apply owners_spec; auto.
Qed.
