(* Lemmas for C03: the table-driven builder (Model/Ast.v) against the grouping spec (Spec/C03.v). *)
From Coq Require Import Ascii String List Bool Arith Lia.
From GY Require Import Base.Outcome Model.Ast Spec.C03.
Import ListNotations.

(* ------------------------------------------------------------------ induction over statement trees *)

Fixpoint stmt_ind' (P : stmt -> Prop)
  (H : forall kw ha a i subs, Forall P subs -> P (Stmt kw ha a i subs)) (s : stmt) : P s :=
  match s with
  | Stmt kw ha a i subs =>
      H kw ha a i subs
        ((fix go (l : list stmt) : Forall P l :=
            match l with
            | [] => Forall_nil P
            | x :: r => Forall_cons x (stmt_ind' P H x) (go r)
            end) subs)
  end.

(* ------------------------------------------------------------------ lists, association lists *)

Lemma mem_In : forall k l, mem k l = true <-> In k l.
Proof.
  intros k l. unfold mem. rewrite existsb_exists. split.
  - intros [x [H1 H2]]. apply String.eqb_eq in H2. subst. exact H1.
  - intro H. exists k. split; [exact H | apply String.eqb_refl].
Qed.

Lemma mem_false_In : forall k l, mem k l = false <-> ~ In k l.
Proof.
  intros k l. rewrite <- mem_In. destruct (mem k l); split; intro H; try discriminate; auto.
  exfalso. apply H. reflexivity.
Qed.

Lemma nodupb_NoDup : forall l, nodupb l = true -> NoDup l.
Proof.
  induction l as [|x r IH]; simpl; intro H; [constructor|].
  apply andb_true_iff in H as [H1 H2]. constructor; [|auto].
  intro HI. apply mem_In in HI. rewrite HI in H1. discriminate.
Qed.

Lemma NoDup_map_inj : forall {A} (g : A -> string) l a b,
  NoDup (map g l) -> In a l -> In b l -> g a = g b -> a = b.
Proof.
  intros A g l a b. induction l as [|x r IH]; simpl; intros ND Ha Hb E; [contradiction|].
  inversion ND as [|? ? Hn Hr]; subst.
  destruct Ha as [Ha|Ha], Hb as [Hb|Hb]; subst; auto.
  - exfalso. apply Hn. rewrite E. apply in_map. exact Hb.
  - exfalso. apply Hn. rewrite <- E. apply in_map. exact Ha.
Qed.

Lemma forallb_false : forall {A} (p : A -> bool) l,
  forallb p l = false -> exists x, In x l /\ p x = false.
Proof.
  intros A p l. induction l as [|x r IH]; simpl; intro H; [discriminate|].
  destruct (p x) eqn:E.
  - simpl in H. destruct (IH H) as [y [H1 H2]]. exists y. auto.
  - exists x. auto.
Qed.

Lemma lookup_In : forall {A} k (l : list (string * A)) v, lookup k l = Some v -> In (k, v) l.
Proof.
  intros A k l v. unfold lookup. destruct (find _ l) as [[k' v']|] eqn:E; intro H; [|discriminate].
  inversion H; subst. apply find_some in E as [H1 H2]. simpl in *.
  apply String.eqb_eq in H2. subst. exact H1.
Qed.

Lemma find_field : forall sd k f, field_of sd k = Some f -> In f (s_fields sd) /\ f_key f = k.
Proof.
  intros sd k f H. unfold field_of in H. apply find_some in H as [H1 H2].
  apply String.eqb_eq in H2. auto.
Qed.

Lemma field_of_complete : forall sd k f,
  NoDup (map f_key (s_fields sd)) -> In f (s_fields sd) -> f_key f = k -> field_of sd k = Some f.
Proof.
  intros sd k f ND HI HK. destruct (field_of sd k) as [f'|] eqn:E.
  - apply find_field in E as [H1 H2]. f_equal.
    apply (NoDup_map_inj f_key (s_fields sd)); auto. congruence.
  - exfalso. unfold field_of in E. apply (find_none _ _ E) in HI.
    rewrite HK, String.eqb_refl in HI. discriminate.
Qed.

Lemma get_upd_eq : forall k g fs, In k (map fst fs) -> get k (upd k g fs) = g (get k fs).
Proof.
  intros k g fs. induction fs as [|[k' v] r IH]; simpl; intro H; [contradiction|].
  destruct (String.eqb k' k) eqn:E; simpl; rewrite E; [reflexivity|].
  apply IH. destruct H as [H|H]; [|exact H]. apply String.eqb_neq in E. contradiction.
Qed.

Lemma get_upd_neq : forall k k' g fs, k' <> k -> get k' (upd k g fs) = get k' fs.
Proof.
  intros k k' g fs N. induction fs as [|[k0 v] r IH]; simpl; [reflexivity|].
  destruct (String.eqb k0 k) eqn:E; simpl.
  - apply String.eqb_eq in E. subst k0.
    destruct (String.eqb k k') eqn:E2; [|reflexivity].
    apply String.eqb_eq in E2. congruence.
  - destruct (String.eqb k0 k'); [reflexivity | exact IH].
Qed.

Lemma map_fst_upd : forall k g fs, map fst (upd k g fs) = map fst fs.
Proof.
  intros k g fs. induction fs as [|[k0 v] r IH]; simpl; [reflexivity|].
  destruct (String.eqb k0 k); simpl; [reflexivity | rewrite IH; reflexivity].
Qed.

Lemma total_upd : forall k g fs, In k (map fst fs) ->
  total (upd k g fs) + length (get k fs) = total fs + length (g (get k fs)).
Proof.
  intros k g fs. induction fs as [|[k0 v] r IH]; simpl; intro H; [contradiction|].
  destruct (String.eqb k0 k) eqn:E; simpl.
  - lia.
  - destruct H as [H|H]; [apply String.eqb_neq in E; contradiction|].
    specialize (IH H). fold (total r). fold (total (upd k g r)). lia.
Qed.

Lemma get_init : forall sd k, get k (init_fields sd) = [].
Proof.
  intros sd k. unfold init_fields. induction (child_keys sd) as [|x r IH]; simpl; [reflexivity|].
  destruct (String.eqb x k); [reflexivity | exact IH].
Qed.

Lemma total_init : forall sd, total (init_fields sd) = 0.
Proof.
  intro sd. unfold init_fields. induction (child_keys sd) as [|x r IH]; simpl; [reflexivity | exact IH].
Qed.

Lemma map_fst_init : forall sd, map fst (init_fields sd) = child_keys sd.
Proof.
  intro sd. unfold init_fields. rewrite map_map. simpl. apply map_id.
Qed.

Lemma filter_ext_in : forall {A} (p q : A -> bool) l,
  (forall x, In x l -> p x = q x) -> filter p l = filter q l.
Proof.
  intros A p q l. induction l as [|x r IH]; simpl; intro H; [reflexivity|].
  rewrite (H x (or_introl eq_refl)). rewrite IH; [reflexivity|]. intros y Hy. apply H. right. exact Hy.
Qed.

Lemma Forall2_length' : forall {A B} (R : A -> B -> Prop) l1 l2, Forall2 R l1 l2 -> length l1 = length l2.
Proof. intros A B R l1 l2 H. induction H; simpl; congruence. Qed.

Lemma kids_app : forall k l1 l2, kids k (l1 ++ l2) = kids k l1 ++ kids k l2.
Proof. intros. unfold kids. apply filter_app. Qed.

Lemma kids_In_length : forall k l, In k (kws l) -> 1 <= length (kids k l).
Proof.
  intros k l. unfold kws, kids. induction l as [|x r IH]; simpl; intro H; [contradiction|].
  destruct (String.eqb (kw_of x) k) eqn:E; simpl; [lia|].
  destruct H as [H|H]; [apply String.eqb_neq in E; contradiction | auto].
Qed.

(* ------------------------------------------------------------------ classification *)

Lemma special_kw_false : forall k, special_kw k = false ->
  k <> "Name"%string /\ k <> "Statement"%string /\ k <> "Parent"%string.
Proof.
  intros k H. unfold special_kw in H.
  apply orb_false_iff in H as [H H3]. apply orb_false_iff in H as [H1 H2].
  apply String.eqb_neq in H1, H2, H3. auto.
Qed.

Lemma classify_KField_inv : forall sd k f, classify sd k = KField f ->
  special_kw k = false /\ String.eqb k "Ext" = false /\ field_of sd k = Some f.
Proof.
  intros sd k f. unfold classify, func_of.
  destruct (special_kw k); [destruct (prefixed k); discriminate|].
  destruct (String.eqb k "Ext"); [destruct (prefixed k); discriminate|].
  destruct (field_of sd k); [|destruct (prefixed k); discriminate].
  intro H. inversion H. auto.
Qed.

Lemma is_ext_in_KExt : forall sd ss, is_ext_in sd ss = true <-> classify sd (kw_of ss) = KExt.
Proof.
  intros sd ss. unfold is_ext_in. destruct (classify sd (kw_of ss)); split; intro H; try discriminate; auto.
Qed.

Definition is_field_in (sd : sdef) (ss : stmt) : bool :=
  match classify sd (kw_of ss) with KField _ => true | _ => false end.

(* ------------------------------------------------------------------ consequences of schema_wf *)

Section WF.
Variable S : schema.
Hypothesis WF : schema_wf S = true.

Lemma wf_structs : forall sd, In sd (sc_structs S) -> struct_wf S sd = true.
Proof.
  intros sd H. unfold schema_wf in WF. repeat (apply andb_true_iff in WF as [WF ?]).
  rewrite forallb_forall in WF. apply WF. exact H.
Qed.

Lemma wf_names : forall k ty, lookup k (sc_names S) = Some ty -> node_struct_wf S ty = true.
Proof.
  intros k ty H. apply lookup_In in H.
  pose proof WF as W. unfold schema_wf in W. repeat (apply andb_true_iff in W as [W ?]).
  match goal with HH : forallb (fun p => node_struct_wf S (snd p)) _ = true |- _ =>
    rewrite forallb_forall in HH; apply (HH (k, ty)); exact H end.
Qed.

Lemma find_struct_In : forall ty sd, find_struct S ty = Some sd -> In sd (sc_structs S).
Proof. intros ty sd H. unfold find_struct in H. apply find_some in H as [H _]. exact H. Qed.

Lemma find_struct_wf : forall ty sd, find_struct S ty = Some sd -> struct_wf S sd = true.
Proof. intros ty sd H. apply wf_structs. eapply find_struct_In. exact H. Qed.

Lemma struct_wf_fields : forall sd f, struct_wf S sd = true -> In f (s_fields sd) -> field_wf S f = true.
Proof.
  intros sd f H HI. unfold struct_wf in H. repeat (apply andb_true_iff in H as [H ?]).
  rewrite forallb_forall in H. apply H. exact HI.
Qed.

Lemma struct_wf_nodup : forall sd, struct_wf S sd = true -> NoDup (map f_key (s_fields sd)).
Proof.
  intros sd H. unfold struct_wf in H. repeat (apply andb_true_iff in H as [H ?]).
  apply nodupb_NoDup. assumption.
Qed.

(* what the name map guarantees about the struct of a keyword *)
Lemma struct_of_wf : forall kw ty o, struct_of S kw = Some (ty, o) ->
  exists sd, o = Some sd /\ find_struct S ty = Some sd /\ s_isnode sd = true /\ struct_wf S sd = true /\
    lookup (alias S kw) (sc_names S) = Some ty /\
    (forall a, special_name sd a = Ok a) /\
    (forall i, special_src sd i = Ok (Some i)) /\
    (forall p, good_parent S p -> special_parent S sd p = Ok (option_map snd p)).
Proof.
  intros kw ty o H. unfold struct_of in H.
  destruct (lookup (alias S kw) (sc_names S)) as [ty'|] eqn:EL; [|discriminate].
  inversion H; subst ty' o. clear H.
  pose proof (wf_names _ _ EL) as NW. unfold node_struct_wf in NW.
  destruct (find_struct S ty) as [sd|] eqn:EF; [|discriminate].
  repeat (apply andb_true_iff in NW as [NW ?]).
  exists sd. split; [reflexivity|]. split; [reflexivity|]. split; [exact NW|].
  split; [eapply find_struct_wf; exact EF|]. split; [reflexivity|].
  unfold has_field in *.
  split; [|split].
  - intro a. unfold special_name. destruct (field_of sd "Name") as [f|]; [|discriminate].
    destruct (f_kind f); try discriminate. reflexivity.
  - intro i. unfold special_src. destruct (field_of sd "Statement") as [f|]; [|discriminate].
    destruct (f_kind f); try discriminate. reflexivity.
  - intros p GP. unfold special_parent. destruct (field_of sd "Parent") as [f|]; [|discriminate].
    destruct (f_kind f); try discriminate.
    destruct p as [[pty pid]|]; [|reflexivity].
    simpl in GP. destruct GP as [psd [G1 G2]]. rewrite G1, G2. reflexivity.
Qed.

(* a keyword that the loop files under a field: the field is a child field whose struct is the one
   the keyword builds *)
Lemma classify_field : forall sd k f, struct_wf S sd = true -> classify sd k = KField f ->
  In f (s_fields sd) /\ f_key f = k /\ In k (child_keys sd) /\
  exists t, (f_kind f = FSingle t \/ f_kind f = FMulti t) /\ lookup (alias S k) (sc_names S) = Some t.
Proof.
  intros sd k f SW HC. apply classify_KField_inv in HC as [Hsp [HE HF]].
  apply find_field in HF as [HI HK].
  pose proof (struct_wf_fields _ _ SW HI) as FW. unfold field_wf in FW.
  apply andb_true_iff in FW as [FW _]. apply andb_true_iff in FW as [KK TG].
  apply special_kw_false in Hsp as [N1 [N2 N3]]. apply String.eqb_neq in HE.
  unfold key_kind_ok in KK. unfold field_target_ok in TG. rewrite HK in *.
  assert (CK : is_child_kind (f_kind f) = true -> In k (child_keys sd)).
  { intro C. unfold child_keys. rewrite <- HK. apply in_map. apply filter_In. auto. }
  destruct (f_kind f) as [| | | |t|t|] eqn:EK; try (apply String.eqb_eq in KK; congruence); try discriminate.
  - split; [exact HI|]. split; [reflexivity|]. split; [apply CK; reflexivity|].
    exists t. split; [left; reflexivity|].
    destruct (lookup (alias S k) (sc_names S)) as [t'|]; [|discriminate].
    apply String.eqb_eq in TG. congruence.
  - split; [exact HI|]. split; [reflexivity|]. split; [apply CK; reflexivity|].
    exists t. split; [right; reflexivity|].
    destruct (lookup (alias S k) (sc_names S)) as [t'|]; [|discriminate].
    apply String.eqb_eq in TG. congruence.
Qed.

Lemma child_key_classify : forall sd k, struct_wf S sd = true -> In k (child_keys sd) ->
  exists f, classify sd k = KField f.
Proof.
  intros sd k SW HI. unfold child_keys in HI. apply in_map_iff in HI as [f [HK HF]].
  apply filter_In in HF as [HI HC].
  pose proof (struct_wf_fields _ _ SW HI) as FW. unfold field_wf in FW.
  apply andb_true_iff in FW as [FW _]. apply andb_true_iff in FW as [KK _].
  exists f. unfold classify, func_of.
  assert (special_kw k = false /\ String.eqb k "Ext" = false) as [E1 E2].
  { unfold key_kind_ok in KK. rewrite HK in KK.
    destruct (f_kind f); try discriminate;
      apply andb_true_iff in KK as [K1 K2]; apply negb_true_iff in K1, K2; auto. }
  rewrite E1, E2. rewrite (field_of_complete sd k f); auto. apply struct_wf_nodup. exact SW.
Qed.

Lemma ext_field_kind : forall sd f, struct_wf S sd = true -> field_of sd "Ext" = Some f -> f_kind f = FExt.
Proof.
  intros sd f SW HF. apply find_field in HF as [HI HK].
  pose proof (struct_wf_fields _ _ SW HI) as FW. unfold field_wf in FW.
  apply andb_true_iff in FW as [FW _]. apply andb_true_iff in FW as [KK _].
  unfold key_kind_ok in KK. rewrite HK in KK.
  destruct (f_kind f); try reflexivity; try discriminate.
Qed.

Lemma mirror_ty : forall ss p n, mirror S ss p n ->
  exists ty sd, struct_of S (kw_of ss) = Some (ty, Some sd) /\ n_ty n = ty.
Proof. intros ss p n H. inversion H; subst. simpl. eauto. Qed.

(* ------------------------------------------------------------------ one iteration of the loop *)

Definition good_sub (sd : sdef) (ss : stmt) : Prop :=
  match classify sd (kw_of ss) with
  | KField _ => ~ rejects S ss
  | KExt => field_of sd "Ext" <> None
  | KUnknown => False
  end.

Definition single_inv (sd : sdef) (fs : list (string * list node)) : Prop :=
  forall f t, In f (s_fields sd) -> f_kind f = FSingle t -> length (get (f_key f) fs) <= 1.

Definition step_post (sd : sdef) (me : pref) (ss : stmt)
  (fs : list (string * list node)) (ex : list nat) (fd : list string) (r : outcome bstate) : Prop :=
  match r with
  | Ok (fs1, ex1, fd1) =>
      fd1 = kw_of ss :: fd /\
      map fst fs1 = map fst fs /\
      ex1 = ex ++ (if is_ext_in sd ss then [id_of ss] else []) /\
      (forall k, exists c, get k fs1 = get k fs ++ c /\
         Forall2 (fun x n => mirror S x (Some me) n)
                 (if String.eqb (kw_of ss) k && is_field_in sd ss then [ss] else []) c) /\
      total fs1 + length ex1 = total fs + length ex + 1 /\
      good_sub sd ss /\
      (single_inv sd fs -> single_inv sd fs1) /\
      (forall k, get k fs1 <> [] -> get k fs <> [] \/ k = kw_of ss)
  | Err =>
      match classify sd (kw_of ss) with
      | KUnknown => True
      | KExt => field_of sd "Ext" = None
      | KField f => rejects S ss \/ exists t, f_kind f = FSingle t /\ get (kw_of ss) fs <> []
      end
  | _ => False
  end.

Lemma step_spec : forall sd me ss fs ex fd,
  struct_wf S sd = true ->
  (forall k, In k (child_keys sd) -> In k (map fst fs)) ->
  outcome_spec S ss (Some me) (build S ss (Some me)) ->
  step_post sd me ss fs ex fd (step sd (fun _ => build S ss (Some me)) ss (fs, ex, fd)).
Proof.
  intros sd me ss fs ex fd SW KP IH.
  unfold step, step_post. set (k := kw_of ss) in *.
  unfold is_ext_in, is_field_in, good_sub. fold k.
  destruct (classify sd k) as [f| |] eqn:EC.
  - (* a field *)
    destruct (classify_field _ _ _ SW EC) as [HI [HK [HCK [t [HKD HL]]]]].
    assert (KIN : In k (map fst fs)) by (apply KP; exact HCK).
    (* the node build returns has the struct type the field holds *)
    assert (TY : forall n, mirror S ss (Some me) n -> String.eqb (n_ty n) t = true).
    { intros n M. apply mirror_ty in M as [ty [sd' [M1 M2]]]. fold k in M1.
      unfold struct_of in M1. rewrite HL in M1. inversion M1; subst. apply String.eqb_refl. }
    (* effect of filing n under k on the single-valued invariant *)
    assert (SI : forall fs1 n,
               get k fs1 = get k fs ++ [n] -> (forall k', k' <> k -> get k' fs1 = get k' fs) ->
               (forall t', f_kind f = FSingle t' -> get k fs = []) ->
               single_inv sd fs -> single_inv sd fs1).
    { intros fs1 n G1 G2 G3 INV f' t' HI' HK'.
      destruct (String.eqb (f_key f') k) eqn:E.
      - apply String.eqb_eq in E.
        assert (f' = f).
        { apply (NoDup_map_inj f_key (s_fields sd)); auto; [apply struct_wf_nodup; exact SW | congruence]. }
        subst f'. rewrite E, G1, (G3 _ HK'). simpl. lia.
      - apply String.eqb_neq in E. rewrite (G2 _ E). eapply INV; eauto. }
    assert (COMMON : forall fs1 n,
               mirror S ss (Some me) n -> ~ rejects S ss ->
               map fst fs1 = map fst fs ->
               get k fs1 = get k fs ++ [n] -> (forall k', k' <> k -> get k' fs1 = get k' fs) ->
               (forall t', f_kind f = FSingle t' -> get k fs = []) ->
               total fs1 = Datatypes.S (total fs) ->
               step_post sd me ss fs ex fd (Ok (fs1, ex, k :: fd))).
    { intros fs1 n M NR MF G1 G2 G3 TT. unfold step_post. fold k.
      unfold is_ext_in, is_field_in, good_sub. fold k. rewrite EC.
      split; [reflexivity|]. split; [exact MF|]. split; [rewrite app_nil_r; reflexivity|].
      split.
      { intro k'. destruct (String.eqb k k') eqn:E; simpl.
        - apply String.eqb_eq in E. subst k'. exists [n]. split; [exact G1|]. constructor; [exact M | constructor].
        - apply String.eqb_neq in E. exists []. rewrite app_nil_r. split; [apply G2; congruence | constructor]. }
      split; [lia|]. split; [exact NR|]. split; [apply (SI fs1 n); assumption|].
      intros k' HN. destruct (String.eqb k' k) eqn:E.
      - apply String.eqb_eq in E. right. exact E.
      - apply String.eqb_neq in E. left. rewrite <- (G2 _ E). exact HN. }
    unfold step_post in COMMON. fold k in COMMON.
    unfold is_ext_in, is_field_in, good_sub in COMMON. fold k in COMMON. rewrite EC in COMMON.
    destruct HKD as [HKD|HKD]; rewrite HKD.
    + (* single *)
      destruct (get k fs) as [|x0 r0] eqn:EG.
      * destruct (build S ss (Some me)) as [n| | |] eqn:EB; simpl in *.
        -- destruct IH as [M NR]. rewrite (TY n M).
           apply (COMMON _ n M NR).
           ++ apply map_fst_upd.
           ++ rewrite get_upd_eq by exact KIN. reflexivity.
           ++ intros k' N. apply get_upd_neq. exact N.
           ++ intros. reflexivity.
           ++ pose proof (total_upd k (fun _ => [n]) fs KIN) as T. rewrite EG in T. simpl in T. lia.
        -- left. exact IH.
        -- exact IH.
        -- exact IH.
      * right. exists t. split; [reflexivity | discriminate].
    + (* repeated *)
      destruct (build S ss (Some me)) as [n| | |] eqn:EB; simpl in *.
      * destruct IH as [M NR]. rewrite (TY n M).
        apply (COMMON _ n M NR).
        -- apply map_fst_upd.
        -- rewrite get_upd_eq by exact KIN. reflexivity.
        -- intros k' N. apply get_upd_neq. exact N.
        -- intros t' C. rewrite HKD in C. discriminate.
        -- pose proof (total_upd k (fun l => l ++ [n]) fs KIN) as T. cbv beta in T. rewrite app_length in T. simpl in T. lia.
      * left. exact IH.
      * exact IH.
      * exact IH.
  - (* an extension *)
    destruct (field_of sd "Ext") as [f|] eqn:EF; [|reflexivity].
    rewrite (ext_field_kind _ _ SW EF).
    split; [reflexivity|]. split; [reflexivity|]. split; [reflexivity|].
    split.
    { intro k'. exists []. rewrite app_nil_r, andb_false_r. split; [reflexivity | constructor]. }
    split; [rewrite app_length; simpl; lia|].
    split; [discriminate|]. split; [auto|]. intros k' HN. left. exact HN.
  - exact I.
Qed.

(* ------------------------------------------------------------------ the whole loop *)

Definition list_ok (sd : sdef) (me : pref) (l : list stmt)
  (fs : list (string * list node)) (ex : list nat) (fd : list string)
  (fs' : list (string * list node)) (ex' : list nat) (fd' : list string) : Prop :=
  map fst fs' = map fst fs /\
  fd' = rev (kws l) ++ fd /\
  ex' = ex ++ map id_of (filter (is_ext_in sd) l) /\
  (forall k, exists cs, get k fs' = get k fs ++ cs /\
     Forall2 (fun x n => mirror S x (Some me) n)
             (filter (fun ss => String.eqb (kw_of ss) k && is_field_in sd ss) l) cs) /\
  total fs' + length ex' = total fs + length ex + length l /\
  Forall (good_sub sd) l /\
  (single_inv sd fs -> single_inv sd fs').

Definition list_bad (sd : sdef) (fs : list (string * list node)) (l : list stmt) : Prop :=
  exists l1 ss l2, l = l1 ++ ss :: l2 /\
    match classify sd (kw_of ss) with
    | KUnknown => True
    | KExt => field_of sd "Ext" = None
    | KField f => rejects S ss \/
                  exists t, f_kind f = FSingle t /\ (get (kw_of ss) fs <> [] \/ In (kw_of ss) (kws l1))
    end.

Lemma build_list_cons : forall sd me ss r st,
  build_list S sd me (ss :: r) st =
  (st' <- step sd (fun _ => build S ss (Some me)) ss st ;; build_list S sd me r st').
Proof. reflexivity. Qed.

Lemma build_list_spec : forall sd me, struct_wf S sd = true ->
  forall l, Forall (fun ss => outcome_spec S ss (Some me) (build S ss (Some me))) l ->
  forall fs ex fd, (forall k, In k (child_keys sd) -> In k (map fst fs)) ->
  match build_list S sd me l (fs, ex, fd) with
  | Ok (fs', ex', fd') => list_ok sd me l fs ex fd fs' ex' fd'
  | Err => list_bad sd fs l
  | _ => False
  end.
Proof.
  intros sd me SW l. induction l as [|ss r IHl]; intros HF fs ex fd KP.
  - simpl. unfold list_ok. simpl. rewrite app_nil_r.
    repeat split; auto. intro k. exists []. rewrite app_nil_r. split; [reflexivity | constructor].
  - inversion HF as [|? ? H1 H2]; subst.
    rewrite build_list_cons.
    pose proof (step_spec sd me ss fs ex fd SW KP H1) as SP.
    destruct (step sd (fun _ => build S ss (Some me)) ss (fs, ex, fd)) as [[[fs1 ex1] fd1]| | |]; simpl.
    + unfold step_post in SP.
      destruct SP as [P1 [P2 [P3 [P4 [P5 [P6 [P7 P8]]]]]]].
      assert (KP1 : forall k, In k (child_keys sd) -> In k (map fst fs1)).
      { intros k HK. rewrite P2. apply KP. exact HK. }
      specialize (IHl H2 fs1 ex1 fd1 KP1).
      destruct (build_list S sd me r (fs1, ex1, fd1)) as [[[fs' ex'] fd']| | |].
      * unfold list_ok in *. destruct IHl as [Q1 [Q2 [Q3 [Q4 [Q5 [Q6 Q7]]]]]].
        split; [congruence|].
        split; [subst fd' fd1; simpl; rewrite <- app_assoc; reflexivity|].
        split.
        { subst ex' ex1. simpl. rewrite <- app_assoc. f_equal.
          destruct (is_ext_in sd ss); reflexivity. }
        split.
        { intro k. destruct (P4 k) as [c [C1 C2]]. destruct (Q4 k) as [cs [D1 D2]].
          exists (c ++ cs). split; [rewrite D1, C1, app_assoc; reflexivity|].
          simpl. destruct (String.eqb (kw_of ss) k && is_field_in sd ss).
          - inversion C2; subst. match goal with HH : Forall2 _ [] _ |- _ => inversion HH; subst end.
            simpl. constructor; assumption.
          - inversion C2; subst. simpl. exact D2. }
        split; [simpl; lia|].
        split; [constructor; assumption|].
        auto.
      * unfold list_bad in *. destruct IHl as [l1 [x [l2 [E B]]]].
        exists (ss :: l1), x, l2. split; [subst r; reflexivity|].
        destruct (classify sd (kw_of x)) as [f| |]; auto.
        destruct B as [B|[t [B1 B2]]]; [left; exact B|].
        right. exists t. split; [exact B1|].
        destruct B2 as [B2|B2].
        -- destruct (P8 _ B2) as [B3|B3]; [left; exact B3|].
           right. simpl. left. symmetry. exact B3.
        -- right. simpl. right. exact B2.
      * exact IHl.
      * exact IHl.
    + unfold step_post in SP. unfold list_bad.
      exists [], ss, r. split; [reflexivity|].
      destruct (classify sd (kw_of ss)) as [f| |]; auto.
      destruct SP as [SP|[t [T1 T2]]]; [left; exact SP|].
      right. exists t. split; [exact T1|]. left. exact T2.
    + exact SP.
    + exact SP.
Qed.

(* ------------------------------------------------------------------ the checks after the loop *)

Lemma found_In : forall k l, mem k (rev (kws l) ++ []) = true <-> In k (kws l).
Proof. intros k l. rewrite app_nil_r, mem_In, <- in_rev. reflexivity. Qed.

Lemma check_required_true : forall sd kw subs,
  check_required sd kw (rev (kws subs) ++ []) = true ->
  (forall f, In f (s_fields sd) -> f_required f = true -> In (f_key f) (kws subs)) /\
  (forall f, In f (s_fields sd) -> In kw (f_reqkinds f) -> In (f_key f) (kws subs)) /\
  (forall f n, In f (s_fields sd) -> In n (f_reqkinds f) -> n <> kw -> ~ In (f_key f) (kws subs)).
Proof.
  intros sd kw subs H. unfold check_required in H.
  apply andb_true_iff in H as [H H3]. apply andb_true_iff in H as [H1 H2].
  rewrite forallb_forall in H1, H2, H3.
  split; [|split].
  - intros f HI HR. specialize (H1 f HI). rewrite HR in H1. simpl in H1. apply found_In. exact H1.
  - intros f HI HR. specialize (H2 f HI). apply mem_In in HR. rewrite HR in H2. simpl in H2.
    apply found_In. exact H2.
  - intros f n HI HR N HIn. specialize (H3 f HI). rewrite forallb_forall in H3. specialize (H3 n HR).
    apply orb_true_iff in H3 as [H3|H3].
    + apply String.eqb_eq in H3. contradiction.
    + apply negb_true_iff in H3. apply found_In in HIn. congruence.
Qed.

Lemma check_required_false : forall sd kw subs,
  check_required sd kw (rev (kws subs) ++ []) = false -> bad_here sd kw subs.
Proof.
  intros sd kw subs H. unfold check_required in H.
  apply andb_false_iff in H as [H|H]; [apply andb_false_iff in H as [H|H]|].
  - apply forallb_false in H as [f [HI HB]].
    destruct (f_required f) eqn:ER; [|discriminate]. simpl in HB.
    apply (BadMissing sd kw subs f HI ER). intro HIn. apply found_In in HIn. congruence.
  - apply forallb_false in H as [f [HI HB]].
    destruct (mem kw (f_reqkinds f)) eqn:ER; [|discriminate]. simpl in HB.
    apply mem_In in ER.
    apply (BadMissingKind sd kw subs f HI ER). intro HIn. apply found_In in HIn. congruence.
  - apply forallb_false in H as [f [HI HB]]. apply forallb_false in HB as [n [HN HB]].
    apply orb_false_iff in HB as [B1 B2]. apply String.eqb_neq in B1. apply negb_false_iff in B2.
    apply found_In in B2. exact (BadOtherKind sd kw subs f n HI HN B1 B2).
Qed.

(* ------------------------------------------------------------------ the main theorem *)

Lemma build_unfold : forall kw ha a i subs p,
  build S (Stmt kw ha a i subs) p =
  match struct_of S kw with
  | None => Err
  | Some (ty, None) => Panic
  | Some (ty, Some sd) =>
      nm <- special_name sd a ;;
      sr <- special_src sd i ;;
      pa <- special_parent S sd p ;;
      st <- build_list S sd (ty, i) subs (init_fields sd, [], []) ;;
      finish sd ty kw nm sr pa st
  end.
Proof. reflexivity. Qed.

Lemma filter_kids_field : forall sd k l, struct_wf S sd = true -> In k (child_keys sd) ->
  filter (fun ss => String.eqb (kw_of ss) k && is_field_in sd ss) l = kids k l.
Proof.
  intros sd k l SW HI. unfold kids. apply filter_ext_in. intros x _.
  destruct (String.eqb (kw_of x) k) eqn:E; [|reflexivity]. simpl.
  apply String.eqb_eq in E. unfold is_field_in. rewrite E.
  destruct (child_key_classify sd k SW HI) as [f HC]. rewrite HC. reflexivity.
Qed.

Theorem build_spec : forall s p, good_parent S p -> outcome_spec S s p (build S s p).
Proof.
  induction s as [kw ha a i subs IH] using stmt_ind'. intros p GP.
  rewrite build_unfold.
  destruct (struct_of S kw) as [[ty o]|] eqn:ES; [|simpl; apply RejUnknown; exact ES].
  destruct (struct_of_wf kw ty o ES) as [sd [EO [EF [ISN [SW [EL [SN [SS SP]]]]]]]]. subst o.
  rewrite SN, SS, (SP p GP). simpl.
  assert (GPme : good_parent S (Some (ty, i))) by (simpl; eauto).
  assert (IH' : Forall (fun ss => outcome_spec S ss (Some (ty, i)) (build S ss (Some (ty, i)))) subs).
  { rewrite Forall_forall in *. intros x Hx. apply IH; assumption. }
  assert (KP : forall k, In k (child_keys sd) -> In k (map fst (init_fields sd))).
  { intros k HK. rewrite map_fst_init. exact HK. }
  pose proof (build_list_spec sd (ty, i) SW subs IH' (init_fields sd) [] [] KP) as BL.
  destruct (build_list S sd (ty, i) subs (init_fields sd, [], [])) as [[[fs' ex'] fd']| | |]; simpl.
  - (* the loop went through *)
    unfold list_ok in BL. destruct BL as [Q1 [Q2 [Q3 [Q4 [Q5 [Q6 Q7]]]]]].
    assert (INV0 : single_inv sd (init_fields sd)).
    { intros f t _ _. rewrite get_init. simpl. lia. }
    specialize (Q7 INV0).
    assert (GK : forall k, In k (child_keys sd) ->
              Forall2 (fun x n => mirror S x (Some (ty, i)) n) (kids k subs) (get k fs')).
    { intros k HK. destruct (Q4 k) as [cs [C1 C2]]. rewrite get_init in C1. simpl in C1.
      rewrite C1. rewrite <- (filter_kids_field sd k subs SW HK). exact C2. }
    subst fd'. unfold finish.
    destruct (check_required sd kw (rev (kws subs) ++ [])) eqn:ECR; simpl.
    + split.
      * apply Mirror with (sd := sd).
        -- exact ES.
        -- rewrite Q1. apply map_fst_init.
        -- exact GK.
        -- exact Q7.
        -- subst ex'. reflexivity.
        -- rewrite Forall_forall in *. intros x Hx. specialize (Q6 x Hx). unfold good_sub in Q6.
           destruct (classify sd (kw_of x)) as [f| |] eqn:EC.
           ++ left. apply (classify_field _ _ _ SW EC).
           ++ right. apply is_ext_in_KExt. exact EC.
           ++ contradiction.
        -- rewrite total_init in Q5. simpl in Q5. lia.
      * intro R. inversion R as [? ? ? ? ? E1 | ? ? ? ? ? ty0 sd0 E1 B | ? ? ? ? ? ty0 sd0 x f E1 HIx HCx Rx]; subst.
        -- congruence.
        -- rewrite ES in E1. inversion E1; subst ty0 sd0. clear E1.
           apply check_required_true in ECR as [R1 [R2 R3]].
           rewrite Forall_forall in Q6.
           destruct B as [x Hx HC | x Hx HC HE | f t HC HK HL | f HI HR HN | f HI HR HN | f n HI HR HN HP].
           ++ specialize (Q6 x Hx). unfold good_sub in Q6. rewrite HC in Q6. exact Q6.
           ++ specialize (Q6 x Hx). unfold good_sub in Q6. rewrite HC in Q6. contradiction.
           ++ destruct (classify_field _ _ _ SW HC) as [HI [_ [HCK _]]].
              specialize (GK _ HCK). apply Forall2_length' in GK.
              specialize (Q7 f t HI HK). lia.
           ++ apply HN. apply R1; assumption.
           ++ apply HN. apply R2; assumption.
           ++ apply (R3 f n HI HR HN HP).
        -- rewrite ES in E1. inversion E1; subst ty0 sd0. clear E1.
           rewrite Forall_forall in Q6. specialize (Q6 x HIx). unfold good_sub in Q6.
           rewrite HCx in Q6. contradiction.
    + apply (RejHere S kw ha a i subs ty sd ES). apply check_required_false. exact ECR.
  - (* the loop stopped at a substatement *)
    unfold list_bad in BL. destruct BL as [l1 [x [l2 [E B]]]].
    assert (HIx : In x subs) by (subst subs; apply in_or_app; right; left; reflexivity).
    destruct (classify sd (kw_of x)) as [f| |] eqn:EC.
    + destruct B as [B|[t [B1 B2]]].
      * exact (RejChild S kw ha a i subs ty sd x f ES HIx EC B).
      * apply (RejHere S kw ha a i subs ty sd ES).
        destruct (classify_field _ _ _ SW EC) as [_ [HK _]].
        apply (BadTwice sd kw subs f t); [rewrite HK; exact EC | exact B1 |].
        destruct B2 as [B2|B2]; [rewrite get_init in B2; contradiction|].
        rewrite HK. subst subs. rewrite kids_app. rewrite app_length.
        apply kids_In_length in B2. unfold kids at 2. simpl. rewrite String.eqb_refl. simpl. lia.
    + apply (RejHere S kw ha a i subs ty sd ES). exact (BadNoExt sd kw subs x HIx EC B).
    + apply (RejHere S kw ha a i subs ty sd ES). exact (BadUnknown sd kw subs x HIx EC).
  - exact BL.
  - exact BL.
Qed.

(* ------------------------------------------------------------------ the property's theorems *)

Theorem build_mirror : forall s p n, good_parent S p -> build S s p = Ok n -> mirror S s p n.
Proof. intros s p n GP H. pose proof (build_spec s p GP) as B. rewrite H in B. apply B. Qed.

Theorem build_total : forall s p, good_parent S p ->
  build S s p <> Panic /\ build S s p <> Unmodelled.
Proof.
  intros s p GP. pose proof (build_spec s p GP) as B.
  destruct (build S s p); simpl in B; split; try discriminate; contradiction.
Qed.

Theorem build_reject : forall s p, good_parent S p -> (build S s p = Err <-> rejects S s).
Proof.
  intros s p GP. pose proof (build_spec s p GP) as B. split.
  - intro H. rewrite H in B. exact B.
  - intro R. destruct (build S s p); simpl in B; try reflexivity; try contradiction.
    destruct B as [_ B]. contradiction.
Qed.

Theorem build_accept : forall s p, good_parent S p -> ((exists n, build S s p = Ok n) <-> ~ rejects S s).
Proof.
  intros s p GP. pose proof (build_spec s p GP) as B. split.
  - intros [n H]. rewrite H in B. apply B.
  - intro NR. destruct (build S s p) as [n| | |]; simpl in B; try contradiction. eauto.
Qed.

(* what the fields of a built node hold, read off the statement: ids, names, parents, source order *)
Theorem mirror_field : forall kw ha a i subs p n k,
  mirror S (Stmt kw ha a i subs) p n -> In k (map fst (n_fields n)) ->
  map n_src (get k (n_fields n)) = map (fun ss => Some (id_of ss)) (kids k subs) /\
  map n_name (get k (n_fields n)) = map arg_of (kids k subs) /\
  map n_parent (get k (n_fields n)) = map (fun _ => Some i) (kids k subs).
Proof.
  intros kw ha a i subs p n k M HK. inversion M as [? ? ? ? ? ? ty sd fs ex ES MF GK SI EX FA LN]; subst.
  simpl in *. rewrite MF in HK. specialize (GK k HK).
  induction GK as [|x c xs cs R _ IH]; simpl; [auto|].
  destruct IH as [I1 [I2 I3]]. rewrite I1, I2, I3.
  inversion R; subst. simpl. auto.
Qed.

(* ------------------------------------------------------------------ top level *)

Lemma add_ok : forall n m, add S n = Ok m -> m = n /\ top_struct S (n_ty n) = true.
Proof.
  intros n m H. unfold add in H. unfold top_struct.
  destruct (find_struct S (n_ty n)) as [sd|]; [|discriminate].
  destruct (s_kinds sd) as [|k ks] eqn:EK; [discriminate|].
  destruct (forallb is_top_kind (k :: ks)) eqn:EA.
  - destruct (String.eqb (n_ty n) "Module"); [|discriminate]. inversion H. auto.
  - destruct (existsb is_top_kind (k :: ks)); discriminate.
Qed.

Lemma struct_of_keyword : forall k ty o, struct_of S k = Some (ty, o) ->
  In k (map fst (sc_aliases S) ++ map fst (sc_names S)).
Proof.
  intros k ty o H. unfold struct_of in H.
  destruct (lookup (alias S k) (sc_names S)) as [t|] eqn:EL; [|discriminate].
  unfold alias in EL. apply in_or_app.
  destruct (lookup k (sc_aliases S)) as [a|] eqn:EA.
  - left. apply lookup_In in EA. apply (in_map fst) in EA. exact EA.
  - right. apply lookup_In in EL. apply (in_map fst) in EL. exact EL.
Qed.

Theorem parse_one_ok : forall s n, parse_one S s = Ok n ->
  build S s None = Ok n /\ mirror S s None n /\ In (kw_of s) (top_keywords S).
Proof.
  intros s n H. unfold parse_one in H.
  destruct (build S s None) as [m| | |] eqn:EB; simpl in H; try discriminate.
  apply add_ok in H as [E T]. subst m. split; [reflexivity|].
  pose proof (build_mirror s None n I EB) as M. split; [exact M|].
  apply mirror_ty in M as [ty [sd [M1 M2]]].
  unfold top_keywords. apply filter_In. split.
  - eapply struct_of_keyword. exact M1.
  - rewrite M1. rewrite <- M2. exact T.
Qed.

Theorem parse_one_total : forall s, parse_one S s <> Panic /\ parse_one S s <> Unmodelled.
Proof.
  intro s. unfold parse_one.
  pose proof (build_spec s None I) as B.
  destruct (build S s None) as [n| | |] eqn:EB; simpl in *; try (split; discriminate); try contradiction.
  destruct B as [M _]. apply mirror_ty in M as [ty [sd [M1 M2]]].
  destruct (struct_of_wf _ _ _ M1) as [sd' [E1 [EF [_ [SW _]]]]]. inversion E1; subst sd'.
  unfold struct_of in M1. destruct (lookup (alias S (kw_of s)) (sc_names S)) as [t|] eqn:EL; [|discriminate].
  inversion M1; subst t. pose proof (wf_names _ _ EL) as NW. unfold node_struct_wf in NW.
  rewrite EF in NW. apply andb_true_iff in NW as [_ K0].
  unfold struct_wf in SW. apply andb_true_iff in SW as [SW K2]. apply andb_true_iff in SW as [_ K1].
  assert (EN : s_name sd = ty).
  { unfold find_struct in EF. apply find_some in EF as [_ EF]. apply String.eqb_eq in EF. exact EF. }
  unfold add. rewrite M2, EF.
  destruct (s_kinds sd) as [|k ks] eqn:EK; [discriminate|].
  destruct (forallb is_top_kind (k :: ks)) eqn:EA.
  - rewrite ?EK, ?EA in K2. simpl in K2. rewrite orb_false_r in K2. rewrite EN in K2. rewrite K2.
    split; discriminate.
  - unfold kinds_wf in K1. rewrite ?EK, ?EA in K1. simpl in K1. apply negb_true_iff in K1.
    simpl. simpl in K1. rewrite K1. split; discriminate.
Qed.

Theorem parse_all_ok : forall l ns, parse_all S l = Ok ns ->
  Forall2 (fun s n => mirror S s None n /\ In (kw_of s) (top_keywords S)) l ns.
Proof.
  induction l as [|s r IH]; simpl; intros ns H.
  - inversion H. constructor.
  - destruct (build S s None) as [n| | |] eqn:EB; simpl in H; try discriminate.
    destruct (add S n) as [m| | |] eqn:EA; simpl in H; try discriminate.
    destruct (parse_all S r) as [ms| | |] eqn:EP; simpl in H; try discriminate.
    inversion H; subst ns.
    assert (P1 : parse_one S s = Ok m) by (unfold parse_one; rewrite EB; simpl; exact EA).
    apply parse_one_ok in P1 as [_ [M T]].
    constructor; [auto | apply IH; reflexivity].
Qed.

End WF.

(* ------------------------------------------------------------------ the generated table *)
From GY Require Gen.YangSchema.

Lemma yang_schema_wf : schema_wf YangSchema.schema = true.
Proof. vm_compute. reflexivity. Qed.

Lemma yang_top_keywords : top_keywords YangSchema.schema = ["submodule"%string; "module"%string].
Proof. vm_compute. reflexivity. Qed.

(* Modules.Parse on one top-level statement: whatever is filed is a mirrored module or submodule *)
Theorem yang_parse_one : forall s n, parse_one YangSchema.schema s = Ok n ->
  mirror YangSchema.schema s None n /\ (kw_of s = "module"%string \/ kw_of s = "submodule"%string).
Proof.
  intros s n H. apply (parse_one_ok _ yang_schema_wf) in H as [_ [M T]]. split; [exact M|].
  rewrite yang_top_keywords in T. simpl in T. intuition.
Qed.

Theorem yang_top_rejected : forall s,
  kw_of s <> "module"%string -> kw_of s <> "submodule"%string -> parse_one YangSchema.schema s = Err.
Proof.
  intros s N1 N2. destruct (parse_one_total _ yang_schema_wf s) as [T1 T2].
  destruct (parse_one YangSchema.schema s) as [n| | |] eqn:E; try reflexivity; try contradiction.
  apply yang_parse_one in E as [_ [E|E]]; contradiction.
Qed.

(* the mandatory substatements of the pinned table: (struct, keyword, required, required=KIND) *)
Definition required_table (S : schema) : list (string * string * bool * list string) :=
  flat_map (fun sd =>
    map (fun f => (s_name sd, f_key f, f_required f, f_reqkinds f))
        (filter (fun f => f_required f || match f_reqkinds f with [] => false | _ => true end) (s_fields sd)))
    (sc_structs S).

Lemma yang_required : required_table YangSchema.schema =
  [ ("Module", "belongs-to", false, ["submodule"]);
    ("Module", "namespace", false, ["module"]);
    ("Module", "prefix", false, ["module"]);
    ("Leaf", "type", true, []);
    ("LeafList", "type", true, []);
    ("Typedef", "type", true, []);
    ("BelongsTo", "prefix", true, []);
    ("Deviation", "deviate", true, []);
    ("Import", "prefix", true, []) ]%string.
Proof. vm_compute. reflexivity. Qed.
