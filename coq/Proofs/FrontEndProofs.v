(* C16, third sentence, builder part, from the TEXT: the parser's position theorem (ParseProofs:
   Parse_statement_positions, Parse_statements_real) composed with the builder's (AstPosProofs:
   build_e_pos_in_tree, build_e_site, parse_all_e_err) along the conversion of Model/FrontEnd.v. *)
From Coq Require Import Ascii String List NArith ZArith Bool Arith Lia.
Import ListNotations.
From GY Require Import Base.Outcome Model.Lex Model.Parse Model.FrontEnd Spec.C16 Spec.C16Builder Proofs.ParseProofs.
From GY Require Model.Ast Spec.C03 Proofs.AstProofs Proofs.AstPosProofs.

(* ------------------------------------------------------------------ induction over parsed statements *)

Fixpoint pstmt_ind' (P : stmt -> Prop)
  (H : forall kw ha a l c o subs, Forall P subs -> P (Stmt kw ha a l c o subs)) (s : stmt) : P s :=
  match s with
  | Stmt kw ha a l c o subs =>
      H kw ha a l c o subs
        ((fix go (l : list stmt) : Forall P l :=
            match l with
            | [] => Forall_nil P
            | x :: r => Forall_cons x (pstmt_ind' P H x) (go r)
            end) subs)
  end.

Lemma Forall2_In_r : forall {A B} (R : A -> B -> Prop) l l' y,
  Forall2 R l l' -> In y l' -> exists x, In x l /\ R x y.
Proof.
  intros A B R l l' y H. induction H as [|a b l l' Hab _ IH]; intro Hy; [contradiction|].
  destruct Hy as [<-|Hy].
  - exists a. split; [left; reflexivity|exact Hab].
  - destruct (IH Hy) as (x & Hx & Hr). exists x. split; [right; exact Hx|exact Hr].
Qed.

Lemma Forall2_In_l : forall {A B} (R : A -> B -> Prop) l l' x,
  Forall2 R l l' -> In x l -> exists y, In y l' /\ R x y.
Proof.
  intros A B R l l' x H. induction H as [|a b l l' Hab _ IH]; intro Hx; [contradiction|].
  destruct Hx as [<-|Hx].
  - exists b. split; [left; reflexivity|exact Hab].
  - destruct (IH Hx) as (y & Hy & Hr). exists y. split; [right; exact Hy|exact Hr].
Qed.

(* ------------------------------------------------------------------ unfolding equations *)

Lemma flat_eq kw ha a l c o subs :
  flat (Stmt kw ha a l c o subs) = Stmt kw ha a l c o subs :: all_stmts subs.
Proof. reflexivity. Qed.

Lemma all_stmts_cons x r : all_stmts (x :: r) = flat x ++ all_stmts r.
Proof. reflexivity. Qed.

Lemma size_eq kw ha a l c o subs : size (Stmt kw ha a l c o subs) = S (sizes subs).
Proof. reflexivity. Qed.

Lemma conv_eq kw ha a l c o subs n :
  conv (Stmt kw ha a l c o subs) n = Ast.Stmt (enc kw) ha (enc a) n (conv_list subs (S n)).
Proof. reflexivity. Qed.

Lemma length_flat : forall s, length (flat s) = size s.
Proof.
  induction s as [kw ha a l c o subs IH] using pstmt_ind'.
  rewrite flat_eq, size_eq. cbn [length]. f_equal.
  induction IH as [|x r Hx _ IHr]; [reflexivity|].
  rewrite all_stmts_cons, app_length, Hx, IHr. reflexivity.
Qed.

Lemma length_all_stmts : forall l, length (all_stmts l) = sizes l.
Proof.
  induction l as [|x r IH]; [reflexivity|].
  rewrite all_stmts_cons, app_length, length_flat, IH. reflexivity.
Qed.

(* ------------------------------------------------------------------ (a) pre-order indexing
   [img G p a]: the builder's statement a is the image of the parsed statement p, where G is the pre-order
   list of all statements of the text: a carries p's keyword and argument (as bytes), a's id is an index of p
   in G, and the substatements correspond one to one, in order, in the same way. *)

Inductive img (G : list stmt) : stmt -> Ast.stmt -> Prop :=
| Img : forall kw ha a l c o subs j asubs,
    nth_error G j = Some (Stmt kw ha a l c o subs) ->
    Forall2 (img G) subs asubs ->
    img G (Stmt kw ha a l c o subs) (Ast.Stmt (enc kw) ha (enc a) j asubs).

Lemma conv_list_img G : forall l,
  Forall (fun x => forall pre post, G = pre ++ flat x ++ post -> img G x (conv x (length pre))) l ->
  forall pre post, G = pre ++ all_stmts l ++ post -> Forall2 (img G) l (conv_list l (length pre)).
Proof.
  induction 1 as [|x r Hx _ IH]; intros pre post HG; [constructor|].
  cbn [conv_list]. rewrite all_stmts_cons, <- app_assoc in HG. constructor.
  - exact (Hx pre _ HG).
  - rewrite <- length_flat, <- app_length. apply (IH (pre ++ flat x) post).
    rewrite <- app_assoc. exact HG.
Qed.

Lemma conv_img G : forall s pre post, G = pre ++ flat s ++ post -> img G s (conv s (length pre)).
Proof.
  induction s as [kw ha a l c o subs IH] using pstmt_ind'. intros pre post HG.
  rewrite conv_eq. constructor.
  - subst G. rewrite flat_eq. rewrite nth_error_app2 by lia. rewrite Nat.sub_diag. reflexivity.
  - replace (S (length pre)) with (length (pre ++ [Stmt kw ha a l c o subs]))
      by (rewrite app_length; cbn [length]; lia).
    apply (conv_list_img G subs IH _ post).
    rewrite HG, flat_eq, <- !app_assoc. reflexivity.
Qed.

Theorem to_ast_img : forall ss, Forall2 (img (all_stmts ss)) ss (to_ast ss).
Proof.
  intro ss. unfold to_ast. change O with (length (@nil stmt)).
  apply (conv_list_img (all_stmts ss) ss) with (post := []).
  - apply Forall_forall. intros x _ pre post. apply conv_img.
  - rewrite app_nil_r. reflexivity.
Qed.

(* the ids the conversion hands out are 0, 1, 2, ... in pre-order, continuing across top-level statements *)
Lemma ids_conv_list : forall l,
  Forall (fun x => forall n, C03.ids (conv x n) = seq n (size x)) l ->
  forall m, flat_map C03.ids (conv_list l m) = seq m (sizes l).
Proof.
  induction 1 as [|x r Hx _ IH]; intro m; [reflexivity|].
  cbn [conv_list flat_map sizes]. rewrite Hx, IH, seq_app. reflexivity.
Qed.

Lemma ids_conv : forall s n, C03.ids (conv s n) = seq n (size s).
Proof.
  induction s as [kw ha a l c o subs IH] using pstmt_ind'. intro n.
  rewrite conv_eq, size_eq. cbn [C03.ids seq]. f_equal. apply ids_conv_list. exact IH.
Qed.

Theorem ids_to_ast : forall ss, flat_map C03.ids (to_ast ss) = seq 0 (length (all_stmts ss)).
Proof.
  intro ss. unfold to_ast. rewrite length_all_stmts. apply ids_conv_list.
  apply Forall_forall. intros x _. apply ids_conv.
Qed.

Lemma img_inv G p a : img G p a ->
  Ast.kw_of a = akw p /\ nth_error G (Ast.id_of a) = Some p /\ Forall2 (img G) (p_subs p) (Ast.subs_of a).
Proof. intro H. inversion H; subst. cbn. repeat split; assumption. Qed.

(* (a): the position table gives, for the id of an image, the (line, column) the parsed statement carries *)
Theorem pos_of_img : forall ss p a, img (all_stmts ss) p a ->
  pos_of ss (Ast.id_of a) = Some (p_line p, p_col p).
Proof.
  intros ss p a H. destruct (img_inv _ _ _ H) as (_ & E & _). unfold pos_of. rewrite E. reflexivity.
Qed.

Lemma img_kws G : forall l l', Forall2 (img G) l l' -> C03.kws l' = map akw l.
Proof.
  induction 1 as [|p a l l' H _ IH]; [reflexivity|].
  cbn [C03.kws map]. fold (C03.kws l'). rewrite IH. f_equal. apply (img_inv _ _ _ H).
Qed.

(* every id in the image of a statement is an index of a statement of the text *)
Lemma img_ids G : forall a p, img G p a -> forall j, In j (C03.ids a) -> exists q, nth_error G j = Some q.
Proof.
  induction a as [kw ha ar i asubs IH] using AstProofs.stmt_ind'. intros p H j Hj.
  inversion H; subst. cbn [C03.ids] in Hj. destruct Hj as [<-|Hj].
  - eexists. eassumption.
  - apply in_flat_map in Hj. destruct Hj as (x & Hx & Hjx).
    match goal with F : Forall2 (img G) _ asubs |- _ => destruct (Forall2_In_r _ _ _ _ F Hx) as (px & _ & Hpx) end.
    rewrite Forall_forall in IH. exact (IH x Hx px Hpx j Hjx).
Qed.

Lemma tfiled_flat S : forall s t, tfiled S s t -> In t (flat s).
Proof.
  induction 1 as [s|s ty sd x f t _ Hx _ _ IH].
  - destruct s. left. reflexivity.
  - destruct s as [kw ha a l c o subs]. rewrite flat_eq. right. unfold all_stmts. apply in_flat_map.
    exists x. split; [exact Hx|exact IH].
Qed.

Lemma tfiled_all S ss top t : In top ss -> tfiled S top t -> In t (all_stmts ss).
Proof.
  intros Htop H. unfold all_stmts. apply in_flat_map. exists top. split; [exact Htop|].
  exact (tfiled_flat S _ _ H).
Qed.

(* the statements the builder visits below an image are images of statements the text files the same way *)
Lemma img_filed S G : forall a t, C03.filed S a t -> forall p, img G p a ->
  exists pt, tfiled S p pt /\ img G pt t.
Proof.
  induction 1 as [a|kw ha ar i asubs ty sd x f t Hst Hx Hcl _ IH]; intros p Hp.
  - exists p. split; [constructor|exact Hp].
  - destruct (img_inv _ _ _ Hp) as (Hkw & _ & Hsubs). cbn [Ast.kw_of Ast.subs_of] in Hkw, Hsubs.
    destruct (Forall2_In_r _ _ _ _ Hsubs Hx) as (px & Hpx & Hix).
    destruct (IH px Hix) as (pt & Hf & Hit). exists pt. split; [|exact Hit].
    apply (TFiledSub S p ty sd px f pt).
    + rewrite <- Hkw. exact Hst.
    + exact Hpx.
    + rewrite <- (proj1 (img_inv _ _ _ Hix)). exact Hcl.
    + exact Hf.
Qed.

(* ------------------------------------------------------------------ what the parser proved, per statement *)

Definition head_ok (text : str) (x : stmt) : Prop :=
  p_kw x <> [] -> (p_line x, p_col x) = linecol text (p_off x) /\ text_at text (p_off x) (p_kw x).

Lemma stmt_ok_flat text : forall s, stmt_ok text s -> Forall (head_ok text) (flat s).
Proof.
  induction s as [kw ha a l c o subs IH] using pstmt_ind'. intro H.
  apply stmt_ok_eq in H. destruct H as [Hh Hs]. rewrite flat_eq. constructor; [exact Hh|].
  induction IH as [|x r Hx _ IHr]; [constructor|].
  rewrite all_stmts_cons. apply Forall_app. inversion Hs; subst. split; [apply Hx; assumption|apply IHr; assumption].
Qed.

Lemma stmt_real_flat : forall s, stmt_real s -> Forall (fun x => p_kw x <> []) (flat s).
Proof.
  induction s as [kw ha a l c o subs IH] using pstmt_ind'. intro H.
  apply stmt_real_eq in H. destruct H as [Hh Hs]. rewrite flat_eq. constructor; [exact Hh|].
  induction IH as [|x r Hx _ IHr]; [constructor|].
  rewrite all_stmts_cons. apply Forall_app. inversion Hs; subst. split; [apply Hx; assumption|apply IHr; assumption].
Qed.

Lemma Forall_all_stmts (P : stmt -> Prop) (Q : stmt -> Prop) :
  (forall s, P s -> Forall Q (flat s)) -> forall ss, Forall P ss -> Forall Q (all_stmts ss).
Proof.
  intros H ss. induction 1 as [|x r Hx _ IH]; [constructor|].
  rewrite all_stmts_cons. apply Forall_app. split; [apply H; exact Hx|exact IH].
Qed.

Lemma terminated_length input : (length (terminated input) <= S (length input))%nat.
Proof.
  unfold terminated. destruct (rev input) as [|c r]; [lia|].
  destruct (c =? cLF)%N; [lia|]. rewrite app_length. cbn [length]. lia.
Qed.

Lemma text_at_inside text off s : s <> [] -> text_at text off s -> (off < length text)%nat.
Proof.
  intros Hs H. destruct (Nat.lt_ge_cases off (length text)) as [L|L]; [exact L|exfalso].
  unfold text_at in H. rewrite (skipn_all2 text L) in H. rewrite firstn_nil in H. congruence.
Qed.

(* every statement of an accepted text: the (line, column) it carries is the true position, in the text as
   given, of the first rune of its keyword *)
Lemma accepted_points text ss o x : Parse text = (ss, [], o) -> In x (all_stmts ss) ->
  points_at text x (At (p_line x) (p_col x)).
Proof.
  intros HP Hx.
  pose proof (Forall_all_stmts _ _ (stmt_ok_flat (terminated text)) ss (Parse_statement_positions _ _ _ HP)) as H1.
  pose proof (Forall_all_stmts _ _ stmt_real_flat ss (Parse_statements_real _ _ _ HP)) as H2.
  rewrite Forall_forall in H1, H2. specialize (H1 x Hx). specialize (H2 x Hx). cbv beta in H2.
  destruct (H1 H2) as [Hlc Hat]. split; [exact H2|]. split; [exact Hat|].
  exists (p_line x), (p_col x). split; [reflexivity|]. rewrite Hlc. apply linecol_terminated.
  pose proof (text_at_inside _ _ _ H2 Hat). pose proof (terminated_length text). lia.
Qed.

Lemma locate_img text ss o p a : Parse text = (ss, [], o) -> img (all_stmts ss) p a ->
  In p (all_stmts ss) /\ locate ss (Some (Ast.id_of a)) = At (p_line p) (p_col p) /\
  points_at text p (locate ss (Some (Ast.id_of a))).
Proof.
  intros HP Hi. assert (Hin : In p (all_stmts ss)).
  { destruct (img_inv _ _ _ Hi) as (_ & E & _). exact (nth_error_In _ _ E). }
  assert (E : locate ss (Some (Ast.id_of a)) = At (p_line p) (p_col p)).
  { unfold locate. rewrite (pos_of_img _ _ _ Hi). reflexivity. }
  split; [exact Hin|]. split; [exact E|]. rewrite E. exact (accepted_points _ _ _ _ HP Hin).
Qed.

(* ------------------------------------------------------------------ front_end, taken apart *)

Lemma front_end_err S text k p : front_end S text = FErr k p ->
  exists ss pos, Parse text = (ss, [], false) /\ Ast.parse_all_e S (to_ast ss) = Ast.RErr k pos /\ p = locate ss pos.
Proof.
  unfold front_end. destruct (Parse text) as [[ss es] o].
  destruct o; destruct es as [|e es]; try discriminate.
  destruct (Ast.parse_all_e S (to_ast ss)) as [ns|k' pos| |] eqn:HA; try discriminate.
  intro H. injection H as <- <-. exists ss, pos. split; [reflexivity|]. split; [exact HA|reflexivity].
Qed.

(* the top-level statement whose build failed, with the parsed statement it is the image of *)
Lemma failing_top S ss k pos : Ast.parse_all_e S (to_ast ss) = Ast.RErr k pos ->
  (exists top s, In top ss /\ img (all_stmts ss) top s /\ Ast.build_e S s None = Ast.RErr k pos) \/
  (k = Ast.ENotModule /\ pos = None).
Proof.
  intro H. destruct (AstPosProofs.parse_all_e_err S _ k pos H) as (l1 & s & l2 & E & _ & [Hb|(Hk & Hp & _)]).
  - left. assert (Hs : In s (to_ast ss)) by (rewrite E; apply in_or_app; right; left; reflexivity).
    destruct (Forall2_In_r _ _ _ _ (to_ast_img ss) Hs) as (top & Htop & Hi).
    exists top, s. repeat split; assumption.
  - right. split; assumption.
Qed.

(* ------------------------------------------------------------------ (b) every position is a statement start *)

Theorem front_end_error_positions : forall S text k l c,
  front_end S text = FErr k (At l c) ->
  exists ss x, Parse text = (ss, [], false) /\ In x (all_stmts ss) /\ points_at text x (At l c).
Proof.
  intros S text k l c H. destruct (front_end_err _ _ _ _ H) as (ss & pos & HP & HA & HL).
  exists ss. destruct (failing_top _ _ _ _ HA) as [(top & s & Htop & Hi & Hb)|(_ & ->)]; [|discriminate].
  destruct pos as [j|]; [|discriminate].
  pose proof (AstPosProofs.build_e_pos_in_tree _ _ _ _ _ Hb) as Hj.
  destruct (img_ids _ _ _ Hi _ Hj) as (q & Hq).
  assert (E : locate ss (Some j) = At (p_line q) (p_col q)).
  { unfold locate, pos_of. rewrite Hq. reflexivity. }
  exists q. pose proof (nth_error_In _ _ Hq) as Hin. split; [exact HP|]. split; [exact Hin|].
  rewrite HL, E. exact (accepted_points _ _ _ _ HP Hin).
Qed.

(* the same with [points_at] spelled out: (l, c) is the true (line, column) -- in the text as given -- of the
   offset at which the keyword of a statement of the text stands *)
Theorem front_end_error_positions_explicit : forall S text k l c,
  front_end S text = FErr k (At l c) ->
  exists ss x, Parse text = (ss, [], false) /\ In x (all_stmts ss) /\
    p_kw x <> [] /\ text_at (terminated text) (p_off x) (p_kw x) /\ (l, c) = linecol text (p_off x).
Proof.
  intros S text k l c H. destruct (front_end_error_positions _ _ _ _ _ H) as (ss & x & HP & Hx & Hk & Ht & l' & c' & E & Hlc).
  injection E as -> ->. exists ss, x. repeat split; assumption.
Qed.

(* the builder never names a statement that is not in the text *)
Theorem front_end_no_bad_id : forall S text k, front_end S text <> FErr k BadId.
Proof.
  intros S text k H. destruct (front_end_err _ _ _ _ H) as (ss & pos & HP & HA & HL).
  destruct (failing_top _ _ _ _ HA) as [(top & s & Htop & Hi & Hb)|(_ & ->)]; [|discriminate].
  destruct pos as [j|]; [|discriminate].
  pose proof (AstPosProofs.build_e_pos_in_tree _ _ _ _ _ Hb) as Hj.
  destruct (img_ids _ _ _ Hi _ Hj) as (q & Hq).
  unfold locate, pos_of in HL. rewrite Hq in HL. discriminate.
Qed.

(* the fuel flag of the parser model plays no role on real texts *)
Theorem front_end_fuel : forall S text, ~ In EOFR text -> front_end S text <> FOutOfFuel.
Proof.
  intros S text HE. unfold front_end. destruct (Parse text) as [[ss es] o] eqn:HP.
  rewrite (Parse_fuel_sufficient _ _ _ _ HE HP). destruct es; [|discriminate].
  destruct (Ast.parse_all_e S (to_ast ss)); discriminate.
Qed.

(* ------------------------------------------------------------------ (c) which statement, by kind *)

Ltac conjs := repeat (match goal with |- _ /\ _ => split end).

Theorem front_end_error_site : forall S, C03.schema_wf S = true ->
  forall text k p, front_end S text = FErr k p ->
  exists ss, Parse text = (ss, [], false) /\ text_site S text ss k p.
Proof.
  intros S WF text k p H. destruct (front_end_err _ _ _ _ H) as (ss & pos & HP & HA & ->).
  exists ss. split; [exact HP|].
  destruct (failing_top _ _ _ _ HA) as [(top & s & Htop & Hi & Hb)|(-> & ->)]; [|reflexivity].
  pose proof (AstPosProofs.build_e_site S WF s None k pos I Hb) as Hsite.
  set (G := all_stmts ss) in *.
  destruct k; cbn [C03.site text_site] in Hsite |- *.
  - (* EUnknownStmt *)
    destruct Hsite as (t & Hf & -> & Hst).
    destruct (img_filed S G _ _ Hf _ Hi) as (pt & Hpf & Hit).
    destruct (locate_img _ _ _ _ _ HP Hit) as (_ & _ & Hpt).
    exists top, pt. conjs; try assumption.
    rewrite <- (proj1 (img_inv _ _ _ Hit)). exact Hst.
  - (* EUnknownField *)
    destruct Hsite as (t & ty & sd & x & Hf & Hst & Hx & Hcl & ->).
    destruct (img_filed S G _ _ Hf _ Hi) as (pt & Hpf & Hit).
    destruct (img_inv _ _ _ Hit) as (Hkw & _ & Hsubs).
    destruct (Forall2_In_r _ _ _ _ Hsubs Hx) as (px & Hpx & Hix).
    destruct (locate_img _ _ _ _ _ HP Hix) as (_ & _ & Hpt).
    exists top, pt, ty, sd, px. conjs; try assumption.
    + rewrite <- Hkw. exact Hst.
    + rewrite <- (proj1 (img_inv _ _ _ Hix)). exact Hcl.
  - (* ENoExt *)
    destruct Hsite as (t & ty & sd & x & Hf & Hst & Hx & Hcl & Hne & ->).
    destruct (img_filed S G _ _ Hf _ Hi) as (pt & Hpf & Hit).
    destruct (img_inv _ _ _ Hit) as (Hkw & _ & Hsubs).
    destruct (Forall2_In_r _ _ _ _ Hsubs Hx) as (px & Hpx & Hix).
    destruct (locate_img _ _ _ _ _ HP Hix) as (_ & _ & Hpt).
    exists top, pt, ty, sd, px. conjs; try assumption.
    + rewrite <- Hkw. exact Hst.
    + rewrite <- (proj1 (img_inv _ _ _ Hix)). exact Hcl.
  - (* EAlreadySet *)
    subst pos. reflexivity.
  - (* EMissing *)
    destruct Hsite as (t & ty & sd & Hf & Hst & (f & Hfi & Hrq & Hno) & ->).
    destruct (img_filed S G _ _ Hf _ Hi) as (pt & Hpf & Hit).
    destruct (img_inv _ _ _ Hit) as (Hkw & _ & Hsubs).
    destruct (locate_img _ _ _ _ _ HP Hit) as (_ & _ & Hpt).
    exists top, pt, ty, sd, f. conjs; try assumption.
    + rewrite <- Hkw. exact Hst.
    + unfold sub_kws. rewrite <- (img_kws _ _ _ Hsubs). exact Hno.
  - (* EMissingKind *)
    destruct Hsite as (t & ty & sd & Hf & Hst & (f & Hfi & Hrq & Hno) & ->).
    destruct (img_filed S G _ _ Hf _ Hi) as (pt & Hpf & Hit).
    destruct (img_inv _ _ _ Hit) as (Hkw & _ & Hsubs).
    destruct (locate_img _ _ _ _ _ HP Hit) as (_ & _ & Hpt).
    exists top, pt, ty, sd, f. conjs; try assumption.
    + rewrite <- Hkw. exact Hst.
    + rewrite <- Hkw. exact Hrq.
    + unfold sub_kws. rewrite <- (img_kws _ _ _ Hsubs). exact Hno.
  - (* EOtherKind *)
    destruct Hsite as (t & ty & sd & Hf & Hst & (f & n & Hfi & Hn & Hne & Hin) & ->).
    destruct (img_filed S G _ _ Hf _ Hi) as (pt & Hpf & Hit).
    destruct (img_inv _ _ _ Hit) as (Hkw & _ & Hsubs).
    destruct (locate_img _ _ _ _ _ HP Hit) as (_ & _ & Hpt).
    exists top, pt, ty, sd, f, n. conjs; try assumption.
    + rewrite <- Hkw. exact Hst.
    + rewrite <- Hkw. exact Hne.
    + unfold sub_kws. rewrite <- (img_kws _ _ _ Hsubs). exact Hin.
  - (* ENotModule: build_e never reports it *)
    contradiction.
Qed.

(* the statement [text_site] points at is one of the text's *)
Theorem tfiled_in_text : forall S ss top t, In top ss -> tfiled S top t -> In t (all_stmts ss).
Proof. exact tfiled_all. Qed.
