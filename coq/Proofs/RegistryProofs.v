(* C13 (a): the registry model (Model/Registry.v) against its specification (Spec/C13.v). *)
From Coq Require Import List Arith NArith Bool Lia Permutation.
Import ListNotations.
From GY Require Import Model.Registry Spec.C13.

(* ------------------------------------------------------------------ Go string comparison *)

Lemma str_eqb_refl : forall s, str_eqb s s = true.
Proof. induction s as [|x s IH]; simpl; [reflexivity|]. rewrite N.eqb_refl, IH. reflexivity. Qed.

Lemma str_eqb_eq : forall a b, str_eqb a b = true <-> a = b.
Proof.
  induction a as [|x a IH]; intros [|y b]; simpl; split; intros H; try discriminate; try reflexivity.
  - apply andb_true_iff in H. destruct H as [H1 H2]. apply N.eqb_eq in H1. apply IH in H2. congruence.
  - inversion H; subst. rewrite N.eqb_refl. simpl. apply str_eqb_refl.
Qed.

Lemma str_eqb_neq : forall a b, str_eqb a b = false <-> a <> b.
Proof.
  intros a b. split.
  - intros H E. apply str_eqb_eq in E. congruence.
  - intros H. destruct (str_eqb a b) eqn:E; [|reflexivity]. apply str_eqb_eq in E. contradiction.
Qed.

Lemma str_ltb_nil_r : forall a, str_ltb a [] = false.
Proof. destruct a; reflexivity. Qed.

Lemma str_ltb_irrefl : forall a, str_ltb a a = false.
Proof.
  induction a as [|x a IH]; simpl; [reflexivity|].
  rewrite N.ltb_irrefl, N.eqb_refl. exact IH.
Qed.

Lemma str_ltb_trans : forall a b c,
  str_ltb a b = true -> str_ltb b c = true -> str_ltb a c = true.
Proof.
  induction a as [|x a IH]; intros [|y b] [|z c]; simpl; intros H1 H2; try discriminate; try reflexivity.
  destruct (N.ltb_spec x y), (N.eqb_spec x y), (N.ltb_spec y z), (N.eqb_spec y z),
           (N.ltb_spec x z), (N.eqb_spec x z); try lia; try discriminate; try reflexivity.
  eapply IH; eassumption.
Qed.

Lemma str_ltb_total : forall a b, str_ltb a b = false -> str_ltb b a = false -> a = b.
Proof.
  induction a as [|x a IH]; intros [|y b]; simpl; intros H1 H2; try discriminate; try reflexivity.
  destruct (N.ltb_spec x y), (N.eqb_spec x y), (N.ltb_spec y x), (N.eqb_spec y x);
    try lia; try discriminate.
  subst. f_equal. apply IH; assumption.
Qed.

Lemma str_ltb_asym : forall a b, str_ltb a b = true -> str_ltb b a = false.
Proof.
  intros a b H. destruct (str_ltb b a) eqn:E; [|reflexivity].
  pose proof (str_ltb_trans _ _ _ H E) as T. rewrite str_ltb_irrefl in T. discriminate.
Qed.

Lemma str_ltb_negtrans : forall a b c,
  str_ltb a b = false -> str_ltb b c = false -> str_ltb a c = false.
Proof.
  intros a b c H1 H2. destruct (str_ltb a c) eqn:E; [|reflexivity].
  destruct (str_ltb b a) eqn:Eba.
  - pose proof (str_ltb_trans _ _ _ Eba E). congruence.
  - assert (a = b) by (apply str_ltb_total; assumption). subst. congruence.
Qed.

Lemma str_ltb_app_l : forall p a b, str_ltb (p ++ a) (p ++ b) = str_ltb a b.
Proof.
  induction p as [|x p IH]; intros a b; simpl; [reflexivity|].
  rewrite N.ltb_irrefl, N.eqb_refl. apply IH.
Qed.

Lemma str_ltb_prefix : forall p b, b <> [] -> str_ltb p (p ++ b) = true.
Proof.
  intros p b Hb. rewrite <- (app_nil_r p) at 1. rewrite str_ltb_app_l.
  destruct b; [contradiction|reflexivity].
Qed.

Lemma is_empty_true : forall s, is_empty s = true <-> s = [].
Proof. destruct s; simpl; split; intros; try discriminate; reflexivity. Qed.

(* ------------------------------------------------------------------ Current *)

Lemma Current_acc_ge : forall revs acc r,
  (r = acc \/ In r revs) ->
  str_ltb (fold_left (fun rev r => if str_ltb rev r then r else rev) revs acc) r = false.
Proof.
  induction revs as [|x revs IH]; simpl; intros acc r H.
  - destruct H as [->|[]]. apply str_ltb_irrefl.
  - destruct H as [->|[->|H]].
    + destruct (str_ltb acc x) eqn:E.
      * eapply str_ltb_negtrans; [apply IH; left; reflexivity|]. apply str_ltb_asym. exact E.
      * apply IH. left. reflexivity.
    + destruct (str_ltb acc r) eqn:E.
      * apply IH. left. reflexivity.
      * eapply str_ltb_negtrans; [apply IH; left; reflexivity|exact E].
    + apply IH. right. exact H.
Qed.

(* the revision of a module is the greatest of its revision statements, in whatever order
   they are written *)
Lemma Current_ge : forall revs r, In r revs -> str_ltb (Current revs) r = false.
Proof. intros. apply Current_acc_ge. right. assumption. Qed.

Lemma Current_in : forall revs, Current revs = [] \/ In (Current revs) revs.
Proof.
  unfold Current. intros revs.
  assert (G : forall l acc, let c := fold_left (fun rev r => if str_ltb rev r then r else rev) l acc in
                            c = acc \/ In c l).
  { induction l as [|x l IH]; simpl; intros acc; [left; reflexivity|].
    destruct (IH (if str_ltb acc x then x else acc)) as [E|E].
    - destruct (str_ltb acc x); rewrite E; auto.
    - right. right. exact E. }
  apply G.
Qed.

Lemma FullName_cases : forall h,
  (cur h = [] /\ FullName h = h_name h) \/
  (cur h <> [] /\ FullName h = h_name h ++ AT :: cur h).
Proof.
  intros h. unfold FullName, cur. destruct (Current (h_revs h)); simpl.
  - left. split; reflexivity.
  - right. split; [discriminate|reflexivity].
Qed.

(* ------------------------------------------------------------------ keys *)

Lemma at_free_app_at : forall a b, at_free (a ++ AT :: b) = false.
Proof.
  induction a as [|x a IH]; intros b; simpl.
  - reflexivity.
  - unfold at_free in IH. rewrite IH. apply andb_false_r.
Qed.

Lemma name_ne_key : forall n n2 r, at_free n = true -> n <> n2 ++ AT :: r.
Proof. intros n n2 r H E. subst. rewrite at_free_app_at in H. discriminate. Qed.

Lemma key_inj : forall n1 r1 n2 r2,
  at_free n1 = true -> at_free n2 = true ->
  n1 ++ AT :: r1 = n2 ++ AT :: r2 -> n1 = n2 /\ r1 = r2.
Proof.
  induction n1 as [|x n1 IH]; intros r1 [|y n2] r2 H1 H2 E; simpl in *.
  - inversion E. auto.
  - inversion E; subst. unfold AT in H2. simpl in H2. discriminate.
  - inversion E; subst. unfold AT in H1. simpl in H1. discriminate.
  - inversion E; subst. apply andb_true_iff in H1. apply andb_true_iff in H2.
    destruct (IH r1 n2 r2) as [A B]; try tauto. subst. auto.
Qed.

Lemma key_split : forall s,
  at_free s = true \/ exists n r, s = n ++ AT :: r /\ at_free n = true.
Proof.
  induction s as [|x s IH].
  - left. reflexivity.
  - destruct (N.eqb x AT) eqn:E.
    + apply N.eqb_eq in E. subst. right. exists [], s. auto.
    + destruct IH as [H|(n & r & -> & H)].
      * left. simpl. rewrite E. exact H.
      * right. exists (x :: n), r. split; [reflexivity|]. simpl. rewrite E. exact H.
Qed.

(* ------------------------------------------------------------------ maps *)

Lemma mget_mdel : forall m k k', mget (mdel m k) k' = if str_eqb k k' then None else mget m k'.
Proof.
  induction m as [|[k0 v] m IH]; intros k k'; simpl.
  - destruct (str_eqb k k'); reflexivity.
  - destruct (str_eqb k0 k) eqn:E.
    + rewrite IH. apply str_eqb_eq in E. subst. destruct (str_eqb k k'); reflexivity.
    + simpl. rewrite IH. destruct (str_eqb k0 k') eqn:E2; [|reflexivity].
      apply str_eqb_eq in E2. subst. rewrite (proj2 (str_eqb_neq k k')); [reflexivity|].
      intros ->. rewrite str_eqb_refl in E. discriminate.
Qed.

Lemma mget_mset : forall m k v k',
  mget (mset m k v) k' = if str_eqb k k' then Some v else mget m k'.
Proof.
  intros. unfold mset. simpl. destruct (str_eqb k k') eqn:E; [reflexivity|].
  rewrite mget_mdel, E. reflexivity.
Qed.

(* ------------------------------------------------------------------ list helpers *)

Lemma find_snoc : forall (A : Type) (p : A -> bool) l x,
  List.find p (l ++ [x]) =
  match List.find p l with Some y => Some y | None => if p x then Some x else None end.
Proof.
  induction l as [|a l IH]; intros x; simpl; [reflexivity|].
  destruct (p a); [reflexivity|apply IH].
Qed.

Lemma existsb_find : forall (A : Type) (p : A -> bool) l,
  existsb p l = match List.find p l with Some _ => true | None => false end.
Proof. induction l as [|a l IH]; simpl; [reflexivity|]. destruct (p a); [reflexivity|exact IH]. Qed.

Lemma existsb_filter : forall (A : Type) (p : A -> bool) l,
  existsb p l = match filter p l with [] => false | _ => true end.
Proof. induction l as [|a l IH]; simpl; [reflexivity|]. destruct (p a); [reflexivity|exact IH]. Qed.

Lemma existsb_false_in : forall (A : Type) (p : A -> bool) l x,
  existsb p l = false -> In x l -> p x = false.
Proof.
  intros A p l x H Hin. destruct (p x) eqn:E; [|reflexivity].
  assert (existsb p l = true) by (apply existsb_exists; eauto). congruence.
Qed.

Lemma existsb_impl_false : forall (A : Type) (p q : A -> bool) l,
  (forall x, p x = true -> q x = true) -> existsb q l = false -> existsb p l = false.
Proof.
  intros A p q l H Hq. destruct (existsb p l) eqn:E; [|reflexivity].
  apply existsb_exists in E. destruct E as (x & Hin & Hp).
  assert (existsb q l = true) by (apply existsb_exists; eauto). congruence.
Qed.

(* ------------------------------------------------------------------ latest *)

Definition mx (a b : header) : header := if str_ltb (cur a) (cur b) then b else a.

Lemma latest_cons : forall h t,
  latest (h :: t) = match latest t with None => Some h | Some b => Some (mx h b) end.
Proof. intros. simpl. destruct (latest t); [|reflexivity]. unfold mx. destruct (str_ltb _ _); reflexivity. Qed.

Lemma mx_assoc : forall a b c, mx a (mx b c) = mx (mx a b) c.
Proof.
  intros a b c. unfold mx.
  destruct (str_ltb (cur b) (cur c)) eqn:Hbc; destruct (str_ltb (cur a) (cur b)) eqn:Hab;
    rewrite ?Hbc, ?Hab; try reflexivity.
  - rewrite (str_ltb_trans _ _ _ Hab Hbc). reflexivity.
  - rewrite (str_ltb_negtrans _ _ _ Hab Hbc). reflexivity.
Qed.

Lemma latest_snoc : forall l h,
  latest (l ++ [h]) = match latest l with None => Some h | Some b => Some (mx b h) end.
Proof.
  induction l as [|a l IH]; intros h.
  - reflexivity.
  - rewrite <- app_comm_cons. rewrite !latest_cons, IH.
    destruct (latest l); [|reflexivity]. rewrite mx_assoc. reflexivity.
Qed.

Lemma latest_none : forall l, latest l = None <-> l = [].
Proof.
  destruct l as [|a l]; split; intros H; try reflexivity; try discriminate.
  rewrite latest_cons in H. destruct (latest l); discriminate.
Qed.

Lemma latest_in : forall l m, latest l = Some m -> In m l.
Proof.
  induction l as [|a l IH]; intros m H; [discriminate|].
  rewrite latest_cons in H. destruct (latest l) as [b|] eqn:E.
  - inversion H; subst. unfold mx. destruct (str_ltb _ _); [right; apply IH; reflexivity|left; reflexivity].
  - inversion H. left. reflexivity.
Qed.

Lemma latest_max : forall l m, latest l = Some m ->
  forall c, In c l -> str_ltb (cur m) (cur c) = false.
Proof.
  induction l as [|a l IH]; intros m H c Hc; [destruct Hc|].
  rewrite latest_cons in H. destruct (latest l) as [b|] eqn:E.
  - inversion H; subst; clear H. unfold mx. destruct (str_ltb (cur a) (cur b)) eqn:L.
    + destruct Hc as [<-|Hc]; [apply str_ltb_asym; exact L|apply IH; auto].
    + destruct Hc as [<-|Hc]; [apply str_ltb_irrefl|].
      eapply str_ltb_negtrans; [exact L|apply IH; auto].
  - inversion H; subst. apply latest_none in E. subst. destruct Hc as [<-|[]]. apply str_ltb_irrefl.
Qed.

(* what [spec_latest] means: a loaded header of that kind and name whose revision no other
   loaded header of that kind and name exceeds; nothing iff there is none *)
Lemma spec_latest_some : forall hs k n m, spec_latest hs k n = Some m ->
  In m hs /\ same_kn k n m = true /\
  forall c, In c hs -> same_kn k n c = true -> str_ltb (cur m) (cur c) = false.
Proof.
  unfold spec_latest. intros hs k n m H.
  pose proof (latest_in _ _ H) as Hin. apply filter_In in Hin. destruct Hin as [A B].
  repeat split; auto. intros c Hc Hk. eapply latest_max; [exact H|]. apply filter_In. auto.
Qed.

Lemma spec_latest_none : forall hs k n, spec_latest hs k n = None <->
  forall c, In c hs -> same_kn k n c = false.
Proof.
  unfold spec_latest. intros hs k n. rewrite latest_none. split.
  - intros H c Hc. destruct (same_kn k n c) eqn:E; [|reflexivity].
    assert (In c (filter (same_kn k n) hs)) by (apply filter_In; auto). rewrite H in *. contradiction.
  - intros H. destruct (filter (same_kn k n) hs) as [|c l] eqn:E; [reflexivity|].
    assert (In c (filter (same_kn k n) hs)) by (rewrite E; left; reflexivity).
    apply filter_In in H0. destruct H0 as [A B]. rewrite (H c A) in B. discriminate.
Qed.

(* ------------------------------------------------------------------ spec predicates *)

Lemma same_kn_true : forall k n h, same_kn k n h = true <-> h_kind h = k /\ h_name h = n.
Proof.
  intros k n h. unfold same_kn. rewrite andb_true_iff, str_eqb_eq.
  destruct (h_kind h), k; simpl; intuition congruence.
Qed.

Lemma kind_eqb_refl : forall k, kind_eqb k k = true.
Proof. destruct k; reflexivity. Qed.

Lemma same_kn_self : forall h, same_kn (h_kind h) (h_name h) h = true.
Proof. intros. unfold same_kn. rewrite kind_eqb_refl, str_eqb_refl. reflexivity. Qed.

Lemma is_knr_true : forall k n r h,
  is_knr k n r h = true <-> h_kind h = k /\ h_name h = n /\ cur h = r.
Proof.
  intros. unfold is_knr. rewrite andb_true_iff, same_kn_true, str_eqb_eq. tauto.
Qed.

Lemma same_key_hkey : forall a b, same_key a b = true <-> hkey b = hkey a.
Proof.
  intros a b. unfold same_key, hkey. rewrite is_knr_true. split.
  - intros (A & B & C). congruence.
  - intros H. inversion H. auto.
Qed.

(* ------------------------------------------------------------------ the invariant *)

(* name or name@rev *)
Definition fn (n r : str) : str := if is_empty r then n else n ++ AT :: r.

Lemma FullName_fn : forall h, FullName h = fn (h_name h) (cur h).
Proof. reflexivity. Qed.

Lemma fn_inj : forall n1 r1 n2 r2, at_free n1 = true -> at_free n2 = true ->
  fn n1 r1 = fn n2 r2 -> n1 = n2 /\ r1 = r2.
Proof.
  intros n1 [|c1 r1] n2 [|c2 r2] H1 H2 E; unfold fn in E; simpl in E.
  - auto.
  - exfalso. revert E. apply name_ne_key. exact H1.
  - exfalso. symmetry in E. revert E. apply name_ne_key. exact H2.
  - apply key_inj; assumption.
Qed.

Lemma fn_eq_name : forall n r, str_eqb (fn n r) n = is_empty r.
Proof.
  intros n [|c r]; unfold fn; simpl.
  - apply str_eqb_refl.
  - apply str_eqb_neq. intros E. rewrite <- (app_nil_r n) in E at 2. apply app_inv_head in E. discriminate.
Qed.

Lemma lkey_inj : forall k1 f1 k2 f2, lkey k1 f1 = lkey k2 f2 -> k1 = k2 /\ f1 = f2.
Proof. intros [] f1 [] f2 E; unfold lkey in E; simpl in E; inversion E; auto. Qed.

(* what the map of kind k contains after the headers hs have been handed to add *)
Definition Inv (m : smap) (k : kind) (hs : list header) : Prop :=
  (forall n r, at_free n = true ->
     mget m (n ++ AT :: r) = if is_empty r then None else List.find (is_knr k n r) hs) /\
  (forall n, at_free n = true -> mget m n = latest (filter (same_kn k n) hs)).

(* ms.loaded: the first header of every kind, name and revision *)
Definition InvL (ld : smap) (hs : list header) : Prop :=
  forall k n r, at_free n = true -> mget ld (lkey k (fn n r)) = List.find (is_knr k n r) hs.

Lemma FullName_lt : forall o n r, h_name o = n ->
  str_ltb (FullName o) (fn n r) = str_ltb (cur o) r.
Proof.
  intros o n r Hn. destruct r as [|c r]; unfold fn; simpl.
  - rewrite str_ltb_nil_r. destruct (FullName_cases o) as [[C F]|[C F]]; rewrite F, Hn.
    + apply str_ltb_irrefl.
    + rewrite <- (app_nil_r n) at 2. rewrite str_ltb_app_l. reflexivity.
  - destruct (FullName_cases o) as [[C F]|[C F]]; rewrite F, Hn.
    + rewrite C. rewrite str_ltb_prefix by discriminate. reflexivity.
    + rewrite str_ltb_app_l. unfold AT. simpl. reflexivity.
Qed.

Lemma Inv_other : forall m k hs h, h_kind h <> k -> Inv m k hs -> Inv m k (hs ++ [h]).
Proof.
  intros m k hs h Hk [Ia Ib]. split.
  - intros n r Hn. rewrite (Ia n r Hn). destruct (is_empty r); [reflexivity|].
    rewrite find_snoc. destruct (List.find (is_knr k n r) hs); [reflexivity|].
    destruct (is_knr k n r h) eqn:E; [|reflexivity]. apply is_knr_true in E. tauto.
  - intros n Hn. rewrite (Ib n Hn), filter_app. simpl.
    destruct (same_kn k n h) eqn:E; [|rewrite app_nil_r; reflexivity].
    apply same_kn_true in E. tauto.
Qed.

(* a rejected duplicate changes nothing, and nothing has to change *)
Lemma find_snoc_dup : forall k n r hs h o, In o hs -> same_key h o = true ->
  List.find (is_knr k n r) (hs ++ [h]) = List.find (is_knr k n r) hs.
Proof.
  intros k n r hs h o Hin Hk. rewrite find_snoc.
  destruct (List.find (is_knr k n r) hs) eqn:F; [reflexivity|].
  destruct (is_knr k n r h) eqn:E; [|reflexivity].
  apply is_knr_true in E. destruct E as (E1 & E2 & E3).
  unfold same_key in Hk. rewrite E1, E2, E3 in Hk. pose proof (find_none _ _ F o Hin). congruence.
Qed.

Lemma Inv_dup : forall m k hs h o, In o hs -> same_key h o = true -> Inv m k hs -> Inv m k (hs ++ [h]).
Proof.
  intros m k hs h o Hin Hk [Ia Ib]. split.
  - intros n r Hn. rewrite (Ia n r Hn), (find_snoc_dup k n r hs h o Hin Hk). reflexivity.
  - intros n Hn. rewrite (Ib n Hn), filter_app. simpl.
    destruct (same_kn k n h) eqn:E; [|rewrite app_nil_r; reflexivity].
    rewrite latest_snoc. pose proof Hk as Hk'. unfold same_key in Hk'. apply is_knr_true in Hk'.
    destruct Hk' as (K1 & K2 & K3). apply same_kn_true in E. destruct E as [E1 E2].
    assert (Ho : In o (filter (same_kn k n) hs)).
    { apply filter_In. split; [exact Hin|]. apply same_kn_true. split; congruence. }
    destruct (latest (filter (same_kn k n) hs)) as [b|] eqn:L.
    + f_equal. unfold mx. rewrite <- K3. rewrite (latest_max _ _ L o Ho). reflexivity.
    + apply latest_none in L. rewrite L in Ho. destruct Ho.
Qed.

Lemma InvL_dup : forall ld hs h o, In o hs -> same_key h o = true -> InvL ld hs -> InvL ld (hs ++ [h]).
Proof.
  intros ld hs h o Hin Hk I k n r Hn. rewrite (I k n r Hn). symmetry. eapply find_snoc_dup; eassumption.
Qed.

Lemma InvL_set : forall ld hs h, at_free (h_name h) = true ->
  List.find (same_key h) hs = None -> InvL ld hs ->
  InvL (mset ld (lkey (h_kind h) (FullName h)) h) (hs ++ [h]).
Proof.
  intros ld hs h Hn0 F I k n r Hn. rewrite mget_mset, FullName_fn, find_snoc.
  destruct (str_eqb (lkey (h_kind h) (fn (h_name h) (cur h))) (lkey k (fn n r))) eqn:E.
  - apply str_eqb_eq in E. apply lkey_inj in E. destruct E as [<- E].
    apply fn_inj in E; auto. destruct E as [<- <-].
    assert (F' : List.find (is_knr (h_kind h) (h_name h) (cur h)) hs = None) by exact F. rewrite F'.
    assert (is_knr (h_kind h) (h_name h) (cur h) h = true) as -> by (apply is_knr_true; auto). reflexivity.
  - rewrite (I k n r Hn). destruct (List.find (is_knr k n r) hs); [reflexivity|].
    destruct (is_knr k n r h) eqn:E2; [|reflexivity].
    apply is_knr_true in E2. destruct E2 as (<- & <- & <-). rewrite str_eqb_refl in E. discriminate.
Qed.

Lemma file_map_inv : forall m h hs, at_free (h_name h) = true ->
  List.find (same_key h) hs = None -> Inv m (h_kind h) hs ->
  Inv (file_map m h) (h_kind h) (hs ++ [h]).
Proof.
  intros m h hs Hn0 Fd [Ia Ib].
  set (k := h_kind h) in *. set (n0 := h_name h) in *. set (r0 := cur h) in *.
  assert (Hself : same_kn k n0 h = true) by apply same_kn_self.
  assert (Hhk : is_knr k n0 r0 h = true) by (apply is_knr_true; auto).
  change (List.find (is_knr k n0 r0) hs = None) in Fd.
  assert (Kb_other : forall n, n <> n0 ->
            latest (filter (same_kn k n) (hs ++ [h])) = latest (filter (same_kn k n) hs)).
  { intros n Hne. rewrite filter_app. simpl. destruct (same_kn k n h) eqn:E.
    - apply same_kn_true in E. destruct E. fold n0 in H0. congruence.
    - rewrite app_nil_r. reflexivity. }
  assert (Kb_same : latest (filter (same_kn k n0) (hs ++ [h])) =
            match latest (filter (same_kn k n0) hs) with None => Some h | Some b => Some (mx b h) end).
  { rewrite filter_app. simpl. rewrite Hself. apply latest_snoc. }
  unfold file_map. rewrite FullName_fn. fold n0 r0. rewrite fn_eq_name.
  set (m1 := if is_empty r0 then m else mset m (fn n0 r0) h).
  assert (A1 : forall n r, at_free n = true ->
            mget m1 (n ++ AT :: r) = if is_empty r then None else List.find (is_knr k n r) (hs ++ [h])).
  { intros n r Hn. unfold m1. rewrite find_snoc. destruct r0 as [|c0 r0'] eqn:R0; cbn [is_empty].
    - rewrite (Ia n r Hn). destruct (is_empty r) eqn:Er; [reflexivity|].
      destruct (List.find (is_knr k n r) hs); [reflexivity|].
      destruct (is_knr k n r h) eqn:E; [|reflexivity]. apply is_knr_true in E. destruct E as (_ & _ & E).
      fold r0 in E. rewrite R0 in E. subst r. discriminate.
    - unfold fn. cbn [is_empty]. rewrite mget_mset.
      destruct (str_eqb (n0 ++ AT :: c0 :: r0') (n ++ AT :: r)) eqn:E.
      + apply str_eqb_eq in E. apply key_inj in E; auto. destruct E as [<- <-].
        cbn [is_empty]. rewrite Fd, Hhk. reflexivity.
      + rewrite (Ia n r Hn). destruct (is_empty r) eqn:Er; [reflexivity|].
        destruct (List.find (is_knr k n r) hs); [reflexivity|].
        destruct (is_knr k n r h) eqn:E2; [|reflexivity].
        apply is_knr_true in E2. destruct E2 as (_ & E1 & E2). fold n0 in E1. fold r0 in E2.
        rewrite R0 in E2. subst. rewrite str_eqb_refl in E. discriminate. }
  assert (A2 : forall n, at_free n = true -> mget m1 n = mget m n).
  { intros n Hn. unfold m1. destruct r0 as [|c0 r0']; cbn [is_empty]; [reflexivity|].
    unfold fn. cbn [is_empty]. rewrite mget_mset. rewrite (proj2 (str_eqb_neq _ _)); [reflexivity|].
    intros E. symmetry in E. revert E. apply name_ne_key. exact Hn. }
  assert (Keep : latest (filter (same_kn k n0) (hs ++ [h])) = latest (filter (same_kn k n0) hs) ->
                 Inv m1 k (hs ++ [h])).
  { intros B. split; [exact A1|]. intros n Hn. rewrite (A2 n Hn), (Ib n Hn).
    destruct (str_eqb n0 n) eqn:E.
    - apply str_eqb_eq in E. subst n. symmetry. exact B.
    - apply str_eqb_neq in E. rewrite Kb_other by congruence. reflexivity. }
  assert (Set_ : latest (filter (same_kn k n0) (hs ++ [h])) = Some h ->
                 Inv (mset m1 n0 h) k (hs ++ [h])).
  { intros B. split.
    - intros n r Hn. rewrite mget_mset. rewrite (proj2 (str_eqb_neq n0 _)); [apply A1; exact Hn|].
      apply name_ne_key. exact Hn0.
    - intros n Hn. rewrite mget_mset. destruct (str_eqb n0 n) eqn:E.
      + apply str_eqb_eq in E. subst n. symmetry. exact B.
      + apply str_eqb_neq in E. rewrite Kb_other by congruence. rewrite (A2 n Hn). apply Ib. exact Hn. }
  rewrite (A2 n0 Hn0), (Ib n0 Hn0).
  destruct (latest (filter (same_kn k n0) hs)) as [o|] eqn:L.
  - assert (Ho : h_name o = n0).
    { pose proof (latest_in _ _ L) as Hin. apply filter_In in Hin. destruct Hin as [_ Hin].
      apply same_kn_true in Hin. tauto. }
    rewrite (FullName_lt o n0 r0 Ho). destruct (str_ltb (cur o) r0) eqn:Lt.
    + apply Set_. rewrite Kb_same. unfold mx. fold r0. rewrite Lt. reflexivity.
    + apply Keep. rewrite Kb_same. unfold mx. fold r0. rewrite Lt. reflexivity.
  - apply Set_. rewrite Kb_same. reflexivity.
Qed.

Definition InvSt (st : mstate) (hs : list header) : Prop :=
  Inv (Modules st) KMod hs /\ Inv (SubModules st) KSub hs /\ InvL (Loaded st) hs.

Lemma add_step : forall st h hs,
  at_free (h_name h) = true -> InvSt st hs ->
  InvSt (fst (add st h)) (hs ++ [h]) /\ snd (add st h) = spec_ok hs h.
Proof.
  intros st h hs Hn (IM & IS & IL). unfold add, spec_ok. rewrite existsb_find.
  rewrite FullName_fn, (IL (h_kind h) (h_name h) (cur h) Hn).
  change (List.find (is_knr (h_kind h) (h_name h) (cur h)) hs) with (List.find (same_key h) hs).
  destruct (List.find (same_key h) hs) as [o|] eqn:F.
  - apply find_some in F. destruct F as [Hin Hk]. cbn [fst snd negb]. split; [|reflexivity].
    split; [|split]; [eapply Inv_dup|eapply Inv_dup|eapply InvL_dup]; eassumption.
  - cbn [fst snd negb]. split; [|reflexivity].
    pose proof (InvL_set _ _ h Hn F IL) as IL'. rewrite FullName_fn in IL'.
    destruct (h_kind h) eqn:K; cbn [upd sel Modules SubModules Loaded].
    + split; [|split]; [|apply Inv_other; [rewrite K; discriminate|exact IS]|exact IL'].
      pose proof (file_map_inv (Modules st) h hs Hn F) as S. rewrite K in S. apply S. exact IM.
    + split; [|split]; [apply Inv_other; [rewrite K; discriminate|exact IM]| |exact IL'].
      pose proof (file_map_inv (SubModules st) h hs Hn F) as S. rewrite K in S. apply S. exact IS.
Qed.

Lemma InvSt_init : InvSt NewModules [].
Proof.
  unfold InvSt, InvL. split; [|split]; [split|split|]; simpl; intros; try reflexivity;
    match goal with |- context [is_empty ?r] => destruct (is_empty r); reflexivity end.
Qed.

Lemma run_from_spec : forall rest prev st,
  names_ok rest = true -> InvSt st prev ->
  InvSt (fst (run_with add st rest)) (prev ++ rest) /\
  snd (run_with add st rest) = map_prefix spec_ok prev rest.
Proof.
  induction rest as [|h rest IH]; intros prev st Hn I; simpl.
  - rewrite app_nil_r. auto.
  - simpl in Hn. apply andb_true_iff in Hn. destruct Hn as [Hh Hr].
    destruct (add_step st h prev Hh I) as [I1 V1].
    destruct (add st h) as [st1 ok] eqn:Ea. simpl in *.
    destruct (IH (prev ++ [h]) st1 Hr I1) as [I2 V2].
    destruct (run_with add st1 rest) as [st2 oks] eqn:Er. simpl in *.
    rewrite <- app_assoc in I2. simpl in I2. split; [exact I2|]. congruence.
Qed.

Lemma final_inv : forall hs, names_ok hs = true -> InvSt (final hs) hs.
Proof.
  intros hs H. unfold final, run, run_from.
  pose proof (run_from_spec hs [] NewModules H InvSt_init) as [I _]. exact I.
Qed.

Lemma sel_inv : forall st hs k, InvSt st hs -> Inv (sel st k) k hs.
Proof. intros st hs k (A & B & _). destruct k; assumption. Qed.

(* ------------------------------------------------------------------ main results *)

(* every lookup, after any load sequence, denotes what the specification says *)
Theorem find_spec : forall hs k n rev,
  names_ok hs = true -> at_free n = true ->
  Registry.find (final hs) k n rev = spec_find hs k n rev.
Proof.
  intros hs k n rev Hs Hn.
  pose proof (sel_inv _ _ k (final_inv hs Hs)) as [Ia Ib].
  unfold Registry.find, spec_find, spec_latest, spec_exact.
  destruct rev as [r|].
  - rewrite (Ia n r Hn), (Ib n Hn). destruct (is_empty r); [|reflexivity].
    destruct (latest _); reflexivity.
  - rewrite (Ib n Hn). destruct (latest _); reflexivity.
Qed.

(* an import / include with a revision-date that is loaded denotes a header of exactly
   that kind, name and revision *)
Theorem find_exact : forall hs k n r h0,
  names_ok hs = true -> at_free n = true -> r <> [] ->
  In h0 hs -> is_knr k n r h0 = true ->
  exists h, Registry.find (final hs) k n (Some r) = Some h /\ In h hs /\
            h_kind h = k /\ h_name h = n /\ cur h = r.
Proof.
  intros hs k n r h0 Hs Hn Hr Hin Hk. rewrite find_spec by assumption.
  unfold spec_find, spec_exact. destruct r as [|c r]; [contradiction|]. simpl.
  destruct (List.find (is_knr k n (c :: r)) hs) as [h|] eqn:F.
  - exists h. apply find_some in F. destruct F as [A B]. apply is_knr_true in B. tauto.
  - pose proof (find_none _ _ F h0 Hin). congruence.
Qed.

(* the verdict of every add, for every sequence: rejected iff the same kind, name and
   revision was loaded before *)
Theorem verdicts_spec : forall hs, names_ok hs = true -> verdicts hs = spec_verdicts hs.
Proof.
  intros hs H. unfold verdicts, run, run_from.
  pose proof (run_from_spec hs [] NewModules H InvSt_init) as [_ V]. exact V.
Qed.

Lemma map_prefix_ext : forall (f g : list header -> header -> bool) rest prev,
  (forall p h s, rest = p ++ h :: s -> f (prev ++ p) h = g (prev ++ p) h) ->
  map_prefix f prev rest = map_prefix g prev rest.
Proof.
  induction rest as [|h rest IH]; intros prev H; simpl; [reflexivity|]. f_equal.
  - specialize (H [] h rest eq_refl). rewrite app_nil_r in H. exact H.
  - apply IH. intros p h' s E. subst rest. rewrite <- app_assoc. apply (H (h :: p) h' s). reflexivity.
Qed.

Lemma map_prefix_forallb : forall (f : list header -> header -> bool) rest prev,
  forallb (fun b => b) (map_prefix f prev rest) = true <->
  (forall p h s, rest = p ++ h :: s -> f (prev ++ p) h = true).
Proof.
  induction rest as [|h rest IH]; intros prev; simpl.
  - split; [|reflexivity]. intros _ p h s E. destruct p; discriminate.
  - rewrite andb_true_iff, IH. split.
    + intros [A B] p h' s E. destruct p as [|x p]; simpl in E; inversion E; subst.
      * rewrite app_nil_r. exact A.
      * specialize (B p h' s eq_refl). rewrite <- app_assoc in B. exact B.
    + intros H. split.
      * specialize (H [] h rest eq_refl). rewrite app_nil_r in H. exact H.
      * intros p h' s E. subst rest. rewrite <- app_assoc. apply (H (h :: p) h' s). reflexivity.
Qed.

Lemma map_prefix_app : forall (B : Type) (f : list header -> header -> B) a b prev,
  map_prefix f prev (a ++ b) = map_prefix f prev a ++ map_prefix f (prev ++ a) b.
Proof.
  induction a as [|x a IH]; intros b prev; simpl.
  - rewrite app_nil_r. reflexivity.
  - rewrite IH, <- app_assoc. reflexivity.
Qed.

Lemma map_prefix_length : forall (B : Type) (f : list header -> header -> B) a prev,
  length (map_prefix f prev a) = length a.
Proof. induction a as [|x a IH]; intros; simpl; [reflexivity|]. rewrite IH. reflexivity. Qed.

(* a header whose kind, name and revision were loaded before is rejected, always *)
Theorem duplicate_rejected : forall pre h post,
  names_ok (pre ++ h :: post) = true -> existsb (same_key h) pre = true ->
  nth (length pre) (verdicts (pre ++ h :: post)) true = false.
Proof.
  intros pre h post Hn Hd. rewrite verdicts_spec by exact Hn. unfold spec_verdicts.
  rewrite map_prefix_app. rewrite app_nth2; rewrite map_prefix_length; [|lia].
  rewrite Nat.sub_diag. simpl. unfold spec_ok. rewrite Hd. reflexivity.
Qed.

(* and every other header is accepted *)
Theorem new_key_accepted : forall pre h post,
  names_ok (pre ++ h :: post) = true -> existsb (same_key h) pre = false ->
  nth (length pre) (verdicts (pre ++ h :: post)) false = true.
Proof.
  intros pre h post Hn Hd. rewrite verdicts_spec by exact Hn. unfold spec_verdicts.
  rewrite map_prefix_app. rewrite app_nth2; rewrite map_prefix_length; [|lia].
  rewrite Nat.sub_diag. simpl. unfold spec_ok. rewrite Hd. reflexivity.
Qed.

(* ------------------------------------------------------------------ order independence *)

Lemma names_ok_perm : forall hs hs', Permutation hs hs' -> names_ok hs = true -> names_ok hs' = true.
Proof.
  unfold names_ok. intros hs hs' P H. apply forallb_forall. intros x Hx.
  rewrite forallb_forall in H. apply H. eapply Permutation_in; [apply Permutation_sym; exact P|exact Hx].
Qed.

Lemma distinct_keys_perm : forall hs hs', Permutation hs hs' -> distinct_keys hs -> distinct_keys hs'.
Proof.
  unfold distinct_keys. intros hs hs' P H. eapply Permutation_NoDup; [|exact H].
  apply Permutation_map. exact P.
Qed.

Lemma NoDup_map_inj : forall (A B : Type) (f : A -> B) l a b,
  NoDup (map f l) -> In a l -> In b l -> f a = f b -> a = b.
Proof.
  induction l as [|x l IH]; intros a b N Ha Hb E; [destruct Ha|].
  simpl in N. inversion N as [|? ? Nx Nl]; subst.
  destruct Ha as [<-|Ha], Hb as [<-|Hb]; auto.
  - exfalso. apply Nx. rewrite E. apply in_map. exact Hb.
  - exfalso. apply Nx. rewrite <- E. apply in_map. exact Ha.
Qed.

Lemma latest_unique : forall l m,
  (forall a b, In a l -> In b l -> cur a = cur b -> a = b) ->
  In m l -> (forall c, In c l -> str_ltb (cur m) (cur c) = false) -> latest l = Some m.
Proof.
  intros l m U Hin Hmax. destruct (latest l) as [m'|] eqn:L.
  - f_equal. apply U; [eapply latest_in; exact L|exact Hin|].
    apply str_ltb_total; [eapply latest_max; eassumption|apply Hmax; eapply latest_in; exact L].
  - apply latest_none in L. subst. destruct Hin.
Qed.

Lemma latest_perm : forall k n hs hs', Permutation hs hs' -> distinct_keys hs ->
  latest (filter (same_kn k n) hs) = latest (filter (same_kn k n) hs').
Proof.
  intros k n hs hs' P D.
  pose proof (distinct_keys_perm _ _ P D) as D'.
  destruct (latest (filter (same_kn k n) hs)) as [m|] eqn:L.
  - symmetry. apply latest_unique.
    + intros a b Ha Hb E. apply filter_In in Ha. apply filter_In in Hb.
      destruct Ha as [Ha Ka], Hb as [Hb Kb]. apply same_kn_true in Ka. apply same_kn_true in Kb.
      apply (NoDup_map_inj _ _ hkey hs'); auto. unfold hkey. destruct Ka, Kb. congruence.
    + pose proof (latest_in _ _ L) as Hin. apply filter_In in Hin. apply filter_In.
      split; [eapply Permutation_in; [exact P|tauto]|tauto].
    + intros c Hc. eapply latest_max; [exact L|]. apply filter_In in Hc. apply filter_In.
      split; [eapply Permutation_in; [apply Permutation_sym; exact P|tauto]|tauto].
  - symmetry. apply latest_none. apply latest_none in L.
    destruct (filter (same_kn k n) hs') as [|c l] eqn:E; [reflexivity|].
    assert (Hc : In c (filter (same_kn k n) hs')) by (rewrite E; left; reflexivity).
    apply filter_In in Hc. assert (In c (filter (same_kn k n) hs)).
    { apply filter_In. split; [eapply Permutation_in; [apply Permutation_sym; exact P|tauto]|tauto]. }
    rewrite L in H. destruct H.
Qed.

Lemma find_perm : forall k n r hs hs', Permutation hs hs' -> distinct_keys hs ->
  List.find (is_knr k n r) hs = List.find (is_knr k n r) hs'.
Proof.
  intros k n r hs hs' P D.
  pose proof (distinct_keys_perm _ _ P D) as D'.
  destruct (List.find (is_knr k n r) hs) as [a|] eqn:F, (List.find (is_knr k n r) hs') as [b|] eqn:F'.
  - apply find_some in F. apply find_some in F'. destruct F as [Ha Ka], F' as [Hb Kb]. f_equal.
    apply (NoDup_map_inj _ _ hkey hs'); auto.
    + eapply Permutation_in; [exact P|exact Ha].
    + apply is_knr_true in Ka. apply is_knr_true in Kb. unfold hkey.
      destruct Ka as (? & ? & ?), Kb as (? & ? & ?). congruence.
  - apply find_some in F. destruct F as [Ha Ka].
    pose proof (find_none _ _ F' a (Permutation_in _ P Ha)). congruence.
  - apply find_some in F'. destruct F' as [Hb Kb].
    pose proof (find_none _ _ F b (Permutation_in _ (Permutation_sym P) Hb)). congruence.
  - reflexivity.
Qed.

(* the final contents of both maps do not depend on the load order *)
Theorem bindings_order_independent : forall hs hs',
  Permutation hs hs' -> distinct_keys hs -> names_ok hs = true ->
  forall k key, mget (sel (final hs) k) key = mget (sel (final hs') k) key.
Proof.
  intros hs hs' P D Hn k key.
  pose proof (names_ok_perm _ _ P Hn) as Hn'.
  pose proof (sel_inv _ _ k (final_inv hs Hn)) as [Ia Ib].
  pose proof (sel_inv _ _ k (final_inv hs' Hn')) as [Ia' Ib'].
  destruct (key_split key) as [Hk|(n & r & -> & Hk)].
  - rewrite (Ib key Hk), (Ib' key Hk). apply latest_perm; assumption.
  - rewrite (Ia n r Hk), (Ia' n r Hk). destruct (is_empty r); [reflexivity|]. apply find_perm; assumption.
Qed.

Corollary lookups_order_independent : forall hs hs',
  Permutation hs hs' -> distinct_keys hs -> names_ok hs = true ->
  forall k n rev, Registry.find (final hs) k n rev = Registry.find (final hs') k n rev.
Proof.
  intros hs hs' P D Hn k n rev. unfold Registry.find.
  rewrite !(bindings_order_independent hs hs' P D Hn). reflexivity.
Qed.

(* headers with pairwise distinct (kind, name, revision) are all accepted, in every order *)
Theorem all_accepted : forall hs hs',
  Permutation hs hs' -> distinct_keys hs -> names_ok hs = true ->
  forallb (fun b => b) (verdicts hs') = true.
Proof.
  intros hs hs' P D Hn.
  pose proof (names_ok_perm _ _ P Hn) as Hn'.
  pose proof (distinct_keys_perm _ _ P D) as D'.
  rewrite verdicts_spec by exact Hn'. apply map_prefix_forallb. intros p h s E. simpl.
  unfold distinct_keys in D'. rewrite E, map_app in D'. simpl in D'.
  pose proof (NoDup_remove_2 _ _ _ D') as Nin.
  unfold spec_ok. destruct (existsb (same_key h) p) eqn:Ex; [|reflexivity]. apply existsb_exists in Ex.
  destruct Ex as (x & Hx & Kx). apply same_key_hkey in Kx. exfalso. apply Nin.
  apply in_or_app. left. rewrite <- Kx. apply in_map. exact Hx.
Qed.

(* the bare name, spelled out: the loaded header of that kind and name whose revision no
   other one exceeds; nothing exactly when no such header is loaded *)
Theorem find_bare_latest : forall hs k n, names_ok hs = true -> at_free n = true ->
  match Registry.find (final hs) k n None with
  | Some m => In m hs /\ h_kind m = k /\ h_name m = n /\
              forall c, In c hs -> h_kind c = k -> h_name c = n -> str_ltb (cur m) (cur c) = false
  | None => forall c, In c hs -> ~ (h_kind c = k /\ h_name c = n)
  end.
Proof.
  intros hs k n Hs Hn. rewrite find_spec by assumption. simpl.
  destruct (spec_latest hs k n) as [m|] eqn:L.
  - apply spec_latest_some in L. destruct L as (A & B & C). apply same_kn_true in B. destruct B.
    repeat split; auto. intros c Hc K1 K2. apply C; [exact Hc|]. apply same_kn_true. auto.
  - intros c Hc K. apply same_kn_true in K.
    rewrite (proj1 (spec_latest_none hs k n) L c Hc) in K. discriminate.
Qed.

(* ------------------------------------------------------------------ texts with several modules *)

Lemma add_loaded : forall st h,
  Loaded (fst (add st h)) = if snd (add st h) then mset (Loaded st) (lkey (h_kind h) (FullName h)) h else Loaded st.
Proof.
  intros st h. unfold add. destruct (mget (Loaded st) (lkey (h_kind h) (FullName h))); reflexivity.
Qed.

Lemma add_verdict : forall st h,
  snd (add st h) = match mget (Loaded st) (lkey (h_kind h) (FullName h)) with Some _ => false | None => true end.
Proof. intros st h. unfold add. destruct (mget (Loaded st) (lkey (h_kind h) (FullName h))); reflexivity. Qed.

Lemma add_all_ok : forall hs st0 st seen,
  check_text st0 seen hs = true ->
  (forall k, mget (Loaded st) k <> None -> mget (Loaded st0) k <> None \/ existsb (str_eqb k) seen = true) ->
  snd (add_all st hs) = true.
Proof.
  induction hs as [|h t IH]; intros st0 st seen C I; [reflexivity|].
  cbn [check_text] in C. set (key := lkey (h_kind h) (FullName h)) in *.
  destruct (mget (Loaded st0) key) eqn:L0; [discriminate|].
  destruct (existsb (str_eqb key) seen) eqn:Es; [discriminate|].
  cbn [add_all]. pose proof (add_verdict st h) as V. pose proof (add_loaded st h) as Ld. fold key in V, Ld.
  destruct (mget (Loaded st) key) eqn:L.
  - exfalso. destruct (I key) as [A|A]; [rewrite L; discriminate|congruence|congruence].
  - destruct (add st h) as [st1 ok]. cbn [fst snd] in *. subst ok. 
    apply (IH st0 st1 (key :: seen) C). intros k Hk. rewrite Ld, mget_mset in Hk.
    cbn [existsb]. destruct (str_eqb key k) eqn:E.
    + right. rewrite str_eqb_eq in E. subst k. rewrite str_eqb_refl. reflexivity.
    + destruct (I k Hk) as [A|A]; [left; exact A|right; rewrite A; apply orb_true_r].
Qed.

Lemma add_all_run : forall hs st, snd (add_all st hs) = true ->
  fst (add_all st hs) = fst (run_with add st hs) /\ forallb (fun b => b) (snd (run_with add st hs)) = true.
Proof.
  induction hs as [|h t IH]; intros st H; [split; reflexivity|].
  cbn [add_all run_with] in *. destruct (add st h) as [st1 ok]. destruct ok; [|discriminate].
  destruct (IH st1 H) as [A B]. destruct (run_with add st1 t) as [st2 oks]. cbn [fst snd] in *. auto.
Qed.

(* atomicity: a rejected text leaves the module set exactly as it was *)
Theorem parse_text_atomic : forall st hs, snd (parse_text st hs) = false -> fst (parse_text st hs) = st.
Proof.
  intros st hs H. unfold parse_text in *. destruct (check_text st [] hs) eqn:C; [|reflexivity].
  rewrite (add_all_ok hs st st [] C) in H; [discriminate|]. intros k Hk. left. exact Hk.
Qed.

(* an accepted text is the same as adding its statements one after the other, all accepted *)
Theorem parse_text_accepted : forall st hs, snd (parse_text st hs) = true ->
  fst (parse_text st hs) = fst (run_with add st hs) /\
  forallb (fun b => b) (snd (run_with add st hs)) = true.
Proof.
  intros st hs H. unfold parse_text in *. destruct (check_text st [] hs) eqn:C; [|discriminate].
  apply add_all_run. exact H.
Qed.

Lemma parse_text_verdict : forall st hs, snd (parse_text st hs) = check_text st [] hs.
Proof.
  intros st hs. unfold parse_text. destruct (check_text st [] hs) eqn:C; [|reflexivity].
  apply (add_all_ok hs st st [] C). intros k Hk. left. exact Hk.
Qed.

Lemma check_text_perm : forall st hs s1 s2, (forall k, existsb (str_eqb k) s1 = existsb (str_eqb k) s2) ->
  check_text st s1 hs = check_text st s2 hs.
Proof.
  intros st. induction hs as [|x hs IH]; intros s1 s2 Hs; [reflexivity|]. cbn [check_text].
  destruct (mget (Loaded st) _); [reflexivity|]. rewrite (Hs _).
  destruct (existsb _ s2); [reflexivity|]. apply IH. intros k. cbn [existsb]. rewrite Hs. reflexivity.
Qed.

Lemma check_text_spec : forall hs st prev seen,
  names_ok hs = true -> names_ok seen = true -> InvL (Loaded st) prev ->
  check_text st (map (fun h => lkey (h_kind h) (FullName h)) seen) hs = text_ok_from prev seen hs.
Proof.
  induction hs as [|h t IH]; intros st prev seen Hn Hs IL; [reflexivity|].
  cbn [names_ok forallb] in Hn. apply andb_true_iff in Hn. destruct Hn as [Hh Ht].
  cbn [check_text text_ok_from]. rewrite FullName_fn, (IL (h_kind h) (h_name h) (cur h) Hh).
  unfold spec_ok. rewrite existsb_app.
  change (List.find (is_knr (h_kind h) (h_name h) (cur h)) prev) with (List.find (same_key h) prev).
  rewrite (existsb_find _ (same_key h) prev).
  destruct (List.find (same_key h) prev); [reflexivity|]. cbn [orb].
  assert (E : existsb (str_eqb (lkey (h_kind h) (fn (h_name h) (cur h))))
                (map (fun x => lkey (h_kind x) (FullName x)) seen) = existsb (same_key h) seen).
  { clear -Hh Hs. induction seen as [|x seen IHs]; [reflexivity|].
    cbn [names_ok forallb] in Hs. apply andb_true_iff in Hs. destruct Hs as [Hx Hs'].
    cbn [map existsb]. rewrite (IHs Hs'). f_equal. rewrite FullName_fn.
    destruct (same_key h x) eqn:K.
    - apply is_knr_true in K. destruct K as (K1 & K2 & K3). rewrite K1, K2, K3. apply str_eqb_refl.
    - apply str_eqb_neq. intros C. apply lkey_inj in C. destruct C as [C1 C2].
      apply fn_inj in C2; auto. destruct C2 as [C2 C3].
      assert (same_key h x = true); [|congruence]. apply is_knr_true. auto. }
  rewrite E. destruct (existsb (same_key h) seen); [reflexivity|]. cbn [negb andb].
  assert (Hsn : names_ok (seen ++ [h]) = true).
  { unfold names_ok. rewrite forallb_app. cbn [forallb]. rewrite Hh. unfold names_ok in Hs. rewrite Hs. reflexivity. }
  rewrite <- (IH st prev (seen ++ [h]) Ht Hsn IL). rewrite map_app. cbn [map]. rewrite FullName_fn.
  apply check_text_perm. intros k. rewrite existsb_app. cbn [existsb]. rewrite orb_false_r. apply orb_comm.
Qed.

(* load histories made of texts: every verdict is the specified one, and the final module set
   is that of the accepted headers loaded one by one *)
Theorem parse_texts_spec : forall texts prev st,
  names_ok (concat texts) = true -> InvSt st prev ->
  snd (parse_texts st texts) = spec_texts prev texts /\
  InvSt (fst (parse_texts st texts)) (accepted_headers prev texts).
Proof.
  induction texts as [|hs rest IH]; intros prev st Hn I; [split; [reflexivity|exact I]|].
  cbn [concat] in Hn. unfold names_ok in Hn. rewrite forallb_app in Hn. apply andb_true_iff in Hn.
  destruct Hn as [Hh Hr]. cbn [parse_texts spec_texts accepted_headers].
  pose proof (parse_text_verdict st hs) as V. pose proof (parse_text_atomic st hs) as At.
  pose proof (parse_text_accepted st hs) as Ac.
  destruct I as (IM & IS & IL).
  pose proof (check_text_spec hs st prev [] Hh eq_refl IL) as CS. cbn [map] in CS. rewrite CS in V.
  fold (text_ok prev hs) in V.
  destruct (parse_text st hs) as [st1 ok]. cbn [fst snd] in *. subst ok.
  destruct (text_ok prev hs) eqn:T.
  - destruct (Ac eq_refl) as [E _]. subst st1.
    destruct (run_from_spec hs prev st Hh (conj IM (conj IS IL))) as [I1 _].
    destruct (IH (prev ++ hs) _ Hr I1) as [A B].
    destruct (parse_texts (fst (run_with add st hs)) rest) as [st2 oks]. cbn [fst snd] in *. split; [congruence|exact B].
  - rewrite (At eq_refl). destruct (IH prev st Hr (conj IM (conj IS IL))) as [A B].
    destruct (parse_texts st rest) as [st2 oks]. cbn [fst snd] in *. split; [congruence|exact B].
Qed.

Corollary parse_texts_find : forall texts k n rev,
  names_ok (concat texts) = true -> at_free n = true ->
  snd (parse_texts NewModules texts) = spec_texts [] texts /\
  Registry.find (fst (parse_texts NewModules texts)) k n rev = spec_find (accepted_headers [] texts) k n rev.
Proof.
  intros texts k n rev Hn Hk. destruct (parse_texts_spec texts [] NewModules Hn InvSt_init) as [A B].
  split; [exact A|]. pose proof (sel_inv _ _ k B) as [Ia Ib].
  unfold Registry.find, spec_find, spec_latest, spec_exact. destruct rev as [r|].
  - rewrite (Ia n r Hk), (Ib n Hk). destruct (is_empty r); [|reflexivity]. destruct (latest _); reflexivity.
  - rewrite (Ib n Hk). destruct (latest _); reflexivity.
Qed.
