(* The text printer of Model/Printer.v is read back by the reference reader of Spec/C02.v, hence (through
   Parse_accepts) by the parser model: for every printable forest
       spec_parse (print_forest f) = Accept f
       exists ss, Parse (print_forest f) = (ss, [], false) /\ map erase ss = f. *)
From Coq Require Import List NArith ZArith Bool Lia.
Import ListNotations.
From GY Require Import Model.Lex Model.Parse Spec.C16 Spec.C02 Model.Printer Proofs.ParseProofs.

(* ------------------------------------------------------------------ induction over nodes *)
Section NodeInd.
  Variable P : node -> Prop.
  Hypothesis H : forall kw has arg subs, Forall P subs -> P (Node kw has arg subs).
  Fixpoint node_ind' (n : node) : P n :=
    match n with
    | Node kw has arg subs =>
        H kw has arg subs
          ((fix go (l : list node) : Forall P l :=
              match l with [] => Forall_nil P | x :: r => Forall_cons x (node_ind' x) (go r) end) subs)
    end.
End NodeInd.

(* ------------------------------------------------------------------ characters *)
Lemma kw_char_facts c : kw_char_ok c = true ->
  blank c = false /\ quote c = false /\ punct c = false /\ (c =? EOFR)%N = false.
Proof.
  unfold kw_char_ok, ends_unquoted. intro H. apply andb_true_iff in H. destruct H as [H1 H2].
  apply negb_true_iff in H1. apply negb_true_iff in H2.
  apply orb_false_iff in H1. destruct H1 as [H1 H3]. apply orb_false_iff in H1. destruct H1 as [H1 H4]. auto.
Qed.

Lemma ends_not_comment c : ends_unquoted c = true -> (c =? cSLASH)%N = false /\ (c =? cSTAR)%N = false.
Proof.
  intro H. split.
  - destruct (N.eqb_spec c cSLASH) as [E|E]; [subst; vm_compute in H; discriminate|reflexivity].
  - destruct (N.eqb_spec c cSTAR) as [E|E]; [subst; vm_compute in H; discriminate|reflexivity].
Qed.

(* ------------------------------------------------------------------ the keyword token *)
Lemma skip_kw kw c r : kw_ok kw = true -> ends_unquoted c = true ->
  skip InGap (kw ++ c :: r) = Some (kw ++ c :: r).
Proof.
  intros Hk Hc. destruct kw as [|k0 kw']; [discriminate|].
  unfold kw_ok in Hk. apply andb_true_iff in Hk. destruct Hk as [Hall Hop].
  apply negb_true_iff in Hop.
  cbn [forallb] in Hall. apply andb_true_iff in Hall. destruct Hall as [H0 _].
  destruct (kw_char_facts _ H0) as (Hb & _ & _ & _).
  cbn [app skip]. rewrite Hb.
  destruct (k0 =? cSLASH)%N eqn:Es; [|reflexivity].
  destruct kw' as [|d kw''].
  - cbn [app]. destruct (ends_not_comment _ Hc) as [E1 E2]. rewrite E1, E2. reflexivity.
  - cbn [app]. cbn [opener_in] in Hop. rewrite Es in Hop. cbn [andb] in Hop.
    apply orb_false_iff in Hop. destruct Hop as [Hop _]. apply orb_false_iff in Hop. destruct Hop as [E1 E2].
    rewrite E1, E2. reflexivity.
Qed.

Lemma unquoted_kw kw c r : forallb kw_char_ok kw = true -> ends_unquoted c = true ->
  unquoted (kw ++ c :: r) = (kw, c :: r).
Proof.
  intros Hall Hc. induction kw as [|a kw IH].
  - cbn [app unquoted]. rewrite Hc. reflexivity.
  - cbn [forallb] in Hall. apply andb_true_iff in Hall. destruct Hall as [Ha Hall].
    cbn [app unquoted]. unfold kw_char_ok in Ha. apply andb_true_iff in Ha. destruct Ha as [Ha _].
    apply negb_true_iff in Ha. rewrite Ha. rewrite (IH Hall). reflexivity.
Qed.

Lemma opener_in_tl kw : opener_in kw = false -> opener_in (tl kw) = false.
Proof.
  destruct kw as [|c [|d r]]; try reflexivity. cbn [tl]. intro H. cbn [opener_in] in H.
  apply orb_false_iff in H. destruct H as [_ H]. exact H.
Qed.

Lemma read_token_kw text pat kw c r : kw_ok kw = true -> ends_unquoted c = true ->
  read_token text pat (kw ++ c :: r) = TOk (KUnq kw) (c :: r).
Proof.
  intros Hk Hc. unfold read_token. rewrite (skip_kw _ _ _ Hk Hc).
  destruct kw as [|k0 kw'] eqn:Ekw; [discriminate|].
  pose proof Hk as Hk'. unfold kw_ok in Hk'. apply andb_true_iff in Hk'. destruct Hk' as [Hall Hop].
  apply negb_true_iff in Hop.
  assert (H0 : kw_char_ok k0 = true).
  { cbn [forallb] in Hall. apply andb_true_iff in Hall. destruct Hall as [H0 _]. exact H0. }
  destruct (kw_char_facts _ H0) as (_ & Hq & Hp & _).
  unfold quote in Hq. apply orb_false_iff in Hq. destruct Hq as [Hdq Hsq].
  change ((k0 :: kw') ++ c :: r) with (k0 :: (kw' ++ c :: r)). cbv iota beta.
  rewrite Hp, Hsq, Hdq.
  change (k0 :: (kw' ++ c :: r)) with ((k0 :: kw') ++ c :: r).
  rewrite (unquoted_kw _ _ _ Hall Hc). rewrite (opener_in_tl _ Hop). reflexivity.
Qed.

(* ------------------------------------------------------------------ punctuation, blanks *)
Lemma read_token_semi text pat r : read_token text pat (cSEMI :: r) = TOk (KPunct cSEMI) r.
Proof. reflexivity. Qed.
Lemma read_token_lb text pat r : read_token text pat (cSP :: cLB :: r) = TOk (KPunct cLB) r.
Proof. reflexivity. Qed.
Lemma read_token_rb text pat r : read_token text pat (cRB :: r) = TOk (KPunct cRB) r.
Proof. reflexivity. Qed.
Lemma read_token_lf text pat s : read_token text pat (cLF :: s) = read_token text pat s.
Proof. reflexivity. Qed.
Lemma stmts_lf fuel text s : stmts fuel text (cLF :: s) = stmts fuel text s.
Proof. destruct fuel; [reflexivity|]. cbn [stmts]. rewrite read_token_lf. reflexivity. Qed.

(* ------------------------------------------------------------------ the quoted argument *)
Definition item_of (c : rune) : item :=
  if (c =? cLF)%N then Esc c_n
  else if (c =? cTAB)%N then Esc c_t
  else if (c =? cDQ)%N then Esc cDQ
  else if (c =? cBSL)%N then Esc cBSL
  else Lit c.

Lemma dq_items_escape arg r : dq_items (escape arg ++ cDQ :: r) = Some (map item_of arg, r).
Proof.
  induction arg as [|a arg IH]; [reflexivity|].
  unfold escape in *. cbn [flat_map map]. rewrite <- app_assoc. unfold escape_rune at 1, item_of at 1.
  destruct (a =? cLF)%N eqn:E1; [cbn [app dq_items]; cbv beta iota; change (cBSL =? cDQ)%N with false;
    change (cBSL =? cBSL)%N with true; cbv iota; rewrite IH; reflexivity|].
  destruct (a =? cTAB)%N eqn:E2; [cbn [app dq_items]; change (cBSL =? cDQ)%N with false;
    change (cBSL =? cBSL)%N with true; cbv iota; rewrite IH; reflexivity|].
  destruct (a =? cDQ)%N eqn:E3; [cbn [app dq_items]; change (cBSL =? cDQ)%N with false;
    change (cBSL =? cBSL)%N with true; cbv iota; rewrite IH; reflexivity|].
  destruct (a =? cBSL)%N eqn:E4; [cbn [app dq_items]; change (cBSL =? cDQ)%N with false;
    change (cBSL =? cBSL)%N with true; cbv iota; rewrite IH; reflexivity|].
  cbn [app dq_items]. rewrite E3, E4, IH. reflexivity.
Qed.

(* an item that neither is nor writes a line break *)
Definition item_good (i : item) : bool := match i with Lit c => negb (c =? cLF)%N | Esc c => negb (c =? cLF)%N end.

Lemma item_of_good c : item_good (item_of c) = true.
Proof.
  unfold item_of. destruct (c =? cLF)%N eqn:E1; [reflexivity|]. destruct (c =? cTAB)%N; [reflexivity|].
  destruct (c =? cDQ)%N; [reflexivity|]. destruct (c =? cBSL)%N; [reflexivity|]. cbn [item_good]. rewrite E1. reflexivity.
Qed.
Lemma items_good arg : forallb item_good (map item_of arg) = true.
Proof. induction arg as [|a arg IH]; [reflexivity|]. cbn [map forallb]. rewrite item_of_good, IH. reflexivity. Qed.

Definition no_lf (s : str) : bool := forallb (fun c => negb (c =? cLF)%N) s.

Lemma has_crlf_no_lf s : no_lf s = true -> has_crlf s = false.
Proof.
  induction s as [|c s IH]; [reflexivity|]. intro H. unfold no_lf in *. cbn [forallb] in H.
  apply andb_true_iff in H. destruct H as [_ H]. destruct s as [|d s']; [reflexivity|].
  change (has_crlf (c :: d :: s')) with (((c =? cCR)%N && (d =? cLF)%N) || has_crlf (d :: s')).
  rewrite (IH H). cbn [forallb] in H. apply andb_true_iff in H. destruct H as [Hd _].
  apply negb_true_iff in Hd. rewrite Hd. rewrite andb_false_r. reflexivity.
Qed.

Lemma good_raw_no_lf its : forallb item_good its = true -> no_lf (concat (map raw_item its)) = true.
Proof.
  induction its as [|i its IH]; [reflexivity|]. intro H. cbn [forallb] in H. apply andb_true_iff in H.
  destruct H as [Hi H]. specialize (IH H). cbn [map concat]. unfold no_lf in *. rewrite forallb_app. apply andb_true_iff. split; [|exact IH].
  destruct i as [c|c]; cbn [raw_item forallb item_good] in *; rewrite Hi; reflexivity.
Qed.

Lemma good_no_esc_break its : forallb item_good its = true -> existsb esc_break its = false.
Proof.
  induction its as [|i its IH]; [reflexivity|]. intro H. cbn [forallb] in H. apply andb_true_iff in H.
  destruct H as [Hi H]. cbn [existsb]. rewrite (IH H), orb_false_r.
  destruct i as [c|c]; [reflexivity|]. cbn [esc_break item_good] in *. apply negb_true_iff in Hi. exact Hi.
Qed.

Lemma good_one_line its : forallb item_good its = true -> lines its = [its].
Proof.
  induction its as [|i its IH]; [reflexivity|]. intro H. cbn [forallb] in H. apply andb_true_iff in H.
  destruct H as [Hi H]. cbn [lines]. rewrite (IH H).
  destruct i as [c|c]; cbn [is_break item_good] in *; [apply negb_true_iff in Hi; rewrite Hi|]; reflexivity.
Qed.

Lemma subst_items pat arg : subst_line pat (map item_of arg) = Some arg.
Proof.
  induction arg as [|a arg IH]; [reflexivity|]. cbn [map subst_line]. rewrite IH.
  unfold item_of.
  destruct (a =? cLF)%N eqn:E1; [apply N.eqb_eq in E1; subst; reflexivity|].
  destruct (a =? cTAB)%N eqn:E2; [apply N.eqb_eq in E2; subst; reflexivity|].
  destruct (a =? cDQ)%N eqn:E3; [apply N.eqb_eq in E3; subst; reflexivity|].
  destruct (a =? cBSL)%N eqn:E4; [apply N.eqb_eq in E4; subst; reflexivity|].
  reflexivity.
Qed.

Lemma dquoted_escape pat q arg r : dquoted pat q (escape arg ++ cDQ :: r) = DOk arg r.
Proof.
  unfold dquoted. rewrite dq_items_escape.
  pose proof (items_good arg) as Hg.
  rewrite (has_crlf_no_lf _ (good_raw_no_lf _ Hg)).
  rewrite (good_no_esc_break _ Hg), andb_false_r.
  rewrite (good_one_line _ Hg).
  cbn [no_esc_blank_before_break negb layout join_lines]. rewrite subst_items. reflexivity.
Qed.

Lemma read_token_str text pat arg r :
  read_token text pat (cSP :: cDQ :: escape arg ++ cDQ :: r) = TOk (KStr arg) r.
Proof.
  unfold read_token.
  change (skip InGap (cSP :: cDQ :: escape arg ++ cDQ :: r)) with (Some (cDQ :: escape arg ++ cDQ :: r)).
  cbv iota beta. change (punct cDQ) with false. change (cDQ =? cSQ)%N with false. change (cDQ =? cDQ)%N with true.
  cbv iota. rewrite dquoted_escape. reflexivity.
Qed.

(* ------------------------------------------------------------------ the argument *)
Lemma print_arg_app has arg T :
  print_arg has arg ++ T = if has then cSP :: cDQ :: escape arg ++ cDQ :: T else T.
Proof. destruct has; [|reflexivity]. unfold print_arg. cbn [app]. rewrite <- app_assoc. reflexivity. Qed.

Lemma argument_print text pat has arg T p T' :
  (has || match arg with [] => true | _ => false end) = true ->
  (forall pt, read_token text pt T = TOk (KPunct p) T') ->
  argument text pat (print_arg has arg ++ T) = AOk has arg T.
Proof.
  intros Hh HT. rewrite print_arg_app. unfold argument. destruct has.
  - rewrite read_token_str. cbn [pieces]. rewrite HT. reflexivity.
  - rewrite HT. destruct arg; [reflexivity|discriminate].
Qed.

Lemma print_arg_head has arg T c r : T = c :: r -> ends_unquoted c = true ->
  exists c' r', print_arg has arg ++ T = c' :: r' /\ ends_unquoted c' = true.
Proof.
  intros HT Hc. rewrite print_arg_app. destruct has.
  - exists cSP, (cDQ :: escape arg ++ cDQ :: T). split; reflexivity.
  - exists c, r. split; assumption.
Qed.

(* ------------------------------------------------------------------ one statement of the reader *)
Lemma stmts_semi f text s kw has arg s1 s2 s3 :
  read_token text false s = TOk (KUnq kw) s1 ->
  argument text (str_eqb kw s_pattern) s1 = AOk has arg s2 ->
  read_token text false s2 = TOk (KPunct cSEMI) s3 ->
  stmts (S f) text s = pcons (Node kw has arg []) (stmts f text s3).
Proof. intros H1 H2 H3. cbn [stmts]. rewrite H1, H2, H3. reflexivity. Qed.

Lemma stmts_block f text s kw has arg s1 s2 s3 subs s4 :
  read_token text false s = TOk (KUnq kw) s1 ->
  argument text (str_eqb kw s_pattern) s1 = AOk has arg s2 ->
  read_token text false s2 = TOk (KPunct cLB) s3 ->
  stmts f text s3 = POk subs true s4 ->
  stmts (S f) text s = pcons (Node kw has arg subs) (stmts f text s4).
Proof. intros H1 H2 H3 H4. cbn [stmts]. rewrite H1, H2, H3. change (cLB =? cSEMI)%N with false.
  change (cLB =? cLB)%N with true. cbv iota. rewrite H4. reflexivity. Qed.

(* ------------------------------------------------------------------ fuel *)
Fixpoint cost (n : node) : nat := match n with Node _ _ _ subs => 2 + list_sum (map cost subs) end.
Definition costf (f : list node) : nat := list_sum (map cost f).

Definition papp (f : list node) (r : pres) : pres := match r with POk g c s => POk (f ++ g) c s | x => x end.
(* from [k] units of fuel on, reading at [s] gives [R] *)
Definition stable (k : nat) (text s : str) (R : pres) : Prop := forall fuel, (k <= fuel)%nat -> stmts fuel text s = R.

Definition node_reads (n : node) : Prop :=
  node_ok n = true -> forall text k s R, stable k text s R ->
  stable (k + cost n) text (print_node n ++ s) (pcons n R).

Lemma forest_reads f : Forall node_reads f -> forest_ok f = true ->
  forall text k s R, stable k text s R -> stable (k + costf f) text (print_forest f ++ s) (papp f R).
Proof.
  intros HF. induction HF as [|n f Hn HF IH]; intros Hok text k s R HR.
  - cbn [print_forest flat_map app]. intros fuel Hf. rewrite (HR fuel); [destruct R; reflexivity|lia].
  - unfold forest_ok in Hok. cbn [forallb] in Hok. apply andb_true_iff in Hok. destruct Hok as [Hnok Hok].
    unfold print_forest. cbn [flat_map]. rewrite <- app_assoc.
    pose proof (Hn Hnok text _ _ _ (IH Hok text k s R HR)) as H. unfold print_forest in H.
    intros fuel Hf. change (costf (n :: f)) with (cost n + costf f)%nat in Hf.
    rewrite (H fuel); [destruct R; reflexivity|]. lia.
Qed.

Lemma node_reads_all n : node_reads n.
Proof.
  induction n as [kw has arg subs IHs] using node_ind'.
  intros Hok text k s R HR fuel Hf.
  cbn [node_ok] in Hok. apply andb_true_iff in Hok. destruct Hok as [Hok Hsubs].
  apply andb_true_iff in Hok. destruct Hok as [Hok Hh]. apply andb_true_iff in Hok. destruct Hok as [Hkw Harg].
  cbn [cost] in Hf. destruct fuel as [|f]; [lia|].
  destruct subs as [|n0 subs0] eqn:Esubs.
  - (* keyword [argument] ; LF *)
    cbn [print_node]. rewrite <- !app_assoc. cbn [app].
    set (T := cSEMI :: cLF :: s).
    destruct (print_arg_head has arg T cSEMI (cLF :: s) eq_refl eq_refl) as (c' & r' & E & Hc').
    rewrite (stmts_semi f text _ kw has arg (print_arg has arg ++ T) T (cLF :: s)).
    + rewrite stmts_lf. rewrite (HR f); [reflexivity|lia].
    + rewrite E. apply read_token_kw; assumption.
    + apply (argument_print text _ has arg T cSEMI (cLF :: s) Hh). intro pt. apply read_token_semi.
    + apply read_token_semi.
  - (* keyword [argument] SP { LF substatements } LF *)
    rewrite <- Esubs in *. assert (Hne : subs <> []) by (rewrite Esubs; discriminate).
    assert (Hpr : print_node (Node kw has arg subs) =
                  kw ++ print_arg has arg ++ cSP :: cLB :: cLF :: print_forest subs ++ [cRB; cLF]).
    { cbn [print_node]. destruct subs; [congruence|reflexivity]. }
    rewrite Hpr. rewrite <- !app_assoc. cbn [app]. rewrite <- !app_assoc. cbn [app].
    set (B := print_forest subs ++ cRB :: cLF :: s).
    set (T := cSP :: cLB :: cLF :: B).
    destruct (print_arg_head has arg T cSP (cLB :: cLF :: B) eq_refl eq_refl) as (c' & r' & E & Hc').
    assert (Hclose : stable 1 text (cRB :: cLF :: s) (POk [] true (cLF :: s))).
    { intros fu Hfu. destruct fu as [|fu]; [lia|]. cbn [stmts]. rewrite read_token_rb. reflexivity. }
    pose proof (forest_reads subs IHs Hsubs text 1 _ _ Hclose) as Hblock.
    cbn [papp] in Hblock. rewrite app_nil_r in Hblock.
    rewrite (stmts_block f text _ kw has arg (print_arg has arg ++ T) T (cLF :: B) subs (cLF :: s)).
    + rewrite stmts_lf. rewrite (HR f); [reflexivity|]. cbn [cost] in Hf. lia.
    + rewrite E. apply read_token_kw; assumption.
    + apply (argument_print text _ has arg T cLB (cLF :: B) Hh). intro pt. apply read_token_lb.
    + apply read_token_lb.
    + rewrite stmts_lf. apply Hblock. fold (costf subs) in Hf. lia.
Qed.

Lemma cost_le_length n : (cost n <= length (print_node n))%nat.
Proof.
  induction n as [kw has arg subs IHs] using node_ind'.
  assert (H : (list_sum (map cost subs) <= length (flat_map print_node subs))%nat).
  { induction IHs as [|x l Hx _ IH]; [apply le_n|]. cbn [map list_sum fold_right flat_map]. rewrite app_length. cbv beta in Hx. unfold list_sum in IH. lia. }
  cbn [cost print_node]. rewrite !app_length. destruct subs as [|n0 subs0].
  - cbn [map list_sum fold_right length]. lia.
  - cbn [length]. rewrite app_length. cbn [length]. lia.
Qed.

Lemma costf_le_length f : (costf f <= length (print_forest f))%nat.
Proof.
  induction f as [|n f IH]; [apply le_n|]. change (costf (n :: f)) with (cost n + costf f)%nat.
  unfold print_forest in *. cbn [flat_map]. rewrite app_length. pose proof (cost_le_length n). lia.
Qed.

(* ------------------------------------------------------------------ THE THEOREM *)
Theorem print_spec_parse f : forest_ok f = true -> spec_parse (print_forest f) = Accept f.
Proof.
  intro Hok. unfold spec_parse.
  assert (Hend : forall text, stable 1 text [] (POk [] false [])).
  { intros text fu Hfu. destruct fu as [|fu]; [lia|]. reflexivity. }
  assert (HF : Forall node_reads f) by (apply Forall_forall; intros n _; apply node_reads_all).
  pose proof (forest_reads f HF Hok (print_forest f) 1 [] _ (Hend _)) as H.
  rewrite app_nil_r in H. rewrite (H (S (length (print_forest f)))).
  - cbn [papp]. rewrite app_nil_r. reflexivity.
  - pose proof (costf_le_length f). lia.
Qed.

(* ------------------------------------------------------------------ through the parser model *)
Definition no_eof (s : str) : bool := forallb (fun c => negb (c =? EOFR)%N) s.

Lemma no_eof_escape arg : arg_ok arg = true -> no_eof (escape arg) = true.
Proof.
  unfold arg_ok, no_eof, escape. induction arg as [|a arg IH]; [reflexivity|]. intro H. cbn [forallb] in H.
  apply andb_true_iff in H. destruct H as [Ha H]. cbn [flat_map]. rewrite forallb_app. apply andb_true_iff. split; [|exact (IH H)].
  unfold escape_rune. destruct (a =? cLF)%N; [reflexivity|]. destruct (a =? cTAB)%N; [reflexivity|].
  destruct (a =? cDQ)%N; [reflexivity|]. destruct (a =? cBSL)%N; [reflexivity|]. cbn [forallb]. rewrite Ha. reflexivity.
Qed.

Lemma no_eof_kw kw : kw_ok kw = true -> no_eof kw = true.
Proof.
  intro H. destruct kw as [|k0 kw']; [discriminate|]. unfold kw_ok in H. apply andb_true_iff in H. destruct H as [H _].
  unfold no_eof. apply forallb_forall. intros c Hc. rewrite forallb_forall in H. specialize (H c Hc).
  destruct (kw_char_facts _ H) as (_ & _ & _ & E). rewrite E. reflexivity.
Qed.

Lemma no_eof_node n : node_ok n = true -> no_eof (print_node n) = true.
Proof.
  induction n as [kw has arg subs IHs] using node_ind'. intro Hok.
  cbn [node_ok] in Hok. apply andb_true_iff in Hok. destruct Hok as [Hok Hsubs].
  apply andb_true_iff in Hok. destruct Hok as [Hok Hh]. apply andb_true_iff in Hok. destruct Hok as [Hkw Harg].
  assert (HS : no_eof (flat_map print_node subs) = true).
  { clear Hh. induction IHs as [|x l Hx _ IH]; [reflexivity|]. cbn [forallb] in Hsubs. apply andb_true_iff in Hsubs.
    destruct Hsubs as [Hxo Hl]. cbn [flat_map]. unfold no_eof in *. rewrite forallb_app. apply andb_true_iff. split; [exact (Hx Hxo)|exact (IH Hl)]. }
  pose proof (no_eof_kw _ Hkw) as HK. pose proof (no_eof_escape _ Harg) as HA.
  cbn [print_node]. unfold no_eof in *. rewrite !forallb_app.
  apply andb_true_iff. split; [exact HK|]. apply andb_true_iff. split.
  - unfold print_arg. destruct has; [|reflexivity].
    change (cSP :: cDQ :: escape arg ++ [cDQ]) with ([cSP; cDQ] ++ escape arg ++ [cDQ]). rewrite !forallb_app.
    apply andb_true_iff. split; [reflexivity|]. apply andb_true_iff. split; [exact HA|reflexivity].
  - destruct subs as [|n0 subs0]; [reflexivity|].
    change (cSP :: cLB :: cLF :: flat_map print_node (n0 :: subs0) ++ [cRB; cLF])
      with ([cSP; cLB; cLF] ++ flat_map print_node (n0 :: subs0) ++ [cRB; cLF]). rewrite !forallb_app.
    apply andb_true_iff. split; [reflexivity|]. apply andb_true_iff. split; [exact HS|reflexivity].
Qed.

Lemma no_eof_forest_b f : forest_ok f = true -> no_eof (print_forest f) = true.
Proof.
  unfold forest_ok, print_forest. induction f as [|n f IH]; [reflexivity|]. intro Hok. cbn [forallb] in Hok.
  apply andb_true_iff in Hok. destruct Hok as [Hn Hf]. cbn [flat_map]. unfold no_eof in *. rewrite forallb_app.
  apply andb_true_iff. split; [exact (no_eof_node n Hn)|exact (IH Hf)].
Qed.

Lemma no_eof_forest f : forest_ok f = true -> ~ In EOFR (print_forest f).
Proof.
  intros Hok Hin. pose proof (no_eof_forest_b f Hok) as H.
  unfold no_eof in H. rewrite forallb_forall in H. specialize (H _ Hin). rewrite N.eqb_refl in H. discriminate.
Qed.

Lemma print_node_ends n : exists X, print_node n = X ++ [cLF].
Proof.
  destruct n as [kw has arg subs]. cbn [print_node]. destruct subs as [|n0 subs0].
  - exists (kw ++ print_arg has arg ++ [cSEMI]). rewrite <- !app_assoc. reflexivity.
  - exists (kw ++ print_arg has arg ++ cSP :: cLB :: cLF :: flat_map print_node (n0 :: subs0) ++ [cRB]).
    rewrite <- !app_assoc. cbn [app]. rewrite <- !app_assoc. reflexivity.
Qed.

Lemma print_forest_terminated f : terminated (print_forest f) = print_forest f.
Proof.
  assert (H : f = [] \/ exists X, print_forest f = X ++ [cLF]).
  { induction f as [|n f IH]; [left; reflexivity|right]. unfold print_forest in *. cbn [flat_map].
    destruct IH as [E|[X E]].
    - subst. cbn [flat_map]. rewrite app_nil_r. apply print_node_ends.
    - exists (print_node n ++ X). rewrite E, app_assoc. reflexivity. }
  destruct H as [E|[X E]]; [subst; reflexivity|]. rewrite E. unfold terminated. rewrite rev_unit. reflexivity.
Qed.

Theorem print_Parse f : forest_ok f = true ->
  exists ss, Parse (print_forest f) = (ss, [], false) /\ map erase ss = f.
Proof.
  intro Hok. apply Parse_accepts; [apply no_eof_forest; exact Hok|].
  rewrite print_forest_terminated. apply print_spec_parse. exact Hok.
Qed.
