(* C15, T3 for decimal64 values: String_ followed by ParseDecimal at the same precision gives
   the number back (with -0.0 read back as +0.0). *)
From Coq Require Import List NArith ZArith QArith Bool Lia.
Import ListNotations.
From GY Require Import Base.Outcome Model.Number Spec.C15 Proofs.NumberProofs.
Local Open Scope Z_scope.

Definition sg_of (neg : bool) : option bool := if neg then Some true else None.

Lemma sg_neg_of neg : sg_neg (sg_of neg) = neg.
Proof. destruct neg; reflexivity. Qed.

(* a digit string split by a point at position p, with fd digits after the point *)
Lemma roundtrip_core (neg : bool) (out : str) (p : nat) (v fd : Z) :
  all_digits out -> cval 0 out = v -> (p <= length out)%nat ->
  Z.of_nat (length out) - Z.of_nat p = fd -> 1 <= fd <= 18 ->
  0 <= v -> (if neg then v <= two63 else v < two63) ->
  ParseDecimal (sign_chars (sg_of neg) ++ firstn p out ++ cdot :: skipn p out) fd
  = Ok (of_mant neg v fd).
Proof.
  intros Hd Hc Hp Hl Hfd Hv Hb.
  pose proof (firstn_skipn p out) as FS.
  assert (HIF : all_digits (firstn p out) /\ all_digits (skipn p out)).
  { apply all_digits_app. now rewrite FS. }
  destruct HIF as [HI HF].
  assert (Hk : Z.of_nat (length (skipn p out)) = fd) by (rewrite skipn_length; lia).
  set (s := sign_chars (sg_of neg) ++ firstn p out ++ cdot :: skipn p out).
  assert (Hdot : In cdot s).
  { unfold s. rewrite !in_app_iff. right. right. now left. }
  rewrite ParseDecimal_plain.
  - unfold s. rewrite (dvfs_point (sg_of neg) _ _ fd HI HF Hfd). cbn zeta. rewrite Hk.
    destruct (Z.gtb_spec fd fd); [lia|].
    rewrite Z.sub_diag, Z.pow_0_r, Z.mul_1_r, FS, Hc, sg_neg_of.
    destruct neg.
    + destruct (Z.leb_spec v two63); [reflexivity|lia].
    + destruct (Z.leb_spec v (two63 - 1)); [reflexivity|lia].
  - unfold s. apply plain_app; [apply plain_sign|]. apply plain_app; [now apply plain_digits|].
    intros c [<-|Hc']; [right; right; now left|]. now apply (plain_digits _ HF).
  - intro E. rewrite E in Hdot. contradiction.
  - intro E. rewrite E in Hdot. destruct Hdot as [X|[]]. discriminate X.
  - intro E. rewrite E in Hdot. destruct Hdot as [X|[]]. discriminate X.
Qed.

Lemma dom_dec_dom n : dom_dec n -> dom n.
Proof.
  intros (Hfd & Hv & Hb). unfold dom. rewrite two64_eq. rewrite two63_eq in Hb.
  destruct (Negative n); lia.
Qed.

Theorem roundtrip_dec_mant n : dom_dec n ->
  exists s, String_ n = Ok s /\
            ParseDecimal s (FractionDigits n) = Ok (of_mant (Negative n) (Value n) (FractionDigits n)).
Proof.
  intro D. pose proof (dom_dec_dom n D) as [[Hv0 Hv1] _].
  destruct n as [v fd neg]. unfold dom_dec in D. cbn [Value FractionDigits Negative] in *.
  destruct D as (Hfd & _ & Hb).
  destruct (FormatUint_spec v ltac:(lia)) as (Hd & Hc & Hne & _).
  unfold String_, IsDecimal. cbn [Value FractionDigits Negative].
  destruct (Z.eqb_spec fd 0) as [E|_]; [lia|]. cbn [negb].
  set (out := FormatUint v) in *.
  assert (HL : 1 <= Z.of_nat (length out)) by (destruct out; [congruence|cbn [length]; lia]).
  destruct (Z.leb_spec (Z.of_nat (length out) - fd) 0) as [L|L].
  - destruct (Z.gtb_spec (- (Z.of_nat (length out) - fd) + 1) 18) as [G|_]; [lia|]. cbn [obind].
    set (k := - (Z.of_nat (length out) - fd) + 1).
    exists (sign_chars (sg_of neg) ++ firstn 1 (zeros k ++ out) ++ cdot :: skipn 1 (zeros k ++ out)).
    split; [destruct neg; reflexivity|].
    assert (Hlen : Z.of_nat (length (zeros k ++ out)) = k + Z.of_nat (length out)).
    { rewrite app_length, Nat2Z.inj_add, zeros_length by (unfold k; lia). reflexivity. }
    assert (Hd' : all_digits (zeros k ++ out)).
    { apply all_digits_app. split; [apply zeros_digits|exact Hd]. }
    assert (Hc' : cval 0 (zeros k ++ out) = v).
    { rewrite cval_app, cval_zeros by (unfold k; lia). rewrite Z.mul_0_l. exact Hc. }
    apply roundtrip_core; try assumption; unfold k in *; lia.
  - cbn [obind].
    exists (sign_chars (sg_of neg) ++ firstn (Z.to_nat (Z.of_nat (length out) - fd)) out
            ++ cdot :: skipn (Z.to_nat (Z.of_nat (length out) - fd)) out).
    split; [destruct neg; reflexivity|].
    apply roundtrip_core; try assumption; try lia.
Qed.

Lemma of_mant_val neg v fd : 0 <= v -> (val (of_mant neg v fd) == val {| Value := v; FractionDigits := fd; Negative := neg |})%Q.
Proof.
  intro Hv. unfold val, sval, of_mant, Qeq. cbn [Value FractionDigits Negative Qnum Qden].
  destruct neg; cbn [andb]; [|reflexivity].
  destruct (Z.ltb_spec 0 v); [reflexivity|]. assert (v = 0) as -> by lia. reflexivity.
Qed.

(* printing a decimal64 value and parsing the text at the same precision returns a number with
   the same mantissa and precision that is Equal to (denotes the same rational as) the original,
   and is the very same Number unless the original is -0 *)
Theorem roundtrip_dec n : dom_dec n ->
  exists s n', String_ n = Ok s /\ ParseDecimal s (FractionDigits n) = Ok n' /\
    Equal n' n = true /\ (val n' == val n)%Q /\
    Value n' = Value n /\ FractionDigits n' = FractionDigits n /\ (Value n <> 0 -> n' = n).
Proof.
  intro D. destruct (roundtrip_dec_mant n D) as (s & S & P).
  exists s, (of_mant (Negative n) (Value n) (FractionDigits n)).
  pose proof (dom_dec_dom n D) as Dn. pose proof Dn as [[Hv0 Hv1] Hf].
  assert (V : (val (of_mant (Negative n) (Value n) (FractionDigits n)) == val n)%Q).
  { destruct n as [v fd neg]. apply of_mant_val. exact Hv0. }
  split; [exact S|]. split; [exact P|]. split; [|split; [exact V|]].
  - apply Equal_spec; [|exact Dn|exact V]. unfold dom, of_mant. cbn [Value FractionDigits]. lia.
  - split; [reflexivity|]. split; [reflexivity|].
    intro Nz. destruct n as [v fd neg]. unfold of_mant. cbn [Value FractionDigits Negative] in *.
    destruct (Z.ltb_spec 0 v); [|lia]. now rewrite andb_true_r.
Qed.
