From Coq Require Import List NArith ZArith QArith Bool Lia.
Import ListNotations.
From GY Require Import Base.Outcome Model.Number Spec.C15.
Local Open Scope Z_scope.

Lemma two64_eq : two64 = 18446744073709551616. Proof. reflexivity. Qed.
Lemma two63_eq : two63 = 9223372036854775808. Proof. reflexivity. Qed.
Lemma ten18_lt : 10 ^ 18 < two64. Proof. reflexivity. Qed.

Lemma pow10_pos e : 0 <= e -> 0 < 10 ^ e.
Proof. intro. apply Z.pow_pos_nonneg; lia. Qed.

Lemma pow10_le18 e : 0 <= e <= 18 -> 10 ^ e <= 10 ^ 18.
Proof. intro. apply Z.pow_le_mono_r; lia. Qed.

Lemma pow10_nowrap e : 0 <= e <= 18 -> pow10 e = 10 ^ e.
Proof.
  intro H. unfold pow10, u64. apply Z.mod_small.
  pose proof (pow10_pos e). pose proof (pow10_le18 e H). pose proof ten18_lt. lia.
Qed.

Lemma pow10_split e : 0 <= e <= 18 -> 10 ^ e * 10 ^ (18 - e) = 10 ^ 18.
Proof. intro. rewrite <- Z.pow_add_r by lia. f_equal. lia. Qed.

(* the decomposition Less relies on *)
Lemma trunc_frac n : dom n ->
  let e := 10 ^ FractionDigits n in
  Trunc n = Value n / e /\ frac n = (Value n mod e) * 10 ^ (18 - FractionDigits n) /\
  0 <= frac n < 10 ^ 18 /\ 0 <= Trunc n /\
  Value n * 10 ^ (18 - FractionDigits n) = Trunc n * 10 ^ 18 + frac n.
Proof.
  intros [[Hv0 Hv1] Hf]. cbn zeta.
  set (fd := FractionDigits n) in *. set (V := Value n) in *.
  assert (He : 0 < 10 ^ fd) by (apply pow10_pos; lia).
  assert (Ha : 0 < 10 ^ (18 - fd)) by (apply pow10_pos; lia).
  pose proof (pow10_split fd Hf) as Hs.
  assert (HT : Trunc n = V / 10 ^ fd).
  { unfold Trunc. fold fd V. now rewrite pow10_nowrap. }
  pose proof (Z.div_mod V (10 ^ fd) ltac:(lia)) as Hdm.
  pose proof (Z.mod_pos_bound V (10 ^ fd) He) as Hmb.
  assert (Hq : 0 <= V / 10 ^ fd) by (apply Z.div_pos; lia).
  assert (Hq2 : 10 ^ fd * (V / 10 ^ fd) <= V) by lia.
  assert (Hprod : 0 <= (V mod 10 ^ fd) * 10 ^ (18 - fd) < 10 ^ 18).
  { split; [apply Z.mul_nonneg_nonneg; lia|].
    rewrite <- Hs. apply Z.mul_lt_mono_pos_r; lia. }
  assert (HF : frac n = (V mod 10 ^ fd) * 10 ^ (18 - fd)).
  { unfold frac. fold fd V. rewrite HT.
    rewrite (pow10_nowrap fd) by lia.
    assert (u8 (18 - fd) = 18 - fd) as -> by (unfold u8; apply Z.mod_small; lia).
    rewrite (pow10_nowrap (18 - fd)) by lia.
    assert (u64 (V / 10 ^ fd * 10 ^ fd) = V / 10 ^ fd * 10 ^ fd) as ->.
    { unfold u64. apply Z.mod_small. rewrite two64_eq in *. lia. }
    assert (V - V / 10 ^ fd * 10 ^ fd = V mod 10 ^ fd) as -> by lia.
    assert (u64 (V mod 10 ^ fd) = V mod 10 ^ fd) as ->.
    { unfold u64. apply Z.mod_small. rewrite two64_eq in *. lia. }
    unfold u64. apply Z.mod_small. pose proof ten18_lt. lia. }
  rewrite HT, HF. repeat split; try lia.
  replace (V * 10 ^ (18 - fd)) with ((10 ^ fd * (V / 10 ^ fd) + V mod 10 ^ fd) * 10 ^ (18 - fd)) by (f_equal; lia).
  rewrite Z.mul_add_distr_r. f_equal.
  rewrite <- Hs. ring.
Qed.

(* scaled magnitude: value * 10^(18 - fd) *)
Definition smag (n : Number) : Z := Value n * 10 ^ (18 - FractionDigits n).

Lemma lex_lt t1 f1 t2 f2 K :
  0 <= f1 < K -> 0 <= f2 < K ->
  ((if t1 =? t2 then (if f1 =? f2 then false else f1 <? f2) else t1 <? t2) = true
   <-> t1 * K + f1 < t2 * K + f2).
Proof.
  intros H1 H2. destruct (Z.eqb_spec t1 t2) as [->|Hne].
  - destruct (Z.eqb_spec f1 f2) as [->|Hf]; [split; [discriminate|lia]|].
    rewrite Z.ltb_lt. lia.
  - rewrite Z.ltb_lt. split; intro H; nia.
Qed.

Lemma lex_eq t1 f1 t2 f2 K :
  0 <= f1 < K -> 0 <= f2 < K ->
  ((t1 =? t2) && (f1 =? f2) = true <-> t1 * K + f1 = t2 * K + f2).
Proof.
  intros H1 H2. rewrite andb_true_iff, !Z.eqb_eq. split; [intros [-> ->]; reflexivity|].
  intro H. assert (t1 = t2) by nia. subst. split; [reflexivity|lia].
Qed.

Lemma scale_lt x y a b en em K :
  0 < a -> 0 < b -> 0 < K -> en * a = K -> em * b = K ->
  (x * em < y * en <-> x * a < y * b).
Proof.
  intros Ha Hb HK H1 H2.
  assert (Hab : 0 < a * b) by (apply Z.mul_pos_pos; lia).
  assert (E1 : x * em * (a * b) = x * a * K) by (rewrite <- H2; ring).
  assert (E2 : y * en * (a * b) = y * b * K) by (rewrite <- H1; ring).
  split; intro H.
  - apply (Z.mul_lt_mono_pos_r (a * b)) in H; [|exact Hab].
    rewrite E1, E2 in H. apply Z.mul_lt_mono_pos_r in H; lia.
  - apply (Z.mul_lt_mono_pos_r (a * b)); [exact Hab|].
    rewrite E1, E2. apply Z.mul_lt_mono_pos_r; lia.
Qed.

(* val n < val m in integers *)
Lemma val_lt n m : dom n -> dom m ->
  (val n < val m)%Q <->
  (if Negative n then - smag n else smag n) < (if Negative m then - smag m else smag m).
Proof.
  intros Hn Hm. unfold val, Qlt. cbn [Qnum Qden].
  destruct Hn as [Hnv Hnf], Hm as [Hmv Hmf].
  rewrite !Z2Pos.id by (apply pow10_pos; lia).
  unfold smag, sval.
  assert (0 < 10 ^ (18 - FractionDigits n)) by (apply pow10_pos; lia).
  assert (0 < 10 ^ (18 - FractionDigits m)) by (apply pow10_pos; lia).
  assert (0 < 10 ^ 18) by (apply pow10_pos; lia).
  pose proof (pow10_split _ Hnf). pose proof (pow10_split _ Hmf).
  rewrite (scale_lt _ _ (10 ^ (18 - FractionDigits n)) (10 ^ (18 - FractionDigits m))
             (10 ^ FractionDigits n) (10 ^ FractionDigits m) (10 ^ 18)) by lia.
  destruct (Negative n), (Negative m); rewrite ?Z.mul_opp_l; reflexivity.
Qed.

Lemma Less_spec n m : dom n -> dom m -> (Less n m = true <-> (val n < val m)%Q).
Proof.
  intros Hn Hm. rewrite (val_lt n m Hn Hm).
  destruct (trunc_frac n Hn) as (_ & _ & Hfn & Htn & Hsn).
  destruct (trunc_frac m Hm) as (_ & _ & Hfm & Htm & Hsm).
  fold (smag n) in Hsn. fold (smag m) in Hsm.
  assert (Hn0 : 0 <= smag n) by lia. assert (Hm0 : 0 <= smag m) by lia.
  assert (Zn : Value n = 0 <-> smag n = 0).
  { unfold smag. destruct Hn as [? ?]. pose proof (pow10_pos (18 - FractionDigits n) ltac:(lia)). nia. }
  assert (Zm : Value m = 0 <-> smag m = 0).
  { unfold smag. destruct Hm as [? ?]. pose proof (pow10_pos (18 - FractionDigits m) ltac:(lia)). nia. }
  unfold Less.
  destruct (Negative n) eqn:En, (Negative m) eqn:Em; cbn [andb negb].
  - (* both negative *)
    pose proof (lex_lt (Trunc m) (frac m) (Trunc n) (frac n) (10 ^ 18) Hfm Hfn) as L.
    rewrite <- Hsn, <- Hsm in L.
    destruct (Z.eqb_spec (Trunc n) (Trunc m)) as [Et|Et].
    + rewrite Et in *. rewrite Z.eqb_refl in L.
      destruct (Z.eqb_spec (frac n) (frac m)) as [Ef|Ef].
      * rewrite Ef in *. split; [discriminate|lia].
      * rewrite negb_true_iff, Z.ltb_ge. lia.
    + rewrite negb_true_iff, Z.ltb_ge.
      split; intro; nia.
  - (* n negative, m non-negative *)
    rewrite orb_true_iff, !negb_true_iff, !Z.eqb_neq. lia.
  - split; [discriminate|lia].
  - pose proof (lex_lt (Trunc n) (frac n) (Trunc m) (frac m) (10 ^ 18) Hfn Hfm) as L.
    rewrite <- Hsn, <- Hsm in L. exact L.
Qed.

Lemma Equal_spec n m : dom n -> dom m -> (Equal n m = true <-> (val n == val m)%Q).
Proof.
  intros Hn Hm. unfold Equal. rewrite andb_true_iff, !negb_true_iff.
  pose proof (Less_spec n m Hn Hm) as L1. pose proof (Less_spec m n Hm Hn) as L2.
  split.
  - intros [A B]. apply Qle_antisym; apply Qnot_lt_le; intro C.
    + apply L2 in C. congruence.
    + apply L1 in C. congruence.
  - intro E. split.
    + apply not_true_is_false. intro X. apply L1 in X. rewrite E in X. now apply Qlt_irrefl in X.
    + apply not_true_is_false. intro X. apply L2 in X. rewrite E in X. now apply Qlt_irrefl in X.
Qed.

(* ---------- Int ---------- *)
Lemma wrap64_id z : - two63 <= z < two63 -> wrap64 z = z.
Proof.
  intro H. unfold wrap64. rewrite Z.mod_small; [lia|]. rewrite two64_eq, two63_eq in *. lia.
Qed.

Lemma Int_spec n : dom n ->
  match Int n with
  | Ok z => FractionDigits n = 0 /\ z = sval n /\ - two63 <= z < two63
  | Err => FractionDigits n <> 0 \/ ~ (- two63 <= sval n < two63)
  | _ => False
  end.
Proof.
  intros [[Hv0 Hv1] Hf]. unfold Int, IsDecimal, sval, AbsMinInt64, MaxInt64.
  destruct (Z.eqb_spec (FractionDigits n) 0) as [E|E]; cbn [negb]; [|now left].
  destruct (Negative n).
  - destruct (Z.gtb_spec (Value n) two63) as [G|G]; [right; lia|].
    destruct (Z.eq_dec (Value n) two63) as [Eq|Ne].
    + rewrite Eq. assert (wrap64 two63 = - two63) as -> by reflexivity.
      rewrite Z.opp_involutive. assert (wrap64 two63 = - two63) as -> by reflexivity.
      rewrite two63_eq. lia.
    + rewrite (wrap64_id (Value n)) by lia. rewrite wrap64_id by lia. lia.
  - destruct (Z.leb_spec (Value n) (two63 - 1)) as [G|G]; [|right; lia].
    rewrite wrap64_id by lia. lia.
Qed.

(* ====================== decimal text ====================== *)

Definition cval (acc : Z) (s : str) : Z := fold_left (fun a c => a * 10 + digit_val c) s acc.
Definition all_digits (s : str) : Prop := forallb is_digit s = true.

Lemma is_digit_val c : is_digit c = true -> 0 <= digit_val c <= 9.
Proof. unfold is_digit, digit_val. rewrite andb_true_iff, !N.leb_le. lia. Qed.

Lemma digit_char_ok d : 0 <= d <= 9 -> is_digit (digit_char d) = true /\ digit_val (digit_char d) = d.
Proof.
  intro H. unfold is_digit, digit_val, digit_char, c0.
  rewrite andb_true_iff, !N.leb_le. lia.
Qed.

Lemma all_digits_cons c s : all_digits (c :: s) <-> is_digit c = true /\ all_digits s.
Proof. unfold all_digits. cbn. now rewrite andb_true_iff. Qed.

Lemma all_digits_app a b : all_digits (a ++ b) <-> all_digits a /\ all_digits b.
Proof. unfold all_digits. now rewrite forallb_app, andb_true_iff. Qed.

Lemma cval_app acc a b : cval acc (a ++ b) = cval (cval acc a) b.
Proof. apply fold_left_app. Qed.

Lemma cval_mono s : forall acc, all_digits s -> 0 <= acc -> acc <= cval acc s.
Proof.
  induction s as [|c s IH]; intros acc Hd Ha; cbn; [lia|].
  apply all_digits_cons in Hd. destruct Hd as [Hc Hs].
  pose proof (is_digit_val c Hc). specialize (IH (acc * 10 + digit_val c) Hs ltac:(lia)).
  unfold cval in IH. lia.
Qed.

Lemma cval_lin s : forall acc, cval acc s = acc * 10 ^ Z.of_nat (length s) + cval 0 s.
Proof.
  induction s as [|c s IH]; intro acc; cbn [cval fold_left length]; [cbn; lia|].
  fold (cval (acc * 10 + digit_val c) s). fold (cval (0 * 10 + digit_val c) s).
  rewrite (IH (acc * 10 + _)), (IH (0 * 10 + _)).
  rewrite Nat2Z.inj_succ, Z.pow_succ_r by lia. ring.
Qed.

Lemma acc_digits_dec maxv s : forall acc, all_digits s -> 0 <= acc ->
  acc_digits 10 maxv acc s = if cval acc s <=? maxv then Ok (cval acc s) else Err.
Proof.
  induction s as [|c s IH]; intros acc Hd Ha.
  - cbn. destruct (Z.leb_spec acc maxv); [reflexivity|].
    (* the accumulator itself is only checked after a digit was added; the callers start
       from 0 <= maxv *)
    Abort.

Lemma acc_digits_dec maxv s : forall acc, all_digits s -> 0 <= acc <= maxv ->
  acc_digits 10 maxv acc s = if cval acc s <=? maxv then Ok (cval acc s) else Err.
Proof.
  induction s as [|c s IH]; intros acc Hd Ha.
  - cbn. destruct (Z.leb_spec acc maxv); [reflexivity|lia].
  - apply all_digits_cons in Hd. destruct Hd as [Hc Hs].
    pose proof (is_digit_val c Hc) as Hv.
    cbn [acc_digits cval fold_left]. rewrite Hc.
    destruct (Z.geb_spec (digit_val c) 10); [lia|].
    fold (cval (acc * 10 + digit_val c) s).
    destruct (Z.gtb_spec (acc * 10 + digit_val c) maxv) as [G|G].
    + pose proof (cval_mono s (acc * 10 + digit_val c) Hs ltac:(lia)).
      destruct (Z.leb_spec (cval (acc * 10 + digit_val c) s) maxv); [lia|reflexivity].
    + apply IH; [exact Hs|lia].
Qed.

(* FormatUint *)
Lemma fmt_fuel_spec fuel : forall v, 0 <= v < 10 ^ Z.of_nat (S fuel) ->
  all_digits (fmt_fuel (S fuel) v) /\ cval 0 (fmt_fuel (S fuel) v) = v /\ fmt_fuel (S fuel) v <> [] /\
  (0 < v -> hd c0 (fmt_fuel (S fuel) v) <> c0).
Proof.
  assert (Small : forall k v, 0 <= v < 10 ->
    all_digits (fmt_fuel (S k) v) /\ cval 0 (fmt_fuel (S k) v) = v /\ fmt_fuel (S k) v <> [] /\
    (0 < v -> hd c0 (fmt_fuel (S k) v) <> c0)).
  { intros k v L. cbn [fmt_fuel]. destruct (Z.ltb_spec v 10); [|lia].
    destruct (digit_char_ok v ltac:(lia)) as [D1 D2]. repeat split.
    - apply all_digits_cons. split; [exact D1|reflexivity].
    - unfold cval. cbn [fold_left]. rewrite D2. lia.
    - discriminate.
    - intros Hp. cbn [hd]. unfold digit_char, c0. intro E.
      assert (Z.to_N v = 0%N) by (apply (N.add_cancel_l _ _ 48%N); rewrite E; reflexivity). lia. }
  induction fuel as [|f IH]; intros v Hv.
  - apply Small. cbn in Hv. lia.
  - destruct (Z.ltb_spec v 10) as [L|L]; [apply Small; lia|].
    change (fmt_fuel (S (S f)) v) with
      (if v <? 10 then [digit_char v] else fmt_fuel (S f) (v / 10) ++ [digit_char (v mod 10)]).
    destruct (Z.ltb_spec v 10); [lia|].
    rewrite Nat2Z.inj_succ, Z.pow_succ_r in Hv by lia.
    assert (Hq : 0 <= v / 10 < 10 ^ Z.of_nat (S f)).
    { split; [apply Z.div_pos; lia|]. apply Z.div_lt_upper_bound; lia. }
    destruct (IH (v / 10) Hq) as (A & B & C & D).
    pose proof (Z.mod_pos_bound v 10 ltac:(lia)) as Hm.
    destruct (digit_char_ok (v mod 10) ltac:(lia)) as [D1 D2].
    repeat split.
    + apply all_digits_app. split; [exact A|]. apply all_digits_cons. split; [exact D1|reflexivity].
    + rewrite cval_app, B. unfold cval. cbn [fold_left]. rewrite D2. pose proof (Z.div_mod v 10 ltac:(lia)). lia.
    + destruct (fmt_fuel (S f) (v / 10)); [congruence|discriminate].
    + intros _. assert (Hp : 0 < v / 10) by (apply Z.div_str_pos; lia).
      specialize (D Hp). destruct (fmt_fuel (S f) (v / 10)); [congruence|exact D].
Qed.

Lemma ten20_gt : two64 < 10 ^ Z.of_nat 20. Proof. reflexivity. Qed.

Lemma FormatUint_spec v : 0 <= v < two64 ->
  all_digits (FormatUint v) /\ cval 0 (FormatUint v) = v /\ FormatUint v <> [] /\
  (0 < v -> hd c0 (FormatUint v) <> c0).
Proof. intro H. unfold FormatUint. apply (fmt_fuel_spec 19). pose proof ten20_gt. lia. Qed.

(* plain strings: sign, point, digits *)
Definition plain (s : str) : Prop :=
  forall c, In c s -> c = cminus \/ c = cplus \/ c = cdot \/ is_digit c = true.

Lemma plain_app a b : plain a -> plain b -> plain (a ++ b).
Proof. intros Ha Hb c Hc. apply in_app_or in Hc. destruct Hc; auto. Qed.

Lemma plain_digits s : all_digits s -> plain s.
Proof.
  intros H c Hc. right; right; right. unfold all_digits in H. rewrite forallb_forall in H. auto.
Qed.

Lemma plain_sign sg : plain (sign_chars sg).
Proof. intros c Hc. destruct sg as [[|]|]; cbn in Hc; intuition. Qed.

Lemma plain_char c : plain [c] <-> (c = cminus \/ c = cplus \/ c = cdot \/ is_digit c = true).
Proof. split; [intro H; apply H; now left|]. intros H d [<-|[]]. exact H. Qed.

Lemma plain_facts c :
  (c = cminus \/ c = cplus \/ c = cdot \/ is_digit c = true) ->
  is_space c = false /\ is_alpha_us c = false /\ (128 <=? c)%N = false.
Proof.
  intros [->|[->|[->|H]]]; try (repeat split; reflexivity).
  unfold is_digit in H. rewrite andb_true_iff, !N.leb_le in H.
  unfold is_space, is_alpha_us. repeat split.
  - destruct (N.eqb_spec c 32); [lia|]. destruct (N.leb_spec 9 c), (N.leb_spec c 13); cbn; try reflexivity; lia.
  - destruct (N.leb_spec 65 c), (N.leb_spec c 90), (N.leb_spec 97 c), (N.leb_spec c 122), (N.eqb_spec c 95);
      cbn; try reflexivity; lia.
  - apply N.leb_gt. lia.
Qed.

Lemma existsb_false {A} (f : A -> bool) l : (forall x, In x l -> f x = false) -> existsb f l = false.
Proof. induction l as [|x l IH]; intro H; cbn; [reflexivity|]. rewrite H by now left. apply IH. intros; apply H; now right. Qed.

Lemma plain_non_ascii s : plain s -> non_ascii s = false.
Proof. intro H. apply existsb_false. intros c Hc. apply (plain_facts c (H c Hc)). Qed.
Lemma plain_no_alpha s : plain s -> existsb is_alpha_us s = false.
Proof. intro H. apply existsb_false. intros c Hc. apply (plain_facts c (H c Hc)). Qed.

Lemma trim_left_plain s : plain s -> trim_left s = s.
Proof.
  destruct s as [|c s]; intro H; [reflexivity|]. cbn.
  destruct (plain_facts c (H c (or_introl eq_refl))) as [-> _]. reflexivity.
Qed.

Lemma TrimSpace_plain s : plain s -> TrimSpace s = s.
Proof.
  intro H. unfold TrimSpace. rewrite (trim_left_plain s H).
  rewrite trim_left_plain; [apply rev_involutive|].
  intros c Hc. apply H. now apply in_rev.
Qed.

(* ---------- ParseInt / ParseInt10 on sign ++ digits ---------- *)

Definition sg_neg (sg : option bool) : bool := match sg with Some true => true | _ => false end.

Lemma is_digit_not_sign c : is_digit c = true -> c <> cplus /\ c <> cminus /\ c <> cdot.
Proof.
  unfold is_digit, cplus, cminus, cdot. rewrite andb_true_iff, !N.leb_le. lia.
Qed.

Lemma str_eqb_single c r x : (c <> x \/ r <> []) -> str_eqb (c :: r) [x] = false.
Proof.
  intros H. unfold str_eqb. destruct r as [|d r].
  - destruct H as [H|H]; [|congruence]. cbn. apply N.eqb_neq in H. now rewrite H.
  - reflexivity.
Qed.

Lemma hd_all_digits ds : all_digits ds -> ds <> [] -> exists c r, ds = c :: r /\ is_digit c = true.
Proof.
  intros H Hn. destruct ds as [|c r]; [congruence|]. exists c, r. split; [reflexivity|].
  now apply all_digits_cons in H.
Qed.

Lemma ParseUint0_digits ds :
  all_digits ds -> ds <> [] -> (ds = [c0] \/ hd c0 ds <> c0) ->
  ParseUint0 ds = if cval 0 ds <=? MaxUint64 then Ok (cval 0 ds) else Err.
Proof.
  intros Hd Hn Hz. unfold ParseUint0. rewrite (plain_no_alpha ds (plain_digits ds Hd)).
  destruct Hz as [->|Hz]; [reflexivity|].
  destruct ds as [|c r]; [congruence|]. cbn [hd] in Hz.
  apply N.eqb_neq in Hz. unfold c0 in Hz. rewrite Hz.
  apply acc_digits_dec; [exact Hd|]. unfold MaxUint64. rewrite two64_eq. lia.
Qed.

Lemma ParseInt_sign_digits sg ds :
  all_digits ds -> ds <> [] -> (ds = [c0] \/ hd c0 ds <> c0) ->
  ParseInt (sign_chars sg ++ ds) =
  if cval 0 ds <=? MaxUint64
  then Ok {| Value := cval 0 ds; FractionDigits := 0; Negative := sg_neg sg |} else Err.
Proof.
  intros Hd Hn Hz.
  assert (Hp : plain (sign_chars sg ++ ds)) by (apply plain_app; [apply plain_sign|now apply plain_digits]).
  unfold ParseInt. rewrite (plain_non_ascii _ Hp), (TrimSpace_plain _ Hp).
  destruct (hd_all_digits ds Hd Hn) as (c & r & E & Hc).
  destruct (is_digit_not_sign c Hc) as (N1 & N2 & _).
  pose proof (ParseUint0_digits ds Hd Hn Hz) as PU.
  destruct sg as [[|]|]; cbn [sign_chars app sg_neg].
  - rewrite (str_eqb_single cminus ds cplus) by (left; discriminate).
    rewrite (str_eqb_single cminus ds cminus) by (right; exact Hn).
    cbn [orb]. change ((cminus =? cplus)%N) with false. change ((cminus =? cminus)%N) with true.
    cbn iota. rewrite PU. destruct (cval 0 ds <=? MaxUint64); reflexivity.
  - rewrite (str_eqb_single cplus ds cplus) by (right; exact Hn).
    rewrite (str_eqb_single cplus ds cminus) by (left; discriminate).
    cbn [orb]. change ((cplus =? cplus)%N) with true.
    cbn iota. rewrite PU. destruct (cval 0 ds <=? MaxUint64); reflexivity.
  - subst ds.
    rewrite (str_eqb_single c r cplus) by (left; exact N1).
    rewrite (str_eqb_single c r cminus) by (left; exact N2).
    cbn [orb]. apply N.eqb_neq in N1, N2. rewrite N1, N2.
    rewrite PU. destruct (cval 0 (c :: r) <=? MaxUint64); reflexivity.
Qed.

Lemma ParseInt10_sign_digits sg ds :
  all_digits ds -> ds <> [] ->
  ParseInt10 (sign_chars sg ++ ds) =
  let v := cval 0 ds in
  if v <=? (if sg_neg sg then two63 else two63 - 1)
  then Ok (if sg_neg sg then - v else v) else Err.
Proof.
  intros Hd Hn. cbn zeta.
  destruct (hd_all_digits ds Hd Hn) as (c & r & E & Hc).
  destruct (is_digit_not_sign c Hc) as (N1 & N2 & _).
  assert (A : forall maxv, 0 <= maxv -> acc_digits 10 maxv 0 ds
              = if cval 0 ds <=? maxv then Ok (cval 0 ds) else Err).
  { intros maxv Hm. apply acc_digits_dec; [exact Hd|lia]. }
  unfold ParseInt10.
  destruct sg as [[|]|]; cbn [sign_chars app sg_neg].
  - change ((cminus =? cplus)%N) with false. change ((cminus =? cminus)%N) with true. cbn iota.
    destruct ds as [|d ds']; [congruence|]. rewrite A by (rewrite two63_eq; lia).
    destruct (cval 0 (d :: ds') <=? two63); reflexivity.
  - change ((cplus =? cplus)%N) with true. cbn iota.
    destruct ds as [|d ds']; [congruence|]. rewrite A by (rewrite two63_eq; lia).
    destruct (cval 0 (d :: ds') <=? two63 - 1); reflexivity.
  - subst ds. apply N.eqb_neq in N1, N2. rewrite N1, N2.
    rewrite A by (rewrite two63_eq; lia).
    destruct (cval 0 (c :: r) <=? two63 - 1); reflexivity.
Qed.

(* ---------- decimalValueFromString ---------- *)

Lemma index_dot_none s : (forall c, In c s -> c <> cdot) -> index_dot s = None.
Proof.
  induction s as [|c s IH]; intro H; [reflexivity|]. cbn.
  assert (c <> cdot) as Hc by (apply H; now left). apply N.eqb_neq in Hc. rewrite Hc.
  rewrite IH; [reflexivity|]. intros; apply H; now right.
Qed.

Lemma index_dot_app a b : (forall c, In c a -> c <> cdot) ->
  index_dot (a ++ cdot :: b) = Some (length a).
Proof.
  induction a as [|c a IH]; intro H; cbn.
  - change ((cdot =? cdot)%N) with true. reflexivity.
  - assert (c <> cdot) as Hc by (apply H; now left). apply N.eqb_neq in Hc. rewrite Hc.
    rewrite IH; [reflexivity|]. intros; apply H; now right.
Qed.

Lemma sign_digits_nodot sg ds : all_digits ds -> forall c, In c (sign_chars sg ++ ds) -> c <> cdot.
Proof.
  intros Hd c Hc. apply in_app_or in Hc. destruct Hc as [Hc|Hc].
  - destruct sg as [[|]|]; cbn in Hc; intuition (subst; discriminate).
  - unfold all_digits in Hd. rewrite forallb_forall in Hd. apply (is_digit_not_sign c (Hd c Hc)).
Qed.

Lemma zeros_digits k : all_digits (zeros k).
Proof. unfold zeros. induction (Z.to_nat k); [reflexivity|]. apply all_digits_cons. split; [reflexivity|assumption]. Qed.

Lemma zeros_length k : 0 <= k -> Z.of_nat (length (zeros k)) = k.
Proof. intro. unfold zeros. rewrite repeat_length. lia. Qed.

Lemma cval_zeros k acc : 0 <= k -> cval acc (zeros k) = acc * 10 ^ k.
Proof.
  intro H. rewrite cval_lin, zeros_length by exact H.
  assert (cval 0 (zeros k) = 0) as ->; [|lia].
  unfold zeros. induction (Z.to_nat k) as [|n IH]; [reflexivity|]. cbn. exact IH.
Qed.

(* the Number that results from a signed 64-bit mantissa *)
Definition of_mant (neg : bool) (m fd : Z) : Number :=
  {| Value := m; FractionDigits := fd; Negative := neg && (0 <? m) |}.

Lemma dvfs_finish sg ds fd :
  all_digits ds -> ds <> [] ->
  (v <- ParseInt10 (sign_chars sg ++ ds) ;;
   Ok {| Value := u64 (if v <? 0 then wrap64 (- v) else v); FractionDigits := fd; Negative := v <? 0 |})
  = let m := cval 0 ds in
    if m <=? (if sg_neg sg then two63 else two63 - 1) then Ok (of_mant (sg_neg sg) m fd) else Err.
Proof.
  intros Hd Hn. rewrite (ParseInt10_sign_digits sg ds Hd Hn). cbn zeta.
  pose proof (cval_mono ds 0 Hd ltac:(lia)) as Hm.
  set (m := cval 0 ds) in *.
  destruct (sg_neg sg).
  - destruct (Z.leb_spec m two63) as [L|L]; [|reflexivity]. cbn [obind]. unfold of_mant.
    destruct (Z.ltb_spec (- m) 0) as [N|N]; destruct (Z.ltb_spec 0 m) as [P|P]; try lia; cbn [andb].
    + rewrite Z.opp_involutive. f_equal. f_equal.
      destruct (Z.eq_dec m two63) as [->|Ne]; [reflexivity|].
      rewrite wrap64_id by (rewrite two63_eq in *; lia).
      unfold u64. apply Z.mod_small. rewrite two64_eq, two63_eq in *. lia.
    + assert (m = 0) as -> by lia. reflexivity.
  - destruct (Z.leb_spec m (two63 - 1)) as [L|L]; [|reflexivity]. cbn [obind]. unfold of_mant.
    destruct (Z.ltb_spec m 0); [lia|]. cbn [andb]. f_equal. f_equal.
    unfold u64. apply Z.mod_small. rewrite two64_eq, two63_eq in *. lia.
Qed.

Lemma dvfs_point sg I F fd :
  all_digits I -> all_digits F -> 1 <= fd <= 18 ->
  decimalValueFromString (sign_chars sg ++ I ++ cdot :: F) fd =
  let k := Z.of_nat (length F) in
  if k >? fd then Err
  else let m := cval 0 (I ++ F) * 10 ^ (fd - k) in
       if m <=? (if sg_neg sg then two63 else two63 - 1) then Ok (of_mant (sg_neg sg) m fd) else Err.
Proof.
  intros HI HF Hfd. unfold decimalValueFromString, MaxFractionDigits.
  destruct (Z.gtb_spec fd 18); [lia|]. destruct (Z.ltb_spec fd 1); [lia|]. cbn [orb].
  rewrite app_assoc. rewrite index_dot_app by (apply sign_digits_nodot; exact HI).
  rewrite firstn_app, Nat.sub_diag, firstn_all, firstn_O, app_nil_r.
  replace (skipn (S (length (sign_chars sg ++ I))) ((sign_chars sg ++ I) ++ cdot :: F)) with F.
  2:{ rewrite skipn_app. rewrite skipn_all2 by lia.
      replace (S (length (sign_chars sg ++ I)) - length (sign_chars sg ++ I))%nat with 1%nat by lia.
      reflexivity. }
  rewrite app_length. cbn [length].
  replace (Z.of_nat (length (sign_chars sg ++ I) + S (length F)) - 1 - Z.of_nat (length (sign_chars sg ++ I)))
    with (Z.of_nat (length F)) by lia.
  cbn zeta. set (k := Z.of_nat (length F)).
  destruct (Z.gtb_spec k 18) as [G|G].
  - destruct (Z.gtb_spec k fd); [reflexivity|lia].
  - assert (u8 k = k) as -> by (unfold u8; apply Z.mod_small; lia).
    destruct (Z.gtb_spec k fd) as [G2|G2]; [reflexivity|].
    rewrite <- !app_assoc.
    assert (Hd : all_digits (I ++ F ++ zeros (fd - k))).
    { apply all_digits_app; split; [exact HI|]. apply all_digits_app; split; [exact HF|apply zeros_digits]. }
    assert (Hn : I ++ F ++ zeros (fd - k) <> []).
    { intro E. apply (f_equal (@length _)) in E. rewrite !app_length in E. cbn in E.
      pose proof (zeros_length (fd - k) ltac:(lia)). lia. }
    rewrite (dvfs_finish sg _ fd Hd Hn). cbn zeta.
    rewrite app_assoc, cval_app, cval_zeros by lia. reflexivity.
Qed.

Lemma dvfs_nopoint sg I fd :
  all_digits I -> I <> [] -> 1 <= fd <= 18 ->
  decimalValueFromString (sign_chars sg ++ I) fd =
  let m := cval 0 I * 10 ^ fd in
  if m <=? (if sg_neg sg then two63 else two63 - 1) then Ok (of_mant (sg_neg sg) m fd) else Err.
Proof.
  intros HI Hn Hfd. unfold decimalValueFromString, MaxFractionDigits.
  destruct (Z.gtb_spec fd 18); [lia|]. destruct (Z.ltb_spec fd 1); [lia|]. cbn [orb].
  rewrite index_dot_none by (apply sign_digits_nodot; exact HI).
  destruct (Z.gtb_spec 0 fd); [lia|]. cbn iota. rewrite Z.sub_0_r.
  rewrite <- app_assoc.
  assert (Hd : all_digits (I ++ zeros fd)) by (apply all_digits_app; split; [exact HI|apply zeros_digits]).
  assert (Hn' : I ++ zeros fd <> []) by (destruct I; [congruence|discriminate]).
  rewrite (dvfs_finish sg _ fd Hd Hn'). cbn zeta.
  rewrite cval_app, cval_zeros by lia. reflexivity.
Qed.

Lemma ParseDecimal_plain s fd : plain s -> s <> [] -> s <> [cplus] -> s <> [cminus] ->
  ParseDecimal s fd = decimalValueFromString s fd.
Proof.
  intros Hp Hn H1 H2. unfold ParseDecimal. rewrite (plain_non_ascii _ Hp), (TrimSpace_plain _ Hp).
  destruct s as [|c r]; [congruence|].
  assert (str_eqb (c :: r) [cplus] = false) as ->.
  { apply str_eqb_single. destruct r; [left; congruence|right; discriminate]. }
  assert (str_eqb (c :: r) [cminus] = false) as ->.
  { apply str_eqb_single. destruct r; [left; congruence|right; discriminate]. }
  reflexivity.
Qed.

(* ---------- round trips ---------- *)
Lemma roundtrip_int n : dom n -> FractionDigits n = 0 ->
  exists s, String_ n = Ok s /\ ParseInt s = Ok n.
Proof.
  destruct n as [v fd neg]. unfold dom. cbn [Value FractionDigits]. intros [[Hv0 Hv1] _] Hf. subst fd.
  unfold String_, IsDecimal. cbn [FractionDigits Value Negative Z.eqb negb obind].
  destruct (FormatUint_spec v ltac:(lia)) as (Hd & Hc & Hne & Hh).
  exists (sign_chars (if neg then Some true else None) ++ FormatUint v).
  split; [destruct neg; reflexivity|].
  rewrite ParseInt_sign_digits; [| exact Hd | exact Hne |].
  - rewrite Hc. unfold MaxUint64. destruct (Z.leb_spec v (two64 - 1)); [|lia].
    destruct neg; reflexivity.
  - destruct (Z.eq_dec v 0) as [->|Nz]; [left; reflexivity|right; apply Hh; lia].
Qed.
