(* C08 — the reference semantics Spec/C08.v for an ARBITRARY notion of "this type resolves".

   Spec/C08.v is parametric in [resolvable : str -> bool].  The theorems about the model instantiate it with
   Schema.is_builtin (the model's types are opaque names).  The correspondence check also evaluates the reference on
   replacement types that are whole type statements (restrictions, unions, typedef references: check/props/c08.py
   gen_type_cases, OCaml c08specr), with [resolvable] := the generator's by-construction classification of the
   statement.  The lemmas here say what the reference demands then, whatever the classification is. *)
From Coq Require Import List Bool.
From GY Require Import Model.Schema Spec.C08.
Import ListNotations.

Lemma props_valid_unresolvable_type : forall (resolvable : str -> bool) dv t,
  dv_type dv = Some t -> resolvable t = false -> props_valid resolvable (named_props dv) = false.
Proof.
  intros resolvable dv t T R. unfold props_valid, named_props. rewrite T.
  repeat rewrite forallb_app. cbn [forallb]. rewrite R. cbn [andb].
  repeat rewrite andb_false_r. reflexivity.
Qed.

(* a deviate statement naming a type that does not resolve is inapplicable: whatever its kind, whatever else it names,
   whatever the target is and whatever the options are *)
Theorem spec_unresolvable_type_reported : forall (resolvable : str -> bool) ign rem st dv t,
  dv_type dv = Some t -> resolvable t = false -> spec_deviate resolvable ign rem st dv = None.
Proof.
  intros resolvable ign rem st dv t T R. unfold spec_deviate.
  destruct (kind_of (dv_kind dv)); [|reflexivity].
  rewrite (props_valid_unresolvable_type resolvable dv t T R). reflexivity.
Qed.

(* ... and wherever it stands among the deviate statements of a deviation: statements before it that apply and
   statements after it that would overwrite the type do not make it applicable *)
Theorem spec_apply_all_unresolvable_type : forall (resolvable : str -> bool) ign rem d1 dv d2 st t,
  dv_type dv = Some t -> resolvable t = false ->
  spec_apply_all resolvable ign rem st (d1 ++ dv :: d2) = None.
Proof.
  intros resolvable ign rem d1. induction d1 as [|d d1 IH]; intros dv d2 st t T R; cbn [app spec_apply_all].
  - rewrite (spec_unresolvable_type_reported resolvable ign rem st dv t T R). reflexivity.
  - destruct (spec_deviate resolvable ign rem st d) as [st'|]; [|reflexivity].
    exact (IH dv d2 st' t T R).
Qed.

(* an add or replace statement naming only a type that resolves sets exactly the type of the target *)
Theorem spec_resolvable_type_set : forall (resolvable : str -> bool) ign rem st dv t k,
  kind_of (dv_kind dv) = Some k -> k = DKAdd \/ k = DKReplace ->
  named_props dv = [PType t] -> resolvable t = true ->
  spec_deviate resolvable ign rem st dv = Some (with_node st (set_ty (ts_node st) (Some t))).
Proof.
  intros resolvable ign rem st dv t k K AR NP R. unfold spec_deviate. rewrite K, NP.
  cbn [props_valid forallb]. rewrite R. cbn [andb negb].
  destruct AR as [-> | ->]; reflexivity.
Qed.
