(* The reader does not look at positions, hence: the TEXT printed (Model/Printer.v) for the rendered statement tree of
   a module is read back by Reader.read_text as that module.

   (1) position independence: statements that agree after C02.erase are read alike by read_module0.  Proved through
       a normal form: [norm] sets every position to zero, factors through C02.erase, and every function of
       Model/Reader.v gives the same result on [norm s] as on [s].
   (2) the two boolean side conditions (the rendered tree is printable, the printed text is ASCII) are kept as
       hypotheses on the tree: see the remark at the end. *)
From Coq Require Import List NArith ZArith Bool Lia.
Import ListNotations.
From GY Require Import Model.Lex Model.Parse Spec.C02 Model.Printer Proofs.PrinterProofs Model.Schema Model.Reader.
From GY Require Proofs.ReaderProofs.

Section StmtInd.
  Variable P : Parse.stmt -> Prop.
  Hypothesis H : forall kw has arg l c o subs, Forall P subs -> P (Parse.Stmt kw has arg l c o subs).
  Fixpoint rstmt_ind (s : Parse.stmt) : P s :=
    match s with
    | Parse.Stmt kw has arg l c o subs =>
        H kw has arg l c o subs
          ((fix go (ss : list Parse.stmt) : Forall P ss :=
              match ss with [] => Forall_nil P | x :: r => Forall_cons x (rstmt_ind x) (go r) end) subs)
    end.
End StmtInd.

(* ------------------------------------------------------------------ the normal form *)
Fixpoint unerase (n : C02.node) : Parse.stmt :=
  match n with C02.Node kw has arg subs => Parse.Stmt kw has arg 0%Z 0%Z O (map unerase subs) end.
Fixpoint norm (s : Parse.stmt) : Parse.stmt :=
  match s with Parse.Stmt kw has arg _ _ _ subs => Parse.Stmt kw has arg 0%Z 0%Z O (map norm subs) end.

Lemma norm_unerase s : norm s = unerase (C02.erase s).
Proof.
  induction s as [kw has arg l c o subs IH] using rstmt_ind. cbn [norm C02.erase unerase]. f_equal.
  rewrite map_map. induction IH as [|x r Hx _ IHr]; [reflexivity|]. cbn [map]. rewrite Hx, IHr. reflexivity.
Qed.

Lemma same_norm s s' : C02.erase s' = C02.erase s -> norm s' = norm s.
Proof. intro E. rewrite !norm_unerase, E. reflexivity. Qed.

(* ------------------------------------------------------------------ getters *)
Lemma skw_norm s : skw (norm s) = skw s.
Proof. destruct s; reflexivity. Qed.
Lemma is_kw_norm k s : is_kw k (norm s) = is_kw k s.
Proof. unfold is_kw. rewrite skw_norm. reflexivity. Qed.
Lemma kw_in_norm l s : kw_in l (norm s) = kw_in l s.
Proof. unfold kw_in. rewrite skw_norm. reflexivity. Qed.
Lemma is_item_norm s : is_item (norm s) = is_item s.
Proof. apply kw_in_norm. Qed.
Lemma simple_arg_norm s : simple_arg (norm s) = simple_arg s.
Proof. destruct s as [kw has arg l c o subs]. destruct has, subs; reflexivity. Qed.

Lemma filter_norm k ss : filter (is_kw k) (map norm ss) = map norm (filter (is_kw k) ss).
Proof.
  induction ss as [|x r IH]; [reflexivity|]. cbn [map filter]. rewrite is_kw_norm, IH.
  destruct (is_kw k x); reflexivity.
Qed.
Lemma only_norm a ss : only a (map norm ss) = only a ss.
Proof. unfold only. induction ss as [|x r IH]; [reflexivity|]. cbn [map forallb]. rewrite kw_in_norm, IH. reflexivity. Qed.
Lemma omap_norm {B} (f : Parse.stmt -> option B) l :
  Forall (fun x => f (norm x) = f x) l -> omap f (map norm l) = omap f l.
Proof. intro H. induction H as [|x r Hx _ IH]; [reflexivity|]. cbn [map omap]. rewrite Hx, IH. reflexivity. Qed.
Lemma omap_norm_all {B} (f : Parse.stmt -> option B) l :
  (forall x, f (norm x) = f x) -> omap f (map norm l) = omap f l.
Proof. intro H. apply omap_norm. apply Forall_forall. intros x _. apply H. Qed.

Lemma opt_field_norm k ss : opt_field k (map norm ss) = opt_field k ss.
Proof.
  unfold opt_field. rewrite filter_norm. destruct (filter (is_kw k) ss) as [|x [|y r]]; try reflexivity.
  cbn [map]. rewrite simple_arg_norm. reflexivity.
Qed.
Lemma req_field_norm k ss : req_field k (map norm ss) = req_field k ss.
Proof. unfold req_field. rewrite opt_field_norm. reflexivity. Qed.
Lemma list_field_norm k ss : list_field k (map norm ss) = list_field k ss.
Proof. unfold list_field. rewrite filter_norm. apply omap_norm_all. apply simple_arg_norm. Qed.
Lemma tri_field_norm k ss : tri_field k (map norm ss) = tri_field k ss.
Proof. unfold tri_field. rewrite opt_field_norm. reflexivity. Qed.
Lemma conv_field_norm cv k ss : conv_field cv k (map norm ss) = conv_field cv k ss.
Proof. unfold conv_field. rewrite opt_field_norm. reflexivity. Qed.
Lemma num_field_norm k ss : num_field k (map norm ss) = num_field k ss.
Proof. apply conv_field_norm. Qed.
Lemma max_field_norm k ss : max_field k (map norm ss) = max_field k ss.
Proof. apply conv_field_norm. Qed.

(* ------------------------------------------------------------------ data definitions *)
Lemma read_stmt_norm kw has arg subs its :
  read_stmt kw has arg (map norm subs) its = read_stmt kw has arg subs its.
Proof.
  unfold read_stmt.
  repeat rewrite only_norm. repeat rewrite req_field_norm. repeat rewrite tri_field_norm.
  repeat rewrite opt_field_norm. repeat rewrite list_field_norm. repeat rewrite num_field_norm.
  repeat rewrite max_field_norm.
  destruct subs; reflexivity.
Qed.

Lemma read_items_cons f x r :
  read_items f (x :: r) =
  if is_item x then match f x, read_items f r with Some y, Some ys => Some (y :: ys) | _, _ => None end
  else read_items f r.
Proof. reflexivity. Qed.

Lemma read_items_norm f subs : Forall (fun x => f (norm x) = f x) subs ->
  read_items f (map norm subs) = read_items f subs.
Proof.
  intro H. induction H as [|x r Hx _ IH]; [reflexivity|]. cbn [map]. rewrite !read_items_cons.
  rewrite is_item_norm, Hx, IH. reflexivity.
Qed.

Lemma read_item_norm s : read_item (norm s) = read_item s.
Proof.
  induction s as [kw has arg l c o subs IH] using rstmt_ind. cbn [norm read_item].
  rewrite (read_items_norm read_item subs IH). apply read_stmt_norm.
Qed.

Lemma read_body_norm subs : read_body (map norm subs) = read_body subs.
Proof.
  unfold read_body. rewrite read_items_norm; [reflexivity|]. apply Forall_forall. intros x _. apply read_item_norm.
Qed.

(* ------------------------------------------------------------------ deviations, imports, module *)
Lemma read_deviate_norm s : read_deviate (norm s) = read_deviate s.
Proof.
  destruct s as [kw has arg l c o subs]. cbn [norm read_deviate].
  repeat rewrite only_norm. repeat rewrite tri_field_norm. repeat rewrite opt_field_norm.
  repeat rewrite num_field_norm. repeat rewrite max_field_norm. reflexivity.
Qed.
Lemma read_deviation_norm s : read_deviation (norm s) = read_deviation s.
Proof.
  destruct s as [kw has arg l c o subs]. cbn [norm read_deviation]. rewrite only_norm.
  rewrite (omap_norm_all read_deviate subs read_deviate_norm). reflexivity.
Qed.
Lemma read_augment_norm s : read_augment (norm s) = read_augment s.
Proof. destruct s as [kw has arg l c o subs]. cbn [norm read_augment]. rewrite only_norm, read_body_norm. reflexivity. Qed.
Lemma read_import_norm s : read_import (norm s) = read_import s.
Proof. destruct s as [kw has arg l c o subs]. cbn [norm read_import]. rewrite only_norm, req_field_norm. reflexivity. Qed.
Lemma read_belongs_norm s : read_belongs (norm s) = read_belongs s.
Proof. destruct s as [kw has arg l c o subs]. cbn [norm read_belongs]. rewrite only_norm, req_field_norm. reflexivity. Qed.

Lemma read_module0_norm s : read_module0 (norm s) = read_module0 s.
Proof.
  destruct s as [kw has arg l c o subs]. cbn [norm read_module0].
  repeat rewrite filter_norm.
  rewrite (omap_norm_all read_import _ read_import_norm).
  rewrite (omap_norm_all read_augment _ read_augment_norm).
  rewrite (omap_norm_all read_deviation _ read_deviation_norm).
  rewrite list_field_norm, read_body_norm. repeat rewrite only_norm. repeat rewrite req_field_norm.
  destruct (filter (is_kw k_belongs) subs) as [|b [|b' r]]; try reflexivity.
  cbn [map]. rewrite read_belongs_norm. reflexivity.
Qed.

(* (1) THE READER IGNORES POSITIONS *)
Theorem read_module0_positions : forall s s', C02.erase s' = C02.erase s -> read_module0 s' = read_module0 s.
Proof. intros s s' E. rewrite <- (read_module0_norm s'), <- (read_module0_norm s), (same_norm _ _ E). reflexivity. Qed.

Theorem read_module_positions : forall s s', C02.erase s' = C02.erase s -> read_module s' = read_module s.
Proof. intros s s' E. unfold read_module. rewrite (read_module0_positions s s' E). reflexivity. Qed.

(* ------------------------------------------------------------------ text level *)
Theorem print_read_text : forall s : Parse.stmt,
  forest_ok [C02.erase s] = true -> is_ascii (print_forest [C02.erase s]) = true ->
  read_text (print_forest [C02.erase s]) = read_module s.
Proof.
  intros s Hok Hasc. destruct (print_Parse [C02.erase s] Hok) as (ss & HP & Hss).
  destruct ss as [|s' [|s'' r]]; try discriminate. cbn [map] in Hss. injection Hss as Hs'.
  unfold read_text, read_text0, read_module. rewrite Hasc, HP, (read_module0_positions s s' Hs'). reflexivity.
Qed.

Theorem print_render_read_text_partial2 : forall m : module,
  reader_wf m = true ->
  forest_ok [C02.erase (render_module m)] = true ->
  is_ascii (print_forest [C02.erase (render_module m)]) = true ->
  read_text (print_forest [C02.erase (render_module m)]) = Some m.
Proof.
  intros m Hwf Hok Hasc. rewrite (print_read_text _ Hok Hasc). apply ReaderProofs.reader_roundtrip. exact Hwf.
Qed.

(* ------------------------------------------------------------------ (2) the side conditions from one predicate *)
(* a statement tree that can be printed as ASCII text: keywords are single unquoted tokens, every rune of every
   keyword and argument is below 128, a statement without argument carries the empty string *)
Definition ascii_str (a : str) : bool := forallb (fun c => (c <? 128)%N) a.
Fixpoint stmt_printable (s : Parse.stmt) : bool :=
  match s with
  | Parse.Stmt kw has arg _ _ _ subs =>
      kw_ok kw && ascii_str kw && ascii_str arg && (has || match arg with [] => true | _ => false end)
      && forallb stmt_printable subs
  end.
(* for a module: its rendered tree is printable.  The keywords of the renderer are the fixed YANG keywords, so this
   says: every rune of every name / string of m is below 128 (computable on m) *)
Definition printable (m : module) : bool := stmt_printable (render_module m).

Lemma ascii_arg_ok a : ascii_str a = true -> arg_ok a = true.
Proof.
  unfold ascii_str, arg_ok. induction a as [|c a IH]; [reflexivity|]. intro H. cbn [forallb] in H.
  apply andb_true_iff in H. destruct H as [Hc H]. cbn [forallb]. apply andb_true_iff. split; [|exact (IH H)].
  apply N.ltb_lt in Hc. apply negb_true_iff. apply N.eqb_neq. unfold EOFR. lia.
Qed.

Lemma ascii_escape a : ascii_str a = true -> ascii_str (escape a) = true.
Proof.
  unfold ascii_str, escape. induction a as [|c a IH]; [reflexivity|]. intro H. cbn [forallb] in H.
  apply andb_true_iff in H. destruct H as [Hc H]. cbn [flat_map]. rewrite forallb_app.
  apply andb_true_iff. split; [|exact (IH H)]. unfold escape_rune.
  destruct (c =? cLF)%N; [reflexivity|]. destruct (c =? cTAB)%N; [reflexivity|].
  destruct (c =? cDQ)%N; [reflexivity|]. destruct (c =? cBSL)%N; [reflexivity|].
  cbn [forallb]. rewrite Hc. reflexivity.
Qed.

Lemma printable_node s : stmt_printable s = true ->
  Printer.node_ok (C02.erase s) = true /\ ascii_str (print_node (C02.erase s)) = true.
Proof.
  induction s as [kw has arg l c o subs IH] using rstmt_ind. intro H. cbn [stmt_printable] in H.
  apply andb_true_iff in H. destruct H as [H Hsubs]. apply andb_true_iff in H. destruct H as [H Hh].
  apply andb_true_iff in H. destruct H as [H Harg]. apply andb_true_iff in H. destruct H as [Hkw Hka].
  assert (HS : forallb Printer.node_ok (map C02.erase subs) = true /\
               ascii_str (flat_map print_node (map C02.erase subs)) = true).
  { clear Hh. induction IH as [|x r Hx _ IHr]; [split; reflexivity|]. cbn [forallb] in Hsubs.
    apply andb_true_iff in Hsubs. destruct Hsubs as [Hxp Hr]. destruct (Hx Hxp) as [A B]. destruct (IHr Hr) as [C D].
    split.
    - cbn [map forallb]. rewrite A, C. reflexivity.
    - cbn [map flat_map]. unfold ascii_str in *. rewrite forallb_app. apply andb_true_iff. split; assumption. }
  destruct HS as [HS1 HS2]. split.
  - cbn [C02.erase Printer.node_ok]. rewrite Hkw, (ascii_arg_ok _ Harg), Hh, HS1. reflexivity.
  - cbn [C02.erase print_node]. pose proof (ascii_escape _ Harg) as HE. unfold ascii_str in *.
    rewrite !forallb_app. apply andb_true_iff. split; [exact Hka|]. apply andb_true_iff. split.
    + unfold print_arg. destruct has; [|reflexivity].
      change (cSP :: cDQ :: escape arg ++ [cDQ]) with ([cSP; cDQ] ++ escape arg ++ [cDQ]). rewrite !forallb_app.
      apply andb_true_iff. split; [reflexivity|]. apply andb_true_iff. split; [exact HE|reflexivity].
    + destruct (map C02.erase subs) as [|n0 r0] eqn:E; [reflexivity|].
      change (cSP :: cLB :: cLF :: flat_map print_node (n0 :: r0) ++ [cRB; cLF])
        with ([cSP; cLB; cLF] ++ flat_map print_node (n0 :: r0) ++ [cRB; cLF]). rewrite !forallb_app.
      apply andb_true_iff. split; [reflexivity|]. apply andb_true_iff. split; [exact HS2|reflexivity].
Qed.

Lemma printable_side_conditions s : stmt_printable s = true ->
  forest_ok [C02.erase s] = true /\ is_ascii (print_forest [C02.erase s]) = true.
Proof.
  intro H. destruct (printable_node s H) as [A B]. split.
  - unfold forest_ok. cbn [forallb]. rewrite A. reflexivity.
  - unfold print_forest. cbn [flat_map]. rewrite app_nil_r. exact B.
Qed.

(* THE TEXT ROUND TRIP: module -> statement tree -> TEXT -> (Lex, Parse, Reader) -> the same module *)
Theorem print_render_read_text : forall m : module,
  reader_wf m = true -> printable m = true ->
  read_text (print_forest [C02.erase (render_module m)]) = Some m.
Proof.
  intros m Hwf Hp. destruct (printable_side_conditions _ Hp) as [Hok Hasc].
  apply print_render_read_text_partial2; assumption.
Qed.

Example print_render_read_text_full_ex :
  reader_wf ReaderProofs.ex_module = true /\ printable ReaderProofs.ex_module = true.
Proof. vm_compute. split; reflexivity. Qed.

(* REMARK.  [printable m] is the boolean [stmt_printable (render_module m)], computed on m through the renderer.  That it
   is equivalent to "every rune of every name and string field of m is below 128" (the renderer's keywords are the fixed
   k_* constants, each [kw_ok] and ASCII by computation; its numbers are [dec n], digits) is evident but not proved here
   as a separate lemma over the constructors of dnode. *)
