(* C07: what an augment would graft plays no part in whether it can be applied.
   Applicability of a pending augment (a step of the abstract system of Spec/C07.v) is a function of the
   augmenting module and the path alone; an augment that defines no node (an empty statement, one holding only
   description / reference / status / when, or uses of groupings without nodes: a_dir = []) is therefore reported
   on a missing or childless target exactly like any other, and on a proper target its step leaves the view as
   it is. *)
From Coq Require Import List NArith Bool.
From GY Require Import Model.Schema Spec.C07.
Import ListNotations.

Lemma astep_applicable_ignores_body : forall SC fl a a',
  a_mod a = a_mod a' -> a_path a = a_path a' ->
  (astep SC fl a = None <-> astep SC fl a' = None).
Proof.
  intros SC fl a a' Hm Hp. unfold astep. rewrite Hm, Hp.
  destruct (afind SC fl (a_mod a') (m_name (a_mod a'), []) (a_path a')) as [p |]; [| tauto].
  destruct (fl p) as [l |]; [| tauto].
  destruct (l_hasdir l); [| tauto].
  split; intro H; discriminate H.
Qed.

Lemma grafted_nil : forall fl p ns q, grafted fl p ns [] q = None.
Proof.
  intros fl p ns q. unfold grafted.
  destruct (str_eqb (fst q) (fst p)); [| reflexivity].
  destruct (strip (snd p) (snd q)) as [[| [k | |] rest] |]; try reflexivity.
  destruct (fl (fst p, snd p ++ [SChild k])); reflexivity.
Qed.

Lemma astep_nothing_to_graft : forall SC fl a fl' d,
  a_dir a = [] -> astep SC fl a = Some (fl', d) ->
  (forall q, fl' q = fl q) /\ d = a_err a.
Proof.
  intros SC fl a fl' d Hd. unfold astep. rewrite Hd.
  destruct (afind SC fl (a_mod a) (m_name (a_mod a), []) (a_path a)) as [p |]; [| discriminate].
  destruct (fl p) as [l |]; [| discriminate].
  destruct (l_hasdir l); [| discriminate].
  intro H. inversion H; subst. split.
  - intro q. unfold agraft. rewrite grafted_nil. destruct (fl q); reflexivity.
  - reflexivity.
Qed.
