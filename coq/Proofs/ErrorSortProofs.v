(* C05: proofs.
   Part 1 (errorSort, Model/ErrorSort.v): string comparison, decimal numerals and Atoi, comparisons that are total
   preorders and their lexicographic products, nless, the field loop of Less, SplitN, Less = "the comparison says Lt"
   (strict total order on ALL error texts), sorting and de-duplication facts, errorSort as a function of the set of
   error texts for every correct sort, the key of positioned errors, refutations for Less as it was before the repair.
   Part 2 (resolver model, Model/Schema.v): Process reads the module list only through find_module, lengths and
   sizes, so a permuted list with distinct names gives the same per-module results (congruence lemmas), the same
   outcome of the two error checks, and a permuted, lookup-equivalent initial forest and pending-augment table.
   Part 3: fold_perm, the generic order-independence lemma for folds, instantiated at forallb/existsb and at
   Entry.merge (merge_dir) over a permuted Dir. *)
From Coq Require Import List NArith ZArith Bool Permutation Sorted Lia.
From GY Require Import Model.ErrorSort Spec.C05.
Import ListNotations.
Local Open Scope N_scope.

(* ------------------------------------------------------------------ str_cmp *)
Lemma str_cmp_refl : forall a, str_cmp a a = Eq.
Proof. induction a as [|x a IH]; cbn [str_cmp]; [reflexivity|]. rewrite N.compare_refl. exact IH. Qed.

Lemma str_cmp_eq : forall a b, str_cmp a b = Eq <-> a = b.
Proof.
  induction a as [|x a IH]; destruct b as [|y b]; cbn [str_cmp]; split; intro H; try reflexivity; try discriminate.
  - destruct (N.compare_spec x y) as [E|E|E]; try discriminate. subst. f_equal. apply IH. exact H.
  - inversion H; subst. rewrite N.compare_refl. apply IH. reflexivity.
Qed.

Lemma str_cmp_antisym : forall a b, str_cmp b a = CompOpp (str_cmp a b).
Proof.
  induction a as [|x a IH]; destruct b as [|y b]; cbn [str_cmp]; try reflexivity.
  rewrite (N.compare_antisym x y). destruct (N.compare x y); cbn [CompOpp]; auto.
Qed.

Lemma str_cmp_trans : forall a b c, str_cmp a b = Lt -> str_cmp b c = Lt -> str_cmp a c = Lt.
Proof.
  induction a as [|x a IH]; destruct b as [|y b]; destruct c as [|z c]; cbn [str_cmp]; intros H1 H2;
    try reflexivity; try discriminate.
  destruct (N.compare_spec x y) as [E1|E1|E1]; try discriminate;
  destruct (N.compare_spec y z) as [E2|E2|E2]; try discriminate; subst.
  - rewrite N.compare_refl. eapply IH; eauto.
  - destruct (N.compare_spec y z); try lia; reflexivity.
  - destruct (N.compare_spec x z); try lia; reflexivity.
  - destruct (N.compare_spec x z); try lia; reflexivity.
Qed.

Lemma bstr_eqb_eq : forall a b, bstr_eqb a b = true <-> a = b.
Proof.
  intros a b. unfold bstr_eqb. rewrite <- str_cmp_eq. destruct (str_cmp a b); split; intro H; congruence.
Qed.

(* a comparison that is a strict total order on a class *)
Record cmp_total_on {A} (P : A -> Prop) (c : A -> A -> comparison) : Prop := {
  ct_eq : forall x y, P x -> P y -> (c x y = Eq <-> x = y);
  ct_opp : forall x y, P x -> P y -> c y x = CompOpp (c x y);
  ct_trans : forall x y z, P x -> P y -> P z -> c x y = Lt -> c y z = Lt -> c x z = Lt }.

Lemma str_cmp_total : forall P : bstr -> Prop, cmp_total_on P str_cmp.
Proof.
  intro P. constructor; intros.
  - apply str_cmp_eq.
  - apply str_cmp_antisym.
  - eapply str_cmp_trans; eauto.
Qed.

(* ------------------------------------------------------------------ decimal numerals *)
Fixpoint pow10 (n : nat) : Z := match n with O => 1%Z | S n' => (10 * pow10 n')%Z end.
Lemma pow10_pos : forall n, (0 < pow10 n)%Z.
Proof. induction n; cbn [pow10]; lia. Qed.
Lemma pow10_mono : forall n m, (n <= m)%nat -> (pow10 n <= pow10 m)%Z.
Proof.
  intros n m H. induction H; [lia|]. cbn [pow10]. pose proof (pow10_pos m). lia.
Qed.

Definition dig (c : N) : Z := Z.of_N (c - 48).
Fixpoint dv (s : bstr) : Z :=
  match s with [] => 0%Z | c :: r => (dig c * pow10 (length r) + dv r)%Z end.

Lemma is_digit_range : forall c, is_digit c = true -> (0 <= dig c <= 9)%Z /\ c = 48 + Z.to_N (dig c).
Proof.
  intros c H. unfold is_digit in H. apply andb_true_iff in H. destruct H as [H1 H2].
  apply N.leb_le in H1. apply N.leb_le in H2. unfold dig. split; lia.
Qed.

Lemma dig_inj : forall x y, is_digit x = true -> is_digit y = true -> dig x = dig y -> x = y.
Proof.
  intros x y Hx Hy E. destruct (is_digit_range _ Hx) as [_ Ex]. destruct (is_digit_range _ Hy) as [_ Ey].
  rewrite Ex, Ey, E. reflexivity.
Qed.

Lemma dv_bounds : forall s, forallb is_digit s = true -> (0 <= dv s < pow10 (length s))%Z.
Proof.
  induction s as [|c r IH]; cbn [forallb dv length pow10]; intro H; [lia|].
  apply andb_true_iff in H. destruct H as [Hc Hr].
  destruct (is_digit_range _ Hc) as [Hd _]. specialize (IH Hr). pose proof (pow10_pos (length r)). nia.
Qed.

Lemma digits_val_dv : forall s acc, forallb is_digit s = true ->
  digits_val acc s = Some (acc * pow10 (length s) + dv s)%Z.
Proof.
  induction s as [|c r IH]; cbn [forallb digits_val dv length pow10]; intros acc H.
  - f_equal. lia.
  - apply andb_true_iff in H. destruct H as [Hc Hr]. rewrite Hc. rewrite (IH _ Hr). f_equal. unfold dig. ring.
Qed.

Lemma digits_val_none : forall s acc, forallb is_digit s = false -> digits_val acc s = None.
Proof.
  induction s as [|c r IH]; cbn [forallb digits_val]; intros acc H; [discriminate|].
  destruct (is_digit c); [apply IH; exact H | reflexivity].
Qed.

Lemma dv_inj_len : forall a b, forallb is_digit a = true -> forallb is_digit b = true ->
  length a = length b -> dv a = dv b -> a = b.
Proof.
  induction a as [|x a IH]; destruct b as [|y b]; cbn [length]; intros Ha Hb Hl E; try discriminate; [reflexivity|].
  cbn [forallb] in Ha, Hb. apply andb_true_iff in Ha. apply andb_true_iff in Hb.
  destruct Ha as [Hx Ha]. destruct Hb as [Hy Hb]. injection Hl as Hl.
  cbn [dv] in E. rewrite Hl in E.
  pose proof (dv_bounds _ Ha) as Ba. pose proof (dv_bounds _ Hb) as Bb. rewrite Hl in Ba.
  destruct (is_digit_range _ Hx) as [Rx _]. destruct (is_digit_range _ Hy) as [Ry _].
  assert (Ed : dig x = dig y) by nia.
  f_equal; [apply dig_inj; assumption|].
  apply IH; try assumption. rewrite Ed in E. lia.
Qed.

(* canonical numerals *)
Lemma canon_parts : forall f, canon_numb f = true ->
  forallb is_digit f = true /\ f <> [] /\
  (forall c r, f = c :: r -> r <> [] -> c <> 48) /\ (dv f <= maxInt)%Z.
Proof.
  intros f H. unfold canon_numb in H. apply andb_true_iff in H. destruct H as [H H3].
  apply andb_true_iff in H. destruct H as [H1 H2]. split; [exact H1|].
  split; [destruct f; [discriminate|congruence]|]. split.
  - intros c r E Hr. subst f. destruct r as [|c2 r]; [congruence|].
    apply negb_true_iff in H2. apply N.eqb_neq in H2. exact H2.
  - rewrite (digits_val_dv _ _ H1) in H3. apply Z.leb_le in H3. lia.
Qed.

Lemma canon_lower : forall f, canon_numb f = true -> (2 <= length f)%nat -> (pow10 (length f - 1) <= dv f)%Z.
Proof.
  intros f H Hl. destruct (canon_parts _ H) as (Hd & _ & Hz & _).
  destruct f as [|c r]; [cbn in Hl; lia|]. cbn [length] in *.
  assert (Hr : r <> []) by (destruct r; [cbn in Hl; lia|congruence]).
  specialize (Hz c r eq_refl Hr).
  cbn [forallb] in Hd. apply andb_true_iff in Hd. destruct Hd as [Hc Hd].
  destruct (is_digit_range _ Hc) as [Rc Ec].
  assert (1 <= dig c)%Z by (unfold dig in *; lia).
  cbn [dv]. replace (S (length r) - 1)%nat with (length r) by lia.
  pose proof (dv_bounds _ Hd). pose proof (pow10_pos (length r)). nia.
Qed.

Lemma canon_atoi : forall f, canon_numb f = true -> atoi f = Some (dv f).
Proof.
  intros f H. destruct (canon_parts _ H) as (Hd & Hne & _ & Hmax).
  destruct f as [|c r]; [congruence|].
  assert (Hc : is_digit c = true) by (cbn [forallb] in Hd; apply andb_true_iff in Hd; tauto).
  unfold atoi.
  assert (Ep : (c =? ch_plus) = false).
  { apply N.eqb_neq. unfold is_digit in Hc. apply andb_true_iff in Hc. destruct Hc as [H1 _].
    apply N.leb_le in H1. unfold ch_plus. lia. }
  assert (Em : (c =? ch_minus) = false).
  { apply N.eqb_neq. unfold is_digit in Hc. apply andb_true_iff in Hc. destruct Hc as [H1 _].
    apply N.leb_le in H1. unfold ch_minus. lia. }
  rewrite Ep, Em. rewrite (digits_val_dv _ _ Hd).
  pose proof (dv_bounds _ Hd) as B.
  replace (0 * pow10 (length (c :: r)) + dv (c :: r))%Z with (dv (c :: r)) by ring.
  assert (E1 : (minInt <=? dv (c :: r))%Z = true) by (apply Z.leb_le; unfold minInt; lia).
  assert (E2 : (dv (c :: r) <=? maxInt)%Z = true) by (apply Z.leb_le; lia).
  rewrite E1, E2. reflexivity.
Qed.

Lemma canon_inj : forall a b, canon_numb a = true -> canon_numb b = true -> dv a = dv b -> a = b.
Proof.
  intros a b Ha Hb E.
  destruct (canon_parts _ Ha) as (Da & Na & _ & _). destruct (canon_parts _ Hb) as (Db & Nb & _ & _).
  assert (Hl : length a = length b).
  { destruct (Nat.lt_trichotomy (length a) (length b)) as [L|[L|L]]; [|exact L|]; exfalso.
    - assert (2 <= length b)%nat by (destruct a; [congruence|cbn [length] in *; lia]).
      pose proof (canon_lower _ Hb H). pose proof (dv_bounds _ Da).
      pose proof (pow10_mono (length a) (length b - 1) ltac:(lia)). lia.
    - assert (2 <= length a)%nat by (destruct b; [congruence|cbn [length] in *; lia]).
      pose proof (canon_lower _ Ha H). pose proof (dv_bounds _ Db).
      pose proof (pow10_mono (length b) (length a - 1) ltac:(lia)). lia. }
  apply dv_inj_len; assumption.
Qed.

(* ------------------------------------------------------------------ comparisons that are total preorders *)
Record pre_cmp {A} (c : A -> A -> comparison) : Prop := {
  pc_refl : forall x, c x x = Eq;
  pc_opp : forall x y, c y x = CompOpp (c x y);
  pc_trans : forall x y z, c x y = Lt -> c y z = Lt -> c x z = Lt;
  pc_eq : forall x y z, c x y = Eq -> c x z = c y z }.

Lemma pc_eq_r : forall A (c : A -> A -> comparison), pre_cmp c -> forall x y z, c x y = Eq -> c z x = c z y.
Proof. intros A c H x y z E. rewrite (pc_opp c H x z), (pc_opp c H y z), (pc_eq c H x y z E). reflexivity. Qed.

Lemma pc_lt_eq : forall A (c : A -> A -> comparison), pre_cmp c -> forall x y z, c x y = Lt -> c y z = Eq -> c x z = Lt.
Proof. intros A c H x y z L E. rewrite <- (pc_eq_r A c H y z x E). exact L. Qed.

Definition lex {A} (c1 c2 : A -> A -> comparison) (x y : A) : comparison :=
  match c1 x y with Eq => c2 x y | r => r end.

Lemma lex_pre_cmp : forall A (c1 c2 : A -> A -> comparison), pre_cmp c1 -> pre_cmp c2 -> pre_cmp (lex c1 c2).
Proof.
  intros A c1 c2 H1 H2. constructor; unfold lex.
  - intro x. rewrite (pc_refl c1 H1). apply (pc_refl c2 H2).
  - intros x y. rewrite (pc_opp c1 H1 x y). destruct (c1 x y); cbn [CompOpp]; auto. apply (pc_opp c2 H2).
  - intros x y z. destruct (c1 x y) eqn:E1; try discriminate; destruct (c1 y z) eqn:E2; try discriminate; intros L1 L2.
    + rewrite (pc_eq c1 H1 x y z E1), E2. eapply (pc_trans c2 H2); eauto.
    + rewrite (pc_eq c1 H1 x y z E1), E2. reflexivity.
    + rewrite (pc_lt_eq A c1 H1 x y z E1 E2). reflexivity.
    + rewrite (pc_trans c1 H1 x y z E1 E2). reflexivity.
  - intros x y z. destruct (c1 x y) eqn:E1; try discriminate. intro E2.
    rewrite (pc_eq c1 H1 x y z E1). destruct (c1 y z); auto. apply (pc_eq c2 H2); exact E2.
Qed.

Lemma on_pre_cmp : forall A B (f : A -> B) (c : B -> B -> comparison), pre_cmp c -> pre_cmp (fun x y => c (f x) (f y)).
Proof.
  intros A B f c H. constructor; intros.
  - apply (pc_refl c H).
  - apply (pc_opp c H).
  - eapply (pc_trans c H); eauto.
  - apply (pc_eq c H); assumption.
Qed.

Lemma str_cmp_pre : pre_cmp str_cmp.
Proof.
  constructor.
  - apply str_cmp_refl.
  - apply str_cmp_antisym.
  - apply str_cmp_trans.
  - intros x y z E. apply str_cmp_eq in E. subst. reflexivity.
Qed.

(* ------------------------------------------------------------------ nless *)
Lemma nless_numeric : forall x y, canon_numb x = true -> canon_numb y = true -> nless x y = Z.compare (dv x) (dv y).
Proof. intros x y Hx Hy. unfold nless. rewrite (canon_atoi _ Hx), (canon_atoi _ Hy). reflexivity. Qed.

Lemma nless_text : forall x y, atoi x = None -> atoi y = None -> nless x y = str_cmp x y.
Proof. intros x y Hx Hy. unfold nless. rewrite Hx, Hy. reflexivity. Qed.

Lemma nless_pre : pre_cmp nless.
Proof.
  constructor; unfold nless.
  - intro x. destruct (atoi x); [apply Z.compare_refl|apply str_cmp_refl].
  - intros x y. destruct (atoi x), (atoi y); cbn [CompOpp]; auto; [apply Z.compare_antisym|apply str_cmp_antisym].
  - intros x y z. destruct (atoi x), (atoi y), (atoi z); try discriminate; auto.
    + rewrite !Z.compare_lt_iff. lia.
    + apply str_cmp_trans.
  - intros x y z. destruct (atoi x) eqn:Ex, (atoi y) eqn:Ey; try discriminate.
    + intro E. apply Z.compare_eq_iff in E. subst. reflexivity.
    + intro E. apply str_cmp_eq in E. subst. rewrite ?Ex, ?Ey. reflexivity.
Qed.

(* ------------------------------------------------------------------ the field loop as a three-way comparison *)
Fixpoint cmp_fields (fi fj : list bstr) : comparison :=
  match fi, fj with
  | [], [] => Eq
  | [], _ :: _ => Lt
  | _ :: _, [] => Gt
  | x :: fi', y :: fj' => match nless x y with Eq => cmp_fields fi' fj' | r => r end
  end.

Lemma less_fields_cmp : forall tie fi fj,
  less_fields tie fi fj = match cmp_fields fi fj with Lt => true | Gt => false | Eq => tie end.
Proof.
  intros tie. induction fi as [|x fi IH]; destruct fj as [|y fj]; cbn [less_fields cmp_fields]; try reflexivity.
  destruct (nless x y); auto.
Qed.

Lemma cmp_fields_pre : pre_cmp cmp_fields.
Proof.
  pose proof nless_pre as N. constructor.
  - induction x as [|a x IH]; cbn [cmp_fields]; [reflexivity|]. rewrite (pc_refl nless N). exact IH.
  - induction x as [|a x IH]; destruct y as [|b y]; cbn [cmp_fields CompOpp]; try reflexivity.
    rewrite (pc_opp nless N a b). destruct (nless a b); cbn [CompOpp]; auto.
  - induction x as [|a x IH]; destruct y as [|b y]; destruct z as [|c z]; cbn [cmp_fields]; intros L1 L2;
      try reflexivity; try discriminate.
    destruct (nless a b) eqn:E1; try discriminate; destruct (nless b c) eqn:E2; try discriminate.
    + rewrite (pc_eq nless N a b c E1), E2. eapply IH; eauto.
    + rewrite (pc_eq nless N a b c E1), E2. reflexivity.
    + rewrite (pc_lt_eq _ nless N a b c E1 E2). reflexivity.
    + rewrite (pc_trans nless N a b c E1 E2). reflexivity.
  - induction x as [|a x IH]; destruct y as [|b y]; cbn [cmp_fields]; intros z E; try discriminate; [reflexivity|].
    destruct (nless a b) eqn:E1; try discriminate.
    destruct z as [|c z]; cbn [cmp_fields]; [reflexivity|].
    rewrite (pc_eq nless N a b c E1). destruct (nless b c); auto.
Qed.

(* ------------------------------------------------------------------ SplitN *)
Fixpoint join (l : list bstr) : bstr :=
  match l with
  | [] => []
  | a :: r => match r with [] => a | _ => a ++ ch_colon :: join r end
  end.

Lemma cut_some : forall s a b, cut s = Some (a, b) -> s = a ++ ch_colon :: b.
Proof.
  induction s as [|c r IH]; cbn [cut]; intros a b H; [discriminate|].
  destruct (N.eqb_spec c ch_colon) as [E|E].
  - injection H as <- <-. subst c. reflexivity.
  - destruct (cut r) as [[a' b']|] eqn:Ec; [|discriminate]. injection H as <- <-.
    cbn [app]. f_equal. apply IH. reflexivity.
Qed.

Lemma splitN_nonempty : forall n s, splitN (S n) s <> [].
Proof. intros [|n] s; cbn [splitN]; [discriminate|]. destruct (cut s) as [[f r]|]; discriminate. Qed.

Lemma join_splitN : forall n s, join (splitN (S n) s) = s.
Proof.
  induction n as [|n IH]; intro s; [reflexivity|].
  change (splitN (S (S n)) s) with (match cut s with Some (f, r) => f :: splitN (S n) r | None => [s] end).
  destruct (cut s) as [[f r]|] eqn:Ec; [|reflexivity].
  cbn [join]. pose proof (splitN_nonempty n r) as Hne.
  destruct (splitN (S n) r) as [|g gs] eqn:Es; [congruence|].
  rewrite <- Es, IH. symmetry. apply cut_some. exact Ec.
Qed.

Lemma splitN_inj : forall n s t, splitN (S n) s = splitN (S n) t -> s = t.
Proof. intros n s t H. rewrite <- (join_splitN n s), <- (join_splitN n t), H. reflexivity. Qed.

(* ------------------------------------------------------------------ Less is "the comparison says Lt" *)
Definition fields (s : bstr) : list bstr := splitN errorSplitCount s.
Definition Cmp : bstr -> bstr -> comparison :=
  lex (fun s t => str_cmp (hd [] (fields s)) (hd [] (fields t)))
      (lex (fun s t => cmp_fields (tl (fields s)) (tl (fields t))) str_cmp).

Lemma Cmp_pre : pre_cmp Cmp.
Proof.
  unfold Cmp. apply lex_pre_cmp; [apply (on_pre_cmp _ _ (fun s => hd [] (fields s)) _ str_cmp_pre)|].
  apply lex_pre_cmp; [apply (on_pre_cmp _ _ (fun s => tl (fields s)) _ cmp_fields_pre)|apply str_cmp_pre].
Qed.

Lemma Less_Cmp : forall s t, Less s t = match Cmp s t with Lt => true | _ => false end.
Proof.
  intros s t. unfold Less, Cmp, lex, fields.
  pose proof (splitN_nonempty 3 s) as Hs. pose proof (splitN_nonempty 3 t) as Ht.
  change (S 3) with errorSplitCount in Hs, Ht.
  destruct (splitN errorSplitCount s) as [|f0 fi]; [congruence|].
  destruct (splitN errorSplitCount t) as [|g0 fj]; [congruence|].
  cbn [hd tl]. destruct (str_cmp f0 g0); try reflexivity.
  rewrite less_fields_cmp. unfold str_ltb. destruct (cmp_fields fi fj); reflexivity.
Qed.

Lemma Cmp_eq : forall s t, Cmp s t = Eq -> s = t.
Proof.
  intros s t. unfold Cmp, lex.
  destruct (str_cmp (hd [] (fields s)) (hd [] (fields t))); try discriminate.
  destruct (cmp_fields (tl (fields s)) (tl (fields t))); try discriminate.
  apply str_cmp_eq.
Qed.

Lemma Less_irrefl : forall a, Less a a = false.
Proof. intro a. rewrite Less_Cmp, (pc_refl Cmp Cmp_pre). reflexivity. Qed.

Lemma Less_trans : forall a b c, Less a b = true -> Less b c = true -> Less a c = true.
Proof.
  intros a b c. rewrite !Less_Cmp.
  destruct (Cmp a b) eqn:E1; try discriminate. destruct (Cmp b c) eqn:E2; try discriminate.
  rewrite (pc_trans Cmp Cmp_pre a b c E1 E2). reflexivity.
Qed.

Lemma Less_total : forall a b, Less a b = false -> Less b a = false -> a = b.
Proof.
  intros a b. rewrite !Less_Cmp, (pc_opp Cmp Cmp_pre a b).
  destruct (Cmp a b) eqn:E; cbn [CompOpp]; try discriminate. intros _ _. apply Cmp_eq. exact E.
Qed.

Lemma Less_swo : strict_weak_order_on (fun _ : bstr => True) Less.
Proof.
  constructor.
  - intros a _. apply Less_irrefl.
  - intros a b c _ _ _. apply Less_trans.
  - intros a b c _ _ _ H1 H2 H3 H4.
    assert (a = b) by (apply Less_total; assumption). assert (b = c) by (apply Less_total; assumption).
    subst. auto.
Qed.

Lemma Less_total_on : total_on (fun _ : bstr => True) Less.
Proof. intros a b _ _. apply Less_total. Qed.

(* exactly one of: a before b, a = b, b before a *)
Lemma Less_trichotomy : forall a b, Less a b = true \/ a = b \/ Less b a = true.
Proof.
  intros a b. destruct (Less a b) eqn:E1; [auto|]. destruct (Less b a) eqn:E2; [auto|].
  right; left. apply Less_total; assumption.
Qed.

(* ------------------------------------------------------------------ sorting w.r.t. a strict total order on a class *)
Section SortFacts.
Context {A : Type} (lt : A -> A -> bool) (P : A -> Prop).
Hypothesis lt_irrefl : forall a, P a -> lt a a = false.
Hypothesis lt_trans : forall a b c, P a -> P b -> P c -> lt a b = true -> lt b c = true -> lt a c = true.
Hypothesis lt_total : forall a b, P a -> P b -> lt a b = false -> lt b a = false -> a = b.

Lemma insert_perm : forall x l, Permutation (x :: l) (insert lt x l).
Proof.
  intros x l. induction l as [|y r IH]; cbn [insert]; [apply Permutation_refl|].
  destruct (lt x y); [apply Permutation_refl|].
  eapply perm_trans; [apply perm_swap|]. apply perm_skip. exact IH.
Qed.

Lemma isort_perm : forall l, Permutation l (isort lt l).
Proof.
  induction l as [|x r IH]; cbn [isort]; [apply perm_nil|].
  eapply perm_trans; [apply perm_skip; exact IH|]. apply insert_perm.
Qed.

Lemma lt_asym : forall a b, P a -> P b -> lt a b = true -> lt b a = false.
Proof.
  intros a b Ha Hb H. destruct (lt b a) eqn:E; [|reflexivity].
  pose proof (lt_trans a b a Ha Hb Ha H E) as C. rewrite (lt_irrefl a Ha) in C. discriminate.
Qed.

Lemma insert_sorted : forall x l, P x -> Forall P l -> sorted_wrt lt l -> sorted_wrt lt (insert lt x l).
Proof.
  intros x l Hx. induction l as [|y r IH]; intros HP Hs; cbn [insert].
  - constructor; constructor.
  - inversion HP as [|? ? Hy HPr]; subst. inversion Hs as [|? ? Hsr Hall]; subst.
    destruct (lt x y) eqn:E.
    + constructor; [exact Hs|]. constructor; [apply lt_asym; assumption|].
      rewrite Forall_forall in *. intros z Hz.
      destruct (lt z x) eqn:Ez; [|reflexivity].
      rewrite <- (Hall z Hz). symmetry. apply (lt_trans z x y); auto.
    + constructor; [apply IH; assumption|].
      eapply Permutation_Forall; [apply insert_perm|]. constructor; assumption.
Qed.

Lemma isort_sorted : forall l, Forall P l -> sorted_wrt lt (isort lt l).
Proof.
  induction l as [|x r IH]; intro HP; cbn [isort]; [constructor|].
  inversion HP; subst. apply insert_sorted; auto.
  eapply Permutation_Forall; [apply isort_perm|]. assumption.
Qed.

(* a sorted permutation is unique *)
Lemma sorted_unique : forall l l', Forall P l -> Permutation l l' ->
  sorted_wrt lt l -> sorted_wrt lt l' -> l = l'.
Proof.
  induction l as [|x r IH]; intros l' HP Hp Hs Hs'.
  - apply Permutation_nil in Hp. auto.
  - destruct l' as [|y r']; [apply Permutation_sym, Permutation_nil in Hp; discriminate|].
    inversion HP as [|? ? Hx HPr]; subst.
    inversion Hs as [|? ? Hsr Hall]; subst. inversion Hs' as [|? ? Hsr' Hall']; subst.
    assert (HP' : Forall P (y :: r')) by (eapply Permutation_Forall; eauto).
    inversion HP' as [|? ? Hy HPr']; subst.
    assert (Hyx : lt y x = false).
    { assert (Hin : In y (x :: r)) by (eapply Permutation_in; [apply Permutation_sym; exact Hp|left; reflexivity]).
      destruct Hin as [->|Hin]; [apply lt_irrefl; assumption|]. rewrite Forall_forall in Hall. auto. }
    assert (Hxy : lt x y = false).
    { assert (Hin : In x (y :: r')) by (eapply Permutation_in; [exact Hp|left; reflexivity]).
      destruct Hin as [->|Hin]; [apply lt_irrefl; assumption|]. rewrite Forall_forall in Hall'. auto. }
    assert (x = y) by (apply lt_total; assumption). subst y.
    f_equal. apply IH; auto. eapply Permutation_cons_inv; eauto.
Qed.

(* strictly increasing lists with the same elements are equal *)
Definition strictly_sorted (l : list A) : Prop := StronglySorted (fun a b => lt a b = true) l.

Lemma strictly_sorted_same_set : forall a b, Forall P a -> Forall P b ->
  strictly_sorted a -> strictly_sorted b -> (forall x, In x a <-> In x b) -> a = b.
Proof.
  induction a as [|x a IH]; intros b HPa HPb Sa Sb Hset.
  - destruct b as [|y b]; [reflexivity|]. exfalso. apply (proj2 (Hset y)). left; reflexivity.
  - destruct b as [|y b]; [exfalso; apply (proj1 (Hset x)); left; reflexivity|].
    inversion HPa as [|? ? Hx HPa']; subst. inversion HPb as [|? ? Hy HPb']; subst.
    inversion Sa as [|? ? Sa' Ha]; subst. inversion Sb as [|? ? Sb' Hb]; subst.
    rewrite Forall_forall in Ha, Hb, HPa', HPb'.
    assert (x = y).
    { destruct (proj1 (Hset x) (or_introl eq_refl)) as [E|Hin]; [auto|].
      destruct (proj2 (Hset y) (or_introl eq_refl)) as [E|Hin']; [auto|].
      exfalso. pose proof (lt_trans x y x Hx Hy Hx (Ha y Hin') (Hb x Hin)) as C.
      rewrite (lt_irrefl x Hx) in C. discriminate. }
    subst y. f_equal. apply IH; auto; try (apply Forall_forall; assumption).
    intro z. split; intro Hz.
    + destruct (proj1 (Hset z) (or_intror Hz)) as [E|Hin]; [|exact Hin].
      subst z. exfalso. pose proof (Ha x Hz) as C. rewrite (lt_irrefl x Hx) in C. discriminate.
    + destruct (proj2 (Hset z) (or_intror Hz)) as [E|Hin]; [|exact Hin].
      subst z. exfalso. pose proof (Hb x Hz) as C. rewrite (lt_irrefl x Hx) in C. discriminate.
Qed.

Lemma strictly_sorted_NoDup : forall l, Forall P l -> strictly_sorted l -> NoDup l.
Proof.
  induction l as [|x r IH]; intros HP S; [constructor|].
  inversion HP; subst. inversion S as [|? ? S' Hall]; subst. constructor; [|apply IH; assumption].
  intro Hin. rewrite Forall_forall in Hall. pose proof (Hall x Hin) as C.
  rewrite lt_irrefl in C by assumption. discriminate.
Qed.
End SortFacts.

(* ------------------------------------------------------------------ removal of repeated neighbours *)
Section Dedup.
Variable lt : bstr -> bstr -> bool.
Variable P : bstr -> Prop.
Hypothesis lt_irrefl : forall a, P a -> lt a a = false.
Hypothesis lt_trans : forall a b c, P a -> P b -> P c -> lt a b = true -> lt b c = true -> lt a c = true.
Hypothesis lt_total : forall a b, P a -> P b -> lt a b = false -> lt b a = false -> a = b.

Lemma dedup_from_some : forall l y, P y -> Forall P l -> sorted_wrt lt l -> Forall (fun b => lt b y = false) l ->
  strictly_sorted lt (dedup_from (Some y) l) /\
  Forall (fun b => lt y b = true) (dedup_from (Some y) l) /\
  (forall z, In z (dedup_from (Some y) l) <-> In z l /\ z <> y).
Proof.
  induction l as [|x r IH]; intros y Hy HP Hs Hge; cbn [dedup_from].
  - split; [constructor|]. split; [constructor|]. intro z. cbn [In]. tauto.
  - inversion HP as [|? ? Hx HPr]; subst. inversion Hs as [|? ? Hsr Hall]; subst.
    inversion Hge as [|? ? Hxy Hger]; subst.
    destruct (bstr_eqb x y) eqn:E.
    + apply bstr_eqb_eq in E. subst x. destruct (IH y Hy HPr Hsr Hger) as (S1 & S2 & S3).
      split; [exact S1|]. split; [exact S2|]. intro z. rewrite S3. cbn [In]. split; [tauto|].
      intros [[->|Hz] Hne]; [congruence|tauto].
    + assert (Hne : x <> y) by (intro C; apply bstr_eqb_eq in C; congruence).
      assert (Hyx : lt y x = true).
      { destruct (lt y x) eqn:E2; [reflexivity|]. exfalso. apply Hne. apply lt_total; assumption. }
      destruct (IH x Hx HPr Hsr Hall) as (S1 & S2 & S3).
      assert (HPd : forall z, In z (dedup_from (Some x) r) -> P z).
      { intros z Hz. apply S3 in Hz. rewrite Forall_forall in HPr. apply HPr. tauto. }
      split; [constructor; assumption|]. split.
      * constructor; [exact Hyx|]. rewrite Forall_forall in *. intros z Hz.
        apply (lt_trans y x z); auto.
      * intro z. cbn [In]. rewrite S3. split.
        -- intros [<-|[Hz Hzx]]; [tauto|]. split; [tauto|]. intro C. subst z.
           rewrite Forall_forall in Hall. rewrite (Hall y Hz) in Hyx. discriminate.
        -- intros [[<-|Hz] Hzy]; [tauto|].
           destruct (bstr_eqb z x) eqn:E3; [apply bstr_eqb_eq in E3; auto|].
           right. split; [exact Hz|]. intro C. apply bstr_eqb_eq in C. congruence.
Qed.

Lemma dedup_sorted : forall l, Forall P l -> sorted_wrt lt l ->
  strictly_sorted lt (dedup l) /\ (forall z, In z (dedup l) <-> In z l).
Proof.
  intros [|x r] HP Hs; unfold dedup; cbn [dedup_from].
  - split; [constructor|tauto].
  - inversion HP as [|? ? Hx HPr]; subst. inversion Hs as [|? ? Hsr Hall]; subst.
    destruct (dedup_from_some r x Hx HPr Hsr Hall) as (S1 & S2 & S3).
    split; [constructor; assumption|]. intro z. cbn [In]. rewrite S3. split; [tauto|].
    intros [<-|Hz]; [tauto|]. destruct (bstr_eqb z x) eqn:E; [apply bstr_eqb_eq in E; auto|].
    right. split; [exact Hz|]. intro C. apply bstr_eqb_eq in C. congruence.
Qed.
End Dedup.

Lemma errorSort_unfold : forall l, errorSort l = dedup (isort Less l).
Proof. intros [|x [|y r]]; reflexivity. Qed.

(* ------------------------------------------------------------------ errorSort, for every correct sort *)
Definition anyP : bstr -> Prop := fun _ => True.
Lemma Forall_anyP : forall l : list bstr, Forall anyP l.
Proof. intro l. apply Forall_forall. intros; exact I. Qed.
Lemma L_irrefl : forall a, anyP a -> Less a a = false. Proof. intros; apply Less_irrefl. Qed.
Lemma L_trans : forall a b c, anyP a -> anyP b -> anyP c -> Less a b = true -> Less b c = true -> Less a c = true.
Proof. intros a b c _ _ _. apply Less_trans. Qed.
Lemma L_total : forall a b, anyP a -> anyP b -> Less a b = false -> Less b a = false -> a = b.
Proof. intros a b _ _. apply Less_total. Qed.

Lemma errorSort_any_props : forall l out, errorSort_any l out -> strictly_sorted Less out /\ same_set l out.
Proof.
  intros l out (p & (Hperm & Hs) & ->).
  destruct (dedup_sorted Less anyP L_trans L_total p (Forall_anyP p) Hs) as (S1 & S2).
  split; [exact S1|]. intro z. rewrite S2.
  split; apply Permutation_in; [exact Hperm|apply Permutation_sym; exact Hperm].
Qed.

(* the result is determined by the SET of error texts *)
Lemma errorSort_any_set : forall l l' out out', same_set l l' ->
  errorSort_any l out -> errorSort_any l' out' -> out = out'.
Proof.
  intros l l' out out' Hset H H'.
  destruct (errorSort_any_props l out H) as (S1 & S2). destruct (errorSort_any_props l' out' H') as (S1' & S2').
  apply (strictly_sorted_same_set Less anyP L_irrefl L_trans); auto using Forall_anyP.
  intro z. rewrite <- (S2 z), <- (S2' z). apply Hset.
Qed.

Lemma errorSort_is_instance : forall l, errorSort_any l (errorSort l).
Proof.
  intro l. exists (isort Less l). split; [|apply errorSort_unfold].
  split; [apply isort_perm|]. apply (isort_sorted Less anyP L_irrefl L_trans). apply Forall_anyP.
Qed.

Lemma errorSort_set : forall l l', same_set l l' -> errorSort l = errorSort l'.
Proof. intros l l' H. apply (errorSort_any_set l l'); auto using errorSort_is_instance. Qed.

Lemma errorSort_perm : forall l l', Permutation l l' -> errorSort l = errorSort l'.
Proof.
  intros l l' Hp. apply errorSort_set.
  intro z. split; apply Permutation_in; [exact Hp|apply Permutation_sym; exact Hp].
Qed.

Lemma errorSort_any_unique : forall l out, errorSort_any l out -> out = errorSort l.
Proof. intros l out H. apply (errorSort_any_set l l); auto using errorSort_is_instance. intro; tauto. Qed.

Lemma errorSort_any_NoDup : forall l out, errorSort_any l out -> NoDup out.
Proof.
  intros l out H. destruct (errorSort_any_props l out H) as (S1 & _).
  apply (strictly_sorted_NoDup Less anyP L_irrefl); auto using Forall_anyP.
Qed.

Lemma errorSort_sorted_nodup : forall l out, errorSort_any l out ->
  strictly_sorted Less out /\ same_set l out /\ NoDup out.
Proof.
  intros l out H. destruct (errorSort_any_props l out H) as (S1 & S2).
  exact (conj S1 (conj S2 (errorSort_any_NoDup l out H))).
Qed.

(* ------------------------------------------------------------------ positioned errors: the key *)
Lemma fields_ok_len : forall k fs, fields_okb k fs = true -> (length fs <= length k)%nat.
Proof.
  induction k as [|b k IH]; intros [|f fs] H; cbn [length]; try lia; [discriminate|].
  cbn [fields_okb] in H. apply andb_true_iff in H. destruct H as [_ H]. specialize (IH _ H). lia.
Qed.

Lemma positioned_fields : forall s, positioned s ->
  exists f l c t, splitN errorSplitCount s = [f; l; c; t] /\
    canon_numb l = true /\ canon_numb c = true /\ atoi t = None.
Proof.
  intros s H. unfold positioned, positionedb in H. apply andb_true_iff in H. destruct H as [Hu Hl].
  apply Nat.eqb_eq in Hl. unfold uniformb in Hu.
  destruct (splitN errorSplitCount s) as [|f [|l [|c [|t [|? ?]]]]]; try discriminate.
  exists f, l, c, t. split; [reflexivity|]. cbn [tl fields_okb k_positioned field_okb] in Hu.
  repeat (apply andb_true_iff in Hu; destruct Hu as [? Hu]).
  repeat split; try assumption.
  match goal with H : match atoi t with _ => _ end = true |- _ => destruct (atoi t); [discriminate|reflexivity] end.
Qed.

Lemma positioned_key : forall s, positioned s -> exists ky, pos_key s = Some ky.
Proof.
  intros s H. destruct (positioned_fields s H) as (f & l & c & t & E & Hl & Hc & Ht).
  unfold pos_key. rewrite E, (canon_atoi _ Hl), (canon_atoi _ Hc). eauto.
Qed.

Lemma positioned_eq : forall a b f l c t, splitN errorSplitCount a = [f; l; c; t] ->
  splitN errorSplitCount b = [f; l; c; t] -> a = b.
Proof. intros a b f l c t E E'. apply (splitN_inj 3). change (S 3) with errorSplitCount. congruence. Qed.

Lemma Less_pos_lt : forall a b, positioned a -> positioned b -> (Less a b = true <-> pos_lt a b).
Proof.
  intros a b Ha Hb.
  destruct (positioned_fields a Ha) as (f & l & c & t & E & Hl & Hc & Ht).
  destruct (positioned_fields b Hb) as (f' & l' & c' & t' & E' & Hl' & Hc' & Ht').
  unfold pos_lt, pos_key, Less. rewrite E, E'.
  rewrite (canon_atoi _ Hl), (canon_atoi _ Hc), (canon_atoi _ Hl'), (canon_atoi _ Hc').
  unfold key_lt. cbn [k_file k_line k_col k_text less_fields].
  rewrite (nless_numeric l l'), (nless_numeric c c'), (nless_text t t') by assumption.
  destruct (str_cmp f f') eqn:Cf.
  - apply str_cmp_eq in Cf. subst f'.
    destruct (Z.compare_spec (dv l) (dv l')) as [El|El|El].
    + destruct (Z.compare_spec (dv c) (dv c')) as [Ec|Ec|Ec].
      * destruct (str_cmp t t') eqn:Ct; split; intro H; try discriminate; try reflexivity.
        -- exfalso. apply str_cmp_eq in Ct. subst t'.
           assert (l = l') by (apply canon_inj; assumption). assert (c = c') by (apply canon_inj; assumption). subst l' c'.
           rewrite (positioned_eq a b f l c t E E') in H. unfold str_ltb in H. rewrite str_cmp_refl in H. discriminate.
        -- exfalso. destruct H as [H|(_ & [H|(_ & [H|(_ & H)])])]; try lia; try discriminate.
        -- right. split; [reflexivity|]. right. split; [exact El|]. right. split; [exact Ec|reflexivity].
        -- exfalso. destruct H as [H|(_ & [H|(_ & [H|(_ & H)])])]; try lia; try discriminate.
      * split; intro H; [|reflexivity]. right. split; [reflexivity|]. right. split; [exact El|]. left. exact Ec.
      * split; intro H; [discriminate|]. exfalso.
        destruct H as [H|(_ & [H|(_ & [H|(H & _)])])]; try lia; try discriminate.
    + split; intro H; [|reflexivity]. right. split; [reflexivity|]. left. exact El.
    + split; intro H; [discriminate|]. exfalso.
      destruct H as [H|(_ & [H|(H & _)])]; try lia; try discriminate.
  - split; intro H; [left; reflexivity|reflexivity].
  - split; intro H; [discriminate|]. exfalso. destruct H as [H|(H & _)]; [discriminate|].
    subst f'. rewrite str_cmp_refl in Cf. discriminate.
Qed.

Lemma pos_lt_le3 : forall a b, pos_lt a b -> pos_le3 a b.
Proof.
  intros a b. unfold pos_lt, pos_le3. destruct (pos_key a), (pos_key b); auto.
  unfold key_lt, key_le3. intros [H|(H1 & [H|(H2 & [H|(H3 & H4)])])]; auto; right; split; auto; right; split; auto; lia.
Qed.

Lemma StronglySorted_impl : forall A (R R' : A -> A -> Prop) (Q : A -> Prop) l,
  (forall a b, Q a -> Q b -> R a b -> R' a b) -> Forall Q l -> StronglySorted R l -> StronglySorted R' l.
Proof.
  intros A R R' Q l HR. induction l as [|x r IH]; intros HQ S; [constructor|].
  inversion HQ; subst. inversion S as [|? ? S' Hall]; subst. constructor; [auto|].
  rewrite Forall_forall in *. intros z Hz. apply HR; auto.
Qed.

(* T2 for positioned errors *)
Lemma errorSort_positioned : forall l out, Forall positioned l -> errorSort_any l out ->
  StronglySorted pos_lt out /\ StronglySorted pos_le3 out /\ NoDup out /\ same_set l out /\ out = errorSort l.
Proof.
  intros l out HP H.
  destruct (errorSort_any_props l out H) as (S1 & S2).
  assert (HPo : Forall positioned out).
  { rewrite Forall_forall in *. intros z Hz. apply HP. apply S2. exact Hz. }
  assert (Slt : StronglySorted pos_lt out).
  { eapply StronglySorted_impl; [|exact HPo|exact S1]. intros a b Ha Hb Hab. apply Less_pos_lt; assumption. }
  split; [exact Slt|]. split.
  { eapply StronglySorted_impl; [|exact HPo|exact Slt]. intros a b _ _. apply pos_lt_le3. }
  split; [exact (errorSort_any_NoDup l out H)|]. split; [exact S2|].
  exact (errorSort_any_unique l out H).
Qed.

(* ------------------------------------------------------------------ before the repair: refutations *)
(* "f:9" "f:10" "f:1a": 9 < 10 as numbers, "10" < "1a" < "9" as strings *)
Definition w9 : bstr := [102;58;57].
Definition w10 : bstr := [102;58;49;48].
Definition w1a : bstr := [102;58;49;97].

Lemma Less_old_cycle : Less_old w9 w10 = true /\ Less_old w10 w1a = true /\ Less_old w1a w9 = true.
Proof. vm_compute. auto. Qed.

Lemma Less_old_not_transitive : ~ (forall a b c, Less_old a b = true -> Less_old b c = true -> Less_old a c = true).
Proof.
  intro H. pose proof (H w9 w10 w1a) as C. assert (E : Less_old w9 w1a = false) by (vm_compute; reflexivity).
  rewrite C in E; [discriminate| |]; vm_compute; reflexivity.
Qed.

Lemma Less_old_not_swo : ~ strict_weak_order_on (fun _ => True) Less_old.
Proof. intros [_ T _]. apply Less_old_not_transitive. intros a b c. apply T; exact I. Qed.

(* digits only, but beyond the int range: "f:9" "f:10" "f:19999999999999999999" *)
Definition wbig : bstr := [102;58;49;57;57;57;57;57;57;57;57;57;57;57;57;57;57;57;57;57;57;57].
Lemma Less_old_cycle_digits : Less_old w9 w10 = true /\ Less_old w10 wbig = true /\ Less_old wbig w9 = true.
Proof. vm_compute. auto. Qed.

(* numerically equal, textually different: "f:1" "f:01" *)
Definition w1 : bstr := [102;58;49].
Definition w01 : bstr := [102;58;48;49].
Lemma Less_old_not_total : Less_old w1 w01 = false /\ Less_old w01 w1 = false /\ w1 <> w01.
Proof. vm_compute. repeat split; discriminate. Qed.

Lemma errorSort_old_order_dependent :
  Permutation [w9; w10; w1a] [w10; w1a; w9] /\ errorSort_old [w9; w10; w1a] <> errorSort_old [w10; w1a; w9].
Proof.
  split.
  - change [w10; w1a; w9] with ([w10; w1a] ++ [w9]). apply (Permutation_cons_append [w10; w1a] w9).
  - vm_compute. discriminate.
Qed.

Lemma errorSort_any_old_not_functional :
  errorSort_any_old [w1; w01] [w1; w01] /\ errorSort_any_old [w1; w01] [w01; w1].
Proof.
  split.
  - exists [w1; w01]. split; [split; [apply Permutation_refl|]|vm_compute; reflexivity].
    repeat constructor.
  - exists [w01; w1]. split; [split; [apply perm_swap|]|vm_compute; reflexivity].
    repeat constructor.
Qed.

(* the same witnesses under the repaired Less: one answer *)
Lemma witnesses_repaired :
  errorSort [w9; w10; w1a] = [w9; w10; w1a] /\ errorSort [w10; w1a; w9] = [w9; w10; w1a] /\
  errorSort [w1a; w9; w10] = [w9; w10; w1a] /\ errorSort [w1; w01] = errorSort [w01; w1] /\
  errorSort [w9; w10; wbig] = errorSort [wbig; w9; w10].
Proof. vm_compute. auto. Qed.

(* non-vacuity: "m.yang:12:3: x" and "m.yang:9:30: y" are positioned, 9 sorts before 12 *)
Definition p12 : bstr := [109;46;121;97;110;103;58;49;50;58;51;58;32;120].
Definition p9 : bstr := [109;46;121;97;110;103;58;57;58;51;48;58;32;121].
Lemma positioned_example : positioned p12 /\ positioned p9 /\ errorSort [p12; p9; p12] = [p9; p12].
Proof. vm_compute. auto. Qed.


(* ================================================================== Part 2: the resolver model *)
Local Close Scope N_scope.
From GY Require Import Model.Schema.

(* ------------------------------------------------------------------ 1. find_module *)
Lemma str_eqb_eq : forall a b, str_eqb a b = true <-> a = b.
Proof.
  induction a as [|x a IH]; destruct b as [|y b]; simpl; split; intro H;
    try reflexivity; try discriminate.
  - apply andb_true_iff in H. destruct H as [H1 H2].
    apply N.eqb_eq in H1. apply IH in H2. subst. reflexivity.
  - inversion H; subst. apply andb_true_iff. split.
    + apply N.eqb_refl.
    + apply IH. reflexivity.
Qed.

Lemma str_eqb_refl : forall a, str_eqb a a = true.
Proof. intro a. apply str_eqb_eq. reflexivity. Qed.

Lemma find_module_none_notin : forall SC n,
  ~ In n (map m_name SC) -> find_module SC n = None.
Proof.
  induction SC as [|m r IH]; intros n H; simpl; [reflexivity|].
  destruct (str_eqb (m_name m) n) eqn:E.
  - apply str_eqb_eq in E. exfalso. apply H. simpl. left. exact E.
  - apply IH. intro Hin. apply H. simpl. right. exact Hin.
Qed.

Lemma find_module_perm : forall SC SC', distinct_names SC -> Permutation SC SC' ->
  forall n, find_module SC' n = find_module SC n.
Proof.
  unfold distinct_names. intros SC SC' Hnd Hp. induction Hp; intros n.
  - reflexivity.
  - simpl. inversion Hnd; subst. rewrite IHHp by assumption. reflexivity.
  - simpl. destruct (str_eqb (m_name x) n) eqn:Ex; destruct (str_eqb (m_name y) n) eqn:Ey;
      try reflexivity.
    apply str_eqb_eq in Ex. apply str_eqb_eq in Ey.
    simpl in Hnd. inversion Hnd; subst. exfalso. apply H1. simpl. left. congruence.
  - rewrite IHHp2.
    + apply IHHp1. exact Hnd.
    + eapply Permutation_NoDup; [|exact Hnd]. apply Permutation_map. exact Hp1.
Qed.

(* ------------------------------------------------------------------ 2. sizes *)
Lemma schema_size_perm : forall SC SC', Permutation SC SC' -> schema_size SC' = schema_size SC.
Proof.
  unfold schema_size. intros SC SC' Hp. induction Hp; simpl in *; try lia.
Qed.

Lemma entry_fuel_perm : forall SC SC', Permutation SC SC' -> entry_fuel SC' = entry_fuel SC.
Proof.
  intros SC SC' Hp. unfold entry_fuel. rewrite (schema_size_perm _ _ Hp). reflexivity.
Qed.

Lemma length_perm : forall (SC SC' : schema), Permutation SC SC' -> length SC' = length SC.
Proof. intros. symmetry. apply Permutation_length. assumption. Qed.

(* ------------------------------------------------------------------ generic helpers *)
Lemma fold_left_ext : forall A B (f g : A -> B -> A) (l : list B) (a : A),
  (forall a x, f a x = g a x) -> fold_left f l a = fold_left g l a.
Proof.
  intros A B f g l. induction l as [|x l IH]; intros a H; simpl; [reflexivity|].
  rewrite H. apply IH. exact H.
Qed.

(* ------------------------------------------------------------------ 3. congruence *)
Section Cong.
Variables SC SC' : schema.
Hypothesis Hfm : forall n, find_module SC' n = find_module SC n.
Hypothesis Hlen : length SC' = length SC.
Hypothesis Hfuel : entry_fuel SC' = entry_fuel SC.

Lemma owner_cong : forall m, owner SC' m = owner SC m.
Proof. intro m. unfold owner. destruct (m_belongs m); [rewrite Hfm|]; reflexivity. Qed.

(* the two inner loops of find_grouping_mod, with the recursive call abstracted *)
Definition fg_rec := module -> bool -> str -> list str -> option found_grouping * list str.

Definition imp_go (S0 : schema) (rec : fg_rec) (name : str) :=
  fix imp_go_ (is : list (str * str)) (seen : list str) {struct is}
  : option found_grouping * list str :=
  match is with
  | [] => (None, seen)
  | (p, mn) :: r =>
    if has_prefix (p ++ [cCOLON]) name then
      match find_module S0 mn with
      | Some im =>
        match rec im true (trim_prefix (p ++ [cCOLON]) name) seen with
        | (Some g, seen') => (Some g, seen')
        | (None, seen') => imp_go_ r seen'
        end
      | None => imp_go_ r seen
      end
    else imp_go_ r seen
  end.

Definition inc_go (S0 : schema) (rec : fg_rec) (name : str) :=
  fix inc_go_ (is : list str) (seen : list str) {struct is}
  : option found_grouping * list str :=
  match is with
  | [] => (None, seen)
  | sn :: r =>
    if existsb (str_eqb sn) seen then inc_go_ r seen
    else match find_module S0 sn with
         | Some sm =>
           match rec sm true name (sn :: seen) with
           | (Some g, seen') => (Some g, seen')
           | (None, seen') => inc_go_ r seen'
           end
         | None => inc_go_ r (sn :: seen)
         end
  end.

Lemma find_grouping_mod_S : forall f S0 m trim name seen,
  find_grouping_mod (S f) S0 m trim name seen =
  let name := if trim then trim_prefix (m_prefix m ++ [cCOLON]) name else name in
  match find_in name (groupings_of (m_body m)) with
  | Some (gid, b) => (Some (gid, b, {| g_mod := m; g_scopes := [m_body m] |}), seen)
  | None =>
    match imp_go S0 (fun m t n s => find_grouping_mod f S0 m t n s) name (m_imports m) seen with
    | (Some g, seen') => (Some g, seen')
    | (None, seen') =>
      inc_go S0 (fun m t n s => find_grouping_mod f S0 m t n s) name (m_includes m) seen'
    end
  end.
Proof. reflexivity. Qed.

Lemma imp_go_cong : forall (rec rec' : fg_rec) name,
  (forall m t n s, rec' m t n s = rec m t n s) ->
  forall is seen, imp_go SC' rec' name is seen = imp_go SC rec name is seen.
Proof.
  intros rec rec' name Hrec. induction is as [|[p mn] r IH]; intros seen; simpl; [reflexivity|].
  rewrite Hfm. destruct (has_prefix (p ++ [cCOLON]) name); [|apply IH].
  destruct (find_module SC mn); [|apply IH].
  rewrite Hrec. destruct (rec m true (trim_prefix (p ++ [cCOLON]) name) seen) as [[g|] s'];
    [reflexivity|apply IH].
Qed.

Lemma inc_go_cong : forall (rec rec' : fg_rec) name,
  (forall m t n s, rec' m t n s = rec m t n s) ->
  forall is seen, inc_go SC' rec' name is seen = inc_go SC rec name is seen.
Proof.
  intros rec rec' name Hrec. induction is as [|sn r IH]; intros seen; simpl; [reflexivity|].
  rewrite Hfm. destruct (existsb (str_eqb sn) seen); [apply IH|].
  destruct (find_module SC sn); [|apply IH].
  rewrite Hrec. destruct (rec m true name (sn :: seen)) as [[g|] s'];
    [reflexivity|apply IH].
Qed.

Lemma find_grouping_mod_cong : forall fuel m trim name seen,
  find_grouping_mod fuel SC' m trim name seen = find_grouping_mod fuel SC m trim name seen.
Proof.
  induction fuel as [|f IH]; intros m trim name seen; [reflexivity|].
  rewrite !find_grouping_mod_S. cbv zeta.
  destruct (find_in _ (groupings_of (m_body m))) as [[gid b]|]; [reflexivity|].
  rewrite (imp_go_cong (fun m t n s => find_grouping_mod f SC m t n s)
                       (fun m t n s => find_grouping_mod f SC' m t n s)) by (intros; apply IH).
  destruct (imp_go SC _ _ (m_imports m) seen) as [[g|] s']; [reflexivity|].
  apply inc_go_cong. intros; apply IH.
Qed.

Lemma find_grouping_scopes_cong : forall m scopes name,
  find_grouping_scopes SC' m scopes name = find_grouping_scopes SC m scopes name.
Proof.
  intros m scopes name. induction scopes as [|sc outer IH]; [reflexivity|].
  destruct outer as [|sc2 outer].
  - cbn [find_grouping_scopes]. rewrite Hlen. rewrite find_grouping_mod_cong. reflexivity.
  - change (find_grouping_scopes SC' m (sc :: sc2 :: outer) name) with
      (match find_in name (groupings_of sc) with
       | Some (gid, b) => Some (gid, b, {| g_mod := m; g_scopes := sc :: sc2 :: outer |})
       | None => find_grouping_scopes SC' m (sc2 :: outer) name
       end).
    rewrite IH. reflexivity.
Qed.

Lemma FindGrouping_cong : forall c name, FindGrouping SC' c name = FindGrouping SC c name.
Proof. intros. unfold FindGrouping. apply find_grouping_scopes_cong. Qed.

(* the step of to_entry's local body_dir fold *)
Definition bd_step (S0 : schema) (f : nat) (c' : gctx) (busy : list nat)
  (acc : list (str * entry) * bool) (ch : dnode) : list (str * entry) * bool :=
  match ch with
  | DGrouping gid _ gb =>
      let '(_, e) := to_entry S0 f c' busy ch in (fst acc, snd acc || e)
  | DUses g =>
      match FindGrouping S0 c' g with
      | None => (fst acc, true)
      | Some (gid, gb, gc) =>
        if existsb (Nat.eqb gid) busy then (fst acc, true)
        else
          let '(ge, gerr) := to_entry S0 f gc (gid :: busy) (DGrouping gid [] gb) in
          let '(d, e) := merge_dir acc None (match e_dir ge with Some d => d | None => [] end) in
          (d, e || gerr)
      end
  | _ => let b := to_entry S0 f c' busy ch in add_child acc (e_name (fst b)) b
  end.

Lemma bd_step_cong : forall f,
  (forall c busy n, to_entry SC' f c busy n = to_entry SC f c busy n) ->
  forall c' busy acc ch, bd_step SC' f c' busy acc ch = bd_step SC f c' busy acc ch.
Proof.
  intros f IH c' busy acc ch. destruct ch; unfold bd_step; rewrite ?IH; try reflexivity.
  rewrite FindGrouping_cong. destruct (FindGrouping SC c' gname) as [[[gid gb] gc]|]; [|reflexivity].
  destruct (existsb (Nat.eqb gid) busy); [reflexivity|]. rewrite IH. reflexivity.
Qed.

Lemma to_entry_cong : forall fuel c busy n,
  to_entry SC' fuel c busy n = to_entry SC fuel c busy n.
Proof.
  induction fuel as [|f IH]; intros c busy n; [reflexivity|].
  assert (Hbd : forall c' body i,
            fold_left (bd_step SC' f c' busy) body i = fold_left (bd_step SC f c' busy) body i).
  { intros. apply fold_left_ext. intros. apply bd_step_cong. exact IH. }
  destruct n; cbn [to_entry]; try reflexivity.
  all: try (destruct input; destruct output).
  all: repeat match goal with
       | |- context [fold_left ?F ?b ?i] =>
         lazymatch F with context [SC'] => idtac end;
         let c' := constr:({| g_mod := g_mod c; g_scopes := b :: g_scopes c |}) in
         change (fold_left F b i) with (fold_left (bd_step SC' f c' busy) b i);
         rewrite (Hbd c' b i)
       end.
  all: reflexivity.
Qed.

Lemma body_entry_cong : forall m scopes body,
  body_entry SC' m scopes body = body_entry SC m scopes body.
Proof. intros. unfold body_entry. rewrite Hfuel. apply to_entry_cong. Qed.

Lemma module_dir_cong : forall ic fuel merged m,
  module_dir SC' ic fuel merged m = module_dir SC ic fuel merged m.
Proof.
  intros ic. induction fuel as [|f IH]; intros merged m; [reflexivity|].
  cbn [module_dir]. rewrite body_entry_cong.
  destruct (body_entry SC m [] (m_body m)) as [me err].
  apply fold_left_ext. intros [acc mg] sn. rewrite Hfm.
  destruct (find_module SC sn) as [sm|]; [|reflexivity].
  rewrite IH. reflexivity.
Qed.

Lemma module_entry_cong : forall ic m, module_entry SC' ic m = module_entry SC ic m.
Proof. intros. unfold module_entry. rewrite Hlen, module_dir_cong. reflexivity. Qed.

Lemma includes_ok_cong : forall fuel seen m,
  includes_ok SC' fuel seen m = includes_ok SC fuel seen m.
Proof.
  induction fuel as [|f IH]; intros seen m; [reflexivity|].
  cbn [includes_ok]. destruct (mem (m_name m) seen); [reflexivity|].
  assert (Hstep : forall (st : bool * list str) name want,
    (if fst st then match find_module SC' name with
                    | Some x => if Bool.eqb (is_sub x) want then includes_ok SC' f (snd st) x
                                else (false, snd st)
                    | None => (false, snd st) end else st) =
    (if fst st then match find_module SC name with
                    | Some x => if Bool.eqb (is_sub x) want then includes_ok SC f (snd st) x
                                else (false, snd st)
                    | None => (false, snd st) end else st)).
  { intros st name want. rewrite Hfm. destruct (fst st); [|reflexivity].
    destruct (find_module SC name); [|reflexivity]. rewrite IH. reflexivity. }
  rewrite (fold_left_ext _ _ _ _ (m_includes m) _ (fun st sn => Hstep st sn true)).
  apply fold_left_ext. intros st i. apply Hstep.
Qed.

Lemma module_augs_cong : forall m, module_augs SC' m = module_augs SC m.
Proof.
  intros m. unfold module_augs. apply map_ext. intros a. rewrite body_entry_cong. reflexivity.
Qed.

Lemma owner_ns_cong : forall m, owner_ns SC' m = owner_ns SC m.
Proof. intros m. unfold owner_ns. rewrite owner_cong. reflexivity. Qed.

End Cong.

(* ------------------------------------------------------------------ 4. the range loops of Process *)
Lemma forallb_perm : forall A (f : A -> bool) l l', Permutation l l' -> forallb f l' = forallb f l.
Proof.
  intros A f l l' Hp. induction Hp; simpl.
  - reflexivity.
  - rewrite IHHp. reflexivity.
  - destruct (f x); destruct (f y); reflexivity.
  - congruence.
Qed.

Lemma existsb_perm : forall A (f : A -> bool) l l', Permutation l l' -> existsb f l' = existsb f l.
Proof.
  intros A f l l' Hp. induction Hp; simpl.
  - reflexivity.
  - rewrite IHHp. reflexivity.
  - destruct (f x); destruct (f y); reflexivity.
  - congruence.
Qed.

Lemma filter_perm : forall A (f : A -> bool) l l',
  Permutation l l' -> Permutation (filter f l) (filter f l').
Proof.
  intros A f l l' Hp. induction Hp; simpl.
  - constructor.
  - destruct (f x); [constructor|]; assumption.
  - destruct (f x); destruct (f y); try apply Permutation_refl. apply perm_swap.
  - eapply perm_trans; eassumption.
Qed.

Lemma forallb_fext : forall A (f g : A -> bool) l, (forall x, f x = g x) -> forallb f l = forallb g l.
Proof. intros A f g l H. induction l; simpl; [reflexivity|]. rewrite H, IHl. reflexivity. Qed.

Lemma lookup_notin : forall A k (F : list (str * A)), ~ In k (map fst F) -> Schema.lookup k F = None.
Proof.
  intros A k F. induction F as [|[k' v] r IH]; intros H; simpl; [reflexivity|].
  destruct (str_eqb k k') eqn:E.
  - apply str_eqb_eq in E. exfalso. apply H. simpl. left. congruence.
  - apply IH. intro Hin. apply H. simpl. right. exact Hin.
Qed.

Lemma lookup_perm : forall A (F F' : list (str * A)),
  NoDup (map fst F) -> Permutation F F' -> lookup_equiv F F'.
Proof.
  unfold lookup_equiv. intros A F F' Hnd Hp. induction Hp; intros k.
  - reflexivity.
  - simpl. destruct x as [k' v]. inversion Hnd; subst. rewrite IHHp by assumption. reflexivity.
  - simpl. destruct x as [kx vx]. destruct y as [ky vy].
    destruct (str_eqb k kx) eqn:Ex; destruct (str_eqb k ky) eqn:Ey; try reflexivity.
    apply str_eqb_eq in Ex. apply str_eqb_eq in Ey.
    simpl in Hnd. inversion Hnd; subst. exfalso. apply H1. simpl. left. reflexivity.
  - rewrite IHHp1 by exact Hnd. apply IHHp2.
    eapply Permutation_NoDup; [|exact Hnd]. apply Permutation_map. exact Hp1.
Qed.

Lemma NoDup_map_filter : forall A B (g : A -> B) (p : A -> bool) l,
  NoDup (map g l) -> NoDup (map g (filter p l)).
Proof.
  intros A B g p l. induction l as [|x l IH]; intros H; simpl; [constructor|].
  simpl in H. inversion H; subst. destruct (p x); [|apply IH; assumption].
  simpl. constructor; [|apply IH; assumption].
  intro Hin. apply H2. apply in_map_iff in Hin. destruct Hin as [y [Hy Hin]].
  apply filter_In in Hin. destruct Hin as [Hin _]. apply in_map_iff. exists y. split; assumption.
Qed.

Lemma F0_of_keys : forall SC ic,
  map fst (F0_of SC ic) = map m_name (filter (fun m => negb (is_sub m)) SC).
Proof.
  intros SC ic. unfold F0_of. generalize (module_entry SC ic). intros h.
  induction SC as [|m r IH]; simpl; [reflexivity|].
  destruct (negb (is_sub m)); simpl; rewrite IH; reflexivity.
Qed.

Lemma P0_of_keys : forall SC, map fst (P0_of SC) = map m_name SC.
Proof. intros SC. unfold P0_of. rewrite map_map. reflexivity. Qed.

Section ProcessPerm.
Variables SC SC' : schema.
Hypothesis Hnd : distinct_names SC.
Hypothesis Hp : Permutation SC SC'.
Variable ic : bool.

Let Hfm := find_module_perm SC SC' Hnd Hp.
Let Hlen := length_perm SC SC' Hp.
Let Hfuel := entry_fuel_perm SC SC' Hp.

Lemma process_includes_check_perm :
  forallb (fun m => fst (includes_ok SC' (S (length SC')) [] m)) (modules_only SC') =
  forallb (fun m => fst (includes_ok SC (S (length SC)) [] m)) (modules_only SC).
Proof.
  rewrite (forallb_fext _ _ (fun m => fst (includes_ok SC (S (length SC)) [] m))).
  - apply forallb_perm. unfold modules_only. apply filter_perm. exact Hp.
  - intros m. rewrite Hlen. rewrite (includes_ok_cong SC SC' Hfm). reflexivity.
Qed.

Lemma built_mods_map_eq :
  map (fun m => (m, module_entry SC' ic m)) SC' = map (fun m => (m, module_entry SC ic m)) SC'.
Proof.
  apply map_ext. intros m. rewrite (module_entry_cong SC SC' Hfm Hlen Hfuel). reflexivity.
Qed.

Lemma built_mods_perm :
  Permutation (map (fun m => (m, module_entry SC ic m)) SC)
              (map (fun m => (m, module_entry SC' ic m)) SC').
Proof. rewrite built_mods_map_eq. apply Permutation_map. exact Hp. Qed.

Lemma process_build_check_perm :
  existsb (fun x => snd (snd x)) (map (fun m => (m, module_entry SC' ic m)) SC') =
  existsb (fun x => snd (snd x)) (map (fun m => (m, module_entry SC ic m)) SC).
Proof. apply existsb_perm. apply built_mods_perm. Qed.

Lemma F0_perm : Permutation (F0_of SC ic) (F0_of SC' ic).
Proof.
  unfold F0_of. apply Permutation_map. apply filter_perm. apply built_mods_perm.
Qed.

Lemma F0_lookup_equiv : lookup_equiv (F0_of SC ic) (F0_of SC' ic).
Proof.
  apply lookup_perm; [|apply F0_perm].
  rewrite F0_of_keys. apply NoDup_map_filter. exact Hnd.
Qed.

Lemma P0_perm : Permutation (P0_of SC) (P0_of SC').
Proof.
  unfold P0_of.
  replace (map (fun m => (m_name m, module_augs SC' m)) SC')
    with (map (fun m => (m_name m, module_augs SC m)) SC').
  - apply Permutation_map. exact Hp.
  - apply map_ext. intros m. rewrite (module_augs_cong SC SC' Hfm Hlen Hfuel). reflexivity.
Qed.

Lemma P0_lookup_equiv : lookup_equiv (P0_of SC) (P0_of SC').
Proof.
  apply lookup_perm; [|apply P0_perm]. rewrite P0_of_keys. exact Hnd.
Qed.

End ProcessPerm.

(* Process itself, restated through F0_of / P0_of: these ARE the sub-expressions of Process *)
(* the two checks and F0_of / P0_of (Spec/C05.v) are the sub-expressions of Process: a failed check makes Process
   return errors, and (checked by the script of the third lemma, so that an edit of Process that changes what the
   augment loop starts from breaks this file) the augment loop starts from exactly F0_of and P0_of *)
Lemma Process_includes_check : forall SC ic ins order,
  forallb (fun m => fst (includes_ok SC (S (length SC)) [] m)) (modules_only SC) = false ->
  Process SC ic ins order = RErr.
Proof. intros SC ic ins order H. unfold Process. rewrite H. reflexivity. Qed.

Lemma Process_build_check : forall SC ic ins order,
  existsb (fun x => snd (snd x)) (map (fun m => (m, module_entry SC ic m)) SC) = true ->
  Process SC ic ins order = RErr.
Proof.
  intros SC ic ins order H. unfold Process.
  destruct (negb (forallb (fun m => fst (includes_ok SC (S (length SC)) [] m)) (modules_only SC))); [reflexivity|].
  cbv zeta. rewrite H. reflexivity.
Qed.

Lemma Process_starts_from_F0_P0 : forall SC ic ins order,
  forallb (fun m => fst (includes_ok SC (S (length SC)) [] m)) (modules_only SC) = true ->
  existsb (fun x => snd (snd x)) (map (fun m => (m, module_entry SC ic m)) SC) = false ->
  exists n rest, Process SC ic ins order = rest (augment_loop SC n (F0_of SC ic) false (P0_of SC) order).
Proof.
  intros SC ic ins order H1 H2. unfold Process. rewrite H1. cbn [negb]. cbv zeta. rewrite H2.
  fold (F0_of SC ic). fold (P0_of SC).
  match goal with
  | |- context [augment_loop SC ?n (F0_of SC ic) false (P0_of SC) order] =>
    exists n;
    match goal with
    | |- exists rest, ?lhs = _ =>
      let f := eval pattern (augment_loop SC n (F0_of SC ic) false (P0_of SC) order) in lhs in
      match f with ?g _ => exists g end
    end
  end.
  reflexivity.
Qed.

(* ================================================================== Part 3: fold_perm *)
(* ------------------------------------------------------------------ fold_perm *)
(* folding a step function whose applications commute (up to R) over two permutations of a list gives R-related
   results: the tool by which a `range` over a Go map is shown independent of the iteration order *)
Lemma commute_on_perm : forall A B (R : A -> A -> Prop) (f : A -> B -> A) l l',
  Permutation l l' -> commute_on R f l -> commute_on R f l'.
Proof.
  intros A B R f l l' Hp Hc b c Hb Hc'.
  apply Hc; [exact (Permutation_in _ (Permutation_sym Hp) Hb)|exact (Permutation_in _ (Permutation_sym Hp) Hc')].
Qed.

Lemma commute_on_tail : forall A B (R : A -> A -> Prop) (f : A -> B -> A) x l,
  commute_on R f (x :: l) -> commute_on R f l.
Proof. intros A B R f x l Hc b c Hb Hc'. apply Hc; right; assumption. Qed.

Section FoldPerm.
Context {A B : Type} (R : A -> A -> Prop) (f : A -> B -> A).
Hypothesis R_refl : forall a, R a a.
Hypothesis R_trans : forall a b c, R a b -> R b c -> R a c.
Hypothesis f_proper : forall a a' b, R a a' -> R (f a b) (f a' b).

Lemma fold_left_proper : forall l a a', R a a' -> R (fold_left f l a) (fold_left f l a').
Proof. induction l as [|x l IH]; intros a a' H; cbn [fold_left]; auto. Qed.

Lemma fold_perm : forall l l', Permutation l l' -> commute_on R f l ->
  forall a a', R a a' -> R (fold_left f l a) (fold_left f l' a').
Proof.
  intros l l' Hp. induction Hp as [|x l l' Hp IH|x y l|l l' l'' Hp1 IH1 Hp2 IH2]; intros Hc a a' Ha.
  - exact Ha.
  - cbn [fold_left]. apply IH; [eapply commute_on_tail; eauto|auto].
  - cbn [fold_left].
    destruct (Hc y x (or_introl eq_refl) (or_intror (or_introl eq_refl))) as [E|Hyx].
    + subst y. apply fold_left_proper. auto.
    + eapply R_trans; [apply fold_left_proper; apply Hyx|]. apply fold_left_proper. auto.
  - eapply R_trans; [apply IH1; [exact Hc|exact Ha]|].
    apply IH2; [eapply commute_on_perm; eauto|apply R_refl].
Qed.
End FoldPerm.

(* with equality as the equivalence *)
Lemma fold_perm_eq : forall A B (f : A -> B -> A) l l', Permutation l l' ->
  (forall a b c, f (f a b) c = f (f a c) b) -> forall a, fold_left f l a = fold_left f l' a.
Proof.
  intros A B f l l' Hp Hc a. apply (fold_perm eq f); auto; try congruence.
  intros b c _ _. right. intro a0. apply Hc.
Qed.

(* forallb / existsb are such folds *)
Lemma forallb_fold : forall A (p : A -> bool) l acc, fold_left (fun a x => a && p x) l acc = acc && forallb p l.
Proof.
  induction l as [|x l IH]; intro acc; cbn [fold_left forallb]; [rewrite andb_true_r; reflexivity|].
  rewrite IH, andb_assoc. reflexivity.
Qed.
Lemma existsb_fold : forall A (p : A -> bool) l acc, fold_left (fun a x => a || p x) l acc = acc || existsb p l.
Proof.
  induction l as [|x l IH]; intro acc; cbn [fold_left existsb]; [rewrite orb_false_r; reflexivity|].
  rewrite IH, orb_assoc. reflexivity.
Qed.

Lemma forallb_perm_fold : forall A (p : A -> bool) l l', Permutation l l' -> forallb p l = forallb p l'.
Proof.
  intros A p l l' Hp.
  assert (H := fold_perm_eq _ _ (fun a x => a && p x) l l' Hp
                 ltac:(intros; cbv beta; rewrite <- !andb_assoc, (andb_comm (p b)); reflexivity) true).
  rewrite !forallb_fold in H. exact H.
Qed.
Lemma existsb_perm_fold : forall A (p : A -> bool) l l', Permutation l l' -> existsb p l = existsb p l'.
Proof.
  intros A p l l' Hp.
  assert (H := fold_perm_eq _ _ (fun a x => a || p x) l l' Hp
                 ltac:(intros; cbv beta; rewrite <- !orb_assoc, (orb_comm (p b)); reflexivity) false).
  rewrite !existsb_fold in H. exact H.
Qed.

(* ------------------------------------------------------------------ Entry.merge over a permuted Dir *)
Lemma lookup_none_iff : forall A k (F : list (str * A)), lookup k F = None <-> ~ In k (map fst F).
Proof.
  intros A k F. split; [|apply lookup_notin].
  induction F as [|[k' v] F IH]; cbn [lookup map In fst]; intros H; [tauto|].
  destruct (str_eqb k k') eqn:E; [discriminate|].
  intros [C|C]; [subst k'; rewrite str_eqb_refl in E; discriminate|]. apply IH; assumption.
Qed.

Lemma lookup_none_perm : forall A k (F F' : list (str * A)), Permutation F F' ->
  (lookup k F = None <-> lookup k F' = None).
Proof.
  intros A k F F' Hp. rewrite !lookup_none_iff.
  assert (Hm : Permutation (map fst F) (map fst F')) by (apply Permutation_map; exact Hp).
  split; intros H C; apply H.
  - exact (Permutation_in _ (Permutation_sym Hm) C).
  - exact (Permutation_in _ Hm C).
Qed.

Lemma lookup_app_one : forall A k k' (v : A) (F : list (str * A)),
  lookup k (F ++ [(k', v)]) = match lookup k F with Some x => Some x | None => if str_eqb k k' then Some v else None end.
Proof.
  intros A k k' v F. induction F as [|[k2 v2] F IH]; cbn [lookup app]; [reflexivity|].
  destruct (str_eqb k k2); [reflexivity|exact IH].
Qed.

Definition merge_step (ns : option str) (a : list (str * entry) * bool) (kv : str * entry) : list (str * entry) * bool :=
  let '(d, err) := a in
  match lookup (fst kv) d with
  | Some _ => (d, true)
  | None => (d ++ [(fst kv, match ns with Some _ => set_ns (snd kv) ns | None => snd kv end)], err)
  end.

Lemma merge_dir_fold : forall acc ns oe, merge_dir acc ns oe = fold_left (merge_step ns) oe acc.
Proof. reflexivity. Qed.

Lemma dir_equiv_refl : forall a, dir_equiv a a.
Proof. intro a. split; [apply Permutation_refl|reflexivity]. Qed.
Lemma dir_equiv_trans : forall a b c, dir_equiv a b -> dir_equiv b c -> dir_equiv a c.
Proof. intros a b c [H1 H2] [H3 H4]. split; [eapply perm_trans; eauto|congruence]. Qed.

Lemma merge_step_proper : forall ns a a' kv, dir_equiv a a' -> dir_equiv (merge_step ns a kv) (merge_step ns a' kv).
Proof.
  intros ns [d e] [d' e'] kv [Hp He]. cbn [fst snd] in Hp, He. subst e'. unfold merge_step.
  pose proof (lookup_none_perm _ (fst kv) d d' Hp) as Hn.
  destruct (lookup (fst kv) d) eqn:E1; destruct (lookup (fst kv) d') eqn:E2.
  - split; [exact Hp|reflexivity].
  - exfalso. assert (C : Some e0 = None) by (apply Hn; reflexivity). discriminate.
  - exfalso. assert (C : Some e0 = None) by (apply Hn; reflexivity). discriminate.
  - split; cbn [fst snd]; [apply Permutation_app_tail; exact Hp|reflexivity].
Qed.

Lemma merge_step_some : forall ns d e k v x, lookup k d = Some x -> merge_step ns (d, e) (k, v) = (d, true).
Proof. intros ns d e k v x H. unfold merge_step. cbn [fst snd]. rewrite H. reflexivity. Qed.
Lemma merge_step_none : forall ns d e k v, lookup k d = None ->
  merge_step ns (d, e) (k, v) = (d ++ [(k, match ns with Some _ => set_ns v ns | None => v end)], e).
Proof. intros ns d e k v H. unfold merge_step. cbn [fst snd]. rewrite H. reflexivity. Qed.

Lemma merge_step_commute : forall ns a b c, fst b <> fst c ->
  dir_equiv (merge_step ns (merge_step ns a b) c) (merge_step ns (merge_step ns a c) b).
Proof.
  intros ns [d e] [kb vb] [kc vc] Hne. cbn [fst] in Hne.
  assert (Ebc : str_eqb kb kc = false).
  { destruct (str_eqb kb kc) eqn:E; [apply str_eqb_eq in E; congruence|reflexivity]. }
  assert (Ecb : str_eqb kc kb = false).
  { destruct (str_eqb kc kb) eqn:E; [apply str_eqb_eq in E; congruence|reflexivity]. }
  destruct (lookup kb d) eqn:Lb; destruct (lookup kc d) eqn:Lc.
  - rewrite (merge_step_some ns d e kb vb _ Lb), (merge_step_some ns d e kc vc _ Lc).
    rewrite (merge_step_some ns d true kb vb _ Lb), (merge_step_some ns d true kc vc _ Lc). apply dir_equiv_refl.
  - rewrite (merge_step_some ns d e kb vb _ Lb), (merge_step_none ns d e kc vc Lc).
    rewrite (merge_step_none ns d true kc vc Lc).
    erewrite merge_step_some; [apply dir_equiv_refl|]. rewrite lookup_app_one, Lb. reflexivity.
  - rewrite (merge_step_none ns d e kb vb Lb), (merge_step_some ns d e kc vc _ Lc).
    rewrite (merge_step_none ns d true kb vb Lb).
    erewrite merge_step_some; [apply dir_equiv_refl|]. rewrite lookup_app_one, Lc. reflexivity.
  - rewrite (merge_step_none ns d e kb vb Lb), (merge_step_none ns d e kc vc Lc).
    rewrite merge_step_none by (rewrite lookup_app_one, Lc, Ecb; reflexivity).
    rewrite merge_step_none by (rewrite lookup_app_one, Lb, Ebc; reflexivity).
    split; cbn [fst snd]; [|reflexivity].
    rewrite <- !app_assoc. apply Permutation_app_head. cbn [app]. apply perm_swap.
Qed.

Lemma NoDup_map_inj : forall A B (g : A -> B) l x y, NoDup (map g l) -> In x l -> In y l -> g x = g y -> x = y.
Proof.
  intros A B g l. induction l as [|z l IH]; intros x y Hnd Hx Hy E; [destruct Hx|].
  cbn [map] in Hnd. inversion Hnd as [|? ? Hnin Hnd']; subst.
  destruct Hx as [->|Hx]; destruct Hy as [->|Hy]; auto.
  - exfalso. apply Hnin. rewrite E. apply in_map. exact Hy.
  - exfalso. apply Hnin. rewrite <- E. apply in_map. exact Hx.
Qed.

(* Entry.merge ranges over oe.Dir, a Go map (its keys are distinct): whatever the iteration order, the receiving
   Dir ends up with the same bindings and the same error flag *)
Lemma merge_dir_perm : forall ns oe oe' acc acc', NoDup (map fst oe) -> Permutation oe oe' -> dir_equiv acc acc' ->
  dir_equiv (merge_dir acc ns oe) (merge_dir acc' ns oe').
Proof.
  intros ns oe oe' acc acc' Hnd Hp Ha. rewrite !merge_dir_fold.
  apply (fold_perm dir_equiv (merge_step ns) dir_equiv_refl dir_equiv_trans (merge_step_proper ns)); auto.
  intros b c Hb Hc.
  destruct (list_eq_dec N.eq_dec (fst b) (fst c)) as [E|E].
  - left. eapply NoDup_map_inj; eauto.
  - right. intro a. apply merge_step_commute. exact E.
Qed.

(* both iteration orders agree on every key that is looked up afterwards *)
Lemma merge_dir_perm_keys : forall ns oe oe' acc, NoDup (map fst oe) -> Permutation oe oe' ->
  forall k, In k (map fst (fst (merge_dir acc ns oe))) <-> In k (map fst (fst (merge_dir acc ns oe'))).
Proof.
  intros ns oe oe' acc Hnd Hp k.
  destruct (merge_dir_perm ns oe oe' acc acc Hnd Hp (dir_equiv_refl acc)) as [H _].
  assert (Hm := Permutation_map fst H).
  split; intro Hin.
  - exact (Permutation_in _ Hm Hin).
  - exact (Permutation_in _ (Permutation_sym Hm) Hin).
Qed.

(* ================================================================== statements in the form Properties/C05.v cites *)
Lemma module_entry_perm : forall SC SC', distinct_names SC -> Permutation SC SC' -> forall ic m,
  module_entry SC' ic m = module_entry SC ic m.
Proof.
  intros SC SC' Hnd Hp ic m.
  exact (module_entry_cong SC SC' (find_module_perm SC SC' Hnd Hp) (length_perm SC SC' Hp) (entry_fuel_perm SC SC' Hp) ic m).
Qed.

Lemma F0_perm_lookup : forall SC SC', distinct_names SC -> Permutation SC SC' -> forall ic,
  Permutation (F0_of SC ic) (F0_of SC' ic) /\ lookup_equiv (F0_of SC ic) (F0_of SC' ic).
Proof. intros SC SC' Hnd Hp ic. exact (conj (F0_perm SC SC' Hnd Hp ic) (F0_lookup_equiv SC SC' Hnd Hp ic)). Qed.

Lemma P0_perm_lookup : forall SC SC', distinct_names SC -> Permutation SC SC' ->
  Permutation (P0_of SC) (P0_of SC') /\ lookup_equiv (P0_of SC) (P0_of SC').
Proof. intros SC SC' Hnd Hp. exact (conj (P0_perm SC SC' Hnd Hp) (P0_lookup_equiv SC SC' Hnd Hp)). Qed.
