(* C13 (c): an included submodule contributes its statements to the including module as if
   they were written there -- on the core resolver model (Model/Schema.v).

   [unsplit SC m] moves the body statements (data nodes and groupings), augments and
   deviations of every submodule reachable from m through includes into m (depth first, in
   include order, every submodule once) and drops the includes; [unsplit_schema SC m] is SC
   with m replaced by [unsplit SC m] and those submodules emptied.

   The generic part (Section Generic) reduces everything to two facts about the include graph: the
   module-level grouping lookup agrees (LK) and module_dir merges the submodules one after the other
   (HS).  They are proved here for direct includes ([flat_family]) and in IncludeNestedProofs.v for
   every acyclic include graph ([nested_family]).  Typedefs and identities of submodules are not part of Model/Schema.v: they are
   Model/Types.v (C09) and Model/Identity.v (C11). *)
From Coq Require Import List Arith NArith Bool Lia Permutation.
Import ListNotations.
From GY Require Import Model.Schema.

(* ------------------------------------------------------------------ unsplit *)

Fixpoint subs_of (fuel : nat) (SC : schema) (seen : list str) (incs : list str) : list module * list str :=
  match fuel with
  | O => ([], seen)
  | S f =>
    fold_left (fun st sn =>
                 let '(acc, seen) := st in
                 if mem sn seen then st
                 else match find_module SC sn with
                      | None => (acc, seen)
                      | Some sm =>
                        let '(below, seen') := subs_of f SC (sn :: seen) (m_includes sm) in
                        (acc ++ sm :: below, seen')
                      end) incs ([], seen)
  end.

Definition reachable_subs (SC : schema) (m : module) : list module :=
  fst (subs_of (S (length SC)) SC [m_name m] (m_includes m)).

Definition absorb (m : module) (subs : list module) : module :=
  {| m_name := m_name m; m_prefix := m_prefix m; m_ns := m_ns m; m_belongs := m_belongs m;
     m_imports := m_imports m; m_includes := [];
     m_body := m_body m ++ flat_map m_body subs;
     m_augments := m_augments m ++ flat_map m_augments subs;
     m_deviations := m_deviations m ++ flat_map m_deviations subs |}.

Definition unsplit (SC : schema) (m : module) : module := absorb m (reachable_subs SC m).

Definition emptied (s : module) : module :=
  {| m_name := m_name s; m_prefix := m_prefix s; m_ns := m_ns s; m_belongs := m_belongs s;
     m_imports := m_imports s; m_includes := []; m_body := []; m_augments := []; m_deviations := [] |}.

Definition replace_family (m' : module) (subs : list module) (x : module) : module :=
  if str_eqb (m_name x) (m_name m') then m'
  else if mem (m_name x) (map m_name subs) then emptied x else x.

Definition unsplit_schema (SC : schema) (m : module) : schema :=
  map (replace_family (unsplit SC m) (reachable_subs SC m)) SC.

(* ------------------------------------------------------------------ strings *)

Lemma str_eqb_refl : forall s, str_eqb s s = true.
Proof. induction s as [|x s IH]; simpl; [reflexivity|]. rewrite N.eqb_refl, IH. reflexivity. Qed.

Lemma str_eqb_eq : forall a b, str_eqb a b = true <-> a = b.
Proof.
  induction a as [|x a IH]; intros [|y b]; simpl; split; intros H; try discriminate; try reflexivity.
  - apply andb_true_iff in H. destruct H as [H1 H2]. apply N.eqb_eq in H1. apply IH in H2. congruence.
  - inversion H; subst. rewrite N.eqb_refl. simpl. apply str_eqb_refl.
Qed.

Lemma str_eqb_neq : forall a b, str_eqb a b = false <-> a <> b.
Proof.
  intros a b. split.
  - intros H E. apply str_eqb_eq in E. congruence.
  - intros H. destruct (str_eqb a b) eqn:E; [|reflexivity]. apply str_eqb_eq in E. contradiction.
Qed.

Lemma str_eqb_sym : forall a b, str_eqb a b = str_eqb b a.
Proof.
  intros a b. destruct (str_eqb a b) eqn:E.
  - apply str_eqb_eq in E. subst. symmetry. apply str_eqb_refl.
  - symmetry. apply str_eqb_neq. apply str_eqb_neq in E. congruence.
Qed.

Definition no_colon (s : str) : bool := forallb (fun c => negb (N.eqb c cCOLON)) s.

Lemma has_prefix_colon : forall p s, no_colon s = true -> has_prefix (p ++ [cCOLON]) s = false.
Proof.
  induction p as [|x p IH]; intros [|y s] H; cbn [app has_prefix]; try reflexivity;
    unfold no_colon in H; cbn [forallb] in H; apply andb_true_iff in H; destruct H as [H1 H2].
  - rewrite N.eqb_sym. apply negb_true_iff in H1. rewrite H1. reflexivity.
  - rewrite (IH s H2). apply andb_false_r.
Qed.

Lemma trim_no_colon : forall p s, no_colon s = true -> trim_prefix (p ++ [cCOLON]) s = s.
Proof. intros. unfold trim_prefix. rewrite has_prefix_colon by assumption. reflexivity. Qed.

Lemma mem_in : forall k l, mem k l = true <-> In k l.
Proof.
  intros k l. unfold mem. rewrite existsb_exists. split.
  - intros (x & Hx & E). apply str_eqb_eq in E. subst. exact Hx.
  - intros H. exists k. split; [exact H|apply str_eqb_refl].
Qed.

Lemma key2_inj_l : forall a a' b, key2 a b = key2 a' b -> a = a'.
Proof. unfold key2. intros a a' b H. apply app_inv_tail in H. exact H. Qed.

Lemma key2_inj : forall a b a' b', no_colon a = true -> no_colon a' = true ->
  key2 a b = key2 a' b' -> a = a' /\ b = b'.
Proof.
  unfold key2, no_colon. induction a as [|x a IH]; intros b [|y a'] b' H1 H2 E;
    cbn [app forallb] in *.
  - inversion E. auto.
  - inversion E; subst. rewrite N.eqb_refl in H2. discriminate.
  - inversion E; subst. rewrite N.eqb_refl in H1. discriminate.
  - inversion E; subst. apply andb_true_iff in H1. apply andb_true_iff in H2.
    destruct (IH b a' b') as [A B]; try tauto. subst. auto.
Qed.

(* ------------------------------------------------------------------ lookup *)

Lemma lookup_snoc : forall (A : Type) k (d : list (str * A)) k' v,
  lookup k (d ++ [(k', v)]) =
  match lookup k d with Some x => Some x | None => if str_eqb k k' then Some v else None end.
Proof.
  induction d as [|[k0 v0] d IH]; intros k' v; simpl; [reflexivity|].
  destruct (str_eqb k k0); [reflexivity|apply IH].
Qed.

(* ------------------------------------------------------------------ directory building as actions *)

Inductive action :=
| AAdd (k : str) (b : built)
| AErr (e : bool).

Definition run_act (acc : list (str * entry) * bool) (a : action) : list (str * entry) * bool :=
  match a with
  | AAdd k b => add_child acc k b
  | AErr e => (fst acc, snd acc || e)
  end.

Definition adds_of (d : list (str * entry)) : list action := map (fun kv => AAdd (fst kv) (snd kv, false)) d.

Lemma merge_dir_adds : forall od acc, merge_dir acc None od = fold_left run_act (adds_of od) acc.
Proof.
  unfold merge_dir. induction od as [|[k v] od IH]; intros [d e]; simpl; [reflexivity|].
  rewrite <- IH. destruct (lookup k d); [reflexivity|]. rewrite orb_false_r. reflexivity.
Qed.

Lemma adds_keys : forall od d e k,
  lookup k (fst (fold_left run_act (adds_of od) (d, e))) = None <->
  lookup k d = None /\ lookup k od = None.
Proof.
  induction od as [|[k0 v0] od IH]; intros d e k; simpl.
  - tauto.
  - destruct (lookup k0 d) eqn:L0.
    + rewrite IH. split; intros [A B]; split; auto.
      * destruct (str_eqb k k0) eqn:E; [|exact B]. apply str_eqb_eq in E. subst. congruence.
      * destruct (str_eqb k k0) eqn:E; [discriminate|exact B].
    + rewrite IH, lookup_snoc. destruct (lookup k d); [split; intros [A B]; discriminate|].
      destruct (str_eqb k k0); split; intros [A B]; try discriminate; auto.
Qed.

(* running a list of actions on a non-empty accumulator = running it on the empty one and
   merging the result: same directory, same error flag *)
Lemma run_split : forall A acc,
  fold_left run_act A acc =
  let '(sd, serr) := fold_left run_act A ([], false) in
  let '(d, e) := fold_left run_act (adds_of sd) acc in (d, e || serr).
Proof.
  induction A as [|a A IH] using rev_ind; intros [d0 e0].
  - simpl. rewrite orb_false_r. reflexivity.
  - rewrite !fold_left_app. simpl. rewrite (IH (d0, e0)).
    destruct (fold_left run_act A ([], false)) as [sd serr] eqn:ES.
    destruct (fold_left run_act (adds_of sd) (d0, e0)) as [dm em] eqn:EM.
    pose proof (adds_keys sd d0 e0) as K. rewrite EM in K. simpl in K.
    destruct a as [k [eb berr]|e]; simpl.
    + destruct (lookup k sd) eqn:Ls.
      * (* duplicate inside the part *)
        assert (lookup k dm <> None) as Hd.
        { intros C. apply K in C. destruct C. congruence. }
        destruct (lookup k dm); [|contradiction]. rewrite EM. rewrite orb_true_r. reflexivity.
      * unfold adds_of. rewrite map_app, fold_left_app. fold (adds_of sd). rewrite EM. simpl.
        destruct (lookup k dm) eqn:Ld.
        -- rewrite orb_true_l. reflexivity.
        -- rewrite orb_false_r, orb_assoc. reflexivity.
    + rewrite EM. rewrite orb_assoc. reflexivity.
Qed.

(* ------------------------------------------------------------------ ToEntry, one level unfolded *)

Definition body_step (SC : schema) (f : nat) (c' : gctx) (busy : list nat)
  (acc : list (str * entry) * bool) (ch : dnode) : list (str * entry) * bool :=
  match ch with
  | DGrouping gid _ gb => let '(_, e) := to_entry SC f c' busy ch in (fst acc, snd acc || e)
  | DUses g =>
      match FindGrouping SC c' g with
      | None => (fst acc, true)
      | Some (gid, gb, gc) =>
        if existsb (Nat.eqb gid) busy then (fst acc, true)
        else
          let '(ge, gerr) := to_entry SC f gc (gid :: busy) (DGrouping gid [] gb) in
          let '(d, e) := merge_dir acc None (match e_dir ge with Some d => d | None => [] end) in
          (d, e || gerr)
      end
  | _ => let b := to_entry SC f c' busy ch in add_child acc (e_name (fst b)) b
  end.

Definition body_dir (SC : schema) (f : nat) (c : gctx) (busy : list nat) (body : list dnode)
  : list (str * entry) * bool :=
  fold_left (body_step SC f {| g_mod := g_mod c; g_scopes := body :: g_scopes c |} busy) body ([], false).

Definition io_entry (SC : schema) (f : nat) (c : gctx) (busy : list nat) (k : ekind) (nm : str)
  (b : option (list dnode)) : option entry * bool :=
  match b with
  | None => (None, false)
  | Some body => let '(d, e) := body_dir SC f c busy body in
                 (Some (Entry nm k TSUnset TSUnset [] [] None [] None None (Some d) None), e)
  end.

Lemma to_entry_S : forall SC f c busy n,
  to_entry SC (S f) c busy n =
  match n with
  | DLeaf name ty cfg mand dflt units =>
      leaf_entry name ty cfg mand (match dflt with Some d => [d] | None => [] end) units
  | DLeafList name ty cfg dflts minE maxE =>
      let '(mx, bad) := semCheckMax maxE in
      (Entry name KLeaf cfg TSUnset dflts [] (Some ty) [] (Some (semCheckMin minE, mx, (is_some minE, is_some maxE))) None None None,
       negb (is_builtin ty) || bad)
  | DContainer name cfg body =>
      let '(d, e) := body_dir SC f c busy body in
      (Entry name KDir cfg TSUnset [] [] None [] None None (Some d) None, e)
  | DList name key cfg minE maxE body =>
      let '(d, e) := body_dir SC f c busy body in
      let '(mx, bad) := semCheckMax maxE in
      (Entry name KDir cfg TSUnset [] [] None (match key with Some k => k | None => [] end)
             (Some (semCheckMin minE, mx, (is_some minE, is_some maxE))) None (Some d) None, e || bad)
  | DChoice name cfg mand dflt body =>
      let '(d, e) := body_dir SC f c busy body in
      (Entry name KChoice cfg mand (match dflt with Some x => [x] | None => [] end) [] None [] None None (Some d) None, e)
  | DCase name body =>
      let '(d, e) := body_dir SC f c busy body in
      (Entry name KCase TSUnset TSUnset [] [] None [] None None (Some d) None, e)
  | DAny xml name cfg mand =>
      (Entry name (if xml then KAnyXML else KAnyData) cfg mand [] [] None [] None None (Some []) None, false)
  | DUses g => (newDirectory g, true)
  | DGrouping gid name body =>
      let '(d, e) := body_dir SC f c busy body in
      (Entry name KDir TSUnset TSUnset [] [] None [] None None (Some d) None, e)
  | DRpc action name input output =>
      let '(i, ei) := io_entry SC f c busy KInput s_input input in
      let '(o, eo) := io_entry SC f c busy KOutput s_output output in
      let r := match i, o with
               | None, None => Some (None, None)
               | _, _ => Some (i, o)
               end in
      (Entry name KDir TSUnset TSUnset [] [] None [] None None (Some []) r, ei || eo)
  | DNotification name body =>
      let '(d, e) := body_dir SC f c busy body in
      (Entry name KNotification TSUnset TSUnset [] [] None [] None None (Some d) None, e)
  end.
Proof. intros. destruct n; reflexivity. Qed.

(* ------------------------------------------------------------------ find_grouping_mod for local names *)

Fixpoint incl_walk (f : nat) (SC : schema) (name : str) (is : list str) (seen : list str)
  : option found_grouping * list str :=
  match is with
  | [] => (None, seen)
  | sn :: r =>
    if existsb (str_eqb sn) seen then incl_walk f SC name r seen
    else match find_module SC sn with
         | Some sm =>
           match find_grouping_mod f SC sm true name (sn :: seen) with
           | (Some g, seen') => (Some g, seen')
           | (None, seen') => incl_walk f SC name r seen'
           end
         | None => incl_walk f SC name r (sn :: seen)
         end
  end.

Lemma imp_none : forall SC f name, no_colon name = true -> forall (is : list (str * str)) seen,
  (fix go (is : list (str * str)) (seen : list str) : option found_grouping * list str :=
     match is with
     | [] => (None, seen)
     | (p, mn) :: r =>
       if has_prefix (p ++ [cCOLON]) name then
         match find_module SC mn with
         | Some im =>
           match find_grouping_mod f SC im true (trim_prefix (p ++ [cCOLON]) name) seen with
           | (Some g, seen') => (Some g, seen')
           | (None, seen') => go r seen'
           end
         | None => go r seen
         end
       else go r seen
     end) is seen = (None, seen).
Proof.
  intros SC f name H. induction is as [|[p mn] r IH]; intros seen; [reflexivity|].
  rewrite has_prefix_colon by exact H. apply IH.
Qed.

(* a colon-free name is looked up in the module's own groupings, then in its includes *)
Lemma fgm_local : forall SC f X (trim : bool) name seen,
  no_colon name = true ->
  find_grouping_mod (S f) SC X trim name seen =
  match find_in name (groupings_of (m_body X)) with
  | Some (gid, b) => (Some (gid, b, {| g_mod := X; g_scopes := [m_body X] |}), seen)
  | None => incl_walk f SC name (m_includes X) seen
  end.
Proof.
  intros SC f X trim name seen H. cbn [find_grouping_mod].
  assert (T : (if trim then trim_prefix (m_prefix X ++ [cCOLON]) name else name) = name).
  { destruct trim; [apply trim_no_colon; exact H|reflexivity]. }
  rewrite T. destruct (find_in name (groupings_of (m_body X))) as [[gid b]|]; [reflexivity|].
  rewrite (imp_none SC f name H).
  generalize (m_includes X) seen. induction l as [|sn r IH]; intros sn0; [reflexivity|].
  cbn [incl_walk]. destruct (existsb (str_eqb sn) sn0); [apply IH|].
  destruct (find_module SC sn); [|apply IH].
  destruct (find_grouping_mod f SC m true name (sn :: sn0)) as [[g|] seen']; [reflexivity|apply IH].
Qed.

(* ------------------------------------------------------------------ a predicate on all uses names *)

Fixpoint okn (P : str -> bool) (n : dnode) : bool :=
  let fix okl (l : list dnode) : bool := match l with [] => true | x :: r => okn P x && okl r end in
  match n with
  | DUses g => P g
  | DContainer _ _ b | DList _ _ _ _ _ b | DChoice _ _ _ _ b | DCase _ b | DGrouping _ _ b
  | DNotification _ b => okl b
  | DRpc _ _ i o => (match i with Some b => okl b | None => true end) &&
                    (match o with Some b => okl b | None => true end)
  | _ => true
  end.

Lemma okl_forallb : forall P l,
  (fix okl (l : list dnode) : bool := match l with [] => true | x :: r => okn P x && okl r end) l
  = forallb (okn P) l.
Proof. induction l as [|x r IH]; [reflexivity|]. cbn [forallb]. rewrite <- IH. reflexivity. Qed.

Definition okb (P : str -> bool) (l : list dnode) : bool := forallb (okn P) l.

Lemma okn_body : forall P n,
  okn P n = match n with
            | DUses g => P g
            | DContainer _ _ b | DList _ _ _ _ _ b | DChoice _ _ _ _ b | DCase _ b | DGrouping _ _ b
            | DNotification _ b => okb P b
            | DRpc _ _ i o => (match i with Some b => okb P b | None => true end) &&
                              (match o with Some b => okb P b | None => true end)
            | _ => true
            end.
Proof.
  intros P n. unfold okb. destruct n; cbn [okn]; rewrite ?okl_forallb; try reflexivity.
Qed.

Lemma find_in_groupings : forall name body gid b,
  find_in name (groupings_of body) = Some (gid, b) -> exists n, In (DGrouping gid n b) body.
Proof.
  induction body as [|x body IH]; intros gid b H; [discriminate|].
  destruct x; cbn [groupings_of] in H; try (destruct (IH gid b H) as [n Hn]; exists n; right; exact Hn).
  cbn [find_in] in H. destruct (str_eqb name0 name).
  - inversion H; subst. exists name0. left. reflexivity.
  - destruct (IH gid b H) as [n Hn]. exists n. right. exact Hn.
Qed.

Lemma okb_grouping : forall P body name gid b,
  okb P body = true -> find_in name (groupings_of body) = Some (gid, b) -> okb P b = true.
Proof.
  intros P body name gid b H F. destruct (find_in_groupings _ _ _ _ F) as [n Hn].
  unfold okb in H. rewrite forallb_forall in H. specialize (H _ Hn). rewrite okn_body in H. exact H.
Qed.

Lemma groupings_of_app : forall a b, groupings_of (a ++ b) = groupings_of a ++ groupings_of b.
Proof.
  induction a as [|x a IH]; intros b; [reflexivity|].
  destruct x; cbn [app groupings_of]; rewrite ?IH; reflexivity.
Qed.

Lemma find_in_app : forall name a b,
  find_in name (a ++ b) = match find_in name a with Some r => Some r | None => find_in name b end.
Proof.
  induction a as [|[[gid n] bd] a IH]; intros b; [reflexivity|].
  cbn [app find_in]. destruct (str_eqb n name); [reflexivity|apply IH].
Qed.

Definition top_names (X : module) : list str := map (fun g => snd (fst g)) (groupings_of (m_body X)).

Lemma find_in_none : forall name gs,
  mem name (map (fun g : nat * str * list dnode => snd (fst g)) gs) = false -> find_in name gs = None.
Proof.
  induction gs as [|[[gid n] bd] gs IH]; intros H; [reflexivity|].
  cbn [map mem existsb fst snd] in H. apply orb_false_iff in H. destruct H as [H1 H2].
  cbn [find_in]. rewrite str_eqb_sym, H1. apply IH. exact H2.
Qed.

(* ------------------------------------------------------------------ module sets *)

Lemma find_module_in : forall SC x, NoDup (map m_name SC) -> In x SC -> find_module SC (m_name x) = Some x.
Proof.
  induction SC as [|y SC IH]; intros x N H; [destruct H|].
  cbn [map] in N. inversion N as [|? ? Ny Nr]; subst. cbn [find_module].
  destruct H as [->|H]; [rewrite str_eqb_refl; reflexivity|].
  destruct (str_eqb (m_name y) (m_name x)) eqn:E; [|apply IH; assumption].
  apply str_eqb_eq in E. exfalso. apply Ny. rewrite E. apply in_map. exact H.
Qed.

Lemma find_module_map : forall (g : module -> module) SC n,
  (forall x, m_name (g x) = m_name x) ->
  find_module (map g SC) n = option_map g (find_module SC n).
Proof.
  intros g SC n Hg. induction SC as [|y SC IH]; [reflexivity|].
  cbn [map find_module]. rewrite Hg. destruct (str_eqb (m_name y) n); [reflexivity|exact IH].
Qed.

Lemma NoDup_map_inj : forall (A B : Type) (f : A -> B) l a b,
  NoDup (map f l) -> In a l -> In b l -> f a = f b -> a = b.
Proof.
  induction l as [|x l IH]; intros a b N Ha Hb E; [destruct Ha|].
  simpl in N. inversion N as [|? ? Nx Nl]; subst.
  destruct Ha as [<-|Ha], Hb as [<-|Hb]; auto.
  - exfalso. apply Nx. rewrite E. apply in_map. exact Hb.
  - exfalso. apply Nx. rewrite <- E. apply in_map. exact Ha.
Qed.

Fixpoint find_part (u : str) (ps : list module) : option (nat * list dnode * module) :=
  match ps with
  | [] => None
  | s :: r => match find_in u (groupings_of (m_body s)) with
              | Some (gid, b) => Some (gid, b, s)
              | None => find_part u r
              end
  end.

Lemma find_in_flat : forall u ps,
  find_in u (flat_map (fun s => groupings_of (m_body s)) ps) =
  match find_part u ps with Some (gid, b, _) => Some (gid, b) | None => None end.
Proof.
  induction ps as [|s r IH]; [reflexivity|]. cbn [flat_map find_part]. rewrite find_in_app.
  destruct (find_in u (groupings_of (m_body s))) as [[gid b]|]; [reflexivity|exact IH].
Qed.

Lemma groupings_flat : forall ps,
  groupings_of (flat_map m_body ps) = flat_map (fun s => groupings_of (m_body s)) ps.
Proof.
  induction ps as [|s r IH]; [reflexivity|]. cbn [flat_map]. rewrite groupings_of_app, IH. reflexivity.
Qed.

Lemma find_part_none : forall u ps,
  (forall Y, In Y ps -> find_in u (groupings_of (m_body Y)) = None) -> find_part u ps = None.
Proof.
  induction ps as [|s r IH]; intros H; [reflexivity|]. cbn [find_part].
  rewrite (H s) by (left; reflexivity). apply IH. intros Y HY. apply H. right. exact HY.
Qed.

Lemma find_part_only : forall u s ps,
  (forall Y, In Y ps -> Y = s \/ find_in u (groupings_of (m_body Y)) = None) -> In s ps ->
  find_part u ps = match find_in u (groupings_of (m_body s)) with
                   | Some (gid, b) => Some (gid, b, s)
                   | None => None
                   end.
Proof.
  induction ps as [|y r IH]; intros H Hin; [destruct Hin|]. cbn [find_part].
  destruct (H y (or_introl eq_refl)) as [->|Hn].
  - destruct (find_in u (groupings_of (m_body s))) as [[gid b]|] eqn:E; [reflexivity|].
    apply find_part_none. intros Y HY. destruct (H Y (or_intror HY)) as [->|Hn]; assumption.
  - rewrite Hn. destruct Hin as [->|Hin].
    + rewrite Hn. apply find_part_none. intros Y HY. destruct (H Y (or_intror HY)) as [->|Hn']; assumption.
    + apply IH; [|exact Hin]. intros Y HY. apply H. right. exact HY.
Qed.

(* ------------------------------------------------------------------ a module and its direct submodules *)

Definition foreign (m : module) (subs : list module) (X : module) : list str :=
  flat_map (fun Y => if str_eqb (m_name Y) (m_name X) then [] else top_names Y) (m :: subs).

(* what is asked of a uses name written in part X: after trimming the family's prefix it has no
   prefix left (it does not name an imported grouping), and if X is a submodule it does not name
   a top-level grouping of another part (a submodule sees only what it declares itself) *)
Definition uses_ok (m : module) (subs : list module) (X : module) (u : str) : bool :=
  let u' := trim_prefix (m_prefix m ++ [cCOLON]) u in
  no_colon u' && (str_eqb (m_name X) (m_name m) || negb (mem u' (foreign m subs X))).

Definition part_ok (m : module) (subs : list module) (X : module) : bool :=
  okb (uses_ok m subs X) (m_body X) &&
  forallb (fun a => okb (uses_ok m subs X) (snd a)) (m_augments X).

Record flat_family (SC : schema) (m : module) (subs : list module) : Prop := {
  ff_names : NoDup (map m_name SC);
  ff_m : In m SC;
  ff_incl : m_includes m = map m_name subs;
  ff_nodup : NoDup (map m_name (m :: subs));
  ff_subs : Forall (fun s => In s SC /\ m_belongs s = Some (m_name m) /\ m_includes s = [] /\
                             m_prefix s = m_prefix m) subs;
  ff_colon : Forall (fun X => no_colon (m_name X) = true) (m :: subs);
  ff_ok : Forall (fun X => part_ok m subs X = true) (m :: subs) }.

Definition sumf {A} (w : A -> nat) (l : list A) : nat := fold_right (fun x n => w x + n) 0 l.

Lemma sumf_app : forall A (w : A -> nat) a b, sumf w (a ++ b) = sumf w a + sumf w b.
Proof. induction a as [|x a IH]; intros b; simpl; [reflexivity|]. rewrite IH. lia. Qed.

Lemma sumf_perm : forall A (w : A -> nat) a b, Permutation a b -> sumf w a = sumf w b.
Proof. induction 1; simpl; lia. Qed.

Lemma sumf_flat : forall A B (w : B -> nat) (g : A -> list B) l,
  sumf w (flat_map g l) = sumf (fun x => sumf w (g x)) l.
Proof. induction l as [|x l IH]; simpl; [reflexivity|]. rewrite sumf_app, IH. reflexivity. Qed.

Lemma sumf_map : forall A B (w : B -> nat) (g : A -> B) l, sumf w (map g l) = sumf (fun x => w (g x)) l.
Proof. induction l as [|x l IH]; simpl; [reflexivity|]. rewrite IH. reflexivity. Qed.

Lemma sumf_ext : forall A (w w' : A -> nat) l, (forall x, In x l -> w x = w' x) -> sumf w l = sumf w' l.
Proof.
  induction l as [|x l IH]; intros H; simpl; [reflexivity|].
  rewrite (H x (or_introl eq_refl)), IH; [reflexivity|]. intros y Hy. apply H. right. exact Hy.
Qed.

Lemma sumf_S : forall A (h : A -> nat) l, sumf (fun s => S (h s)) l = length l + sumf h l.
Proof. induction l as [|x l IH]; simpl; [reflexivity|]. rewrite IH. lia. Qed.

Lemma nodup_app : forall (A : Type) (a b : list A),
  NoDup a -> NoDup b -> (forall x, In x a -> In x b -> False) -> NoDup (a ++ b).
Proof.
  induction a as [|x a IH]; intros b Na Nb D; [exact Nb|]. inversion Na as [|? ? N1 N2]; subst.
  cbn [app]. constructor.
  - intros C. apply in_app_or in C. destruct C as [C|C]; [contradiction|]. apply (D x); [left; reflexivity|exact C].
  - apply IH; auto. intros y Hy. apply D. right. exact Hy.
Qed.

(* ------------------------------------------------------------------ statements as actions *)

Definition act_of (SC : schema) (f : nat) (c : gctx) (busy : list nat) (ch : dnode) : list action :=
  match ch with
  | DGrouping _ _ _ => [AErr (snd (to_entry SC f c busy ch))]
  | DUses g =>
      match FindGrouping SC c g with
      | None => [AErr true]
      | Some (gid, gb, gc) =>
        if existsb (Nat.eqb gid) busy then [AErr true]
        else let b := to_entry SC f gc (gid :: busy) (DGrouping gid [] gb) in
             adds_of (match e_dir (fst b) with Some d => d | None => [] end) ++ [AErr (snd b)]
      end
  | _ => let b := to_entry SC f c busy ch in [AAdd (e_name (fst b)) b]
  end.

Lemma body_step_act : forall SC f c busy acc ch,
  body_step SC f c busy acc ch = fold_left run_act (act_of SC f c busy ch) acc.
Proof.
  intros SC f c busy acc ch. destruct ch; try reflexivity.
  - cbn [body_step act_of]. destruct (FindGrouping SC c gname) as [[[gid gb] gc]|].
    + destruct (existsb (Nat.eqb gid) busy).
      * cbn [fold_left run_act]. rewrite orb_true_r. reflexivity.
      * destruct (to_entry SC f gc (gid :: busy) (DGrouping gid [] gb)) as [ge gerr]. cbn [fst snd].
        rewrite fold_left_app, <- merge_dir_adds.
        destruct (merge_dir acc None match e_dir ge with Some d => d | None => [] end) as [d e]. reflexivity.
    + cbn [fold_left run_act]. rewrite orb_true_r. reflexivity.
  - cbn [body_step act_of]. destruct (to_entry SC f c busy (DGrouping gid name body)) as [x e]. reflexivity.
Qed.

Lemma body_fold_act : forall SC f c busy l acc,
  fold_left (body_step SC f c busy) l acc = fold_left run_act (flat_map (act_of SC f c busy) l) acc.
Proof.
  intros SC f c busy. induction l as [|ch l IH]; intros acc; [reflexivity|].
  cbn [fold_left flat_map]. rewrite fold_left_app, <- body_step_act. apply IH.
Qed.

(* the statements of a part processed onto an accumulator = the part's own directory merged in *)
Lemma body_fold_merge : forall SC f c busy l acc,
  fold_left (body_step SC f c busy) l acc =
  let '(sd, serr) := fold_left (body_step SC f c busy) l ([], false) in
  let '(d, e) := merge_dir acc None sd in (d, e || serr).
Proof.
  intros. rewrite !body_fold_act, run_split.
  destruct (fold_left run_act (flat_map (act_of SC f c busy) l) ([], false)) as [sd serr].
  rewrite merge_dir_adds. reflexivity.
Qed.

(* ------------------------------------------------------------------ module_dir, one level unfolded *)

Definition inc_step (SC : schema) (ic : bool) (f : nat) (m : module)
  (st : (list (str * entry) * bool) * list str) (sn : str) : (list (str * entry) * bool) * list str :=
  let '(acc, merged) := st in
  match find_module SC sn with
  | None => ((fst acc, true), merged)
  | Some sm =>
    let srcToIncluded := key2 (m_name sm) (m_name m) in
    let includedToSrc := key2 (m_name m) (m_name sm) in
    if mem srcToIncluded merged then (acc, merged)
    else if negb (mem includedToSrc merged) && negb (str_eqb (m_name sm) (m_name m)) then
      let includedToParent := key2 (m_name sm) (match m_belongs sm with Some o => o | None => [] end) in
      if mem includedToParent merged then (acc, merged)
      else
        let '((sd, serr), merged') := module_dir SC ic f (srcToIncluded :: includedToParent :: merged) sm in
        let '(d, e) := merge_dir acc None sd in
        ((d, e || serr), merged')
    else if ic then (acc, merged)
    else ((fst acc, true), merged)
  end.

Definition own_dir (SC : schema) (m : module) : list (str * entry) * bool :=
  let '(me, err) := body_entry SC m [] (m_body m) in
  (match e_dir me with Some d => d | None => [] end, err).

Lemma module_dir_S : forall SC ic f merged m,
  module_dir SC ic (S f) merged m = fold_left (inc_step SC ic f m) (m_includes m) (own_dir SC m, merged).
Proof.
  intros. cbn [module_dir]. unfold own_dir. destruct (body_entry SC m [] (m_body m)) as [me err]. reflexivity.
Qed.

Lemma own_dir_body : forall SC f m, entry_fuel SC = S f ->
  own_dir SC m = body_dir SC f {| g_mod := m; g_scopes := [] |} [] (m_body m).
Proof.
  intros SC f m E. unfold own_dir, body_entry. rewrite E, to_entry_S.
  destruct (body_dir SC f {| g_mod := m; g_scopes := [] |} [] (m_body m)) as [d e]. reflexivity.
Qed.

Definition merge_part (SC : schema) (acc : list (str * entry) * bool) (s : module) : list (str * entry) * bool :=
  let '(sd, serr) := own_dir SC s in
  let '(d, e) := merge_dir acc None sd in (d, e || serr).

Record family_base (SC : schema) (m : module) (subs : list module) : Prop := {
  fb_names : NoDup (map m_name SC);
  fb_m : In m SC;
  fb_nodup : NoDup (map m_name (m :: subs));
  fb_in : Forall (fun s => In s SC /\ m_prefix s = m_prefix m) subs }.

Definition devs_err (x : module) : bool := existsb (fun dv => existsb deviate_err (snd dv)) (m_deviations x).

Section Generic.
Variable SC : schema.
Variable ic : bool.
Variable m : module.
Variable subs : list module.
(* what is asked of the uses names of a part *)
Variable P : module -> str -> bool.
Hypothesis HB : family_base SC m subs.
Hypothesis HOK : Forall (fun X => okb (P X) (m_body X) = true /\
                                 forallb (fun a => okb (P X) (snd a)) (m_augments X) = true) (m :: subs).

Let parts := m :: subs.
Let m' := absorb m subs.
Let SC' := map (replace_family m' subs) SC.

Lemma rf_name : forall x, m_name (replace_family m' subs x) = m_name x.
Proof.
  intros x. unfold replace_family. destruct (str_eqb (m_name x) (m_name m')) eqn:E.
  - apply str_eqb_eq in E. symmetry. exact E.
  - destruct (mem (m_name x) (map m_name subs)); reflexivity.
Qed.

Lemma len_SC' : length SC' = length SC.
Proof. unfold SC'. apply map_length. Qed.

Lemma len_SC : exists f0, length SC = S f0.
Proof. destruct SC as [|x r]; [destruct (fb_m _ _ _ HB)|]. exists (length r). reflexivity. Qed.

Lemma part_prefix : forall X, In X parts -> m_prefix X = m_prefix m.
Proof.
  intros X [<-|H]; [reflexivity|]. pose proof (fb_in _ _ _ HB) as S. rewrite Forall_forall in S.
  apply (S X H).
Qed.

Lemma part_body_ok : forall X, In X parts -> okb (P X) (m_body X) = true.
Proof.
  intros X H. pose proof HOK as O. rewrite Forall_forall in O. apply (O X H).
Qed.

Lemma body_m' : groupings_of (m_body m') = flat_map (fun s => groupings_of (m_body s)) parts.
Proof. unfold m', absorb, parts. cbn [m_body flat_map]. rewrite groupings_of_app, groupings_flat. reflexivity. Qed.

Definition Rctx (X : module) (c c' : gctx) : Prop :=
  g_mod c = X /\ g_mod c' = m' /\
  exists inner, g_scopes c = inner ++ [m_body X] /\ g_scopes c' = inner ++ [m_body m'] /\
                Forall (fun sc => okb (P X) sc = true) inner.

Definition same_found (r r' : option found_grouping) : Prop :=
  match r, r' with
  | None, None => True
  | Some (gid, gb, gc), Some (gid', gb', gc') =>
      gid = gid' /\ gb = gb' /\ exists Y, In Y parts /\ Rctx Y gc gc' /\ okb (P Y) gb = true
  | _, _ => False
  end.

Lemma part_eq : forall X Y, In X parts -> In Y parts -> m_name Y = m_name X -> Y = X.
Proof. intros X Y HX HY E. apply (NoDup_map_inj _ _ m_name parts); auto. apply (fb_nodup _ _ _ HB). Qed.

(* the one fact about the include graph the rest needs: at module level a uses name of part X
   resolves to the same grouping in the split and in the unsplit schema *)
Hypothesis LK : forall X u, In X parts -> P X u = true ->
  same_found (fst (find_grouping_mod (S (length SC)) SC X false (trim_prefix (m_prefix m ++ [cCOLON]) u) []))
             (fst (find_grouping_mod (S (length SC')) SC' m' false (trim_prefix (m_prefix m ++ [cCOLON]) u) [])).

Lemma scopes_same : forall X u inner, In X parts -> P X u = true ->
  Forall (fun sc => okb (P X) sc = true) inner ->
  same_found (find_grouping_scopes SC X (inner ++ [m_body X]) (trim_prefix (m_prefix m ++ [cCOLON]) u))
             (find_grouping_scopes SC' m' (inner ++ [m_body m']) (trim_prefix (m_prefix m ++ [cCOLON]) u)).
Proof.
  intros X u0 inner HX HP. set (u := trim_prefix (m_prefix m ++ [cCOLON]) u0).
  induction inner as [|sc rest IH]; intros Ok.
  - cbn [app find_grouping_scopes]. apply LK; assumption.
  - inversion Ok as [|? ? O1 O2]; subst.
    assert (S1 : forall top, find_grouping_scopes SC X ((sc :: rest) ++ [top]) u =
              match find_in u (groupings_of sc) with
              | Some (gid, b) => Some (gid, b, {| g_mod := X; g_scopes := (sc :: rest) ++ [top] |})
              | None => find_grouping_scopes SC X (rest ++ [top]) u
              end).
    { intros top. cbn [app find_grouping_scopes]. destruct (rest ++ [top]) eqn:E; [|reflexivity].
      apply app_eq_nil in E. destruct E. discriminate. }
    assert (S2 : forall top, find_grouping_scopes SC' m' ((sc :: rest) ++ [top]) u =
              match find_in u (groupings_of sc) with
              | Some (gid, b) => Some (gid, b, {| g_mod := m'; g_scopes := (sc :: rest) ++ [top] |})
              | None => find_grouping_scopes SC' m' (rest ++ [top]) u
              end).
    { intros top. cbn [app find_grouping_scopes]. destruct (rest ++ [top]) eqn:E; [|reflexivity].
      apply app_eq_nil in E. destruct E. discriminate. }
    rewrite S1, S2. destruct (find_in u (groupings_of sc)) as [[gid b]|] eqn:F; [|apply IH; exact O2].
    cbn [same_found]. repeat split. exists X. split; [exact HX|]. split.
    + split; [reflexivity|]. split; [reflexivity|]. exists (sc :: rest). auto.
    + eapply okb_grouping; [exact O1|exact F].
Qed.

Lemma FindGrouping_same : forall X c c' u, In X parts -> Rctx X c c' -> P X u = true ->
  same_found (FindGrouping SC c u) (FindGrouping SC' c' u).
Proof.
  intros X c c' u HX (G1 & G2 & inner & S1 & S2 & Ok) HP. unfold FindGrouping.
  rewrite G1, G2, S1, S2. rewrite (part_prefix X HX). assert (m_prefix m' = m_prefix m) as -> by reflexivity.
  apply scopes_same; assumption.
Qed.

Lemma Rctx_push : forall X c c' body, Rctx X c c' -> okb (P X) body = true ->
  Rctx X {| g_mod := g_mod c; g_scopes := body :: g_scopes c |}
         {| g_mod := g_mod c'; g_scopes := body :: g_scopes c' |}.
Proof.
  intros X c c' body (G1 & G2 & inner & S1 & S2 & Ok) Hb.
  split; [exact G1|]. split; [exact G2|]. exists (body :: inner). cbn [g_scopes]. rewrite S1, S2. auto.
Qed.

(* building a statement of part X in the split schema and in the unsplit one gives the same
   entry and the same error flag *)
Lemma to_entry_same : forall f X c c' busy n, In X parts -> Rctx X c c' -> okn (P X) n = true ->
  to_entry SC f c busy n = to_entry SC' f c' busy n.
Proof.
  induction f as [|f IH]; intros X c c' busy n HX R Ok; [reflexivity|].
  assert (BD : forall X c c' busy body, In X parts -> Rctx X c c' -> okb (P X) body = true ->
            body_dir SC f c busy body = body_dir SC' f c' busy body).
  { clear X c c' busy n HX R Ok. intros X c c' busy body HX R Ok. unfold body_dir.
    pose proof (Rctx_push X c c' body R Ok) as Rb.
    set (cb := {| g_mod := g_mod c; g_scopes := body :: g_scopes c |}) in *.
    set (cb' := {| g_mod := g_mod c'; g_scopes := body :: g_scopes c' |}) in *.
    assert (Fold : forall l acc, okb (P X) l = true ->
              fold_left (body_step SC f cb busy) l acc = fold_left (body_step SC' f cb' busy) l acc);
      [|apply Fold; exact Ok].
    clear Ok. induction l as [|ch l IHl]; intros acc Ok; [reflexivity|].
    cbn [okb forallb] in Ok. apply andb_true_iff in Ok. destruct Ok as [Oc Ol]. cbn [fold_left].
    assert (St : body_step SC f cb busy acc ch = body_step SC' f cb' busy acc ch).
    { destruct ch; cbn [body_step]; try (rewrite (IH X cb cb' busy _ HX Rb Oc); reflexivity).
      rewrite okn_body in Oc. pose proof (FindGrouping_same X cb cb' gname HX Rb Oc) as Fs.
      destruct (FindGrouping SC cb gname) as [[[gid gb] gc]|], (FindGrouping SC' cb' gname) as [[[gid' gb'] gc']|];
        cbn [same_found] in Fs; try contradiction; [|reflexivity].
      destruct Fs as (<- & <- & Y & HY & RY & OY). destruct (existsb (Nat.eqb gid) busy); [reflexivity|].
      rewrite (IH Y gc gc' (gid :: busy) (DGrouping gid [] gb) HY RY); [reflexivity|].
      rewrite okn_body. exact OY. }
    rewrite St. apply IHl. exact Ol. }
  rewrite !to_entry_S. rewrite okn_body in Ok.
  destruct n; try reflexivity; try (rewrite (BD X c c' busy body HX R Ok); reflexivity).
  apply andb_true_iff in Ok. destruct Ok as [Oi Oo].
  assert (IO : forall k nm b, match b with Some body => okb (P X) body | None => true end = true ->
            io_entry SC f c busy k nm b = io_entry SC' f c' busy k nm b).
  { intros k nm [body|] Hb; [|reflexivity]. cbn [io_entry]. rewrite (BD X c c' busy body HX R Hb). reflexivity. }
  rewrite (IO KInput s_input input Oi), (IO KOutput s_output output Oo). reflexivity.
Qed.

(* ---- the unsplit schema has the same size, hence the same fuel ---- *)
Lemma module_size_sum : forall x,
  module_size x = sumf size_node (m_body x) + sumf (fun a => S (sumf size_node (snd a))) (m_augments x).
Proof. reflexivity. Qed.

Lemma size_absorb : module_size m' = module_size m + sumf module_size subs.
Proof.
  rewrite (module_size_sum m'). unfold m', absorb. cbn [m_body m_augments].
  rewrite !sumf_app, !sumf_flat, (module_size_sum m).
  assert (E : sumf module_size subs =
              sumf (fun s => sumf size_node (m_body s)) subs +
              sumf (fun s => sumf (fun a => S (sumf size_node (snd a))) (m_augments s)) subs).
  { generalize subs. intros l. induction l as [|s r IH]; [reflexivity|]. unfold sumf in *. cbn [fold_right].
    rewrite IH, (module_size_sum s). unfold sumf. lia. }
  rewrite E. lia.
Qed.

Lemma rf_m : replace_family m' subs m = m'.
Proof. unfold replace_family. assert (m_name m' = m_name m) as -> by reflexivity. rewrite str_eqb_refl. reflexivity. Qed.

Lemma rf_sub : forall s, In s subs -> replace_family m' subs s = emptied s.
Proof.
  intros s H. unfold replace_family. assert (m_name m' = m_name m) as -> by reflexivity.
  destruct (str_eqb (m_name s) (m_name m)) eqn:E.
  - apply str_eqb_eq in E. assert (s = m) by (apply part_eq; [left; reflexivity|right; exact H|exact E]).
    subst s. pose proof (fb_nodup _ _ _ HB) as N. cbn [map] in N. inversion N as [|? ? N1 _]; subst.
    exfalso. apply N1. apply in_map. exact H.
  - assert (mem (m_name s) (map m_name subs) = true) as ->; [|reflexivity].
    apply mem_in. apply in_map. exact H.
Qed.

Lemma rf_other : forall x, ~ In (m_name x) (map m_name parts) -> replace_family m' subs x = x.
Proof.
  intros x H. unfold replace_family. assert (m_name m' = m_name m) as -> by reflexivity.
  destruct (str_eqb (m_name x) (m_name m)) eqn:E.
  - apply str_eqb_eq in E. exfalso. apply H. left. symmetry. exact E.
  - destruct (mem (m_name x) (map m_name subs)) eqn:M; [|reflexivity].
    apply mem_in in M. exfalso. apply H. right. exact M.
Qed.

Lemma parts_in_SC : forall X, In X parts -> In X SC.
Proof.
  intros X [<-|H]; [apply (fb_m _ _ _ HB)|]. pose proof (fb_in _ _ _ HB) as S. rewrite Forall_forall in S.
  apply (S X H).
Qed.

Lemma SC_split : Permutation SC
  (parts ++ filter (fun x => negb (mem (m_name x) (map m_name parts))) SC).
Proof.
  pose proof (fb_names _ _ _ HB) as N. pose proof (fb_nodup _ _ _ HB) as Np.
  apply NoDup_Permutation.
  - eapply NoDup_map_inv. exact N.
  - apply nodup_app.
    + eapply NoDup_map_inv. exact Np.
    + apply NoDup_filter. eapply NoDup_map_inv. exact N.
    + intros x Hx Hf. apply filter_In in Hf. destruct Hf as [_ Hf]. apply negb_true_iff in Hf.
      assert (mem (m_name x) (map m_name parts) = true); [|congruence]. apply mem_in. apply in_map. exact Hx.
  - intros x. rewrite in_app_iff, filter_In. split.
    + intros Hx. destruct (mem (m_name x) (map m_name parts)) eqn:M; [left|right; auto].
      apply mem_in in M. apply in_map_iff in M. destruct M as (Y & EY & HY).
      assert (Y = x); [|subst; exact HY].
      apply (NoDup_map_inj _ _ m_name SC); auto. apply parts_in_SC. exact HY.
    + intros [H|[H _]]; [apply parts_in_SC|]; exact H.
Qed.

Lemma size_same : schema_size SC' = schema_size SC.
Proof.
  change (sumf (fun x => S (module_size x)) SC' = sumf (fun x => S (module_size x)) SC).
  unfold SC'. rewrite sumf_map.
  rewrite (sumf_perm _ _ _ _ SC_split), (sumf_perm _ (fun x => S (module_size x)) _ _ SC_split).
  rewrite !sumf_app. f_equal.
  - unfold parts. cbn [sumf fold_right]. rewrite rf_m, size_absorb. fold (sumf (fun x => S (module_size (replace_family m' subs x))) subs).
    fold (sumf (fun x => S (module_size x)) subs).
    rewrite (sumf_ext _ (fun x => S (module_size (replace_family m' subs x))) (fun _ => 1) subs).
    + rewrite (sumf_S _ module_size subs), (sumf_S _ (fun _ => 0) subs).
      assert (sumf (fun _ : module => 0) subs = 0) as -> by (clear; induction subs; simpl; auto). lia.
    + intros s Hs. rewrite (rf_sub s Hs). reflexivity.
  - apply sumf_ext. intros x Hx. apply filter_In in Hx. destruct Hx as [_ Hx]. apply negb_true_iff in Hx.
    rewrite rf_other; [reflexivity|]. intros C. apply mem_in in C. congruence.
Qed.

Lemma fuel_same : entry_fuel SC' = entry_fuel SC.
Proof. unfold entry_fuel. rewrite size_same. reflexivity. Qed.

Lemma fuel_S : exists f, entry_fuel SC = S f.
Proof. unfold entry_fuel. exists (schema_size SC + schema_size SC * S (schema_size SC)). reflexivity. Qed.

Lemma body_step_same : forall f X cb cb' busy acc ch, In X parts -> Rctx X cb cb' -> okn (P X) ch = true ->
  body_step SC f cb busy acc ch = body_step SC' f cb' busy acc ch.
Proof.
  intros f X cb cb' busy acc ch HX Rb Oc.
  destruct ch; cbn [body_step]; try (rewrite (to_entry_same f X cb cb' busy _ HX Rb Oc); reflexivity).
  rewrite okn_body in Oc. pose proof (FindGrouping_same X cb cb' gname HX Rb Oc) as Fs.
  destruct (FindGrouping SC cb gname) as [[[gid gb] gc]|], (FindGrouping SC' cb' gname) as [[[gid' gb'] gc']|];
    cbn [same_found] in Fs; try contradiction; [|reflexivity].
  destruct Fs as (<- & <- & Y & HY & RY & OY). destruct (existsb (Nat.eqb gid) busy); [reflexivity|].
  rewrite (to_entry_same f Y gc gc' (gid :: busy) (DGrouping gid [] gb) HY RY); [reflexivity|].
  rewrite okn_body. exact OY.
Qed.

Lemma body_fold_same : forall f X cb cb' busy l acc, In X parts -> Rctx X cb cb' -> okb (P X) l = true ->
  fold_left (body_step SC f cb busy) l acc = fold_left (body_step SC' f cb' busy) l acc.
Proof.
  intros f X cb cb' busy l. induction l as [|ch l IH]; intros acc HX R Ok; [reflexivity|].
  cbn [okb forallb] in Ok. apply andb_true_iff in Ok. destruct Ok as [Oc Ol]. cbn [fold_left].
  rewrite (body_step_same f X cb cb' busy acc ch HX R Oc). apply IH; assumption.
Qed.



(* the unsplit side: one body, processed part after part *)
Lemma module_dir_unsplit :
  fst (module_dir SC' ic (S (length SC')) [] m') = fold_left (merge_part SC) subs (own_dir SC m).
Proof.
  rewrite module_dir_S. assert (m_includes m' = []) as -> by reflexivity. cbn [fold_left fst].
  destruct fuel_S as [f Ef].
  rewrite (own_dir_body SC' f m') by (rewrite fuel_same; exact Ef).
  unfold body_dir. cbn [g_mod g_scopes].
  set (cb' := {| g_mod := m'; g_scopes := [m_body m'] |}).
  assert (Part : forall X acc, In X parts ->
            fold_left (body_step SC' f cb' []) (m_body X) acc =
            fold_left (body_step SC f {| g_mod := X; g_scopes := [m_body X] |} []) (m_body X) acc).
  { intros X acc HX. symmetry. apply (body_fold_same f X); auto.
    - split; [reflexivity|]. split; [reflexivity|]. exists []. auto.
    - apply part_body_ok. exact HX. }
  assert (Own : forall X, own_dir SC X =
            fold_left (body_step SC f {| g_mod := X; g_scopes := [m_body X] |} []) (m_body X) ([], false)).
  { intros X. rewrite (own_dir_body SC f X Ef). reflexivity. }
  assert (Body : m_body m' = m_body m ++ flat_map m_body subs) by reflexivity.
  rewrite Body, fold_left_app, (Part m) by (left; reflexivity). rewrite <- Own.
  assert (Sub : forall l, (forall s, In s l -> In s subs) -> forall acc,
            fold_left (body_step SC' f cb' []) (flat_map m_body l) acc = fold_left (merge_part SC) l acc).
  { induction l as [|s l IH]; intros Hl acc; [reflexivity|].
    cbn [flat_map fold_left]. rewrite fold_left_app, (Part s) by (right; apply Hl; left; reflexivity).
    rewrite (body_fold_merge SC f {| g_mod := s; g_scopes := [m_body s] |} [] (m_body s) acc), <- Own.
    fold (merge_part SC acc s). apply IH.
    intros x Hx. apply Hl. right. exact Hx. }
  apply Sub. auto.
Qed.

(* the split side, as a hypothesis: the includes of m, whatever their nesting, amount to merging the
   own directories of [subs] one after the other *)
Hypothesis HS : fst (module_dir SC ic (S (length SC)) [] m) = fold_left (merge_part SC) subs (own_dir SC m).

Theorem gen_module_entry :
  fst (module_entry SC' ic m') = fst (module_entry SC ic m) /\
  snd (module_entry SC' ic m') = snd (module_entry SC ic m) || existsb devs_err subs.
Proof.
  unfold module_entry.
  pose proof HS as A. pose proof module_dir_unsplit as B.
  destruct (module_dir SC ic (S (length SC)) [] m) as [[d e] mg].
  destruct (module_dir SC' ic (S (length SC')) [] m') as [[d' e'] mg'].
  cbn [fst] in A, B. rewrite <- A in B. inversion B; subst. cbn [fst snd]. split; [reflexivity|].
  assert (m_deviations m' = m_deviations m ++ flat_map m_deviations subs) as -> by reflexivity.
  rewrite existsb_app. fold (devs_err m). rewrite <- orb_assoc. f_equal. f_equal.
  clear. induction subs as [|s l IH]; [reflexivity|]. cbn [flat_map existsb]. rewrite existsb_app, IH. reflexivity.
Qed.

Theorem gen_shape :
  find_module SC' (m_name m) = Some m' /\ m_includes m' = [] /\ map m_name SC' = map m_name SC.
Proof.
  split; [|split].
  - unfold SC'. rewrite find_module_map by apply rf_name.
    rewrite (find_module_in SC m (fb_names _ _ _ HB) (fb_m _ _ _ HB)). cbn [option_map]. rewrite rf_m. reflexivity.
  - reflexivity.
  - unfold SC'. rewrite map_map. apply map_ext. apply rf_name.
Qed.

Theorem gen_uses_lookup : forall X inner u,
  In X parts -> Forall (fun sc => okb (P X) sc = true) inner -> P X u = true ->
  match FindGrouping SC {| g_mod := X; g_scopes := inner ++ [m_body X] |} u,
        FindGrouping SC' {| g_mod := m'; g_scopes := inner ++ [m_body m'] |} u with
  | None, None => True
  | Some (gid, gb, _), Some (gid', gb', _) => gid = gid' /\ gb = gb'
  | _, _ => False
  end.
Proof.
  intros X inner u HX Ok Hu.
  pose proof (FindGrouping_same X {| g_mod := X; g_scopes := inner ++ [m_body X] |}
                {| g_mod := m'; g_scopes := inner ++ [m_body m'] |} u HX) as F.
  unfold same_found in F.
  destruct (FindGrouping SC _ u) as [[[gid gb] gc]|], (FindGrouping SC' _ u) as [[[gid' gb'] gc']|];
    try (apply F; [split; [reflexivity|split; [reflexivity|exists inner; auto]]|exact Hu]).
  destruct F as (A & B & _); auto. split; [reflexivity|]. split; [reflexivity|]. exists inner. auto.
Qed.

Theorem gen_module_augs :
  map (fun a => (a_path a, a_dir a, a_err a)) (module_augs SC' m') =
  flat_map (fun X => map (fun a => (a_path a, a_dir a, a_err a)) (module_augs SC X)) parts.
Proof.
  assert (One : forall X a, In X parts -> In a (m_augments X) ->
            body_entry SC' m' [m_body m'] (snd a) = body_entry SC X [m_body X] (snd a)).
  { intros X a HX Ha. unfold body_entry. rewrite fuel_same. symmetry.
    apply (to_entry_same _ X); auto.
    - split; [reflexivity|]. split; [reflexivity|]. exists []. auto.
    - rewrite okn_body. pose proof HOK as O. rewrite Forall_forall in O. destruct (O X HX) as [_ O2].
      rewrite forallb_forall in O2. apply O2. exact Ha. }
  assert (Aug : m_augments m' = flat_map m_augments parts) by (unfold parts; cbn [flat_map]; reflexivity).
  unfold module_augs at 1. rewrite Aug. rewrite map_map.
  assert (G : forall l, (forall X, In X l -> In X parts) ->
            map (fun a => let '(e, err) := body_entry SC' m' [m_body m'] (snd a) in
                          (fst a, match e_dir e with Some d => d | None => [] end, err))
                (flat_map m_augments l) =
            flat_map (fun X => map (fun a => (a_path a, a_dir a, a_err a)) (module_augs SC X)) l).
  { induction l as [|X l IH]; intros Hl; [reflexivity|]. cbn [flat_map]. rewrite map_app, IH.
    - f_equal. unfold module_augs. rewrite map_map. apply map_ext_in. intros a Ha.
      rewrite (One X a (Hl X (or_introl eq_refl)) Ha). destruct (body_entry SC X [m_body X] (snd a)). reflexivity.
    - intros Y HY. apply Hl. right. exact HY. }
  rewrite <- G by auto. apply map_ext. intros a. destruct (body_entry SC' m' [m_body m'] (snd a)). reflexivity.
Qed.

End Generic.

(* ------------------------------------------------------------------ direct includes *)

Section Flat.
Variable SC : schema.
Variable ic : bool.
Variable m : module.
Variable subs : list module.
Hypothesis FF : flat_family SC m subs.

Local Notation parts := (m :: subs).
Local Notation m' := (absorb m subs).
Local Notation SC' := (map (replace_family (absorb m subs) subs) SC).
Let P := uses_ok m subs.
Let Rctx := Rctx m subs P.
Let same_found := same_found m subs P.

Lemma flat_base : family_base SC m subs.
Proof.
  constructor; [apply (ff_names _ _ _ FF)|apply (ff_m _ _ _ FF)|apply (ff_nodup _ _ _ FF)|].
  pose proof (ff_subs _ _ _ FF) as S. rewrite Forall_forall in *. intros s Hs. destruct (S s Hs) as (A & _ & _ & B). auto.
Qed.

Lemma flat_ok : Forall (fun X => okb (P X) (m_body X) = true /\
                                 forallb (fun a => okb (P X) (snd a)) (m_augments X) = true) (m :: subs).
Proof.
  pose proof (ff_ok _ _ _ FF) as O. rewrite Forall_forall in *. intros X HX. specialize (O X HX).
  unfold part_ok in O. apply andb_true_iff in O. exact O.
Qed.

Let len_SC := len_SC SC m subs flat_base.
Let len_SC' := len_SC' SC m subs.
Let part_body_ok := part_body_ok m subs P flat_ok.
Let body_m' := body_m' m subs.
Let part_eq := part_eq SC m subs flat_base.

Lemma sub_found : forall s, In s subs -> find_module SC (m_name s) = Some s /\ m_includes s = [].
Proof.
  intros s H. pose proof (ff_subs _ _ _ FF) as S. rewrite Forall_forall in S. destruct (S s H) as (A & _ & C & _).
  split; [apply find_module_in; [apply (ff_names _ _ _ FF)|exact A]|exact C].
Qed.

(* the include walk of the split module finds what the concatenation offers *)
Lemma walk_spec : forall f0 u rest seen, no_colon u = true ->
  (forall s, In s rest -> In s subs) -> NoDup (map m_name rest) ->
  (forall s, In s rest -> ~ In (m_name s) seen) ->
  fst (incl_walk (S f0) SC u (map m_name rest) seen) =
  match find_part u rest with
  | Some (gid, b, s) => Some (gid, b, {| g_mod := s; g_scopes := [m_body s] |})
  | None => None
  end.
Proof.
  intros f0 u. induction rest as [|s rest IH]; intros seen Hu Hs Nd Hseen; [reflexivity|].
  cbn [map incl_walk find_part].
  assert (E : existsb (str_eqb (m_name s)) seen = false).
  { destruct (existsb (str_eqb (m_name s)) seen) eqn:E; [|reflexivity].
    exfalso. apply (Hseen s (or_introl eq_refl)). apply mem_in. exact E. }
  rewrite E. destruct (sub_found s (Hs s (or_introl eq_refl))) as [Fm Inc]. rewrite Fm.
  rewrite fgm_local by exact Hu. rewrite Inc.
  destruct (find_in u (groupings_of (m_body s))) as [[gid b]|]; [reflexivity|].
  cbn [incl_walk]. cbn [map] in Nd. inversion Nd as [|? ? N1 N2]; subst.
  apply IH; auto.
  - intros x Hx. apply Hs. right. exact Hx.
  - intros x Hx [C|C].
    + apply N1. rewrite C. apply in_map. exact Hx.
    + apply (Hseen x (or_intror Hx)). exact C.
Qed.

(* module level: a local name resolves to the same grouping in the split and in the unsplit module *)
Lemma fgm_same : forall X u, In X parts -> no_colon u = true ->
  (str_eqb (m_name X) (m_name m) || negb (mem u (foreign m subs X))) = true ->
  same_found (fst (find_grouping_mod (S (length SC)) SC X false u []))
             (fst (find_grouping_mod (S (length SC')) SC' m' false u [])).
Proof.
  intros X u HX Hu H4. destruct len_SC as [f0 L].
  rewrite len_SC', L.
  rewrite !fgm_local by exact Hu. rewrite body_m', find_in_flat.
  assert (Im' : m_includes m' = []) by reflexivity. rewrite Im'. cbn [incl_walk].
  assert (Good : forall gid b s, In s parts -> find_in u (groupings_of (m_body s)) = Some (gid, b) ->
            exists Y, In Y parts /\ Rctx Y {| g_mod := s; g_scopes := [m_body s] |}
                                          {| g_mod := m'; g_scopes := [m_body m'] |} /\ okb (P Y) b = true).
  { intros gid b s Hs F. exists s. split; [exact Hs|]. split.
    - split; [reflexivity|]. split; [reflexivity|]. exists []. auto.
    - eapply okb_grouping; [apply part_body_ok; exact Hs|exact F]. }
  destruct (str_eqb (m_name X) (m_name m)) eqn:EX.
  - (* the module itself: own groupings, then the includes in order *)
    apply str_eqb_eq in EX. assert (X = m) as -> by (apply part_eq; auto; left; reflexivity).
    cbn [find_part]. rewrite (ff_incl _ _ _ FF).
    destruct (find_in u (groupings_of (m_body m))) as [[gid b]|] eqn:F.
    + cbn [fst same_found]. repeat split. eapply Good; [left; reflexivity|exact F].
    + rewrite walk_spec; auto.
      * destruct (find_part u subs) as [[[gid b] s]|] eqn:Fp; cbn [fst same_found]; [|exact I].
        repeat split. assert (In s subs /\ find_in u (groupings_of (m_body s)) = Some (gid, b)) as [Hs Fs].
        { clear -Fp. induction subs as [|y r IH]; [discriminate|]. cbn [find_part] in Fp.
          destruct (find_in u (groupings_of (m_body y))) as [[g0 b0]|] eqn:E.
          - inversion Fp; subst. split; [left; reflexivity|exact E].
          - destruct (IH Fp). split; [right|]; assumption. }
        eapply Good; [right; exact Hs|exact Fs].
      * pose proof (ff_nodup _ _ _ FF) as N. cbn [map] in N. inversion N. assumption.
  - (* a submodule: only what it declares itself *)
    cbn [orb] in H4. apply negb_true_iff in H4.
    destruct HX as [<-|HX]; [rewrite str_eqb_refl in EX; discriminate|].
    destruct (sub_found X HX) as [_ Inc]. rewrite Inc. cbn [incl_walk].
    rewrite (find_part_only u X parts).
    + destruct (find_in u (groupings_of (m_body X))) as [[gid b]|] eqn:F; cbn [fst same_found]; [|exact I].
      repeat split. eapply Good; [right; exact HX|exact F].
    + intros Y HY. destruct (str_eqb (m_name Y) (m_name X)) eqn:EY.
      * left. apply str_eqb_eq in EY. apply part_eq; auto. right. exact HX.
      * right. apply find_in_none. fold (top_names Y).
        destruct (mem u (top_names Y)) eqn:M; [|reflexivity]. exfalso.
        assert (mem u (foreign m subs X) = true); [|congruence].
        apply mem_in. unfold foreign. apply in_flat_map. exists Y. split; [exact HY|].
        rewrite EY. apply mem_in. exact M.
    + right. exact HX.
Qed.


Lemma flat_LK : forall X u, In X parts -> P X u = true ->
  same_found (fst (find_grouping_mod (S (length SC)) SC X false (trim_prefix (m_prefix m ++ [cCOLON]) u) []))
             (fst (find_grouping_mod (S (length SC')) SC' m' false (trim_prefix (m_prefix m ++ [cCOLON]) u) [])).
Proof.
  intros X u HX HP. unfold P, uses_ok in HP. apply andb_true_iff in HP. destruct HP as [Hu H4].
  apply fgm_same; assumption.
Qed.

(* the split side: the includes are merged one after the other *)
Lemma split_fold : forall f0 rest acc merged,
  (forall s, In s rest -> In s subs) -> NoDup (map m_name rest) ->
  (forall s, In s rest -> mem (key2 (m_name s) (m_name m)) merged = false /\
                          mem (key2 (m_name m) (m_name s)) merged = false) ->
  fst (fold_left (inc_step SC ic (S f0) m) (map m_name rest) (acc, merged)) =
  fold_left (merge_part SC) rest acc.
Proof.
  intros f0. induction rest as [|s rest IH]; intros acc merged Hs Nd Hm; [reflexivity|].
  cbn [map fold_left]. 
  destruct (sub_found s (Hs s (or_introl eq_refl))) as [Fm Inc].
  pose proof (ff_subs _ _ _ FF) as Sb. rewrite Forall_forall in Sb.
  destruct (Sb s (Hs s (or_introl eq_refl))) as (_ & Bel & _ & _).
  destruct (Hm s (or_introl eq_refl)) as [M1 M2].
  assert (Ne : str_eqb (m_name s) (m_name m) = false).
  { apply str_eqb_neq. intros E. pose proof (ff_nodup _ _ _ FF) as N. cbn [map] in N. inversion N as [|? ? N1 _]; subst.
    apply N1. rewrite <- E. apply in_map. apply Hs. left. reflexivity. }
  assert (Step : inc_step SC ic (S f0) m (acc, merged) (m_name s) =
                 (merge_part SC acc s, key2 (m_name s) (m_name m) :: key2 (m_name s) (m_name m) :: merged)).
  { unfold inc_step. rewrite Fm, M1, M2, Ne, Bel, M1. cbn [negb andb].
    rewrite module_dir_S, Inc. cbn [fold_left]. unfold merge_part.
    destruct (own_dir SC s) as [sd serr]. destruct (merge_dir acc None sd) as [d e]. reflexivity. }
  rewrite Step. cbn [map] in Nd. inversion Nd as [|? ? N1 N2]; subst. apply IH; auto.
  - intros x Hx. apply Hs. right. exact Hx.
  - intros x Hx. destruct (Hm x (or_intror Hx)) as [A B].
    pose proof (ff_colon _ _ _ FF) as Cn. rewrite Forall_forall in Cn.
    assert (Cm : no_colon (m_name m) = true) by (apply Cn; left; reflexivity).
    assert (Cs : no_colon (m_name s) = true) by (apply Cn; right; apply Hs; left; reflexivity).
    split; cbn [mem existsb]; rewrite !orb_false_iff; repeat split; auto.
    + apply str_eqb_neq. intros E. apply key2_inj_l in E. apply N1. rewrite <- E. apply in_map. exact Hx.
    + apply str_eqb_neq. intros E. apply key2_inj_l in E. apply N1. rewrite <- E. apply in_map. exact Hx.
    + apply str_eqb_neq. intros E. apply key2_inj in E; auto. destruct E as [E _].
      rewrite E, str_eqb_refl in Ne. discriminate.
    + apply str_eqb_neq. intros E. apply key2_inj in E; auto. destruct E as [E _].
      rewrite E, str_eqb_refl in Ne. discriminate.
Qed.

Lemma module_dir_split :
  fst (module_dir SC ic (S (length SC)) [] m) = fold_left (merge_part SC) subs (own_dir SC m).
Proof.
  destruct len_SC as [f0 L]. rewrite L, module_dir_S, (ff_incl _ _ _ FF).
  apply split_fold; auto.
  pose proof (ff_nodup _ _ _ FF) as N. cbn [map] in N. inversion N. assumption.
Qed.

Lemma subs_of_nil : forall f seen, subs_of f SC seen [] = ([], seen).
Proof. destruct f; reflexivity. Qed.

Lemma reachable_flat : reachable_subs SC m = subs.
Proof.
  unfold reachable_subs. rewrite (ff_incl _ _ _ FF). cbn [subs_of].
  assert (G : forall rest acc seen, (forall s, In s rest -> In s subs) -> NoDup (map m_name rest) ->
            (forall s, In s rest -> ~ In (m_name s) seen) ->
            fst (fold_left (fun st sn =>
                   let '(acc, seen) := st in
                   if mem sn seen then st
                   else match find_module SC sn with
                        | None => (acc, seen)
                        | Some sm => let '(below, seen') := subs_of (length SC) SC (sn :: seen) (m_includes sm) in
                                     (acc ++ sm :: below, seen')
                        end) (map m_name rest) (acc, seen)) = acc ++ rest).
  { induction rest as [|s rest IH]; intros acc seen Hs Nd Hseen; [cbn; rewrite app_nil_r; reflexivity|].
    cbn [map fold_left].
    assert (mem (m_name s) seen = false) as ->.
    { destruct (mem (m_name s) seen) eqn:E; [|reflexivity]. apply mem_in in E.
      exfalso. apply (Hseen s); [left; reflexivity|exact E]. }
    destruct (sub_found s (Hs s (or_introl eq_refl))) as [-> ->].
    rewrite subs_of_nil. cbn [map] in Nd. inversion Nd as [|? ? N1 N2]; subst.
    rewrite IH; auto.
    - rewrite <- app_assoc. reflexivity.
    - intros x Hx. apply Hs. right. exact Hx.
    - intros x Hx [C|C]; [apply N1; rewrite C; apply in_map; exact Hx|apply (Hseen x); [right; exact Hx|exact C]]. }
  rewrite G; auto.
  - pose proof (ff_nodup _ _ _ FF) as N. cbn [map] in N. inversion N. assumption.
  - intros s Hs [C|[]]. pose proof (ff_nodup _ _ _ FF) as N. cbn [map] in N. inversion N as [|? ? N1 _]; subst.
    apply N1. rewrite C. apply in_map. exact Hs.
Qed.


(* C13 (c) for direct includes *)
Theorem module_entry_unsplit :
  fst (module_entry (unsplit_schema SC m) ic (unsplit SC m)) = fst (module_entry SC ic m) /\
  snd (module_entry (unsplit_schema SC m) ic (unsplit SC m)) =
    snd (module_entry SC ic m) || existsb devs_err (reachable_subs SC m).
Proof.
  unfold unsplit_schema, unsplit. rewrite reachable_flat.
  exact (gen_module_entry SC ic m subs P flat_base flat_ok flat_LK module_dir_split).
Qed.

Theorem unsplit_schema_shape :
  find_module (unsplit_schema SC m) (m_name m) = Some (unsplit SC m) /\
  m_includes (unsplit SC m) = [] /\
  map m_name (unsplit_schema SC m) = map m_name SC.
Proof. unfold unsplit_schema, unsplit. rewrite reachable_flat. exact (gen_shape SC m subs flat_base). Qed.

Theorem uses_lookup_unsplit : forall X inner u,
  In X (m :: subs) -> Forall (fun sc => okb (uses_ok m subs X) sc = true) inner ->
  uses_ok m subs X u = true ->
  match FindGrouping SC {| g_mod := X; g_scopes := inner ++ [m_body X] |} u,
        FindGrouping (unsplit_schema SC m)
                     {| g_mod := unsplit SC m; g_scopes := inner ++ [m_body (unsplit SC m)] |} u with
  | None, None => True
  | Some (gid, gb, _), Some (gid', gb', _) => gid = gid' /\ gb = gb'
  | _, _ => False
  end.
Proof. unfold unsplit_schema, unsplit. rewrite reachable_flat. exact (gen_uses_lookup SC m subs P flat_base flat_LK). Qed.

Theorem module_augs_unsplit :
  map (fun a => (a_path a, a_dir a, a_err a)) (module_augs (unsplit_schema SC m) (unsplit SC m)) =
  flat_map (fun X => map (fun a => (a_path a, a_dir a, a_err a)) (module_augs SC X)) (m :: subs).
Proof. unfold unsplit_schema, unsplit. rewrite reachable_flat. exact (gen_module_augs SC m subs P flat_base flat_ok flat_LK). Qed.

End Flat.
