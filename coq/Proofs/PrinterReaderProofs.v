(* Printer (Model/Printer.v) combined with the reader (Model/Reader.v): the TEXT printed for a statement tree is read
   by Reader.read_text as Reader.read_module reads the tree itself -- PARTIAL: under the hypothesis that read_module0
   does not look at positions on this tree (true by inspection: no function of Model/Reader.v mentions s_line, s_col
   or s_off; not yet proved as a lemma over its forty-odd functions), and with printability and ASCII-ness of the
   rendered tree as boolean side conditions on the tree rather than derived from a predicate on the module. *)
From Coq Require Import List NArith ZArith Bool Lia.
Import ListNotations.
From GY Require Import Model.Lex Model.Parse Spec.C02 Model.Printer Proofs.PrinterProofs Model.Schema Model.Reader Proofs.ReaderProofs.

Theorem print_read_text_partial : forall s : Parse.stmt,
  forest_ok [C02.erase s] = true ->
  is_ascii (print_forest [C02.erase s]) = true ->
  (forall s', C02.erase s' = C02.erase s -> read_module0 s' = read_module0 s) ->
  read_text (print_forest [C02.erase s]) = read_module s.
Proof.
  intros s Hok Hasc Hpos. destruct (print_Parse [C02.erase s] Hok) as (ss & HP & Hss).
  destruct ss as [|s' [|s'' r]]; try discriminate. cbn [map] in Hss. injection Hss as Hs'.
  unfold read_text, read_text0, read_module. rewrite Hasc, HP, (Hpos s' Hs'). reflexivity.
Qed.

(* with the proved statement-tree round trip of the reader *)
Theorem print_render_read_text_partial : forall m : module,
  reader_wf m = true ->
  forest_ok [C02.erase (render_module m)] = true ->
  is_ascii (print_forest [C02.erase (render_module m)]) = true ->
  (forall s', C02.erase s' = C02.erase (render_module m) -> read_module0 s' = read_module0 (render_module m)) ->
  read_text (print_forest [C02.erase (render_module m)]) = Some m.
Proof.
  intros m Hwf Hok Hasc Hpos. rewrite (print_read_text_partial _ Hok Hasc Hpos). apply reader_roundtrip. exact Hwf.
Qed.

(* non-vacuity, and the conclusion itself on the example module of Proofs/ReaderProofs.v (nested groupings, uses, list,
   rpc, choice, augment, deviation, import, include): its rendered tree is printable, the printed text is ASCII, and
   read_text of the printed text is the module *)
Example print_render_read_text_ex :
  reader_wf ex_module = true /\
  forest_ok [C02.erase (render_module ex_module)] = true /\
  is_ascii (print_forest [C02.erase (render_module ex_module)]) = true /\
  read_text (print_forest [C02.erase (render_module ex_module)]) = Some ex_module.
Proof. vm_compute. repeat split; reflexivity. Qed.
