(* C19 — obligations about the generated table (re-checked whenever Gen/Locks.v changes), and the
   witnesses used as non-vacuity examples. *)
From Coq Require Import String List Bool Arith Lia.
Import ListNotations.
From GY Require Import Model.Conc Proofs.ConcProofs Gen.Locks Spec.C19.
Local Open Scope string_scope.

(* ------------------------------------------------------------------ instance *)
Lemma table_ok_true : table_ok table = true.
Proof. vm_compute. reflexivity. Qed.

Lemma instance_lockset : forallb lockset_ok (programs_of table) = true.
Proof. vm_compute. reflexivity. Qed.

Lemma instance_allow : roots_ok table = true /\ allow_ok table = true.
Proof. split; vm_compute; reflexivity. Qed.

Lemma instance_pkg_init_only : pkg_writes_outside_init table = [].
Proof. vm_compute. reflexivity. Qed.

Lemma instance_handout : handout_ok table = true.
Proof. vm_compute. reflexivity. Qed.

Lemma instance_guarded_present : guarded_present table = true /\ exempt_ok table = true.
Proof. split; vm_compute; reflexivity. Qed.

Lemma scenario_race_free : forall ps, In ps (programs_of table) ->
  forall tr, valid_trace ps tr -> race_free tr /\ hb_race_free tr.
Proof.
  intros ps Hin tr Hv. pose proof instance_lockset as H. rewrite forallb_forall in H. specialize (H ps Hin).
  split; [eapply lockset_race_free_proof | eapply lockset_hb_proof]; eauto.
Qed.

Lemma readers_race_free : forall tr, valid_trace (reader_programs table) tr -> race_free tr /\ hb_race_free tr.
Proof. apply scenario_race_free. simpl. auto. Qed.
Lemma pipelines_race_free : forall tr, valid_trace (pipeline_programs table) tr -> race_free tr /\ hb_race_free tr.
Proof. apply scenario_race_free. simpl. auto. Qed.
Lemma guarded_race_free : forall tr, valid_trace (guarded_programs table) tr -> race_free tr /\ hb_race_free tr.
Proof. apply scenario_race_free. simpl. auto. Qed.

(* the reader programs really contain the guarded memo write and two threads that perform it *)
Definition count_ev (e : ev) (ps : list prog) : nat :=
  List.length (filter (fun p => existsb (fun x => match x, e with
     | Wr a, Wr b => String.eqb a b | Rd a, Rd b => String.eqb a b
     | Acq a, Acq b => String.eqb a b | RAcq a, RAcq b => String.eqb a b | _, _ => false end) p) ps).

Lemma readers_nonvacuous :
  List.length (reader_programs table) = 18 /\
  4 <= count_ev (Wr "Modules.byNS") (reader_programs table) /\
  4 <= count_ev (Acq "Modules.nsMu") (reader_programs table) /\
  2 <= count_ev (RAcq "Modules.entryCacheMu") (reader_programs table) /\
  2 <= count_ev (Rd "Modules.entryCache") (reader_programs table).
Proof. vm_compute. repeat split; lia. Qed.

Lemma pipelines_nonvacuous :
  2 <= count_ev (Rd "pkg.typeMap") (pipeline_programs table) /\
  1 <= count_ev (Wr "1:typeDictionary.dict") (pipeline_programs table) /\
  1 <= count_ev (Wr "2:typeDictionary.dict") (pipeline_programs table).
Proof. vm_compute. repeat split; lia. Qed.

(* ------------------------------------------------------------------ small witnesses *)
Definition ex_locked : list prog :=
  [ [Acq "mu"; Rd "x"; Wr "x"; Rel "mu"]; [Acq "mu"; Wr "x"; Rel "mu"]; [RAcq "rw"; Rd "y"; RRel "rw"];
    [RAcq "rw"; Rd "y"; RRel "rw"]; [Acq "rw"; Wr "y"; Rel "rw"] ].
Definition ex_unlocked : list prog := [ [Acq "mu"; Wr "x"; Rel "mu"]; [Wr "x"] ].
Definition ex_both_readers : list prog := [ [RAcq "rw"; Wr "y"; RRel "rw"]; [RAcq "rw"; Rd "y"; RRel "rw"] ].
Definition ex_foreign_unlock : list prog := [ [Acq "mu"; Wr "x"; Rel "mu"]; [Rel "mu"; Acq "mu"; Wr "x"; Rel "mu"] ].

Lemma ex_locked_ok : lockset_ok ex_locked = true.
Proof. vm_compute. reflexivity. Qed.
Lemma ex_unlocked_bad : lockset_ok ex_unlocked = false.
Proof. vm_compute. reflexivity. Qed.
Lemma ex_both_readers_bad : lockset_ok ex_both_readers = false.
Proof. vm_compute. reflexivity. Qed.
Lemma ex_foreign_unlock_bad : lockset_ok ex_foreign_unlock = false.
Proof. vm_compute. reflexivity. Qed.

Ltac step := eapply valid_cons;
  [reflexivity | cbv; first [exact I | split; reflexivity | reflexivity | (let Q := fresh "Q" in intro Q; discriminate Q)] | simpl].

(* a complete interleaving of the locked programs exists (the hypotheses of the theorem are satisfiable) *)
Definition ex_locked_trace : trace :=
  [ (2, RAcq "rw"); (0, Acq "mu"); (3, RAcq "rw"); (0, Rd "x"); (2, Rd "y"); (3, Rd "y"); (0, Wr "x");
    (3, RRel "rw"); (0, Rel "mu"); (1, Acq "mu"); (2, RRel "rw"); (4, Acq "rw"); (1, Wr "x"); (4, Wr "y");
    (1, Rel "mu"); (4, Rel "rw") ].
Lemma ex_locked_trace_valid : valid_trace ex_locked ex_locked_trace.
Proof. unfold valid_trace, ex_locked, ex_locked_trace. repeat step. apply valid_nil. Qed.

(* the unprotected variant has a valid trace with a race *)
Lemma ex_unlocked_racy : exists tr, valid_trace ex_unlocked tr /\ ~ race_free tr.
Proof.
  exists [(0, Acq "mu"); (0, Wr "x"); (1, Wr "x")]. split.
  - unfold valid_trace, ex_unlocked. repeat step. apply valid_nil.
  - intro H. apply H. exists 1. exists 0, (Wr "x"), 1, (Wr "x"). repeat split; try discriminate.
    exists "x". repeat split. now left.
Qed.

(* two read locks do not exclude each other: a write under RLock races *)
Lemma ex_both_readers_racy : exists tr, valid_trace ex_both_readers tr /\ ~ race_free tr.
Proof.
  exists [(0, RAcq "rw"); (1, RAcq "rw"); (0, Wr "y"); (1, Rd "y")]. split.
  - unfold valid_trace, ex_both_readers. repeat step. apply valid_nil.
  - intro H. apply H. exists 2. exists 0, (Wr "y"), 1, (Rd "y"). repeat split; try discriminate.
    exists "y". repeat split. now left.
Qed.

(* Go lets a goroutine unlock a mutex it does not hold: the semantics allows it, the discipline forbids it,
   and without the discipline there is a race *)
Lemma ex_foreign_unlock_racy : exists tr, valid_trace ex_foreign_unlock tr /\ ~ race_free tr.
Proof.
  exists [(0, Acq "mu"); (1, Rel "mu"); (1, Acq "mu"); (0, Wr "x"); (1, Wr "x")]. split.
  - unfold valid_trace, ex_foreign_unlock. repeat step. apply valid_nil.
  - intro H. apply H. exists 3. exists 0, (Wr "x"), 1, (Wr "x"). repeat split; try discriminate.
    exists "x". repeat split. now left.
Qed.

(* the semantics is not permissive: a second Lock of a held mutex is not a step *)
Lemma valid_cons_inv : forall ps s t e tr, valid ps s ((t, e) :: tr) ->
  exists rest, nth_error ps t = Some (e :: rest) /\ can_step s e /\ valid (upd ps t rest) (do_step s e) tr.
Proof. intros ps s t e tr H. inversion H; subst. eauto. Qed.

Lemma ex_mutex_excludes : ~ valid_trace ex_locked [(0, Acq "mu"); (1, Acq "mu")].
Proof.
  unfold valid_trace. intro H.
  apply valid_cons_inv in H. destruct H as (r1 & _ & _ & H).
  apply valid_cons_inv in H. destruct H as (r2 & _ & Hc & _).
  cbv in Hc. destruct Hc as [Hx _]. discriminate Hx.
Qed.

Lemma ex_writer_excludes_reader : ~ valid_trace ex_locked [(4, Acq "rw"); (2, RAcq "rw")].
Proof.
  unfold valid_trace. intro H.
  apply valid_cons_inv in H. destruct H as (r1 & _ & _ & H).
  apply valid_cons_inv in H. destruct H as (r2 & _ & Hc & _).
  cbv in Hc. discriminate Hc.
Qed.

(* T3 on a concrete function *)
Lemma ex_memo : memo_run nat nat Nat.eqb (fun k => k * k) [] [3; 4; 3; 3; 4] = [9; 16; 9; 9; 16].
Proof. vm_compute. reflexivity. Qed.
