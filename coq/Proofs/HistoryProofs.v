(* C18: the history machine (Model/History.v) refines the batch specification (Spec/C18.v). *)
From Coq Require Import List NArith Bool Arith Lia Permutation.
Import ListNotations.
From GY Require Import Model.Registry Model.History Spec.C18.

(* ------------------------------------------------------------------ strings and maps *)
Lemma seqb_refl : forall s, str_eqb s s = true.
Proof. induction s as [|x s IH]; simpl; [reflexivity|]. rewrite N.eqb_refl, IH. reflexivity. Qed.

Lemma seqb_eq : forall a b, str_eqb a b = true <-> a = b.
Proof.
  induction a as [|x a IH]; intros [|y b]; simpl; split; intros H; try discriminate; try reflexivity.
  - apply andb_true_iff in H. destruct H as [H1 H2]. apply N.eqb_eq in H1. apply IH in H2. congruence.
  - inversion H; subst. rewrite N.eqb_refl. simpl. apply seqb_refl.
Qed.

Lemma seqb_sym : forall a b, str_eqb a b = str_eqb b a.
Proof.
  intros a b. destruct (str_eqb a b) eqn:E1, (str_eqb b a) eqn:E2; try reflexivity.
  - apply seqb_eq in E1. subst. rewrite seqb_refl in E2. discriminate.
  - apply seqb_eq in E2. subst. rewrite seqb_refl in E1. discriminate.
Qed.

Lemma mget_mdel' : forall m k k', mget (mdel m k) k' = if str_eqb k k' then None else mget m k'.
Proof.
  induction m as [|[k0 v] m IH]; intros k k'; simpl.
  - destruct (str_eqb k k'); reflexivity.
  - destruct (str_eqb k0 k) eqn:E0.
    + rewrite IH. apply seqb_eq in E0. subst k0. destruct (str_eqb k k'); reflexivity.
    + simpl. rewrite IH. destruct (str_eqb k0 k') eqn:E1; [|reflexivity].
      destruct (str_eqb k k') eqn:E2; [|reflexivity].
      apply seqb_eq in E1. apply seqb_eq in E2. subst. rewrite seqb_refl in E0. discriminate.
Qed.

Lemma mget_mset' : forall m k v k', mget (mset m k v) k' = if str_eqb k k' then Some v else mget m k'.
Proof. intros. unfold mset. simpl. rewrite mget_mdel'. destruct (str_eqb k k'); reflexivity. Qed.

Lemma mem_str_In : forall k l, mem_str k l = true <-> In k l.
Proof.
  intros k l. unfold mem_str. rewrite existsb_exists. split.
  - intros [x [Hx E]]. apply seqb_eq in E. subst. exact Hx.
  - intros H. exists k. split; [exact H | apply seqb_refl].
Qed.

Lemma mem_str_false : forall k l, mem_str k l = false <-> ~ In k l.
Proof.
  intros k l. rewrite <- mem_str_In. destruct (mem_str k l); split; intros H; try reflexivity; try discriminate.
  exfalso. apply H. reflexivity.
Qed.

Lemma aget_aset_str : forall (V : Type) (m : list (str * V)) k v k',
  aget str_eqb (aset str_eqb m k v) k' = if str_eqb k k' then Some v else aget str_eqb m k'.
Proof.
  intros V m k v k'. unfold aset. simpl. destruct (str_eqb k k') eqn:E; [reflexivity|].
  induction m as [|[k0 v0] m IH]; simpl; [reflexivity|].
  destruct (str_eqb k0 k) eqn:E0.
  - rewrite IH. apply seqb_eq in E0. subst k0. rewrite E. reflexivity.
  - simpl. rewrite IH. reflexivity.
Qed.

(* ------------------------------------------------------------------ the registry half *)
Definition loaded_has (r : mstate) (k : str) : Prop := exists h, mget (Loaded r) k = Some h.

Lemma add_verdict : forall r h,
  snd (add r h) = match mget (Loaded r) (lkey (h_kind h) (FullName h)) with Some _ => false | None => true end.
Proof. intros r h. unfold add. destruct (mget (Loaded r) _); reflexivity. Qed.

Lemma add_fail_same : forall r h, snd (add r h) = false -> fst (add r h) = r.
Proof. intros r h. unfold add. destruct (mget (Loaded r) _); simpl; [reflexivity|discriminate]. Qed.

Lemma add_loaded : forall r h k, snd (add r h) = true ->
  (loaded_has (fst (add r h)) k <-> loaded_has r k \/ k = lkey (h_kind h) (FullName h)).
Proof.
  intros r h k. unfold add, loaded_has. destruct (mget (Loaded r) _) eqn:E; cbn [fst snd Loaded]; [discriminate|]. intros _.
  rewrite mget_mset'. destruct (str_eqb (lkey (h_kind h) (FullName h)) k) eqn:Ek.
  - apply seqb_eq in Ek. subst k. split; [intros _; right; reflexivity | intros _; eexists; reflexivity].
  - split; [intros H; left; exact H|]. intros [H|H]; [exact H|]. subst k. rewrite seqb_refl in Ek. discriminate.
Qed.

Definition tds_of (acc : list ghdr) : list N := flat_map g_tds acc.

Lemma reg_from_app : forall a b r, reg_from r (a ++ b) = reg_from (reg_from r a) b.
Proof. intros. unfold reg_from. apply fold_left_app. Qed.

Lemma tds_of_app : forall a b, tds_of (a ++ b) = tds_of a ++ tds_of b.
Proof. intros. unfold tds_of. apply flat_map_app. Qed.

Lemma reg_from_loaded : forall acc r k,
  loaded_has (reg_from r acc) k <-> loaded_has r k \/ In k (keys acc).
Proof.
  induction acc as [|g acc IH]; intros r k; simpl.
  - tauto.
  - rewrite IH. destruct (snd (add r (g_hdr g))) eqn:V.
    + rewrite (add_loaded _ _ _ V). unfold key_of, gkind. intuition (subst; auto).
    + rewrite (add_fail_same _ _ V). split; [tauto|]. intros [H|[H|H]]; auto.
      left. subst k. rewrite add_verdict in V. unfold key_of, gkind, loaded_has.
      destruct (mget (Loaded r) _); [eexists; reflexivity|discriminate].
Qed.

Lemma reg_of_loaded : forall acc k, loaded_has (reg_of acc) k <-> In k (keys acc).
Proof.
  intros. unfold reg_of. rewrite reg_from_loaded. split; [|tauto]. intros [[h H]|H]; [|exact H]. discriminate.
Qed.

Lemma loaded_none : forall acc g, ~ In (key_of g) (keys acc) -> mget (Loaded (reg_of acc)) (key_of g) = None.
Proof.
  intros acc g H. destruct (mget (Loaded (reg_of acc)) (key_of g)) eqn:E; [|reflexivity].
  exfalso. apply H. apply reg_of_loaded. eexists; exact E.
Qed.

Lemma loaded_some : forall acc g, In (key_of g) (keys acc) -> exists h, mget (Loaded (reg_of acc)) (key_of g) = Some h.
Proof. intros acc g H. apply reg_of_loaded in H. exact H. Qed.

(* ------------------------------------------------------------------ invariant: the core of the state *)
Section Refine.
  Variable obs : Type.
  Variable sem : view -> obs.

  Definition Inv (st : state obs) (acc : list ghdr) : Prop :=
    reg st = reg_of acc /\ mods st = acc /\ tdict st = tds_of acc.

  Lemma Inv_new : Inv NewState [].
  Proof. repeat split. Qed.

  (* what a load leaves alone *)
  Definition same_memo (a b : state obs) : Prop :=
    includes a = includes b /\ merged a = merged b /\ ecache a = ecache b /\
    idict a = idict b /\ binds a = binds b /\ tmemo a = tmemo b.

  Lemma same_memo_refl : forall a, same_memo a a.
  Proof. intros; repeat split. Qed.

  Lemma spec_goods_ext : forall l u1 u2, (forall k, mem_str k u1 = mem_str k u2) -> spec_goods u1 l = spec_goods u2 l.
  Proof.
    induction l as [|[g|tds] l IH]; intros u1 u2 H; simpl; try reflexivity.
    rewrite (H (key_of g)). destruct (mem_str (key_of g) u2); [reflexivity|].
    rewrite (IH (key_of g :: u1) (key_of g :: u2)); [reflexivity|].
    intros k. unfold mem_str in *. simpl. rewrite H. reflexivity.
  Qed.

  Lemma keys_snoc : forall acc g k, mem_str k (keys (acc ++ [g])) = mem_str k (key_of g :: keys acc).
  Proof.
    intros. unfold keys. rewrite map_app. unfold mem_str. rewrite existsb_app. simpl.
    rewrite orb_false_r. apply orb_comm.
  Qed.

  (* an accepted text: every item is filed, the memos are not touched *)
  Lemma load_items_ok : forall fx l (st : state obs) acc gs,
    Inv st acc -> spec_goods (keys acc) l = Some gs ->
    exists st', load_items fx st l = (st', true) /\ Inv st' (acc ++ gs) /\ same_memo st st' /\
                (gs = [] -> st' = st) /\ (gs <> [] -> fx_byns fx = true -> byns st' = []).
  Proof.
    intros fx. induction l as [|[g|tds] l IH]; intros st acc gs HI HS; simpl in *.
    - inversion HS; subst. exists st. rewrite app_nil_r. repeat split; try apply HI; try reflexivity. congruence.
    - destruct (mem_str (key_of g) (keys acc)) eqn:EM; [discriminate|].
      destruct (spec_goods (key_of g :: keys acc) l) as [gs'|] eqn:ES; [|discriminate].
      inversion HS; subst gs. clear HS.
      destruct HI as [HR [HM HT]].
      apply mem_str_false in EM.
      pose proof (loaded_none acc g EM) as HN.
      destruct (add (reg st) (g_hdr g)) as [rg ok] eqn:EA.
      assert (ok = true) as ->.
      { change ok with (snd (rg, ok)). rewrite <- EA. rewrite add_verdict. rewrite HR.
        unfold key_of, gkind in HN. rewrite HN. reflexivity. }
      assert (HI1 : Inv (accept fx st rg g) (acc ++ [g])).
      { repeat split; simpl.
        - change rg with (fst (rg, true)). rewrite <- EA. rewrite HR. unfold reg_of. rewrite reg_from_app. reflexivity.
        - rewrite HM. reflexivity.
        - rewrite HT. rewrite tds_of_app. unfold tds_of at 3. simpl. rewrite app_nil_r. reflexivity. }
      assert (ES1 : spec_goods (keys (acc ++ [g])) l = Some gs').
      { rewrite <- ES. apply spec_goods_ext. intros k. apply keys_snoc. }
      destruct (IH _ _ _ HI1 ES1) as [st' [HL [HI' [HS' [Hnil Hbyns]]]]].
      exists st'. rewrite HL. split; [reflexivity|]. split; [rewrite <- app_assoc in HI'; exact HI'|].
      split.
      { destruct HS' as [A [B [C [D [E F]]]]]. simpl in *. repeat split; assumption. }
      split; [discriminate|].
      intros _ Hfx. destruct gs' as [|g' gs'].
      + rewrite (Hnil eq_refl). simpl. rewrite Hfx. reflexivity.
      + apply Hbyns; [discriminate|exact Hfx].
    - discriminate.
  Qed.

  (* the repaired Parse decides exactly as the specification does *)
  Lemma precheck_spec : forall l loaded seen used,
    (forall k, mem_str k used = true <-> ((exists h, mget loaded k = Some h) \/ mem_str k seen = true)) ->
    precheck loaded seen l = match spec_goods used l with Some _ => true | None => false end.
  Proof.
    induction l as [|[g|tds] l IH]; intros loaded seen used H; simpl; try reflexivity.
    destruct (mget loaded (key_of g)) eqn:EL.
    - assert (mem_str (key_of g) used = true) as -> by (apply H; left; eexists; exact EL). reflexivity.
    - destruct (mem_str (key_of g) seen) eqn:ES.
      + assert (mem_str (key_of g) used = true) as -> by (apply H; right; exact ES). reflexivity.
      + assert (mem_str (key_of g) used = false) as ->.
        { destruct (mem_str (key_of g) used) eqn:EU; [|reflexivity].
          apply H in EU. destruct EU as [[h Hh]|E]; congruence. }
        rewrite (IH loaded (key_of g :: seen) (key_of g :: used)).
        * destruct (spec_goods (key_of g :: used) l); reflexivity.
        * intros k. unfold mem_str in *. simpl. destruct (str_eqb k (key_of g)); simpl; [tauto|]. apply H.
  Qed.

  Lemma precheck_inv : forall (st : state obs) acc l, Inv st acc ->
    precheck (Loaded (reg st)) [] l = match spec_goods (keys acc) l with Some _ => true | None => false end.
  Proof.
    intros st acc l [HR _]. apply precheck_spec. intros k. rewrite HR. split.
    - intros H. left. apply mem_str_In in H. apply reg_of_loaded in H. exact H.
    - intros [H|H]; [|discriminate]. apply mem_str_In. apply reg_of_loaded. exact H.
  Qed.

  (* a text the specification rejects: the pinned loop stops at the first bad or duplicate item *)
  Lemma load_items_first : forall fx (st : state obs) l,
    fails_at_first st (Items l) = true -> l <> [] -> load_items fx st l = (st, false).
  Proof.
    intros fx st [|[g|tds] l] H Hne; simpl in *; try reflexivity; try congruence.
    unfold add. unfold key_of, gkind in H. destruct (mget (Loaded (reg st)) _); [reflexivity|discriminate].
  Qed.

  Lemma load_items_false_spec : forall fx l (st : state obs) acc,
    Inv st acc -> snd (load_items fx st l) = false -> spec_goods (keys acc) l = None.
  Proof.
    intros fx l st acc HI HF. destruct (spec_goods (keys acc) l) as [gs|] eqn:E; [|reflexivity].
    destruct (load_items_ok fx l st acc gs HI E) as [st' [HL _]]. rewrite HL in HF. discriminate.
  Qed.

  (* ---------------- the load step against the specification *)
  Lemma load_accept : forall fx (st : state obs) acc t gs,
    Inv st acc -> spec_load acc t = Some gs ->
    exists st', load fx st t = (st', true) /\ Inv st' (acc ++ gs) /\ same_memo st st' /\
                (gs = [] -> st' = st) /\ (gs <> [] -> fx_byns fx = true -> byns st' = []).
  Proof.
    intros fx st acc [|l] gs HI HS; simpl in *; [discriminate|].
    destruct (load_items_ok fx l st acc gs HI HS) as [st' H]. exists st'.
    destruct (fx_atomic fx); [|exact H].
    rewrite (precheck_inv st acc l HI), HS. exact H.
  Qed.

  Lemma load_reject : forall fx (st : state obs) acc t,
    Inv st acc -> spec_load acc t = None -> fx_atomic fx = true \/ partial_shape acc t = false ->
    load fx st t = (st, false).
  Proof.
    intros fx st acc [|l] HI HS Hor; simpl in *; [reflexivity|].
    destruct (fx_atomic fx) eqn:EA.
    - rewrite (precheck_inv st acc l HI), HS. reflexivity.
    - destruct Hor as [Hor|Hor]; [discriminate|].
      destruct l as [|[g|tds] l]; simpl in *; try discriminate; try reflexivity.
      rewrite HS in Hor. rewrite andb_true_r in Hor. apply negb_false_iff in Hor.
      apply mem_str_In in Hor. destruct HI as [HR _].
      destruct (loaded_some acc g Hor) as [h Hh]. unfold add. rewrite HR.
      unfold key_of, gkind in Hh. rewrite Hh. reflexivity.
  Qed.

  (* once the repaired Parse has checked a text, the adding loop cannot fail *)
  Lemma precheck_load_ok : forall fx l (st : state obs) loaded seen,
    precheck loaded seen l = true ->
    (forall k h, mget (Loaded (reg st)) k = Some h -> (exists h', mget loaded k = Some h') \/ mem_str k seen = true) ->
    snd (load_items fx st l) = true.
  Proof.
    intros fx. induction l as [|[g|tds] l IH]; intros st loaded seen HP HL; simpl in *; try reflexivity; try discriminate.
    destruct (mget loaded (key_of g)) eqn:EL; [discriminate|].
    destruct (mem_str (key_of g) seen) eqn:ES; [discriminate|].
    assert (EN : mget (Loaded (reg st)) (key_of g) = None).
    { destruct (mget (Loaded (reg st)) (key_of g)) eqn:E; [|reflexivity].
      destruct (HL _ _ E) as [[h' Hh]|Hs]; congruence. }
    unfold add. unfold key_of, gkind in EN. rewrite EN.
    apply (IH _ loaded (key_of g :: seen) HP).
    intros k h. cbn [accept reg Loaded]. rewrite mget_mset'. fold (gkind g). fold (key_of g).
    unfold mem_str. cbn [existsb]. rewrite (seqb_sym k (key_of g)).
    destruct (str_eqb (key_of g) k); [intros _; right; reflexivity|].
    intros H. apply HL in H. exact H.
  Qed.

  (* a failed load leaves no trace (any code; for the pinned Parse outside the listed shape) *)
  Lemma failed_load_no_trace : forall fx (st : state obs) t,
    snd (load fx st t) = false -> fx_atomic fx = true \/ fails_at_first st t = true -> fst (load fx st t) = st.
  Proof.
    intros fx st [|l] HF Hor; simpl in *; [reflexivity|].
    destruct (fx_atomic fx) eqn:EA.
    - destruct (precheck (Loaded (reg st)) [] l) eqn:EP; [|reflexivity].
      exfalso. rewrite (precheck_load_ok fx l st _ _ EP) in HF; [discriminate|].
      intros k h H. left. eexists; exact H.
    - destruct Hor as [Hor|Hor]; [discriminate|].
      destruct l as [|[g|tds] l]; simpl in *; try discriminate; try reflexivity.
      unfold add in *. unfold key_of, gkind in Hor. destruct (mget (Loaded (reg st)) _); [reflexivity|discriminate].
  Qed.

  (* ---------------- Process reads the core and the memos it does not reset; it writes neither core nor byNS *)
  Lemma Process_keeps : forall fx (st : state obs),
    reg (fst (Process sem fx st)) = reg st /\ mods (fst (Process sem fx st)) = mods st /\
    tdict (fst (Process sem fx st)) = tdict st /\ byns (fst (Process sem fx st)) = byns st /\
    ecache (fst (Process sem fx st)) = Some (snd (Process sem fx st)).
  Proof.
    intros fx st. unfold Process. destruct (process_core (reg st) (mods st) (p_init fx st)) as [p ok].
    simpl. repeat split.
  Qed.

  Lemma Process_obs : forall fx (a b : state obs),
    reg a = reg b -> mods a = mods b -> tdict a = tdict b -> p_init fx a = p_init fx b ->
    snd (Process sem fx a) = snd (Process sem fx b).
  Proof.
    intros fx a b HR HM HT HP. unfold Process. rewrite HR, HM, HP.
    destruct (process_core (reg b) (mods b) (p_init fx b)) as [p ok]. simpl.
    unfold view_of. rewrite HR, HM, HT. reflexivity.
  Qed.

  Definition all_fixed (fx : fixes) : bool :=
    fx_atomic fx && fx_byns fx && fx_types fx && fx_idents fx && fx_binds fx.

  Lemma all_fixed_flags : forall fx, all_fixed fx = true ->
    fx_atomic fx = true /\ fx_byns fx = true /\ fx_types fx = true /\ fx_idents fx = true /\ fx_binds fx = true.
  Proof.
    intros fx H. unfold all_fixed in H. repeat (apply andb_true_iff in H; destruct H as [H ?]). repeat split; assumption.
  Qed.

  Lemma p_init_fixed : forall fx (a b : state obs), all_fixed fx = true -> p_init fx a = p_init fx b.
  Proof.
    intros fx a b H. apply all_fixed_flags in H. destruct H as [_ [_ [H1 [H2 H3]]]].
    unfold p_init. rewrite H1, H2, H3. reflexivity.
  Qed.

  (* states that have never been processed carry no memo *)
  Definition unprocessed (st : state obs) : Prop := idict st = [] /\ binds st = [] /\ tmemo st = [].

  Lemma p_init_unprocessed : forall fx (a b : state obs), unprocessed a -> unprocessed b -> p_init fx a = p_init fx b.
  Proof.
    intros fx a b [A1 [A2 A3]] [B1 [B2 B3]]. unfold p_init. rewrite A1, A2, A3, B1, B2, B3. reflexivity.
  Qed.

  (* ---------------- the fresh set of the specification *)
  Definition one (g : ghdr) : op := Load (Items [Good g]).

  Lemma NoDup_keys_snoc : forall acc g, NoDup (keys (acc ++ [g])) -> NoDup (keys acc) /\ ~ In (key_of g) (keys acc).
  Proof.
    intros acc g H. unfold keys in *. rewrite map_app in H. simpl in H.
    apply NoDup_remove in H. rewrite app_nil_r in H. exact H.
  Qed.

  Lemma run_app : forall fx a b (st : state obs),
    run sem fx st (a ++ b) =
    let '(st1, xs) := run sem fx st a in let '(st2, ys) := run sem fx st1 b in (st2, xs ++ ys).
  Proof.
    intros fx. induction a as [|o a IH]; intros b st; simpl.
    - destruct (run sem fx st b); reflexivity.
    - destruct (step sem fx st o) as [st1 x]. rewrite IH.
      destruct (run sem fx st1 a) as [st2 xs]. destruct (run sem fx st2 b) as [st3 ys]. reflexivity.
  Qed.

  Lemma fresh_from : forall fx gs (st : state obs) acc,
    Inv st acc -> NoDup (keys (acc ++ gs)) ->
    Inv (fst (run sem fx st (map one gs))) (acc ++ gs) /\ same_memo st (fst (run sem fx st (map one gs))).
  Proof.
    intros fx. induction gs as [|g gs IH]; intros st acc HI HN.
    - simpl. rewrite app_nil_r. split; [exact HI|apply same_memo_refl].
    - cbn [map run]. change (one g) with (Load (Items [Good g])). cbn [step].
      assert (HS : spec_load acc (Items [Good g]) = Some [g]).
      { simpl. assert (~ In (key_of g) (keys acc)) as Hn.
        { unfold keys in HN. rewrite map_app in HN. simpl in HN. apply NoDup_remove_2 in HN.
          intros HIn. apply HN. apply in_or_app. left. exact HIn. }
        apply mem_str_false in Hn. rewrite Hn. reflexivity. }
      destruct (load_accept fx st acc _ _ HI HS) as [st1 [HL [HI1 [HM1 _]]]].
      rewrite HL. specialize (IH st1 (acc ++ [g]) HI1).
      rewrite <- app_assoc in IH. simpl in IH. specialize (IH HN).
      destruct (run sem fx st1 (map one gs)) as [st2 xs]. simpl in *.
      destruct IH as [IH1 IH2]. split; [exact IH1|].
      destruct HM1 as [A [B [C [D [E F]]]]]. destruct IH2 as [A' [B' [C' [D' [E' F']]]]].
      repeat split; congruence.
  Qed.

  Lemma fresh_inv : forall fx acc, NoDup (keys acc) ->
    Inv (fresh sem fx acc) acc /\ unprocessed (fresh sem fx acc).
  Proof.
    intros fx acc HN. unfold fresh. change (map (fun g => Load (Items [Good g])) acc) with (map one acc).
    destruct (fresh_from fx acc NewState [] Inv_new HN) as [HI HM]. simpl in HI. split; [exact HI|].
    destruct HM as [_ [_ [_ [D [E F]]]]]. unfold unprocessed. rewrite <- D, <- E, <- F. repeat split.
  Qed.

  (* ---------------- FindModuleByNamespace *)
  Lemma ns_scan_choose : forall holder ns ms found,
    ns_scan holder ns found ms = ns_choose holder found (ns_matches ns ms).
  Proof.
    intros holder ns. induction ms as [|g ms IH]; intros found; simpl; [reflexivity|].
    destruct (gkind g); [|apply IH].
    destruct (str_eqb (g_ns g) ns); [|apply IH]. simpl.
    destruct found as [f|]; [|apply IH].
    destruct (N.eqb (gid f) (gid g)); [apply IH|].
    destruct (str_eqb (gname f) (gname g)); [apply IH|reflexivity].
  Qed.

  Definition NsInv (st : state obs) (acc : list ghdr) : Prop :=
    forall ns id, aget str_eqb (byns st) ns = Some id -> spec_ns acc ns = NsFound id.

  Lemma QueryNS_spec : forall (st : state obs) acc ns,
    Inv st acc -> NsInv st acc ->
    snd (QueryNS st ns) = spec_ns acc ns /\
    Inv (fst (QueryNS st ns)) acc /\ NsInv (fst (QueryNS st ns)) acc /\
    same_memo st (fst (QueryNS st ns)).
  Proof.
    intros st acc ns HI HN. unfold QueryNS.
    destruct (aget str_eqb (byns st) ns) as [id|] eqn:EC.
    - simpl. rewrite (HN _ _ EC). repeat split; try apply HI. exact HN.
    - destruct HI as [HR [HM HT]]. rewrite ns_scan_choose. rewrite HR, HM. fold (spec_ns acc ns).
      destruct (spec_ns acc ns) as [id| |] eqn:ES; cbn [fst snd]; repeat split; try assumption.
      intros ns' id'. cbn [byns]. rewrite aget_aset_str. destruct (str_eqb ns ns') eqn:E.
      + apply seqb_eq in E. subst ns'. intros H. inversion H; subst. exact ES.
      + apply HN.
  Qed.

  (* ---------------- the simulation *)
  Lemma spec_goods_nodup : forall l used gs,
    NoDup used -> spec_goods used l = Some gs -> NoDup (rev (map key_of gs) ++ used).
  Proof.
    induction l as [|[g|tds] l IH]; intros used gs HN HS; simpl in *.
    - inversion HS; subst. exact HN.
    - destruct (mem_str (key_of g) used) eqn:EM; [discriminate|].
      destruct (spec_goods (key_of g :: used) l) as [gs'|] eqn:ES; [|discriminate].
      inversion HS; subst gs. simpl. rewrite <- app_assoc. simpl.
      apply (IH (key_of g :: used)); [|exact ES].
      constructor; [apply mem_str_false; exact EM|exact HN].
    - discriminate.
  Qed.

  Lemma spec_load_nodup : forall acc t gs,
    NoDup (keys acc) -> spec_load acc t = Some gs -> NoDup (keys (acc ++ gs)).
  Proof.
    intros acc [|l] gs HN HS; simpl in HS; [discriminate|].
    pose proof (spec_goods_nodup l (keys acc) gs HN HS) as H.
    unfold keys. rewrite map_app. eapply Permutation_NoDup; [|exact H].
    eapply Permutation_trans; [apply Permutation_app_comm|].
    apply Permutation_app_head. apply Permutation_sym. apply Permutation_rev.
  Qed.

  Definition Sim (fx : fixes) (st : state obs) (a : astate) : Prop :=
    Inv st (a_acc a) /\ NoDup (keys (a_acc a)) /\ NsInv st (a_acc a) /\
    ecache st = option_map (batch sem fx) (a_snap a).

  Lemma Sim_init : forall fx, Sim fx NewState a_init.
  Proof. intros fx. split; [apply Inv_new|]. split; [constructor|]. split; [|reflexivity]. intros ns id H. discriminate. Qed.

  Lemma Process_batch : forall fx (st : state obs) acc,
    Inv st acc -> NoDup (keys acc) -> all_fixed fx = true \/ unprocessed st ->
    snd (Process sem fx st) = batch sem fx acc.
  Proof.
    intros fx st acc [HR [HM HT]] HN Hor. unfold batch.
    destruct (fresh_inv fx acc HN) as [[FR [FM FT]] FU].
    apply Process_obs; try congruence.
    destruct Hor as [H|H]; [apply p_init_fixed; exact H | apply p_init_unprocessed; assumption].
  Qed.

  Lemma step_sim : forall fx (st : state obs) a o,
    all_fixed fx = true -> Sim fx st a ->
    snd (step sem fx st o) = snd (spec_step sem fx a o) /\
    Sim fx (fst (step sem fx st o)) (fst (spec_step sem fx a o)).
  Proof.
    intros fx st a o HF [HI [HN [HS HE]]].
    pose proof (all_fixed_flags fx HF) as [FA [FB _]].
    destruct o as [t| |ns|]; cbn [step spec_step].
    - destruct (spec_load (a_acc a) t) as [gs|] eqn:EL.
      + destruct (load_accept fx st (a_acc a) t gs HI EL) as [st' [HL [HI' [HM [Hnil Hby]]]]].
        rewrite HL. cbn [fst snd a_acc a_snap]. split; [reflexivity|].
        split; [exact HI'|]. split; [apply (spec_load_nodup _ t); assumption|]. split.
        * destruct gs as [|g gs].
          -- rewrite (Hnil eq_refl). rewrite app_nil_r. exact HS.
          -- intros ns id H. rewrite Hby in H; [discriminate|discriminate|exact FB].
        * destruct HM as [_ [_ [C _]]]. rewrite <- C. exact HE.
      + rewrite (load_reject fx st (a_acc a) t HI EL (or_introl FA)). cbn [fst snd].
        split; [reflexivity|]. split; [exact HI|]. split; [exact HN|]. split; [exact HS|exact HE].
    - pose proof (Process_keeps fx st) as [KR [KM [KT [KB KE]]]].
      pose proof (Process_batch fx st (a_acc a) HI HN (or_introl HF)) as HB.
      destruct (Process sem fx st) as [st' r]. cbn [fst snd a_acc a_snap] in *.
      split; [rewrite HB; reflexivity|].
      destruct HI as [HR [HM HT]].
      unfold Sim, Inv. cbn [a_acc a_snap option_map]. split; [repeat split; congruence|]. split; [exact HN|]. split.
      * intros ns id H. rewrite KB in H. apply HS. exact H.
      * rewrite KE, HB. reflexivity.
    - destruct (QueryNS_spec st (a_acc a) ns HI HS) as [Q1 [Q2 [Q3 Q4]]].
      destruct (QueryNS st ns) as [st' r]. cbn [fst snd] in *.
      split; [rewrite Q1; reflexivity|]. split; [exact Q2|]. split; [exact HN|]. split; [exact Q3|].
      destruct Q4 as [_ [_ [C _]]]. rewrite <- C. exact HE.
    - cbn [fst snd]. split; [rewrite HE; reflexivity|].
      destruct HI as [HR [HM HT]]. split; [repeat split; assumption|]. split; [exact HN|]. split; [exact HS|exact HE].
  Qed.

  Lemma run_sim : forall fx ops (st : state obs) a,
    all_fixed fx = true -> Sim fx st a ->
    snd (run sem fx st ops) = snd (spec_run sem fx a ops) /\
    Sim fx (fst (run sem fx st ops)) (fst (spec_run sem fx a ops)).
  Proof.
    intros fx. induction ops as [|o ops IH]; intros st a HF HS; cbn [run spec_run].
    - split; [reflexivity|exact HS].
    - destruct (step_sim fx st a o HF HS) as [E1 S1].
      destruct (step sem fx st o) as [st1 x]. destruct (spec_step sem fx a o) as [a1 y].
      cbn [fst snd] in *. destruct (IH st1 a1 HF S1) as [E2 S2].
      destruct (run sem fx st1 ops) as [st2 xs]. destruct (spec_run sem fx a1 ops) as [a2 ys].
      cbn [fst snd] in *. split; [congruence|exact S2].
  Qed.

  (* T: history refinement, for the code with every repair *)
  Theorem refinement : forall fx ops, all_fixed fx = true ->
    snd (run sem fx NewState ops) = snd (spec_run sem fx a_init ops).
  Proof. intros fx ops HF. apply (run_sim fx ops NewState a_init HF (Sim_init fx)). Qed.

  (* the accepted items after a history *)
  Definition accepted (fx : fixes) (ops : list op) : list ghdr := a_acc (fst (spec_run sem fx a_init ops)).

  Theorem process_twice : forall fx pre, all_fixed fx = true ->
    let st := fst (run sem fx NewState pre) in
    snd (Process sem fx (fst (Process sem fx st))) = snd (Process sem fx st).
  Proof.
    intros fx pre HF st.
    destruct (run_sim fx pre NewState a_init HF (Sim_init fx)) as [_ [HI [HN _]]]. fold st in HI.
    set (acc := a_acc (fst (spec_run sem fx a_init pre))) in *.
    rewrite (Process_batch fx st acc HI HN (or_introl HF)).
    pose proof (Process_keeps fx st) as [KR [KM [KT _]]].
    apply Process_batch; [|exact HN|left; exact HF].
    destruct HI as [HR [HM HT]]. repeat split; congruence.
  Qed.

  Theorem incremental : forall fx pre more, all_fixed fx = true ->
    let st := fst (run sem fx NewState (pre ++ Proc :: map Load more)) in
    snd (Process sem fx st) = batch sem fx (accepted fx (pre ++ Proc :: map Load more)).
  Proof.
    intros fx pre more HF st.
    destruct (run_sim fx (pre ++ Proc :: map Load more) NewState a_init HF (Sim_init fx)) as [_ [HI [HN _]]].
    apply Process_batch; [exact HI|exact HN|left; exact HF].
  Qed.

  (* a text that fails leaves no trace: the rest of the history runs as if it had not been offered *)
  Theorem failed_load_invisible : forall fx (st : state obs) t post,
    snd (load fx st t) = false -> fx_atomic fx = true \/ fails_at_first st t = true ->
    run sem fx st (Load t :: post) =
    (fst (run sem fx st post), OLoad false :: snd (run sem fx st post)).
  Proof.
    intros fx st t post HF Hor. cbn [run step].
    pose proof (failed_load_no_trace fx st t HF Hor) as HS.
    destruct (load fx st t) as [st' ok]. cbn [fst snd] in *. subst.
    destruct (run sem fx st post); reflexivity.
  Qed.

  (* any code, pinned included: loads (none of the listed shape) followed by the first Process *)
  Definition a0 (acc : list ghdr) : astate := {| a_acc := acc; a_snap := None |}.

  Lemma loads_sim : forall fx ts (st : state obs) acc,
    Inv st acc -> NoDup (keys acc) -> no_partial acc (map Load ts) ->
    snd (run sem fx st (map Load ts)) = snd (spec_run sem fx (a0 acc) (map Load ts)) /\
    Inv (fst (run sem fx st (map Load ts))) (a_acc (fst (spec_run sem fx (a0 acc) (map Load ts)))) /\
    NoDup (keys (a_acc (fst (spec_run sem fx (a0 acc) (map Load ts))))) /\
    a_snap (fst (spec_run sem fx (a0 acc) (map Load ts))) = None /\
    same_memo st (fst (run sem fx st (map Load ts))).
  Proof.
    intros fx. induction ts as [|t ts IH]; intros st acc HI HN HP.
    - cbn. split; [reflexivity|]. split; [exact HI|]. split; [exact HN|]. split; [reflexivity|apply same_memo_refl].
    - cbn [map run spec_run step spec_step a_acc a_snap a0]. destruct HP as [HP1 HP2]. cbn [next_acc] in HP2.
      destruct (spec_load acc t) as [gs|] eqn:EL.
      + destruct (load_accept fx st acc t gs HI EL) as [st' [HL [HI' [HM _]]]]. rewrite HL.
        specialize (IH st' (acc ++ gs) HI' (spec_load_nodup _ _ _ HN EL) HP2). unfold a0 in IH.
        destruct (run sem fx st' (map Load ts)) as [st2 xs].
        destruct (spec_run sem fx {| a_acc := acc ++ gs; a_snap := None |} (map Load ts)) as [a2 ys].
        cbn [fst snd] in *. destruct IH as [E [I2 [N2 [S2 M2]]]].
        split; [congruence|]. split; [exact I2|]. split; [exact N2|]. split; [exact S2|].
        destruct HM as [A [B [C [D [E' F]]]]]. destruct M2 as [A' [B' [C' [D' [E'' F']]]]]. repeat split; congruence.
      + rewrite (load_reject fx st acc t HI EL (or_intror HP1)).
        specialize (IH st acc HI HN HP2).
        destruct (run sem fx st (map Load ts)) as [st2 xs].
        destruct (spec_run sem fx (a0 acc) (map Load ts)) as [a2 ys].
        cbn [fst snd] in *. destruct IH as [E [I2 [N2 [S2 M2]]]].
        split; [congruence|]. split; [exact I2|]. split; [exact N2|]. split; [exact S2|exact M2].
  Qed.

  Theorem first_process : forall fx ts,
    no_partial [] (map Load ts) ->
    snd (run sem fx NewState (map Load ts ++ [Proc])) = snd (spec_run sem fx a_init (map Load ts ++ [Proc])).
  Proof.
    intros fx ts HP.
    destruct (loads_sim fx ts NewState [] Inv_new (NoDup_nil _) HP) as [E [HI [HN [HS HM]]]].
    rewrite run_app. change (a0 []) with a_init in *.
    assert (SA : forall a b aa, spec_run sem fx aa (a ++ b) =
       let '(a1, xs) := spec_run sem fx aa a in let '(a2, ys) := spec_run sem fx a1 b in (a2, xs ++ ys)).
    { induction a as [|o a IHa]; intros b aa; cbn [app spec_run].
      - destruct (spec_run sem fx aa b); reflexivity.
      - destruct (spec_step sem fx aa o) as [a1 x]. rewrite IHa.
        destruct (spec_run sem fx a1 a) as [a2 xs]. destruct (spec_run sem fx a2 b) as [a3 ys]. reflexivity. }
    rewrite SA.
    destruct (run sem fx NewState (map Load ts)) as [st1 xs].
    destruct (spec_run sem fx a_init (map Load ts)) as [a1 ys]. cbn [fst snd] in *.
    cbn [run spec_run step spec_step].
    assert (HU : unprocessed st1).
    { destruct HM as [_ [_ [_ [D [E' F]]]]]. unfold unprocessed. rewrite <- D, <- E', <- F. repeat split. }
    rewrite (surjective_pairing (Process sem fx st1)).
    rewrite (Process_batch fx st1 (a_acc a1) HI HN (or_intror HU)). cbn [snd]. congruence.
  Qed.
End Refine.

(* ------------------------------------------------------------------ the checked tree ([now]) *)
Lemma refinement_now :
  forall (obs : Type) (sem : view -> obs) (ops : list op),
  snd (run sem now NewState ops) = snd (spec_run sem now a_init ops).
Proof. intros. apply refinement. reflexivity. Qed.

Lemma process_twice_now :
  forall (obs : Type) (sem : view -> obs) (pre : list op),
  let st := fst (run sem now NewState pre) in
  snd (Process sem now (fst (Process sem now st))) = snd (Process sem now st).
Proof. intros. apply process_twice. reflexivity. Qed.

Lemma incremental_now :
  forall (obs : Type) (sem : view -> obs) (pre : list op) (more : list text),
  let st := fst (run sem now NewState (pre ++ Proc :: map Load more)) in
  snd (Process sem now st) = batch sem now (accepted obs sem now (pre ++ Proc :: map Load more)).
Proof. intros. apply incremental. reflexivity. Qed.

Lemma failed_load_no_trace_now :
  forall (obs : Type) (st : state obs) (t : text),
  snd (load now st t) = false -> fst (load now st t) = st.
Proof. intros obs st t H. apply failed_load_no_trace; [exact H|left; reflexivity]. Qed.

Lemma failed_load_invisible_now :
  forall (obs : Type) (sem : view -> obs) (st : state obs) (t : text) (post : list op),
  snd (load now st t) = false ->
  run sem now st (Load t :: post) = (fst (run sem now st post), OLoad false :: snd (run sem now st post)).
Proof. intros obs sem st t post H. apply failed_load_invisible; [exact H|left; reflexivity]. Qed.
