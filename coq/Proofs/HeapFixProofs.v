(* Pointer-level lemmas about the FixChoice model of Model/Heap.v (wrap_cases / fix_choice / fix_top). *)
From Coq Require Import List NArith Bool Arith Lia Permutation.
From GY Require Import Model.Heap Proofs.HeapProofs.
Import ListNotations.

(* ------------------------------------------------------------------ the specification on plain trees *)
Definition tname (t : tree) : str := match t with TNode nm _ _ _ _ _ _ _ _ => nm end.
Definition tkind (t : tree) : N := match t with TNode _ k _ _ _ _ _ _ _ => k end.
Definition tns (t : tree) : option N := match t with TNode _ _ _ _ ns _ _ _ _ => ns end.
Definition wraps (k : N) (errs : nat) : bool := N.eqb k K_CHOICE && Nat.eqb errs 0.
(* the implicit case put around a member t *)
Definition case_of (t inner : tree) : tree := TNode (tname t) K_CASE None None (tns t) 0 [(tname t, inner)] [] [].

(* every non-case child of an error-free choice is wrapped into a case of its own name; everywhere *)
Fixpoint fix_tree (t : tree) : tree :=
  match t with
  | TNode nm k la ty ns errs ks ti to =>
    let fk := fix go (l : list (str * tree)) : list (str * tree) :=
                match l with [] => [] | (key, c) :: l' => (key, fix_tree c) :: go l' end in
    let wk := fix go (l : list (str * tree)) : list (str * tree) :=
                match l with
                | [] => []
                | (key, c) :: l' =>
                  (key, if N.eqb (tkind c) K_CASE then fix_tree c else case_of c (fix_tree c)) :: go l'
                end in
    TNode nm k la ty ns errs (if wraps k errs then wk ks else fk ks) (fk ti) (fk to)
  end.

Definition fixkid (kt : str * tree) : str * tree := (fst kt, fix_tree (snd kt)).
Definition wrapkid (kt : str * tree) : str * tree :=
  (fst kt, if N.eqb (tkind (snd kt)) K_CASE then fix_tree (snd kt) else case_of (snd kt) (fix_tree (snd kt))).

Lemma fix_tree_eq : forall nm k la ty ns errs ks ti to,
  fix_tree (TNode nm k la ty ns errs ks ti to) =
  TNode nm k la ty ns errs (if wraps k errs then map wrapkid ks else map fixkid ks) (map fixkid ti) (map fixkid to).
Proof.
  intros. simpl.
  assert (F : forall l, (fix go (l : list (str * tree)) : list (str * tree) :=
                 match l with [] => [] | (key, c) :: l' => (key, fix_tree c) :: go l' end) l = map fixkid l).
  { induction l as [|[k0 c] l IH]; simpl; [reflexivity|]. rewrite IH. reflexivity. }
  assert (W : forall l, (fix go (l : list (str * tree)) : list (str * tree) :=
                 match l with [] => [] | (key, c) :: l' =>
                   (key, if N.eqb (tkind c) K_CASE then fix_tree c else case_of c (fix_tree c)) :: go l' end) l
                 = map wrapkid l).
  { induction l as [|[k0 c] l IH]; simpl; [reflexivity|]. rewrite IH. reflexivity. }
  rewrite !F, W. reflexivity.
Qed.

Lemma fix_tree_shape : forall t, tname (fix_tree t) = tname t /\ tkind (fix_tree t) = tkind t /\ tns (fix_tree t) = tns t.
Proof. intros [nm k la ty ns errs ks ti to]. rewrite fix_tree_eq. simpl. auto. Qed.

(* induction over trees through the child lists *)
Section TreeInd.
Variable P : tree -> Prop.
Hypothesis H : forall nm k la ty ns errs ks ti to,
  Forall (fun kt => P (snd kt)) ks -> Forall (fun kt => P (snd kt)) ti -> Forall (fun kt => P (snd kt)) to ->
  P (TNode nm k la ty ns errs ks ti to).
Fixpoint tree_ind2 (t : tree) : P t :=
  match t with
  | TNode nm k la ty ns errs ks ti to =>
    let go := fix go (l : list (str * tree)) : Forall (fun kt => P (snd kt)) l :=
                match l with
                | [] => Forall_nil _
                | kt :: l' => Forall_cons kt (tree_ind2 (snd kt)) (go l')
                end in
    H nm k la ty ns errs ks ti to (go ks) (go ti) (go to)
  end.
End TreeInd.

Lemma map_fixkid_idem : forall l, Forall (fun kt => fix_tree (fix_tree (snd kt)) = fix_tree (snd kt)) l ->
  map fixkid (map fixkid l) = map fixkid l.
Proof.
  induction 1 as [|[k t] l Ht _ IH]; simpl; [reflexivity|]. rewrite IH. f_equal. unfold fixkid. simpl in *. rewrite Ht. reflexivity.
Qed.

Lemma fix_case_of : forall t inner, fix_tree (case_of t inner) = case_of t (fix_tree inner).
Proof. intros. unfold case_of. rewrite fix_tree_eq. reflexivity. Qed.

(* wrapping once is enough: a second pass finds only cases under a choice *)
Theorem fix_tree_idem : forall t, fix_tree (fix_tree t) = fix_tree t.
Proof.
  induction t as [nm k la ty ns errs ks ti to Hk Hi Ho] using tree_ind2.
  rewrite fix_tree_eq. rewrite fix_tree_eq.
  rewrite (map_fixkid_idem _ Hi), (map_fixkid_idem _ Ho). f_equal.
  destruct (wraps k errs); [|apply map_fixkid_idem; assumption].
  clear Hi Ho. induction Hk as [|[k0 t] l Ht _ IH]; [reflexivity|].
  cbn [map]. rewrite IH. f_equal. unfold wrapkid. cbn [fst snd] in *.
  destruct (N.eqb (tkind t) K_CASE) eqn:E.
  - destruct (fix_tree_shape t) as (_ & Hkd & _). rewrite Hkd, E, Ht. reflexivity.
  - assert (Ek : N.eqb (tkind (case_of t (fix_tree t))) K_CASE = true) by reflexivity.
    rewrite Ek, fix_case_of, Ht. reflexivity.
Qed.

(* ------------------------------------------------------------------ fix_choice on the heap *)
Definition step (F : nat) := fun (acc : option heap) (kv : str * id) =>
  match acc with None => None | Some hh => fix_choice F hh (snd kv) end.

Definition post (h : heap) (p : option id) (x : id) (t : tree) (i : list id) (h' : heap) (i' : list id) : Prop :=
  (exists c, walk c h' p x = Some (fix_tree t, i')) /\ NoDup i' /\
  (forall y, In y i' <-> In y i \/ length h <= y < length h') /\ length h <= length h' /\
  (forall y, y < length h -> ~ In y i -> get h' y = get h y).

Definition elem_ok (b : nat) (C : tree -> list id -> Prop) : Prop :=
  forall a h p x t i, walk a h p x = Some (t, i) -> NoDup i -> C t i ->
  exists h' i', (forall F, b <= F -> fix_choice F h x = Some h') /\ post h p x t i h' i'.

Lemma walk_list_lt : forall a h q l ts ids, walk_list (walk a h q) l = Some (ts, ids) -> Forall (fun i => i < length h) ids.
Proof. intros. eapply walk_list_Forall; [|eassumption]. intros. eapply walk_ids_lt; eassumption. Qed.

Lemma walk_list_frame : forall a h1 h2 q l ts ids, walk_list (walk a h1 q) l = Some (ts, ids) ->
  (forall i, In i ids -> get h2 i = get h1 i) -> walk_list (walk a h2 q) l = Some (ts, ids).
Proof.
  intros a h1 h2 q l ts ids H G.
  apply (walk_list_transfer (fun x => get h2 x = get h1 x) (walk a h1 q)); [ | exact H | exact G ].
  intros v t i Hv Hx. eapply walk_frame; eassumption.
Qed.

Lemma walk_list_mono : forall a a' h q l ts ids, a <= a' -> walk_list (walk a h q) l = Some (ts, ids) ->
  walk_list (walk a' h q) l = Some (ts, ids).
Proof. intros. eapply walk_list_true; [|eassumption]. intros. eapply walk_mono; eassumption. Qed.

Lemma fold_ok : forall b C, elem_ok b C ->
  forall l a hc q ts ids, walk_list (walk a hc q) l = Some (ts, ids) -> NoDup ids ->
  (forall k x t i, In (k, x) l -> walk a hc q x = Some (t, i) -> C t i) ->
  exists h' ids', (forall F, b <= F -> fold_left (step F) l (Some hc) = Some h') /\
    (exists c, walk_list (walk c h' q) l = Some (map fixkid ts, ids')) /\ NoDup ids' /\
    (forall y, In y ids' <-> In y ids \/ length hc <= y < length h') /\ length hc <= length h' /\
    (forall y, y < length hc -> ~ In y ids -> get h' y = get hc y).
Proof.
  intros b C HE. induction l as [|[k x] l IH]; intros a hc q ts ids H Nd HC; simpl in H.
  - inversion H; subst. exists hc, []. simpl. split; [intros; reflexivity|]. split; [exists 0; reflexivity|].
    split; [constructor|]. split; [intro y; simpl; split; [tauto|intros [[]|?]; lia]|]. split; auto.
  - destruct (walk a hc q x) as [[t i]|] eqn:Ex; [|discriminate].
    destruct (walk_list (walk a hc q) l) as [[ts1 ids1]|] eqn:El; [|discriminate].
    inversion H; subst. clear H.
    destruct (NoDup_app_elim _ _ Nd) as (Ni & N1 & D).
    destruct (HE _ _ _ _ _ _ Ex Ni (HC _ _ _ _ (or_introl eq_refl) Ex)) as (h1 & i1' & Hf & (c1 & Hw1) & Nd1 & M1 & L1 & Fr1).
    pose proof (walk_list_lt _ _ _ _ _ _ El) as B1. rewrite Forall_forall in B1.
    assert (El1 : walk_list (walk a h1 q) l = Some (ts1, ids1)).
    { eapply walk_list_frame; [exact El|]. intros y Hy. apply Fr1; [apply B1; assumption|]. intro Hc. eapply D; eassumption. }
    destruct (IH a h1 q ts1 ids1 El1 N1) as (h' & ids' & Hfold & (c2 & Hw2) & Nd2 & M2 & L2 & Fr2).
    { intros k0 x0 t0 i0 Hin Hw0.
      destruct (walk_list_In _ _ _ _ k0 x0 El Hin) as (t' & iv & Hv & Hi).
      assert (Hv1 : walk a h1 q x0 = Some (t', iv)).
      { eapply walk_frame; [exact Hv|]. intros y Hy. apply Fr1; [apply B1; apply Hi; assumption|].
        intro Hc. eapply D; [exact Hc|apply Hi; assumption]. }
      rewrite Hv1 in Hw0. inversion Hw0; subst. eapply HC; [right; exact Hin|exact Hv]. }
    pose proof (walk_ids_lt _ _ _ _ _ _ Hw1) as B1'. rewrite Forall_forall in B1'.
    assert (Hsep : forall y, In y i1' -> ~ In y ids1).
    { intros y Hy Hc. apply M1 in Hy. destruct Hy as [Hy|Hy]; [eapply D; eassumption|]. specialize (B1 _ Hc). lia. }
    assert (Hw1' : walk c1 h' q x = Some (fix_tree t, i1')).
    { eapply walk_frame; [exact Hw1|]. intros y Hy. apply Fr2; [apply B1'; assumption|apply Hsep; assumption]. }
    exists h', (i1' ++ ids'). split; [intros F HF; simpl; rewrite (Hf F HF); apply Hfold; assumption|].
    split.
    { exists (max c1 c2). simpl.
      rewrite (walk_mono _ _ _ _ _ _ Hw1' (max c1 c2)) by lia.
      rewrite (walk_list_mono c2 (max c1 c2) _ _ _ _ _ (Nat.le_max_r _ _) Hw2). reflexivity. }
    split.
    { apply NoDup_app_intro; auto. intros y Ha Hb. apply M2 in Hb. destruct Hb as [Hb|Hb].
      - eapply Hsep; eassumption.
      - specialize (B1' _ Ha). lia. }
    split.
    { intro y. rewrite !in_app_iff. rewrite (M1 y), (M2 y). split.
      - intros [[Hy|Hy]|[Hy|Hy]]; auto; right; lia.
      - intros [[Hy|Hy]|Hy]; auto. destruct (Nat.lt_ge_cases y (length h1)); [left; right; lia|right; right; lia]. }
    split; [lia|].
    intros y Hy Hn. rewrite in_app_iff in Hn. rewrite Fr2 by (try lia; tauto). apply Fr1; [assumption|tauto].
Qed.

Definition terrs (t : tree) : nat := match t with TNode _ _ _ _ _ e _ _ _ => e end.
Definition prewrap (kt : str * tree) : str * tree :=
  (fst kt, if N.eqb (tkind (snd kt)) K_CASE then snd kt else case_of (snd kt) (snd kt)).
Definition Cn (n : nat) (t : tree) (i : list id) : Prop := length i <= n \/ (tkind t = K_CASE /\ length i <= S n).

Lemma walk_fields : forall a h p r t ids, walk a h p r = Some (t, ids) ->
  exists c, get h r = Some c /\ tname t = c_name c /\ tkind t = c_kind c /\ tns t = c_ns c /\ terrs t = c_errs c.
Proof.
  intros [|a] h p r t ids H; simpl in H; [discriminate|].
  destruct (get h r) as [c|]; [|discriminate].
  destruct (oid_eqb (c_parent c) p); [|discriminate].
  destruct (walk_list _ (c_children c)) as [[ks i1]|]; [|discriminate].
  destruct (walk_list _ (opt_list (c_input c))) as [[ti i2]|]; [|discriminate].
  destruct (walk_list _ (opt_list (c_output c))) as [[to i3]|]; [|discriminate].
  inversion H; subst. exists c. simpl. auto.
Qed.

Lemma wrap_ok : forall n l h e a ts ids,
  walk_list (walk a h (Some e)) l = Some (ts, ids) -> NoDup ids -> ~ In e ids -> e < length h -> length ids <= n ->
  exists hw dir idsw, wrap_cases h e l = (hw, dir) /\
    walk_list (walk (S a) hw (Some e)) dir = Some (map prewrap ts, idsw) /\ NoDup idsw /\
    (forall y, In y idsw <-> In y ids \/ length h <= y < length hw) /\ length h <= length hw /\
    (forall y, y < length h -> ~ In y ids -> get hw y = get h y) /\
    (forall k x t i, In (k, x) dir -> walk (S a) hw (Some e) x = Some (t, i) -> Cn n t i).
Proof.
  intros n. induction l as [|[k ce] l IH]; intros h e a ts ids H Nd He Hlt Hn; simpl in H.
  - inversion H; subst. exists h, [], []. simpl. split; [reflexivity|]. split; [reflexivity|]. split; [constructor|].
    split; [intro y; split; [tauto|intros [[]|?]; lia]|]. split; [lia|]. split; [auto|]. intros; contradiction.
  - destruct (walk a h (Some e) ce) as [[t iv]|] eqn:Ex; [|discriminate].
    destruct (walk_list (walk a h (Some e)) l) as [[ts1 ids1]|] eqn:El; [|discriminate].
    inversion H; subst. clear H.
    destruct (NoDup_app_elim _ _ Nd) as (Ni & N1 & D).
    rewrite app_length in Hn.
    assert (He1 : ~ In e ids1) by (intro; apply He; rewrite in_app_iff; auto).
    assert (Hei : ~ In e iv) by (intro; apply He; rewrite in_app_iff; auto).
    pose proof (walk_list_lt _ _ _ _ _ _ El) as B1. rewrite Forall_forall in B1.
    pose proof (walk_ids_lt _ _ _ _ _ _ Ex) as Bi. rewrite Forall_forall in Bi.
    destruct (walk_fields _ _ _ _ _ _ Ex) as (cc & Hcc & Tn & Tk & Ts & _).
    pose proof (walk_head _ _ _ _ _ _ Ex) as Hce.
    cbn [wrap_cases]. rewrite Hcc. rewrite <- Tk.
    destruct (N.eqb (tkind t) K_CASE) eqn:Ek.
    + (* an explicit case stays *)
      destruct (IH h e a ts1 ids1 El N1 He1 Hlt) as (hw & dir & idsw & Hwr & Hwl & Ndw & Mw & Lw & Frw & Cw); [lia|].
      rewrite Hwr.
      assert (Hx : walk (S a) hw (Some e) ce = Some (t, iv)).
      { eapply walk_mono; [|apply Nat.le_succ_diag_r]. eapply walk_frame; [exact Ex|].
        intros y Hy. apply Frw; [apply Bi; assumption|]. intro Hc. eapply D; eassumption. }
      exists hw, ((k, ce) :: dir), (iv ++ idsw). split; [reflexivity|].
      split; [cbn [walk_list map]; rewrite Hx, Hwl; unfold prewrap; cbn [fst snd]; rewrite Ek; reflexivity|].
      split.
      { apply NoDup_app_intro; auto. intros y Ha Hb. apply Mw in Hb. destruct Hb as [Hb|Hb]; [eapply D; eassumption|].
        specialize (Bi _ Ha). lia. }
      split.
      { intro y. rewrite !in_app_iff. rewrite (Mw y). tauto. }
      split; [assumption|].
      split; [intros y Hy Hc; rewrite in_app_iff in Hc; apply Frw; [assumption|tauto]|].
      intros k0 x0 t0 i0 [Hin|Hin] Hw0.
      * inversion Hin; subst. rewrite Hx in Hw0. inversion Hw0; subst. left. lia.
      * eapply Cw; eassumption.
    + (* a member is wrapped into a fresh case *)
      unfold alloc. cbv beta match. set (ne := length h).
      set (cn := mkCell (Some e) (c_name cc) K_CASE [(c_name cc, ce)] None None None None (c_ns cc) 0).
      set (h1 := h ++ [cn]). set (h2 := set_parent h1 ce (@Some id ne)).
      assert (X1 : ext h h1) by apply ext_alloc.
      assert (L1 : length h1 = S ne) by (unfold h1, ne; rewrite app_length; simpl; lia).
      assert (L2 : length h2 = S ne) by (unfold h2; rewrite length_set_parent; assumption).
      assert (Hcelt : ce < ne) by (apply Bi; assumption).
      assert (G2 : forall y, y <> ce -> y <> ne -> get h2 y = get h y).
      { intros y Hy1 Hy2. unfold h2, set_parent. destruct (get h1 ce); [rewrite get_set_neq by congruence|];
        (destruct (Nat.lt_ge_cases y ne); [apply X1; assumption|]);
        (transitivity (@None cell); [apply nth_error_None; lia|symmetry; apply nth_error_None; unfold ne in *; lia]). }
      assert (El2 : walk_list (walk a h2 (Some e)) l = Some (ts1, ids1)).
      { eapply walk_list_frame; [exact El|]. intros y Hy. specialize (B1 _ Hy). apply G2; [|unfold ne; lia].
        intro; subst. eapply D; eassumption. }
      destruct (IH h2 e a ts1 ids1 El2 N1 He1) as (hw & dir & idsw & Hwr & Hwl & Ndw & Mw & Lw & Frw & Cw); [lia|lia|].
      rewrite Hwr.
      assert (Hne : get hw ne = Some cn).
      { rewrite Frw; [|lia|intro Hc; specialize (B1 _ Hc); unfold ne in *; lia].
        unfold h2, set_parent. destruct (get h1 ce); [rewrite get_set_neq by lia|]; apply get_app_new. }
      assert (Hx2 : walk a h2 (Some ne) ce = Some (t, iv)).
      { apply walk_reparent with (p := Some e); [|assumption]. eapply walk_ext; eassumption. }
      assert (Hx : walk a hw (@Some id ne) ce = Some (t, iv)).
      { eapply walk_frame; [exact Hx2|]. intros y Hy. apply Frw; [specialize (Bi _ Hy); lia|].
        intro Hc. eapply D; eassumption. }
      assert (Hcase : walk (S a) hw (Some e) ne = Some (case_of t t, ne :: iv)).
      { simpl. rewrite Hne. simpl. rewrite Nat.eqb_refl. rewrite Hx. simpl. rewrite !app_nil_r.
        unfold case_of. rewrite Tn, Ts. reflexivity. }
      exists hw, ((k, ne) :: dir), ((ne :: iv) ++ idsw). split; [reflexivity|].
      split; [cbn [walk_list map]; rewrite Hcase, Hwl; unfold prewrap; cbn [fst snd]; rewrite Ek; reflexivity|].
      split.
      { apply NoDup_app_intro; auto.
        - constructor; [intro Hc; specialize (Bi _ Hc); unfold ne in *; lia|assumption].
        - intros y Ha Hb. apply Mw in Hb. destruct Ha as [<-|Ha].
          + destruct Hb as [Hb|Hb]; [specialize (B1 _ Hb); unfold ne in *; lia|lia].
          + destruct Hb as [Hb|Hb]; [eapply D; eassumption|specialize (Bi _ Ha); unfold ne in *; lia]. }
      split.
      { intro y. rewrite !in_app_iff. rewrite (Mw y). simpl. split.
        - intros [[<-|Hy]|[Hy|Hy]]; auto; right; unfold ne in *; lia.
        - intros [[Hy|Hy]|Hy]; auto. destruct (Nat.eq_dec y ne); [subst; auto|]. right. right. unfold ne in *. lia. }
      split; [lia|].
      split.
      { intros y Hy Hc. rewrite in_app_iff in Hc. rewrite Frw; [|lia|tauto]. apply G2; [|unfold ne; lia].
        intro; subst. apply Hc. left. assumption. }
      intros k0 x0 t0 i0 [Hin|Hin] Hw0.
      * inversion Hin; subst. rewrite Hcase in Hw0. inversion Hw0; subst. right. split; [reflexivity|]. simpl. lia.
      * eapply Cw; eassumption.
Qed.

Lemma C_transfer : forall (C : tree -> list id -> Prop) a h h' q l ts ids,
  (forall k x t i, In (k, x) l -> walk a h q x = Some (t, i) -> C t i) ->
  walk_list (walk a h q) l = Some (ts, ids) -> (forall y, In y ids -> get h' y = get h y) ->
  forall k x t i, In (k, x) l -> walk a h' q x = Some (t, i) -> C t i.
Proof.
  intros C a h h' q l ts ids HC Hl G k x t i Hin Hw.
  destruct (walk_list_In _ _ _ _ k x Hl Hin) as (t' & iv & Hv & Hi).
  assert (Hv' : walk a h' q x = Some (t', iv)) by (eapply walk_frame; [exact Hv|intros; apply G; apply Hi; assumption]).
  rewrite Hv' in Hw. inversion Hw; subst. eapply HC; eassumption.
Qed.

Lemma node_ok : forall b C, elem_ok b C ->
  forall a h1 p r c1 ks i1 ti i2 to i3,
  get h1 r = Some c1 -> oid_eqb (c_parent c1) p = true ->
  walk_list (walk a h1 (Some r)) (c_children c1) = Some (ks, i1) ->
  walk_list (walk a h1 (Some r)) (opt_list (c_input c1)) = Some (ti, i2) ->
  walk_list (walk a h1 (Some r)) (opt_list (c_output c1)) = Some (to, i3) ->
  NoDup (r :: i1 ++ i2 ++ i3) ->
  (forall k x t i, In (k, x) (c_children c1) -> walk a h1 (Some r) x = Some (t, i) -> C t i) ->
  (forall k x t i, In (k, x) (opt_list (c_input c1)) -> walk a h1 (Some r) x = Some (t, i) -> C t i) ->
  (forall k x t i, In (k, x) (opt_list (c_output c1)) -> walk a h1 (Some r) x = Some (t, i) -> C t i) ->
  exists h' ids',
    (forall F, b <= F ->
       fold_left (step F) (c_children c1 ++ opt_list (c_input c1) ++ opt_list (c_output c1)) (Some h1) = Some h') /\
    (exists c, walk c h' p r = Some (TNode (c_name c1) (c_kind c1) (c_la c1) (c_ty c1) (c_ns c1) (c_errs c1)
                                       (map fixkid ks) (map fixkid ti) (map fixkid to), ids')) /\
    NoDup ids' /\ (forall y, In y ids' <-> In y (r :: i1 ++ i2 ++ i3) \/ length h1 <= y < length h') /\
    length h1 <= length h' /\ (forall y, y < length h1 -> ~ In y (r :: i1 ++ i2 ++ i3) -> get h' y = get h1 y).
Proof.
  intros b C HE a h1 p r c1 ks i1 ti i2 to i3 Hg Hp E1 E2 E3 Nd HC1 HC2 HC3.
  inversion Nd as [|? ? Hr Nd']; subst.
  destruct (NoDup_app_elim _ _ Nd') as (N1 & N23 & D12). destruct (NoDup_app_elim _ _ N23) as (N2 & N3 & D23).
  pose proof (walk_list_lt _ _ _ _ _ _ E1) as B1. pose proof (walk_list_lt _ _ _ _ _ _ E2) as B2.
  pose proof (walk_list_lt _ _ _ _ _ _ E3) as B3. rewrite Forall_forall in B1, B2, B3.
  pose proof (get_lt _ _ _ Hg) as Hrlt.
  destruct (fold_ok b C HE _ _ _ _ _ _ E1 N1 HC1) as (ha & j1 & Fa & (ca & Wa) & Na & Ma & La & Fra).
  assert (G2 : forall y, In y i2 -> get ha y = get h1 y).
  { intros y Hy. apply Fra; [apply B2; assumption|]. intro Hc. apply (D12 y Hc). rewrite in_app_iff. auto. }
  assert (E2a : walk_list (walk a ha (Some r)) (opt_list (c_input c1)) = Some (ti, i2)) by (eapply walk_list_frame; eassumption).
  destruct (fold_ok b C HE _ _ _ _ _ _ E2a N2 (C_transfer _ _ _ _ _ _ _ _ HC2 E2 G2)) as (hb & j2 & Fb & (cb & Wb) & Nb & Mb & Lb & Frb).
  assert (G3 : forall y, In y i3 -> get hb y = get h1 y).
  { intros y Hy. rewrite Frb; [|specialize (B3 _ Hy); lia|intro Hc; eapply D23; eassumption].
    apply Fra; [apply B3; assumption|]. intro Hc. apply (D12 y Hc). rewrite in_app_iff. auto. }
  assert (E3b : walk_list (walk a hb (Some r)) (opt_list (c_output c1)) = Some (to, i3)) by (eapply walk_list_frame; eassumption).
  destruct (fold_ok b C HE _ _ _ _ _ _ E3b N3 (C_transfer _ _ _ _ _ _ _ _ HC3 E3 G3)) as (hc & j3 & Fc & (cc & Wc) & Nc & Mc & Lc & Frc).
  pose proof (walk_list_lt _ _ _ _ _ _ Wa) as Ba. pose proof (walk_list_lt _ _ _ _ _ _ Wb) as Bb.
  rewrite Forall_forall in Ba, Bb.
  (* where the new id lists live *)
  assert (S1 : forall y, In y j1 -> ~ In y i2 /\ ~ In y i3 /\ y <> r).
  { intros y Hy. apply Ma in Hy. destruct Hy as [Hy|Hy].
    - repeat split; [intro Hc; apply (D12 y Hy); rewrite in_app_iff; auto|intro Hc; apply (D12 y Hy); rewrite in_app_iff; auto|].
      intro; subst. apply Hr. rewrite in_app_iff. auto.
    - repeat split; [intro Hc; specialize (B2 _ Hc); lia|intro Hc; specialize (B3 _ Hc); lia|lia]. }
  assert (S2 : forall y, In y j2 -> ~ In y i3 /\ y <> r /\ ~ In y j1).
  { intros y Hy. apply Mb in Hy. destruct Hy as [Hy|Hy].
    - repeat split; [intro Hc; eapply D23; eassumption|intro; subst; apply Hr; rewrite !in_app_iff; auto|].
      intro Hc. destruct (S1 _ Hc) as (Hc' & _). contradiction.
    - repeat split; [intro Hc; specialize (B3 _ Hc); lia|lia|intro Hc; specialize (Ba _ Hc); lia]. }
  assert (S3 : forall y, In y j3 -> y <> r /\ ~ In y j1 /\ ~ In y j2).
  { intros y Hy. apply Mc in Hy. destruct Hy as [Hy|Hy].
    - repeat split; [intro; subst; apply Hr; rewrite !in_app_iff; auto| |].
      + intro Hc. destruct (S1 _ Hc) as (_ & Hc' & _). contradiction.
      + intro Hc. destruct (S2 _ Hc) as (Hc' & _). contradiction.
    - repeat split; [lia|intro Hc; specialize (Ba _ Hc); lia|intro Hc; specialize (Bb _ Hc); lia]. }
  exists hc, (r :: j1 ++ j2 ++ j3).
  split.
  { intros F HF. rewrite fold_left_app, (Fa F HF), fold_left_app, (Fb F HF). exact (Fc F HF). }
  split.
  { set (m := max ca (max cb cc)). exists (S m). simpl.
    assert (Hgr : get hc r = Some c1).
    { rewrite Frc; [|lia|intro Hc; apply Hr; rewrite !in_app_iff; auto].
      rewrite Frb; [|lia|intro Hc; apply Hr; rewrite !in_app_iff; auto].
      rewrite Fra; [assumption|assumption|intro Hc; apply Hr; rewrite !in_app_iff; auto]. }
    rewrite Hgr, Hp.
    assert (Wa' : walk_list (walk m hc (Some r)) (c_children c1) = Some (map fixkid ks, j1)).
    { eapply walk_list_mono; [|eapply walk_list_frame; [exact Wa|]]; [unfold m; lia|].
      intros y Hy. destruct (S1 _ Hy) as (Q2 & Q3 & _).
      rewrite Frc; [|specialize (Ba _ Hy); lia|assumption]. apply Frb; [apply Ba; assumption|assumption]. }
    assert (Wb' : walk_list (walk m hc (Some r)) (opt_list (c_input c1)) = Some (map fixkid ti, j2)).
    { eapply walk_list_mono; [|eapply walk_list_frame; [exact Wb|]]; [unfold m; lia|].
      intros y Hy. destruct (S2 _ Hy) as (Q3 & _). apply Frc; [apply Bb; assumption|assumption]. }
    assert (Wc' : walk_list (walk m hc (Some r)) (opt_list (c_output c1)) = Some (map fixkid to, j3)).
    { eapply walk_list_mono; [|exact Wc]. unfold m; lia. }
    rewrite Wa', Wb', Wc'. reflexivity. }
  split.
  { constructor.
    - rewrite !in_app_iff. intros [Hc|[Hc|Hc]]; [destruct (S1 _ Hc) as (_ & _ & Q)|destruct (S2 _ Hc) as (_ & Q & _)|destruct (S3 _ Hc) as (Q & _)]; congruence.
    - apply NoDup_app_intro; auto.
      + apply NoDup_app_intro; auto. intros y Ha Hb. destruct (S3 _ Hb) as (_ & _ & Q). contradiction.
      + intros y Ha Hb. rewrite in_app_iff in Hb. destruct Hb as [Hb|Hb];
          [destruct (S2 _ Hb) as (_ & _ & Q)|destruct (S3 _ Hb) as (_ & Q & _)]; contradiction. }
  split.
  { intro y. simpl. rewrite !in_app_iff. rewrite (Ma y), (Mb y), (Mc y). split.
    - intros [Hy|[[Hy|Hy]|[[Hy|Hy]|[Hy|Hy]]]]; auto; right; lia.
    - intros [[Hy|[Hy|[Hy|Hy]]]|Hy]; auto.
      destruct (Nat.lt_ge_cases y (length ha)); [right; left; right; lia|].
      destruct (Nat.lt_ge_cases y (length hb)); [right; right; left; right; lia|right; right; right; right; lia]. }
  split; [lia|].
  intros y Hy Hn. simpl in Hn. rewrite !in_app_iff in Hn.
  rewrite Frc; [|lia|tauto]. rewrite Frb; [|lia|tauto]. apply Fra; [assumption|tauto].
Qed.

Lemma walk_list_In_len : forall W l ts ids k x t i,
  walk_list W l = Some (ts, ids) -> In (k, x) l -> W x = Some (t, i) -> length i <= length ids.
Proof.
  intros W. induction l as [|[k0 v0] l IH]; intros ts ids k x t i H Hin Hw; simpl in *; [contradiction|].
  destruct (W v0) as [[t0 i0]|] eqn:Ev; [|discriminate].
  destruct (walk_list W l) as [[ts1 ids1]|] eqn:El; [|discriminate].
  inversion H; subst. rewrite app_length. destruct Hin as [Hin|Hin].
  - inversion Hin; subst. rewrite Hw in Ev. inversion Ev; subst. lia.
  - specialize (IH _ _ _ _ _ _ eq_refl Hin Hw). lia.
Qed.

Lemma map_fix_prewrap : forall ks, map fixkid (map prewrap ks) = map wrapkid ks.
Proof.
  induction ks as [|[k t] ks IH]; simpl; [reflexivity|]. rewrite IH. f_equal.
  unfold fixkid, prewrap, wrapkid. cbn [fst snd]. destruct (N.eqb (tkind t) K_CASE); [reflexivity|].
  rewrite fix_case_of. reflexivity.
Qed.

Definition Pn (n : nat) : Prop := elem_ok (2 * n) (fun _ i => length i <= n).

Lemma elem_ok_weaken : forall b b' (C C' : tree -> list id -> Prop), b <= b' -> (forall t i, C' t i -> C t i) ->
  elem_ok b C -> elem_ok b' C'.
Proof.
  intros b b' C C' Hb HC HE a h p x t i Hw Nd Hc. destruct (HE a h p x t i Hw Nd (HC _ _ Hc)) as (h' & i' & Hf & Hp).
  exists h', i'. split; [intros F HF; apply Hf; lia|assumption].
Qed.

(* a node whose children are not wrapped *)
Lemma nowrap_ok : forall m, Pn m -> elem_ok (S (2 * m)) (fun t i => wraps (tkind t) (terrs t) = false /\ length i <= S m).
Proof.
  intros m HP a h p r t ids Hw Nd [Hnw Hlen].
  destruct a as [|a]; simpl in Hw; [discriminate|].
  destruct (get h r) as [c|] eqn:Eg; [|discriminate].
  destruct (oid_eqb (c_parent c) p) eqn:Ep; [|discriminate].
  destruct (walk_list (walk a h (Some r)) (c_children c)) as [[ks i1]|] eqn:E1; [|discriminate].
  destruct (walk_list (walk a h (Some r)) (opt_list (c_input c))) as [[ti i2]|] eqn:E2; [|discriminate].
  destruct (walk_list (walk a h (Some r)) (opt_list (c_output c))) as [[to i3]|] eqn:E3; [|discriminate].
  inversion Hw; subst. clear Hw. simpl in Hnw, Hlen. rewrite !app_length in Hlen.
  assert (HC : forall l ts i0, walk_list (walk a h (Some r)) l = Some (ts, i0) -> length i0 <= m ->
            forall k x t i, In (k, x) l -> walk a h (Some r) x = Some (t, i) -> length i <= m).
  { intros l ts i0 Hl Hl0 k x t i Hin Hx. pose proof (walk_list_In_len _ _ _ _ _ _ _ _ Hl Hin Hx). lia. }
  destruct (node_ok (2 * m) _ HP a h p r c ks i1 ti i2 to i3 Eg Ep E1 E2 E3 Nd
              (HC _ _ _ E1 ltac:(lia)) (HC _ _ _ E2 ltac:(lia)) (HC _ _ _ E3 ltac:(lia)))
    as (h' & ids' & Hfold & Hwk & Nd' & M & L & Fr).
  exists h', ids'. split.
  - intros F HF. destruct F as [|F]; [lia|]. cbn [fix_choice]. rewrite Eg.
    unfold wraps in Hnw. rewrite Hnw. rewrite Eg. apply (Hfold F). lia.
  - split; [|auto]. rewrite fix_tree_eq. rewrite Hnw. exact Hwk.
Qed.

(* an error-free choice: the members are wrapped first *)
Lemma wrap_node_ok : forall m, Pn m ->
  elem_ok (S (S (2 * m))) (fun t i => wraps (tkind t) (terrs t) = true /\ length i <= S m).
Proof.
  intros m HP a h p r t ids Hw Nd [Hwr Hlen].
  assert (HR : elem_ok (S (2 * m)) (Cn m)).
  { intros a0 h0 p0 x0 t0 i0 Hw0 Nd0 [Hc|[Hk Hc]].
    - eapply (elem_ok_weaken (2 * m) (S (2 * m)) _ (fun _ i => length i <= m)); [lia| |exact HP|exact Hw0|exact Nd0|exact Hc]. auto.
    - eapply (nowrap_ok m HP); [exact Hw0|exact Nd0|]. split; [|assumption]. unfold wraps. rewrite Hk. reflexivity. }
  destruct a as [|a]; simpl in Hw; [discriminate|].
  destruct (get h r) as [c|] eqn:Eg; [|discriminate].
  destruct (oid_eqb (c_parent c) p) eqn:Ep; [|discriminate].
  destruct (walk_list (walk a h (Some r)) (c_children c)) as [[ks i1]|] eqn:E1; [|discriminate].
  destruct (walk_list (walk a h (Some r)) (opt_list (c_input c))) as [[ti i2]|] eqn:E2; [|discriminate].
  destruct (walk_list (walk a h (Some r)) (opt_list (c_output c))) as [[to i3]|] eqn:E3; [|discriminate].
  inversion Hw; subst. clear Hw. simpl in Hwr, Hlen. rewrite !app_length in Hlen.
  inversion Nd as [|? ? Hr Nd']; subst.
  destruct (NoDup_app_elim _ _ Nd') as (N1 & N23 & D12). destruct (NoDup_app_elim _ _ N23) as (N2 & N3 & D23).
  pose proof (get_lt _ _ _ Eg) as Hrlt.
  pose proof (walk_list_lt _ _ _ _ _ _ E2) as B2. pose proof (walk_list_lt _ _ _ _ _ _ E3) as B3.
  pose proof (walk_list_lt _ _ _ _ _ _ E1) as B1. rewrite Forall_forall in B1, B2, B3.
  assert (Hr1 : ~ In r i1) by (intro; apply Hr; rewrite in_app_iff; auto).
  destruct (wrap_ok m _ h r a ks i1 E1 N1 Hr1 Hrlt ltac:(lia)) as (hw & dir & idsw & Hwc & Hwl & Ndw & Mw & Lw & Frw & Cw).
  assert (Hgw : get hw r = Some c) by (rewrite Frw; assumption).
  set (c1 := with_children c dir). set (h1 := set hw r c1).
  assert (Hg1 : get h1 r = Some c1) by (apply get_set_eq; lia).
  assert (L1 : length h1 = length hw) by apply length_set.
  assert (G1 : forall y, y <> r -> get h1 y = get hw y) by (intros; apply get_set_neq; congruence).
  assert (Hrw : ~ In r idsw) by (intro Hc; apply Mw in Hc; destruct Hc; [contradiction|lia]).
  assert (E1' : walk_list (walk (S a) h1 (Some r)) (c_children c1) = Some (map prewrap ks, idsw)).
  { eapply walk_list_frame; [exact Hwl|]. intros y Hy. apply G1. intro; subst; contradiction. }
  assert (G2 : forall y, In y (i2 ++ i3) -> get h1 y = get h y).
  { intros y Hy. assert (y <> r) by (intro; subst; apply Hr; rewrite in_app_iff; auto).
    rewrite G1 by assumption. apply Frw; [rewrite in_app_iff in Hy; destruct Hy; [apply B2|apply B3]; assumption|].
    intro Hc. eapply D12; eassumption. }
  assert (E2' : walk_list (walk (S a) h1 (Some r)) (opt_list (c_input c1)) = Some (ti, i2)).
  { eapply walk_list_mono; [apply Nat.le_succ_diag_r|]. eapply walk_list_frame; [exact E2|].
    intros; apply G2; rewrite in_app_iff; auto. }
  assert (E3' : walk_list (walk (S a) h1 (Some r)) (opt_list (c_output c1)) = Some (to, i3)).
  { eapply walk_list_mono; [apply Nat.le_succ_diag_r|]. eapply walk_list_frame; [exact E3|].
    intros; apply G2; rewrite in_app_iff; auto. }
  assert (Nd1 : NoDup (r :: idsw ++ i2 ++ i3)).
  { constructor.
    - rewrite !in_app_iff. intros [Hc|Hc]; [contradiction|]. apply Hr. rewrite !in_app_iff. tauto.
    - apply NoDup_app_intro; auto. intros y Ha Hb. apply Mw in Ha. destruct Ha as [Ha|Ha]; [eapply D12; eassumption|].
      rewrite in_app_iff in Hb. destruct Hb as [Hb|Hb]; [specialize (B2 _ Hb)|specialize (B3 _ Hb)]; lia. }
  assert (HC1 : forall k x t i, In (k, x) (c_children c1) -> walk (S a) h1 (Some r) x = Some (t, i) -> Cn m t i).
  { eapply C_transfer; [exact Cw|exact Hwl|]. intros y Hy. apply G1. intro; subst; contradiction. }
  assert (HCio : forall l ts i0, walk_list (walk (S a) h1 (Some r)) l = Some (ts, i0) -> length i0 <= m ->
            forall k x t i, In (k, x) l -> walk (S a) h1 (Some r) x = Some (t, i) -> Cn m t i).
  { intros l ts i0 Hl Hl0 k x t i Hin Hx. left. pose proof (walk_list_In_len _ _ _ _ _ _ _ _ Hl Hin Hx). lia. }
  assert (Ep1 : oid_eqb (c_parent c1) p = true) by exact Ep.
  destruct (node_ok (S (2 * m)) _ HR (S a) h1 p r c1 _ _ _ _ _ _ Hg1 Ep1 E1' E2' E3' Nd1 HC1
              (HCio _ _ _ E2' ltac:(lia)) (HCio _ _ _ E3' ltac:(lia)))
    as (h' & ids' & Hfold & Hwk & Ndn & M & L & Fr).
  exists h', ids'. split.
  - intros F HF. destruct F as [|F]; [lia|]. cbn [fix_choice]. rewrite Eg.
    unfold wraps in Hwr. rewrite Hwr. rewrite Hwc. rewrite Hgw. fold c1. fold h1. rewrite Hg1. apply (Hfold F). lia.
  - split.
    { rewrite fix_tree_eq. rewrite Hwr. rewrite <- map_fix_prewrap. exact Hwk. }
    split; [assumption|]. split.
    { intro y. rewrite (M y). simpl. rewrite !in_app_iff. rewrite (Mw y). rewrite L1. split.
      - intros [[Hy|[[Hy|Hy]|Hy]]|Hy]; auto; try tauto; right; lia.
      - intros [[Hy|[Hy|Hy]]|Hy]; auto; try tauto.
        destruct (Nat.lt_ge_cases y (length hw)); [left; right; left; right; lia|right; lia]. }
    split; [lia|].
    intros y Hy Hn. simpl in Hn. rewrite !in_app_iff in Hn.
    assert (y <> r) by (intro Hc; apply Hn; left; congruence).
    rewrite Fr; [|lia|]. { rewrite G1 by assumption. apply Frw; [assumption|tauto]. }
    simpl. rewrite !in_app_iff. intros [Hc|[Hc|Hc]]; [congruence| |tauto].
    apply Mw in Hc. destruct Hc; [tauto|lia].
Qed.

Lemma Pn_all : forall n, Pn n.
Proof.
  induction n as [|m IH]; intros a h p x t i Hw Nd Hlen.
  - pose proof (walk_head _ _ _ _ _ _ Hw) as Hh. destruct i; [contradiction|simpl in Hlen; lia].
  - destruct (wraps (tkind t) (terrs t)) eqn:Ew.
    + destruct (wrap_node_ok m IH a h p x t i Hw Nd (conj Ew Hlen)) as (h' & i' & Hf & Hp).
      exists h', i'. split; [intros F HF; apply Hf; lia|assumption].
    + destruct (nowrap_ok m IH a h p x t i Hw Nd (conj Ew Hlen)) as (h' & i' & Hf & Hp).
      exists h', i'. split; [intros F HF; apply Hf; lia|assumption].
Qed.

(* ------------------------------------------------------------------ fix_top on a well-formed tree *)
(* FixChoice on a well-formed tree, with the fuel the harness uses: succeeds; the result is a well-formed tree from the
   same root; erased, it is fix_tree of the erased source (every non-case child of an error-free choice wrapped exactly
   once into a case of its name and namespace, everywhere, input and output included; everything else as it was); the
   cells reachable afterwards are exactly the old ones plus ALL cells allocated by the run -- every inserted case is
   fresh and is linked into the tree (so, by wf_tree, it points to its choice and its member points to it) *)
Theorem fix_top_wf_erase : forall h r, wf_tree h r ->
  exists h' t ids ids',
    fix_top h r = Some h' /\ wf_tree h' r /\
    erase (length h) h r = Some t /\ erase (length h') h' r = Some (fix_tree t) /\
    reach (length h) h r = Some ids /\ reach (length h') h' r = Some ids' /\
    (forall y, In y ids' <-> In y ids \/ length h <= y < length h') /\ length h <= length h'.
Proof.
  intros h r Hwf. destruct (wf_tree_fuel _ _ Hwf) as (c & t & ids & Hg & Hw & Nd).
  assert (Hlen : length ids <= length h).
  { apply NoDup_bounded_length; [assumption|]. eapply walk_ids_lt; exact Hw. }
  destruct (Pn_all (length ids) _ _ _ _ _ _ Hw Nd (le_n _)) as (h' & ids' & Hf & (c0 & Hw0) & Nd' & M & L & Fr).
  destruct (walk_root _ _ _ _ _ _ Hw0) as (c' & Hg' & Hp').
  assert (Hw' : walk (length h') h' (c_parent c) r = Some (fix_tree t, ids')).
  { eapply walk_fuel; [exact Hw0|]. apply NoDup_bounded_length; [assumption|]. eapply walk_ids_lt; exact Hw0. }
  exists h', t, ids, ids'. unfold fix_top, erase, reach. rewrite Hg, Hw, Hg', Hp', Hw'.
  split; [apply Hf; lia|]. split; [exists (length h'), c', (fix_tree t), ids'; rewrite Hp'; auto|].
  repeat split; auto; apply M.
Qed.

(* frame: a cell allocated before that is not in the tree is unchanged.  (PARTIAL: for cells IN the tree the theorem above
   fixes name, kind, list attributes, type, namespace, error count and all links through erase; that a member changes
   in its Parent only and a choice in its child list only is not stated cell by cell) *)
Theorem fix_top_frame_partial : forall h r h' ids, wf_tree h r -> fix_top h r = Some h' -> reach (length h) h r = Some ids ->
  forall y, y < length h -> ~ In y ids -> get h' y = get h y.
Proof.
  intros h r h' ids0 Hwf Hfix Hreach. destruct (wf_tree_fuel _ _ Hwf) as (c & t & ids & Hg & Hw & Nd).
  assert (Hlen : length ids <= length h).
  { apply NoDup_bounded_length; [assumption|]. eapply walk_ids_lt; exact Hw. }
  destruct (Pn_all (length ids) _ _ _ _ _ _ Hw Nd (le_n _)) as (h2 & ids' & Hf & _ & _ & _ & _ & Fr).
  unfold fix_top in Hfix. rewrite (Hf (S (2 * length h))) in Hfix by lia. inversion Hfix; subst h2.
  unfold reach in Hreach. rewrite Hg, Hw in Hreach. inversion Hreach; subst. exact Fr.
Qed.

(* a second run changes nothing on the erased level *)
Theorem fix_top_twice : forall h r h1, wf_tree h r -> fix_top h r = Some h1 ->
  exists h2, fix_top h1 r = Some h2 /\ wf_tree h2 r /\ erase (length h2) h2 r = erase (length h1) h1 r.
Proof.
  intros h r h1 Hwf Hfix.
  destruct (fix_top_wf_erase _ _ Hwf) as (h1' & t & ids & ids1 & Hf1 & Hwf1 & E0 & E1 & _).
  rewrite Hfix in Hf1. inversion Hf1; subst h1'.
  destruct (fix_top_wf_erase _ _ Hwf1) as (h2 & t1 & ids1' & ids2 & Hf2 & Hwf2 & E1' & E2 & _).
  exists h2. split; [assumption|]. split; [assumption|].
  rewrite E1 in E1'. inversion E1'; subst t1. rewrite E2, E1, fix_tree_idem. reflexivity.
Qed.

(* ------------------------------------------------------------------ the cells wrap_cases makes (one choice level) *)
(* every cell allocated by wrap_cases for the choice e is a case with Parent e, carrying the name and namespace of one
   member m of the list, m as its only child and no input/output; m is not a case and its Parent is now that cell; old
   cells other than the members are unchanged *)
Theorem wrap_cases_cells : forall l h e hw dir, wrap_cases h e l = (hw, dir) -> NoDup (map snd l) ->
  Forall (fun kv => snd kv < length h) l ->
  length h <= length hw /\
  (forall y, y < length h -> ~ In y (map snd l) -> get hw y = get h y) /\
  (forall y, length h <= y < length hw -> exists nm ns m cm,
     In m (map snd l) /\ get hw y = Some (mkCell (Some e) nm K_CASE [(nm, m)] None None None None ns 0) /\
     get hw m = Some cm /\ c_parent cm = Some y /\ c_name cm = nm /\ c_ns cm = ns /\ c_kind cm <> K_CASE).
Proof.
  induction l as [|[k ce] l IH]; intros h e hw dir H Nd Hlt; simpl in H.
  - inversion H; subst. split; [lia|]. split; [auto|]. intros y Hy. lia.
  - simpl in Nd. inversion Nd as [|? ? Hce Nd']; subst. inversion Hlt as [|? ? Hcelt Hlt']; subst. simpl in Hcelt.
    assert (Keep : forall h' r, wrap_cases h e l = (h', r) -> (h', (k, ce) :: r) = (hw, dir) ->
              length h <= length hw /\
              (forall y, y < length h -> ~ In y (map snd ((k, ce) :: l)) -> get hw y = get h y) /\
              (forall y, length h <= y < length hw -> exists nm ns m cm,
                 In m (map snd ((k, ce) :: l)) /\ get hw y = Some (mkCell (Some e) nm K_CASE [(nm, m)] None None None None ns 0) /\
                 get hw m = Some cm /\ c_parent cm = Some y /\ c_name cm = nm /\ c_ns cm = ns /\ c_kind cm <> K_CASE)).
    { intros h' r Ew Heq. inversion Heq; subst. destruct (IH _ _ _ _ Ew Nd' Hlt') as (L & Fr & Fc).
      split; [assumption|]. split; [intros y Hy Hn; apply Fr; [assumption|simpl in Hn; tauto]|].
      intros y Hy. destruct (Fc y Hy) as (nm & ns & m & cm & Hin & Q). exists nm, ns, m, cm. split; [simpl; auto|exact Q]. }
    destruct (get h ce) as [cc|] eqn:Ecc.
    + destruct (N.eqb (c_kind cc) K_CASE) eqn:Ek.
      * destruct (wrap_cases h e l) as [h' r] eqn:Ew. eapply Keep; [reflexivity|exact H].
      * unfold alloc in H. cbv beta match in H.
        set (ne := length h) in *.
        set (cn := mkCell (Some e) (c_name cc) K_CASE [(c_name cc, ce)] None None None None (c_ns cc) 0) in *.
        set (h1 := h ++ [cn]) in *. set (h2 := set_parent h1 ce (@Some id ne)) in *.
        destruct (wrap_cases h2 e l) as [h' r] eqn:Ew. inversion H; subst h' dir. clear H.
        assert (L1 : length h1 = S ne) by (unfold h1, ne; rewrite app_length; simpl; lia).
        assert (L2 : length h2 = S ne) by (unfold h2; rewrite length_set_parent; assumption).
        assert (Hg1 : get h1 ce = Some cc) by (unfold h1; rewrite get_app_l by assumption; assumption).
        assert (Hlt2 : Forall (fun kv => snd kv < length h2) l).
        { eapply Forall_impl; [|exact Hlt']. simpl. intros. unfold ne in *. lia. }
        destruct (IH _ _ _ _ Ew Nd' Hlt2) as (L & Fr & Fc).
        assert (Hlm : forall m, In m (map snd l) -> m < ne).
        { intros m Hm. apply in_map_iff in Hm. destruct Hm as (kv & <- & Hkv). rewrite Forall_forall in Hlt'. apply (Hlt' kv Hkv). }
        split; [lia|]. split.
        { intros y Hy Hn. simpl in Hn. rewrite Fr; [|lia|tauto].
          unfold h2, set_parent. rewrite Hg1. rewrite get_set_neq by (intro; subst; tauto).
          unfold h1. apply get_app_l. assumption. }
        intros y Hy. destruct (Nat.eq_dec y ne) as [->|Hyne].
        { exists (c_name cc), (c_ns cc), ce, (with_parent cc (Some ne)). split; [simpl; auto|].
          split.
          { rewrite Fr; [|lia|intro Hc; specialize (Hlm _ Hc); lia].
            unfold h2, set_parent. rewrite Hg1. rewrite get_set_neq by lia. apply get_app_new. }
          split.
          { rewrite Fr; [|lia|assumption]. unfold h2, set_parent. rewrite Hg1. apply get_set_eq. lia. }
          simpl. repeat split; auto. intro Hc. rewrite Hc in Ek. discriminate. }
        destruct (Fc y ltac:(lia)) as (nm & ns & m & cm & Hin & Q). exists nm, ns, m, cm. split; [simpl; auto|exact Q].
    + destruct (wrap_cases h e l) as [h' r] eqn:Ew. eapply Keep; [reflexivity|exact H].
Qed.

(* ------------------------------------------------------------------ non-vacuity *)
(* choice h { leaf a;  container c { choice n { leaf b } }  case x { leaf y } }   as cells 0..6 *)
Definition exf_heap : heap :=
  [ ex_cell None 104%N 5%N [([97%N], 1); ([99%N], 2); ([120%N], 5)] None None None None;
    ex_cell (Some 0) 97%N 0%N [] None None None (Some 0%N);
    ex_cell (Some 0) 99%N 1%N [([110%N], 3)] None None None None;
    ex_cell (Some 2) 110%N 5%N [([98%N], 4)] None None None None;
    ex_cell (Some 3) 98%N 0%N [] None None None (Some 1%N);
    ex_cell (Some 0) 120%N 4%N [([121%N], 6)] None None None None;
    ex_cell (Some 5) 121%N 0%N [] None None None (Some 2%N) ].

Example exf_wf : wf_tree exf_heap 0.
Proof.
  exists 7. eexists. eexists. eexists. split; [reflexivity|]. split; [vm_compute; reflexivity|].
  repeat (constructor; [simpl; intuition discriminate|]). constructor.
Qed.

(* three fresh cases (7 around a, 8 around c, 9 around b inside the nested choice); the explicit case x is kept; each
   case has the choice as Parent and the member as only child; each member's Parent is its case; the erased result is
   fix_tree of the erased source; a second run changes nothing *)
Example exf_fix : exists h' h'',
  fix_top exf_heap 0 = Some h' /\ length h' = 10 /\
  reach 10 h' 0 = Some [0; 7; 1; 8; 2; 3; 9; 4; 5; 6] /\
  option_map (fun c => (c_parent c, c_kind c, c_children c)) (get h' 7) = Some (Some 0, K_CASE, [([97%N], 1)]) /\
  option_map (fun c => (c_parent c, c_kind c, c_children c)) (get h' 9) = Some (Some 3, K_CASE, [([98%N], 4)]) /\
  option_map c_parent (get h' 1) = Some (Some 7) /\ option_map c_parent (get h' 2) = Some (Some 8) /\
  option_map c_parent (get h' 4) = Some (Some 9) /\ option_map c_parent (get h' 5) = Some (Some 0) /\
  erase 10 h' 0 = option_map fix_tree (erase 10 exf_heap 0) /\ erase 10 h' 0 <> erase 10 exf_heap 0 /\
  fix_top h' 0 = Some h'' /\ h'' = h'.
Proof.
  eexists. eexists. split; [vm_compute; reflexivity|]. vm_compute.
  repeat split; try reflexivity. discriminate.
Qed.
