(* Cursor invariants of the lexer model: line / col / tcol are functions of the consumed text. *)
From Coq Require Import List NArith ZArith Bool Lia.
Import ListNotations.
From GY Require Import Model.Lex Model.Parse Spec.C16.
Local Open Scope Z_scope.

(* the exact counters for a reversed consumed prefix *)
Definition xline (b : str) : Z := 1 + count_lf b.
Definition xcol (b : str) : Z := Z.of_nat (length (cur_line_rev b)).
Definition xtcol (b : str) : Z := tabw_rev (cur_line_rev b).

Lemma xline_cons c b : xline (c :: b) = if (c =? cLF)%N then xline b + 1 else xline b.
Proof. unfold xline; cbn [count_lf]. destruct (c =? cLF)%N; lia. Qed.
Lemma xcol_cons c b : xcol (c :: b) = if (c =? cLF)%N then 0 else xcol b + 1.
Proof. unfold xcol; cbn [cur_line_rev]. destruct (c =? cLF)%N; cbn [length]; lia. Qed.
Lemma xtcol_cons c b : xtcol (c :: b) =
  if (c =? cLF)%N then 0 else if (c =? cTAB)%N then tab_stop (xtcol b) else xtcol b + 1.
Proof. unfold xtcol; cbn [cur_line_rev]. destruct (c =? cLF)%N; reflexivity. Qed.
Lemma xcol_nonneg b : 0 <= xcol b. Proof. unfold xcol; lia. Qed.
Lemma tab_stop_pos t : 0 <= t -> t < tab_stop t /\ tab_stop t mod 8 = 0.
Proof.
  intro H. unfold tab_stop. split.
  - pose proof (Z.mod_pos_bound (t + 8) 8 ltac:(lia)). pose proof (Z.div_mod (t + 8) 8 ltac:(lia)). lia.
  - apply Z.mod_mul. lia.
Qed.
Lemma tab_stop_back t : 0 <= t -> tab_stop (tab_stop t - 1) = tab_stop t.
Proof.
  intro H. unfold tab_stop.
  set (q := (t + 8) / 8). replace (q * 8 - 1 + 8) with (7 + q * 8) by lia.
  rewrite Z.div_add by lia. reflexivity.
Qed.
Lemma xtcol_nonneg b : 0 <= xtcol b.
Proof.
  unfold xtcol. induction (cur_line_rev b) as [|c r IH]; cbn [tabw_rev]; [lia|].
  destruct (c =? cTAB)%N; [|lia]. pose proof (tab_stop_pos _ IH). lia.
Qed.

(* the cursor is exact: its three counters are what the consumed text says *)
Definition Exact (k : cur) : Prop :=
  line k = xline (before k) /\ col k = xcol (before k) /\ tcol k = xtcol (before k).

(* the transient states peek() leaves behind when the next rune is a line break (col and tcol
   zeroed) or a tab (tcol one short of the tab stop); the next next() repairs both *)
Definition TransLF (k : cur) : Prop :=
  line k = xline (before k) /\ col k = 0 /\ tcol k = 0 /\ exists r, after k = cLF :: r.
Definition TransTab (k : cur) : Prop :=
  line k = xline (before k) /\ col k = xcol (before k) /\ tcol k = tab_stop (xtcol (before k)) - 1 /\
  exists r, after k = cTAB :: r.

Definition CInv (k : cur) : Prop := Exact k \/ TransLF k \/ TransTab k.

(* the zipper holds the text *)
Definition zip (text : str) (k : cur) : Prop := rev (before k) ++ after k = text.

Lemma advance_fields c r k w : after k = c :: r ->
  before (advance c k w) = c :: before k /\ after (advance c k w) = r /\
  tokrev (advance c k w) = c :: tokrev k /\ width (advance c k w) = w /\
  line (advance c k w) = (if (c =? cLF)%N then line k + 1 else line k) /\
  col (advance c k w) = (if (c =? cLF)%N then 0 else col k + 1) /\
  tcol (advance c k w) = (if (c =? cLF)%N then 0 else if (c =? cTAB)%N then tab_stop (tcol k) else tcol k + 1).
Proof.
  intro Ha. unfold advance. rewrite Ha.
  destruct (c =? cLF)%N; [|destruct (c =? cTAB)%N]; cbn; auto 10.
Qed.

Lemma advance_exact c r k w : after k = c :: r -> CInv k -> Exact (advance c k w).
Proof.
  intros Ha I. destruct (advance_fields c r k w Ha) as (Fb & _ & _ & _ & Fl & Fc & Ft).
  unfold Exact. rewrite Fb, Fl, Fc, Ft, xline_cons, xcol_cons, xtcol_cons.
  destruct I as [(El & Ec & Et)|[(El & Ec & Et & r' & Hr)|(El & Ec & Et & r' & Hr)]].
  - rewrite El, Ec, Et. destruct (c =? cLF)%N; [auto|]. destruct (c =? cTAB)%N; auto.
  - rewrite Ha in Hr. injection Hr as -> _. rewrite N.eqb_refl. rewrite El. auto.
  - rewrite Ha in Hr. injection Hr as -> _. change ((cTAB =? cLF)%N) with false. rewrite N.eqb_refl.
    rewrite El, Ec, Et. rewrite tab_stop_back by apply xtcol_nonneg. auto.
Qed.

Lemma advance_zip text c r k w : after k = c :: r -> zip text k -> zip text (advance c k w).
Proof.
  intros Ha Z. destruct (advance_fields c r k w Ha) as (Fb & Fa & _).
  unfold zip in *. rewrite Fb, Fa. cbn [rev]. rewrite <- app_assoc. cbn [app]. rewrite Ha in Z. exact Z.
Qed.

(* ---- next ---- *)
Lemma next_eof k : after k = [] -> next k = (EOFR, set_width k 0).
Proof. intro H. unfold next. rewrite H. reflexivity. Qed.
Lemma next_cons k c r : after k = c :: r -> next k = (c, advance c k 1).
Proof. intro H. unfold next. rewrite H. reflexivity. Qed.

Lemma set_width_cinv k w : CInv k -> CInv (set_width k w).
Proof. intros [E|[T|T]]; [left|right;left|right;right]; assumption. Qed.
Lemma set_width_zip text k w : zip text k -> zip text (set_width k w).
Proof. intro H; exact H. Qed.

Lemma next_cinv text k c k' : zip text k -> CInv k -> next k = (c, k') -> zip text k' /\ CInv k'.
Proof.
  intros Z I H. unfold next in H. destruct (after k) as [|x r] eqn:Ha.
  - injection H as <- <-. split; [exact Z | apply set_width_cinv; exact I].
  - injection H as <- <-. split; [eapply advance_zip; eauto | left; eapply advance_exact; eauto].
Qed.

(* ---- backup right after next: peek ---- *)
Definition same_place (k k' : cur) : Prop :=
  before k' = before k /\ after k' = after k /\ tokrev k' = tokrev k.

Lemma backup_advance k c r : after k = c :: r -> CInv k ->
  let k' := backup (advance c k 1) in
  same_place k k' /\ CInv k' /\ (c <> cLF -> col k' = xcol (before k)) /\ line k' = xline (before k) /\
  (c <> cLF -> c <> cTAB -> Exact k').
Proof.
  intros Ha I. cbn zeta.
  pose proof (advance_exact c r k 1 Ha I) as (Xl & Xc & Xt).
  destruct (advance_fields c r k 1 Ha) as (Fb & Fa & Ft & Fw & _).
  rewrite Fb, xline_cons in Xl. rewrite Fb, xcol_cons in Xc. rewrite Fb, xtcol_cons in Xt.
  unfold backup. rewrite Fw. cbn [unread]. rewrite Fb. cbn [unread]. rewrite Fa, Ft. cbn [tl].
  pose proof (xcol_nonneg (before k)) as Hc. pose proof (xtcol_nonneg (before k)) as Htc.
  destruct (N.eqb_spec c cLF) as [->|Hn].
  - rewrite Xc. change (0 - 1 <? 0) with true. cbv iota.
    unfold same_place; cbn [before after tokrev line col tcol].
    split; [auto|]. split; [|split; [congruence|split; [lia|congruence]]].
    right; left. unfold TransLF; cbn [before after line col tcol]. repeat split; try lia. eexists; reflexivity.
  - rewrite Xc. destruct (Z.ltb_spec (xcol (before k) + 1 - 1) 0); [lia|].
    unfold same_place; cbn [before after tokrev line col tcol].
    split; [auto|].
    destruct (N.eqb_spec c cTAB) as [->|Ht].
    + split; [|split; [lia|split; [lia|congruence]]].
      right; right. unfold TransTab; cbn [before after line col tcol]. repeat split; try lia. eexists; reflexivity.
    + assert (E : forall a tr w, Exact {| before := before k; after := a; tokrev := tr;
                           line := line (advance c k 1); col := xcol (before k) + 1 - 1;
                           tcol := tcol (advance c k 1) - 1; width := w |}).
      { intros. unfold Exact; cbn [before line col tcol]. repeat split; lia. }
      split; [left; apply E|]. split; [lia|]. split; [lia|]. intros _ _. apply E.
Qed.

Lemma peek_spec text k c k' : zip text k -> CInv k -> peek k = (c, k') ->
  c = hd EOFR (after k) /\ same_place k k' /\ zip text k' /\ CInv k' /\
  line k' = xline (before k) /\ (c <> cLF -> col k' = xcol (before k)) /\
  (c <> cLF -> c <> cTAB -> c <> EOFR -> Exact k').
Proof.
  intros Z I H. unfold peek in H. destruct (after k) as [|x r] eqn:Ha.
  - rewrite (next_eof k Ha) in H. injection H as <- <-. cbn [hd]. unfold backup. cbn [set_width width].
    split; [reflexivity|]. split; [unfold same_place; cbn; auto|]. split; [exact Z|].
    split; [apply set_width_cinv; exact I|].
    destruct I as [(El & Ec & Et)|[(El & Ec & Et & r' & Hr)|(El & Ec & Et & r' & Hr)]];
      try (rewrite Ha in Hr; discriminate).
    cbn [set_width line col]. split; [exact El|]. split; [intros _; exact Ec|congruence].
  - rewrite (next_cons k x r Ha) in H. injection H as <- <-. cbn [hd].
    destruct (backup_advance k x r Ha I) as (S & C & Hc & Hl & He).
    split; [reflexivity|]. split; [exact S|]. split.
    + destruct S as (Sb & Sa & _). unfold zip in *. rewrite Sb, Sa. exact Z.
    + split; [exact C|]. split; [exact Hl|]. split; [exact Hc|]. intros A B _. exact (He A B).
Qed.

(* ---- positions from the zipper ---- *)
Lemma linecol_split text b a : rev b ++ a = text ->
  linecol text (length b) = (xline b, 1 + xcol b).
Proof.
  intros <-. unfold linecol. rewrite <- (rev_length b), firstn_app, Nat.sub_diag, firstn_all.
  cbn [firstn]. rewrite app_nil_r, rev_involutive. reflexivity.
Qed.

Definition live (text : str) (k : cur) : Prop := zip text k /\ CInv k.

Lemma consume_live text k : live text k -> live text (consume k).
Proof. intros [Z I]. split; [exact Z|]. destruct I as [E|[T|T]]; [left|right;left|right;right]; exact E || exact T. Qed.
Lemma consume_exact k : Exact k -> Exact (consume k).
Proof. intro E; exact E. Qed.

(* ---- acceptRun ---- *)
Lemma acceptRun_spec text fuel : forall k, live text k -> (length (after k) < fuel)%nat ->
  live text (acceptRun fuel k) /\ Exact (acceptRun fuel k).
Proof.
  induction fuel as [|f IH]; intros k [Z I] Hf; [lia|]. cbn [acceptRun].
  destruct (after k) as [|c r] eqn:Ha.
  - rewrite (next_eof k Ha). change (is_blank EOFR) with false. cbv iota.
    unfold backup. cbn [set_width width].
    assert (E : Exact k).
    { destruct I as [E|[(_&_&_&r'&Hr)|(_&_&_&r'&Hr)]]; [exact E| |]; rewrite Ha in Hr; discriminate. }
    split; [split; [exact Z|left; exact E]|exact E].
  - rewrite (next_cons k c r Ha). destruct (is_blank c) eqn:Hb.
    + apply IH.
      * split; [eapply advance_zip; eauto|left; eapply advance_exact; eauto].
      * destruct (advance_fields c r k 1 Ha) as (_ & Fa & _). rewrite Fa. cbn [length] in Hf. lia.
    + destruct (backup_advance k c r Ha I) as (S & C & _ & _ & He).
      assert (c <> cLF /\ c <> cTAB) as [N1 N2].
      { unfold is_blank in Hb. split; intros ->; cbn in Hb; discriminate. }
      split; [split|]; [|exact C|exact (He N1 N2)].
      destruct S as (Sb & Sa & _). unfold zip in *. rewrite Sb, Sa. exact Z.
Qed.

(* ---- updateCursor / skipTo ---- *)
Lemma updateCursor_go_spec text n : forall k, live text k -> (n <= length (after k))%nat ->
  live text (updateCursor_go n k) /\ (n <> O -> Exact (updateCursor_go n k)) /\
  before (updateCursor_go n k) = rev (firstn n (after k)) ++ before k /\
  after (updateCursor_go n k) = skipn n (after k).
Proof.
  induction n as [|n IH]; intros k L Hn; cbn [updateCursor_go].
  - split; [exact L|]. split; [congruence|]. split; reflexivity.
  - destruct (after k) as [|c r] eqn:Ha; [cbn in Hn; lia|].
    destruct L as [Z I].
    destruct (advance_fields c r k 0 Ha) as (Fb & Fa & _).
    assert (L' : live text (advance c k 0))
      by (split; [eapply advance_zip; eauto|left; eapply advance_exact; eauto]).
    destruct (IH (advance c k 0) L') as (A & B & C & D); [rewrite Fa; cbn [length] in Hn; lia|].
    split; [exact A|]. split.
    + intros _. destruct n; [cbn [updateCursor_go]; eapply advance_exact; eauto | apply B; discriminate].
    + rewrite C, D, Fb, Fa. cbn [firstn skipn rev]. rewrite <- app_assoc. split; reflexivity.
Qed.

Lemma set_width_live text k w : live text k -> live text (set_width k w).
Proof. intros [Z I]; split; [exact Z|apply set_width_cinv; exact I]. Qed.

Lemma index1_bound c s x : index1 c s = Some x -> (x < length s)%nat /\ nth_error s x = Some c.
Proof.
  revert x. induction s as [|y r IH]; intros x H; cbn in H; [discriminate|].
  destruct (N.eqb_spec y c) as [->|Hn].
  - injection H as <-. cbn. split; [lia|reflexivity].
  - destruct (index1 c r) as [x'|]; [|discriminate]. cbn [option_map] in H. injection H as <-.
    destruct (IH x' eq_refl). cbn. split; [lia|assumption].
Qed.
Lemma index2_eq c d y z r : index2 c d (y :: z :: r) =
  if ((y =? c) && (z =? d))%N then Some O else option_map S (index2 c d (z :: r)).
Proof. reflexivity. Qed.
Lemma index2_bound c d s x : index2 c d s = Some x -> (S x < length s)%nat /\
  nth_error s x = Some c /\ nth_error s (S x) = Some d.
Proof.
  revert x. induction s as [|y r IH]; intros x H; [discriminate|].
  destruct r as [|z r']; [discriminate|]. rewrite index2_eq in H.
  destruct ((y =? c) && (z =? d))%N eqn:E.
  - apply andb_true_iff in E. destruct E as [E1 E2]. apply N.eqb_eq in E1, E2. subst.
    injection H as <-. cbn. split; [lia|split; reflexivity].
  - destruct (index2 c d (z :: r')) as [x'|]; [|discriminate]. cbn [option_map] in H. injection H as <-.
    destruct (IH x' eq_refl) as (A & B & C). cbn [length] in *. split; [lia|]. split; assumption.
Qed.

(* after a successful skipTo the cursor is live and the needle is next *)
Lemma skipTo1_spec text c k found k' : live text k -> skipTo1 c k = (found, k') ->
  live text k' /\
  (found = false -> k' = k) /\
  (found = true -> exists r, after k' = c :: r).
Proof.
  intros L H. unfold skipTo1 in H. destruct (index1 c (after k)) as [x|] eqn:Hi.
  - injection H as <- <-. destruct (index1_bound _ _ _ Hi) as [Hx Hn].
    destruct (updateCursor_go_spec text x k L ltac:(lia)) as (A & _ & _ & D).
    split; [apply set_width_live; exact A|]. split; [discriminate|]. intros _.
    unfold updateCursor. cbn [set_width after]. rewrite D.
    destruct (nth_error_split _ _ Hn) as (l1 & l2 & E & Hl). rewrite E. subst x.
    rewrite skipn_app, skipn_all, Nat.sub_diag. cbn. eexists; reflexivity.
  - injection H as <- <-. split; [exact L|]. split; [reflexivity|discriminate].
Qed.
Lemma skipTo2_spec text c d k found k' : live text k -> skipTo2 c d k = (found, k') ->
  live text k' /\
  (found = false -> k' = k) /\
  (found = true -> exists r, after k' = c :: d :: r).
Proof.
  intros L H. unfold skipTo2 in H. destruct (index2 c d (after k)) as [x|] eqn:Hi.
  - injection H as <- <-. destruct (index2_bound _ _ _ _ Hi) as (Hx & Hn & Hm).
    destruct (updateCursor_go_spec text x k L ltac:(lia)) as (A & _ & _ & D).
    split; [apply set_width_live; exact A|]. split; [discriminate|]. intros _.
    unfold updateCursor. cbn [set_width after]. rewrite D.
    destruct (nth_error_split _ _ Hn) as (l1 & l2 & E & Hl). rewrite E in *. subst x.
    rewrite skipn_app, skipn_all, Nat.sub_diag. cbn [skipn app].
    rewrite nth_error_app2 in Hm by lia. replace (S (length l1) - length l1)%nat with 1%nat in Hm by lia.
    cbn in Hm. destruct l2 as [|z l2']; [discriminate|]. injection Hm as ->. eexists; reflexivity.
  - injection H as <- <-. split; [exact L|]. split; [reflexivity|discriminate].
Qed.

(* ---------------------------------------------------------------- lexer invariant *)
Definition start_ok (text : str) (l : lexer) : Prop := (sline l, scol l + 1) = linecol text (soff l).
Definition span (k : cur) (off : nat) : Prop := exists b0, before k = tokrev k ++ b0 /\ length b0 = off.

Lemma span_text_at text k off : zip text k -> span k off -> text_at text off (rev (tokrev k)).
Proof.
  intros Z (b0 & Hb & Hl). unfold zip in Z. rewrite Hb, rev_app_distr, <- app_assoc in Z. subst text off.
  unfold text_at. rewrite <- (rev_length b0), skipn_app, skipn_all, Nat.sub_diag. cbn [skipn app].
  rewrite firstn_app, Nat.sub_diag, firstn_all. cbn [firstn]. apply app_nil_r.
Qed.

Definition tok_claim (text : str) (c : tcode) (off : nat) (s : str) : Prop :=
  match c with TUnquoted | TChar _ => text_at text off s /\ s <> [] | _ => True end.

Lemma emitText_items text l c s : Forall (tok_ok text) (items l) -> start_ok text l ->
  tok_claim text c (soff l) s -> Forall (tok_ok text) (items (emitText l c s)).
Proof.
  intros HI HS HC. unfold emitText; cbn [items].
  destruct (length (items l) <? maxErrors)%nat; [|exact HI].
  apply Forall_app. split; [exact HI|]. constructor; [|constructor].
  split; cbn [t_line t_col t_off t_code t_text]; [exact HS|exact HC].
Qed.

Lemma err_ok_intro text lc k off : lc = linecol text off ->
  err_ok text {| e_pos := Some lc; e_kind := k; e_subject := Some off |}.
Proof. intros ->. unfold err_ok; cbn [e_kind e_pos e_subject]. destruct k; try exact I; exists off; split; reflexivity. Qed.

Definition cur_ok (text : str) (l : lexer) : Prop :=
  (zip text (cu l) /\ Exact (cu l)) \/ (after (cu l) = [] /\ errcnt l = S maxErrors).

Lemma ErrorfAt_spec text l ln cl kind subj :
  Forall (tok_ok text) (items l) -> Forall (err_ok text) (errs l) -> start_ok text l ->
  err_ok text {| e_pos := Some (ln, cl + 1); e_kind := kind; e_subject := subj |} ->
  let l' := ErrorfAt l ln cl kind subj in
  Forall (tok_ok text) (items l') /\ Forall (err_ok text) (errs l') /\
  sline l' = sline l /\ scol l' = scol l /\ soff l' = soff l /\ state l' = state l /\
  inPattern l' = inPattern l /\ (cur_ok text l -> cur_ok text l').
Proof.
  intros HI HE HS Hsub. cbv zeta. unfold ErrorfAt.
  assert (I1 : Forall (tok_ok text) (items (emit l TError))) by (apply emitText_items; auto; exact I).
  assert (C1 : cur_ok text l -> cur_ok text (emit l TError)).
  { intros [[Z E]|[A B]]; [left; split; [exact Z|exact E]|right; split; [exact A|exact B]]. }
  change (errcnt (emit l TError)) with (errcnt l).
  destruct (Nat.eqb_spec (errcnt l) maxErrors) as [E8|N8].
  - cbn [items errs sline scol soff state inPattern cu errcnt].
    repeat split; auto.
    + constructor; [|exact HE]. exact I.
    + intros _. right. split; [reflexivity|]. rewrite E8. reflexivity.
  - destruct (Nat.eqb_spec (errcnt l) (S maxErrors)) as [E9|N9].
    + repeat split; auto.
    + cbn [items errs sline scol soff state inPattern cu errcnt].
      repeat split; auto.
      intros C. destruct (C1 C) as [L|[A B]]; [left; exact L|]. exfalso. apply N9. exact B.
Qed.

Definition SInv (text : str) (l : lexer) : Prop :=
  match state l with
  | SGround => live text (cu l)
  | SUnquoted => live text (cu l) /\ start_ok text l /\ span (cu l) (soff l) /\
                 (tokrev (cu l) <> [] \/ is_delim (hd EOFR (after (cu l))) = false)
  | SQString => zip text (cu l) /\ Exact (cu l) /\ start_ok text l /\
                line (cu l) = sline l /\ col (cu l) - 1 = scol l
  | SDone => True
  end.
Definition LInv (text : str) (l : lexer) : Prop :=
  Forall (tok_ok text) (items l) /\ Forall (err_ok text) (errs l) /\ SInv text l.

Lemma hd_cons (c : rune) a : c = hd EOFR a -> c <> EOFR -> exists r, a = c :: r.
Proof. destruct a; cbn; intros -> H; [congruence|eauto]. Qed.

Lemma advance_live text c r k w : after k = c :: r -> live text k -> live text (advance c k w).
Proof. intros Ha [Z I]. split; [eapply advance_zip; eauto|left; eapply advance_exact; eauto]. Qed.

Lemma advance_span c r k w off : after k = c :: r -> span k off -> span (advance c k w) off.
Proof.
  intros Ha (b0 & Hb & Hl). destruct (advance_fields c r k w Ha) as (Fb & _ & Ft & _).
  exists b0. rewrite Fb, Ft, Hb. split; [reflexivity|exact Hl].
Qed.
Lemma same_place_span k k' off : same_place k k' -> span k off -> span k' off.
Proof. intros (A & _ & C) (b0 & Hb & Hl). exists b0. rewrite A, C. auto. Qed.
Lemma consume_span k : span (consume k) (length (before k)).
Proof. exists (before k). split; reflexivity. Qed.

Lemma rev_nonnil {A} (l : list A) : l <> [] -> rev l <> [].
Proof. destruct l; [congruence|]. intros _ H. apply (f_equal (@length A)) in H. rewrite rev_length in H. discriminate. Qed.

Lemma unquoted_loop_inv text fuel : forall l, Forall (tok_ok text) (items l) -> Forall (err_ok text) (errs l) ->
  live text (cu l) -> start_ok text l -> span (cu l) (soff l) ->
  (tokrev (cu l) <> [] \/ is_delim (hd EOFR (after (cu l))) = false) ->
  LInv text (unquoted_loop fuel l).
Proof.
  induction fuel as [|f IH]; intros l HI HE L HS HSp HN; cbn [unquoted_loop].
  - split; [exact HI|split; [exact HE|exact I]].
  - destruct (peek (cu l)) as [c k] eqn:Hp.
    destruct L as [Z C]. destruct (peek_spec text _ _ _ Z C Hp) as (Hc & SP & Zk & Ck & _).
    destruct (is_delim c) eqn:Hd.
    + split; [|split].
      * cbn [with_state items]. unfold emit. apply emitText_items; auto. split.
        -- apply span_text_at; cbn [with_cu cu soff]; [exact Zk|]. eapply same_place_span; eauto.
        -- cbn [with_cu cu]. apply rev_nonnil. destruct SP as (_ & _ & ->).
           destruct HN as [HN|HN]; [exact HN|]. rewrite <- Hc, Hd in HN. discriminate.
      * exact HE.
      * unfold SInv. cbn [with_state state emit emitText cu with_cu]. apply consume_live. split; assumption.
    + assert (Hne : c <> EOFR) by (intros ->; discriminate).
      destruct (hd_cons c _ Hc Hne) as [r Ha].
      assert (Hak : after k = c :: r) by (destruct SP as (_ & -> & _); exact Ha).
      rewrite (next_cons k c r Hak).
      apply IH; cbn [with_cu items errs cu soff]; auto.
      * apply advance_live with (r := r); [exact Hak|split; assumption].
      * apply advance_span with (r := r); [exact Hak|]. eapply same_place_span; eauto.
      * left. destruct (advance_fields c r k 1 Hak) as (_ & _ & -> & _). discriminate.
Qed.

Lemma lexUnquoted_inv text l : Forall (tok_ok text) (items l) -> Forall (err_ok text) (errs l) ->
  live text (cu l) -> start_ok text l -> span (cu l) (soff l) ->
  (tokrev (cu l) <> [] \/ is_delim (hd EOFR (after (cu l))) = false) ->
  LInv text (lexUnquoted l).
Proof. intros. unfold lexUnquoted. apply unquoted_loop_inv; assumption. Qed.

(* ---- lexQString ---- *)
Lemma next_cur_ok text l c k : cur_ok text l -> next (cu l) = (c, k) ->
  cur_ok text (with_cu l k) /\
  (c <> EOFR -> exists r, after (cu l) = c :: r /\ k = advance c (cu l) 1 /\ zip text (cu l) /\ Exact (cu l) /\
                          zip text k /\ Exact k).
Proof.
  intros [[Z E]|[A B]] H; unfold next in H.
  - destruct (after (cu l)) as [|x r] eqn:Ha; injection H as <- <-.
    + split; [left; split; [exact Z|exact E]|congruence].
    + assert (Z' : zip text (advance x (cu l) 1)) by (eapply advance_zip; eauto).
      assert (E' : Exact (advance x (cu l) 1)) by (eapply advance_exact; eauto; left; exact E).
      split; [left; split; assumption|]. intros _. exists r. auto 10.
  - rewrite A in H. injection H as <- <-. split; [right; split; [exact A|exact B]|congruence].
Qed.

Lemma qstring_loop_inv text fuel : forall l indent over textrev,
  Forall (tok_ok text) (items l) -> Forall (err_ok text) (errs l) -> start_ok text l -> cur_ok text l ->
  LInv text (qstring_loop fuel l indent (sline l) (scol l) over textrev).
Proof.
  induction fuel as [|f IH]; intros l indent over textrev HI HE HS HC; cbn [qstring_loop].
  - split; [exact HI|split; [exact HE|exact I]].
  - destruct (next (cu l)) as [c k] eqn:Hn.
    destruct (next_cur_ok text l c k HC Hn) as [HCk Hlive].
    set (l1 := with_cu l k) in *.
    assert (HI1 : Forall (tok_ok text) (items l1)) by exact HI.
    assert (HE1 : Forall (err_ok text) (errs l1)) by exact HE.
    assert (HS1 : start_ok text l1) by exact HS.
    change (sline l) with (sline l1). change (scol l) with (scol l1).
    destruct (c =? EOFR)%N eqn:E0.
    { destruct (ErrorfAt_spec text l1 (sline l1) (scol l1) EMissingDQuote (Some (soff l1)) HI1 HE1 HS1 (err_ok_intro _ _ _ _ HS1))
        as (A & B & _).
      split; [exact A|split; [exact B|exact I]]. }
    apply N.eqb_neq in E0. destruct (Hlive E0) as (r & Ha & Hk & Z0 & X0 & Zk & Xk).
    destruct (c =? cDQ)%N eqn:E1.
    { split; [|split; [exact HE|]].
      - cbn [with_state items]. apply emitText_items; auto. exact I.
      - unfold SInv. cbn [with_state state emitText cu]. apply consume_live. split; [exact Zk|left; exact Xk]. }
    destruct (c =? cLF)%N eqn:E2; [apply IH; assumption|].
    destruct ((c =? cSP) || (c =? cTAB))%N eqn:E3.
    { destruct (negb over && (tcol k <=? indent)); apply IH; assumption. }
    destruct (c =? cBSL)%N eqn:E4; [|apply IH; assumption].
    apply N.eqb_eq in E4. subst c.
    destruct (next k) as [c2 k2] eqn:Hn2.
    destruct (next_cur_ok text l1 c2 k2 HCk Hn2) as [HCk2 _].
    set (l2 := with_cu l1 k2) in *.
    assert (HI2 : Forall (tok_ok text) (items l2)) by exact HI.
    assert (HE2 : Forall (err_ok text) (errs l2)) by exact HE.
    assert (HS2 : start_ok text l2) by exact HS.
    change (sline l1) with (sline l2). change (scol l1) with (scol l2).
    destruct (c2 =? c_n)%N; [apply IH; assumption|].
    destruct (c2 =? c_t)%N; [apply IH; assumption|].
    destruct (c2 =? cDQ)%N; [apply IH; assumption|].
    destruct (c2 =? cBSL)%N; [apply IH; assumption|].
    change (inPattern l1) with (inPattern l2).
    destruct (inPattern l2); [apply IH; assumption|].
    assert (Hpos : (line k, col k - 1 + 1) = linecol text (Nat.pred (length (before k)))).
    { destruct (advance_fields cBSL r (cu l) 1 Ha) as (Fb & _ & _ & _ & Fl & Fc & _).
      rewrite <- Hk in Fb, Fl, Fc. rewrite Fb, Fl, Fc. cbn [length Nat.pred].
      change (cBSL =? cLF)%N with false. cbv iota.
      rewrite (linecol_split text (before (cu l)) (after (cu l)) Z0).
      destruct X0 as (-> & -> & _). f_equal. lia. }
    destruct (ErrorfAt_spec text l2 (line k) (col k - 1) EInvalidEscape (Some (Nat.pred (length (before k))))
                HI2 HE2 HS2 (err_ok_intro _ _ _ _ Hpos)) as (A & B & S1 & S2 & S3 & _ & _ & C).
    rewrite <- S1, <- S2. apply IH; auto.
    unfold start_ok. rewrite S1, S2, S3. exact HS2.
Qed.

Lemma lexQString_inv text l : Forall (tok_ok text) (items l) -> Forall (err_ok text) (errs l) ->
  zip text (cu l) -> Exact (cu l) -> start_ok text l -> line (cu l) = sline l -> col (cu l) - 1 = scol l ->
  LInv text (lexQString l).
Proof.
  intros HI HE Z X HS Hl Hc. unfold lexQString. rewrite Hl, Hc.
  apply qstring_loop_inv; auto. left; split; assumption.
Qed.

Ltac ne := let Q := fresh in intro Q; vm_compute in Q; discriminate Q.

(* what emit does to the invariant, for a token whose text is input[start:pos] *)
Lemma emit_items text l c : Forall (tok_ok text) (items l) -> start_ok text l -> zip text (cu l) ->
  span (cu l) (soff l) -> tokrev (cu l) <> [] -> Forall (tok_ok text) (items (emit l c)).
Proof.
  intros HI HS Z Sp Hn. unfold emit. apply emitText_items; auto.
  assert (text_at text (soff l) (rev (tokrev (cu l))) /\ rev (tokrev (cu l)) <> []).
  { split; [apply span_text_at; assumption|apply rev_nonnil; exact Hn]. }
  destruct c; cbn; auto.
Qed.

Lemma acceptRun_stop text fuel : forall k, live text k -> (length (after k) < fuel)%nat ->
  is_blank (hd EOFR (after (acceptRun fuel k))) = false.
Proof.
  induction fuel as [|f IH]; intros k [Z I] Hf; [lia|]. cbn [acceptRun].
  destruct (after k) as [|c r] eqn:Ha.
  - rewrite (next_eof k Ha). change (is_blank EOFR) with false. cbv iota.
    unfold backup. cbn [set_width width after]. rewrite Ha. reflexivity.
  - rewrite (next_cons k c r Ha). destruct (is_blank c) eqn:Hb.
    + apply IH.
      * apply advance_live with (r := r); [exact Ha|split; assumption].
      * destruct (advance_fields c r k 1 Ha) as (_ & Fa & _). rewrite Fa. cbn [length] in Hf. lia.
    + destruct (backup_advance k c r Ha I) as ((_ & Sa & _) & _). rewrite Sa, Ha. exact Hb.
Qed.

Lemma lexGround_inv text l : Forall (tok_ok text) (items l) -> Forall (err_ok text) (errs l) ->
  live text (cu l) -> LInv text (lexGround l).
Proof.
  intros HI HE L. unfold lexGround. cbv zeta.
  destruct (acceptRun_spec text (S (length (after (cu l)))) (cu l) L ltac:(lia)) as [La Ea].
  set (k := consume (acceptRun (S (length (after (cu l)))) (cu l))).
  assert (Lk : live text k) by (apply consume_live; exact La).
  assert (Ek : Exact k) by exact Ea.
  assert (Tk : tokrev k = []) by reflexivity.
  assert (Sk : span k (length (before k))) by exact (consume_span (acceptRun _ _)).
  set (l0 := Build_lexer k _ _ _ _ _ _ _ _).
  assert (HS0 : start_ok text l0).
  { unfold start_ok. cbn [l0 sline scol soff]. destruct Lk as [Zk _].
    rewrite (linecol_split text (before k) (after k) Zk). destruct Ek as (-> & -> & _). f_equal. lia. }
  destruct (peek k) as [c k1] eqn:Hp.
  destruct Lk as [Zk Ck].
  destruct (peek_spec text k c k1 Zk Ck Hp) as (Hc & SP & Zk1 & Ck1 & Hl1 & Hc1 & Hx1).
  set (l1 := with_cu l0 k1).
  assert (HI1 : Forall (tok_ok text) (items l1)) by exact HI.
  assert (HE1 : Forall (err_ok text) (errs l1)) by exact HE.
  assert (HS1 : start_ok text l1) by exact HS0.
  destruct (c =? EOFR)%N eqn:E0; [split; [exact HI|split; [exact HE|exact I]]|].
  apply N.eqb_neq in E0. destruct (hd_cons c _ Hc E0) as [r Ha]. clear Hc.
  assert (Ha1 : after k1 = c :: r) by (destruct SP as (_ & -> & _); exact Ha).
  assert (Sp1 : span k1 (length (before k))) by (eapply same_place_span; eauto).
  assert (Tk1 : tokrev k1 = []) by (destruct SP as (_ & _ & ->); exact Tk).
  assert (Bk1 : before k1 = before k) by (destruct SP as (-> & _); reflexivity).
  (* one step over c *)
  pose proof (advance_live text c r k1 1 Ha1 (conj Zk1 Ck1)) as L2.
  pose proof (advance_exact c r k1 1 Ha1 Ck1) as X2.
  pose proof (advance_span c r k1 1 _ Ha1 Sp1) as Sp2.
  destruct (advance_fields c r k1 1 Ha1) as (Fb2 & Fa2 & Ft2 & _ & Fl2 & Fc2 & _).
  rewrite (next_cons k1 c r Ha1).
  set (k2 := advance c k1 1) in *.
  destruct ((c =? cSEMI) || (c =? cLB) || (c =? cRB))%N eqn:E1.
  { split; [|split; [exact HE|]].
    - cbn [with_state items]. apply emit_items; auto.
      + destruct L2; assumption.
      + cbn [with_cu cu]. rewrite Ft2. discriminate.
    - unfold SInv. cbn [with_state state]. apply consume_live. exact L2. }
  assert (NLF : c <> cLF -> line k2 = line k /\ col k2 - 1 = col k).
  { intro N. apply N.eqb_neq in N. rewrite N in Fl2, Fc2. rewrite Fl2, Fc2, Hl1, (Hc1 ltac:(apply N.eqb_neq; exact N)).
    destruct Ek as (-> & -> & _). split; lia. }
  destruct (c =? cSQ)%N eqn:E2.
  { apply N.eqb_eq in E2. subst c. destruct (NLF ltac:(ne)) as [Hl2 Hc2].
    destruct (skipTo1 cSQ (consume k2)) as [found k3] eqn:Hs.
    destruct (skipTo1_spec text cSQ (consume k2) found k3 (consume_live _ _ L2) Hs) as (L3 & Hnf & Hf).
    destruct found.
    - destruct (Hf eq_refl) as [r3 Ha3].
      set (l3 := emit (with_cu l1 k3) TString).
      assert (HI3 : Forall (tok_ok text) (items l3)) by (apply emitText_items; auto; exact I).
      change (cu l3) with (consume k3).
      rewrite (next_cons (consume k3) cSQ r3 Ha3).
      split; [exact HI3|split; [exact HE|]].
      unfold SInv. cbn [with_state state with_cu cu].
      apply advance_live with (r := r3); [exact Ha3|apply consume_live; exact L3].
    - rewrite (Hnf eq_refl).
      destruct (ErrorfAt_spec text (with_cu l1 (consume k2)) (line (consume k2)) (col (consume k2) - 1)
                  EMissingSQuote (Some (soff l1)) HI1 HE1 HS1) as (A & B & _).
      { apply err_ok_intro. cbn [consume line col]. rewrite Hl2, Hc2. exact HS0. }
      split; [exact A|split; [exact B|exact I]]. }
  destruct (c =? cDQ)%N eqn:E3.
  { apply N.eqb_eq in E3. subst c. destruct (NLF ltac:(ne)) as [Hl2 Hc2].
    split; [exact HI|split; [exact HE|]].
    unfold SInv. cbn [with_state state with_cu cu]. destruct L2 as [Z2 _].
    split; [exact Z2|split; [exact X2|split; [exact HS0|split; [exact Hl2|exact Hc2]]]]. }
  (* a second look-ahead rune *)
  destruct (peek k2) as [c2 k3] eqn:Hp2.
  destruct L2 as [Z2 C2].
  destruct (peek_spec text k2 c2 k3 Z2 C2 Hp2) as (Hc2' & SP3 & Zk3 & Ck3 & Hl3 & Hc3 & Hx3).
  assert (Sp3 : span k3 (length (before k))) by (eapply same_place_span; eauto).
  assert (Tk3 : tokrev k3 = [c]) by (destruct SP3 as (_ & _ & ->); rewrite Ft2, Tk1; reflexivity).
  assert (HUQ : LInv text (with_state (with_cu l1 k3) SUnquoted)).
  { split; [exact HI|split; [exact HE|]]. unfold SInv. cbn [with_state state with_cu cu].
    split; [split; assumption|]. split; [exact HS0|]. split; [exact Sp3|]. left. rewrite Tk3. discriminate. }
  destruct (c =? cSLASH)%N eqn:E4.
  { apply N.eqb_eq in E4. subst c. destruct (NLF ltac:(ne)) as [Hl2 Hcc2].
    destruct (c2 =? cSLASH)%N eqn:E5.
    { apply N.eqb_eq in E5. rewrite E5 in *.
      destruct (skipTo1 cLF k3) as [found k4] eqn:Hs.
      destruct (skipTo1_spec text cLF k3 found k4 (conj Zk3 Ck3) Hs) as (L4 & Hnf & Hf).
      destruct found.
      - split; [exact HI|split; [exact HE|exact L4]].
      - rewrite (Hnf eq_refl).
        destruct (ErrorfAt_spec text (with_cu l1 k3) (line k3) (col k3 - 1)
                    EInternalNL (Some (soff l1)) HI1 HE1 HS1) as (A & B & _).
        { apply err_ok_intro. rewrite Hl3, (Hc3 ltac:(ne)). destruct X2 as (<- & <- & _). rewrite Hl2, Hcc2. exact HS0. }
        split; [exact A|split; [exact B|exact I]]. }
    destruct (c2 =? cSTAR)%N eqn:E6; [|exact HUQ].
    apply N.eqb_eq in E6. rewrite E6 in *. clear E6.
    assert (E6 : cSTAR <> EOFR) by ne.
    destruct (hd_cons cSTAR _ Hc2' E6) as [r2 Ha2].
    assert (Ha3 : after k3 = cSTAR :: r2) by (destruct SP3 as (_ & -> & _); exact Ha2).
    rewrite (next_cons k3 cSTAR r2 Ha3).
    pose proof (advance_live text cSTAR r2 k3 1 Ha3 (conj Zk3 Ck3)) as L4.
    destruct (advance_fields cSTAR r2 k3 1 Ha3) as (_ & _ & _ & _ & Fl4 & Fc4 & _).
    set (k4 := advance cSTAR k3 1) in *.
    destruct (skipTo2 cSTAR cSLASH k4) as [found k5] eqn:Hs.
    destruct (skipTo2_spec text cSTAR cSLASH k4 found k5 L4 Hs) as (L5 & Hnf & Hf).
    destruct found.
    - destruct (Hf eq_refl) as [r5 Ha5].
      rewrite (next_cons k5 cSTAR (cSLASH :: r5) Ha5).
      pose proof (advance_live text cSTAR _ k5 1 Ha5 L5) as L6.
      destruct (advance_fields cSTAR _ k5 1 Ha5) as (_ & Fa6 & _).
      rewrite (next_cons _ cSLASH r5 Fa6).
      split; [exact HI|split; [exact HE|]]. unfold SInv. cbn [with_state state with_cu cu].
      apply advance_live with (r := r5); assumption.
    - rewrite (Hnf eq_refl).
      destruct (ErrorfAt_spec text (with_cu l1 k4) (line k4) (col k4 - 2)
                  EMissingComment (Some (soff l1)) HI1 HE1 HS1) as (A & B & _).
      { apply err_ok_intro. rewrite Fl4, Fc4. change (cSTAR =? cLF)%N with false. cbv iota.
        rewrite Hl3, (Hc3 ltac:(ne)). destruct X2 as (<- & <- & _).
        replace (col k2 + 1 - 2 + 1) with (col k2 - 1 + 1) by lia. rewrite Hl2, Hcc2. exact HS0. }
      split; [exact A|split; [exact B|exact I]]. }
  destruct (c =? cPLUS)%N eqn:E7.
  { destruct ((c2 =? cDQ) || (c2 =? cSQ))%N; [|exact HUQ].
    split; [|split; [exact HE|]].
    - cbn [with_state items]. apply emit_items; auto. cbn [with_cu cu]. rewrite Tk3. discriminate.
    - unfold SInv. cbn [with_state state]. apply consume_live. split; assumption. }
  (* default: an unquoted token starts at c *)
  split; [exact HI|split; [exact HE|]]. unfold SInv. unfold l1. cbn [with_state state with_cu cu].
  split; [split; assumption|]. split; [exact HS0|]. split; [exact Sp1|]. right.
  rewrite Ha1. cbn [hd]. unfold is_delim.
  apply orb_false_iff in E1. destruct E1 as [E1 E1c]. apply orb_false_iff in E1. destruct E1 as [E1a E1b].
  pose proof (acceptRun_stop text (S (length (after (cu l)))) (cu l) L ltac:(lia)) as Hnb.
  change (after (acceptRun (S (length (after (cu l)))) (cu l))) with (after k) in Hnb.
  rewrite Ha in Hnb. cbn [hd] in Hnb. unfold is_blank in Hnb.
  apply orb_false_iff in Hnb. destruct Hnb as [Hnb B4]. apply orb_false_iff in Hnb. destruct Hnb as [Hnb B3].
  apply orb_false_iff in Hnb. destruct Hnb as [B1 B2].
  rewrite E1a, E1b, E1c, E2, E3, B1, B2, B3, B4. apply N.eqb_neq in E0. rewrite E0. reflexivity.
Qed.
