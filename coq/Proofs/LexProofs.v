(* Cursor invariants of the lexer model: line / col / tcol are functions of the consumed text. *)
From Coq Require Import List NArith ZArith Bool Lia.
Import ListNotations.
From GY Require Import Model.Lex Model.Parse Spec.C16 Spec.C02.
Local Open Scope Z_scope.

(* the exact counters for a reversed consumed prefix *)
Definition xline (b : str) : Z := 1 + count_lf b.
Definition xcol (b : str) : Z := Z.of_nat (length (cur_line_rev b)).
Definition xtcol (b : str) : Z := tabw_rev (cur_line_rev b).

Lemma xline_cons c b : xline (c :: b) = if (c =? cLF)%N then xline b + 1 else xline b.
Proof. unfold xline; cbn [count_lf]. destruct (c =? cLF)%N; lia. Qed.
Lemma xcol_cons c b : xcol (c :: b) = if (c =? cLF)%N then 0 else xcol b + 1.
Proof. unfold xcol; cbn [cur_line_rev]. destruct (c =? cLF)%N; cbn [length]; lia. Qed.
Lemma xtcol_cons c b : xtcol (c :: b) =
  if (c =? cLF)%N then 0 else if (c =? cTAB)%N then tab_stop (xtcol b) else xtcol b + 1.
Proof. unfold xtcol; cbn [cur_line_rev]. destruct (c =? cLF)%N; reflexivity. Qed.
Lemma xcol_nonneg b : 0 <= xcol b. Proof. unfold xcol; lia. Qed.
Lemma tab_stop_pos t : 0 <= t -> t < tab_stop t /\ tab_stop t mod 8 = 0.
Proof.
  intro H. unfold tab_stop. split.
  - pose proof (Z.mod_pos_bound (t + 8) 8 ltac:(lia)). pose proof (Z.div_mod (t + 8) 8 ltac:(lia)). lia.
  - apply Z.mod_mul. lia.
Qed.
Lemma tab_stop_back t : 0 <= t -> tab_stop (tab_stop t - 1) = tab_stop t.
Proof.
  intro H. unfold tab_stop.
  set (q := (t + 8) / 8). replace (q * 8 - 1 + 8) with (7 + q * 8) by lia.
  rewrite Z.div_add by lia. reflexivity.
Qed.
Lemma xtcol_nonneg b : 0 <= xtcol b.
Proof.
  unfold xtcol. induction (cur_line_rev b) as [|c r IH]; cbn [tabw_rev]; [lia|].
  destruct (c =? cTAB)%N; [|lia]. pose proof (tab_stop_pos _ IH). lia.
Qed.

(* the cursor is exact: its three counters are what the consumed text says *)
Definition Exact (k : cur) : Prop :=
  line k = xline (before k) /\ col k = xcol (before k) /\ tcol k = xtcol (before k).

(* the transient states peek() leaves behind when the next rune is a line break (col and tcol
   zeroed) or a tab (tcol one short of the tab stop); the next next() repairs both *)
Definition TransLF (k : cur) : Prop :=
  line k = xline (before k) /\ col k = 0 /\ tcol k = 0 /\ exists r, after k = cLF :: r.
Definition TransTab (k : cur) : Prop :=
  line k = xline (before k) /\ col k = xcol (before k) /\ tcol k = tab_stop (xtcol (before k)) - 1 /\
  exists r, after k = cTAB :: r.

Definition CInv (k : cur) : Prop := Exact k \/ TransLF k \/ TransTab k.

(* the zipper holds the text *)
Definition zip (text : str) (k : cur) : Prop := rev (before k) ++ after k = text.

Lemma advance_fields c r k w : after k = c :: r ->
  before (advance c k w) = c :: before k /\ after (advance c k w) = r /\
  tokrev (advance c k w) = c :: tokrev k /\ width (advance c k w) = w /\
  line (advance c k w) = (if (c =? cLF)%N then line k + 1 else line k) /\
  col (advance c k w) = (if (c =? cLF)%N then 0 else col k + 1) /\
  tcol (advance c k w) = (if (c =? cLF)%N then 0 else if (c =? cTAB)%N then tab_stop (tcol k) else tcol k + 1).
Proof.
  intro Ha. unfold advance. rewrite Ha.
  destruct (c =? cLF)%N; [|destruct (c =? cTAB)%N]; cbn; auto 10.
Qed.

Lemma advance_exact c r k w : after k = c :: r -> CInv k -> Exact (advance c k w).
Proof.
  intros Ha I. destruct (advance_fields c r k w Ha) as (Fb & _ & _ & _ & Fl & Fc & Ft).
  unfold Exact. rewrite Fb, Fl, Fc, Ft, xline_cons, xcol_cons, xtcol_cons.
  destruct I as [(El & Ec & Et)|[(El & Ec & Et & r' & Hr)|(El & Ec & Et & r' & Hr)]].
  - rewrite El, Ec, Et. destruct (c =? cLF)%N; [auto|]. destruct (c =? cTAB)%N; auto.
  - rewrite Ha in Hr. injection Hr as -> _. rewrite N.eqb_refl. rewrite El. auto.
  - rewrite Ha in Hr. injection Hr as -> _. change ((cTAB =? cLF)%N) with false. rewrite N.eqb_refl.
    rewrite El, Ec, Et. rewrite tab_stop_back by apply xtcol_nonneg. auto.
Qed.

Lemma advance_zip text c r k w : after k = c :: r -> zip text k -> zip text (advance c k w).
Proof.
  intros Ha Z. destruct (advance_fields c r k w Ha) as (Fb & Fa & _).
  unfold zip in *. rewrite Fb, Fa. cbn [rev]. rewrite <- app_assoc. cbn [app]. rewrite Ha in Z. exact Z.
Qed.

(* ---- next ---- *)
Lemma next_eof k : after k = [] -> next k = (EOFR, set_width k 0).
Proof. intro H. unfold next. rewrite H. reflexivity. Qed.
Lemma next_cons k c r : after k = c :: r -> next k = (c, advance c k 1).
Proof. intro H. unfold next. rewrite H. reflexivity. Qed.

Lemma set_width_cinv k w : CInv k -> CInv (set_width k w).
Proof. intros [E|[T|T]]; [left|right;left|right;right]; assumption. Qed.
Lemma set_width_zip text k w : zip text k -> zip text (set_width k w).
Proof. intro H; exact H. Qed.

Lemma next_cinv text k c k' : zip text k -> CInv k -> next k = (c, k') -> zip text k' /\ CInv k'.
Proof.
  intros Z I H. unfold next in H. destruct (after k) as [|x r] eqn:Ha.
  - injection H as <- <-. split; [exact Z | apply set_width_cinv; exact I].
  - injection H as <- <-. split; [eapply advance_zip; eauto | left; eapply advance_exact; eauto].
Qed.

(* ---- backup right after next: peek ---- *)
Definition same_place (k k' : cur) : Prop :=
  before k' = before k /\ after k' = after k /\ tokrev k' = tokrev k.

Lemma backup_advance k c r : after k = c :: r -> CInv k ->
  let k' := backup (advance c k 1) in
  same_place k k' /\ CInv k' /\ (c <> cLF -> col k' = xcol (before k)) /\ line k' = xline (before k) /\
  (c <> cLF -> c <> cTAB -> Exact k').
Proof.
  intros Ha I. cbn zeta.
  pose proof (advance_exact c r k 1 Ha I) as (Xl & Xc & Xt).
  destruct (advance_fields c r k 1 Ha) as (Fb & Fa & Ft & Fw & _).
  rewrite Fb, xline_cons in Xl. rewrite Fb, xcol_cons in Xc. rewrite Fb, xtcol_cons in Xt.
  unfold backup. rewrite Fw. cbn [unread]. rewrite Fb. cbn [unread]. rewrite Fa, Ft. cbn [tl].
  pose proof (xcol_nonneg (before k)) as Hc. pose proof (xtcol_nonneg (before k)) as Htc.
  destruct (N.eqb_spec c cLF) as [->|Hn].
  - rewrite Xc. change (0 - 1 <? 0) with true. cbv iota.
    unfold same_place; cbn [before after tokrev line col tcol].
    split; [auto|]. split; [|split; [congruence|split; [lia|congruence]]].
    right; left. unfold TransLF; cbn [before after line col tcol]. repeat split; try lia. eexists; reflexivity.
  - rewrite Xc. destruct (Z.ltb_spec (xcol (before k) + 1 - 1) 0); [lia|].
    unfold same_place; cbn [before after tokrev line col tcol].
    split; [auto|].
    destruct (N.eqb_spec c cTAB) as [->|Ht].
    + split; [|split; [lia|split; [lia|congruence]]].
      right; right. unfold TransTab; cbn [before after line col tcol]. repeat split; try lia. eexists; reflexivity.
    + assert (E : forall a tr w, Exact {| before := before k; after := a; tokrev := tr;
                           line := line (advance c k 1); col := xcol (before k) + 1 - 1;
                           tcol := tcol (advance c k 1) - 1; width := w |}).
      { intros. unfold Exact; cbn [before line col tcol]. repeat split; lia. }
      split; [left; apply E|]. split; [lia|]. split; [lia|]. intros _ _. apply E.
Qed.

Lemma peek_spec text k c k' : zip text k -> CInv k -> peek k = (c, k') ->
  c = hd EOFR (after k) /\ same_place k k' /\ zip text k' /\ CInv k' /\
  line k' = xline (before k) /\ (c <> cLF -> col k' = xcol (before k)) /\
  (c <> cLF -> c <> cTAB -> c <> EOFR -> Exact k').
Proof.
  intros Z I H. unfold peek in H. destruct (after k) as [|x r] eqn:Ha.
  - rewrite (next_eof k Ha) in H. injection H as <- <-. cbn [hd]. unfold backup. cbn [set_width width].
    split; [reflexivity|]. split; [unfold same_place; cbn; auto|]. split; [exact Z|].
    split; [apply set_width_cinv; exact I|].
    destruct I as [(El & Ec & Et)|[(El & Ec & Et & r' & Hr)|(El & Ec & Et & r' & Hr)]];
      try (rewrite Ha in Hr; discriminate).
    cbn [set_width line col]. split; [exact El|]. split; [intros _; exact Ec|congruence].
  - rewrite (next_cons k x r Ha) in H. injection H as <- <-. cbn [hd].
    destruct (backup_advance k x r Ha I) as (S & C & Hc & Hl & He).
    split; [reflexivity|]. split; [exact S|]. split.
    + destruct S as (Sb & Sa & _). unfold zip in *. rewrite Sb, Sa. exact Z.
    + split; [exact C|]. split; [exact Hl|]. split; [exact Hc|]. intros A B _. exact (He A B).
Qed.

(* ---- positions from the zipper ---- *)
Lemma linecol_split text b a : rev b ++ a = text ->
  linecol text (length b) = (xline b, 1 + xcol b).
Proof.
  intros <-. unfold linecol. rewrite <- (rev_length b), firstn_app, Nat.sub_diag, firstn_all.
  cbn [firstn]. rewrite app_nil_r, rev_involutive. reflexivity.
Qed.

Definition live (text : str) (k : cur) : Prop := zip text k /\ CInv k.

Lemma consume_live text k : live text k -> live text (consume k).
Proof. intros [Z I]. split; [exact Z|]. destruct I as [E|[T|T]]; [left|right;left|right;right]; exact E || exact T. Qed.
Lemma consume_exact k : Exact k -> Exact (consume k).
Proof. intro E; exact E. Qed.

(* ---- acceptRun ---- *)
Lemma acceptRun_spec text fuel : forall k, live text k -> (length (after k) < fuel)%nat ->
  live text (acceptRun fuel k) /\ Exact (acceptRun fuel k).
Proof.
  induction fuel as [|f IH]; intros k [Z I] Hf; [lia|]. cbn [acceptRun].
  destruct (after k) as [|c r] eqn:Ha.
  - rewrite (next_eof k Ha). change (is_blank EOFR) with false. cbv iota.
    unfold backup. cbn [set_width width].
    assert (E : Exact k).
    { destruct I as [E|[(_&_&_&r'&Hr)|(_&_&_&r'&Hr)]]; [exact E| |]; rewrite Ha in Hr; discriminate. }
    split; [split; [exact Z|left; exact E]|exact E].
  - rewrite (next_cons k c r Ha). destruct (is_blank c) eqn:Hb.
    + apply IH.
      * split; [eapply advance_zip; eauto|left; eapply advance_exact; eauto].
      * destruct (advance_fields c r k 1 Ha) as (_ & Fa & _). rewrite Fa. cbn [length] in Hf. lia.
    + destruct (backup_advance k c r Ha I) as (S & C & _ & _ & He).
      assert (c <> cLF /\ c <> cTAB) as [N1 N2].
      { unfold is_blank in Hb. split; intros ->; cbn in Hb; discriminate. }
      split; [split|]; [|exact C|exact (He N1 N2)].
      destruct S as (Sb & Sa & _). unfold zip in *. rewrite Sb, Sa. exact Z.
Qed.

(* ---- updateCursor / skipTo ---- *)
Lemma updateCursor_go_spec text n : forall k, live text k -> (n <= length (after k))%nat ->
  live text (updateCursor_go n k) /\ (n <> O -> Exact (updateCursor_go n k)) /\
  before (updateCursor_go n k) = rev (firstn n (after k)) ++ before k /\
  after (updateCursor_go n k) = skipn n (after k).
Proof.
  induction n as [|n IH]; intros k L Hn; cbn [updateCursor_go].
  - split; [exact L|]. split; [congruence|]. split; reflexivity.
  - destruct (after k) as [|c r] eqn:Ha; [cbn in Hn; lia|].
    destruct L as [Z I].
    destruct (advance_fields c r k 0 Ha) as (Fb & Fa & _).
    assert (L' : live text (advance c k 0))
      by (split; [eapply advance_zip; eauto|left; eapply advance_exact; eauto]).
    destruct (IH (advance c k 0) L') as (A & B & C & D); [rewrite Fa; cbn [length] in Hn; lia|].
    split; [exact A|]. split.
    + intros _. destruct n; [cbn [updateCursor_go]; eapply advance_exact; eauto | apply B; discriminate].
    + rewrite C, D, Fb, Fa. cbn [firstn skipn rev]. rewrite <- app_assoc. split; reflexivity.
Qed.

Lemma set_width_live text k w : live text k -> live text (set_width k w).
Proof. intros [Z I]; split; [exact Z|apply set_width_cinv; exact I]. Qed.

Lemma index1_bound c s x : index1 c s = Some x -> (x < length s)%nat /\ nth_error s x = Some c.
Proof.
  revert x. induction s as [|y r IH]; intros x H; cbn in H; [discriminate|].
  destruct (N.eqb_spec y c) as [->|Hn].
  - injection H as <-. cbn. split; [lia|reflexivity].
  - destruct (index1 c r) as [x'|]; [|discriminate]. cbn [option_map] in H. injection H as <-.
    destruct (IH x' eq_refl). cbn. split; [lia|assumption].
Qed.
Lemma index2_eq c d y z r : index2 c d (y :: z :: r) =
  if ((y =? c) && (z =? d))%N then Some O else option_map S (index2 c d (z :: r)).
Proof. reflexivity. Qed.
Lemma index2_bound c d s x : index2 c d s = Some x -> (S x < length s)%nat /\
  nth_error s x = Some c /\ nth_error s (S x) = Some d.
Proof.
  revert x. induction s as [|y r IH]; intros x H; [discriminate|].
  destruct r as [|z r']; [discriminate|]. rewrite index2_eq in H.
  destruct ((y =? c) && (z =? d))%N eqn:E.
  - apply andb_true_iff in E. destruct E as [E1 E2]. apply N.eqb_eq in E1, E2. subst.
    injection H as <-. cbn. split; [lia|split; reflexivity].
  - destruct (index2 c d (z :: r')) as [x'|]; [|discriminate]. cbn [option_map] in H. injection H as <-.
    destruct (IH x' eq_refl) as (A & B & C). cbn [length] in *. split; [lia|]. split; assumption.
Qed.

(* after a successful skipTo the cursor is live and the needle is next *)
Lemma skipTo1_spec text c k found k' : live text k -> skipTo1 c k = (found, k') ->
  live text k' /\
  (found = false -> k' = k) /\
  (found = true -> exists r, after k' = c :: r).
Proof.
  intros L H. unfold skipTo1 in H. destruct (index1 c (after k)) as [x|] eqn:Hi.
  - injection H as <- <-. destruct (index1_bound _ _ _ Hi) as [Hx Hn].
    destruct (updateCursor_go_spec text x k L ltac:(lia)) as (A & _ & _ & D).
    split; [apply set_width_live; exact A|]. split; [discriminate|]. intros _.
    unfold updateCursor. cbn [set_width after]. rewrite D.
    destruct (nth_error_split _ _ Hn) as (l1 & l2 & E & Hl). rewrite E. subst x.
    rewrite skipn_app, skipn_all, Nat.sub_diag. cbn. eexists; reflexivity.
  - injection H as <- <-. split; [exact L|]. split; [reflexivity|discriminate].
Qed.
Lemma skipTo2_spec text c d k found k' : live text k -> skipTo2 c d k = (found, k') ->
  live text k' /\
  (found = false -> k' = k) /\
  (found = true -> exists r, after k' = c :: d :: r).
Proof.
  intros L H. unfold skipTo2 in H. destruct (index2 c d (after k)) as [x|] eqn:Hi.
  - injection H as <- <-. destruct (index2_bound _ _ _ _ Hi) as (Hx & Hn & Hm).
    destruct (updateCursor_go_spec text x k L ltac:(lia)) as (A & _ & _ & D).
    split; [apply set_width_live; exact A|]. split; [discriminate|]. intros _.
    unfold updateCursor. cbn [set_width after]. rewrite D.
    destruct (nth_error_split _ _ Hn) as (l1 & l2 & E & Hl). rewrite E in *. subst x.
    rewrite skipn_app, skipn_all, Nat.sub_diag. cbn [skipn app].
    rewrite nth_error_app2 in Hm by lia. replace (S (length l1) - length l1)%nat with 1%nat in Hm by lia.
    cbn in Hm. destruct l2 as [|z l2']; [discriminate|]. injection Hm as ->. eexists; reflexivity.
  - injection H as <- <-. split; [exact L|]. split; [reflexivity|discriminate].
Qed.

(* ---------------------------------------------------------------- lexer invariant *)
Definition start_ok (text : str) (l : lexer) : Prop := (sline l, scol l + 1) = linecol text (soff l).
Definition span (k : cur) (off : nat) : Prop := exists b0, before k = tokrev k ++ b0 /\ length b0 = off.

Lemma span_text_at text k off : zip text k -> span k off -> text_at text off (rev (tokrev k)).
Proof.
  intros Z (b0 & Hb & Hl). unfold zip in Z. rewrite Hb, rev_app_distr, <- app_assoc in Z. subst text off.
  unfold text_at. rewrite <- (rev_length b0), skipn_app, skipn_all, Nat.sub_diag. cbn [skipn app].
  rewrite firstn_app, Nat.sub_diag, firstn_all. cbn [firstn]. apply app_nil_r.
Qed.

Definition tok_claim (text : str) (c : tcode) (off : nat) (s : str) : Prop :=
  match c with TUnquoted | TChar _ => text_at text off s /\ s <> [] | _ => True end.

Lemma emitText_items text l c s : Forall (tok_ok text) (items l) -> start_ok text l ->
  tok_claim text c (soff l) s -> Forall (tok_ok text) (items (emitText l c s)).
Proof.
  intros HI HS HC. unfold emitText; cbn [items].
  destruct (length (items l) <? maxErrors)%nat; [|exact HI].
  apply Forall_app. split; [exact HI|]. constructor; [|constructor].
  split; cbn [t_line t_col t_off t_code t_text]; [exact HS|exact HC].
Qed.

Lemma err_ok_intro text lc k off : lc = linecol text off ->
  err_ok text {| e_pos := Some lc; e_kind := k; e_subject := Some off |}.
Proof. intros ->. unfold err_ok; cbn [e_kind e_pos e_subject]. destruct k; try exact I; exists off; split; reflexivity. Qed.

Definition cur_ok (text : str) (l : lexer) : Prop :=
  (zip text (cu l) /\ Exact (cu l)) \/ (after (cu l) = [] /\ errcnt l = S maxErrors).

Lemma ErrorfAt_spec text l ln cl kind subj :
  Forall (tok_ok text) (items l) -> Forall (err_ok text) (errs l) -> start_ok text l ->
  err_ok text {| e_pos := Some (ln, cl + 1); e_kind := kind; e_subject := subj |} ->
  let l' := ErrorfAt l ln cl kind subj in
  Forall (tok_ok text) (items l') /\ Forall (err_ok text) (errs l') /\
  sline l' = sline l /\ scol l' = scol l /\ soff l' = soff l /\ state l' = state l /\
  inPattern l' = inPattern l /\ (cur_ok text l -> cur_ok text l').
Proof.
  intros HI HE HS Hsub. cbv zeta. unfold ErrorfAt.
  assert (I1 : Forall (tok_ok text) (items (emit l TError))) by (apply emitText_items; auto; exact I).
  assert (C1 : cur_ok text l -> cur_ok text (emit l TError)).
  { intros [[Z E]|[A B]]; [left; split; [exact Z|exact E]|right; split; [exact A|exact B]]. }
  change (errcnt (emit l TError)) with (errcnt l).
  destruct (Nat.eqb_spec (errcnt l) maxErrors) as [E8|N8].
  - cbn [items errs sline scol soff state inPattern cu errcnt].
    repeat split; auto.
    + constructor; [|exact HE]. exact I.
    + intros _. right. split; [reflexivity|]. rewrite E8. reflexivity.
  - destruct (Nat.eqb_spec (errcnt l) (S maxErrors)) as [E9|N9].
    + repeat split; auto.
    + cbn [items errs sline scol soff state inPattern cu errcnt].
      repeat split; auto.
      intros C. destruct (C1 C) as [L|[A B]]; [left; exact L|]. exfalso. apply N9. exact B.
Qed.

Definition SInv (text : str) (l : lexer) : Prop :=
  match state l with
  | SGround => live text (cu l)
  | SUnquoted => live text (cu l) /\ start_ok text l /\ span (cu l) (soff l) /\
                 (tokrev (cu l) <> [] \/ is_delim (hd EOFR (after (cu l))) = false)
  | SQString => zip text (cu l) /\ Exact (cu l) /\ start_ok text l /\
                line (cu l) = sline l /\ col (cu l) - 1 = scol l
  | SDone => True
  end.
Definition LInv (text : str) (l : lexer) : Prop :=
  Forall (tok_ok text) (items l) /\ Forall (err_ok text) (errs l) /\ SInv text l.

Lemma hd_cons (c : rune) a : c = hd EOFR a -> c <> EOFR -> exists r, a = c :: r.
Proof. destruct a; cbn; intros -> H; [congruence|eauto]. Qed.

Lemma advance_live text c r k w : after k = c :: r -> live text k -> live text (advance c k w).
Proof. intros Ha [Z I]. split; [eapply advance_zip; eauto|left; eapply advance_exact; eauto]. Qed.

Lemma advance_span c r k w off : after k = c :: r -> span k off -> span (advance c k w) off.
Proof.
  intros Ha (b0 & Hb & Hl). destruct (advance_fields c r k w Ha) as (Fb & _ & Ft & _).
  exists b0. rewrite Fb, Ft, Hb. split; [reflexivity|exact Hl].
Qed.
Lemma same_place_span k k' off : same_place k k' -> span k off -> span k' off.
Proof. intros (A & _ & C) (b0 & Hb & Hl). exists b0. rewrite A, C. auto. Qed.
Lemma consume_span k : span (consume k) (length (before k)).
Proof. exists (before k). split; reflexivity. Qed.

Lemma rev_nonnil {A} (l : list A) : l <> [] -> rev l <> [].
Proof. destruct l; [congruence|]. intros _ H. apply (f_equal (@length A)) in H. rewrite rev_length in H. discriminate. Qed.

Lemma unquoted_loop_inv text fuel : forall l, Forall (tok_ok text) (items l) -> Forall (err_ok text) (errs l) ->
  live text (cu l) -> start_ok text l -> span (cu l) (soff l) ->
  (tokrev (cu l) <> [] \/ is_delim (hd EOFR (after (cu l))) = false) ->
  LInv text (unquoted_loop fuel l).
Proof.
  induction fuel as [|f IH]; intros l HI HE L HS HSp HN; cbn [unquoted_loop].
  - split; [exact HI|split; [exact HE|exact I]].
  - destruct (peek (cu l)) as [c k] eqn:Hp.
    destruct L as [Z C]. destruct (peek_spec text _ _ _ Z C Hp) as (Hc & SP & Zk & Ck & _).
    destruct (is_delim c) eqn:Hd.
    + split; [|split].
      * cbn [with_state items]. unfold emit. apply emitText_items; auto. split.
        -- apply span_text_at; cbn [with_cu cu soff]; [exact Zk|]. eapply same_place_span; eauto.
        -- cbn [with_cu cu]. apply rev_nonnil. destruct SP as (_ & _ & ->).
           destruct HN as [HN|HN]; [exact HN|]. rewrite <- Hc, Hd in HN. discriminate.
      * exact HE.
      * unfold SInv. cbn [with_state state emit emitText cu with_cu]. apply consume_live. split; assumption.
    + assert (Hne : c <> EOFR) by (intros ->; discriminate).
      destruct (hd_cons c _ Hc Hne) as [r Ha].
      assert (Hak : after k = c :: r) by (destruct SP as (_ & -> & _); exact Ha).
      rewrite (next_cons k c r Hak).
      apply IH; cbn [with_cu items errs cu soff]; auto.
      * apply advance_live with (r := r); [exact Hak|split; assumption].
      * apply advance_span with (r := r); [exact Hak|]. eapply same_place_span; eauto.
      * left. destruct (advance_fields c r k 1 Hak) as (_ & _ & -> & _). discriminate.
Qed.

Lemma lexUnquoted_inv text l : Forall (tok_ok text) (items l) -> Forall (err_ok text) (errs l) ->
  live text (cu l) -> start_ok text l -> span (cu l) (soff l) ->
  (tokrev (cu l) <> [] \/ is_delim (hd EOFR (after (cu l))) = false) ->
  LInv text (lexUnquoted l).
Proof. intros. unfold lexUnquoted. apply unquoted_loop_inv; assumption. Qed.

(* ---- lexQString ---- *)
Lemma next_cur_ok text l c k : cur_ok text l -> next (cu l) = (c, k) ->
  cur_ok text (with_cu l k) /\
  (c <> EOFR -> exists r, after (cu l) = c :: r /\ k = advance c (cu l) 1 /\ zip text (cu l) /\ Exact (cu l) /\
                          zip text k /\ Exact k).
Proof.
  intros [[Z E]|[A B]] H; unfold next in H.
  - destruct (after (cu l)) as [|x r] eqn:Ha; injection H as <- <-.
    + split; [left; split; [exact Z|exact E]|congruence].
    + assert (Z' : zip text (advance x (cu l) 1)) by (eapply advance_zip; eauto).
      assert (E' : Exact (advance x (cu l) 1)) by (eapply advance_exact; eauto; left; exact E).
      split; [left; split; assumption|]. intros _. exists r. auto 10.
  - rewrite A in H. injection H as <- <-. split; [right; split; [exact A|exact B]|congruence].
Qed.

Lemma qstring_loop_inv text fuel : forall l indent over textrev,
  Forall (tok_ok text) (items l) -> Forall (err_ok text) (errs l) -> start_ok text l -> cur_ok text l ->
  LInv text (qstring_loop fuel l indent (sline l) (scol l) over textrev).
Proof.
  induction fuel as [|f IH]; intros l indent over textrev HI HE HS HC; cbn [qstring_loop].
  - split; [exact HI|split; [exact HE|exact I]].
  - destruct (next (cu l)) as [c k] eqn:Hn.
    destruct (next_cur_ok text l c k HC Hn) as [HCk Hlive].
    set (l1 := with_cu l k) in *.
    assert (HI1 : Forall (tok_ok text) (items l1)) by exact HI.
    assert (HE1 : Forall (err_ok text) (errs l1)) by exact HE.
    assert (HS1 : start_ok text l1) by exact HS.
    change (sline l) with (sline l1). change (scol l) with (scol l1).
    destruct (c =? EOFR)%N eqn:E0.
    { destruct (ErrorfAt_spec text l1 (sline l1) (scol l1) EMissingDQuote (Some (soff l1)) HI1 HE1 HS1 (err_ok_intro _ _ _ _ HS1))
        as (A & B & _).
      split; [exact A|split; [exact B|exact I]]. }
    apply N.eqb_neq in E0. destruct (Hlive E0) as (r & Ha & Hk & Z0 & X0 & Zk & Xk).
    destruct (c =? cDQ)%N eqn:E1.
    { split; [|split; [exact HE|]].
      - cbn [with_state items]. apply emitText_items; auto. exact I.
      - unfold SInv. cbn [with_state state emitText cu]. apply consume_live. split; [exact Zk|left; exact Xk]. }
    destruct (c =? cLF)%N eqn:E2; [apply IH; assumption|].
    destruct ((c =? cSP) || (c =? cTAB))%N eqn:E3.
    { destruct (negb over && (tcol k <=? indent)); apply IH; assumption. }
    destruct (c =? cBSL)%N eqn:E4; [|apply IH; assumption].
    apply N.eqb_eq in E4. subst c.
    destruct (next k) as [c2 k2] eqn:Hn2.
    destruct (next_cur_ok text l1 c2 k2 HCk Hn2) as [HCk2 _].
    set (l2 := with_cu l1 k2) in *.
    assert (HI2 : Forall (tok_ok text) (items l2)) by exact HI.
    assert (HE2 : Forall (err_ok text) (errs l2)) by exact HE.
    assert (HS2 : start_ok text l2) by exact HS.
    change (sline l1) with (sline l2). change (scol l1) with (scol l2).
    destruct (c2 =? c_n)%N; [apply IH; assumption|].
    destruct (c2 =? c_t)%N; [apply IH; assumption|].
    destruct (c2 =? cDQ)%N; [apply IH; assumption|].
    destruct (c2 =? cBSL)%N; [apply IH; assumption|].
    change (inPattern l1) with (inPattern l2).
    destruct (inPattern l2); [apply IH; assumption|].
    assert (Hpos : (line k, col k - 1 + 1) = linecol text (Nat.pred (length (before k)))).
    { destruct (advance_fields cBSL r (cu l) 1 Ha) as (Fb & _ & _ & _ & Fl & Fc & _).
      rewrite <- Hk in Fb, Fl, Fc. rewrite Fb, Fl, Fc. cbn [length Nat.pred].
      change (cBSL =? cLF)%N with false. cbv iota.
      rewrite (linecol_split text (before (cu l)) (after (cu l)) Z0).
      destruct X0 as (-> & -> & _). f_equal. lia. }
    destruct (ErrorfAt_spec text l2 (line k) (col k - 1) EInvalidEscape (Some (Nat.pred (length (before k))))
                HI2 HE2 HS2 (err_ok_intro _ _ _ _ Hpos)) as (A & B & S1 & S2 & S3 & _ & _ & C).
    rewrite <- S1, <- S2. apply IH; auto.
    unfold start_ok. rewrite S1, S2, S3. exact HS2.
Qed.

Lemma lexQString_inv text l : Forall (tok_ok text) (items l) -> Forall (err_ok text) (errs l) ->
  zip text (cu l) -> Exact (cu l) -> start_ok text l -> line (cu l) = sline l -> col (cu l) - 1 = scol l ->
  LInv text (lexQString l).
Proof.
  intros HI HE Z X HS Hl Hc. unfold lexQString. rewrite Hl, Hc.
  apply qstring_loop_inv; auto. left; split; assumption.
Qed.

Ltac ne := let Q := fresh in intro Q; vm_compute in Q; discriminate Q.

(* what emit does to the invariant, for a token whose text is input[start:pos] *)
Lemma emit_items text l c : Forall (tok_ok text) (items l) -> start_ok text l -> zip text (cu l) ->
  span (cu l) (soff l) -> tokrev (cu l) <> [] -> Forall (tok_ok text) (items (emit l c)).
Proof.
  intros HI HS Z Sp Hn. unfold emit. apply emitText_items; auto.
  assert (text_at text (soff l) (rev (tokrev (cu l))) /\ rev (tokrev (cu l)) <> []).
  { split; [apply span_text_at; assumption|apply rev_nonnil; exact Hn]. }
  destruct c; cbn; auto.
Qed.

Lemma acceptRun_stop text fuel : forall k, live text k -> (length (after k) < fuel)%nat ->
  is_blank (hd EOFR (after (acceptRun fuel k))) = false.
Proof.
  induction fuel as [|f IH]; intros k [Z I] Hf; [lia|]. cbn [acceptRun].
  destruct (after k) as [|c r] eqn:Ha.
  - rewrite (next_eof k Ha). change (is_blank EOFR) with false. cbv iota.
    unfold backup. cbn [set_width width after]. rewrite Ha. reflexivity.
  - rewrite (next_cons k c r Ha). destruct (is_blank c) eqn:Hb.
    + apply IH.
      * apply advance_live with (r := r); [exact Ha|split; assumption].
      * destruct (advance_fields c r k 1 Ha) as (_ & Fa & _). rewrite Fa. cbn [length] in Hf. lia.
    + destruct (backup_advance k c r Ha I) as ((_ & Sa & _) & _). rewrite Sa, Ha. exact Hb.
Qed.

Lemma lexGround_inv text l : Forall (tok_ok text) (items l) -> Forall (err_ok text) (errs l) ->
  live text (cu l) -> LInv text (lexGround l).
Proof.
  intros HI HE L. unfold lexGround. cbv zeta.
  destruct (acceptRun_spec text (S (length (after (cu l)))) (cu l) L ltac:(lia)) as [La Ea].
  set (k := consume (acceptRun (S (length (after (cu l)))) (cu l))).
  assert (Lk : live text k) by (apply consume_live; exact La).
  assert (Ek : Exact k) by exact Ea.
  assert (Tk : tokrev k = []) by reflexivity.
  assert (Sk : span k (length (before k))) by exact (consume_span (acceptRun _ _)).
  set (l0 := Build_lexer k _ _ _ _ _ _ _ _).
  assert (HS0 : start_ok text l0).
  { unfold start_ok. cbn [l0 sline scol soff]. destruct Lk as [Zk _].
    rewrite (linecol_split text (before k) (after k) Zk). destruct Ek as (-> & -> & _). f_equal. lia. }
  destruct (peek k) as [c k1] eqn:Hp.
  destruct Lk as [Zk Ck].
  destruct (peek_spec text k c k1 Zk Ck Hp) as (Hc & SP & Zk1 & Ck1 & Hl1 & Hc1 & Hx1).
  set (l1 := with_cu l0 k1).
  assert (HI1 : Forall (tok_ok text) (items l1)) by exact HI.
  assert (HE1 : Forall (err_ok text) (errs l1)) by exact HE.
  assert (HS1 : start_ok text l1) by exact HS0.
  destruct (c =? EOFR)%N eqn:E0; [split; [exact HI|split; [exact HE|exact I]]|].
  apply N.eqb_neq in E0. destruct (hd_cons c _ Hc E0) as [r Ha]. clear Hc.
  assert (Ha1 : after k1 = c :: r) by (destruct SP as (_ & -> & _); exact Ha).
  assert (Sp1 : span k1 (length (before k))) by (eapply same_place_span; eauto).
  assert (Tk1 : tokrev k1 = []) by (destruct SP as (_ & _ & ->); exact Tk).
  assert (Bk1 : before k1 = before k) by (destruct SP as (-> & _); reflexivity).
  (* one step over c *)
  pose proof (advance_live text c r k1 1 Ha1 (conj Zk1 Ck1)) as L2.
  pose proof (advance_exact c r k1 1 Ha1 Ck1) as X2.
  pose proof (advance_span c r k1 1 _ Ha1 Sp1) as Sp2.
  destruct (advance_fields c r k1 1 Ha1) as (Fb2 & Fa2 & Ft2 & _ & Fl2 & Fc2 & _).
  rewrite (next_cons k1 c r Ha1).
  set (k2 := advance c k1 1) in *.
  destruct ((c =? cSEMI) || (c =? cLB) || (c =? cRB))%N eqn:E1.
  { split; [|split; [exact HE|]].
    - cbn [with_state items]. apply emit_items; auto.
      + destruct L2; assumption.
      + cbn [with_cu cu]. rewrite Ft2. discriminate.
    - unfold SInv. cbn [with_state state]. apply consume_live. exact L2. }
  assert (NLF : c <> cLF -> line k2 = line k /\ col k2 - 1 = col k).
  { intro N. apply N.eqb_neq in N. rewrite N in Fl2, Fc2. rewrite Fl2, Fc2, Hl1, (Hc1 ltac:(apply N.eqb_neq; exact N)).
    destruct Ek as (-> & -> & _). split; lia. }
  destruct (c =? cSQ)%N eqn:E2.
  { apply N.eqb_eq in E2. subst c. destruct (NLF ltac:(ne)) as [Hl2 Hc2].
    destruct (skipTo1 cSQ (consume k2)) as [found k3] eqn:Hs.
    destruct (skipTo1_spec text cSQ (consume k2) found k3 (consume_live _ _ L2) Hs) as (L3 & Hnf & Hf).
    destruct found.
    - destruct (Hf eq_refl) as [r3 Ha3].
      set (l3 := emit (with_cu l1 k3) TString).
      assert (HI3 : Forall (tok_ok text) (items l3)) by (apply emitText_items; auto; exact I).
      change (cu l3) with (consume k3).
      rewrite (next_cons (consume k3) cSQ r3 Ha3).
      split; [exact HI3|split; [exact HE|]].
      unfold SInv. cbn [with_state state with_cu cu].
      apply advance_live with (r := r3); [exact Ha3|apply consume_live; exact L3].
    - rewrite (Hnf eq_refl).
      destruct (ErrorfAt_spec text (with_cu l1 (consume k2)) (line (consume k2)) (col (consume k2) - 1)
                  EMissingSQuote (Some (soff l1)) HI1 HE1 HS1) as (A & B & _).
      { apply err_ok_intro. cbn [consume line col]. rewrite Hl2, Hc2. exact HS0. }
      split; [exact A|split; [exact B|exact I]]. }
  destruct (c =? cDQ)%N eqn:E3.
  { apply N.eqb_eq in E3. subst c. destruct (NLF ltac:(ne)) as [Hl2 Hc2].
    split; [exact HI|split; [exact HE|]].
    unfold SInv. cbn [with_state state with_cu cu]. destruct L2 as [Z2 _].
    split; [exact Z2|split; [exact X2|split; [exact HS0|split; [exact Hl2|exact Hc2]]]]. }
  (* a second look-ahead rune *)
  destruct (peek k2) as [c2 k3] eqn:Hp2.
  destruct L2 as [Z2 C2].
  destruct (peek_spec text k2 c2 k3 Z2 C2 Hp2) as (Hc2' & SP3 & Zk3 & Ck3 & Hl3 & Hc3 & Hx3).
  assert (Sp3 : span k3 (length (before k))) by (eapply same_place_span; eauto).
  assert (Tk3 : tokrev k3 = [c]) by (destruct SP3 as (_ & _ & ->); rewrite Ft2, Tk1; reflexivity).
  assert (HUQ : LInv text (with_state (with_cu l1 k3) SUnquoted)).
  { split; [exact HI|split; [exact HE|]]. unfold SInv. cbn [with_state state with_cu cu].
    split; [split; assumption|]. split; [exact HS0|]. split; [exact Sp3|]. left. rewrite Tk3. discriminate. }
  destruct (c =? cSLASH)%N eqn:E4.
  { apply N.eqb_eq in E4. subst c. destruct (NLF ltac:(ne)) as [Hl2 Hcc2].
    destruct (c2 =? cSLASH)%N eqn:E5.
    { apply N.eqb_eq in E5. rewrite E5 in *.
      destruct (skipTo1 cLF k3) as [found k4] eqn:Hs.
      destruct (skipTo1_spec text cLF k3 found k4 (conj Zk3 Ck3) Hs) as (L4 & Hnf & Hf).
      destruct found.
      - split; [exact HI|split; [exact HE|exact L4]].
      - rewrite (Hnf eq_refl).
        destruct (ErrorfAt_spec text (with_cu l1 k3) (line k3) (col k3 - 1)
                    EInternalNL (Some (soff l1)) HI1 HE1 HS1) as (A & B & _).
        { apply err_ok_intro. rewrite Hl3, (Hc3 ltac:(ne)). destruct X2 as (<- & <- & _). rewrite Hl2, Hcc2. exact HS0. }
        split; [exact A|split; [exact B|exact I]]. }
    destruct (c2 =? cSTAR)%N eqn:E6; [|exact HUQ].
    apply N.eqb_eq in E6. rewrite E6 in *. clear E6.
    assert (E6 : cSTAR <> EOFR) by ne.
    destruct (hd_cons cSTAR _ Hc2' E6) as [r2 Ha2].
    assert (Ha3 : after k3 = cSTAR :: r2) by (destruct SP3 as (_ & -> & _); exact Ha2).
    rewrite (next_cons k3 cSTAR r2 Ha3).
    pose proof (advance_live text cSTAR r2 k3 1 Ha3 (conj Zk3 Ck3)) as L4.
    destruct (advance_fields cSTAR r2 k3 1 Ha3) as (_ & _ & _ & _ & Fl4 & Fc4 & _).
    set (k4 := advance cSTAR k3 1) in *.
    destruct (skipTo2 cSTAR cSLASH k4) as [found k5] eqn:Hs.
    destruct (skipTo2_spec text cSTAR cSLASH k4 found k5 L4 Hs) as (L5 & Hnf & Hf).
    destruct found.
    - destruct (Hf eq_refl) as [r5 Ha5].
      rewrite (next_cons k5 cSTAR (cSLASH :: r5) Ha5).
      pose proof (advance_live text cSTAR _ k5 1 Ha5 L5) as L6.
      destruct (advance_fields cSTAR _ k5 1 Ha5) as (_ & Fa6 & _).
      rewrite (next_cons _ cSLASH r5 Fa6).
      split; [exact HI|split; [exact HE|]]. unfold SInv. cbn [with_state state with_cu cu].
      apply advance_live with (r := r5); assumption.
    - rewrite (Hnf eq_refl).
      destruct (ErrorfAt_spec text (with_cu l1 k4) (line k4) (col k4 - 2)
                  EMissingComment (Some (soff l1)) HI1 HE1 HS1) as (A & B & _).
      { apply err_ok_intro. rewrite Fl4, Fc4. change (cSTAR =? cLF)%N with false. cbv iota.
        rewrite Hl3, (Hc3 ltac:(ne)). destruct X2 as (<- & <- & _).
        replace (col k2 + 1 - 2 + 1) with (col k2 - 1 + 1) by lia. rewrite Hl2, Hcc2. exact HS0. }
      split; [exact A|split; [exact B|exact I]]. }
  destruct (c =? cPLUS)%N eqn:E7.
  { destruct ((c2 =? cDQ) || (c2 =? cSQ))%N; [|exact HUQ].
    split; [|split; [exact HE|]].
    - cbn [with_state items]. apply emit_items; auto. cbn [with_cu cu]. rewrite Tk3. discriminate.
    - unfold SInv. cbn [with_state state]. apply consume_live. split; assumption. }
  (* default: an unquoted token starts at c *)
  split; [exact HI|split; [exact HE|]]. unfold SInv. unfold l1. cbn [with_state state with_cu cu].
  split; [split; assumption|]. split; [exact HS0|]. split; [exact Sp1|]. right.
  rewrite Ha1. cbn [hd]. unfold is_delim.
  apply orb_false_iff in E1. destruct E1 as [E1 E1c]. apply orb_false_iff in E1. destruct E1 as [E1a E1b].
  pose proof (acceptRun_stop text (S (length (after (cu l)))) (cu l) L ltac:(lia)) as Hnb.
  change (after (acceptRun (S (length (after (cu l)))) (cu l))) with (after k) in Hnb.
  rewrite Ha in Hnb. cbn [hd] in Hnb. unfold is_blank in Hnb.
  apply orb_false_iff in Hnb. destruct Hnb as [Hnb B4]. apply orb_false_iff in Hnb. destruct Hnb as [Hnb B3].
  apply orb_false_iff in Hnb. destruct Hnb as [B1 B2].
  rewrite E1a, E1b, E1c, E2, E3, B1, B2, B3, B4. apply N.eqb_neq in E0. rewrite E0. reflexivity.
Qed.

(* ================================================================ C02: the lexer reads what the reference reader reads *)

(* ---- the cursor moves, with the remaining text made explicit ---- *)
Fixpoint dropb (s : str) : str := match s with c :: r => if is_blank c then dropb r else s | [] => [] end.

Lemma blank_is_blank c : blank c = is_blank c.
Proof. reflexivity. Qed.

Lemma acceptRun_after text fuel : forall k, live text k -> (length (after k) < fuel)%nat ->
  after (acceptRun fuel k) = dropb (after k).
Proof.
  induction fuel as [|f IH]; intros k [Z I] Hf; [lia|]. cbn [acceptRun].
  destruct (after k) as [|c r] eqn:Ha.
  - rewrite (next_eof k Ha). change (is_blank EOFR) with false. cbv iota.
    unfold backup. cbn [set_width width after]. rewrite Ha. reflexivity.
  - rewrite (next_cons k c r Ha). cbn [dropb]. destruct (is_blank c) eqn:Hb.
    + destruct (advance_fields c r k 1 Ha) as (_ & Fa & _).
      rewrite IH; [rewrite Fa; reflexivity| |rewrite Fa; cbn [length] in Hf; lia].
      apply advance_live with (r := r); [exact Ha|split; assumption].
    + destruct (backup_advance k c r Ha I) as ((_ & Sa & _) & _). rewrite Sa, Ha. reflexivity.
Qed.

Lemma updateCursor_go_tokrev n : forall k, (n <= length (after k))%nat ->
  tokrev (updateCursor_go n k) = rev (firstn n (after k)) ++ tokrev k.
Proof.
  induction n as [|n IH]; intros k Hn; cbn [updateCursor_go]; [reflexivity|].
  destruct (after k) as [|c r] eqn:Ha; [cbn in Hn; lia|].
  destruct (advance_fields c r k 0 Ha) as (_ & Fa & Ft & _).
  rewrite IH by (rewrite Fa; cbn [length] in Hn; lia). rewrite Fa, Ft. cbn [firstn rev]. rewrite <- app_assoc. reflexivity.
Qed.

(* strings.Index for one rune, as a split *)
Lemma index1_split c s x : index1 c s = Some x ->
  exists p r, s = p ++ c :: r /\ length p = x /\ index1 c p = None.
Proof.
  revert x. induction s as [|y s IH]; intros x H; cbn [index1] in H; [discriminate|].
  destruct (N.eqb_spec y c) as [->|Hn].
  - injection H as <-. exists [], s. auto.
  - destruct (index1 c s) as [x'|] eqn:E; [|discriminate]. cbn [option_map] in H. injection H as <-.
    destruct (IH x' eq_refl) as (p & r & -> & Hl & Hp). exists (y :: p), r. split; [reflexivity|]. split; [cbn; lia|].
    cbn [index1]. destruct (N.eqb_spec y c); [contradiction|]. rewrite Hp. reflexivity.
Qed.
Lemma index1_none_app c p r : index1 c p = None -> index1 c (p ++ c :: r) = Some (length p).
Proof.
  induction p as [|y p IH]; cbn [index1 app length]; intro H; [rewrite N.eqb_refl; reflexivity|].
  destruct (y =? c)%N; [discriminate|]. destruct (index1 c p); [discriminate|]. rewrite IH by reflexivity. reflexivity.
Qed.

Lemma skipTo1_found text c k p r : live text k -> after k = p ++ c :: r -> index1 c p = None ->
  exists k', skipTo1 c k = (true, k') /\ live text k' /\ after k' = c :: r /\ tokrev k' = rev p ++ tokrev k.
Proof.
  intros L Ha Hp. unfold skipTo1. rewrite Ha, (index1_none_app c p r Hp). eexists. split; [reflexivity|].
  assert (Hle : (length p <= length (after k))%nat) by (rewrite Ha, app_length; lia).
  destruct (updateCursor_go_spec text (length p) k L Hle) as (A & _ & _ & D).
  split; [apply set_width_live; exact A|]. unfold updateCursor. cbn [set_width after tokrev].
  rewrite D, (updateCursor_go_tokrev _ _ Hle), Ha.
  rewrite skipn_app, skipn_all, Nat.sub_diag, firstn_app, Nat.sub_diag, firstn_all. cbn [skipn firstn app].
  rewrite app_nil_r. auto.
Qed.
Lemma skipTo1_notfound c k : index1 c (after k) = None -> skipTo1 c k = (false, k).
Proof. intro H. unfold skipTo1. rewrite H. reflexivity. Qed.

(* strings.Index for two runes *)
Fixpoint find2 (c d : rune) (s : str) : option (str * str) :=     (* (before the pair, after the pair) *)
  match s with
  | x :: ((y :: r') as r) => if ((x =? c) && (y =? d))%N then Some ([], r')
                             else match find2 c d r with Some (p, q) => Some (x :: p, q) | None => None end
  | _ => None
  end.
Lemma find2_eq c d x y r : find2 c d (x :: y :: r) =
  if ((x =? c) && (y =? d))%N then Some ([], r)
  else match find2 c d (y :: r) with Some (p, q) => Some (x :: p, q) | None => None end.
Proof. reflexivity. Qed.
Lemma index2_find2 c d s : 
  match find2 c d s with
  | Some (p, q) => index2 c d s = Some (length p) /\ s = p ++ c :: d :: q
  | None => index2 c d s = None
  end.
Proof.
  induction s as [|x s IH]; [reflexivity|]. destruct s as [|y r]; [reflexivity|].
  rewrite find2_eq, index2_eq. destruct ((x =? c) && (y =? d))%N eqn:E.
  - apply andb_true_iff in E. destruct E as [E1 E2]. apply N.eqb_eq in E1, E2. subst. split; reflexivity.
  - destruct (find2 c d (y :: r)) as [[p q]|].
    + destruct IH as [-> ->]. split; reflexivity.
    + rewrite IH. reflexivity.
Qed.

Lemma skipTo2_found text c d k p q : live text k -> find2 c d (after k) = Some (p, q) ->
  exists k', skipTo2 c d k = (true, k') /\ live text k' /\ after k' = c :: d :: q.
Proof.
  intros L H. pose proof (index2_find2 c d (after k)) as F. rewrite H in F. destruct F as [Hi Ha].
  unfold skipTo2. rewrite Hi. eexists. split; [reflexivity|].
  assert (Hle : (length p <= length (after k))%nat) by (rewrite Ha, app_length; lia).
  destruct (updateCursor_go_spec text (length p) k L Hle) as (A & _ & _ & D).
  split; [apply set_width_live; exact A|]. unfold updateCursor. cbn [set_width after].
  rewrite D. rewrite Ha at 1. rewrite skipn_app, skipn_all, Nat.sub_diag. reflexivity.
Qed.
Lemma skipTo2_notfound c d k : find2 c d (after k) = None -> skipTo2 c d k = (false, k).
Proof.
  intro H. pose proof (index2_find2 c d (after k)) as F. rewrite H in F. unfold skipTo2. rewrite F. reflexivity.
Qed.

(* ---- the reference reader's gap skipping, in terms of the same searches ---- *)
Lemma skip_dropb s : skip InGap s = skip InGap (dropb s).
Proof.
  induction s as [|c r IH]; [reflexivity|]. cbn [skip dropb]. rewrite blank_is_blank. destruct (is_blank c) eqn:E; [exact IH|].
  cbn [skip]. rewrite blank_is_blank, E. reflexivity.
Qed.

Lemma skip_line s : skip InLineComment s =
  match index1 cLF s with Some x => skip InGap (skipn x s) | None => Some [] end.
Proof.
  induction s as [|c r IH]; [reflexivity|]. cbn [skip index1]. destruct (c =? cLF)%N eqn:E.
  - cbn [skipn]. apply N.eqb_eq in E. subst c. reflexivity.
  - rewrite IH. destruct (index1 cLF r); reflexivity.
Qed.

Lemma skip_block_eq c d r : skip InBlockComment (c :: d :: r) =
  if (c =? cSTAR)%N then (if (d =? cSLASH)%N then skip InGap r else skip InBlockComment (d :: r))
  else skip InBlockComment (d :: r).
Proof. reflexivity. Qed.
Lemma skip_block s : skip InBlockComment s =
  match find2 cSTAR cSLASH s with Some (_, q) => skip InGap q | None => None end.
Proof.
  induction s as [|c r IH]; [reflexivity|]. destruct r as [|d r'].
  - cbn. destruct (c =? cSTAR)%N; reflexivity.
  - rewrite find2_eq, skip_block_eq. destruct (c =? cSTAR)%N eqn:E1; cbn [andb].
    + destruct (d =? cSLASH)%N eqn:E2; [reflexivity|]. rewrite IH. destruct (find2 cSTAR cSLASH (d :: r')) as [[p q]|]; reflexivity.
    + rewrite IH. destruct (find2 cSTAR cSLASH (d :: r')) as [[p q]|]; reflexivity.
Qed.

(* ---- one run of lexGround, case by case on what the remaining text starts with ---- *)
Definition glex (text : str) (l : lexer) (s : str) : Prop :=
  state l = SGround /\ items l = [] /\ live text (cu l) /\ after (cu l) = s.
Definition tokq (c : tcode) (u : str) (t : token) : Prop := t_code t = c /\ t_text t = u.
Definition same_errs (l l' : lexer) : Prop :=
  errs l' = errs l /\ errcnt l' = errcnt l /\ inPattern l' = inPattern l.
(* the lexer stopped with a new error *)
Definition failed (l l' : lexer) : Prop :=
  state l' = SDone /\ inPattern l' = inPattern l /\ (errcnt l = O -> errs l' <> [] /\ errcnt l' = 1%nat).

Definition one_tok (text : str) (l l' : lexer) (c : tcode) (u : str) (s' : str) : Prop :=
  same_errs l l' /\ state l' = SGround /\ (exists t, items l' = [t] /\ tokq c u t) /\
  live text (cu l') /\ after (cu l') = s'.
Definition no_tok (text : str) (l l' : lexer) (s' : str) : Prop :=
  same_errs l l' /\ state l' = SGround /\ items l' = [] /\ live text (cu l') /\ after (cu l') = s'.
Definition in_unq (text : str) (l l' : lexer) (p : str) (s' : str) : Prop :=
  same_errs l l' /\ state l' = SUnquoted /\ items l' = [] /\ live text (cu l') /\ after (cu l') = s' /\
  tokrev (cu l') = p.
Definition in_dq (text : str) (l l' : lexer) (s : str) (s' : str) : Prop :=
  same_errs l l' /\ state l' = SQString /\ items l' = [] /\ zip text (cu l') /\ Exact (cu l') /\
  after (cu l') = s' /\ tcol (cu l') = column_of text s + 1.

Lemma emit_one (text : str) l c st : items l = [] ->
  exists t, items (with_state (emit l c) st) = [t] /\ tokq c (rev (tokrev (cu l))) t.
Proof. intro H. unfold emit, emitText. cbn [with_state items]. rewrite H. cbn. eexists. split; [reflexivity|split; reflexivity]. Qed.
Lemma emitText_one l c u st : items l = [] ->
  exists t, items (with_state (emitText l c u) st) = [t] /\ tokq c u t.
Proof. intro H. unfold emitText. cbn [with_state items]. rewrite H. cbn. eexists. split; [reflexivity|split; reflexivity]. Qed.

Lemma ErrorfAt_failed l0 l ln cl kind subj : errcnt l = errcnt l0 -> inPattern l = inPattern l0 ->
  failed l0 (with_state (ErrorfAt l ln cl kind subj) SDone).
Proof.
  intros Hc Hp. split; [reflexivity|]. unfold ErrorfAt. change (errcnt (emit l TError)) with (errcnt l).
  destruct (Nat.eqb_spec (errcnt l) maxErrors) as [E|N1]; [|destruct (Nat.eqb_spec (errcnt l) (S maxErrors)) as [E|N2]].
  - split; [exact Hp|]. intro Z. rewrite <- Hc, E in Z. discriminate.
  - split; [exact Hp|]. intro Z. rewrite <- Hc, E in Z. discriminate.
  - split; [exact Hp|]. intro Z. cbn [with_state errs errcnt]. rewrite Hc, Z. split; [discriminate|reflexivity].
Qed.

Lemma col_from_xtcol p : forall b, col_from (xtcol b) p = xtcol (rev p ++ b).
Proof.
  induction p as [|c r IH]; intro b; [reflexivity|]. cbn [col_from rev]. rewrite <- app_assoc. cbn [app].
  rewrite <- IH, xtcol_cons. reflexivity.
Qed.

Lemma column_of_zip text k : zip text k -> column_of text (after k) = xtcol (before k).
Proof.
  intro Z. unfold column_of. unfold zip in Z. rewrite <- Z at 1 2. rewrite app_length.
  replace (length (rev (before k)) + length (after k) - length (after k))%nat with (length (rev (before k))) by lia.
  rewrite firstn_app, Nat.sub_diag, firstn_all. cbn [firstn]. rewrite app_nil_r.
  change 0 with (xtcol []). rewrite col_from_xtcol, rev_involutive, app_nil_r. reflexivity.
Qed.


Definition ground_result (text : str) (l l' : lexer) (s1 : str) : Prop :=
  match s1 with
  | [] => same_errs l l' /\ state l' = SDone /\ items l' = []
  | c :: r =>
    if punct c then one_tok text l l' (TChar c) [c] r
    else if (c =? cSQ)%N then
      match squoted r with
      | Some (u, s') => one_tok text l l' TString u s'
      | None => failed l l'
      end
    else if (c =? cDQ)%N then in_dq text l l' s1 r
    else if (c =? cSLASH)%N then
      match r with
      | d :: r' =>
        if (d =? cSLASH)%N then
          match index1 cLF r' with Some x => no_tok text l l' (skipn x r') | None => failed l l' end
        else if (d =? cSTAR)%N then
          match find2 cSTAR cSLASH r' with Some (_, q) => no_tok text l l' q | None => failed l l' end
        else in_unq text l l' [c] r
      | [] => in_unq text l l' [c] r
      end
    else if (c =? cPLUS)%N then
      match r with
      | d :: _ => if quote d then one_tok text l l' TUnquoted [c] r else in_unq text l l' [c] r
      | [] => in_unq text l l' [c] r
      end
    else in_unq text l l' [] s1
  end.

Lemma skipn_S_app {A} (p : list A) c q : skipn (S (length p)) (p ++ c :: q) = q.
Proof. induction p as [|x p IH]; [reflexivity|exact IH]. Qed.

Lemma squoted_index r : squoted r =
  match index1 cSQ r with Some x => Some (firstn x r, skipn (S x) r) | None => None end.
Proof.
  induction r as [|c r IH]; [reflexivity|]. cbn [squoted index1]. destruct (c =? cSQ)%N; [reflexivity|].
  rewrite IH. destruct (index1 cSQ r); reflexivity.
Qed.

Lemma lexGround_sim text l s : ~ In EOFR text -> glex text l s -> ground_result text l (lexGround l) (dropb s).
Proof.
  intros NE (Hst & Hit & L & Hs). unfold lexGround. cbv zeta.
  destruct (acceptRun_spec text (S (length (after (cu l)))) (cu l) L ltac:(lia)) as [La Ea].
  pose proof (acceptRun_after text (S (length (after (cu l)))) (cu l) L ltac:(lia)) as Aa.
  set (k := consume (acceptRun (S (length (after (cu l)))) (cu l))).
  assert (Lk : live text k) by (apply consume_live; exact La).
  assert (Ek : Exact k) by exact Ea.
  assert (Tk : tokrev k = []) by reflexivity.
  assert (Ak : after k = dropb s) by (rewrite <- Hs; exact Aa).
  set (l0 := Build_lexer k _ _ _ _ _ _ _ _).
  assert (SE0 : forall k', same_errs l (with_cu l0 k')) by (intro; split; [|split]; reflexivity).
  destruct (peek k) as [c k1] eqn:Hp.
  destruct Lk as [Zk Ck].
  destruct (peek_spec text k c k1 Zk Ck Hp) as (Hc & SP & Zk1 & Ck1 & _ & _ & Hx1).
  assert (InT : forall x, In x (after k) -> x <> EOFR).
  { intros x Hx ->. apply NE. unfold zip in Zk. rewrite <- Zk. apply in_or_app. right. exact Hx. }
  set (l1 := with_cu l0 k1).
  destruct (dropb s) as [|c0 r] eqn:Hd.
  { (* end of text *)
    rewrite Ak in Hc. cbn [hd] in Hc. subst c. change (EOFR =? EOFR)%N with true. cbv iota.
    split; [apply SE0|]. split; [reflexivity|exact Hit]. }
  rewrite Ak in Hc. cbn [hd] in Hc. subst c0.
  assert (E0 : c <> EOFR) by (apply InT; rewrite Ak; left; reflexivity).
  apply N.eqb_neq in E0. rewrite E0. apply N.eqb_neq in E0.
  assert (Ha1 : after k1 = c :: r) by (destruct SP as (_ & -> & _); exact Ak).
  assert (Tk1 : tokrev k1 = []) by (destruct SP as (_ & _ & ->); exact Tk).
  pose proof (advance_live text c r k1 1 Ha1 (conj Zk1 Ck1)) as L2.
  pose proof (advance_exact c r k1 1 Ha1 Ck1) as X2.
  destruct (advance_fields c r k1 1 Ha1) as (Fb2 & Fa2 & Ft2 & _ & _ & _ & Ftc2).
  rewrite (next_cons k1 c r Ha1).
  set (k2 := advance c k1 1) in *.
  unfold ground_result. unfold punct.
  destruct ((c =? cSEMI) || (c =? cLB) || (c =? cRB))%N eqn:E1.
  { split; [apply SE0|]. split; [reflexivity|]. split.
    - destruct (emit_one text (with_cu l1 k2) (TChar c) SGround Hit) as (t & A & B). exists t. split; [exact A|].
      cbn [with_cu cu] in B. rewrite Ft2, Tk1 in B. exact B.
    - split; [apply consume_live; exact L2|exact Fa2]. }
  destruct (c =? cSQ)%N eqn:E2.
  { apply N.eqb_eq in E2. subst c. rewrite squoted_index.
    destruct (index1 cSQ r) as [x|] eqn:Hi.
    - destruct (index1_split _ _ _ Hi) as (p & q & Hr & Hl & Hn).
      destruct (skipTo1_found text cSQ (consume k2) p q (consume_live _ _ L2)) as (k3 & Hs3 & L3 & A3 & T3);
        [cbn [consume after]; rewrite Fa2; exact Hr|exact Hn|].
      rewrite Hs3.
      destruct (emit_one text (with_cu l1 k3) TString SGround Hit) as (t & A & B).
      set (l3 := emit (with_cu l1 k3) TString) in *.
      change (cu l3) with (consume k3).
      assert (A3' : after (consume k3) = cSQ :: q) by exact A3.
      rewrite (next_cons (consume k3) cSQ q A3').
      destruct (advance_fields cSQ q (consume k3) 1 A3') as (_ & Fa4 & _).
      split; [apply SE0|]. split; [reflexivity|]. split.
      + exists t. split; [exact A|]. cbn [with_cu cu] in B. rewrite T3 in B. cbn [consume tokrev] in B.
        rewrite app_nil_r, rev_involutive in B. destruct B as [B1 B2]. split; [exact B1|]. rewrite B2.
        rewrite Hr, <- Hl. rewrite firstn_app, Nat.sub_diag, firstn_all. cbn [firstn]. symmetry. apply app_nil_r.
      + split; [apply advance_live with (r := q); [exact A3'|apply consume_live; exact L3]|].
        cbn [with_state with_cu cu]. rewrite Fa4, Hr, <- Hl.
        symmetry. apply skipn_S_app.
    - rewrite skipTo1_notfound by (cbn [consume after]; rewrite Fa2; exact Hi).
      apply ErrorfAt_failed; reflexivity. }
  destruct (c =? cDQ)%N eqn:E3.
  { apply N.eqb_eq in E3. subst c.
    split; [apply SE0|]. split; [reflexivity|]. split; [exact Hit|]. destruct L2 as [Z2 _].
    split; [exact Z2|]. split; [exact X2|]. split; [exact Fa2|].
    cbn [with_state with_cu cu]. destruct X2 as (_ & _ & ->). rewrite Fb2, xtcol_cons.
    change (cDQ =? cLF)%N with false. change (cDQ =? cTAB)%N with false. cbv iota.
    rewrite <- Ha1, (column_of_zip text k1 Zk1). reflexivity. }
  destruct (peek k2) as [c2 k3] eqn:Hp2.
  destruct L2 as [Z2 C2].
  destruct (peek_spec text k2 c2 k3 Z2 C2 Hp2) as (Hc2' & SP3 & Zk3 & Ck3 & _).
  assert (Tk3 : tokrev k3 = [c]) by (destruct SP3 as (_ & _ & ->); rewrite Ft2, Tk1; reflexivity).
  assert (Ak3 : after k3 = r) by (destruct SP3 as (_ & -> & _); exact Fa2).
  assert (HUQ : in_unq text l (with_state (with_cu l1 k3) SUnquoted) [c] r).
  { split; [apply SE0|]. split; [reflexivity|]. split; [exact Hit|]. split; [split; assumption|]. split; assumption. }
  rewrite Fa2 in Hc2'.
  destruct (c =? cSLASH)%N eqn:E4.
  { destruct r as [|d r']; [cbn [hd] in Hc2'; subst c2; exact HUQ|]. cbn [hd] in Hc2'. subst c2.
    destruct (d =? cSLASH)%N eqn:E5.
    { destruct (index1 cLF r') as [x|] eqn:Hi.
      - destruct (index1_split _ _ _ Hi) as (p & q & Hr & Hl & Hn).
        apply N.eqb_eq in E5. subst d.
        (* the search starts at the second slash, which is not a line break *)
        destruct (skipTo1_found text cLF k3 (cSLASH :: p) q (conj Zk3 Ck3)) as (k4 & Hs4 & L4 & A4 & _).
        { rewrite Ak3, Hr. reflexivity. }
        { cbn [index1]. change (cSLASH =? cLF)%N with false. cbv iota. rewrite Hn. reflexivity. }
        rewrite Hs4. split; [apply SE0|]. split; [reflexivity|]. split; [exact Hit|]. split; [exact L4|].
        cbn [with_state with_cu cu]. rewrite A4, Hr, <- Hl. rewrite skipn_app, skipn_all, Nat.sub_diag. reflexivity.
      - apply N.eqb_eq in E5. subst d.
        rewrite skipTo1_notfound.
        + apply ErrorfAt_failed; reflexivity.
        + rewrite Ak3. cbn [index1]. change (cSLASH =? cLF)%N with false. cbv iota. rewrite Hi. reflexivity. }
    destruct (d =? cSTAR)%N eqn:E6; [|exact HUQ].
    apply N.eqb_eq in E6. subst d.
    assert (Ha3 : after k3 = cSTAR :: r') by exact Ak3.
    rewrite (next_cons k3 cSTAR r' Ha3).
    pose proof (advance_live text cSTAR r' k3 1 Ha3 (conj Zk3 Ck3)) as L4.
    destruct (advance_fields cSTAR r' k3 1 Ha3) as (_ & Fa4 & _).
    set (k4 := advance cSTAR k3 1) in *.
    destruct (find2 cSTAR cSLASH r') as [[p q]|] eqn:Hf.
    - destruct (skipTo2_found text cSTAR cSLASH k4 p q L4) as (k5 & Hs5 & L5 & A5); [rewrite Fa4; exact Hf|].
      rewrite Hs5. rewrite (next_cons k5 cSTAR (cSLASH :: q) A5).
      pose proof (advance_live text cSTAR _ k5 1 A5 L5) as L6.
      destruct (advance_fields cSTAR _ k5 1 A5) as (_ & Fa6 & _).
      rewrite (next_cons _ cSLASH q Fa6).
      destruct (advance_fields cSLASH q _ 1 Fa6) as (_ & Fa7 & _).
      split; [apply SE0|]. split; [reflexivity|]. split; [exact Hit|].
      split; [apply advance_live with (r := q); assumption|exact Fa7].
    - rewrite skipTo2_notfound by (rewrite Fa4; exact Hf).
      apply ErrorfAt_failed; reflexivity. }
  destruct (c =? cPLUS)%N eqn:E7.
  { destruct r as [|d r']; [cbn [hd] in Hc2'; subst c2; exact HUQ|]. cbn [hd] in Hc2'. subst c2. unfold quote.
    destruct ((d =? cDQ) || (d =? cSQ))%N; [|exact HUQ].
    split; [apply SE0|]. split; [reflexivity|]. split.
    - destruct (emit_one text (with_cu l1 k3) TUnquoted SGround Hit) as (t & A & B). exists t. split; [exact A|].
      cbn [with_cu cu] in B. rewrite Tk3 in B. exact B.
    - split; [apply consume_live; split; assumption|exact Ak3]. }
  split; [apply SE0|]. split; [reflexivity|]. split; [exact Hit|]. split; [split; assumption|]. split; assumption.
Qed.

Lemma is_delim_ends c : c <> EOFR -> is_delim c = ends_unquoted c.
Proof.
  intro H. apply N.eqb_neq in H. unfold is_delim, ends_unquoted, blank, quote, punct. rewrite H.
  destruct (c =? cSP)%N, (c =? cCR)%N, (c =? cLF)%N, (c =? cTAB)%N, (c =? cSEMI)%N, (c =? cDQ)%N, (c =? cSQ)%N,
    (c =? cLB)%N, (c =? cRB)%N; reflexivity.
Qed.

Lemma unquoted_loop_sim text : ~ In EOFR text -> forall s2 fuel l0 l p,
  (length s2 < fuel)%nat -> same_errs l0 l -> items l = [] -> live text (cu l) -> after (cu l) = s2 -> tokrev (cu l) = p ->
  let (u, s') := unquoted s2 in one_tok text l0 (unquoted_loop fuel l) TUnquoted (rev p ++ u) s'.
Proof.
  intros NE. induction s2 as [|c r IH]; intros fuel l0 l p Hf SE Hit [Z C] Ha Ht.
  - destruct fuel as [|f]; [cbn in Hf; lia|]. cbn [unquoted_loop unquoted].
    destruct (peek (cu l)) as [c k] eqn:Hp.
    destruct (peek_spec text _ _ _ Z C Hp) as (Hc & SP & Zk & Ck & _).
    rewrite Ha in Hc. cbn [hd] in Hc. subst c. change (is_delim EOFR) with true. cbv iota.
    split; [exact SE|]. split; [reflexivity|]. split.
    + destruct (emit_one text (with_cu l k) TUnquoted SGround Hit) as (t & A & B). exists t. split; [exact A|].
      cbn [with_cu cu] in B. destruct SP as (_ & _ & St). rewrite St, Ht in B. rewrite app_nil_r. exact B.
    + split; [apply consume_live; split; assumption|]. destruct SP as (_ & Sa & _). cbn [with_state emit emitText cu consume after with_cu].
      rewrite Sa. exact Ha.
  - destruct fuel as [|f]; [cbn in Hf; lia|]. cbn [unquoted_loop unquoted].
    destruct (peek (cu l)) as [c' k] eqn:Hp.
    destruct (peek_spec text _ _ _ Z C Hp) as (Hc & SP & Zk & Ck & _).
    rewrite Ha in Hc. cbn [hd] in Hc. subst c'.
    assert (Hne : c <> EOFR).
    { intros ->. apply NE. unfold zip in Z. rewrite <- Z, Ha. apply in_or_app. right. left. reflexivity. }
    rewrite (is_delim_ends c Hne). destruct (ends_unquoted c) eqn:Hd.
    + split; [exact SE|]. split; [reflexivity|]. split.
      * destruct (emit_one text (with_cu l k) TUnquoted SGround Hit) as (t & A & B). exists t. split; [exact A|].
        cbn [with_cu cu] in B. destruct SP as (_ & _ & St). rewrite St, Ht in B. rewrite app_nil_r. exact B.
      * split; [apply consume_live; split; assumption|]. destruct SP as (_ & Sa & _).
        cbn [with_state emit emitText cu consume after with_cu]. rewrite Sa. exact Ha.
    + assert (Hak : after k = c :: r) by (destruct SP as (_ & -> & _); exact Ha).
      rewrite (next_cons k c r Hak).
      destruct (advance_fields c r k 1 Hak) as (_ & Fa & Ft & _).
      specialize (IH f l0 (with_cu l (advance c k 1)) (c :: p)).
      destruct (unquoted r) as [u s'].
      replace (rev p ++ c :: u) with (rev (c :: p) ++ u) by (cbn [rev]; rewrite <- app_assoc; reflexivity).
      apply IH; auto.
      * cbn [length] in Hf. lia.
      * apply advance_live with (r := r); [exact Hak|split; assumption].
      * cbn [with_cu cu]. rewrite Ft. destruct SP as (_ & _ & ->). rewrite Ht. reflexivity.
Qed.

(* ---- the double-quoted string: the state machine of lexQString as a reader of source items ---- *)
Definition flat (its : list item) : str := concat (map raw_item its).
Definition lit_ok (i : item) : Prop := match i with Lit c => c <> cDQ /\ c <> cBSL | Esc _ => True end.

Lemma dq_items_flat_n n : forall s, (length s <= n)%nat -> forall its rest, dq_items s = Some (its, rest) ->
  s = flat its ++ cDQ :: rest /\ Forall lit_ok its.
Proof.
  induction n as [|n IH]; intros s Hn its rest H; (destruct s as [|c r]; [discriminate|]); [cbn in Hn; lia|].
  cbn [dq_items] in H. cbn [length] in Hn.
  destruct (N.eqb_spec c cDQ) as [->|N1].
  - injection H as <- <-. split; [reflexivity|constructor].
  - destruct (N.eqb_spec c cBSL) as [->|N2].
    + destruct r as [|d r']; [discriminate|].
      destruct (dq_items r') as [[its' s']|] eqn:E; [|discriminate]. injection H as <- <-.
      destruct (IH r' ltac:(cbn [length] in Hn; lia) _ _ E) as [-> F]. split; [reflexivity|constructor; [exact I|exact F]].
    + destruct (dq_items r) as [[its' s']|] eqn:E; [|discriminate]. injection H as <- <-.
      destruct (IH r ltac:(lia) _ _ E) as [-> F]. split; [reflexivity|constructor; [split; assumption|exact F]].
Qed.
Lemma dq_items_flat s its rest : dq_items s = Some (its, rest) -> s = flat its ++ cDQ :: rest /\ Forall lit_ok its.
Proof. apply (dq_items_flat_n (length s)). lia. Qed.

(* what lexQString does, told over the items: [ind] is the tab column just after the opening quote, [over]
   says that the indentation of the current line is behind us, [col] is the tab column of the cursor (it
   only matters while [over] is false), [accrev] the text so far, reversed.  None: undefined escape. *)
Fixpoint acc_loop (pat : bool) (ind : Z) (over : bool) (col : Z) (accrev : str) (its : list item) : option str :=
  match its with
  | [] => Some (rev accrev)
  | Lit c :: r =>
      if (c =? cLF)%N then acc_loop pat ind false 0 (cLF :: trim_trailing_rev accrev) r
      else if ((c =? cSP) || (c =? cTAB))%N then
        let col' := if (c =? cTAB)%N then tab_stop col else col + 1 in
        if negb over && (col' <=? ind) then acc_loop pat ind over col' accrev r
        else acc_loop pat ind true col (c :: accrev) r
      else acc_loop pat ind true col (c :: accrev) r
  | Esc c :: r =>
      match subst_item pat (Esc c) with
      | Some u => acc_loop pat ind true col (rev u ++ accrev) r
      | None => None
      end
  end.

Lemma next_step text k c r : live text k -> after k = c :: r ->
  next k = (c, advance c k 1) /\ live text (advance c k 1) /\ after (advance c k 1) = r /\
  tcol (advance c k 1) = (if (c =? cLF)%N then 0 else if (c =? cTAB)%N then tab_stop (tcol k) else tcol k + 1).
Proof.
  intros L Ha. destruct (advance_fields c r k 1 Ha) as (_ & Fa & _ & _ & _ & _ & Ft).
  split; [apply (next_cons k c r Ha)|]. split; [eapply advance_live; eauto|]. split; assumption.
Qed.

Lemma qstring_loop_sim text : ~ In EOFR text -> forall its fuel l0 l ind ql qc over col accrev rest t,
  same_errs l0 l -> items l = [] -> live text (cu l) -> after (cu l) = flat its ++ cDQ :: rest -> Forall lit_ok its ->
  (over = false -> tcol (cu l) = col) -> (length (after (cu l)) < fuel)%nat ->
  acc_loop (inPattern l) ind over col accrev its = Some t ->
  one_tok text l0 (qstring_loop fuel l ind ql qc over accrev) TString t rest.
Proof.
  intros NE. induction its as [|i its IH]; intros fuel l0 l ind ql qc over col accrev rest t SE Hit L Ha Hok Hcol Hf Hacc.
  - destruct fuel as [|f]; [lia|]. cbn [flat map concat app] in Ha. cbn [qstring_loop].
    destruct (next_step text (cu l) cDQ rest L Ha) as (Hn & L1 & A1 & _). rewrite Hn.
    change (cDQ =? EOFR)%N with false. rewrite N.eqb_refl. cbv iota.
    cbn [acc_loop] in Hacc. injection Hacc as <-.
    split; [exact SE|]. split; [reflexivity|]. split; [apply (emitText_one (with_cu l _) TString _ SGround Hit)|].
    split; [apply consume_live; exact L1|exact A1].
  - destruct fuel as [|f]; [lia|]. inversion Hok as [|? ? Hi Hok']; subst.
    assert (InA : forall x, In x (after (cu l)) -> x <> EOFR).
    { intros x Hx ->. apply NE. destruct L as [Z _]. unfold zip in Z. rewrite <- Z. apply in_or_app. right. exact Hx. }
    destruct i as [c|c].
    + (* a character standing for itself *)
      cbn [flat map concat raw_item app] in Ha. fold (flat its) in Ha.
      destruct (next_step text (cu l) c _ L Ha) as (Hn & L1 & A1 & T1).
      cbn [qstring_loop]. rewrite Hn.
      assert (E0 : (c =? EOFR)%N = false) by (apply N.eqb_neq; apply InA; rewrite Ha; left; reflexivity).
      destruct Hi as [N1 N2]. apply N.eqb_neq in N1, N2. rewrite E0, N1.
      set (l1 := with_cu l (advance c (cu l) 1)).
      assert (Hf1 : (length (after (cu l1)) < f)%nat).
      { cbn [l1 with_cu cu]. rewrite A1. rewrite Ha in Hf. cbn [length app] in Hf. lia. }
      cbn [acc_loop] in Hacc.
      destruct (c =? cLF)%N eqn:E1.
      * pose proof (proj1 (N.eqb_eq _ _) E1) as Ec. rewrite Ec.
        apply (IH f l0 l1 ind ql qc false 0 _ rest t SE Hit L1 A1 Hok'); auto.
      * destruct ((c =? cSP) || (c =? cTAB))%N eqn:E2.
        -- cbn [l1 with_cu cu] in *. rewrite T1.
           set (col' := if (c =? cTAB)%N then tab_stop col else col + 1) in *.
           assert (Hc' : over = false -> (if (c =? cTAB)%N then tab_stop (tcol (cu l)) else tcol (cu l) + 1) = col').
           { intro Ho. rewrite (Hcol Ho). reflexivity. }
           destruct over.
           ++ cbn [negb andb] in *. apply (IH f l0 l1 ind ql qc true col _ rest t SE Hit L1 A1 Hok'); auto. discriminate.
           ++ cbn [negb andb] in *. rewrite (Hc' eq_refl).
              destruct (col' <=? ind).
              ** apply (IH f l0 l1 ind ql qc false col' _ rest t SE Hit L1 A1 Hok'); auto.
                 intros _. cbn [l1 with_cu cu]. rewrite T1. apply Hc'. reflexivity.
              ** apply (IH f l0 l1 ind ql qc true col _ rest t SE Hit L1 A1 Hok'); auto. discriminate.
        -- rewrite N2. apply (IH f l0 l1 ind ql qc true col _ rest t SE Hit L1 A1 Hok'); auto. discriminate.
    + (* an escape *)
      cbn [flat map concat raw_item app] in Ha. fold (flat its) in Ha.
      destruct (next_step text (cu l) cBSL _ L Ha) as (Hn & L1 & A1 & _).
      destruct (next_step text _ c _ L1 A1) as (Hn2 & L2 & A2 & _).
      cbn [qstring_loop]. rewrite Hn.
      change (cBSL =? EOFR)%N with false. change (cBSL =? cDQ)%N with false. change (cBSL =? cLF)%N with false.
      change ((cBSL =? cSP) || (cBSL =? cTAB))%N with false. rewrite N.eqb_refl. cbv iota.
      rewrite Hn2.
      set (l2 := with_cu (with_cu l (advance cBSL (cu l) 1)) (advance c (advance cBSL (cu l) 1) 1)).
      assert (Hf2 : (length (after (cu l2)) < f)%nat).
      { cbn [l2 with_cu cu]. rewrite A2. rewrite Ha in Hf. cbn [length app] in Hf. lia. }
      assert (E0 : c <> EOFR) by (apply InA; rewrite Ha; right; left; reflexivity).
      cbn [acc_loop subst_item] in Hacc.
      destruct (c =? c_n)%N; [apply (IH f l0 l2 ind ql qc true col _ rest t SE Hit L2 A2 Hok'); auto; discriminate|].
      destruct (c =? c_t)%N; [apply (IH f l0 l2 ind ql qc true col _ rest t SE Hit L2 A2 Hok'); auto; discriminate|].
      destruct (c =? cDQ)%N; [apply (IH f l0 l2 ind ql qc true col _ rest t SE Hit L2 A2 Hok'); auto; discriminate|].
      destruct (c =? cBSL)%N; [apply (IH f l0 l2 ind ql qc true col _ rest t SE Hit L2 A2 Hok'); auto; discriminate|].
      change (inPattern l2) with (inPattern l).
      destruct (inPattern l) eqn:Hpat; [|discriminate].
      unfold rune_text. apply N.eqb_neq in E0. rewrite E0.
      apply (IH f l0 l2 ind ql qc true col _ rest t SE Hit L2 A2 Hok'); auto; [discriminate|].
      change (inPattern l2) with (inPattern l). rewrite Hpat. exact Hacc.
Qed.

(* ---- the accumulator reader computes the line-wise reference string ---- *)
Definition blankc (c : rune) : bool := ((c =? cSP) || (c =? cTAB))%N.
Definition nobreak (i : item) : Prop := is_break i = false.
Definition headok (a : str) : Prop := match a with [] => True | c :: _ => blankc c = false end.

Fixpoint unlines (ls : list (list item)) : list item :=
  match ls with
  | [] => []
  | [l] => l
  | l :: rest => l ++ Lit cLF :: unlines rest
  end.

Lemma unlines_cons l m ms : unlines (l :: m :: ms) = l ++ Lit cLF :: unlines (m :: ms).
Proof. reflexivity. Qed.

Lemma lines_spec its : lines its <> [] /\ Forall (Forall nobreak) (lines its) /\ unlines (lines its) = its.
Proof.
  induction its as [|i r (N & F & U)]; [cbn; repeat split; [discriminate|repeat constructor]|].
  cbn [lines]. destruct (lines r) as [|l ls] eqn:E; [contradiction|]. destruct (is_break i) eqn:Hb.
  - split; [discriminate|]. split; [constructor; [constructor|exact F]|].
    rewrite unlines_cons, U. destruct i as [c|c]; [|discriminate]. cbn in Hb. apply N.eqb_eq in Hb. subst c. reflexivity.
  - split; [discriminate|]. apply Forall_cons_iff in F. destruct F as [F1 F2].
    split; [constructor; [constructor; assumption|assumption]|].
    destruct ls as [|m ms]; [cbn [unlines] in *; rewrite U; reflexivity|].
    rewrite unlines_cons in *. cbn [app]. rewrite U. reflexivity.
Qed.

(* the leading blanks lexQString skips on a continuation line *)
Fixpoint go_lead (ind col : Z) (l : list item) : list item :=
  match l with
  | Lit c :: r =>
      if blankc c then
        let col' := if (c =? cTAB)%N then tab_stop col else col + 1 in
        if col' <=? ind then go_lead ind col' r else l
      else l
  | _ => l
  end.

Lemma acc_col_irrelevant pat ind its : forall c1 c2 a,
  acc_loop pat ind true c1 a its = acc_loop pat ind true c2 a its.
Proof.
  induction its as [|i r IH]; intros c1 c2 a; [reflexivity|]. destruct i as [c|c]; cbn [acc_loop].
  - destruct (c =? cLF)%N; [reflexivity|]. destruct ((c =? cSP) || (c =? cTAB))%N; cbn [negb andb]; apply IH.
  - destruct (subst_item pat (Esc c)); [apply IH|reflexivity].
Qed.

Lemma subst_line_app pat a b : subst_line pat (a ++ b) =
  match subst_line pat a, subst_line pat b with Some x, Some y => Some (x ++ y) | _, _ => None end.
Proof.
  induction a as [|i a IH]; cbn [app subst_line]; [destruct (subst_line pat b); reflexivity|].
  rewrite IH. destruct (subst_item pat i); [|reflexivity].
  destruct (subst_line pat a); [|reflexivity]. destruct (subst_line pat b); [rewrite app_assoc|]; reflexivity.
Qed.

(* past the indentation, a line is appended item by item *)
Lemma acc_line_true pat ind : forall l rest col a, Forall nobreak l ->
  acc_loop pat ind true col a (l ++ rest) =
  match subst_line pat l with Some u => acc_loop pat ind true col (rev u ++ a) rest | None => None end.
Proof.
  induction l as [|i l IH]; intros rest col a F; [reflexivity|]. inversion F as [|? ? Hi F']; subst.
  cbn [app]. destruct i as [c|c].
  - unfold nobreak in Hi. cbn in Hi. cbn [acc_loop]. rewrite Hi.
    replace (if ((c =? cSP) || (c =? cTAB))%N then (if negb true && _ then _ else _) else _)
      with (acc_loop pat ind true col (c :: a) (l ++ rest)) by (destruct ((c =? cSP) || (c =? cTAB))%N; reflexivity).
    rewrite IH by exact F'. cbn [subst_line subst_item]. destruct (subst_line pat l) as [u|]; [|reflexivity].
    cbn [app rev]. rewrite <- app_assoc. reflexivity.
  - cbn [acc_loop subst_line]. destruct (subst_item pat (Esc c)) as [u0|]; [|reflexivity].
    rewrite IH by exact F'. destruct (subst_line pat l) as [u|]; [|reflexivity].
    rewrite rev_app_distr, <- app_assoc. reflexivity.
Qed.

Definition at_break (rest : list item) : Prop := rest = [] \/ exists r, rest = Lit cLF :: r.

Lemma acc_at_break pat ind o1 c1 o2 c2 a rest : at_break rest ->
  acc_loop pat ind o1 c1 a rest = acc_loop pat ind o2 c2 a rest.
Proof. intros [->|[r ->]]; reflexivity. Qed.

Lemma acc_line_lead pat ind : forall l rest col a, Forall nobreak l -> at_break rest ->
  acc_loop pat ind false col a (l ++ rest) = acc_loop pat ind true col a (go_lead ind col l ++ rest).
Proof.
  induction l as [|i l IH]; intros rest col a F B; [apply acc_at_break; exact B|].
  inversion F as [|? ? Hi F']; subst. destruct i as [c|c]; [|reflexivity].
  unfold nobreak in Hi. cbn in Hi. cbn [go_lead]. unfold blankc.
  destruct ((c =? cSP) || (c =? cTAB))%N eqn:Eb.
  - destruct ((if (c =? cTAB)%N then tab_stop col else col + 1) <=? ind) eqn:El.
    + cbn [app acc_loop]. rewrite Hi, Eb. cbn [negb andb]. rewrite El. rewrite IH by assumption.
      apply acc_col_irrelevant.
    + cbn [app acc_loop]. rewrite Hi, Eb. cbn [negb andb]. rewrite El. reflexivity.
  - cbn [app acc_loop]. rewrite Hi, Eb. reflexivity.
Qed.

Lemma tab_stop_gt t : 0 <= t -> t < tab_stop t.
Proof. intro H. apply tab_stop_pos. exact H. Qed.

Lemma drop_leading_go q : forall l col l2, 0 <= col -> drop_leading q col l = Some l2 -> go_lead (q + 1) col l = l2.
Proof.
  induction l as [|i l IH]; intros col l2 Hc H; [injection H as <-; reflexivity|].
  destruct i as [c|c]; [|injection H as <-; reflexivity]. cbn [drop_leading] in H. cbn [go_lead]. unfold blankc.
  destruct (c =? cSP)%N eqn:E1.
  - cbn [orb]. apply N.eqb_eq in E1. subst c. change (cSP =? cTAB)%N with false. cbv iota.
    destruct (Z.leb_spec col q).
    + destruct (Z.leb_spec (col + 1) (q + 1)); [|lia]. apply IH; [lia|exact H].
    + destruct (Z.leb_spec (col + 1) (q + 1)); [lia|]. injection H as <-. reflexivity.
  - cbn [orb]. destruct (c =? cTAB)%N eqn:E2; [|injection H as <-; reflexivity].
    pose proof (tab_stop_gt col Hc).
    destruct (Z.leb_spec col q).
    + destruct (Z.leb_spec (tab_stop col) (q + 1)); [|discriminate]. apply IH; [lia|exact H].
    + destruct (Z.leb_spec (tab_stop col) (q + 1)); [lia|]. injection H as <-. reflexivity.
Qed.

Lemma go_lead_suffix ind : forall l col, exists P, l = P ++ go_lead ind col l /\ Forall (fun i => is_lit_blank i = true) P.
Proof.
  induction l as [|i l IH]; intros col; [exists []; split; [reflexivity|constructor]|].
  destruct i as [c|c]; [|exists []; split; [reflexivity|constructor]]. cbn [go_lead]. unfold blankc.
  destruct ((c =? cSP) || (c =? cTAB))%N eqn:Eb; [|exists []; split; [reflexivity|constructor]].
  destruct ((if (c =? cTAB)%N then tab_stop col else col + 1) <=? ind); [|exists []; split; [reflexivity|constructor]].
  destruct (IH (if (c =? cTAB)%N then tab_stop col else col + 1)) as (P & E & F).
  exists (Lit c :: P). split; [cbn [app]; rewrite <- E; reflexivity|constructor; [exact Eb|exact F]].
Qed.

Lemma go_lead_app ind T : forall l col, go_lead ind col l <> [] -> go_lead ind col (l ++ T) = go_lead ind col l ++ T.
Proof.
  induction l as [|i l IH]; intros col H; [contradiction|].
  destruct i as [c|c]; [|reflexivity]. cbn [go_lead app] in *.
  destruct (blankc c); [|reflexivity].
  destruct ((if (c =? cTAB)%N then tab_stop col else col + 1) <=? ind); [apply IH; exact H|reflexivity].
Qed.

Lemma go_lead_last ind y : is_lit_blank y = false -> forall l0 col, exists l0', go_lead ind col (l0 ++ [y]) = l0' ++ [y].
Proof.
  intros Hy. induction l0 as [|i l0 IH]; intros col.
  - exists []. cbn [app]. destruct y as [c|c]; [|reflexivity]. cbn [go_lead]. cbn in Hy. unfold blankc. rewrite Hy. reflexivity.
  - destruct i as [c|c]; [|exists (Esc c :: l0); reflexivity]. cbn [app go_lead].
    destruct (blankc c); [|exists (Lit c :: l0); reflexivity].
    destruct ((if (c =? cTAB)%N then tab_stop col else col + 1) <=? ind); [apply IH|exists (Lit c :: l0); reflexivity].
Qed.

(* trailing blanks *)
Lemma drop_blanks_split l : exists P, l = P ++ drop_blanks l /\ Forall (fun i => is_lit_blank i = true) P /\
  match drop_blanks l with [] => True | y :: _ => is_lit_blank y = false end.
Proof.
  induction l as [|i l (P & E & F & H)]; [exists []; repeat split; constructor|].
  cbn [drop_blanks]. destruct (is_lit_blank i) eqn:Eb.
  - exists (i :: P). split; [cbn [app]; rewrite <- E; reflexivity|]. split; [constructor; assumption|exact H].
  - exists []. split; [reflexivity|]. split; [constructor|exact Eb].
Qed.

Lemma strip_split l : exists T, l = strip_trailing l ++ T /\ Forall (fun i => is_lit_blank i = true) T /\
  (strip_trailing l = [] \/ exists l0 y, strip_trailing l = l0 ++ [y] /\ is_lit_blank y = false).
Proof.
  unfold strip_trailing. destruct (drop_blanks_split (rev l)) as (P & E & F & H).
  exists (rev P). split; [rewrite <- rev_app_distr, <- E, rev_involutive; reflexivity|]. split; [apply Forall_rev; exact F|].
  destruct (drop_blanks (rev l)) as [|y d]; [left; reflexivity|right]. exists (rev d), y. split; [reflexivity|exact H].
Qed.

Lemma subst_blanks pat T : Forall (fun i => is_lit_blank i = true) T ->
  exists u, subst_line pat T = Some u /\ forallb blankc u = true.
Proof.
  induction 1 as [|i T Hi F (u & E & B)]; [exists []; split; reflexivity|].
  destruct i as [c|c]; [|discriminate]. exists (c :: u). cbn [subst_line subst_item]. rewrite E. split; [reflexivity|].
  cbn [forallb]. rewrite B. cbn in Hi. unfold blankc. rewrite Hi. reflexivity.
Qed.

Lemma trim_blanks u : forallb blankc u = true -> forall a, trim_trailing_rev (rev u ++ a) = trim_trailing_rev a.
Proof.
  induction u as [|c u IH]; intros H a; [reflexivity|]. cbn [forallb] in H. apply andb_true_iff in H. destruct H as [Hc Hu].
  cbn [rev]. rewrite <- app_assoc. rewrite IH by exact Hu. cbn [app trim_trailing_rev]. unfold blankc in Hc. rewrite Hc. reflexivity.
Qed.
Lemma trim_headok a : headok a -> trim_trailing_rev a = a.
Proof. destruct a as [|c a]; [reflexivity|]. cbn [headok trim_trailing_rev]. unfold blankc. intros ->. reflexivity. Qed.

Lemma subst_item_last pat y u : subst_item pat y = Some u -> is_lit_blank y = false -> esc_blank y = false ->
  exists u0 c, u = u0 ++ [c] /\ blankc c = false.
Proof.
  destruct y as [c|c]; cbn [subst_item is_lit_blank esc_blank]; intros H Hb He.
  - injection H as <-. exists [], c. split; [reflexivity|exact Hb].
  - apply orb_false_iff in He. destruct He as [He E3]. apply orb_false_iff in He. destruct He as [E1 E2].
    destruct (c =? c_n)%N; [injection H as <-; exists [], cLF; split; reflexivity|].
    rewrite E1 in H.
    destruct (c =? cDQ)%N; [injection H as <-; exists [], cDQ; split; reflexivity|].
    destruct (c =? cBSL)%N; [injection H as <-; exists [], cBSL; split; reflexivity|].
    destruct pat; [|discriminate]. injection H as <-. exists [cBSL], c. split; [reflexivity|]. unfold blankc. rewrite E2, E3. reflexivity.
Qed.

(* one source line that is followed by a line break: what the state machine has accumulated when it has
   trimmed at the break is what the reference makes of the line *)
Definition spec_lead (q : Z) (first : bool) (l : list item) : option (list item) :=
  if first then Some l else drop_leading q 0 l.
Definition go_line (q : Z) (first : bool) (l : list item) : list item :=
  if first then l else go_lead (q + 1) 0 l.

Lemma spec_lead_go q first l l2 : spec_lead q first l = Some l2 -> go_line q first l = l2.
Proof. destruct first; cbn; [intro H; injection H as <-; reflexivity|apply drop_leading_go; lia]. Qed.

Lemma line_trim pat q first l l2 u2 a : headok a -> ends_in_esc_blank l = false ->
  spec_lead q first (strip_trailing l) = Some l2 -> subst_line pat l2 = Some u2 ->
  exists u, subst_line pat (go_line q first l) = Some u /\ trim_trailing_rev (rev u ++ a) = rev u2 ++ a.
Proof.
  intros Ha Hesc Hl Hs. destruct (strip_split l) as (T & El & FT & Hcase).
  destruct (subst_blanks pat T FT) as (uT & EuT & BT).
  pose proof (spec_lead_go _ _ _ _ Hl) as Hg.
  destruct Hcase as [Hnil|(l0 & y & Ey & Hy)].
  - (* the line is blank *)
    rewrite Hnil in *. cbn [app] in El. subst l.
    assert (E2n : l2 = []) by (destruct first; cbn in Hl; injection Hl as <-; reflexivity). rewrite E2n in *. clear Hg.
    cbn in Hs. injection Hs as <-.
    assert (exists P, T = P ++ go_line q first T /\ Forall (fun i => is_lit_blank i = true) P) as (P & EP & _).
    { destruct first; [exists []; split; [reflexivity|constructor]|apply go_lead_suffix]. }
    assert (FG : Forall (fun i => is_lit_blank i = true) (go_line q first T)).
    { rewrite EP in FT. apply Forall_app in FT. apply FT. }
    destruct (subst_blanks pat _ FG) as (u & Eu & Bu). exists u. split; [exact Eu|].
    rewrite trim_blanks by exact Bu. apply trim_headok. exact Ha.
  - (* the line has a last non-blank item y *)
    assert (Hgl : go_line q first l = l2 ++ T).
    { rewrite El at 1. destruct first; cbn [go_line] in *; [rewrite Hg; reflexivity|].
      rewrite go_lead_app; [rewrite Hg; reflexivity|]. rewrite Ey.
      destruct (go_lead_last (q + 1) y Hy l0 0) as (l0' & ->). destruct l0'; discriminate. }
    assert (exists l2', l2 = l2' ++ [y]) as (l2' & E2).
    { rewrite <- Hg, Ey. destruct first; cbn [go_line]; [exists l0; reflexivity|apply go_lead_last; exact Hy]. }
    rewrite Hgl, subst_line_app, Hs, EuT. exists (u2 ++ uT). split; [reflexivity|].
    rewrite rev_app_distr, <- app_assoc, trim_blanks by exact BT.
    rewrite E2, subst_line_app in Hs. destruct (subst_line pat l2') as [u0|]; [|discriminate].
    cbn [subst_line] in Hs. destruct (subst_item pat y) as [uy|] eqn:Euy; [|discriminate]. injection Hs as <-.
    assert (Hey : esc_blank y = false).
    { unfold ends_in_esc_blank in Hesc. rewrite Ey, rev_app_distr in Hesc. exact Hesc. }
    destruct (subst_item_last pat y uy Euy Hy Hey) as (u1 & c & -> & Hc).
    rewrite app_nil_r. rewrite !rev_app_distr. cbn [rev app]. cbn [trim_trailing_rev]. unfold blankc in Hc. rewrite Hc. reflexivity.
Qed.

Lemma layout_length q : forall ls first ls', layout q first ls = Some ls' -> length ls' = length ls.
Proof.
  induction ls as [|l rest IH]; intros first ls' H; cbn [layout] in H; [injection H as <-; reflexivity|].
  destruct (if first then _ else _) as [l2|]; [|discriminate].
  destruct (layout q false rest) as [r|] eqn:E; [|discriminate]. injection H as <-. cbn [length]. f_equal. eapply IH; eauto.
Qed.

Lemma layout_cons2 q first l m ms : layout q first (l :: m :: ms) =
  match spec_lead q first (strip_trailing l), layout q false (m :: ms) with
  | Some l2, Some r => Some (l2 :: r) | _, _ => None end.
Proof. reflexivity. Qed.
Lemma layout_last q first l : layout q first [l] =
  match spec_lead q first l with Some l2 => Some [l2] | None => None end.
Proof. cbn [layout]. unfold spec_lead. destruct (if first then Some l else drop_leading q 0 l); reflexivity. Qed.
Lemma join_lines_cons2 pat l m ms : join_lines pat (l :: m :: ms) =
  match subst_line pat l, join_lines pat (m :: ms) with Some a, Some b => Some (a ++ cLF :: b) | _, _ => None end.
Proof. reflexivity. Qed.
Lemma no_esc_cons2 l m ms : no_esc_blank_before_break (l :: m :: ms) =
  negb (ends_in_esc_blank l) && no_esc_blank_before_break (m :: ms).
Proof. reflexivity. Qed.

Lemma acc_lines pat q : forall ls first A ls' t,
  ls <> [] -> Forall (Forall nobreak) ls -> headok A -> no_esc_blank_before_break ls = true ->
  layout q first ls = Some ls' -> join_lines pat ls' = Some t ->
  acc_loop pat (q + 1) first 0 A (unlines ls) = Some (rev A ++ t).
Proof.
  induction ls as [|l rest IH]; intros first A ls' t Hne F HA Hesc Hlay Hjoin; [contradiction|].
  apply Forall_cons_iff in F. destruct F as [Fl Frest].
  destruct rest as [|m ms].
  - (* the last line: nothing is trimmed *)
    rewrite layout_last in Hlay.
    destruct (spec_lead q first l) as [l2|] eqn:El; [|discriminate]. injection Hlay as <-.
    cbn [join_lines] in Hjoin. cbn [unlines].
    pose proof (spec_lead_go _ _ _ _ El) as Hg.
    assert (E : acc_loop pat (q + 1) first 0 A l = acc_loop pat (q + 1) true 0 A (l2 ++ [])).
    { destruct first; cbn [go_line] in Hg.
      - subst l2. rewrite app_nil_r. reflexivity.
      - rewrite <- (app_nil_r l) at 1. rewrite acc_line_lead; [rewrite Hg; reflexivity|exact Fl|left; reflexivity]. }
    rewrite E. rewrite acc_line_true.
    + rewrite Hjoin. cbn [acc_loop]. rewrite rev_app_distr, rev_involutive. reflexivity.
    + (* l2 is a suffix of l *)
      destruct first; cbn [go_line] in Hg; [subst l2; exact Fl|].
      destruct (go_lead_suffix (q + 1) l 0) as (P & EP & _). rewrite Hg in EP. rewrite EP in Fl. apply Forall_app in Fl. apply Fl.
  - (* a line followed by a line break *)
    rewrite layout_cons2 in Hlay.
    destruct (spec_lead q first (strip_trailing l)) as [l2|] eqn:El; [|discriminate].
    destruct (layout q false (m :: ms)) as [rs|] eqn:Er; [|discriminate]. injection Hlay as <-.
    pose proof (layout_length _ _ _ _ Er) as Hlen. destruct rs as [|r1 rs]; [discriminate|].
    rewrite join_lines_cons2 in Hjoin. destruct (subst_line pat l2) as [a|] eqn:Ea; [|discriminate].
    destruct (join_lines pat (r1 :: rs)) as [b|] eqn:Eb; [|discriminate]. injection Hjoin as <-.
    rewrite no_esc_cons2 in Hesc. apply andb_true_iff in Hesc. destruct Hesc as [He1 He2].
    apply negb_true_iff in He1.
    destruct (line_trim pat q first l l2 a A HA He1 El Ea) as (u & Eu & Etrim).
    rewrite unlines_cons.
    assert (E : acc_loop pat (q + 1) first 0 A (l ++ Lit cLF :: unlines (m :: ms)) =
                acc_loop pat (q + 1) true 0 A (go_line q first l ++ Lit cLF :: unlines (m :: ms))).
    { destruct first; cbn [go_line]; [reflexivity|]. apply acc_line_lead; [exact Fl|right; eexists; reflexivity]. }
    rewrite E, acc_line_true, Eu.
    + cbn [acc_loop]. rewrite N.eqb_refl. rewrite Etrim.
      rewrite (IH false (cLF :: rev a ++ A) (r1 :: rs) b); auto; [|discriminate|reflexivity].
      cbn [rev]. rewrite rev_app_distr, rev_involutive, <- !app_assoc. reflexivity.
    + destruct first; cbn [go_line]; [exact Fl|].
      destruct (go_lead_suffix (q + 1) l 0) as (P & EP & _). rewrite EP in Fl. apply Forall_app in Fl. apply Fl.
Qed.

(* the reference double-quoted string is what the accumulator reader computes *)
Lemma dquoted_acc pat q s t rest : dquoted pat q s = DOk t rest ->
  exists its, dq_items s = Some (its, rest) /\ acc_loop pat (q + 1) true 0 [] its = Some t.
Proof.
  unfold dquoted. destruct (dq_items s) as [[its r]|] eqn:E; [|discriminate].
  destruct (has_crlf _); [discriminate|]. destruct (pat && existsb esc_break its); [discriminate|].
  destruct (no_esc_blank_before_break (lines its)) eqn:E3; [|discriminate]. cbn [negb].
  destruct (layout q true (lines its)) as [ls|] eqn:E4; [|discriminate].
  destruct (join_lines pat ls) as [t'|] eqn:E5; [|discriminate]. intro H. injection H as <- <-.
  exists its. split; [reflexivity|].
  destruct (lines_spec its) as (N & F & U).
  rewrite <- U at 1. rewrite (acc_lines pat q (lines its) true [] ls t' N F I E3 E4 E5). reflexivity.
Qed.

Lemma lexQString_sim text l0 l s1 r t rest : ~ In EOFR text -> in_dq text l0 l s1 r ->
  dquoted (inPattern l) (column_of text s1) r = DOk t rest ->
  one_tok text l0 (lexQString l) TString t rest.
Proof.
  intros NE (SE & _ & Hit & Z & X & Ha & Htc) Hd.
  destruct (dquoted_acc _ _ _ _ _ Hd) as (its & Ei & Hacc).
  destruct (dq_items_flat _ _ _ Ei) as [Er Hok].
  unfold lexQString. rewrite Htc.
  apply (qstring_loop_sim text NE its _ l0 l _ _ _ true 0 [] rest t); auto.
  - split; [exact Z|left; exact X].
  - rewrite Ha. exact Er.
  - discriminate.
Qed.

Lemma same_errs_trans a b c : same_errs a b -> same_errs b c -> same_errs a c.
Proof. intros (A1 & A2 & A3) (B1 & B2 & B3). split; [|split]; congruence. Qed.

(* ---- a text that ends in a line break ---- *)
Definition lf_term (t : str) : Prop := t = [] \/ exists t0, t = t0 ++ [cLF].

Lemma index1_in c s : In c s -> index1 c s <> None.
Proof.
  induction s as [|x s IH]; [contradiction|]. cbn [index1 In]. destruct (N.eqb_spec x c); [discriminate|].
  intros [H|H]; [contradiction|]. destruct (index1 c s); [discriminate|]. exfalso. apply IH; [exact H|reflexivity].
Qed.

Lemma line_comment_closed text pre r : text = pre ++ cSLASH :: cSLASH :: r -> lf_term text -> index1 cLF r <> None.
Proof.
  intros E [->|[t0 Et]]; [destruct pre; discriminate|].
  induction r as [|x r0 _] using rev_ind.
  - rewrite E in Et.
    replace (pre ++ [cSLASH; cSLASH]) with ((pre ++ [cSLASH]) ++ [cSLASH]) in Et by (rewrite <- app_assoc; reflexivity).
    apply app_inj_tail in Et. destruct Et as [_ Q]. vm_compute in Q. discriminate Q.
  - rewrite E in Et.
    replace (pre ++ cSLASH :: cSLASH :: r0 ++ [x]) with ((pre ++ cSLASH :: cSLASH :: r0) ++ [x]) in Et
      by (rewrite <- app_assoc; reflexivity).
    apply app_inj_tail in Et. destruct Et as [_ ->]. apply index1_in. apply in_or_app. right. left. reflexivity.
Qed.

Lemma dropb_suffix s : exists B, s = B ++ dropb s.
Proof.
  induction s as [|c r (B & E)]; [exists []; reflexivity|]. cbn [dropb]. destruct (is_blank c); [|exists []; reflexivity].
  exists (c :: B). cbn [app]. rewrite <- E. reflexivity.
Qed.
Lemma dropb_length s : (length (dropb s) <= length s)%nat.
Proof. destruct (dropb_suffix s) as (B & E). rewrite E at 2. rewrite app_length. lia. Qed.

(* ---- NextToken returns the token the reference reader reads ---- *)
Definition tok_matches (k : tok) (t : token) : Prop :=
  match k with
  | KUnq u => tokq TUnquoted u t
  | KStr u => tokq TString u t
  | KPunct c => tokq (TChar c) [c] t
  | KEnd => False
  end.

Definition pop (l : lexer) (r : list token) : lexer :=
  {| cu := cu l; sline := sline l; scol := scol l; soff := soff l; inPattern := inPattern l;
     items := r; errcnt := errcnt l; errs := errs l; state := state l |}.

Lemma NextToken_pop fuel l t r : items l = t :: r -> NextToken fuel l = (Some (Some t), pop l r).
Proof. intro H. destruct fuel; cbn [NextToken]; rewrite H; reflexivity. Qed.
Lemma NextToken_run f l : items l = [] -> state l <> SDone -> NextToken (S f) l = NextToken f (run_state l).
Proof. intros H N. cbn [NextToken]. rewrite H. destruct (state l); try reflexivity. contradiction. Qed.
Lemma NextToken_done fuel l : items l = [] -> state l = SDone -> NextToken fuel l = (Some None, l).
Proof. intros H N. destruct fuel; cbn [NextToken]; rewrite H, N; reflexivity. Qed.

Lemma one_tok_pop text l l' c u s' fuel : one_tok text l l' c u s' ->
  exists t l'', NextToken fuel l' = (Some (Some t), l'') /\ tokq c u t /\ same_errs l l'' /\ glex text l'' s'.
Proof.
  intros (SE & Hst & (t & Hit & Ht) & L & Ha). exists t, (pop l' []). split; [apply NextToken_pop; exact Hit|].
  split; [exact Ht|]. split; [exact SE|]. split; [exact Hst|]. split; [reflexivity|]. split; [exact L|exact Ha].
Qed.

Lemma read_token_skip text pat s s2 : skip InGap s = skip InGap s2 -> read_token text pat s = read_token text pat s2.
Proof. intro H. unfold read_token. rewrite H. reflexivity. Qed.

Lemma unquoted_prefix c r : ends_unquoted c = false -> unquoted (c :: r) = let (u, s') := unquoted r in (c :: u, s').
Proof. intro H. cbn [unquoted]. rewrite H. reflexivity. Qed.

Definition tr_of (text : str) (l : lexer) (res : option (option token) * lexer) (r : tres) : Prop :=
  match r with
  | TOk KEnd _ => exists l', res = (Some None, l') /\ same_errs l l' /\ state l' = SDone /\ items l' = []
  | TOk k s' => exists t l', res = (Some (Some t), l') /\ tok_matches k t /\ same_errs l l' /\ glex text l' s'
  | _ => True
  end.
Definition token_result (text : str) (l : lexer) (fuel : nat) (r : tres) : Prop := tr_of text l (NextToken fuel l) r.

Lemma NextToken_sim text : ~ In EOFR text -> lf_term text -> forall n s l fuel,
  (length s <= n)%nat -> glex text l s -> (2 * length s + 4 <= fuel)%nat ->
  token_result text l fuel (read_token text (inPattern l) s).
Proof.
  intros NE LT. induction n as [|n IH]; intros s l fuel Hn G Hf.
  all: pose proof (lexGround_sim text l s NE G) as GR.
  all: destruct G as (Hst & Hit & L & Ha).
  all: destruct fuel as [|f]; [lia|].
  all: unfold token_result.
  all: rewrite (read_token_skip text _ s (dropb s) (skip_dropb s)).
  all: rewrite (NextToken_run f l Hit ltac:(rewrite Hst; discriminate)).
  all: unfold run_state; rewrite Hst.
  all: pose proof (dropb_length s) as Hdl.
  all: destruct (dropb_suffix s) as (B & EB).
  all: assert (Htxt : text = (rev (before (cu l)) ++ B) ++ dropb s)
         by (destruct L as [Z _]; unfold zip in Z; rewrite <- Z, Ha, <- app_assoc, <- EB; reflexivity).
  all: set (l1 := lexGround l) in *.
  all: destruct (dropb s) as [|c r] eqn:Hd.
  1,3: (* end of text *)
    destruct GR as (SE & Hs1 & Hi1); cbn; exists l1; split; [apply NextToken_done; assumption|auto].
  1: destruct s; [discriminate|cbn in Hn; lia].
  (* the text goes on with c *)
  unfold ground_result in GR. unfold read_token.
  assert (Hc_nb : blank c = false).
  { assert (Q : dropb (dropb s) = dropb s).
    { clear. induction s as [|x s IHs]; [reflexivity|]. cbn [dropb]. destruct (is_blank x) eqn:E; [exact IHs|]. cbn [dropb]. rewrite E. reflexivity. }
    rewrite Hd in Q. cbn [dropb] in Q. rewrite blank_is_blank. destruct (is_blank c); [|reflexivity].
    exfalso. pose proof (dropb_length r) as Q2. rewrite Q in Q2. cbn [length] in Q2. lia. }
  cbn [skip]. rewrite Hc_nb.
  destruct (punct c) eqn:Ep.
  { assert (Hns : (c =? cSLASH)%N = false).
    { unfold punct in Ep. destruct (N.eqb_spec c cSLASH) as [->|]; [discriminate Ep|reflexivity]. }
    rewrite Hns. rewrite Ep.
    destruct (one_tok_pop text l l1 _ _ _ f GR) as (t & l2 & A & B' & C & D). exists t, l2. auto. }
  destruct (c =? cSQ)%N eqn:E2.
  { apply N.eqb_eq in E2. subst c. change (cSQ =? cSLASH)%N with false. cbv iota. rewrite Ep. rewrite N.eqb_refl.
    destruct (squoted r) as [[u s']|]; [|exact I].
    destruct (one_tok_pop text l l1 _ _ _ f GR) as (t & l2 & A & B' & C & D). exists t, l2. auto. }
  destruct (c =? cDQ)%N eqn:E3.
  { apply N.eqb_eq in E3. subst c. change (cDQ =? cSLASH)%N with false. cbv iota. rewrite Ep, E2. rewrite N.eqb_refl.
    destruct (dquoted (inPattern l) (column_of text (cDQ :: r)) r) as [u s'| |] eqn:Edq; try exact I.
    destruct f as [|f]; [lia|].
    pose proof GR as (SE & Hs1 & Hi1 & _).
    rewrite (NextToken_run f l1 Hi1 ltac:(rewrite Hs1; discriminate)). unfold run_state. rewrite Hs1.
    assert (Edq' : dquoted (inPattern l1) (column_of text (cDQ :: r)) r = DOk u s').
    { destruct SE as (_ & _ & ->). exact Edq. }
    pose proof (lexQString_sim text l l1 _ r u s' NE GR Edq') as OT.
    destruct (one_tok_pop text l _ _ _ _ f OT) as (t & l2 & A & B' & C & D). exists t, l2. auto. }
  (* the token is unquoted, or this is a comment *)
  assert (Hunq : forall p s2 l2 f2, (length s2 < f2)%nat -> in_unq text l l2 p s2 ->
            let (u, s') := unquoted s2 in
            exists t l3, NextToken f2 l2 = (Some (Some t), l3) /\ tokq TUnquoted (rev p ++ u) t /\ same_errs l l3 /\ glex text l3 s').
  { intros p s2 l2 f2 Hf2 (SE & Hs2 & Hi2 & L2 & A2 & T2). destruct f2 as [|f2]; [lia|].
    rewrite (NextToken_run f2 l2 Hi2 ltac:(rewrite Hs2; discriminate)). unfold run_state. rewrite Hs2. unfold lexUnquoted.
    pose proof (unquoted_loop_sim text NE s2 (S (length (after (cu l2)))) l l2 p ltac:(rewrite A2; lia) SE Hi2 L2 A2 T2) as OT.
    destruct (unquoted s2) as [u s']. apply (one_tok_pop text l _ _ _ _ f2 OT). }
  assert (Eu : ends_unquoted c = false).
  { unfold ends_unquoted, quote. rewrite Hc_nb, Ep, E2, E3. reflexivity. }
  assert (Hlen : (length r < f)%nat) by (cbn [length] in Hdl; lia).
  destruct (c =? cSLASH)%N eqn:E4.
  { apply N.eqb_eq in E4. subst c.
    destruct r as [|d r'].
    - rewrite Ep. change (cSLASH =? cSQ)%N with false. change (cSLASH =? cDQ)%N with false. cbv iota.
      specialize (Hunq [cSLASH] [] l1 f Hlen GR). cbn [unquoted] in *. rewrite Eu. cbn [unquoted tl opener_in].
      destruct Hunq as (t & l3 & A & B' & C & D). exists t, l3. auto.
    - destruct (d =? cSLASH)%N eqn:E5.
      { apply N.eqb_eq in E5. subst d. rewrite skip_line.
        destruct (index1 cLF r') as [x|] eqn:Hi.
        - fold (read_token text (inPattern l) (skipn x r')).
          destruct GR as (SE & Hs1 & Hi1 & L1 & A1).
          assert (G1 : glex text l1 (skipn x r')) by (split; [exact Hs1|split; [exact Hi1|split; assumption]]).
          assert (Hlen2 : (length (skipn x r') <= length r')%nat) by (rewrite skipn_length; lia).
          cbn [length] in *.
          pose proof (IH (skipn x r') l1 f ltac:(lia) G1 ltac:(lia)) as R. unfold token_result in R.
          pose proof SE as (S1 & S2 & S3). rewrite S3 in R.
          destruct (read_token text (inPattern l) (skipn x r')) as [[u|u|c0|] s'| |]; try exact I; cbn [tr_of] in *.
          all: try (destruct R as (t & l3 & A & B' & C & D); exists t, l3;
                    split; [exact A|split; [exact B'|split; [exact (same_errs_trans _ _ _ SE C)|exact D]]]).
          destruct R as (l3 & A & C & D); exists l3; split; [exact A|split; [exact (same_errs_trans _ _ _ SE C)|exact D]].
        - exfalso. apply (line_comment_closed text _ r' Htxt LT). exact Hi. }
      destruct (d =? cSTAR)%N eqn:E6.
      { rewrite skip_block.
        destruct (find2 cSTAR cSLASH r') as [[p q]|] eqn:Hfd; [|exact I].
        fold (read_token text (inPattern l) q).
        destruct GR as (SE & Hs1 & Hi1 & L1 & A1).
        assert (G1 : glex text l1 q) by (split; [exact Hs1|split; [exact Hi1|split; assumption]]).
        pose proof (index2_find2 cSTAR cSLASH r') as F2. rewrite Hfd in F2. destruct F2 as [_ Er'].
        assert (Hlen2 : (length q + 2 <= length r')%nat) by (rewrite Er', app_length; cbn [length]; lia).
        cbn [length] in *.
        pose proof (IH q l1 f ltac:(lia) G1 ltac:(lia)) as R. unfold token_result in R.
        pose proof SE as (S1 & S2 & S3). rewrite S3 in R.
        destruct (read_token text (inPattern l) q) as [[u|u|c0|] s'| |]; try exact I; cbn [tr_of] in *.
        all: try (destruct R as (t & l3 & A & B' & C & D); exists t, l3;
                  split; [exact A|split; [exact B'|split; [exact (same_errs_trans _ _ _ SE C)|exact D]]]).
        destruct R as (l3 & A & C & D); exists l3; split; [exact A|split; [exact (same_errs_trans _ _ _ SE C)|exact D]]. }
      rewrite Ep. change (cSLASH =? cSQ)%N with false. change (cSLASH =? cDQ)%N with false. cbv iota.
      specialize (Hunq [cSLASH] (d :: r') l1 f Hlen GR).
      rewrite (unquoted_prefix cSLASH (d :: r') Eu). destruct (unquoted (d :: r')) as [u s'].
      cbn [tl]. destruct (opener_in u); [exact I|].
      destruct Hunq as (t & l3 & A & B' & C & D). exists t, l3. auto. }
  rewrite Ep, E2, E3.
  destruct (c =? cPLUS)%N eqn:E7.
  { destruct r as [|d r'].
    - specialize (Hunq [c] [] l1 f Hlen GR). cbn [unquoted] in *. rewrite Eu. cbn [unquoted tl opener_in].
      destruct Hunq as (t & l3 & A & B' & C & D). exists t, l3. auto.
    - destruct (quote d) eqn:Eq.
      + cbn [unquoted]. rewrite Eu. cbn [unquoted]. unfold ends_unquoted at 1. rewrite Eq. rewrite orb_true_r. cbn [orb].
        cbn [tl opener_in].
        destruct (one_tok_pop text l l1 _ _ _ f GR) as (t & l2 & A & B' & C & D). exists t, l2. auto.
      + specialize (Hunq [c] (d :: r') l1 f Hlen GR).
        rewrite (unquoted_prefix c (d :: r') Eu). destruct (unquoted (d :: r')) as [u s'].
        cbn [tl]. destruct (opener_in u); [exact I|].
        destruct Hunq as (t & l3 & A & B' & C & D). exists t, l3. auto. }
  assert (Hlen' : (length (c :: r) < f)%nat) by (cbn [length] in *; lia).
  specialize (Hunq [] (c :: r) l1 f Hlen' GR).
  destruct (unquoted (c :: r)) as [u s'].
  destruct (opener_in (tl u)); [exact I|].
  destruct Hunq as (t & l3 & A & B' & C & D). exists t, l3. auto.
Qed.

(* ================================================================ errors are never taken back *)
Definition keeps (l l' : lexer) : Prop := errs l <> [] -> errs l' <> [].

Lemma keeps_refl l : keeps l l. Proof. intro H; exact H. Qed.
Lemma keeps_trans a b c : keeps a b -> keeps b c -> keeps a c.
Proof. unfold keeps. auto. Qed.
Lemma keeps_same l l' : errs l' = errs l -> keeps l l'.
Proof. unfold keeps. intros ->. auto. Qed.

Lemma ErrorfAt_errs l ln cl kind subj :
  (errs (ErrorfAt l ln cl kind subj) = errs l \/ exists e, errs (ErrorfAt l ln cl kind subj) = e :: errs l) /\
  (errcnt l = O -> errs (ErrorfAt l ln cl kind subj) <> []).
Proof.
  unfold ErrorfAt. change (errcnt (emit l TError)) with (errcnt l). change (errs (emit l TError)) with (errs l).
  destruct (Nat.eqb_spec (errcnt l) maxErrors) as [E|N1]; [|destruct (Nat.eqb_spec (errcnt l) (S maxErrors)) as [E|N2]].
  - split; [right; eexists; reflexivity|]. intro Z. rewrite Z in E. discriminate.
  - split; [left; reflexivity|]. intro Z. rewrite Z in E. discriminate.
  - split; [right; eexists; reflexivity|]. intros _. discriminate.
Qed.

Lemma ErrorfAt_keeps l0 l ln cl kind subj st : errs l = errs l0 -> keeps l0 (with_state (ErrorfAt l ln cl kind subj) st).
Proof.
  intros E H. cbn [with_state errs]. destruct (proj1 (ErrorfAt_errs l ln cl kind subj)) as [->|[e ->]]; [rewrite E; exact H|discriminate].
Qed.

Ltac split_all :=
  repeat match goal with
  | |- context [let (_, _) := ?x in _] => destruct x
  | |- context [match ?x with (_, _) => _ end] => destruct x
  | |- context [if ?b then _ else _] => destruct b
  end.

Lemma lexGround_keeps l : keeps l (lexGround l).
Proof.
  unfold lexGround. cbv zeta. split_all;
    first [ apply keeps_same; reflexivity | apply ErrorfAt_keeps; reflexivity ].
Qed.

Lemma unquoted_loop_keeps fuel : forall l, keeps l (unquoted_loop fuel l).
Proof.
  induction fuel as [|f IH]; intro l; cbn [unquoted_loop]; [apply keeps_same; reflexivity|].
  destruct (peek (cu l)) as [c k]. destruct (is_delim c); [apply keeps_same; reflexivity|].
  destruct (next k) as [c2 k2]. eapply keeps_trans; [|apply IH]. apply keeps_same. reflexivity.
Qed.

Lemma qstring_loop_keeps fuel : forall l ind ql qc over tr, keeps l (qstring_loop fuel l ind ql qc over tr).
Proof.
  induction fuel as [|f IH]; intros l ind ql qc over tr; cbn [qstring_loop]; [apply keeps_same; reflexivity|].
  destruct (next (cu l)) as [c k].
  destruct (c =? EOFR)%N; [apply ErrorfAt_keeps; reflexivity|].
  destruct (c =? cDQ)%N; [apply keeps_same; reflexivity|].
  assert (K : forall l1, errs l1 = errs l -> forall o t, keeps l (qstring_loop f l1 ind ql qc o t)).
  { intros l1 E o t. eapply keeps_trans; [apply keeps_same; exact E|apply IH]. }
  destruct (c =? cLF)%N; [apply K; reflexivity|].
  destruct ((c =? cSP) || (c =? cTAB))%N; [destruct (negb over && (tcol k <=? ind)); apply K; reflexivity|].
  destruct (c =? cBSL)%N; [|apply K; reflexivity].
  destruct (next k) as [c2 k2].
  destruct (c2 =? c_n)%N; [apply K; reflexivity|]. destruct (c2 =? c_t)%N; [apply K; reflexivity|].
  destruct (c2 =? cDQ)%N; [apply K; reflexivity|]. destruct (c2 =? cBSL)%N; [apply K; reflexivity|].
  cbn [with_cu inPattern]. destruct (inPattern l); [apply K; reflexivity|].
  eapply keeps_trans; [|apply IH].
  apply (ErrorfAt_keeps l (with_cu (with_cu l k) k2) _ _ _ _ (state (ErrorfAt (with_cu (with_cu l k) k2) (line k) (col k - 1) EInvalidEscape (Some (Nat.pred (length (before k))))))).
  reflexivity.
Qed.

Lemma run_state_keeps l : keeps l (run_state l).
Proof.
  unfold run_state. destruct (state l); [apply lexGround_keeps|apply qstring_loop_keeps|apply unquoted_loop_keeps|apply keeps_refl].
Qed.

Lemma NextToken_keeps fuel : forall l r l', NextToken fuel l = (r, l') -> keeps l l'.
Proof.
  induction fuel as [|f IH]; intros l r l' H; cbn [NextToken] in H.
  - destruct (items l); [destruct (state l)|]; injection H as _ <-; apply keeps_same; reflexivity.
  - destruct (items l); [|injection H as _ <-; apply keeps_same; reflexivity].
    destruct (state l) eqn:Hs; try (eapply keeps_trans; [apply run_state_keeps|eapply IH; exact H]).
    injection H as _ <-. apply keeps_refl.
Qed.

(* ================================================================ C02: what the reference reader rejects, the lexer reports *)
Definition known_escape (c : rune) : bool := ((c =? c_n) || (c =? c_t) || (c =? cDQ) || (c =? cBSL))%N.

(* the text after an opening double quote is never closed, or holds an undefined escape *)
Fixpoint dq_bad (pat : bool) (s : str) : bool :=
  match s with
  | [] => true
  | c :: r =>
    if (c =? cDQ)%N then false
    else if (c =? cBSL)%N then
      match r with
      | [] => true
      | d :: r' => (negb pat && negb (known_escape d)) || dq_bad pat r'
      end
    else dq_bad pat r
  end.

Lemma dq_items_none_bad pat n : forall s, (length s <= n)%nat -> dq_items s = None -> dq_bad pat s = true.
Proof.
  induction n as [|n IH]; intros s Hn H; (destruct s as [|c r]; [reflexivity|]); [cbn in Hn; lia|].
  cbn [dq_items] in H. cbn [dq_bad]. cbn [length] in Hn.
  destruct (c =? cDQ)%N; [discriminate|]. destruct (c =? cBSL)%N.
  - destruct r as [|d r']; [reflexivity|]. destruct (dq_items r') as [[its s']|] eqn:E; [discriminate|].
    rewrite (IH r' ltac:(cbn [length] in Hn; lia) E). apply orb_true_r.
  - destruct (dq_items r) as [[its s']|] eqn:E; [discriminate|]. apply IH; [lia|exact E].
Qed.

Lemma subst_item_none pat i : subst_item pat i = None -> exists c, i = Esc c /\ pat = false /\ known_escape c = false.
Proof.
  destruct i as [c|c]; [discriminate|]. cbn [subst_item].
  destruct (c =? c_n)%N eqn:E1; [discriminate|]. destruct (c =? c_t)%N eqn:E2; [discriminate|].
  destruct (c =? cDQ)%N eqn:E3; [discriminate|]. destruct (c =? cBSL)%N eqn:E4; [discriminate|]. destruct pat; [discriminate|].
  intros _. exists c. unfold known_escape. rewrite E1, E2, E3, E4. repeat split.
Qed.

Lemma bad_item_dq_bad c rest : known_escape c = false -> forall its, Forall lit_ok its -> In (Esc c) its ->
  dq_bad false (flat its ++ cDQ :: rest) = true.
Proof.
  intros Hc. induction its as [|i its IH]; intros F Hin; [contradiction|].
  apply Forall_cons_iff in F. destruct F as [Hi F]. destruct i as [x|x].
  - cbn [flat map concat raw_item app]. fold (flat its). cbn [dq_bad]. destruct Hi as [N1 N2].
    apply N.eqb_neq in N1, N2. rewrite N1, N2. apply IH; [exact F|]. destruct Hin as [Q|Q]; [discriminate|exact Q].
  - cbn [flat map concat raw_item app]. fold (flat its). cbn [dq_bad].
    change (cBSL =? cDQ)%N with false. rewrite N.eqb_refl. cbv iota. cbn [negb andb].
    destruct Hin as [Q|Q]; [injection Q as ->; rewrite Hc; reflexivity|]. rewrite (IH F Q). apply orb_true_r.
Qed.

Lemma subst_line_none pat l : subst_line pat l = None -> exists i, In i l /\ subst_item pat i = None.
Proof.
  induction l as [|i l IH]; [discriminate|]. cbn [subst_line]. destruct (subst_item pat i) eqn:E; [|exists i; split; [left; reflexivity|exact E]].
  destruct (subst_line pat l); [discriminate|]. intros _. destruct (IH eq_refl) as (j & A & B). exists j. split; [right; exact A|exact B].
Qed.
Lemma join_lines_none pat ls : join_lines pat ls = None -> exists l i, In l ls /\ In i l /\ subst_item pat i = None.
Proof.
  induction ls as [|l ls IH]; [discriminate|]. destruct ls as [|m ms].
  - cbn [join_lines]. intro H. destruct (subst_line_none _ _ H) as (i & A & B). exists l, i. split; [left; reflexivity|auto].
  - rewrite join_lines_cons2. destruct (subst_line pat l) eqn:E.
    + destruct (join_lines pat (m :: ms)); [discriminate|]. intros _. destruct (IH eq_refl) as (l' & i & A & B & C).
      exists l', i. split; [right; exact A|auto].
    + intros _. destruct (subst_line_none _ _ E) as (i & A & B). exists l, i. split; [left; reflexivity|auto].
Qed.

Lemma drop_leading_incl q : forall l col l2, drop_leading q col l = Some l2 -> incl l2 l.
Proof.
  induction l as [|i l IH]; intros col l2 H; [injection H as <-; apply incl_refl|].
  destruct i as [c|c]; [|injection H as <-; apply incl_refl]. cbn [drop_leading] in H.
  destruct (c =? cSP)%N.
  - destruct (col <=? q); [apply incl_tl; eapply IH; exact H|injection H as <-; apply incl_refl].
  - destruct (c =? cTAB)%N; [|injection H as <-; apply incl_refl].
    destruct (col <=? q); [|injection H as <-; apply incl_refl].
    destruct (tab_stop col <=? q + 1); [apply incl_tl; eapply IH; exact H|discriminate].
Qed.
Lemma strip_trailing_incl l : incl (strip_trailing l) l.
Proof. destruct (strip_split l) as (T & E & _). rewrite E at 2. apply incl_appl. apply incl_refl. Qed.

Lemma layout_incl q : forall ls first ls', layout q first ls = Some ls' ->
  forall l' i, In l' ls' -> In i l' -> exists l, In l ls /\ In i l.
Proof.
  induction ls as [|l rest IH]; intros first ls' H l' i Hl Hi; cbn [layout] in H; [injection H as <-; contradiction|].
  destruct (if first then _ else _) as [l2|] eqn:E2; [|discriminate].
  destruct (layout q false rest) as [r|] eqn:Er; [|discriminate]. injection H as <-.
  destruct Hl as [<-|Hl].
  - exists l. split; [left; reflexivity|].
    assert (I2 : incl l2 (match rest with [] => l | _ :: _ => strip_trailing l end)).
    { destruct first; [injection E2 as <-; apply incl_refl|eapply drop_leading_incl; exact E2]. }
    apply I2 in Hi. destruct rest; [exact Hi|apply strip_trailing_incl; exact Hi].
  - destruct (IH false r Er l' i Hl Hi) as (l0 & A & B). exists l0. split; [right; exact A|exact B].
Qed.

Lemma lines_incl its : forall l i, In l (lines its) -> In i l -> In i its.
Proof.
  induction its as [|x its IH]; intros l i Hl Hi; [destruct Hl as [<-|[]]; contradiction|].
  cbn [lines] in Hl. destruct (is_break x).
  - destruct Hl as [<-|Hl]; [contradiction|]. right. eapply IH; eauto.
  - destruct (lines its) as [|l0 ls] eqn:E.
    + destruct Hl as [<-|[]]. destruct Hi as [<-|[]]. left; reflexivity.
    + destruct Hl as [<-|Hl].
      * destruct Hi as [<-|Hi]; [left; reflexivity|right; apply (IH l0 i); [left; reflexivity|exact Hi]].
      * right. apply (IH l i); [right; exact Hl|exact Hi].
Qed.

Lemma dquoted_reject_bad pat q s : dquoted pat q s = DReject -> dq_bad pat s = true.
Proof.
  unfold dquoted. destruct (dq_items s) as [[its rest]|] eqn:E; [|intros _; apply (dq_items_none_bad pat (length s)); [lia|exact E]].
  destruct (has_crlf _); [discriminate|]. destruct (pat && existsb esc_break its); [discriminate|].
  destruct (negb _); [discriminate|].
  destruct (layout q true (lines its)) as [ls|] eqn:E4; [|discriminate].
  destruct (join_lines pat ls) as [t|] eqn:E5; [discriminate|]. intros _.
  destruct (join_lines_none _ _ E5) as (l' & i & A & B & C).
  destruct (layout_incl _ _ _ _ E4 _ _ A B) as (l0 & A0 & B0).
  pose proof (lines_incl _ _ _ A0 B0) as Hin.
  destruct (subst_item_none _ _ C) as (c & -> & -> & Hk).
  destruct (dq_items_flat _ _ _ E) as [-> F]. apply (bad_item_dq_bad c rest Hk its F Hin).
Qed.

Lemma qstring_bad text : ~ In EOFR text -> forall n s fuel l ind ql qc over tr,
  (length s <= n)%nat -> live text (cu l) -> after (cu l) = s -> (length s < fuel)%nat -> errcnt l = O ->
  dq_bad (inPattern l) s = true -> errs (qstring_loop fuel l ind ql qc over tr) <> [].
Proof.
  intros NE. induction n as [|n IH]; intros s fuel l ind ql qc over tr Hn L Ha Hf Hc Hb.
  all: destruct fuel as [|f]; [lia|].
  all: assert (InA : forall x, In x (after (cu l)) -> x <> EOFR)
         by (intros x Hx ->; apply NE; destruct L as [Z _]; unfold zip in Z; rewrite <- Z; apply in_or_app; right; exact Hx).
  all: destruct s as [|c r]; [|try (cbn in Hn; lia)].
  1,2: cbn [qstring_loop]; rewrite (next_eof _ Ha); change (EOFR =? EOFR)%N with true; cbv iota;
       cbn [with_state errs]; apply ErrorfAt_errs; exact Hc.
  cbn [length] in Hn, Hf.
  destruct (next_step text (cu l) c r L Ha) as (Hn1 & L1 & A1 & _).
  assert (E0 : (c =? EOFR)%N = false) by (apply N.eqb_neq; apply InA; rewrite Ha; left; reflexivity).
  cbn [qstring_loop]. rewrite Hn1, E0. cbn [dq_bad] in Hb.
  destruct (c =? cDQ)%N; [discriminate|].
  set (l1 := with_cu l (advance c (cu l) 1)).
  assert (Rec : forall o t, dq_bad (inPattern l) r = true -> errs (qstring_loop f l1 ind ql qc o t) <> []).
  { intros o t Hb'. apply (IH r f l1 ind ql qc o t); auto; lia. }
  destruct (c =? cBSL)%N eqn:E4.
  - apply N.eqb_eq in E4. subst c.
    change (cBSL =? cLF)%N with false. change ((cBSL =? cSP) || (cBSL =? cTAB))%N with false. cbv iota.
    destruct r as [|d r'].
    + (* backslash at the end of the text *)
      rewrite (next_eof _ A1). unfold c_n, c_t, cDQ, cBSL, EOFR. cbn [N.eqb Pos.eqb].
      change (inPattern (with_cu l1 (set_width (advance 92%N (cu l) 1) 0))) with (inPattern l).
      destruct (inPattern l).
      * destruct f as [|f]; [cbn in Hf; lia|]. cbn [qstring_loop]. cbn [with_cu cu].
        rewrite (next_eof (set_width _ 0)) by exact A1. change (EOFR =? EOFR)%N with true. cbv iota.
        cbn [with_state errs]. apply ErrorfAt_errs. exact Hc.
      * apply qstring_loop_keeps. apply ErrorfAt_errs. exact Hc.
    + destruct (next_step text _ d r' L1 A1) as (Hn2 & L2 & A2 & _). rewrite Hn2.
      set (l2 := with_cu l1 (advance d (advance cBSL (cu l) 1) 1)).
      assert (Rec2 : forall t, dq_bad (inPattern l) r' = true -> errs (qstring_loop f l2 ind ql qc true t) <> []).
      { intros t Hb'. apply (IH r' f l2 ind ql qc true t); auto; cbn [length] in *; lia. }
      unfold known_escape in Hb.
      destruct (d =? c_n)%N; [apply Rec2; destruct (inPattern l); exact Hb|].
      destruct (d =? c_t)%N; [apply Rec2; destruct (inPattern l); exact Hb|].
      destruct (d =? cDQ)%N; [apply Rec2; destruct (inPattern l); exact Hb|].
      destruct (d =? cBSL)%N; [apply Rec2; destruct (inPattern l); exact Hb|].
      change (inPattern l2) with (inPattern l). destruct (inPattern l) eqn:Hp.
      * apply Rec2. exact Hb.
      * apply qstring_loop_keeps. apply ErrorfAt_errs. exact Hc.
  - destruct (c =? cLF)%N; [apply Rec; exact Hb|].
    destruct ((c =? cSP) || (c =? cTAB))%N; [destruct (negb over && _); apply Rec; exact Hb|apply Rec; exact Hb].
Qed.

Lemma failed_errs l l' : failed l l' -> errcnt l = O -> errs l' <> [].
Proof. intros (_ & _ & H) Hc. apply H. exact Hc. Qed.

Lemma NextToken_rej text : ~ In EOFR text -> lf_term text -> forall n s l fuel,
  (length s <= n)%nat -> glex text l s -> errcnt l = O -> (2 * length s + 4 <= fuel)%nat ->
  read_token text (inPattern l) s = TReject ->
  forall r l', NextToken fuel l = (r, l') -> errs l' <> [].
Proof.
  intros NE LT. induction n as [|n IH]; intros s l fuel Hn G Hc0 Hf Hrej r0 lf Hnt.
  all: pose proof (lexGround_sim text l s NE G) as GR.
  all: destruct G as (Hst & Hit & L & Ha).
  all: destruct fuel as [|f]; [lia|].
  all: rewrite (read_token_skip text _ s (dropb s) (skip_dropb s)) in Hrej.
  all: rewrite (NextToken_run f l Hit ltac:(rewrite Hst; discriminate)) in Hnt.
  all: unfold run_state in Hnt; rewrite Hst in Hnt.
  all: pose proof (dropb_length s) as Hdl.
  all: destruct (dropb_suffix s) as (B & EB).
  all: assert (Htxt : text = (rev (before (cu l)) ++ B) ++ dropb s)
         by (destruct L as [Z _]; unfold zip in Z; rewrite <- Z, Ha, <- app_assoc, <- EB; reflexivity).
  all: set (l1 := lexGround l) in *.
  all: destruct (dropb s) as [|c r] eqn:Hd; [discriminate Hrej|].
  1: destruct s; [discriminate|cbn in Hn; lia].
  unfold ground_result in GR. unfold read_token in Hrej.
  assert (Hc_nb : blank c = false).
  { assert (Q : dropb (dropb s) = dropb s).
    { clear. induction s as [|x s IHs]; [reflexivity|]. cbn [dropb]. destruct (is_blank x) eqn:E; [exact IHs|]. cbn [dropb]. rewrite E. reflexivity. }
    rewrite Hd in Q. cbn [dropb] in Q. rewrite blank_is_blank. destruct (is_blank c); [|reflexivity].
    exfalso. pose proof (dropb_length r) as Q2. rewrite Q in Q2. cbn [length] in Q2. lia. }
  cbn [skip] in Hrej. rewrite Hc_nb in Hrej.
  assert (Fail : failed l l1 -> errs lf <> []).
  { intro Fl. apply (NextToken_keeps _ _ _ _ Hnt). apply (failed_errs _ _ Fl Hc0). }
  destruct (punct c) eqn:Ep.
  { assert (Hns : (c =? cSLASH)%N = false).
    { unfold punct in Ep. destruct (N.eqb_spec c cSLASH) as [->|]; [discriminate Ep|reflexivity]. }
    rewrite Hns, Ep in Hrej. discriminate. }
  destruct (c =? cSQ)%N eqn:E2.
  { apply N.eqb_eq in E2. subst c. change (cSQ =? cSLASH)%N with false in Hrej. cbv iota in Hrej.
    rewrite Ep, N.eqb_refl in Hrej. destruct (squoted r) as [[u s']|]; [discriminate|]. apply Fail. exact GR. }
  destruct (c =? cDQ)%N eqn:E3.
  { apply N.eqb_eq in E3. subst c. change (cDQ =? cSLASH)%N with false in Hrej. cbv iota in Hrej.
    rewrite Ep, E2, N.eqb_refl in Hrej.
    destruct (dquoted (inPattern l) (column_of text (cDQ :: r)) r) as [u s'| |] eqn:Edq; try discriminate.
    destruct f as [|f]; [lia|].
    destruct GR as ((S1 & S2 & S3) & Hs1 & Hi1 & Z1 & X1 & A1 & _).
    rewrite (NextToken_run f l1 Hi1 ltac:(rewrite Hs1; discriminate)) in Hnt. unfold run_state in Hnt. rewrite Hs1 in Hnt.
    apply (NextToken_keeps _ _ _ _ Hnt). unfold lexQString.
    apply (qstring_bad text NE (length r) r); auto.
    - split; [exact Z1|left; exact X1].
    - rewrite A1. lia.
    - congruence.
    - rewrite S3. eapply dquoted_reject_bad; exact Edq. }
  destruct (c =? cSLASH)%N eqn:E4.
  { apply N.eqb_eq in E4. subst c.
    destruct r as [|d r'].
    - rewrite Ep in Hrej. change (cSLASH =? cSQ)%N with false in Hrej. change (cSLASH =? cDQ)%N with false in Hrej. cbv iota in Hrej.
      cbn [unquoted] in Hrej. destruct (ends_unquoted cSLASH); cbn in Hrej; discriminate.
    - destruct (d =? cSLASH)%N eqn:E5.
      { apply N.eqb_eq in E5. subst d. rewrite skip_line in Hrej.
        destruct (index1 cLF r') as [x|] eqn:Hi; [|discriminate].
        fold (read_token text (inPattern l) (skipn x r')) in Hrej.
        destruct GR as (SE & Hs1 & Hi1 & L1 & A1).
        assert (G1 : glex text l1 (skipn x r')) by (split; [exact Hs1|split; [exact Hi1|split; assumption]]).
        assert (Hlen2 : (length (skipn x r') <= length r')%nat) by (rewrite skipn_length; lia).
        cbn [length] in *. destruct SE as (S1 & S2 & S3).
        apply (IH (skipn x r') l1 f ltac:(lia) G1 ltac:(congruence) ltac:(lia) ltac:(rewrite S3; exact Hrej) _ _ Hnt). }
      destruct (d =? cSTAR)%N eqn:E6.
      { rewrite skip_block in Hrej.
        destruct (find2 cSTAR cSLASH r') as [[p q]|] eqn:Hfd; [|apply Fail; exact GR].
        fold (read_token text (inPattern l) q) in Hrej.
        destruct GR as (SE & Hs1 & Hi1 & L1 & A1).
        assert (G1 : glex text l1 q) by (split; [exact Hs1|split; [exact Hi1|split; assumption]]).
        pose proof (index2_find2 cSTAR cSLASH r') as F2. rewrite Hfd in F2. destruct F2 as [_ Er'].
        assert (Hlen2 : (length q + 2 <= length r')%nat) by (rewrite Er', app_length; cbn [length]; lia).
        cbn [length] in *. destruct SE as (S1 & S2 & S3).
        apply (IH q l1 f ltac:(lia) G1 ltac:(congruence) ltac:(lia) ltac:(rewrite S3; exact Hrej) _ _ Hnt). }
      rewrite Ep in Hrej. change (cSLASH =? cSQ)%N with false in Hrej. change (cSLASH =? cDQ)%N with false in Hrej. cbv iota in Hrej.
      destruct (unquoted (cSLASH :: d :: r')) as [u s']. destruct (opener_in (tl u)); discriminate. }
  rewrite Ep, E2, E3 in Hrej. destruct (unquoted (c :: r)) as [u s']. destruct (opener_in (tl u)); discriminate.
Qed.

(* ================================================================ the fuel of the model is sufficient *)
Definition nonerr (its : list token) : nat := length (filter (fun t => negb (is_TError t)) its).
Definition lrest (l : lexer) : nat := match state l with SDone => O | _ => length (after (cu l)) end.
(* all tokens still to come, and the non-error tokens still to come *)
Definition nu (l : lexer) : nat := (length (items l) + match state l with SDone => 0 | _ => length (after (cu l)) + 1 end)%nat.
Definition nu2 (l : lexer) : nat := (nonerr (items l) + lrest l)%nat.
Definition QI (l : lexer) : Prop :=
  (state l = SGround \/ state l = SDone) /\ (length (items l) <= maxErrors)%nat /\ (nonerr (items l) <= 1)%nat.

Lemma nonerr_app a b : nonerr (a ++ b) = (nonerr a + nonerr b)%nat.
Proof. unfold nonerr. rewrite filter_app, app_length. reflexivity. Qed.
Lemma nonerr_le a : (nonerr a <= length a)%nat.
Proof. unfold nonerr. induction a as [|x a IH]; [reflexivity|]. cbn [filter]. destruct (negb (is_TError x)); cbn [length]; lia. Qed.

Definition grows (l l' : lexer) (k : nat) : Prop :=   (* at most one more item, k of them non-error *)
  (length (items l') <= length (items l) + 1)%nat /\ (nonerr (items l') <= nonerr (items l) + k)%nat /\
  ((length (items l) <= maxErrors)%nat -> (length (items l') <= maxErrors)%nat) /\
  (items l <> [] -> items l' <> []).

Lemma emitText_grows l c u : grows l (emitText l c u) (match c with TError => 0 | _ => 1 end) /\ items (emitText l c u) <> [].
Proof.
  unfold grows, emitText. cbn [items]. destruct (Nat.ltb_spec (length (items l)) maxErrors) as [H|H].
  - rewrite app_length, nonerr_app. cbn [length]. split; [|destruct (items l); discriminate].
    split; [lia|]. split; [|split; [intros _; unfold maxErrors in *; lia|intros _; destruct (items l); discriminate]].
    unfold nonerr at 2. cbn [filter is_TError t_code]. destruct c; cbn; lia.
  - split; [split; [lia|split; [lia|split; [auto|auto]]]|]. unfold maxErrors in H. destruct (items l); [cbn in H; lia|discriminate].
Qed.

Lemma ErrorfAt_count l ln cl kind subj : let l' := ErrorfAt l ln cl kind subj in
  grows l l' 0 /\ items l' <> [] /\ (length (after (cu l')) <= length (after (cu l)))%nat /\ state l' = state l.
Proof.
  cbv zeta. destruct (emitText_grows l TError (rev (tokrev (cu l)))) as [G N]. fold (emit l TError) in G, N.
  unfold ErrorfAt. destruct (Nat.eqb (errcnt (emit l TError)) maxErrors); [|destruct (Nat.eqb (errcnt (emit l TError)) (S maxErrors))];
    (split; [exact G|split; [exact N|split; [cbn; lia|reflexivity]]]).
Qed.

Lemma next_after k c k' : next k = (c, k') -> (length (after k') <= length (after k))%nat /\
  (c <> EOFR -> (length (after k') + 1 <= length (after k))%nat).
Proof.
  unfold next. destruct (after k) as [|x r] eqn:Ha; intro H; injection H as <- <-.
  - cbn [set_width after]. rewrite Ha. split; [lia|congruence].
  - destruct (advance_fields x r k 1 Ha) as (_ & -> & _). cbn [length]. split; lia.
Qed.

(* lexQString, whatever the text: either a string comes out and at least the closing quote was consumed, or the
   lexer is done *)
Definition qcount (l l' : lexer) : Prop :=
  (state l' = SGround /\ items l' <> [] /\
   (length (items l') + length (after (cu l')) <= length (items l) + length (after (cu l)))%nat /\
   (nonerr (items l') <= nonerr (items l) + 1)%nat /\ (length (after (cu l')) + 1 <= length (after (cu l)))%nat)
  \/ (state l' = SDone /\ (length (items l') <= length (items l) + length (after (cu l)) + 1)%nat /\
      (nonerr (items l') <= nonerr (items l))%nat).

Lemma qstring_count fuel : forall l ind ql qc over tr,
  qcount l (qstring_loop fuel l ind ql qc over tr) /\
  ((length (items l) <= maxErrors)%nat -> (length (items (qstring_loop fuel l ind ql qc over tr)) <= maxErrors)%nat).
Proof.
  induction fuel as [|f IH]; intros l ind ql qc over tr; cbn [qstring_loop].
  - split; [right; cbn [with_state state items]; split; [reflexivity|split; lia]|auto].
  - destruct (next (cu l)) as [c k] eqn:Hn. destruct (next_after _ _ _ Hn) as [Hle Hlt].
    set (l1 := with_cu l k).
    assert (Step : forall l2 o t, (length (items l2) + length (after (cu l2)) <= length (items l) + length (after (cu l)))%nat ->
                   (nonerr (items l2) <= nonerr (items l))%nat -> (length (after (cu l2)) <= length (after (cu l)))%nat ->
                   ((length (items l) <= maxErrors)%nat -> (length (items l2) <= maxErrors)%nat) ->
                   qcount l (qstring_loop f l2 ind ql qc o t) /\
                   ((length (items l) <= maxErrors)%nat -> (length (items (qstring_loop f l2 ind ql qc o t)) <= maxErrors)%nat)).
    { intros l2 o t H1 H2 H3 H4. destruct (IH l2 ind ql qc o t) as [Q C]. split; [|auto].
      destruct Q as [(A & B & D & E & F)|(A & B & D)]; [left|right]; repeat split; auto; lia. }
    destruct (c =? EOFR)%N eqn:E0.
    { destruct (ErrorfAt_count l1 ql qc EMissingDQuote (Some (soff l1))) as ((G1 & G2 & G3 & _) & _ & _ & _).
      split; [|intro H; apply G3; exact H].
      right. cbn [with_state state items]. split; [reflexivity|]. change (items l1) with (items l) in *. split; lia. }
    apply N.eqb_neq in E0. specialize (Hlt E0).
    destruct (c =? cDQ)%N.
    { destruct (emitText_grows l1 TString (rev tr)) as [(G1 & G2 & G3 & _) N].
      split; [|intro H; apply G3; exact H].
      left. cbn [with_state state items]. change (items l1) with (items l) in *.
      split; [reflexivity|]. split; [exact N|].
      change (after (cu (with_state (emitText l1 TString (rev tr)) SGround))) with (after k).
      split; [lia|split; [exact G2|lia]]. }
    destruct (c =? cLF)%N; [apply Step; cbn [l1 with_cu items cu]; auto; lia|].
    destruct ((c =? cSP) || (c =? cTAB))%N; [destruct (negb over && _); apply Step; cbn [l1 with_cu items cu]; auto; lia|].
    destruct (c =? cBSL)%N; [|apply Step; cbn [l1 with_cu items cu]; auto; lia].
    destruct (next k) as [c2 k2] eqn:Hn2. destruct (next_after _ _ _ Hn2) as [Hle2 _].
    set (l2 := with_cu l1 k2).
    destruct (c2 =? c_n)%N; [apply Step; cbn [l2 l1 with_cu items cu]; auto; lia|].
    destruct (c2 =? c_t)%N; [apply Step; cbn [l2 l1 with_cu items cu]; auto; lia|].
    destruct (c2 =? cDQ)%N; [apply Step; cbn [l2 l1 with_cu items cu]; auto; lia|].
    destruct (c2 =? cBSL)%N; [apply Step; cbn [l2 l1 with_cu items cu]; auto; lia|].
    destruct (inPattern l2); [apply Step; cbn [l2 l1 with_cu items cu]; auto; lia|].
    destruct (ErrorfAt_count l2 (line k) (col k - 1) EInvalidEscape (Some (Nat.pred (length (before k))))) as ((G1 & G2 & G3 & _) & _ & G5 & _).
    change (items l2) with (items l) in *. change (after (cu l2)) with (after k2) in *.
    apply Step; auto; lia.
Qed.

Lemma grows_refl l l' k : items l' = items l -> grows l l' k.
Proof. intro E. unfold grows. rewrite E. repeat split; auto; lia. Qed.
Lemma grows_weaken l l' : grows l l' 0 -> grows l l' 1.
Proof. intros (A & B & C & D). repeat split; auto; lia. Qed.

Lemma grows_emit l x c l' : items x = items l -> items l' = items (emit x c) -> grows l l' 1.
Proof.
  intros E1 E2. destruct (emitText_grows x c (rev (tokrev (cu x)))) as [(A & B & C & D) _]. fold (emit x c) in A, B, C, D.
  unfold grows. rewrite E2, <- E1. repeat split; auto. destruct c; lia.
Qed.
Lemma grows_err l x a b c d l' : items x = items l -> items l' = items (ErrorfAt x a b c d) -> grows l l' 1.
Proof.
  intros E1 E2. destruct (ErrorfAt_count x a b c d) as ((A & B & C & D) & _).
  unfold grows. rewrite E2, <- E1. repeat split; auto. lia.
Qed.

Lemma lexGround_grows l : grows l (lexGround l) 1.
Proof.
  unfold lexGround. cbv zeta. split_all;
    first [ apply grows_refl; reflexivity
          | match goal with |- grows _ ?t _ => match t with context [emit ?x ?c] => apply (grows_emit _ x c); reflexivity end end
          | match goal with |- grows _ ?t _ => match t with context [ErrorfAt ?x ?a ?b ?c ?d] => apply (grows_err _ x a b c d); reflexivity end end ].
Qed.

Lemma unquoted_len s : (length (snd (unquoted s)) <= length s)%nat.
Proof. induction s as [|c r IH]; [cbn; lia|]. cbn [unquoted]. destruct (ends_unquoted c); [cbn; lia|]. destruct (unquoted r). cbn [snd length] in *. lia. Qed.

Definition tok_cost (t : token) : nat := if is_TError t then 0%nat else 1%nat.

Lemma nonerr_cons t r : nonerr (t :: r) = (tok_cost t + nonerr r)%nat.
Proof. unfold nonerr, tok_cost. cbn [filter]. destruct (is_TError t); reflexivity. Qed.

(* popping the head of the queue *)
Lemma pop_counts l t r : items l = t :: r -> QI l ->
  QI (pop l r) /\ (nu (pop l r) + 1 = nu l)%nat /\ (nu2 (pop l r) + tok_cost t = nu2 l)%nat.
Proof.
  intros E (S & L & N). unfold QI, nu, nu2, lrest. cbn [pop items state cu]. rewrite E in *. rewrite nonerr_cons in *. cbn [length] in *.
  repeat split; auto; lia.
Qed.

Definition nt_ok (l : lexer) (res : option (option token) * lexer) : Prop :=
  exists r l', res = (Some r, l') /\ QI l' /\
    match r with
    | Some t => (nu l' + 1 <= nu l)%nat /\ (nu2 l' + tok_cost t <= nu2 l)%nat
    | None => state l' = SDone /\ items l' = []
    end.

(* after the state functions have run from [l0] to [l1] without the totals growing, NextToken delivers *)
Lemma deliver l0 l1 fuel : (state l1 = SGround \/ state l1 = SDone) -> (items l1 <> [] \/ state l1 = SDone) ->
  (length (items l1) <= maxErrors)%nat -> (nonerr (items l1) <= 1)%nat -> (nu l1 <= nu l0)%nat -> (nu2 l1 <= nu2 l0)%nat ->
  nt_ok l0 (NextToken fuel l1).
Proof.
  intros S N L1 L2 A B. destruct (items l1) as [|t r] eqn:E.
  - destruct N as [N|N]; [contradiction|]. rewrite (NextToken_done _ _ E N). exists None, l1. split; [reflexivity|].
    split; [split; [right; exact N|rewrite E; cbn; unfold maxErrors; split; lia]|split; assumption].
  - rewrite (NextToken_pop _ _ _ _ E). assert (Q : QI l1) by (split; [exact S|rewrite E; split; assumption]).
    destruct (pop_counts l1 t r E Q) as (Q' & C & D). exists (Some t), (pop l1 r). split; [reflexivity|]. split; [exact Q'|]. split; lia.
Qed.

Lemma NextToken_total text : ~ In EOFR text -> forall n s l fuel,
  (length s <= n)%nat -> glex text l s -> (2 * length s + 4 <= fuel)%nat -> nt_ok l (NextToken fuel l).
Proof.
  intros NE. induction n as [|n IH]; intros s l fuel Hn G Hf.
  all: pose proof (lexGround_sim text l s NE G) as GR.
  all: pose proof (lexGround_grows l) as (Gr1 & Gr2 & Gr3 & _).
  all: destruct G as (Hst & Hit & L & Ha).
  all: assert (Hnu : nu l = (length s + 1)%nat) by (unfold nu; rewrite Hit, Hst, Ha; reflexivity).
  all: assert (Hnu2 : nu2 l = length s) by (unfold nu2, lrest, nonerr; rewrite Hit, Hst, Ha; reflexivity).
  all: rewrite Hit in Gr1, Gr2, Gr3; cbn [length] in Gr1, Gr3; change (nonerr []) with O in Gr2.
  all: assert (Gr3' : (length (items (lexGround l)) <= maxErrors)%nat) by (apply Gr3; unfold maxErrors; lia).
  all: destruct fuel as [|f]; [lia|].
  all: rewrite (NextToken_run f l Hit ltac:(rewrite Hst; discriminate)).
  all: unfold run_state; rewrite Hst.
  all: pose proof (dropb_length s) as Hdl.
  all: set (l1 := lexGround l) in *.
  all: destruct (dropb s) as [|c r] eqn:Hd.
  1,3: destruct GR as (SE & Hs1 & Hi1); apply deliver;
       [right; exact Hs1|right; exact Hs1|rewrite Hi1; cbn; unfold maxErrors; lia|rewrite Hi1; cbn; lia
       |rewrite Hnu; unfold nu; rewrite Hi1, Hs1; cbn; lia|rewrite Hnu2; unfold nu2, lrest; rewrite Hi1, Hs1; cbn; lia].
  1: destruct s; [discriminate|cbn in Hn; lia].
  cbn [length] in Hdl.
  (* a lexer that stopped with an error *)
  assert (Failed : failed l l1 -> nt_ok l (NextToken f l1)).
  { intros (Hs1 & _). apply deliver; auto.
    - rewrite Hnu; unfold nu. rewrite Hs1. lia.
    - rewrite Hnu2; unfold nu2, lrest. rewrite Hs1. lia. }
  assert (OneTok : forall cd u s', one_tok text l l1 cd u s' -> (length s' <= length r)%nat -> nt_ok l (NextToken f l1)).
  { intros cd u s' (SE & Hs1 & (t & Hi1 & _) & L1 & A1) Hl. apply deliver; auto.
    - left. rewrite Hi1. discriminate.
    - rewrite Hnu; unfold nu. rewrite Hs1, A1, Hi1. cbn [length]. lia.
    - rewrite Hnu2; unfold nu2, lrest. rewrite Hs1, A1. lia. }
  assert (Hc_nb : blank c = false).
  { assert (Q : dropb (dropb s) = dropb s).
    { clear. induction s as [|x s IHs]; [reflexivity|]. cbn [dropb]. destruct (is_blank x) eqn:E; [exact IHs|]. cbn [dropb]. rewrite E. reflexivity. }
    rewrite Hd in Q. cbn [dropb] in Q. rewrite blank_is_blank. destruct (is_blank c); [|reflexivity].
    exfalso. pose proof (dropb_length r) as Q2. rewrite Q in Q2. cbn [length] in Q2. lia. }
  assert (Unq : forall p s2, in_unq text l l1 p s2 -> (length (snd (unquoted s2)) + 1 <= length s)%nat -> nt_ok l (NextToken f l1)).
  { intros p s2 (SE & Hs2 & Hi2 & L2 & A2 & T2) Hl. destruct f as [|f]; [lia|].
    rewrite (NextToken_run f l1 Hi2 ltac:(rewrite Hs2; discriminate)). unfold run_state. rewrite Hs2. unfold lexUnquoted.
    pose proof (unquoted_loop_sim text NE s2 (S (length (after (cu l1)))) l l1 p ltac:(rewrite A2; lia) SE Hi2 L2 A2 T2) as OT.
    destruct (unquoted s2) as [u s'] eqn:Eu. cbn [snd] in Hl.
    destruct OT as (_ & Hs3 & (t & Hi3 & _) & _ & A3). apply deliver; auto.
    - left. rewrite Hi3. discriminate.
    - rewrite Hi3. cbn. unfold maxErrors. lia.
    - rewrite Hi3. rewrite nonerr_cons. unfold tok_cost. destruct (is_TError t); cbn; lia.
    - rewrite Hnu; unfold nu. rewrite Hs3, A3, Hi3. cbn [length]. lia.
    - rewrite Hnu2; unfold nu2, lrest. rewrite Hs3, A3, Hi3, nonerr_cons. unfold tok_cost. destruct (is_TError t); cbn; lia. }
  unfold ground_result in GR.
  destruct (punct c) eqn:Ep; [apply (OneTok _ _ _ GR); lia|].
  destruct (c =? cSQ)%N eqn:E2.
  { destruct (squoted r) as [[u s']|] eqn:Esq; [|apply Failed; exact GR].
    apply (OneTok _ _ _ GR). rewrite squoted_index in Esq. destruct (index1 cSQ r); [|discriminate]. injection Esq as _ <-.
    match goal with |- (length ?x <= _)%nat => assert (Q : (length x <= length r)%nat) by (destruct r; cbn [length]; [lia|rewrite skipn_length; lia]); exact Q end. }
  destruct (c =? cDQ)%N eqn:E3.
  { destruct GR as (SE & Hs1 & Hi1 & Z1 & X1 & A1 & _). destruct f as [|f]; [lia|].
    rewrite (NextToken_run f l1 Hi1 ltac:(rewrite Hs1; discriminate)). unfold run_state. rewrite Hs1. unfold lexQString.
    destruct (qstring_count (S (length (after (cu l1)))) l1 (tcol (cu l1)) (line (cu l1)) (col (cu l1) - 1) true []) as [Q C].
    set (l2 := qstring_loop _ _ _ _ _ _ _) in *. unfold qcount in Q. rewrite Hi1, A1 in Q. rewrite Hi1 in C. cbn [length] in Q, C. change (nonerr []) with O in Q.
    specialize (C ltac:(unfold maxErrors; lia)).
    destruct Q as [(Qs & Qi & Qa & Qn & Ql)|(Qs & Qa & Qn)]; apply deliver; auto; try lia.
    - rewrite Hnu; unfold nu. rewrite Qs. lia.
    - rewrite Hnu2; unfold nu2, lrest. rewrite Qs. lia.
    - rewrite Hnu; unfold nu. rewrite Qs. lia.
    - rewrite Hnu2; unfold nu2, lrest. rewrite Qs. lia. }
  assert (Eu : ends_unquoted c = false).
  { unfold ends_unquoted, quote. rewrite Hc_nb, Ep, E2, E3. reflexivity. }
  assert (Hunq_c : forall r0, (length (snd (unquoted r0)) <= length r0)%nat) by apply unquoted_len.
  destruct (c =? cSLASH)%N eqn:E4.
  { destruct r as [|d r']; [apply (Unq _ _ GR); cbn; lia|].
    destruct (d =? cSLASH)%N.
    { destruct (index1 cLF r') as [x|] eqn:Hi; [|apply Failed; exact GR].
      destruct GR as (SE & Hs1 & Hi1 & L1 & A1).
      assert (G1 : glex text l1 (skipn x r')) by (split; [exact Hs1|split; [exact Hi1|split; assumption]]).
      assert (Hlen2 : (length (skipn x r') <= length r')%nat) by (rewrite skipn_length; lia).
      cbn [length] in *.
      destruct (IH (skipn x r') l1 f ltac:(lia) G1 ltac:(lia)) as (r0 & l' & E & Q & M).
      exists r0, l'. split; [exact E|split; [exact Q|]].
      assert (N1 : (nu l1 <= nu l)%nat) by (rewrite Hnu; unfold nu; rewrite Hs1, Hi1, A1; cbn [length]; lia).
      assert (N2 : (nu2 l1 <= nu2 l)%nat) by (rewrite Hnu2; unfold nu2, lrest; rewrite Hs1, Hi1, A1; cbn; lia).
      destruct r0; [split; lia|exact M]. }
    destruct (d =? cSTAR)%N.
    { destruct (find2 cSTAR cSLASH r') as [[p q]|] eqn:Hfd; [|apply Failed; exact GR].
      destruct GR as (SE & Hs1 & Hi1 & L1 & A1).
      assert (G1 : glex text l1 q) by (split; [exact Hs1|split; [exact Hi1|split; assumption]]).
      pose proof (index2_find2 cSTAR cSLASH r') as F2. rewrite Hfd in F2. destruct F2 as [_ Er'].
      assert (Hlen2 : (length q + 2 <= length r')%nat) by (rewrite Er', app_length; cbn [length]; lia).
      cbn [length] in *.
      destruct (IH q l1 f ltac:(lia) G1 ltac:(lia)) as (r0 & l' & E & Q & M).
      exists r0, l'. split; [exact E|split; [exact Q|]].
      assert (N1 : (nu l1 <= nu l)%nat) by (rewrite Hnu; unfold nu; rewrite Hs1, Hi1, A1; cbn [length]; lia).
      assert (N2 : (nu2 l1 <= nu2 l)%nat) by (rewrite Hnu2; unfold nu2, lrest; rewrite Hs1, Hi1, A1; cbn; lia).
      destruct r0; [split; lia|exact M]. }
    apply (Unq _ _ GR). pose proof (Hunq_c (d :: r')). cbn [length] in *. lia. }
  destruct (c =? cPLUS)%N eqn:E7.
  { destruct r as [|d r']; [apply (Unq _ _ GR); cbn; lia|].
    destruct (quote d); [apply (OneTok _ _ _ GR); lia|].
    apply (Unq _ _ GR). pose proof (Hunq_c (d :: r')). cbn [length] in *. lia. }
  apply (Unq _ _ GR). cbn [unquoted]. rewrite Eu. pose proof (Hunq_c r). destruct (unquoted r). cbn [snd] in *. lia.
Qed.
