(* Cursor invariants of the lexer model: line / col / tcol are functions of the consumed text. *)
From Coq Require Import List NArith ZArith Bool Lia.
Import ListNotations.
From GY Require Import Model.Lex Model.Parse Spec.C16.
Local Open Scope Z_scope.

(* the exact counters for a reversed consumed prefix *)
Definition xline (b : str) : Z := 1 + count_lf b.
Definition xcol (b : str) : Z := Z.of_nat (length (cur_line_rev b)).
Definition xtcol (b : str) : Z := tabw_rev (cur_line_rev b).

Lemma xline_cons c b : xline (c :: b) = if (c =? cLF)%N then xline b + 1 else xline b.
Proof. unfold xline; cbn [count_lf]. destruct (c =? cLF)%N; lia. Qed.
Lemma xcol_cons c b : xcol (c :: b) = if (c =? cLF)%N then 0 else xcol b + 1.
Proof. unfold xcol; cbn [cur_line_rev]. destruct (c =? cLF)%N; cbn [length]; lia. Qed.
Lemma xtcol_cons c b : xtcol (c :: b) =
  if (c =? cLF)%N then 0 else if (c =? cTAB)%N then tab_stop (xtcol b) else xtcol b + 1.
Proof. unfold xtcol; cbn [cur_line_rev]. destruct (c =? cLF)%N; reflexivity. Qed.
Lemma xcol_nonneg b : 0 <= xcol b. Proof. unfold xcol; lia. Qed.
Lemma tab_stop_pos t : 0 <= t -> t < tab_stop t /\ tab_stop t mod 8 = 0.
Proof.
  intro H. unfold tab_stop. split.
  - pose proof (Z.mod_pos_bound (t + 8) 8 ltac:(lia)). pose proof (Z.div_mod (t + 8) 8 ltac:(lia)). lia.
  - apply Z.mod_mul. lia.
Qed.
Lemma tab_stop_back t : 0 <= t -> tab_stop (tab_stop t - 1) = tab_stop t.
Proof.
  intro H. unfold tab_stop.
  set (q := (t + 8) / 8). replace (q * 8 - 1 + 8) with (7 + q * 8) by lia.
  rewrite Z.div_add by lia. reflexivity.
Qed.
Lemma xtcol_nonneg b : 0 <= xtcol b.
Proof.
  unfold xtcol. induction (cur_line_rev b) as [|c r IH]; cbn [tabw_rev]; [lia|].
  destruct (c =? cTAB)%N; [|lia]. pose proof (tab_stop_pos _ IH). lia.
Qed.

(* the cursor is exact: its three counters are what the consumed text says *)
Definition Exact (k : cur) : Prop :=
  line k = xline (before k) /\ col k = xcol (before k) /\ tcol k = xtcol (before k).

(* the transient states peek() leaves behind when the next rune is a line break (col and tcol
   zeroed) or a tab (tcol one short of the tab stop); the next next() repairs both *)
Definition TransLF (k : cur) : Prop :=
  line k = xline (before k) /\ col k = 0 /\ tcol k = 0 /\ exists r, after k = cLF :: r.
Definition TransTab (k : cur) : Prop :=
  line k = xline (before k) /\ col k = xcol (before k) /\ tcol k = tab_stop (xtcol (before k)) - 1 /\
  exists r, after k = cTAB :: r.

Definition CInv (k : cur) : Prop := Exact k \/ TransLF k \/ TransTab k.

(* the zipper holds the text *)
Definition zip (text : str) (k : cur) : Prop := rev (before k) ++ after k = text.

Lemma advance_fields c r k w : after k = c :: r ->
  before (advance c k w) = c :: before k /\ after (advance c k w) = r /\
  tokrev (advance c k w) = c :: tokrev k /\ width (advance c k w) = w /\
  line (advance c k w) = (if (c =? cLF)%N then line k + 1 else line k) /\
  col (advance c k w) = (if (c =? cLF)%N then 0 else col k + 1) /\
  tcol (advance c k w) = (if (c =? cLF)%N then 0 else if (c =? cTAB)%N then tab_stop (tcol k) else tcol k + 1).
Proof.
  intro Ha. unfold advance. rewrite Ha.
  destruct (c =? cLF)%N; [|destruct (c =? cTAB)%N]; cbn; auto 10.
Qed.

Lemma advance_exact c r k w : after k = c :: r -> CInv k -> Exact (advance c k w).
Proof.
  intros Ha I. destruct (advance_fields c r k w Ha) as (Fb & _ & _ & _ & Fl & Fc & Ft).
  unfold Exact. rewrite Fb, Fl, Fc, Ft, xline_cons, xcol_cons, xtcol_cons.
  destruct I as [(El & Ec & Et)|[(El & Ec & Et & r' & Hr)|(El & Ec & Et & r' & Hr)]].
  - rewrite El, Ec, Et. destruct (c =? cLF)%N; [auto|]. destruct (c =? cTAB)%N; auto.
  - rewrite Ha in Hr. injection Hr as -> _. rewrite N.eqb_refl. rewrite El. auto.
  - rewrite Ha in Hr. injection Hr as -> _. change ((cTAB =? cLF)%N) with false. rewrite N.eqb_refl.
    rewrite El, Ec, Et. rewrite tab_stop_back by apply xtcol_nonneg. auto.
Qed.

Lemma advance_zip text c r k w : after k = c :: r -> zip text k -> zip text (advance c k w).
Proof.
  intros Ha Z. destruct (advance_fields c r k w Ha) as (Fb & Fa & _).
  unfold zip in *. rewrite Fb, Fa. cbn [rev]. rewrite <- app_assoc. cbn [app]. rewrite Ha in Z. exact Z.
Qed.

(* ---- next ---- *)
Lemma next_eof k : after k = [] -> next k = (EOFR, set_width k 0).
Proof. intro H. unfold next. rewrite H. reflexivity. Qed.
Lemma next_cons k c r : after k = c :: r -> next k = (c, advance c k 1).
Proof. intro H. unfold next. rewrite H. reflexivity. Qed.

Lemma set_width_cinv k w : CInv k -> CInv (set_width k w).
Proof. intros [E|[T|T]]; [left|right;left|right;right]; assumption. Qed.
Lemma set_width_zip text k w : zip text k -> zip text (set_width k w).
Proof. intro H; exact H. Qed.

Lemma next_cinv text k c k' : zip text k -> CInv k -> next k = (c, k') -> zip text k' /\ CInv k'.
Proof.
  intros Z I H. unfold next in H. destruct (after k) as [|x r] eqn:Ha.
  - injection H as <- <-. split; [exact Z | apply set_width_cinv; exact I].
  - injection H as <- <-. split; [eapply advance_zip; eauto | left; eapply advance_exact; eauto].
Qed.

(* ---- backup right after next: peek ---- *)
Definition same_place (k k' : cur) : Prop :=
  before k' = before k /\ after k' = after k /\ tokrev k' = tokrev k.

Lemma backup_advance k c r : after k = c :: r -> CInv k ->
  let k' := backup (advance c k 1) in
  same_place k k' /\ CInv k' /\ (c <> cLF -> col k' = xcol (before k)) /\ line k' = xline (before k) /\
  (c <> cLF -> c <> cTAB -> Exact k').
Proof.
  intros Ha I. cbn zeta.
  pose proof (advance_exact c r k 1 Ha I) as (Xl & Xc & Xt).
  destruct (advance_fields c r k 1 Ha) as (Fb & Fa & Ft & Fw & _).
  rewrite Fb, xline_cons in Xl. rewrite Fb, xcol_cons in Xc. rewrite Fb, xtcol_cons in Xt.
  unfold backup. rewrite Fw. cbn [unread]. rewrite Fb. cbn [unread]. rewrite Fa, Ft. cbn [tl].
  pose proof (xcol_nonneg (before k)) as Hc. pose proof (xtcol_nonneg (before k)) as Htc.
  destruct (N.eqb_spec c cLF) as [->|Hn].
  - rewrite Xc. change (0 - 1 <? 0) with true. cbv iota.
    unfold same_place; cbn [before after tokrev line col tcol].
    split; [auto|]. split; [|split; [congruence|split; [lia|congruence]]].
    right; left. unfold TransLF; cbn [before after line col tcol]. repeat split; try lia. eexists; reflexivity.
  - rewrite Xc. destruct (Z.ltb_spec (xcol (before k) + 1 - 1) 0); [lia|].
    unfold same_place; cbn [before after tokrev line col tcol].
    split; [auto|].
    destruct (N.eqb_spec c cTAB) as [->|Ht].
    + split; [|split; [lia|split; [lia|congruence]]].
      right; right. unfold TransTab; cbn [before after line col tcol]. repeat split; try lia. eexists; reflexivity.
    + assert (E : forall a tr w, Exact {| before := before k; after := a; tokrev := tr;
                           line := line (advance c k 1); col := xcol (before k) + 1 - 1;
                           tcol := tcol (advance c k 1) - 1; width := w |}).
      { intros. unfold Exact; cbn [before line col tcol]. repeat split; lia. }
      split; [left; apply E|]. split; [lia|]. split; [lia|]. intros _ _. apply E.
Qed.

Lemma peek_spec text k c k' : zip text k -> CInv k -> peek k = (c, k') ->
  c = hd EOFR (after k) /\ same_place k k' /\ zip text k' /\ CInv k' /\
  line k' = xline (before k) /\ (c <> cLF -> col k' = xcol (before k)) /\
  (c <> cLF -> c <> cTAB -> c <> EOFR -> Exact k').
Proof.
  intros Z I H. unfold peek in H. destruct (after k) as [|x r] eqn:Ha.
  - rewrite (next_eof k Ha) in H. injection H as <- <-. cbn [hd]. unfold backup. cbn [set_width width].
    split; [reflexivity|]. split; [unfold same_place; cbn; auto|]. split; [exact Z|].
    split; [apply set_width_cinv; exact I|].
    destruct I as [(El & Ec & Et)|[(El & Ec & Et & r' & Hr)|(El & Ec & Et & r' & Hr)]];
      try (rewrite Ha in Hr; discriminate).
    cbn [set_width line col]. split; [exact El|]. split; [intros _; exact Ec|congruence].
  - rewrite (next_cons k x r Ha) in H. injection H as <- <-. cbn [hd].
    destruct (backup_advance k x r Ha I) as (S & C & Hc & Hl & He).
    split; [reflexivity|]. split; [exact S|]. split.
    + destruct S as (Sb & Sa & _). unfold zip in *. rewrite Sb, Sa. exact Z.
    + split; [exact C|]. split; [exact Hl|]. split; [exact Hc|]. intros A B _. exact (He A B).
Qed.

(* ---- positions from the zipper ---- *)
Lemma linecol_split text b a : rev b ++ a = text ->
  linecol text (length b) = (xline b, 1 + xcol b).
Proof.
  intros <-. unfold linecol. rewrite <- (rev_length b), firstn_app, Nat.sub_diag, firstn_all.
  cbn [firstn]. rewrite app_nil_r, rev_involutive. reflexivity.
Qed.

Definition live (text : str) (k : cur) : Prop := zip text k /\ CInv k.

Lemma consume_live text k : live text k -> live text (consume k).
Proof. intros [Z I]. split; [exact Z|]. destruct I as [E|[T|T]]; [left|right;left|right;right]; exact E || exact T. Qed.
Lemma consume_exact k : Exact k -> Exact (consume k).
Proof. intro E; exact E. Qed.

(* ---- acceptRun ---- *)
Lemma acceptRun_spec text fuel : forall k, live text k -> (length (after k) < fuel)%nat ->
  live text (acceptRun fuel k) /\ Exact (acceptRun fuel k).
Proof.
  induction fuel as [|f IH]; intros k [Z I] Hf; [lia|]. cbn [acceptRun].
  destruct (after k) as [|c r] eqn:Ha.
  - rewrite (next_eof k Ha). change (is_blank EOFR) with false. cbv iota.
    unfold backup. cbn [set_width width].
    assert (E : Exact k).
    { destruct I as [E|[(_&_&_&r'&Hr)|(_&_&_&r'&Hr)]]; [exact E| |]; rewrite Ha in Hr; discriminate. }
    split; [split; [exact Z|left; exact E]|exact E].
  - rewrite (next_cons k c r Ha). destruct (is_blank c) eqn:Hb.
    + apply IH.
      * split; [eapply advance_zip; eauto|left; eapply advance_exact; eauto].
      * destruct (advance_fields c r k 1 Ha) as (_ & Fa & _). rewrite Fa. cbn [length] in Hf. lia.
    + destruct (backup_advance k c r Ha I) as (S & C & _ & _ & He).
      assert (c <> cLF /\ c <> cTAB) as [N1 N2].
      { unfold is_blank in Hb. split; intros ->; cbn in Hb; discriminate. }
      split; [split|]; [|exact C|exact (He N1 N2)].
      destruct S as (Sb & Sa & _). unfold zip in *. rewrite Sb, Sa. exact Z.
Qed.

(* ---- updateCursor / skipTo ---- *)
Lemma updateCursor_go_spec text n : forall k, live text k -> (n <= length (after k))%nat ->
  live text (updateCursor_go n k) /\ (n <> O -> Exact (updateCursor_go n k)) /\
  before (updateCursor_go n k) = rev (firstn n (after k)) ++ before k /\
  after (updateCursor_go n k) = skipn n (after k).
Proof.
  induction n as [|n IH]; intros k L Hn; cbn [updateCursor_go].
  - split; [exact L|]. split; [congruence|]. split; reflexivity.
  - destruct (after k) as [|c r] eqn:Ha; [cbn in Hn; lia|].
    destruct L as [Z I].
    destruct (advance_fields c r k 0 Ha) as (Fb & Fa & _).
    assert (L' : live text (advance c k 0))
      by (split; [eapply advance_zip; eauto|left; eapply advance_exact; eauto]).
    destruct (IH (advance c k 0) L') as (A & B & C & D); [rewrite Fa; cbn [length] in Hn; lia|].
    split; [exact A|]. split.
    + intros _. destruct n; [cbn [updateCursor_go]; eapply advance_exact; eauto | apply B; discriminate].
    + rewrite C, D, Fb, Fa. cbn [firstn skipn rev]. rewrite <- app_assoc. split; reflexivity.
Qed.

Lemma set_width_live text k w : live text k -> live text (set_width k w).
Proof. intros [Z I]; split; [exact Z|apply set_width_cinv; exact I]. Qed.

Lemma index1_bound c s x : index1 c s = Some x -> (x < length s)%nat /\ nth_error s x = Some c.
Proof.
  revert x. induction s as [|y r IH]; intros x H; cbn in H; [discriminate|].
  destruct (N.eqb_spec y c) as [->|Hn].
  - injection H as <-. cbn. split; [lia|reflexivity].
  - destruct (index1 c r) as [x'|]; [|discriminate]. cbn [option_map] in H. injection H as <-.
    destruct (IH x' eq_refl). cbn. split; [lia|assumption].
Qed.
Lemma index2_bound c d s x : index2 c d s = Some x -> (S x < length s)%nat /\
  nth_error s x = Some c /\ nth_error s (S x) = Some d.
Proof.
  revert x. induction s as [|y r IH]; intros x H; [discriminate|].
  destruct r as [|z r']; [discriminate|]. cbn [index2] in H.
  destruct (N.eqb_spec y c) as [->|Hn]; cbn [andb] in H.
  - destruct (N.eqb_spec z d) as [->|Hm].
    + injection H as <-. cbn. split; [lia|split; reflexivity].
    + destruct (index2 c d (z :: r')) as [x'|]; [|discriminate]. cbn [option_map] in H. injection H as <-.
      destruct (IH x' eq_refl) as (A & B & C). cbn [length] in *. split; [lia|]. split; assumption.
  - destruct (index2 c d (z :: r')) as [x'|]; [|discriminate]. cbn [option_map] in H. injection H as <-.
    destruct (IH x' eq_refl) as (A & B & C). cbn [length] in *. split; [lia|]. split; assumption.
Qed.

(* after a successful skipTo the cursor is live and the needle is next *)
Lemma skipTo1_spec text c k found k' : live text k -> skipTo1 c k = (found, k') ->
  live text k' /\
  (found = false -> k' = k) /\
  (found = true -> exists r, after k' = c :: r).
Proof.
  intros L H. unfold skipTo1 in H. destruct (index1 c (after k)) as [x|] eqn:Hi.
  - injection H as <- <-. destruct (index1_bound _ _ _ Hi) as [Hx Hn].
    destruct (updateCursor_go_spec text x k L ltac:(lia)) as (A & _ & _ & D).
    split; [apply set_width_live; exact A|]. split; [discriminate|]. intros _.
    unfold updateCursor. cbn [set_width after]. rewrite D.
    destruct (nth_error_split _ _ Hn) as (l1 & l2 & E & Hl). rewrite E. subst x.
    rewrite skipn_app, skipn_all, Nat.sub_diag. cbn. eexists; reflexivity.
  - injection H as <- <-. split; [exact L|]. split; [reflexivity|discriminate].
Qed.
Lemma skipTo2_spec text c d k found k' : live text k -> skipTo2 c d k = (found, k') ->
  live text k' /\
  (found = false -> k' = k) /\
  (found = true -> exists r, after k' = c :: d :: r).
Proof.
  intros L H. unfold skipTo2 in H. destruct (index2 c d (after k)) as [x|] eqn:Hi.
  - injection H as <- <-. destruct (index2_bound _ _ _ _ Hi) as (Hx & Hn & Hm).
    destruct (updateCursor_go_spec text x k L ltac:(lia)) as (A & _ & _ & D).
    split; [apply set_width_live; exact A|]. split; [discriminate|]. intros _.
    unfold updateCursor. cbn [set_width after]. rewrite D.
    destruct (nth_error_split _ _ Hn) as (l1 & l2 & E & Hl). rewrite E in *. subst x.
    rewrite skipn_app, skipn_all, Nat.sub_diag. cbn [skipn app].
    rewrite nth_error_app2 in Hm by lia. replace (S (length l1) - length l1)%nat with 1%nat in Hm by lia.
    cbn in Hm. destruct l2 as [|z l2']; [discriminate|]. injection Hm as ->. eexists; reflexivity.
  - injection H as <- <-. split; [exact L|]. split; [reflexivity|discriminate].
Qed.
