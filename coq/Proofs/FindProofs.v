(* C17 — lemmas about Schema.Find / find_steps / update_at (model of Entry.Find, entry.go).
   Positions are (module name, steps); everything is stated by path, no fuel, no size bound.
     split_join_abs, split_join_rel   strings.Split undoes the spelling of a path
     find_steps_down / _up / _bad     the per-component loop follows a spelled path, climbs with "..", stops at a
                                      component that names no child
     locate_update_at_*               what update_at (the in-place creation of rpc input/output) moves
     Find_abs, Find_abs_plain, Find_rel, Find_*_bad_step, Find_abs_lazy_*, lazy_*_frame   the C17 theorems
     wf_*_sound, wf_entry_path_ok     the boolean tree check implies the per-path hypotheses *)
From Coq Require Import List NArith Bool Arith Lia.
From GY Require Import Model.Schema Spec.C17.
Import ListNotations.
Local Open Scope N_scope.

(* ------------------------------------------------------------------ strings *)
Lemma str_eqb_refl a : str_eqb a a = true.
Proof. induction a as [|x a IH]; simpl; [reflexivity|]. now rewrite N.eqb_refl, IH. Qed.

Lemma str_eqb_eq a b : str_eqb a b = true <-> a = b.
Proof.
  split; [|intros ->; apply str_eqb_refl].
  revert b; induction a as [|x a IH]; intros [|y b]; simpl; try discriminate; [reflexivity|].
  intros H. apply andb_true_iff in H as [H1 H2]. apply N.eqb_eq in H1. subst. f_equal. now apply IH.
Qed.

Lemma str_eqb_neq a b : a <> b -> str_eqb a b = false.
Proof. intros H. destruct (str_eqb a b) eqn:E; [|reflexivity]. apply str_eqb_eq in E. contradiction. Qed.

Lemma str_eqb_false a b : str_eqb a b = false -> a <> b.
Proof. intros H ->. now rewrite str_eqb_refl in H. Qed.

Lemma split_on_noslash sep a : ~ In sep a -> forall cur rest,
  split_on sep cur (a ++ rest) = split_on sep (rev a ++ cur) rest.
Proof.
  induction a as [|x a IH]; intros Hn cur rest; [reflexivity|].
  simpl. destruct (N.eqb_spec x sep) as [->|Hne]; [exfalso; apply Hn; now left|].
  rewrite IH by (intros H; apply Hn; now right). now rewrite <- app_assoc.
Qed.

Definition noslash (p : str) : Prop := ~ In cSLASH p.

Lemma split_join_abs parts : Forall noslash parts -> forall cur,
  split_on cSLASH cur (join_abs parts) = rev cur :: parts.
Proof.
  induction 1 as [|p ps Hp Hps IH]; intros cur; [reflexivity|].
  unfold join_abs. cbn [map concat]. change (concat (map (fun p0 => cSLASH :: p0) ps)) with (join_abs ps).
  cbn [app split_on]. rewrite N.eqb_refl. f_equal.
  rewrite split_on_noslash by exact Hp. rewrite IH, app_nil_r, rev_involutive. reflexivity.
Qed.

Lemma split_join_rel p ps : noslash p -> Forall noslash ps ->
  split_on cSLASH [] (join_rel (p :: ps)) = p :: ps.
Proof.
  intros Hp Hps. cbn [join_rel]. rewrite split_on_noslash by exact Hp.
  rewrite split_join_abs by exact Hps. now rewrite app_nil_r, rev_involutive.
Qed.

Lemma join_abs_app a b : join_abs (a ++ b) = join_abs a ++ join_abs b.
Proof. unfold join_abs. now rewrite map_app, concat_app. Qed.

Lemma getPrefix_go_colon pfx : ~ In cCOLON pfx -> forall cur n,
  getPrefix_go cur (pfx ++ cCOLON :: n) = (rev cur ++ pfx, n).
Proof.
  induction pfx as [|x pfx IH]; intros Hn cur n.
  - cbn [app getPrefix_go]. rewrite N.eqb_refl. now rewrite app_nil_r.
  - cbn [app getPrefix_go]. destruct (N.eqb_spec x cCOLON) as [->|Hne]; [exfalso; apply Hn; now left|].
    rewrite IH by (intros H; apply Hn; now right). cbn [rev]. now rewrite <- app_assoc.
Qed.

Lemma getPrefix_go_nocolon s : ~ In cCOLON s -> forall cur, getPrefix_go cur s = ([], rev cur ++ s).
Proof.
  induction s as [|x s IH]; intros Hn cur.
  - cbn. now rewrite app_nil_r.
  - cbn [getPrefix_go]. destruct (N.eqb_spec x cCOLON) as [->|Hne]; [exfalso; apply Hn; now left|].
    rewrite IH by (intros H; apply Hn; now right). cbn [rev]. now rewrite <- app_assoc.
Qed.

Lemma getPrefix_prefixed pfx n : ~ In cCOLON pfx -> getPrefix (pfx ++ cCOLON :: n) = (pfx, n).
Proof. intros H. unfold getPrefix. now rewrite getPrefix_go_colon. Qed.

Lemma getPrefix_plain n : ~ In cCOLON n -> getPrefix n = ([], n).
Proof. intros H. unfold getPrefix. now rewrite getPrefix_go_nocolon. Qed.

(* ------------------------------------------------------------------ entries *)
Lemma e_dir_set_dir e d : e_dir (set_dir e d) = d. Proof. now destruct e. Qed.
Lemma e_rpc_set_dir e d : e_rpc (set_dir e d) = e_rpc e. Proof. now destruct e. Qed.
Lemma e_dir_set_rpc e r : e_dir (set_rpc e r) = e_dir e. Proof. now destruct e. Qed.
Lemma e_rpc_set_rpc e r : e_rpc (set_rpc e r) = r. Proof. now destruct e. Qed.
Lemma label_set_dir e d : label (set_dir e d) = label e. Proof. now destruct e. Qed.
Lemma label_set_rpc e r : label (set_rpc e r) = label e. Proof. now destruct e. Qed.

Lemma locate_app e a : forall b, locate e (a ++ b) = match locate e a with Some x => locate x b | None => None end.
Proof.
  revert e; induction a as [|s a IH]; intros e b; [reflexivity|].
  destruct s; cbn [app locate].
  - destruct (e_dir e) as [d|]; [|reflexivity]. destruct (lookup n d); [apply IH|reflexivity].
  - destruct (e_rpc e) as [[[i|] o]|]; try reflexivity. apply IH.
  - destruct (e_rpc e) as [[i [o|]]|]; try reflexivity. apply IH.
Qed.

Lemma lookup_update_same {A} k (v : A) d : lookup k d <> None -> lookup k (update k v d) = Some v.
Proof.
  induction d as [|[k1 v1] d IH]; cbn; [congruence|].
  destruct (str_eqb k k1) eqn:E; cbn; rewrite E; [reflexivity|]. exact IH.
Qed.

Lemma lookup_update_other {A} k k' (v : A) d : str_eqb k k' = false -> lookup k (update k' v d) = lookup k d.
Proof.
  intros Hne. induction d as [|[k1 v1] d IH]; cbn; [reflexivity|].
  destruct (str_eqb k' k1) eqn:E; cbn.
  - apply str_eqb_eq in E. subst k1. now rewrite Hne.
  - destruct (str_eqb k k1); [reflexivity|exact IH].
Qed.
(* ------------------------------------------------------------------ find_steps *)
Lemma find_steps_none F rest : find_steps F None rest = (None, F).
Proof. destruct rest; reflexivity. Qed.

(* a path component that spells step [s] *)
Definition part_for (part : str) (s : step) : Prop :=
  str_eqb part s_dot = false /\ str_eqb part s_dotdot = false /\ snd (getPrefix part) = step_name s.

Lemma good_name_facts n : good_name n ->
  str_eqb n s_dot = false /\ str_eqb n s_dotdot = false /\ is_nil n = false /\ noslash n /\ ~ In cCOLON n.
Proof.
  intros (H1 & H2 & H3 & H4 & H5). repeat split; try (now apply str_eqb_neq); try assumption.
  destruct n; [congruence|reflexivity].
Qed.

Lemma find_steps_down F mn root : lookup mn F = Some root ->
  forall steps pre e parts rest x,
  locate root pre = Some e -> locate e steps = Some x -> path_ok e steps ->
  Forall2 part_for parts steps ->
  find_steps F (Some (mn, pre)) (parts ++ rest) = find_steps F (Some (mn, pre ++ steps)) rest.
Proof.
  intros Hroot. induction steps as [|s steps IH]; intros pre e parts rest x Hpre Hloc Hok Hparts.
  - inversion Hparts; subst. now rewrite app_nil_r.
  - inversion Hparts as [|part s' parts' steps' (Hd & Hdd & Hnm) Hrest]; subst.
    cbn [app find_steps]. rewrite Hd, Hdd. unfold locate_pos. cbn [fst snd]. rewrite Hroot, Hpre, Hnm.
    assert (Happ : forall s0, (pre ++ [s0]) ++ steps = pre ++ s0 :: steps) by (intros; now rewrite <- app_assoc).
    destruct s as [n| |]; cbn [step_name]; cbn [locate] in Hloc; cbn [path_ok] in Hok.
    + destruct Hok as (Hrpc & Hgood & Hok). rewrite Hrpc.
      destruct (good_name_facts _ Hgood) as (G1 & G2 & G3 & _).
      rewrite G1, G2. unfold is_nil in G3. rewrite G3. cbn [orb].
      destruct (e_dir e) as [d|] eqn:Ed; [|discriminate]. destruct (lookup n d) as [c|] eqn:El; [|discriminate].
      rewrite <- Happ. eapply IH; eauto. rewrite locate_app, Hpre. cbn [locate]. now rewrite Ed, El.
    + destruct (e_rpc e) as [[[i|] o]|] eqn:Er; try discriminate.
      change (str_eqb s_input s_input) with true. cbn iota.
      rewrite <- Happ. eapply IH; eauto. rewrite locate_app, Hpre. cbn [locate]. now rewrite Er.
    + destruct (e_rpc e) as [[i [o|]]|] eqn:Er; try discriminate.
      change (str_eqb s_output s_input) with false. change (str_eqb s_output s_output) with true. cbn iota.
      rewrite <- Happ. eapply IH; eauto. rewrite locate_app, Hpre. cbn [locate]. now rewrite Er.
Qed.

(* ".." k times *)
Lemma find_steps_up F mn c : forall a rest,
  find_steps F (Some (mn, c ++ a)) (repeat s_dotdot (length a) ++ rest) = find_steps F (Some (mn, c)) rest.
Proof.
  intros a. induction a as [|s a IH] using rev_ind; intros rest.
  - now rewrite app_nil_r.
  - rewrite app_length, Nat.add_1_r. cbn [repeat app find_steps].
    change (str_eqb s_dotdot s_dot) with false. change (str_eqb s_dotdot s_dotdot) with true. cbn iota.
    rewrite app_assoc, rev_unit, rev_involutive. apply IH.
Qed.

(* a step that names no child ends the lookup *)
Lemma find_steps_bad F mn root pre e part rest : lookup mn F = Some root -> locate root pre = Some e ->
  str_eqb part s_dot = false -> str_eqb part s_dotdot = false -> no_child e (snd (getPrefix part)) ->
  find_steps F (Some (mn, pre)) (part :: rest) = (None, F).
Proof.
  intros Hroot Hpre Hd Hdd Hno. cbn [find_steps]. rewrite Hd, Hdd. unfold locate_pos. cbn [fst snd].
  rewrite Hroot, Hpre. unfold no_child in Hno. destruct (e_rpc e) as [[i o]|].
  - destruct Hno as [H1 H2]. now rewrite (str_eqb_neq _ _ H1), (str_eqb_neq _ _ H2).
  - destruct Hno as [H1 H2]. rewrite (str_eqb_neq _ _ H1).
    destruct (_ || _); [reflexivity|]. unfold dir_lookup in H2.
    destruct (e_dir e) as [d|]; [rewrite H2|]; apply find_steps_none.
Qed.

(* a position that does not exist ends the lookup *)
Lemma find_steps_missing F mn pre part rest : locate_pos F (mn, pre) = None ->
  str_eqb part s_dot = false -> str_eqb part s_dotdot = false ->
  find_steps F (Some (mn, pre)) (part :: rest) = (None, F).
Proof. intros H Hd Hdd. cbn [find_steps]. now rewrite Hd, Hdd, H. Qed.

(* rpc/action without input: "input" creates it *)
Definition add_input (o : option entry) (x : entry) : entry := set_rpc x (Some (Some (empty_io true), o)).
Definition add_output (i : option entry) (x : entry) : entry := set_rpc x (Some (i, Some (empty_io false))).

Lemma find_steps_lazy_in F mn pre e o part rest : locate_pos F (mn, pre) = Some e -> e_rpc e = Some (None, o) ->
  str_eqb part s_dot = false -> str_eqb part s_dotdot = false -> snd (getPrefix part) = s_input ->
  find_steps F (Some (mn, pre)) (part :: rest) =
  find_steps (update_pos F (mn, pre) (add_input o)) (Some (mn, pre ++ [SIn])) rest.
Proof.
  intros Hl Hr Hd Hdd Hn. cbn [find_steps]. rewrite Hd, Hdd, Hl, Hr, Hn.
  change (str_eqb s_input s_input) with true. reflexivity.
Qed.

Lemma find_steps_lazy_out F mn pre e i part rest : locate_pos F (mn, pre) = Some e -> e_rpc e = Some (i, None) ->
  str_eqb part s_dot = false -> str_eqb part s_dotdot = false -> snd (getPrefix part) = s_output ->
  find_steps F (Some (mn, pre)) (part :: rest) =
  find_steps (update_pos F (mn, pre) (add_output i)) (Some (mn, pre ++ [SOut])) rest.
Proof.
  intros Hl Hr Hd Hdd Hn. cbn [find_steps]. rewrite Hd, Hdd, Hl, Hr, Hn.
  change (str_eqb s_output s_input) with false. change (str_eqb s_output s_output) with true. reflexivity.
Qed.
(* ------------------------------------------------------------------ update_at: what moves and what stays *)
Lemma locate_update_at_below f : forall ps e r x, locate e ps = Some x ->
  locate (update_at e ps f) (ps ++ r) = locate (f x) r.
Proof.
  induction ps as [|s ps IH]; intros e r x Hl.
  - cbn in *. now inversion Hl.
  - destruct s as [n| |]; cbn [locate update_at app] in *.
    + destruct (e_dir e) as [d|] eqn:Ed; [|discriminate]. destruct (lookup n d) as [c|] eqn:El; [|discriminate].
      rewrite e_dir_set_dir, lookup_update_same by congruence. now apply IH.
    + destruct (e_rpc e) as [[[i|] o]|] eqn:Er; try discriminate. rewrite e_rpc_set_rpc. now apply IH.
    + destruct (e_rpc e) as [[i [o|]]|] eqn:Er; try discriminate. rewrite e_rpc_set_rpc. now apply IH.
Qed.

Lemma locate_update_at_prefix f : forall a b e x, locate e a = Some x ->
  locate (update_at e (a ++ b) f) a = Some (update_at x b f).
Proof.
  induction a as [|s a IH]; intros b e x Hl.
  - cbn in *. now inversion Hl.
  - destruct s as [n| |]; cbn [locate update_at app] in *.
    + destruct (e_dir e) as [d|] eqn:Ed; [|discriminate]. destruct (lookup n d) as [c|] eqn:El; [|discriminate].
      rewrite e_dir_set_dir, lookup_update_same by congruence. now apply IH.
    + destruct (e_rpc e) as [[[i|] o]|] eqn:Er; try discriminate. rewrite e_rpc_set_rpc. now apply IH.
    + destruct (e_rpc e) as [[i [o|]]|] eqn:Er; try discriminate. rewrite e_rpc_set_rpc. now apply IH.
Qed.

Lemma step_eq_dec (x y : step) : {x = y} + {x <> y}.
Proof. decide equality. apply list_eq_dec, N.eq_dec. Qed.

Lemma locate_update_at_diverge f : forall c e x y ps qs, x <> y ->
  locate (update_at e (c ++ x :: ps) f) (c ++ y :: qs) = locate e (c ++ y :: qs).
Proof.
  induction c as [|s c IH]; intros e x y ps qs Hne.
  - cbn [app]. destruct x as [n| |]; cbn [update_at].
    + destruct (e_dir e) as [d|] eqn:Ed; [|reflexivity]. destruct (lookup n d) as [c0|] eqn:El; [|reflexivity].
      destruct y as [n'| |]; cbn [locate]; rewrite ?e_dir_set_dir, ?e_rpc_set_dir, ?Ed; try reflexivity.
      rewrite lookup_update_other; [reflexivity|]. apply str_eqb_neq. congruence.
    + destruct (e_rpc e) as [[[i|] o]|] eqn:Er; try reflexivity.
      destruct y as [n'| |]; cbn [locate]; rewrite ?e_dir_set_rpc, ?e_rpc_set_rpc, ?Er; try reflexivity. congruence.
    + destruct (e_rpc e) as [[i [o|]]|] eqn:Er; try reflexivity.
      destruct y as [n'| |]; cbn [locate]; rewrite ?e_dir_set_rpc, ?e_rpc_set_rpc, ?Er; try reflexivity. congruence.
  - cbn [app]. destruct s as [n| |]; cbn [update_at locate].
    + destruct (e_dir e) as [d|] eqn:Ed; [|now rewrite Ed]. destruct (lookup n d) as [c0|] eqn:El; [|now rewrite Ed, El].
      rewrite e_dir_set_dir, lookup_update_same by congruence. now apply IH.
    + destruct (e_rpc e) as [[[i|] o]|] eqn:Er; rewrite ?Er; try reflexivity. rewrite e_rpc_set_rpc. now apply IH.
    + destruct (e_rpc e) as [[i [o|]]|] eqn:Er; rewrite ?Er; try reflexivity. rewrite e_rpc_set_rpc. now apply IH.
Qed.

Lemma label_update_at f x b : (forall y, label (f y) = label y) -> label (update_at x b f) = label x.
Proof.
  intros Hf. destruct b as [|[n| |] b]; cbn [update_at]; [apply Hf| | |].
  - destruct (e_dir x) as [d|]; [|reflexivity]. destruct (lookup n d); [apply label_set_dir|reflexivity].
  - destruct (e_rpc x) as [[[i|] o]|]; try reflexivity. apply label_set_rpc.
  - destruct (e_rpc x) as [[i [o|]]|]; try reflexivity. apply label_set_rpc.
Qed.

(* two step lists: one extends the other, or they part at some point *)
Lemma steps_trichotomy : forall (l1 l2 : list step),
  (exists b, l1 = l2 ++ b) \/ (exists s r, l2 = l1 ++ s :: r) \/
  (exists c x y r1 r2, x <> y /\ l1 = c ++ x :: r1 /\ l2 = c ++ y :: r2).
Proof.
  induction l1 as [|a l1 IH]; intros [|b l2].
  - left. now exists [].
  - right; left. now exists b, l2.
  - left. now exists (a :: l1).
  - destruct (step_eq_dec a b) as [->|Hne].
    + destruct (IH l2) as [(t & ->)|[(s & r & ->)|(c & x & y & r1 & r2 & Hxy & -> & ->)]].
      * left. now exists t.
      * right; left. now exists s, r.
      * right; right. now exists (b :: c), x, y, r1, r2.
    + right; right. now exists [], a, b, l1, l2.
Qed.

(* ------------------------------------------------------------------ the same on forests *)
Lemma locate_pos_update_pos_other_tree F mn mn' pre qs f : mn' <> mn ->
  locate_pos (update_pos F (mn, pre) f) (mn', qs) = locate_pos F (mn', qs).
Proof.
  intros Hne. unfold locate_pos, update_pos. cbn [fst snd]. destruct (lookup mn F) as [root|]; [|reflexivity].
  rewrite lookup_update_other; [reflexivity|]. now apply str_eqb_neq.
Qed.

Lemma locate_pos_update_pos_tree F mn root pre qs f : lookup mn F = Some root ->
  locate_pos (update_pos F (mn, pre) f) (mn, qs) = locate (update_at root pre f) qs.
Proof.
  intros Hr. unfold locate_pos, update_pos. cbn [fst snd]. rewrite Hr.
  rewrite lookup_update_same by congruence. reflexivity.
Qed.
(* ------------------------------------------------------------------ Find *)
Lemma noslash_input : noslash s_input. Proof. unfold noslash, s_input, cSLASH. cbn. intuition discriminate. Qed.
Lemma noslash_output : noslash s_output. Proof. unfold noslash, s_output, cSLASH. cbn. intuition discriminate. Qed.
Lemma noslash_dotdot : noslash s_dotdot. Proof. unfold noslash, s_dotdot, cSLASH, cDOT. cbn. intuition discriminate. Qed.
Lemma nocolon_input : ~ In cCOLON s_input. Proof. unfold s_input, cCOLON. cbn. intuition discriminate. Qed.
Lemma nocolon_output : ~ In cCOLON s_output. Proof. unfold s_output, cCOLON. cbn. intuition discriminate. Qed.

Definition good_step (s : step) : Prop := match s with SChild n => good_name n | _ => True end.

Lemma path_ok_good_steps : forall steps e x, locate e steps = Some x -> path_ok e steps -> Forall good_step steps.
Proof.
  induction steps as [|s steps IH]; intros e x Hl Hok; [constructor|].
  destruct s as [n| |]; cbn [locate path_ok] in *.
  - destruct Hok as (_ & Hg & Hok). destruct (e_dir e) as [d|]; [|discriminate].
    destruct (lookup n d) as [c|]; [|discriminate]. constructor; [exact Hg|eauto].
  - destruct (e_rpc e) as [[[i|] o]|]; try discriminate. constructor; [exact I|eauto].
  - destruct (e_rpc e) as [[i [o|]]|]; try discriminate. constructor; [exact I|eauto].
Qed.

Lemma good_step_noslash s : good_step s -> noslash (step_name s).
Proof.
  destruct s; cbn; intros H; [|apply noslash_input|apply noslash_output].
  now destruct (good_name_facts _ H) as (_ & _ & _ & ? & _).
Qed.

Lemma good_step_nocolon s : good_step s -> ~ In cCOLON (step_name s).
Proof.
  destruct s; cbn; intros H; [|apply nocolon_input|apply nocolon_output].
  now destruct (good_name_facts _ H) as (_ & _ & _ & _ & ?).
Qed.

Lemma has_colon_not_dots part : In cCOLON part -> str_eqb part s_dot = false /\ str_eqb part s_dotdot = false.
Proof.
  intros H. split; apply str_eqb_neq; intros ->; unfold s_dot, s_dotdot, cDOT, cCOLON in H; cbn in H;
    intuition discriminate.
Qed.

Lemma abs_part_for pfx s : ~ In cCOLON pfx -> part_for (abs_part pfx s) s.
Proof.
  intros Hp. unfold part_for, abs_part.
  destruct (has_colon_not_dots (pfx ++ cCOLON :: step_name s)) as [H1 H2].
  { apply in_or_app. right. now left. }
  repeat split; try assumption. now rewrite getPrefix_prefixed.
Qed.

Lemma abs_part_noslash pfx nm : noslash pfx -> noslash nm -> noslash (pfx ++ cCOLON :: nm).
Proof.
  intros H1 H2 H. apply in_app_or in H as [H|[H|H]]; [now apply H1|discriminate|now apply H2].
Qed.

Lemma plain_part_for s : good_step s -> part_for (step_name s) s.
Proof.
  intros Hg. unfold part_for. rewrite getPrefix_plain by now apply good_step_nocolon.
  destruct s as [n| |]; cbn in *; [|repeat split; reflexivity..].
  destruct (good_name_facts _ Hg) as (G1 & G2 & _). now repeat split.
Qed.

Section Find.
Variable SC : schema.

(* an absolute path whose first component carries a prefix that names module mn: the walk starts at mn's root *)
Lemma Find_abs_unfold F ctx start pfx mn first more :
  names_module SC ctx pfx mn -> pfx <> [] -> Forall noslash (first :: more) -> fst (getPrefix first) = pfx ->
  Find SC F ctx start (join_abs (first :: more)) = find_steps F (Some (mn, [])) (first :: more).
Proof.
  intros (md & m & Hf & Ho & Hm) Hne Hns Hp. unfold Find.
  rewrite split_join_abs by exact Hns. cbn [rev].
  unfold join_abs at 1. cbn [map concat app]. rewrite Hp.
  destruct pfx as [|c pfx']; [congruence|]. rewrite Hf, Ho, Hm. reflexivity.
Qed.

(* a relative path: the walk starts at the start node *)
Lemma Find_rel_unfold F ctx start p ps : p <> [] -> noslash p -> Forall noslash ps ->
  Find SC F ctx start (join_rel (p :: ps)) = find_steps F (Some start) (p :: ps).
Proof.
  intros Hne Hp Hps. unfold Find. rewrite split_join_rel by assumption.
  destruct p as [|c p']; [congruence|]. reflexivity.
Qed.

(* T1 *)
Theorem Find_abs F ctx pfx mn steps e :
  names_module SC ctx pfx mn -> good_prefix pfx -> steps <> [] ->
  locate_pos F (mn, steps) = Some e -> path_ok_pos F (mn, steps) ->
  forall start, Find SC F ctx start (abs_path pfx steps) = (Some (mn, steps), F).
Proof.
  intros Hnm (Hp1 & Hp2 & Hp3) Hne Hl Hok start.
  unfold locate_pos, path_ok_pos in *. cbn [fst snd] in *.
  destruct (lookup mn F) as [root|] eqn:Hroot; [|discriminate].
  pose proof (path_ok_good_steps _ _ _ Hl Hok) as Hgs.
  destruct steps as [|s steps]; [congruence|]. unfold abs_path. cbn [map].
  rewrite (Find_abs_unfold F ctx start pfx mn); try assumption.
  - change (abs_part pfx s :: map (abs_part pfx) steps) with (map (abs_part pfx) (s :: steps)).
    rewrite <- (app_nil_r (map _ _)).
    erewrite (find_steps_down F mn root Hroot (s :: steps) [] root); eauto.
    clear -Hp3. induction (s :: steps); constructor; [now apply abs_part_for|assumption].
  - change (Forall noslash (map (abs_part pfx) (s :: steps))). apply Forall_map.
    eapply Forall_impl; [|exact Hgs]. intros a Ha. apply abs_part_noslash; [exact Hp2|now apply good_step_noslash].
  - unfold abs_part. now rewrite getPrefix_prefixed.
Qed.

(* T2 *)
Theorem Find_rel F ctx mn root c a b ec x :
  lookup mn F = Some root -> locate root c = Some ec -> locate ec b = Some x -> path_ok ec b ->
  Find SC F ctx (mn, c ++ a) (rel_path a b) = (Some (mn, c ++ b), F).
Proof.
  intros Hroot Hc Hb Hok. pose proof (path_ok_good_steps _ _ _ Hb Hok) as Hgs.
  assert (Hdown : forall rest, find_steps F (Some (mn, c ++ a)) (rel_parts a b ++ rest)
                               = find_steps F (Some (mn, c ++ b)) rest).
  { intros rest. unfold rel_parts. rewrite <- app_assoc, find_steps_up.
    eapply find_steps_down; eauto. clear -Hgs. induction Hgs; constructor; [now apply plain_part_for|assumption]. }
  assert (Hns : Forall noslash (rel_parts a b)).
  { unfold rel_parts. apply Forall_app. split.
    - apply Forall_forall. intros y Hy. apply repeat_spec in Hy. subst. apply noslash_dotdot.
    - apply Forall_map. eapply Forall_impl; [|exact Hgs]. intros s. apply good_step_noslash. }
  unfold rel_path. destruct (rel_parts a b) as [|p ps] eqn:Erp.
  - (* the node itself: "." *)
    specialize (Hdown []). cbn [app find_steps] in Hdown.
    unfold Find. cbn. exact Hdown.
  - rewrite Find_rel_unfold.
    + specialize (Hdown []). now rewrite app_nil_r in Hdown.
    + unfold rel_parts in Erp. destruct a as [|sa a]; cbn in Erp.
      * destruct b as [|sb b]; [discriminate|]. cbn in Erp. inversion Erp; subst.
        inversion Hgs as [|? ? Hsb _]; subst. destruct sb as [n| |]; cbn in *; try discriminate.
        now destruct Hsb as (? & _).
      * inversion Erp; subst. discriminate.
    + now inversion Hns.
    + now inversion Hns.
Qed.

(* T3, absolute: the step after [pre] names no child *)
Theorem Find_abs_bad_step F ctx pfx mn pre e nm rest :
  names_module SC ctx pfx mn -> good_prefix pfx ->
  locate_pos F (mn, pre) = Some e -> path_ok_pos F (mn, pre) ->
  noslash nm -> no_child e nm -> Forall noslash rest ->
  forall start, Find SC F ctx start (join_abs (map (abs_part pfx) pre ++ (pfx ++ cCOLON :: nm) :: rest)) = (None, F).
Proof.
  intros Hnm (Hp1 & Hp2 & Hp3) Hl Hok Hnms Hno Hrest start.
  unfold locate_pos, path_ok_pos in *. cbn [fst snd] in *.
  destruct (lookup mn F) as [root|] eqn:Hroot; [|discriminate].
  pose proof (path_ok_good_steps _ _ _ Hl Hok) as Hgs.
  assert (Hall : Forall noslash (map (abs_part pfx) pre ++ (pfx ++ cCOLON :: nm) :: rest)).
  { apply Forall_app. split.
    - apply Forall_map. eapply Forall_impl; [|exact Hgs]. intros a Ha.
      apply abs_part_noslash; [exact Hp2|now apply good_step_noslash].
    - constructor; [now apply abs_part_noslash|exact Hrest]. }
  assert (Hwalk : find_steps F (Some (mn, [])) (map (abs_part pfx) pre ++ (pfx ++ cCOLON :: nm) :: rest) = (None, F)).
  { erewrite (find_steps_down F mn root Hroot pre [] root); eauto.
    - cbn [app]. destruct (has_colon_not_dots (pfx ++ cCOLON :: nm)) as [H1 H2].
      { apply in_or_app. right. now left. }
      eapply find_steps_bad; eauto. now rewrite getPrefix_prefixed.
    - clear -Hp3. induction pre; constructor; [now apply abs_part_for|assumption]. }
  destruct (map (abs_part pfx) pre ++ (pfx ++ cCOLON :: nm) :: rest) as [|first more] eqn:E.
  { destruct (map (abs_part pfx) pre); discriminate. }
  rewrite (Find_abs_unfold F ctx start pfx mn); try assumption.
  destruct pre as [|s pre]; cbn in E; inversion E; subst; [|unfold abs_part]; now rewrite getPrefix_prefixed.
Qed.

(* T3, relative: from [c ++ a], up to [c], down [b], then a step that names no child *)
Theorem Find_rel_bad_step F ctx mn root c a b ec x part rest :
  lookup mn F = Some root -> locate root c = Some ec -> locate ec b = Some x -> path_ok ec b ->
  noslash part -> part <> [] -> str_eqb part s_dot = false -> str_eqb part s_dotdot = false ->
  no_child x (snd (getPrefix part)) -> Forall noslash rest ->
  Find SC F ctx (mn, c ++ a) (join_rel (rel_parts a b ++ part :: rest)) = (None, F).
Proof.
  intros Hroot Hc Hb Hok Hns Hne Hd Hdd Hno Hrest.
  pose proof (path_ok_good_steps _ _ _ Hb Hok) as Hgs.
  assert (Hwalk : find_steps F (Some (mn, c ++ a)) (rel_parts a b ++ part :: rest) = (None, F)).
  { unfold rel_parts. rewrite <- app_assoc, find_steps_up.
    erewrite find_steps_down; eauto.
    - eapply find_steps_bad; eauto. now rewrite locate_app, Hc.
    - clear -Hgs. induction Hgs; constructor; [now apply plain_part_for|assumption]. }
  assert (Hall : Forall noslash (rel_parts a b ++ part :: rest)).
  { apply Forall_app. split; [|now constructor]. unfold rel_parts. apply Forall_app. split.
    - apply Forall_forall. intros y Hy. apply repeat_spec in Hy. subst. apply noslash_dotdot.
    - apply Forall_map. eapply Forall_impl; [|exact Hgs]. intros s. apply good_step_noslash. }
  destruct (rel_parts a b ++ part :: rest) as [|p ps] eqn:E.
  { destruct (rel_parts a b); discriminate. }
  rewrite Find_rel_unfold; [exact Hwalk| |now inversion Hall|now inversion Hall].
  unfold rel_parts in E. destruct a as [|sa a]; cbn in E.
  - destruct b as [|sb b]; cbn in E; inversion E; subst; [exact Hne|].
    inversion Hgs as [|? ? Hsb _]; subst. destruct sb as [n| |]; cbn in *; try discriminate.
    now destruct Hsb as (? & _).
  - inversion E; subst. discriminate.
Qed.

End Find.
(* ------------------------------------------------------------------ T4: input/output created on demand *)
Section Lazy.
Variable SC : schema.

Lemma label_add_input o y : label (add_input o y) = label y. Proof. apply label_set_rpc. Qed.
Lemma label_add_output i y : label (add_output i y) = label y. Proof. apply label_set_rpc. Qed.

(* looking up ".../input" on an rpc/action node without input returns the position of a fresh, empty input *)
Theorem Find_abs_lazy_input F ctx pfx mn pre e o :
  names_module SC ctx pfx mn -> good_prefix pfx ->
  locate_pos F (mn, pre) = Some e -> path_ok_pos F (mn, pre) -> e_rpc e = Some (None, o) ->
  forall start, Find SC F ctx start (abs_path pfx (pre ++ [SIn]))
                = (Some (mn, pre ++ [SIn]), update_pos F (mn, pre) (add_input o)).
Proof.
  intros Hnm (Hp1 & Hp2 & Hp3) Hl Hok Hr start. pose proof Hl as Hl0.
  unfold locate_pos, path_ok_pos in Hl, Hok. cbn [fst snd] in *.
  destruct (lookup mn F) as [root|] eqn:Hroot; [|discriminate].
  pose proof (path_ok_good_steps _ _ _ Hl Hok) as Hgs.
  unfold abs_path. rewrite map_app. cbn [map].
  assert (Hall : Forall noslash (map (abs_part pfx) pre ++ [abs_part pfx SIn])).
  { apply Forall_app. split.
    - apply Forall_map. eapply Forall_impl; [|exact Hgs]. intros a Ha.
      apply abs_part_noslash; [exact Hp2|now apply good_step_noslash].
    - constructor; [|constructor]. apply abs_part_noslash; [exact Hp2|apply noslash_input]. }
  assert (Hwalk : find_steps F (Some (mn, [])) (map (abs_part pfx) pre ++ [abs_part pfx SIn])
                  = (Some (mn, pre ++ [SIn]), update_pos F (mn, pre) (add_input o))).
  { erewrite (find_steps_down F mn root Hroot pre [] root); eauto.
    - cbn [app]. destruct (abs_part_for pfx SIn Hp3) as (H1 & H2 & H3).
      rewrite (find_steps_lazy_in F mn pre e o _ [] Hl0 Hr H1 H2 H3). reflexivity.
    - clear -Hp3. induction pre; constructor; [now apply abs_part_for|assumption]. }
  destruct (map (abs_part pfx) pre ++ [abs_part pfx SIn]) as [|first more] eqn:E.
  { destruct (map (abs_part pfx) pre); discriminate. }
  rewrite (Find_abs_unfold SC F ctx start pfx mn); try assumption.
  destruct pre as [|s pre]; cbn in E; inversion E; subst; unfold abs_part; now rewrite getPrefix_prefixed.
Qed.

Theorem Find_abs_lazy_output F ctx pfx mn pre e i :
  names_module SC ctx pfx mn -> good_prefix pfx ->
  locate_pos F (mn, pre) = Some e -> path_ok_pos F (mn, pre) -> e_rpc e = Some (i, None) ->
  forall start, Find SC F ctx start (abs_path pfx (pre ++ [SOut]))
                = (Some (mn, pre ++ [SOut]), update_pos F (mn, pre) (add_output i)).
Proof.
  intros Hnm (Hp1 & Hp2 & Hp3) Hl Hok Hr start. pose proof Hl as Hl0.
  unfold locate_pos, path_ok_pos in Hl, Hok. cbn [fst snd] in *.
  destruct (lookup mn F) as [root|] eqn:Hroot; [|discriminate].
  pose proof (path_ok_good_steps _ _ _ Hl Hok) as Hgs.
  unfold abs_path. rewrite map_app. cbn [map].
  assert (Hall : Forall noslash (map (abs_part pfx) pre ++ [abs_part pfx SOut])).
  { apply Forall_app. split.
    - apply Forall_map. eapply Forall_impl; [|exact Hgs]. intros a Ha.
      apply abs_part_noslash; [exact Hp2|now apply good_step_noslash].
    - constructor; [|constructor]. apply abs_part_noslash; [exact Hp2|apply noslash_output]. }
  assert (Hwalk : find_steps F (Some (mn, [])) (map (abs_part pfx) pre ++ [abs_part pfx SOut])
                  = (Some (mn, pre ++ [SOut]), update_pos F (mn, pre) (add_output i))).
  { erewrite (find_steps_down F mn root Hroot pre [] root); eauto.
    - cbn [app]. destruct (abs_part_for pfx SOut Hp3) as (H1 & H2 & H3).
      rewrite (find_steps_lazy_out F mn pre e i _ [] Hl0 Hr H1 H2 H3). reflexivity.
    - clear -Hp3. induction pre; constructor; [now apply abs_part_for|assumption]. }
  destruct (map (abs_part pfx) pre ++ [abs_part pfx SOut]) as [|first more] eqn:E.
  { destruct (map (abs_part pfx) pre); discriminate. }
  rewrite (Find_abs_unfold SC F ctx start pfx mn); try assumption.
  destruct pre as [|s pre]; cbn in E; inversion E; subst; unfold abs_part; now rewrite getPrefix_prefixed.
Qed.

End Lazy.

(* what the creation changes: with F' = update_pos F (mn, pre) f, f = add_input o or add_output i *)
Section Frame.
Variables (F : forest) (mn : str) (pre : list step) (e : entry) (f : entry -> entry).
Hypothesis Hl : locate_pos F (mn, pre) = Some e.
Let F' := update_pos F (mn, pre) f.

(* at and below the node: the subtree of [f e] *)
Lemma frame_below r : locate_pos F' (mn, pre ++ r) = locate (f e) r.
Proof.
  unfold locate_pos in Hl. cbn [fst snd] in Hl. destruct (lookup mn F) as [root|] eqn:Hroot; [|discriminate].
  unfold F'. rewrite (locate_pos_update_pos_tree _ _ root) by assumption. now apply locate_update_at_below.
Qed.

(* every node keeps its own attributes, provided f keeps them: compare everywhere except below the step [s0]
   that f adds at the node *)
Lemma frame_label s0 : (forall y, label (f y) = label y) ->
  (forall s r, s <> s0 -> locate (f e) (s :: r) = locate e (s :: r)) ->
  forall q, ~ below (mn, pre ++ [s0]) q -> option_map label (locate_pos F' q) = option_map label (locate_pos F q).
Proof.
  intros Hlab Hsame [mn' qs] Hnb.
  pose proof Hl as Hl0. unfold locate_pos in Hl0. cbn [fst snd] in Hl0.
  destruct (lookup mn F) as [root|] eqn:Hroot; [|discriminate].
  destruct (list_eq_dec N.eq_dec mn' mn) as [->|Hmn].
  2:{ unfold F'. now rewrite locate_pos_update_pos_other_tree. }
  unfold F'. rewrite (locate_pos_update_pos_tree _ _ root) by assumption.
  unfold locate_pos. cbn [fst snd]. rewrite Hroot.
  destruct (steps_trichotomy pre qs) as [(b & ->)|[(s & r & ->)|(c & x & y & r1 & r2 & Hxy & -> & ->)]].
  - (* qs is on the way to the node *)
    rewrite locate_app in Hl0. destruct (locate root qs) as [xq|] eqn:Eq; [|discriminate].
    rewrite (locate_update_at_prefix f qs b root xq Eq). cbn [option_map]. f_equal. now apply label_update_at.
  - (* qs is below the node *)
    rewrite (locate_update_at_below f pre root (s :: r) e Hl0).
    rewrite locate_app, Hl0. f_equal. apply Hsame. intros ->. apply Hnb. split; [reflexivity|].
    cbn [fst snd]. exists r. now rewrite <- app_assoc.
  - now rewrite locate_update_at_diverge.
Qed.

(* positions that are neither on the way to the node nor below it see the same entry *)
Lemma frame_elsewhere q : ~ below q (mn, pre) -> ~ below (mn, pre) q -> locate_pos F' q = locate_pos F q.
Proof.
  intros Hn1 Hn2. destruct q as [mn' qs].
  pose proof Hl as Hl0. unfold locate_pos in Hl0. cbn [fst snd] in Hl0.
  destruct (lookup mn F) as [root|] eqn:Hroot; [|discriminate].
  destruct (list_eq_dec N.eq_dec mn' mn) as [->|Hmn].
  2:{ unfold F'. now rewrite locate_pos_update_pos_other_tree. }
  unfold F'. rewrite (locate_pos_update_pos_tree _ _ root) by assumption.
  unfold locate_pos. cbn [fst snd]. rewrite Hroot.
  destruct (steps_trichotomy pre qs) as [(b & ->)|[(s & r & ->)|(c & x & y & r1 & r2 & Hxy & -> & ->)]].
  - exfalso. apply Hn1. split; [reflexivity|]. now exists b.
  - exfalso. apply Hn2. split; [reflexivity|]. now exists (s :: r).
  - now rewrite locate_update_at_diverge.
Qed.
End Frame.

Lemma add_input_same o e s r : e_rpc e = Some (None, o) -> s <> SIn -> locate (add_input o e) (s :: r) = locate e (s :: r).
Proof.
  intros Hr Hs. unfold add_input. destruct s; cbn [locate]; rewrite ?e_dir_set_rpc, ?e_rpc_set_rpc, ?Hr; congruence.
Qed.
Lemma add_output_same i e s r : e_rpc e = Some (i, None) -> s <> SOut -> locate (add_output i e) (s :: r) = locate e (s :: r).
Proof.
  intros Hr Hs. unfold add_output. destruct s; cbn [locate]; rewrite ?e_dir_set_rpc, ?e_rpc_set_rpc, ?Hr; congruence.
Qed.

(* T4, frame, input: the new node is an empty input; nothing else appears or changes its attributes; every
   position off the path to the rpc sees exactly the entry it saw before *)
Theorem lazy_input_frame F mn pre e o : locate_pos F (mn, pre) = Some e -> e_rpc e = Some (None, o) ->
  let F' := update_pos F (mn, pre) (add_input o) in
  (forall r, locate_pos F' (mn, pre ++ SIn :: r) = locate (empty_io true) r) /\
  locate_pos F' (mn, pre) = Some (add_input o e) /\
  (forall q, ~ below (mn, pre ++ [SIn]) q -> option_map label (locate_pos F' q) = option_map label (locate_pos F q)) /\
  (forall q, ~ below q (mn, pre) -> ~ below (mn, pre) q -> locate_pos F' q = locate_pos F q) /\
  (forall s r, s <> SIn -> locate_pos F' (mn, pre ++ s :: r) = locate_pos F (mn, pre ++ s :: r)).
Proof.
  intros Hl Hr F'. repeat split.
  - intros r. unfold F'. rewrite (frame_below F mn pre e _ Hl). unfold add_input. cbn [locate]. now rewrite e_rpc_set_rpc.
  - rewrite <- (app_nil_r pre) at 1. unfold F'. now rewrite (frame_below F mn pre e _ Hl).
  - apply (frame_label F mn pre e _ Hl SIn); [apply label_add_input|]. intros. now apply add_input_same.
  - apply (frame_elsewhere F mn pre e _ Hl).
  - intros s r Hs. unfold F'. rewrite (frame_below F mn pre e _ Hl), add_input_same by assumption.
    unfold locate_pos in *. cbn [fst snd] in *. destruct (lookup mn F); [|discriminate]. now rewrite locate_app, Hl.
Qed.

Theorem lazy_output_frame F mn pre e i : locate_pos F (mn, pre) = Some e -> e_rpc e = Some (i, None) ->
  let F' := update_pos F (mn, pre) (add_output i) in
  (forall r, locate_pos F' (mn, pre ++ SOut :: r) = locate (empty_io false) r) /\
  locate_pos F' (mn, pre) = Some (add_output i e) /\
  (forall q, ~ below (mn, pre ++ [SOut]) q -> option_map label (locate_pos F' q) = option_map label (locate_pos F q)) /\
  (forall q, ~ below q (mn, pre) -> ~ below (mn, pre) q -> locate_pos F' q = locate_pos F q) /\
  (forall s r, s <> SOut -> locate_pos F' (mn, pre ++ s :: r) = locate_pos F (mn, pre ++ s :: r)).
Proof.
  intros Hl Hr F'. repeat split.
  - intros r. unfold F'. rewrite (frame_below F mn pre e _ Hl). unfold add_output. cbn [locate]. now rewrite e_rpc_set_rpc.
  - rewrite <- (app_nil_r pre) at 1. unfold F'. now rewrite (frame_below F mn pre e _ Hl).
  - apply (frame_label F mn pre e _ Hl SOut); [apply label_add_output|]. intros. now apply add_output_same.
  - apply (frame_elsewhere F mn pre e _ Hl).
  - intros s r Hs. unfold F'. rewrite (frame_below F mn pre e _ Hl), add_output_same by assumption.
    unfold locate_pos in *. cbn [fst snd] in *. destruct (lookup mn F); [|discriminate]. now rewrite locate_app, Hl.
Qed.
(* ------------------------------------------------------------------ naming a module by prefix *)
Section Names.
Variable SC : schema.

Lemma FindModuleByPrefix_imports ctx pfx : pfx <> [] -> str_eqb pfx (m_prefix ctx) = false ->
  FindModuleByPrefix SC ctx pfx =
  match import_of pfx (m_imports ctx) with Some mn => find_module SC mn | None => None end.
Proof.
  intros Hne Hp. unfold FindModuleByPrefix. rewrite Hp. destruct pfx; [congruence|]. cbn [orb].
  induction (m_imports ctx) as [|[p mn] r IH]; [reflexivity|]. cbn [import_of].
  destruct (str_eqb _ p); [reflexivity|exact IH].
Qed.

(* a module or submodule names its owner by its own prefix (belongs-to prefix for a submodule) *)
Lemma names_own ctx m : owner SC ctx = Some m -> names_module SC ctx (m_prefix ctx) (m_name m).
Proof.
  intros Ho. exists ctx, m. repeat split; [|exact Ho]. unfold FindModuleByPrefix.
  now rewrite str_eqb_refl, orb_true_r.
Qed.

(* ... and an imported module (or, through a submodule it names, that submodule's owner) by the import's prefix *)
Lemma names_import ctx pfx imn md m : pfx <> [] -> pfx <> m_prefix ctx ->
  import_of pfx (m_imports ctx) = Some imn -> find_module SC imn = Some md -> owner SC md = Some m ->
  names_module SC ctx pfx (m_name m).
Proof.
  intros Hne Hp Hi Hf Ho. exists md, m. repeat split; [|exact Ho].
  rewrite FindModuleByPrefix_imports by (try assumption; now apply str_eqb_neq). now rewrite Hi.
Qed.
End Names.

(* ------------------------------------------------------------------ whole-tree well-formedness *)
Lemma lookup_In {A} n (d : list (str * A)) c : lookup n d = Some c -> In (n, c) d.
Proof.
  induction d as [|[k v] d IH]; cbn; [discriminate|]. destruct (str_eqb n k) eqn:E.
  - intros H. inversion H; subst. apply str_eqb_eq in E. subst. now left.
  - intros H. right. now apply IH.
Qed.

Lemma existsb_eqb_false c n : existsb (N.eqb c) n = false -> ~ In c n.
Proof.
  intros H Hin. assert (existsb (N.eqb c) n = true); [|congruence].
  apply existsb_exists. exists c. split; [exact Hin|apply N.eqb_refl].
Qed.

Lemma good_nameb_sound n : good_nameb n = true -> good_name n.
Proof.
  unfold good_nameb. intros H. repeat (apply andb_true_iff in H as [H ?]).
  repeat match goal with Hx : negb _ = true |- _ => apply negb_true_iff in Hx end.
  repeat split.
  - now destruct n.
  - now apply existsb_eqb_false.
  - now apply existsb_eqb_false.
  - now apply str_eqb_false.
  - now apply str_eqb_false.
Qed.

Lemma node_okb_sound x : node_okb x = true -> node_ok x.
Proof.
  unfold node_okb, node_ok. destruct (e_dir x) as [d|]; [|intros _; split; intros; discriminate].
  intros H. apply andb_true_iff in H as [H1 H2]. split.
  - intros d' n c Hd Hl. inversion Hd; subst d'. apply lookup_In in Hl.
    rewrite forallb_forall in H1. apply good_nameb_sound. exact (H1 _ Hl).
  - intros Hr d' Hd. inversion Hd; subst d'. destruct (e_rpc x); [|congruence]. now destruct d.
Qed.

Lemma wf_entryb_sound : forall fuel e, wf_entryb fuel e = true -> wf_entry e.
Proof.
  induction fuel as [|f IH]; intros e H; [discriminate|]. cbn [wf_entryb] in H.
  apply andb_true_iff in H as [H Hrpc]. apply andb_true_iff in H as [Hnode Hdir].
  intros steps x Hl. destruct steps as [|s r].
  - cbn in Hl. inversion Hl; subst. now apply node_okb_sound.
  - destruct s as [n| |]; cbn [locate] in Hl.
    + destruct (e_dir e) as [d|]; [|discriminate]. destruct (lookup n d) as [c|] eqn:El; [|discriminate].
      apply lookup_In in El. rewrite forallb_forall in Hdir. specialize (Hdir _ El). cbn in Hdir.
      exact (IH _ Hdir _ _ Hl).
    + destruct (e_rpc e) as [[[i|] o]|]; try discriminate. apply andb_true_iff in Hrpc as [Hi _].
      exact (IH _ Hi _ _ Hl).
    + destruct (e_rpc e) as [[i [o|]]|]; try discriminate. apply andb_true_iff in Hrpc as [_ Ho].
      exact (IH _ Ho _ _ Hl).
Qed.

Lemma wf_forestb_sound fuel F : wf_forestb fuel F = true -> wf_forest F.
Proof.
  unfold wf_forestb, wf_forest. intros H mn root Hl. apply lookup_In in Hl.
  rewrite forallb_forall in H. exact (wf_entryb_sound _ _ (H _ Hl)).
Qed.

Lemma wf_entry_child e s c : wf_entry e -> locate e [s] = Some c -> wf_entry c.
Proof. intros Hw Hl steps x Hx. apply (Hw (s :: steps)). change (s :: steps) with ([s] ++ steps). now rewrite locate_app, Hl. Qed.

Lemma wf_entry_path_ok : forall steps e x, wf_entry e -> locate e steps = Some x -> path_ok e steps.
Proof.
  induction steps as [|s r IH]; intros e x Hw Hl; [exact I|].
  pose proof (Hw [] e eq_refl) as [Hk Hr].
  destruct s as [n| |]; cbn [locate path_ok] in *.
  - destruct (e_dir e) as [d|] eqn:Ed; [|discriminate]. destruct (lookup n d) as [c|] eqn:El; [|discriminate].
    split; [|split].
    + destruct (e_rpc e) eqn:Er; [|reflexivity]. assert (d = []) by (apply Hr; congruence). subst. discriminate.
    + exact (Hk d n c eq_refl El).
    + eapply IH; [|exact Hl]. apply (wf_entry_child e (SChild n)); [exact Hw|]. cbn. now rewrite Ed, El.
  - destruct (e_rpc e) as [[[i|] o]|] eqn:Er; try discriminate.
    eapply IH; [|exact Hl]. apply (wf_entry_child e SIn); [exact Hw|]. cbn. now rewrite Er.
  - destruct (e_rpc e) as [[i [o|]]|] eqn:Er; try discriminate.
    eapply IH; [|exact Hl]. apply (wf_entry_child e SOut); [exact Hw|]. cbn. now rewrite Er.
Qed.

Lemma wf_forest_path_ok F p e : wf_forest F -> locate_pos F p = Some e -> path_ok_pos F p.
Proof.
  unfold locate_pos, path_ok_pos. intros Hw Hl. destruct (lookup (fst p) F) as [root|] eqn:Hr; [|exact I].
  eapply wf_entry_path_ok; eauto.
Qed.
(* ------------------------------------------------------------------ the theorems on well-formed forests *)
Section WF.
Variable SC : schema.

Theorem Find_abs_wf F ctx pfx mn steps e : wf_forest F ->
  names_module SC ctx pfx mn -> good_prefix pfx -> steps <> [] -> locate_pos F (mn, steps) = Some e ->
  forall start, Find SC F ctx start (abs_path pfx steps) = (Some (mn, steps), F).
Proof. intros Hw Hn Hp Hs Hl. eapply Find_abs; eauto. eapply wf_forest_path_ok; eauto. Qed.

Theorem Find_rel_wf F ctx mn c a b x : wf_forest F -> locate_pos F (mn, c ++ b) = Some x ->
  Find SC F ctx (mn, c ++ a) (rel_path a b) = (Some (mn, c ++ b), F).
Proof.
  intros Hw Hl. unfold locate_pos in Hl. cbn [fst snd] in Hl.
  destruct (lookup mn F) as [root|] eqn:Hroot; [|discriminate].
  rewrite locate_app in Hl. destruct (locate root c) as [ec|] eqn:Hc; [|discriminate].
  eapply Find_rel; eauto. eapply wf_entry_path_ok; [|exact Hl].
  intros steps y Hy. apply (Hw mn root Hroot (c ++ steps)). now rewrite locate_app, Hc.
Qed.

Theorem Find_abs_bad_step_wf F ctx pfx mn pre e nm rest : wf_forest F ->
  names_module SC ctx pfx mn -> good_prefix pfx -> locate_pos F (mn, pre) = Some e ->
  noslash nm -> no_child e nm -> Forall noslash rest ->
  forall start, Find SC F ctx start (join_abs (map (abs_part pfx) pre ++ (pfx ++ cCOLON :: nm) :: rest)) = (None, F).
Proof. intros Hw Hn Hp Hl. eapply Find_abs_bad_step; eauto. eapply wf_forest_path_ok; eauto. Qed.

Theorem Find_abs_lazy_input_wf F ctx pfx mn pre e o : wf_forest F ->
  names_module SC ctx pfx mn -> good_prefix pfx -> locate_pos F (mn, pre) = Some e -> e_rpc e = Some (None, o) ->
  forall start, Find SC F ctx start (abs_path pfx (pre ++ [SIn]))
                = (Some (mn, pre ++ [SIn]), update_pos F (mn, pre) (add_input o)).
Proof. intros Hw Hn Hp Hl. eapply Find_abs_lazy_input; eauto. eapply wf_forest_path_ok; eauto. Qed.

Theorem Find_abs_lazy_output_wf F ctx pfx mn pre e i : wf_forest F ->
  names_module SC ctx pfx mn -> good_prefix pfx -> locate_pos F (mn, pre) = Some e -> e_rpc e = Some (i, None) ->
  forall start, Find SC F ctx start (abs_path pfx (pre ++ [SOut]))
                = (Some (mn, pre ++ [SOut]), update_pos F (mn, pre) (add_output i)).
Proof. intros Hw Hn Hp Hl. eapply Find_abs_lazy_output; eauto. eapply wf_forest_path_ok; eauto. Qed.
End WF.

(* ------------------------------------------------------------------ absolute paths without prefixes *)
Section Plain.
Variable SC : schema.

Lemma Find_plain_unfold F ctx start first more :
  Forall noslash (first :: more) -> fst (getPrefix first) = [] ->
  Find SC F ctx start (join_abs (first :: more)) = find_steps F (Some (start_root SC start, [])) (first :: more).
Proof.
  intros Hns Hp. unfold Find. rewrite split_join_abs by exact Hns. cbn [rev].
  unfold join_abs at 1. cbn [map concat app]. rewrite Hp. reflexivity.
Qed.

(* T1 for "/n1/n2/...": looked up in the tree of the start position -- for a start position under a submodule's
   name, in the tree of the module the submodule belongs to -- whatever the context module *)
Theorem Find_abs_plain F ctx start steps e : steps <> [] ->
  locate_pos F (start_root SC start, steps) = Some e -> path_ok_pos F (start_root SC start, steps) ->
  Find SC F ctx start (plain_path steps) = (Some (start_root SC start, steps), F).
Proof.
  intros Hne Hl Hok. unfold locate_pos, path_ok_pos in *. cbn [fst snd] in *.
  destruct (lookup (start_root SC start) F) as [root|] eqn:Hroot; [|discriminate].
  pose proof (path_ok_good_steps _ _ _ Hl Hok) as Hgs.
  destruct steps as [|s steps]; [congruence|]. unfold plain_path. cbn [map].
  rewrite Find_plain_unfold.
  - change (step_name s :: map step_name steps) with (map step_name (s :: steps)).
    rewrite <- (app_nil_r (map _ _)).
    erewrite (find_steps_down F _ root Hroot (s :: steps) [] root); eauto.
    clear -Hgs. induction Hgs; constructor; [now apply plain_part_for|assumption].
  - change (Forall noslash (map step_name (s :: steps))). apply Forall_map.
    eapply Forall_impl; [|exact Hgs]. intros a. apply good_step_noslash.
  - inversion Hgs as [|? ? Hs _]; subst. now rewrite getPrefix_plain by now apply good_step_nocolon.
Qed.

Theorem Find_abs_plain_wf F ctx start steps e : wf_forest F -> steps <> [] ->
  locate_pos F (start_root SC start, steps) = Some e ->
  Find SC F ctx start (plain_path steps) = (Some (start_root SC start, steps), F).
Proof. intros Hw Hs Hl. eapply Find_abs_plain; eauto. eapply wf_forest_path_ok; eauto. Qed.

(* a position in a module's own tree is its own start root; one under a submodule's name maps to the owner *)
Lemma start_root_module start m : find_module SC (fst start) = Some m -> m_belongs m = None ->
  m_name m = fst start -> start_root SC start = fst start.
Proof. intros Hf Hb Hn. unfold start_root, owner. now rewrite Hf, Hb. Qed.

Lemma start_root_submodule start sm o : find_module SC (fst start) = Some sm -> owner SC sm = Some o ->
  start_root SC start = m_name o.
Proof. intros Hf Ho. unfold start_root. now rewrite Hf, Ho. Qed.
End Plain.
